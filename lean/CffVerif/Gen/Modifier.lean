/-
  G — the experimental "modifier" generation mode (`cff -genmode modifier`), transcribed from

      internal/gen2.go, internal/flow_modifier.go, internal/modifier/*.go,
      internal/modifier/templates/{flow,flow_func,flow_task,flow_types,func,concurrency,
                                   emitter,panic_error}.go.tmpl

  in the vocabulary of the base model (`Gen.genJobs`, `Gen.runTask`, `Gen.ideal`, `Gen.flowEnd`),
  and its agreement with base mode on the subset of flows it supports (C20, modifier part).

  What modifier mode generates.  Every option call `cff.X(args…)` inside a `cff.Flow` is renamed,
  in place, to a generated function `_cffX<file>_<line>_<col>(args…)` that returns a closure
  `func() (args…)` over its arguments (func.go.tmpl; concurrency.go.tmpl for cff.Concurrency);
  `cff.Flow` itself is renamed to `_cffFlow<file>_<line>_<col>(ctx, m1, m2, …) error`
  (flow.go.tmpl), which first calls every closure (`_l_c := m<…>()`, "modifierProviders",
  flow.go.tmpl:86-92) and then runs *the same scaffolding as base mode*: Params into `v<τ>`
  variables (l.15-17), emitter / flowInfo / schedInfo (l.18-45), deferred FlowDone (l.48),
  `cff.NewScheduler` with `Concurrency: <expr>` when cff.Concurrency was given (l.52-57), one job
  per entry of `.TopoFuncs` (l.61-63), `sched.Wait` (l.65-68), Results copy (l.70-72), FlowSuccess,
  `return nil`.

  The compiler front end (internal/compile.go) is shared: `flow.Funcs`, `function.DependsOn` and
  `flow.TopoFuncs` are computed once (`scheduleFlowAndToposort`, compile.go:574-601) and both
  template sets range over the same `.TopoFuncs` and the same `.Function.DependsOn`.

  Differences from base mode found in the templates (each is reflected in a definition below):

  (D1) flow_func.go.tmpl:1-3 emits a job only `if not .Predicate`: predicate functions of
       `.TopoFuncs` are skipped, yet flow_task.go.tmpl:41-47 ("dependencies") still writes
       `pred<N>.job` for a dependency on a predicate — an undefined identifier.  `genJobsMod`
       filters the predicate entries out and `modRefsDefined` is the "compiles" check.  Outside the
       supported subset only (`mod_pred_dangling`).
  (D2) flow_task.go.tmpl:16-26, the task body, is
           defer func() { recovered := recover(); if recovered != nil { err = &cff.PanicError{…} } }()
           v…, err = f(ctx?, v…)
           return
       There IS a recover block (l.17-22) and it builds the same `*cff.PanicError{Value, Stacktrace:
       debug.Stack()}` as base mode's task.go.tmpl:73 (both instantiate the template "panicError").
       The error is returned through the named result `err` by the bare `return` (l.25); base mode
       writes `return err` inside `if err != nil` (task.go.tmpl:90-98) — the same value.
  (D3) No task emitter: `task<N>.emitter` is never assigned (it stays nil and is never used); none of
       TaskSuccess / TaskError / TaskPanic / TaskDone / TaskErrorRecovered / TaskPanicRecovered is
       sent (base: task.go.tmpl:37-41, 61, 66, 92, 97, 101, 104).  `runTaskMod` has `events := []`.
  (D4) No `defer task<N>.ran.Store(true)` (base: task.go.tmpl:85): `ran` stays false
       (`runTaskMod_ran`, `idealMod_ran`).
  (D5) No predicate gate (`if !p<k> { return nil }`, base task.go.tmpl:79-83) and no FallbackWith
       handling (base task.go.tmpl:60-64, 91-95): a task's cff.Predicate / cff.FallbackWith options are
       ignored by the body.  Outside the supported subset only (`mod_ignores_fallback`).
  (D6) flow.go.tmpl has no `defer func() { for _, t := range tasks { if !t.ran.Load() {
       t.emitter.TaskSkipped(ctx, err) } } }()` (base flow.go.tmpl:57-63): no TaskSkipped sweep.  With
       (D4) every task would count as "not run" and with (D3) `t.emitter` is nil, so the sweep could
       not have been kept as is.  `flowEndMod` has no sweep.
  (D7) The generated function is an ordinary `func(...) error` with unnamed result (flow.go.tmpl:5-10);
       base mode's closure has the named result `err` (which the sweep reads).  `return err` /
       `return nil` are the same statements (flow.go.tmpl:65-68, 75).
  (D8) User expressions are evaluated at the call site, as arguments of the `_cff…` functions, in
       source order by Go's own rules; the flow body only reads the closures' results (`_l_c`).  In
       particular the concurrency is `Concurrency: _l_c` with `_l_c := m…()` being the `int` captured
       by `_cffConcurrency…(c int) func() int { return func() int { return c } }`
       (concurrency.go.tmpl:1-3): the value of the user's expression, converted to `int` by the
       call, exactly as the struct field `Concurrency: <expr>` converts it in base mode (`concMod`).
  (D9) flow.go.tmpl still honours `cff.InstrumentFlow` at directive level (l.22-33: FlowInit,
       FlowSuccess/FlowError/FlowDone) and `cff.WithEmitter` (emitter.go.tmpl) — outside the
       subset, where the harness does not look; `flowEndMod` transcribes it anyway.

  Nothing in (D2)-(D4), (D6)-(D8) is observable on the supported subset, where no task and no flow is
  instrumented: the theorems below prove that the modifier-mode job program is *equal* to the
  base-mode one (`genJobsMod_eq`), that a task body returns the same error, calls the function with
  the same arguments and assigns the same `v<τ>` in all three outcomes ok / err / panic
  (`runTaskMod_agrees`), and that the reference executions agree on everything but `ran`
  (`C20_modifier`).
-/
import CffVerif.Gen.Compose
import CffVerif.Gen.FlowRun
import CffVerif.Gen.Accept

namespace Gen

/-! ### 1. the supported subset -/

/-- A task modifier mode supports: a plain `cff.Task(f)` whose function has at least one non-error
    result (a function without results needs `cff.Invoke(true)`, a task option). -/
def Task.modPlain (t : Task) : Bool :=
  !t.pred && !t.fb && !t.invoke && !t.instr && !t.outs.isEmpty

/-- The semantic part of the harness' `IsModSubset` (harness/internal/proggen/gen.go): a cff.Flow
    with Params, Results, Concurrency and plain Tasks only; no emitter, no InstrumentFlow. -/
def ModSubset (p : Prog) : Bool :=
  (p.kind == .flow) && (p.emitters == 0) && !p.instrDir && p.tasks.all Task.modPlain

/-- The literal mirror of `IsModSubset`, including its bookkeeping conditions (stream "wf", at least
    one task, quirk ∈ {"", timealias, params2}; the empty quirk is serialised as "-"). -/
def ModSubsetH (p : Prog) : Bool :=
  ModSubset p && (p.stream == "wf") && !p.tasks.isEmpty &&
    (p.quirk == "-" || p.quirk == "" || p.quirk == "timealias" || p.quirk == "params2")

theorem ModSubsetH_sub {p : Prog} (h : ModSubsetH p = true) : ModSubset p = true := by
  simp only [ModSubsetH, Bool.and_eq_true] at h
  exact h.1.1.1

/-! ### 2. transcription of the modifier templates -/

/-- The jobs modifier mode enqueues, in order (flow.go.tmpl:61-63 ranges over `.TopoFuncs`;
    flow_func.go.tmpl:1 keeps the entries that are not predicates), each with its `Dependencies`
    list (flow_task.go.tmpl:30-36 ranges over `.Function.DependsOn`, as base mode does), as
    positions in the list of *emitted* jobs.  A dependency on a predicate names `pred<N>.job`,
    which modifier mode never defines (D1): it is mapped to the out-of-range position
    `length` (`List.idxOf` of an absent element). -/
def genJobsMod (p : Prog) : List Job :=
  let fs := funcs p
  let topo := (toposort fs).filter fun i => !(fs.getD i default).isPred
  topo.map fun i =>
    { fn := fs.getD i default,
      deps := (dependsOn fs i).map fun d => topo.idxOf d }

/-- Every `Dependencies` entry names a job variable the generated function defines
    ("the modifier-mode output compiles", as far as job references go). -/
def modRefsDefined (p : Prog) : Bool :=
  (genJobsMod p).all fun j => j.deps.all (· < (genJobsMod p).length)

/-- Task job of modifier mode (flow_task.go.tmpl:16-26), for any task — the template looks at
    nothing but the function, its inputs and its outputs (D5):

    * the call `v…, err = f(ctx?, v…)` with the current values of the input variables;
    * ok: the outputs are assigned, `return` returns the nil `err`;
    * err: the named result `err` was assigned by the call and the bare `return` returns it (D2)
      (as in base mode the non-error results the function returned with the error are also
      assigned; both models leave the store alone because nothing can read them: dependents do not
      run and Results are not copied);
    * panic: the deferred block recovers it into `err = &cff.PanicError{…}` (D2), the assignment
      of the call never happened;
    * no events (D3), `ran` untouched (D4). -/
def runTaskMod (t : Task) (sc : Scenario) (s : Store) : BodyRes :=
  let args := t.ins.map s.val
  match sc.fnOut t.k with
  | .ok =>
    { store := s.setVals t.outs ((List.range t.outs.length).map fun o => taskOut t.k o args),
      invoked := true, args }
  | .err => { store := s, ret := some s!"err:{t.k}", invoked := true, args }
  | .panic => { store := s, ret := some s!"panic:{t.k}:{sc.vclass 't' t.k 0}", invoked := true, args }

/-- Every emitted job is a task job (D1). -/
def runJobMod (p : Prog) (sc : Scenario) (j : Job) (s : Store) : BodyRes :=
  runTaskMod (taskOf p j.fn.k) sc s

/-- The step of the reference execution of the modifier-mode job program (`Gen.idealFn` with
    modifier-mode bodies). -/
def idealFnMod (p : Prog) (sc : Scenario) (acc : Ideal) (j : Job) : Ideal :=
  let ready := j.deps.all fun d => acc.succ.getD d false
  if !ready then { acc with succ := acc.succ ++ [false] }
  else
    let r := runJobMod p sc j acc.store
    let acc := { acc with store := r.store, succ := acc.succ ++ [r.ret.isNone] }
    acc.upd j.fn.k fun f => { f with jobRan := true, fnCalled := r.invoked, fnArgs := r.args, fail := r.ret,
                                     failIsPred := r.ret.isSome && !r.invoked }

/-- The reference execution of the modifier-mode job program: jobs in enqueue order, from the
    same initial store (flow.go.tmpl:15-17 initialises the Params variables as base mode does);
    a job runs iff all the jobs it lists as `Dependencies` ran and returned nil. -/
def idealMod (p : Prog) (sc : Scenario) : Ideal :=
  (genJobsMod p).foldl (idealFnMod p sc) { store := start p }

/-- The end of the generated function (flow.go.tmpl:65-75): what `Wait` returned is returned
    unchanged; on nil the Results targets receive their variables.  Directive-level events as in
    base mode (D9); no TaskSkipped sweep (D6). -/
def flowEndMod (p : Prog) (wait : List String) (st : Store) : FlowEnd :=
  let rc := retCls wait
  let outcome : List DEv :=
    if !p.instrDir then [] else if wait.isEmpty then [("FlowSuccess", -1, "-")] else [("FlowError", -1, rc)]
  let done : List DEv := if p.instrDir then [("FlowDone", -1, "-")] else []
  { ret := wait
    written := if wait.isEmpty then (List.range p.results.length).map fun i => (i, st.val (p.results.getD i 0)) else []
    events := outcome ++ done }

/-- The scheduler's concurrency bound (D8): `Concurrency: <value of the user's expression>` when
    cff.Concurrency was given, the scheduler's default otherwise — in both modes
    (modifier flow.go.tmpl:54 and base flow.go.tmpl:51 are the same line). -/
def concBase (p : Prog) (sc : Scenario) (defaultConc : Nat) : Nat :=
  match p.conc with
  | some _ => sc.conc.getD defaultConc
  | none => defaultConc

/-- Modifier mode: the value is captured by `_cffConcurrency…(c int)` at the call site and read back
    by `_l_c := m…()` before `NewScheduler`. -/
def concMod (p : Prog) (sc : Scenario) (defaultConc : Nat) : Nat :=
  let captured : Option Nat := p.conc.map fun _ => sc.conc.getD defaultConc  -- the closure `func() int { return c }`
  captured.getD defaultConc

/-! ### the reference outcome of a flow -/

/-- What `Wait` returns in the sequential reference execution: the error of the first job, in
    enqueue order, whose body returned one (`[]` = nil). -/
def refWait (js : List Job) (I : Ideal) : List String :=
  ((js.filterMap fun j => if j.fn.isPred then none else (I.get j.fn.k).fail).head?).toList

/-- The errors a concurrent (fail-fast) run may return: the oracle's `fails` (Gen.Check.checkFlow). -/
def idealFails (p : Prog) (I : Ideal) : List String := p.tasks.filterMap fun t => (I.get t.k).fail

def refOutcome (p : Prog) (sc : Scenario) : FlowEnd :=
  flowEnd p (refWait (genJobs p) (ideal p sc)) (ideal p sc).store

def refOutcomeMod (p : Prog) (sc : Scenario) : FlowEnd :=
  flowEndMod p (refWait (genJobsMod p) (idealMod p sc)) (idealMod p sc).store

/-! ### 3a. the subset: plain tasks only -/

theorem modSubset_facts {p : Prog} (h : ModSubset p = true) :
    p.kind = .flow ∧ p.emitters = 0 ∧ p.instrDir = false ∧
    ∀ t ∈ p.tasks, t.pred = false ∧ t.fb = false ∧ t.invoke = false ∧ t.instr = false ∧ t.outs ≠ [] := by
  simp only [ModSubset, Bool.and_eq_true, beq_iff_eq, Bool.not_eq_true', List.all_eq_true] at h
  obtain ⟨⟨⟨h1, h2⟩, h3⟩, h4⟩ := h
  refine ⟨h1, h2, h3, ?_⟩
  intro t ht
  have := h4 t ht
  simp only [Task.modPlain, Bool.and_eq_true, Bool.not_eq_true', List.isEmpty_eq_false_iff] at this
  obtain ⟨⟨⟨⟨a, b⟩, c⟩, d⟩, e⟩ := this
  exact ⟨a, b, c, d, e⟩

/-- `taskOf` of any id is a task without predicate, fallback or instrumentation (a listed task,
    or the default task). -/
theorem taskOf_plain {p : Prog} (h : ModSubset p = true) (k : Nat) :
    (taskOf p k).pred = false ∧ (taskOf p k).fb = false ∧ (taskOf p k).instr = false := by
  unfold taskOf
  cases hf : p.tasks.find? (·.k == k) with
  | none => exact ⟨rfl, rfl, rfl⟩
  | some t =>
    obtain ⟨a, b, _, d, _⟩ := (modSubset_facts h).2.2.2 t (List.mem_of_find?_eq_some hf)
    exact ⟨a, b, d⟩

theorem flatMap_noPred (ts : List Task) (h : ∀ t ∈ ts, t.pred = false) :
    (ts.flatMap fun t => if t.pred then [t.fn, t.predFn] else [t.fn]) = ts.map Task.fn := by
  induction ts with
  | nil => rfl
  | cons t ts ih =>
    have ht : t.pred = false := h t (List.mem_cons_self ..)
    rw [List.flatMap_cons, List.map_cons, ih (fun u hu => h u (List.mem_cons_of_mem _ hu))]
    simp [ht]

/-- Without predicates `flow.Funcs` is the list of task functions. -/
theorem funcs_noPred {p : Prog} (h : ∀ t ∈ p.tasks, t.pred = false) : funcs p = p.tasks.map Task.fn :=
  flatMap_noPred p.tasks h

theorem funcs_isPred_false {p : Prog} (h : ∀ t ∈ p.tasks, t.pred = false) (i : Nat) :
    ((funcs p).getD i default).isPred = false := by
  rw [funcs_noPred h, List.getD_eq_getElem?_getD, List.getElem?_map]
  cases p.tasks[i]? with
  | none => rfl
  | some t => rfl

/-! ### 3b. the same job program -/

/-- **Same jobs, same order, same `Dependencies`.**  For a flow without predicates — in particular
    for every flow of the supported subset — modifier mode enqueues exactly the jobs of base mode,
    in the same order, each with the same `Dependencies` list (not merely the same set). -/
theorem genJobsMod_eq_of_noPred (p : Prog) (h : ∀ t ∈ p.tasks, t.pred = false) : genJobsMod p = genJobs p := by
  have hf : ((toposort (funcs p)).filter fun i => !((funcs p).getD i default).isPred) = toposort (funcs p) := by
    rw [List.filter_eq_self]
    intro i _
    rw [funcs_isPred_false h i]; rfl
  unfold genJobsMod genJobs
  simp only [hf]

theorem genJobsMod_eq (p : Prog) (hm : ModSubset p = true) : genJobsMod p = genJobs p :=
  genJobsMod_eq_of_noPred p fun t ht => ((modSubset_facts hm).2.2.2 t ht).1

/-- For an accepted flow of the subset the emitted order respects the dependencies: every
    `task<N>.job` a job lists was defined (enqueued) before it, and every function of the flow has
    exactly one job. -/
theorem genJobsMod_deps_before (p : Prog) (hm : ModSubset p = true) (hacc : validateFlow p = []) :
    (∀ (pos : Nat) (j : Job), (genJobsMod p)[pos]? = some j → ∀ d ∈ j.deps, d < pos) ∧
    (genJobsMod p).length = p.tasks.length := by
  rw [genJobsMod_eq p hm]
  obtain ⟨h1, h2⟩ := genJobs_deps_before p (accept_acyclic p hacc)
  refine ⟨h1, ?_⟩
  rw [h2, funcs_noPred fun t ht => ((modSubset_facts hm).2.2.2 t ht).1, List.length_map]

/-- … hence every job reference in the generated function is defined. -/
theorem modRefsDefined_of_accepted (p : Prog) (hm : ModSubset p = true) (hacc : validateFlow p = []) :
    modRefsDefined p = true := by
  obtain ⟨h1, _⟩ := genJobsMod_deps_before p hm hacc
  simp only [modRefsDefined, List.all_eq_true, decide_eq_true_eq]
  intro j hj d hd
  obtain ⟨pos, hpos, hget⟩ := List.getElem_of_mem hj
  have : (genJobsMod p)[pos]? = some j := by rw [List.getElem?_eq_getElem hpos, hget]
  have := h1 pos j this d hd
  omega

/-! ### 3c. the task body -/

/-- Stores that agree on everything but `ran`. -/
def ModEq (a b : Store) : Prop := a.val = b.val ∧ a.p = b.p ∧ a.pPanic = b.pPanic

theorem ModEq.refl (a : Store) : ModEq a a := ⟨rfl, rfl, rfl⟩

/-- Modifier-mode bodies never touch `ran`, `p<k>` or the predicate-panic variables, and send
    nothing to an emitter (D3, D4), for any task. -/
theorem runTaskMod_frame (t : Task) (sc : Scenario) (s : Store) :
    (runTaskMod t sc s).store.ran = s.ran ∧ (runTaskMod t sc s).store.p = s.p ∧
    (runTaskMod t sc s).store.pPanic = s.pPanic ∧ (runTaskMod t sc s).events = [] ∧
    (runTaskMod t sc s).crashed = false := by
  unfold runTaskMod
  cases sc.fnOut t.k <;> simp [setVals_ran, setVals_p, setVals_pPanic]

theorem runTaskMod_ran (t : Task) (sc : Scenario) (s : Store) : (runTaskMod t sc s).store.ran = s.ran :=
  (runTaskMod_frame t sc s).1

/-- Base-mode bodies of plain tasks set `ran` (task.go.tmpl:85) whenever they get to the call. -/
theorem runTask_ran (t : Task) (hp : t.pred = false) (sc : Scenario) (s : Store) :
    (runTask .std t sc s).store.ran = fun x => if x == t.k then true else s.ran x := by
  unfold runTask
  simp only [hp, Bool.false_and, Bool.false_eq_true, if_false]
  cases sc.fnOut t.k <;> cases t.fb <;> simp [setVals_ran, BodyFlags.std]

/-- Simulation form: from stores that agree on everything but `ran`, the modifier-mode body and the
    base-mode body of a task without predicate and fallback return the same error (in all three
    outcomes ok / err / panic), call the function with the same arguments, neither lets a panic
    escape, and leave stores that again agree on everything but `ran`. -/
theorem runTaskMod_sim (t : Task) (hp : t.pred = false) (hf : t.fb = false) (sc : Scenario) (s' s : Store)
    (h : ModEq s' s) :
    (runTaskMod t sc s').ret = (runTask .std t sc s).ret ∧
    (runTaskMod t sc s').invoked = (runTask .std t sc s).invoked ∧
    (runTaskMod t sc s').args = (runTask .std t sc s).args ∧
    (runTaskMod t sc s').crashed = (runTask .std t sc s).crashed ∧
    ModEq (runTaskMod t sc s').store (runTask .std t sc s).store := by
  obtain ⟨hv, hpp, hpq⟩ := h
  unfold runTaskMod runTask ModEq
  simp only [hp, hf, Bool.false_and, Bool.false_eq_true, if_false, hv]
  cases sc.fnOut t.k <;>
    simp [BodyFlags.std, setVals_p, setVals_pPanic, hpp, hpq, hv] <;>
    exact setVals_val_congr _ _ _ _ hv

/-- **The task bodies agree** (same input store): for a task without predicate and fallback — every
    task of the subset — `runTaskMod` and `runTask .std` return the same error (ok: nil, err: the
    function's error, panic: the `*cff.PanicError` of the recovered value: modifier mode also
    recovers), pass the same arguments, and assign the same `v<τ>`; the stores differ in `ran[t.k]`
    only, and base mode sends TaskSuccess/TaskError/TaskPanic + TaskDone to the task emitter
    (`cff.NopTaskEmitter()` in the subset) where modifier mode sends nothing. -/
theorem runTaskMod_agrees (t : Task) (hp : t.pred = false) (hf : t.fb = false) (sc : Scenario) (s : Store) :
    (runTaskMod t sc s).ret = (runTask .std t sc s).ret ∧
    (runTaskMod t sc s).invoked = (runTask .std t sc s).invoked ∧
    (runTaskMod t sc s).args = (runTask .std t sc s).args ∧
    (runTaskMod t sc s).crashed = (runTask .std t sc s).crashed ∧
    (runTaskMod t sc s).store.val = (runTask .std t sc s).store.val ∧
    (runTaskMod t sc s).store.p = (runTask .std t sc s).store.p ∧
    (runTaskMod t sc s).store.pPanic = (runTask .std t sc s).store.pPanic ∧
    (runTaskMod t sc s).store.ran = s.ran ∧
    (runTask .std t sc s).store.ran = (fun x => if x == t.k then true else s.ran x) ∧
    (runTaskMod t sc s).events = [] := by
  obtain ⟨h1, h2, h3, h4, h5, h6, h7⟩ := runTaskMod_sim t hp hf sc s s (ModEq.refl s)
  exact ⟨h1, h2, h3, h4, h5, h6, h7, runTaskMod_ran t sc s, runTask_ran t hp sc s,
    (runTaskMod_frame t sc s).2.2.2.1⟩

/-- The panic case spelled out: both modes recover the panic into the same error class. -/
theorem runTaskMod_panic (t : Task) (hp : t.pred = false) (hf : t.fb = false) (sc : Scenario) (s : Store)
    (hpanic : sc.fnOut t.k = .panic) :
    (runTaskMod t sc s).ret = some s!"panic:{t.k}:{sc.vclass 't' t.k 0}" ∧
    (runTask .std t sc s).ret = some s!"panic:{t.k}:{sc.vclass 't' t.k 0}" ∧
    (runTaskMod t sc s).crashed = false ∧ (runTask .std t sc s).crashed = false ∧
    (runTaskMod t sc s).store.val = s.val ∧ (runTask .std t sc s).store.val = s.val := by
  unfold runTaskMod runTask
  simp [hp, hf, hpanic, BodyFlags.std]

/-! ### 3d. the reference executions -/

/-- Job-level simulation for the jobs of a subset program. -/
theorem runJobMod_sim {p : Prog} (hm : ModSubset p = true) (sc : Scenario) (j : Job) (hj : j.fn.isPred = false)
    (s' s : Store) (h : ModEq s' s) :
    (runJobMod p sc j s').ret = (runJob p sc j s).ret ∧
    (runJobMod p sc j s').invoked = (runJob p sc j s).invoked ∧
    (runJobMod p sc j s').args = (runJob p sc j s).args ∧
    ModEq (runJobMod p sc j s').store (runJob p sc j s).store := by
  obtain ⟨hp, hf, _⟩ := taskOf_plain hm j.fn.k
  obtain ⟨h1, h2, h3, _, h5⟩ := runTaskMod_sim (taskOf p j.fn.k) hp hf sc s' s h
  unfold runJobMod runJob
  simp only [hj, Bool.false_eq_true, if_false]
  exact ⟨h1, h2, h3, h5⟩

/-- The relation kept by the two reference executions. -/
def IdealRel (a b : Ideal) : Prop := ModEq a.store b.store ∧ a.succ = b.succ ∧ a.info = b.info

theorem idealFnMod_sim {p : Prog} (hm : ModSubset p = true) (sc : Scenario) (j : Job) (hj : j.fn.isPred = false)
    (a b : Ideal) (h : IdealRel a b) : IdealRel (idealFnMod p sc a j) (idealFn p sc b j) := by
  obtain ⟨hs, hsucc, hinfo⟩ := h
  obtain ⟨h1, h2, h3, h4⟩ := runJobMod_sim hm sc j hj a.store b.store hs
  unfold idealFnMod idealFn IdealRel
  simp only [hsucc]
  cases hr : (j.deps.all fun d => b.succ.getD d false) with
  | false =>
    simp only [Bool.not_false, if_true]
    exact ⟨hs, trivial, hinfo⟩
  | true =>
    simp only [Bool.not_true, Bool.false_eq_true, if_false, hj]
    simp only [Ideal.upd, Ideal.get, hinfo, h1, h2, h3]
    exact ⟨h4, trivial, trivial⟩

theorem foldl_ideal_sim {p : Prog} (hm : ModSubset p = true) (sc : Scenario) :
    ∀ (js : List Job), (∀ j ∈ js, j.fn.isPred = false) → ∀ (a b : Ideal), IdealRel a b →
      IdealRel (js.foldl (idealFnMod p sc) a) (js.foldl (idealFn p sc) b) := by
  intro js
  induction js with
  | nil => intro _ a b h; exact h
  | cons j js ih =>
    intro hjs a b h
    simp only [List.foldl_cons]
    exact ih (fun x hx => hjs x (List.mem_cons_of_mem _ hx)) _ _
      (idealFnMod_sim hm sc j (hjs j (List.mem_cons_self ..)) a b h)

theorem genJobs_isPred_false {p : Prog} (h : ∀ t ∈ p.tasks, t.pred = false) : ∀ j ∈ genJobs p, j.fn.isPred = false := by
  intro j hj
  unfold genJobs at hj
  obtain ⟨i, _, rfl⟩ := List.mem_map.mp hj
  exact funcs_isPred_false h i

/-- The two reference executions agree on everything but `ran`. -/
theorem idealMod_rel (p : Prog) (hm : ModSubset p = true) (sc : Scenario) : IdealRel (idealMod p sc) (ideal p sc) := by
  have hnp : ∀ t ∈ p.tasks, t.pred = false := fun t ht => ((modSubset_facts hm).2.2.2 t ht).1
  rw [ideal_eq_foldl]
  unfold idealMod
  rw [genJobsMod_eq p hm]
  exact foldl_ideal_sim hm sc _ (genJobs_isPred_false hnp) _ _ ⟨ModEq.refl _, rfl, rfl⟩

/-- (D4) In modifier mode `ran` is false for every task at every moment — for any program. -/
theorem idealMod_ran (p : Prog) (sc : Scenario) : (idealMod p sc).store.ran = fun _ => false := by
  unfold idealMod
  have gen : ∀ (js : List Job) (a : Ideal), a.store.ran = (fun _ => false) →
      (js.foldl (idealFnMod p sc) a).store.ran = fun _ => false := by
    intro js
    induction js with
    | nil => intro a h; exact h
    | cons j js ih =>
      intro a h
      simp only [List.foldl_cons]
      apply ih
      unfold idealFnMod
      cases (j.deps.all fun d => a.succ.getD d false) with
      | false => simpa using h
      | true =>
        simp only [Bool.not_true, Bool.false_eq_true, if_false, Ideal.upd]
        unfold runJobMod
        rw [runTaskMod_ran]; exact h
  exact gen _ _ rfl

/-! ### 3e. the end of the flow -/

theorem instrTasksInOrder_nil {p : Prog} (hm : ModSubset p = true) : instrTasksInOrder p = [] := by
  unfold instrTasksInOrder
  rw [List.filterMap_eq_nil_iff]
  intro j _
  have hi := (taskOf_plain hm j.fn.k).2.2
  have hd := (modSubset_facts hm).2.2.1
  simp [Prog.taskInstrumented, hi, hd]

/-- On the subset the two epilogues are the same function of `Wait`'s result and the `v<τ>`
    variables: same returned error, same Results writes, and no event in either mode (the sweep of
    base mode is empty: no task is instrumented). -/
theorem flowEndMod_eq (p : Prog) (hm : ModSubset p = true) (wait : List String) (st st' : Store)
    (h : st.val = st'.val) : flowEndMod p wait st = flowEnd p wait st' := by
  unfold flowEndMod flowEnd
  simp [instrTasksInOrder_nil hm, (modSubset_facts hm).2.2.1, h]

theorem concMod_eq (p : Prog) (sc : Scenario) (d : Nat) : concMod p sc d = concBase p sc d := by
  unfold concMod concBase
  cases p.conc <;> rfl

/-! ### 3f. C20, modifier mode -/

/-- **C20_modifier.**  For every program of the supported subset and *every* scenario (panicking
    functions included: both modes recover a panic into the same `*cff.PanicError`):

    1. modifier mode enqueues the same jobs, in the same order, with the same `Dependencies`;
    2. the reference execution of the modifier-mode job program records, for every task, the same
       facts as base mode's `ideal p sc` — whether its job ran, whether the function was called and
       with which arguments, and the error it returned;
    3. the same jobs succeed;
    4. all `v<τ>` variables (and the predicate variables) end with the same values;
    5. hence the same set of possible failures, the same error returned by `Wait` in the reference
       execution, and the same outcome of the generated function: returned error, Results writes,
       events (none);
    6. for whatever `Wait` returns (the real scheduler may return any of the possible failures), the
       two epilogues return the same error and write the same Results;
    7. the scheduler is created with the same concurrency.

    The only difference left is `ran` (D4): always false in modifier mode (`idealMod_ran`), read by
    nothing there (D6).  No acceptance hypothesis is needed: `validateFlow p = []` only adds that the
    job references are defined before use (`genJobsMod_deps_before`). -/
theorem C20_modifier (p : Prog) (hm : ModSubset p = true) (sc : Scenario) :
    genJobsMod p = genJobs p ∧
    (idealMod p sc).info = (ideal p sc).info ∧
    (idealMod p sc).succ = (ideal p sc).succ ∧
    ModEq (idealMod p sc).store (ideal p sc).store ∧
    (idealFails p (idealMod p sc) = idealFails p (ideal p sc) ∧
     refWait (genJobsMod p) (idealMod p sc) = refWait (genJobs p) (ideal p sc) ∧
     refOutcomeMod p sc = refOutcome p sc) ∧
    (∀ wait, flowEndMod p wait (idealMod p sc).store = flowEnd p wait (ideal p sc).store) ∧
    (∀ d, concMod p sc d = concBase p sc d) := by
  obtain ⟨hs, hsucc, hinfo⟩ := idealMod_rel p hm sc
  have hget : ∀ k, (idealMod p sc).get k = (ideal p sc).get k := fun k => by simp only [Ideal.get, hinfo]
  have hw : refWait (genJobsMod p) (idealMod p sc) = refWait (genJobs p) (ideal p sc) := by
    simp only [refWait, genJobsMod_eq p hm, hget]
  refine ⟨genJobsMod_eq p hm, hinfo, hsucc, hs, ⟨?_, hw, ?_⟩, ?_, concMod_eq p sc⟩
  · simp only [idealFails, hget]
  · unfold refOutcomeMod refOutcome
    rw [hw]
    exact flowEndMod_eq p hm _ _ _ hs.1
  · intro wait
    exact flowEndMod_eq p hm wait _ _ hs.1

/-- C20_modifier in the words of the task: the same Results values and the same returned error. -/
theorem C20_modifier_results (p : Prog) (hm : ModSubset p = true) (sc : Scenario) :
    (refOutcomeMod p sc).ret = (refOutcome p sc).ret ∧
    (refOutcomeMod p sc).written = (refOutcome p sc).written ∧
    (∀ τ, (idealMod p sc).store.val τ = (ideal p sc).store.val τ) ∧
    (∀ k, ((idealMod p sc).get k).fail = ((ideal p sc).get k).fail ∧
          ((idealMod p sc).get k).fnCalled = ((ideal p sc).get k).fnCalled ∧
          ((idealMod p sc).get k).fnArgs = ((ideal p sc).get k).fnArgs) := by
  obtain ⟨_, hinfo, _, hs, ⟨_, _, ho⟩, _, _⟩ := C20_modifier p hm sc
  refine ⟨by rw [ho], by rw [ho], fun τ => by rw [hs.1], fun k => ?_⟩
  simp only [Ideal.get, hinfo, and_self]

/-! ### 3g. any schedule: modifier-mode code under the real scheduler

  `C20_modifier` compares the two sequential reference executions.  The scheduler runs the bodies
  in some order that respects the `Dependencies`; `Gen.confluence` says that for base-mode bodies
  every such order computes what `ideal` computes.  The same holds for modifier-mode bodies. -/

def jobAtMod (p : Prog) (j : Nat) : Job := (genJobsMod p).getD j default

def execStepMod (p : Prog) (sc : Scenario) (acc : Store × List (Nat × BodyRes)) (j : Nat) :
    Store × List (Nat × BodyRes) :=
  ((runJobMod p sc (jobAtMod p j) acc.1).store, acc.2 ++ [(j, runJobMod p sc (jobAtMod p j) acc.1)])

/-- Run the modifier-mode bodies of the jobs at the given positions in the given order. -/
def execOrderMod (p : Prog) (sc : Scenario) (order : List Nat) : Store × List (Nat × BodyRes) :=
  order.foldl (execStepMod p sc) (start p, [])

theorem execOrderMod_snoc (p : Prog) (sc : Scenario) (o : List Nat) (j : Nat) :
    execOrderMod p sc (o ++ [j]) = execStepMod p sc (execOrderMod p sc o) j := by
  simp [execOrderMod, List.foldl_append]

/-- What the scheduler and the caller can see of an executed body. -/
def obsOf (x : Nat × BodyRes) : Nat × Option String × Bool × List Nat := (x.1, x.2.ret, x.2.invoked, x.2.args)

/-- An order in which the scheduler may run the modifier-mode jobs (`Gen.ValidOrder` for the
    modifier-mode job program and bodies). -/
def ValidOrderMod (p : Prog) (sc : Scenario) (o : List Nat) : Prop :=
  o.Nodup ∧ (∀ j ∈ o, j < (genJobsMod p).length) ∧
  ∀ n j, o[n]? = some j → ∀ d ∈ (jobAtMod p j).deps,
    ∃ (m : Nat) (r : BodyRes), m < n ∧ (execOrderMod p sc o).2[m]? = some (d, r) ∧ r.ret = none

theorem jobAt_isPred_false {p : Prog} (h : ∀ t ∈ p.tasks, t.pred = false) (j : Nat) : (jobAt p j).fn.isPred = false := by
  unfold jobAt
  rw [List.getD_eq_getElem?_getD]
  cases hj : (genJobs p)[j]? with
  | none => rfl
  | some x => exact genJobs_isPred_false h x (List.mem_of_getElem? hj)

/-- In any order whatsoever the modifier-mode bodies and the base-mode bodies see and produce the
    same values, errors and calls. -/
theorem execOrderMod_sim (p : Prog) (hm : ModSubset p = true) (sc : Scenario) : ∀ o,
    ModEq (execOrderMod p sc o).1 (execOrder p sc o).1 ∧
    (execOrderMod p sc o).2.map obsOf = (execOrder p sc o).2.map obsOf := by
  have hnp : ∀ t ∈ p.tasks, t.pred = false := fun t ht => ((modSubset_facts hm).2.2.2 t ht).1
  apply snoc_induction
  · exact ⟨ModEq.refl _, rfl⟩
  · intro o j ih
    obtain ⟨ih1, ih2⟩ := ih
    have hj : jobAtMod p j = jobAt p j := by unfold jobAtMod jobAt; rw [genJobsMod_eq p hm]
    obtain ⟨h1, h2, h3, h4⟩ := runJobMod_sim hm sc (jobAt p j) (jobAt_isPred_false hnp j) _ _ ih1
    rw [execOrderMod_snoc, execOrder_snoc]
    simp only [execStepMod, execStep, hj, List.map_append, List.map_cons, List.map_nil, ih2, obsOf, h1, h2, h3]
    exact ⟨h4, trivial⟩

theorem validOrderMod_valid {p : Prog} (hm : ModSubset p = true) {sc : Scenario} {o : List Nat}
    (hv : ValidOrderMod p sc o) : ValidOrder p sc o := by
  obtain ⟨hnd, hlt, hdeps⟩ := hv
  have hjobs := genJobsMod_eq p hm
  refine ⟨hnd, fun j hj => by rw [← hjobs]; exact hlt j hj, ?_⟩
  intro n j hn d hd
  have hj : jobAtMod p j = jobAt p j := by unfold jobAtMod jobAt; rw [hjobs]
  obtain ⟨m, r, hmn, hget, hret⟩ := hdeps n j hn d (by rw [hj]; exact hd)
  have hmap := (execOrderMod_sim p hm sc o).2
  have h1 : ((execOrderMod p sc o).2.map obsOf)[m]? = some (obsOf (d, r)) := by
    rw [List.getElem?_map, hget]; rfl
  rw [hmap, List.getElem?_map] at h1
  cases hx : (execOrder p sc o).2[m]? with
  | none => rw [hx] at h1; cases h1
  | some x =>
    rw [hx] at h1
    obtain ⟨xj, xr⟩ := x
    simp only [Option.map_some, obsOf, Option.some.injEq, Prod.mk.injEq] at h1
    obtain ⟨e1, e2, _, _⟩ := h1
    subst e1
    exact ⟨m, xr, hmn, hx, by rw [e2]; exact hret⟩

/-- **Schedule independence of modifier-mode code.**  For an accepted flow of the subset, in every
    order in which the scheduler may run the modifier-mode jobs, each executed body returns the
    error, and calls the function with the arguments, that the same job has in base mode's reference
    execution `ideal p sc`; and every `v<τ>` written by an executed job holds `ideal`'s value. -/
theorem modifier_schedule_independent (p : Prog) (hm : ModSubset p = true) (hacc : validateFlow p = [])
    (hs : SmallTypes p) (hd : DistinctIds p) (sc : Scenario) (o : List Nat) (hv : ValidOrderMod p sc o) :
    (∀ j r, (j, r) ∈ (execOrderMod p sc o).2 →
      ∃ ri, idealRes p sc j = some ri ∧ r.ret = ri.ret ∧ r.invoked = ri.invoked ∧ r.args = ri.args) ∧
    (∀ j ∈ o, ∀ τ, Var.val τ ∈ writesAt p j → (execOrderMod p sc o).1.val τ = (ideal p sc).store.val τ) := by
  obtain ⟨c1, c2, _⟩ := confluence p sc hacc hs hd o (validOrderMod_valid hm hv)
  obtain ⟨s1, s2⟩ := execOrderMod_sim p hm sc o
  constructor
  · intro j r hjr
    have : obsOf (j, r) ∈ (execOrder p sc o).2.map obsOf := by
      rw [← s2]; exact List.mem_map_of_mem hjr
    obtain ⟨⟨xj, xr⟩, hx, he⟩ := List.mem_map.mp this
    simp only [obsOf, Prod.mk.injEq] at he
    obtain ⟨e1, e2, e3, e4⟩ := he
    subst e1
    obtain ⟨ri, hri, hsame⟩ := c1 xj xr hx
    exact ⟨ri, hri, by rw [← e2]; exact hsame.1, by rw [← e3]; exact hsame.2.1, by rw [← e4]; exact hsame.2.2.1⟩
  · intro j hj τ hτ
    have := c2 j hj (Var.val τ) hτ
    simp only [Store.get] at this
    rw [s1.1]; exact this

/-- Executable form of `ValidOrderMod`. -/
def validOrderModB (p : Prog) (sc : Scenario) (o : List Nat) : Bool :=
  decide o.Nodup && o.all (· < (genJobsMod p).length) &&
  (List.range o.length).all fun n =>
    (jobAtMod p (o.getD n 0)).deps.all fun d =>
      (List.range n).any fun m =>
        match (execOrderMod p sc o).2[m]? with
        | some x => x.1 == d && x.2.ret.isNone
        | none => false

theorem validOrderModB_sound {p : Prog} {sc : Scenario} {o : List Nat} (h : validOrderModB p sc o = true) :
    ValidOrderMod p sc o := by
  simp only [validOrderModB, Bool.and_eq_true, decide_eq_true_eq, List.all_eq_true, List.any_eq_true,
    List.mem_range] at h
  obtain ⟨⟨h1, h2⟩, h3⟩ := h
  refine ⟨h1, h2, ?_⟩
  intro n j hn d hd
  have hlt : n < o.length := (List.getElem?_eq_some_iff.mp hn).1
  have hj : o.getD n 0 = j := by simp [List.getD_eq_getElem?_getD, hn]
  obtain ⟨m, hm, hmatch⟩ := h3 n hlt d (by rw [hj]; exact hd)
  cases hx : (execOrderMod p sc o).2[m]? with
  | none => rw [hx] at hmatch; cases hmatch
  | some x =>
    rw [hx] at hmatch
    obtain ⟨xj, xr⟩ := x
    simp only [Bool.and_eq_true, beq_iff_eq, Option.isNone_iff_eq_none] at hmatch
    obtain ⟨e1, e2⟩ := hmatch
    subst e1
    exact ⟨m, xr, hm, hx, e2⟩

/-! ### 3h. the differences, with witnesses -/

namespace ModExample

def t0 : Task := { k := 0, ins := [1], outs := [2] }
def t1 : Task := { k := 1, ins := [2], outs := [3], err := true }
def t2 : Task := { k := 2, ins := [1], outs := [4], err := true }
/-- Params [1], Results [3, 4], Concurrency(2); listed as t1, t2, t0 so that the enqueue order
    (t0, t1, t2) is not the listing order. -/
def prog : Prog := { params := [1], results := [3, 4], tasks := [t1, t2, t0], conc := some 2 }

/-- (D3, D4) the one difference inside the subset: base mode marks the task as run and talks to
    the (no-op) task emitter; modifier mode does neither. -/
theorem diff_ran_events :
    (runTask .std t0 {} {}).store.ran 0 = true ∧ (runTaskMod t0 {} {}).store.ran 0 = false ∧
    (runTask .std t0 {} {}).events = [("TaskSuccess", "-"), ("TaskDone", "-")] ∧ (runTaskMod t0 {} {}).events = [] ∧
    (ideal prog {}).store.ran 1 = true ∧ (idealMod prog {}).store.ran 1 = false := by
  decide

/-- (D1) outside the subset: a predicate's job is not emitted but still referenced. -/
def progPred : Prog :=
  { params := [1], results := [3], tasks := [{ k := 1, ins := [2], outs := [3], pred := true, pins := [2] }, t0] }

theorem mod_pred_dangling :
    validateFlow progPred = [] ∧ ModSubset progPred = false ∧
    (genJobs progPred).map (fun j => (j.fn.isPred, j.fn.k, j.deps)) = [(false, 0, []), (true, 1, [0]), (false, 1, [0, 1])] ∧
    -- modifier mode: two jobs; the second lists position 2 = `pred0.job`, which does not exist
    (genJobsMod progPred).map (fun j => (j.fn.isPred, j.fn.k, j.deps)) = [(false, 0, []), (false, 1, [0, 2])] ∧
    modRefsDefined progPred = false := by
  decide

/-- (D5) outside the subset: cff.FallbackWith is ignored by the modifier-mode body — base mode
    recovers the error into the fallback values and returns nil, modifier mode returns the error;
    and a false predicate does not gate the call. -/
theorem mod_ignores_fallback :
    let t : Task := { k := 0, ins := [1], outs := [2], err := true, fb := true }
    let sc : Scenario := { fn := [(0, .err)] }
    (runTask .std t sc {}).ret = none ∧ (runTaskMod t sc {}).ret.isSome = true ∧
    (let u : Task := { k := 0, ins := [1], outs := [2], pred := true }
     (runTask .std u {} {}).invoked = false ∧ (runTaskMod u {} {}).invoked = true) := by
  decide

/-- (D6) outside the subset: an instrumented task that did not run (its predicate was false) gets
    TaskSkipped from base mode's sweep; modifier mode has no sweep. -/
theorem mod_no_sweep :
    let p : Prog := { params := [1], results := [2],
                      tasks := [{ k := 0, ins := [1], outs := [2], instr := true, pred := true, pins := [1] }],
                      emitters := 1, instrDir := true }
    (flowEnd p [] {}).events = [("FlowSuccess", -1, "-"), ("TaskSkipped", 0, "nil"), ("FlowDone", -1, "-")] ∧
    (flowEndMod p [] {}).events = [("FlowSuccess", -1, "-"), ("FlowDone", -1, "-")] := by
  decide

/-! ### 4. non-vacuity -/

theorem prog_subset : ModSubset prog = true ∧ ModSubsetH prog = true := by decide
theorem prog_accepted : validateFlow prog = [] := by decide
theorem prog_small : SmallTypes prog := by unfold SmallTypes; decide
theorem prog_ids : DistinctIds prog := by unfold DistinctIds; decide

/-- The modifier-mode job program of the example: task 0, task 1 (after task 0), task 2. -/
theorem prog_jobs :
    (genJobsMod prog).map (fun j => (j.fn.k, j.deps)) = [(0, []), (1, [0]), (2, [])] ∧
    genJobsMod prog = genJobs prog ∧ modRefsDefined prog = true := by
  decide

/-- All functions succeed: nil is returned and both Results are written, with base mode's values. -/
theorem prog_ok :
    (refOutcomeMod prog {}).ret = [] ∧ (refOutcomeMod prog {}).written.map (·.1) = [0, 1] ∧
    (refOutcomeMod prog {}).written = (refOutcome prog {}).written ∧ (refOutcomeMod prog {}).events = [] := by
  decide

/-- Task 1's function fails: its error is returned, nothing is written — in both modes; task 0's
    function panics: the `*cff.PanicError` is returned in both modes. -/
theorem prog_err_panic :
    let scE : Scenario := { fn := [(1, .err)] }
    let scP : Scenario := { fn := [(0, .panic)], pv := 1 }
    (refOutcomeMod prog scE).ret = ["err:1"] ∧ (refOutcome prog scE).ret = ["err:1"] ∧
    (refOutcomeMod prog scE).written = [] ∧
    (refOutcomeMod prog scP).ret = ["panic:0:err"] ∧ (refOutcome prog scP).ret = ["panic:0:err"] ∧
    -- task 2 does not depend on the failed task 0 and still ran; task 1 did not
    (idealMod prog scP).succ = [false, false, true] ∧ (ideal prog scP).succ = [false, false, true] := by
  decide

/-- `C20_modifier` applied to the example, for every scenario. -/
theorem prog_C20 (sc : Scenario) : refOutcomeMod prog sc = refOutcome prog sc :=
  (C20_modifier prog prog_subset.1 sc).2.2.2.2.1.2.2

/-- A schedule that is not the enqueue order: task 2, then task 0, then task 1. -/
theorem prog_valid_order : ValidOrderMod prog {} [2, 0, 1] := validOrderModB_sound (by decide)

/-- `modifier_schedule_independent` applied to it: the three bodies computed `ideal`'s values. -/
theorem prog_schedule :
    ∀ τ ∈ [2, 3, 4], (execOrderMod prog {} [2, 0, 1]).1.val τ = (ideal prog {}).store.val τ := by
  have h := (modifier_schedule_independent prog prog_subset.1 prog_accepted prog_small prog_ids {} [2, 0, 1]
    prog_valid_order).2
  intro τ hτ
  simp only [List.mem_cons, List.not_mem_nil, or_false] at hτ
  rcases hτ with rfl | rfl | rfl
  · exact h 0 (by decide) 2 (by decide)
  · exact h 1 (by decide) 3 (by decide)
  · exact h 2 (by decide) 4 (by decide)

end ModExample

end Gen
