/-
  Flow-level, schedule-universal corollaries (part 3: C01 order of calls, C03 concurrency bound,
  C05 termination and progress, C09 cancellation, C19 state reports, C12 single writer).

  As in parts 1 and 2 (`Gen/FlowCorollaries.lean`, `Gen/FlowCorollaries2.lean`) every statement is
  about `RunH p sc c acts s`: an accepted flow `p`, a scenario `sc`, a standard-wiring
  configuration `c` built from `genJobs p` (any `N ≥ 1`, either error mode), ANY action list
  `acts` and the state `s` it reaches, with a log consistent with the generated bodies.

  Helper lemmas first (two small scheduler facts that the S theorems did not state yet: every step
  only appends to the log, and a job whose body started and has not ended occupies a worker slot),
  then the property theorems in the final section, then their application to concrete runs.
-/
import CffVerif.Gen.FlowCorollaries2

/-! ## Scheduler helpers -/

namespace Sched

/-- Every step only appends to the log. -/
theorem step_log_append {c : Cfg} (hw : c.wiring = Wiring.std) {s s' : State} {a : Act}
    (hs : step c s a = some s') : ∃ es, s'.log = s.log ++ es := by
  cases a with
  | callerSend => obtain ⟨_, _, _, _, rfl⟩ := inv_callerSend hs; exact ⟨[_], rfl⟩
  | callerClose => obtain ⟨_, _, rfl⟩ := inv_callerClose hs; exact ⟨[], by simp⟩
  | callerRetCtx => obtain ⟨_, _, _, rfl⟩ := inv_callerRetCtx hw hs; exact ⟨[_], rfl⟩
  | callerRetFin => obtain ⟨_, _, _, rfl⟩ := inv_callerRetFin hs; exact ⟨[_], rfl⟩
  | loopEnq => obtain ⟨_, _, _, _, _, rfl⟩ := inv_loopEnq hs; exact ⟨[_], rfl⟩
  | loopEnqClosed => obtain ⟨_, _, _, _, rfl⟩ := inv_loopEnqClosed hs; exact ⟨[], by simp⟩
  | loopDispatch w => obtain ⟨_, _, _, _, _, rfl⟩ := inv_loopDispatch hs; exact ⟨[_], rfl⟩
  | loopResult => obtain ⟨_, _, _, _, _, rfl⟩ := inv_loopResult hs; exact ⟨_, by simp [List.append_assoc]; rfl⟩
  | loopTick => obtain ⟨_, _, rfl⟩ := inv_loopTick hs; exact ⟨[_], rfl⟩
  | loopDrain => obtain ⟨_, _, _, _, rfl⟩ := inv_loopDrain hw hs; exact ⟨[], by simp⟩
  | loopClose => obtain ⟨_, _, _, rfl⟩ := inv_loopClose hw hs; exact ⟨[_], rfl⟩
  | workerDecide w =>
    obtain ⟨_, _, hc⟩ := inv_workerDecide hw hs
    rcases hc with ⟨_, rfl⟩ | ⟨_, _, rfl⟩ | ⟨_, _, rfl⟩ <;> exact ⟨[_], rfl⟩
  | workerEnd w o cancel =>
    obtain ⟨j, _, rfl⟩ := inv_workerEnd hs
    rcases afterBody_log c s j o cancel with h | h
    · exact ⟨_, h⟩
    · exact ⟨_, h⟩
  | workerPost w => obtain ⟨_, _, _, _, rfl⟩ := inv_workerPost hs; exact ⟨[], by simp⟩
  | workerDiePost w => obtain ⟨_, _, _, rfl⟩ := inv_workerDiePost hw hs; exact ⟨[], by simp⟩
  | workerExit w => obtain ⟨_, _, rfl⟩ := inv_workerExit hs; exact ⟨[], by simp⟩
  | cancel x => obtain ⟨_, _, rfl⟩ := inv_cancel hs; exact ⟨[_], rfl⟩

/-- Every continuation only appends to the log. -/
theorem run_log_append {c : Cfg} (hw : c.wiring = Wiring.std) (more : List Act) (s s' : State)
    (hr : run c s more = some s') : ∃ es, s'.log = s.log ++ es := by
  refine run_induct (c := c) (fun u => ∃ es, u.log = s.log ++ es) ?_ more s s' ⟨[], by simp⟩ hr
  intro u a u' ⟨es, he⟩ h
  obtain ⟨es', he'⟩ := step_log_append hw h
  exact ⟨es ++ es', by rw [he', he, List.append_assoc]⟩

/-- The body of job `j` is executing: it started and has not ended. -/
def BodyRunning (log : List Ev) (j : Nat) : Prop := Ev.started j ∈ log ∧ ∀ o, Ev.ended j o ∉ log

/-- A body that started and has not ended sits in a worker slot. -/
structure SlotInv (s : State) : Prop where
  slot : ∀ j, BodyRunning s.log j → ∃ w : Nat, s.ws[w]? = some (W.running j)

theorem slotInv_init (c : Cfg) : SlotInv (init c) := ⟨fun j h => by simp [init, BodyRunning] at h⟩

theorem slotInv_gen {s s' : State} {es : List Ev} (h : SlotInv s) (hlog : s'.log = s.log ++ es)
    (hes : ∀ j, Ev.started j ∈ es → ∃ w : Nat, s'.ws[w]? = some (W.running j))
    (hws : ∀ (w j : Nat), s.ws[w]? = some (W.running j) →
      s'.ws[w]? = some (W.running j) ∨ ∃ o, Ev.ended j o ∈ es) : SlotInv s' := by
  constructor
  intro j ⟨hst, hne⟩
  rw [hlog] at hst hne
  rcases List.mem_append.mp hst with hst | hst
  · obtain ⟨w, hw⟩ := h.slot j ⟨hst, fun o ho => hne o (List.mem_append_left _ ho)⟩
    rcases hws w j hw with h' | ⟨o, ho⟩
    · exact ⟨w, h'⟩
    · exact absurd (List.mem_append_right _ ho) (hne o)
  · exact hes j hst

theorem set_running_other {ws : List W} {w : Nat} {x : W} (y : W) (hx : ws[w]? = some x)
    (hnr : ∀ j, x ≠ W.running j) :
    ∀ (w' j : Nat), ws[w']? = some (W.running j) → (ws.set w y)[w']? = some (W.running j) := by
  intro w' j h
  have hne : w ≠ w' := by
    intro e; subst e; rw [hx] at h; exact hnr j (Option.some.inj h)
  rw [List.getElem?_set_ne hne]; exact h

theorem slotInv_step {c : Cfg} (hw : c.wiring = Wiring.std) {s s' : State} {a : Act}
    (h : SlotInv s) (hs : step c s a = some s') : SlotInv s' := by
  cases a with
  | callerSend =>
    obtain ⟨_, _, _, _, rfl⟩ := inv_callerSend hs
    exact slotInv_gen (es := [.sent s.caller.sent]) h rfl (by simp) (fun _ _ hx => Or.inl hx)
  | callerClose =>
    obtain ⟨_, _, rfl⟩ := inv_callerClose hs
    exact slotInv_gen (es := []) h (by simp) (by simp) (fun _ _ hx => Or.inl hx)
  | callerRetCtx =>
    obtain ⟨_, _, _, rfl⟩ := inv_callerRetCtx hw hs
    exact slotInv_gen (es := [.waitReturned [.ctxErr]]) h rfl (by simp) (fun _ _ hx => Or.inl hx)
  | callerRetFin =>
    obtain ⟨_, _, _, rfl⟩ := inv_callerRetFin hs
    exact slotInv_gen (es := [.waitReturned (retVal c s)]) h rfl (by simp) (fun _ _ hx => Or.inl hx)
  | loopEnq =>
    obtain ⟨j, rest, _, _, _, rfl⟩ := inv_loopEnq hs
    exact slotInv_gen (es := [.registered j]) h rfl (by simp) (fun _ _ hx => Or.inl hx)
  | loopEnqClosed =>
    obtain ⟨_, _, _, _, rfl⟩ := inv_loopEnqClosed hs
    exact slotInv_gen (es := []) h (by simp) (by simp) (fun _ _ hx => Or.inl hx)
  | loopDispatch w =>
    obtain ⟨j, l, _, hidle, _, rfl⟩ := inv_loopDispatch hs
    refine slotInv_gen (es := [.dispatched j]) h rfl (by simp) ?_
    intro w' j' hx
    exact Or.inl (set_running_other (.holding j) hidle (by simp) w' j' hx)
  | loopResult =>
    obtain ⟨j, r, rest, _, _, rfl⟩ := inv_loopResult hs
    refine slotInv_gen (es := [.resultSeen j r] ++
      (if r.isErr && c.coe then invalidWrites (Loop.job s.loop j).consumers else [])) h
      (by simp [List.append_assoc]) ?_ (fun _ _ hx => Or.inl hx)
    intro k hm
    simp only [List.mem_append, List.mem_singleton] at hm
    rcases hm with hm | hm
    · cases hm
    · split at hm
      · simp [invalidWrites] at hm
      · simp at hm
  | loopTick =>
    obtain ⟨_, _, rfl⟩ := inv_loopTick hs
    exact slotInv_gen (es := [.report (Loop.report c s.loop)]) h rfl (by simp) (fun _ _ hx => Or.inl hx)
  | loopDrain =>
    obtain ⟨_, _, _, _, rfl⟩ := inv_loopDrain hw hs
    exact slotInv_gen (es := []) h (by simp) (by simp) (fun _ _ hx => Or.inl hx)
  | loopClose =>
    obtain ⟨_, _, _, rfl⟩ := inv_loopClose hw hs
    exact slotInv_gen (es := [.loopExit]) h rfl (by simp) (fun _ _ hx => Or.inl hx)
  | workerDecide w =>
    obtain ⟨j, hj, hc⟩ := inv_workerDecide hw hs
    rcases hc with ⟨_, rfl⟩ | ⟨_, _, rfl⟩ | ⟨_, _, rfl⟩
    · refine slotInv_gen (es := [.skipped j .ctx]) h rfl (by simp) ?_
      intro w' j' hx
      exact Or.inl (set_running_other (.posting j .ctxErr) hj (by simp) w' j' hx)
    · refine slotInv_gen (es := [.skipped j .invalid]) h rfl (by simp) ?_
      intro w' j' hx
      exact Or.inl (set_running_other (.posting j .invalid) hj (by simp) w' j' hx)
    · refine slotInv_gen (es := [.started j]) h rfl ?_ ?_
      · intro j' hm
        simp only [List.mem_singleton, Ev.started.injEq] at hm
        subst hm
        exact ⟨w, List.getElem?_set_self (List.getElem?_eq_some_iff.mp hj).1⟩
      · intro w' j' hx
        exact Or.inl (set_running_other (.running j) hj (by simp) w' j' hx)
  | workerEnd w o cancel =>
    obtain ⟨j, hj, rfl⟩ := inv_workerEnd hs
    have hws' : (afterBody c s j o cancel).ws = s.ws := (afterBody_frame c s j o cancel).2.1
    have hlog : ∃ es, (afterBody c s j o cancel).log = s.log ++ (Ev.ended j o :: es) ∧
        ∀ k, Ev.started k ∉ es := by
      rcases afterBody_log c s j o cancel with h' | h'
      · exact ⟨[], h', by simp⟩
      · exact ⟨[.cancelled (c.ctxOfJob j)], h', by simp⟩
    obtain ⟨es, hes, hnst⟩ := hlog
    refine slotInv_gen (es := Ev.ended j o :: es) h hes ?_ ?_
    · intro k hm
      simp only [List.mem_cons, reduceCtorEq, false_or] at hm
      exact absurd hm (hnst k)
    · intro w' j' hx
      by_cases hww : w = w'
      · subst hww
        rw [hj] at hx
        cases hx
        exact Or.inr ⟨o, by simp⟩
      · left
        show ((afterBody c s j o cancel).ws.set w _)[w']? = _
        rw [hws', List.getElem?_set_ne hww]; exact hx
  | workerPost w =>
    obtain ⟨j, r, hj, _, rfl⟩ := inv_workerPost hs
    refine slotInv_gen (es := []) h (by simp) (by simp) ?_
    intro w' j' hx
    exact Or.inl (set_running_other .idle hj (by simp) w' j' hx)
  | workerDiePost w =>
    obtain ⟨j, hj, _, rfl⟩ := inv_workerDiePost hw hs
    refine slotInv_gen (es := []) h (by simp) (by simp) ?_
    intro w' j' hx
    exact Or.inl (set_running_other .idle hj (by simp) w' j' hx)
  | workerExit w =>
    obtain ⟨hj, _, rfl⟩ := inv_workerExit hs
    refine slotInv_gen (es := []) h (by simp) (by simp) ?_
    intro w' j' hx
    exact Or.inl (set_running_other .exited hj (by simp) w' j' hx)
  | cancel x =>
    obtain ⟨_, _, rfl⟩ := inv_cancel hs
    exact slotInv_gen (es := [.cancelled x]) h rfl (by simp) (fun _ _ hx => Or.inl hx)

theorem slotInv_run {c : Cfg} (hw : c.wiring = Wiring.std) (acts : List Act) (s : State)
    (hr : run c (init c) acts = some s) : SlotInv s :=
  run_induct (c := c) SlotInv (fun _ _ _ hp h => slotInv_step hw hp h) acts _ _ (slotInv_init c) hr

/-- **Worker slots, both directions.**  In every reachable state the jobs whose bodies are
    executing (started, not ended) are exactly the jobs in the `running` worker slots. -/
theorem bodyRunning_iff_slot (c : Cfg) (hw : c.wiring = Wiring.std) (hwf : WfCfg c) (acts : List Act)
    (s : State) (hr : run c (init c) acts = some s) (j : Nat) :
    BodyRunning s.log j ↔ ∃ w : Nat, w < c.N ∧ s.ws[w]? = some (W.running j) := by
  constructor
  · intro h
    obtain ⟨w, hx⟩ := (slotInv_run hw acts s hr).slot j h
    have := (List.getElem?_eq_some_iff.mp hx).1
    rw [C03_worker_slots c acts s hr] at this
    exact ⟨w, this, hx⟩
  · rintro ⟨w, _, hx⟩
    obtain ⟨h1, h2⟩ := (reach2_run hw hwf acts s hr).i6.runFresh w j hx
    refine ⟨h1, ?_⟩
    intro o ho
    have := List.countP_pos_iff.mpr ⟨_, ho, (by simp [Ev.isEndedOf] : Ev.isEndedOf j (Ev.ended j o) = true)⟩
    omega

end Sched

/-! ## Flow-level helpers -/

namespace Gen

open Sched (Ev Outcome Res)

/-- **The contexts of a generated Flow.**  The code cff generates for `cff.Flow(ctx, …)` passes the
    one `ctx` of the directive to every `sched.Enqueue(ctx, …)` and to `sched.Wait(ctx)`: in the
    scheduler configuration every job's context is `Wait`'s context.  (The scheduler model allows a
    different context per job; the C09 statements below are about configurations of this shape.) -/
structure FlowCtx (c : Sched.Cfg) : Prop where
  same : ∀ j, c.ctxOfJob j = c.waitCtx

section part3
variable {p : Prog} {sc : Scenario} {c : Sched.Cfg} {acts : List Sched.Act} {s : Sched.State}

theorem RunH.len (H : RunH p sc c acts s) : c.deps.length = (genJobs p).length := by
  rw [H.deps]; simp

theorem RunH.taskJob_exists (H : RunH p sc c acts s) {t : Task} (ht : t ∈ p.tasks) : ∃ j, TaskJob p t j :=
  fn_job H.acyclic (mem_funcs.mpr ⟨t, ht, Or.inl rfl⟩)

theorem RunH.predJob_exists (H : RunH p sc c acts s) {t : Task} (ht : t ∈ p.tasks) (hp : t.pred = true) :
    ∃ j, PredJob p t j :=
  fn_job H.acyclic (mem_funcs.mpr ⟨t, ht, Or.inr ⟨hp, rfl⟩⟩)

/-- A body that ended `ok` in some run is a body that the reference execution ran, and that
    returned nil there. -/
theorem RunH.ok_ideal (H : RunH p sc c acts s) {j : Nat} (h : Ev.ended j Outcome.ok ∈ s.log) :
    ∃ ri, idealRes p sc j = some ri ∧ ri.ret = none := by
  obtain ⟨_, _, ri, _, hri, _, hiff, _⟩ := H.ended h
  exact ⟨ri, hri, hiff.mp rfl⟩

/-- The task job of the provider of one of `t`'s function inputs is a dependency of `t`'s task job. -/
theorem taskJob_dep_of_input (H : RunH p sc c acts s) {t u : Task} (ht : t ∈ p.tasks) (hu : u ∈ p.tasks)
    {τ : Ty} (hτo : τ ∈ u.outs) (hτi : τ ∈ t.ins) {j ju : Nat} (hj : TaskJob p t j) (hju : TaskJob p u ju) :
    ju ∈ c.depsOf j := by
  rw [depsOf_cfg H.deps hj.1]
  apply H.disc.readDep ju j (Var.val τ) hju.1 hj.1
  · rw [(writes_task H.ids ht hj.2).2]; simp [taskReads, hτi]
  · rw [(writes_task H.ids hu hju.2).1]; simp [taskWrites, hτo]

/-- The task job of the provider of one of `t`'s predicate inputs is a dependency of `t`'s
    predicate job. -/
theorem predJob_dep_of_input (H : RunH p sc c acts s) {t u : Task} (ht : t ∈ p.tasks) (hu : u ∈ p.tasks)
    {τ : Ty} (hτo : τ ∈ u.outs) (hτi : τ ∈ t.pins) {jp ju : Nat} (hjp : PredJob p t jp) (hju : TaskJob p u ju) :
    ju ∈ c.depsOf jp := by
  rw [depsOf_cfg H.deps hjp.1]
  apply H.disc.readDep ju jp (Var.val τ) hju.1 hjp.1
  · rw [(writes_pred H.ids ht hjp.2).2]; simp [predReads, hτi]
  · rw [(writes_task H.ids hu hju.2).1]; simp [taskWrites, hτo]

/-- S-level C01 and "started before ended", at a run of the flow. -/
theorem RunH.dep_before (H : RunH p sc c acts s) {i j d : Nat} (hi : s.log[i]? = some (Ev.started j))
    (hd : d ∈ c.depsOf j) :
    ∃ k : Nat, k < i ∧ s.log[k]? = some (Ev.ended d Outcome.ok) ∧
      ∃ k' : Nat, k' < k ∧ s.log[k']? = some (Ev.started d) := by
  obtain ⟨k, hk, hk2⟩ := Sched.C01_deps_before_start c H.wiring H.wf acts s H.run i j hi d hd
  obtain ⟨_, _, k', hk', hk2'⟩ := Sched.ended_after_started c H.wiring H.wf acts s H.run k d _ hk2
  exact ⟨k, hk, hk2, k', hk', hk2'⟩

theorem countP_range_getD {α : Type} (q : α → Bool) (d : α) (l : List α) :
    (List.range l.length).countP (fun j => q (l.getD j d)) = l.countP q := by
  have hl : (List.range l.length).map (fun j => l.getD j d) = l := by
    apply List.ext_getElem
    · simp
    · intro i h1 h2
      simp [List.getD_eq_getElem?_getD, List.getElem?_eq_getElem h2]
  conv => rhs; rw [← hl]
  rw [List.countP_map]
  rfl

/-- The number of submitted jobs that name a dependency is at most the number of jobs of the flow
    with a non-empty `Dependencies` list. -/
theorem withDeps_le (H : RunH p sc c acts s) {n : Nat} (hn : n ≤ (genJobs p).length) :
    (List.range n).countP (Sched.withDeps c) ≤ (genJobs p).countP (fun j => !j.deps.isEmpty) := by
  have h1 : (List.range n).countP (Sched.withDeps c) ≤ (List.range (genJobs p).length).countP (Sched.withDeps c) :=
    (List.range_sublist.mpr hn).countP_le
  have h2 : (List.range (genJobs p).length).countP (Sched.withDeps c) =
      (List.range (genJobs p).length).countP (fun j => !((genJobs p).getD j default).deps.isEmpty) := by
    apply List.countP_congr
    intro j hj
    have hjl : j < (genJobs p).length := List.mem_range.mp hj
    simp only [Sched.withDeps, depsOf_cfg H.deps hjl, jobAt]
  rw [h2, countP_range_getD (fun j : Job => !j.deps.isEmpty) default (genJobs p)] at h1
  exact h1

theorem mu_init (c : Sched.Cfg) : Sched.mu c (Sched.init c) = 9 * c.deps.length + c.N + 8 + c.ctxOf.length := by
  have hsum : ∀ n : Nat, ((List.replicate n Sched.W.idle).map Sched.W.weight).sum = n := by
    intro n
    induction n with
    | zero => rfl
    | succ n ih => simp only [List.replicate_succ, List.map_cons, List.sum_cons, ih, Sched.W.weight]; omega
  have hc : Sched.cancelW c [] = c.ctxOf.length + 2 := by
    simp [Sched.cancelW, Sched.liveCount, Sched.Cfg.ctxs, Sched.ctxDone]
  simp only [Sched.mu, Sched.init, hsum, hc]
  simp [Sched.callerW, Sched.loopW]
  omega

end part3

end Gen

/-! ## Concrete runs (for the non-vacuity applications at the end)

  All on `Gen.Example.prog` (the diamond with a predicate of Gen/ComposeExample.lean: jobs
  0 = task 0, 1 = predicate of task 1, 2 = task 1, 3 = task 2, 4 = task 3; dependencies
  `[[], [], [1], [0, 2], [3]]`), configuration `Example.cfg` (two workers, fail-fast, one context):

  * the nil run `Example.acts` of FlowCorollaries2 (`runNil`);
  * its first 16 actions (`actsMid`): all five jobs submitted, jobs 0 and 1 executing on the two
    workers (`runMid`), the remaining 23 actions being a tick-free continuation;
  * `actsMid` followed by the cancellation of the flow's context (`actsCancel`) and a continuation
    `moreCancel` in which job 2 is still dispatched, is skipped, and `Wait` returns `[ctxErr]`;
  * the nil run followed by a cancellation (`actsNilCancel`);
  * the first 16 actions with the emitter switched on (`cfgE`) followed by a ticker action
    (`actsTick`): one state report. -/

namespace Gen.Example

open Gen Sched

def actsMid : List Act := acts.take 16
def actsRest : List Act := acts.drop 16
def actsCancel : List Act := actsMid ++ [.cancel 0]
def moreCancel : List Act :=
  [.workerEnd 1 .ok false, .workerPost 1, .loopResult, .loopDispatch 1, .workerDecide 1, .workerPost 1,
   .loopResult, .loopClose, .callerRetFin]
def actsNilCancel : List Act := acts ++ [.cancel 0]
def cfgE : Cfg := { cfg with emit := true }
def actsTick : List Act := actsMid ++ [.loopTick]

theorem cfg_flowCtx : FlowCtx cfg := ⟨fun j => by simp [Cfg.ctxOfJob, cfg]⟩

theorem tj0 : TaskJob prog t0 0 := ⟨by decide, by decide⟩
theorem tj1 : TaskJob prog t1 2 := ⟨by decide, by decide⟩
theorem tj2 : TaskJob prog t2 3 := ⟨by decide, by decide⟩
theorem pj1 : PredJob prog t1 1 := ⟨by decide, by decide⟩

/-- The nil run: `RunH`, nil returned, jobs 2 and 3 started. -/
theorem runNil_H : ∃ s, RunH prog sc cfg acts s ∧ Ev.waitReturned [] ∈ s.log ∧
    Ev.started 3 ∈ s.log ∧ Ev.started 2 ∈ s.log := by
  have h : ∃ s, run cfg (init cfg) acts = some s ∧ (replay prog sc s.log).2 = true ∧
      Ev.waitReturned [] ∈ s.log ∧ Ev.started 3 ∈ s.log ∧ Ev.started 2 ∈ s.log := by decide
  obtain ⟨s, hr, hcons, h1⟩ := h
  exact ⟨s, ⟨prog_accepted, prog_small, prog_ids, rfl, rfl, by decide, hr, hcons⟩, h1⟩

/-- The state after 16 actions: both workers are inside a body (jobs 0 and 1), the caller has not
    returned; the rest of `acts` is a tick-free continuation. -/
theorem runMid_H : ∃ s, RunH prog sc cfg actsMid s ∧
    s.ws = [.running 0, .running 1] ∧ s.caller.ret = none ∧
    (∀ a ∈ actsRest, a.isTick = false) ∧ (∃ s', run cfg s actsRest = some s' ∧ Final s' = false) ∧
    (∀ a ∈ actsMid, a.isTick = false) := by
  have h : ∃ s, run cfg (init cfg) actsMid = some s ∧ (replay prog sc s.log).2 = true ∧
      s.ws = [.running 0, .running 1] ∧ s.caller.ret = none ∧
      (∀ a ∈ actsRest, a.isTick = false) ∧ (∃ s', run cfg s actsRest = some s' ∧ Final s' = false) ∧
      (∀ a ∈ actsMid, a.isTick = false) := by decide
  obtain ⟨s, hr, hcons, h1⟩ := h
  exact ⟨s, ⟨prog_accepted, prog_small, prog_ids, rfl, rfl, by decide, hr, hcons⟩, h1⟩

/-- The cancelled run: after `actsCancel` the context is done and job 2 has not been started; the
    continuation `moreCancel` dispatches job 2 and makes `Wait` return `[ctxErr]`. -/
theorem runCancel_H : ∃ s s', RunH prog sc cfg actsCancel s ∧ RunH prog sc cfg (actsCancel ++ moreCancel) s' ∧
    s.cancelledCtx cfg.waitCtx = true ∧ Ev.started 2 ∉ s.log ∧
    run cfg s moreCancel = some s' ∧ Ev.dispatched 2 ∈ s'.log ∧ Ev.skipped 2 .ctx ∈ s'.log ∧
    Ev.waitReturned [Res.ctxErr] ∈ s'.log := by
  have h : ∃ s, run cfg (init cfg) actsCancel = some s ∧ (replay prog sc s.log).2 = true ∧
      s.cancelledCtx cfg.waitCtx = true ∧ Ev.started 2 ∉ s.log ∧
      ∃ s', run cfg s moreCancel = some s' ∧ (replay prog sc s'.log).2 = true ∧
        Ev.dispatched 2 ∈ s'.log ∧ Ev.skipped 2 .ctx ∈ s'.log ∧ Ev.waitReturned [Res.ctxErr] ∈ s'.log := by
    decide
  obtain ⟨s, hr, hcons, h1, h2, s', hr', hcons', h3, h4, h5⟩ := h
  exact ⟨s, s', ⟨prog_accepted, prog_small, prog_ids, rfl, rfl, by decide, hr, hcons⟩,
    ⟨prog_accepted, prog_small, prog_ids, rfl, rfl, by decide, P3.run_append_some hr hr', hcons'⟩,
    h1, h2, hr', h3, h4, h5⟩

/-- The nil run followed by a cancellation of the context. -/
theorem runNilCancel_H : ∃ s, RunH prog sc cfg actsNilCancel s ∧ Ev.waitReturned [] ∈ s.log ∧
    Ev.cancelled cfg.waitCtx ∈ s.log := by
  have h : ∃ s, run cfg (init cfg) actsNilCancel = some s ∧ (replay prog sc s.log).2 = true ∧
      Ev.waitReturned [] ∈ s.log ∧ Ev.cancelled cfg.waitCtx ∈ s.log := by decide
  obtain ⟨s, hr, hcons, h1⟩ := h
  exact ⟨s, ⟨prog_accepted, prog_small, prog_ids, rfl, rfl, by decide, hr, hcons⟩, h1⟩

/-- A run with a state report (emitter on): all five jobs submitted, two executing, three waiting. -/
theorem runTick_H : ∃ s, RunH prog sc cfgE actsTick s ∧
    Ev.report { pending := 5, ready := 0, waiting := 3, idle := 0, concurrency := 2 } ∈ s.log := by
  have h : ∃ s, run cfgE (init cfgE) actsTick = some s ∧ (replay prog sc s.log).2 = true ∧
      Ev.report { pending := 5, ready := 0, waiting := 3, idle := 0, concurrency := 2 } ∈ s.log := by decide
  obtain ⟨s, hr, hcons, h1⟩ := h
  exact ⟨s, ⟨prog_accepted, prog_small, prog_ids, rfl, rfl, by decide, hr, hcons⟩, h1⟩

end Gen.Example

/-! ## Property theorems -/

namespace Gen

open Sched (Ev Outcome Res)

section props
variable {p : Prog} {sc : Scenario} {c : Sched.Cfg} {acts : List Sched.Act} {s : Sched.State}

/-! ### C01 — a task function is called at most once, and only after its providers succeeded -/

/-- **C01, flow level, every schedule.**  Accepted flow, any run of the scheduler (any
    interleaving, worker count ≥ 1, either error mode, any cancellation).  Let `t` be a listed task
    and `j` its task job (it exists: `RunH.taskJob_exists`; it is unique: `TaskJob.unique`).

    (a) `started j` occurs at most once in the log: the body that calls `t`'s function — and hence
        the function — is executed at most once.
    (b) If `started j` is the `i`-th event of the log, then for every listed task `u` an output of
        which `t` consumes directly (as an input of its function or of its predicate:
        `ConsumesDirect t u`), with task job `ju`: `ended ju ok` occurs at a position `k < i` — the
        provider's body returned nil before `t`'s body started —, and in the reference execution
        `ideal p sc` the body of `u` ran and returned nil (`u` did not fail).  If `t` has a
        predicate, with predicate job `jp`, `ended jp ok` occurs before position `i` as well.
    (c) If `t` has a predicate, its predicate job `jp` is started at most once (the predicate is
        evaluated at most once), and only after the task job of every provider of a predicate input
        ended `ok` (and that provider did not fail in the reference execution). -/
theorem C01_flow_every_schedule (H : RunH p sc c acts s) {t : Task} (ht : t ∈ p.tasks) {j : Nat}
    (hj : TaskJob p t j) :
    s.log.count (Ev.started j) ≤ 1 ∧
    (∀ i : Nat, s.log[i]? = some (Ev.started j) →
      (∀ u ∈ p.tasks, ConsumesDirect t u → ∀ ju, TaskJob p u ju →
        (∃ k : Nat, k < i ∧ s.log[k]? = some (Ev.ended ju Outcome.ok)) ∧
        (∃ ri, idealRes p sc ju = some ri ∧ ri.ret = none)) ∧
      (t.pred = true → ∀ jp, PredJob p t jp →
        ∃ k : Nat, k < i ∧ s.log[k]? = some (Ev.ended jp Outcome.ok))) ∧
    (t.pred = true → ∀ jp, PredJob p t jp →
      s.log.count (Ev.started jp) ≤ 1 ∧
      ∀ i : Nat, s.log[i]? = some (Ev.started jp) →
        ∀ u ∈ p.tasks, ∀ τ ∈ u.outs, τ ∈ t.pins → ∀ ju, TaskJob p u ju →
          (∃ k : Nat, k < i ∧ s.log[k]? = some (Ev.ended ju Outcome.ok)) ∧
          (∃ ri, idealRes p sc ju = some ri ∧ ri.ret = none)) := by
  have hpredIn : ∀ jp, PredJob p t jp → ∀ i : Nat, s.log[i]? = some (Ev.started jp) →
      ∀ u ∈ p.tasks, ∀ τ ∈ u.outs, τ ∈ t.pins → ∀ ju, TaskJob p u ju →
        (∃ k : Nat, k < i ∧ s.log[k]? = some (Ev.ended ju Outcome.ok)) ∧
        (∃ ri, idealRes p sc ju = some ri ∧ ri.ret = none) := by
    intro jp hjp i hi u hu τ hτo hτi ju hju
    obtain ⟨k, hk, hk2, _⟩ := H.dep_before hi (predJob_dep_of_input H ht hu hτo hτi hjp hju)
    exact ⟨⟨k, hk, hk2⟩, H.ok_ideal (List.mem_of_getElem? hk2)⟩
  refine ⟨Sched.C01_at_most_once c H.wiring H.wf acts s H.run j, ?_, ?_⟩
  · intro i hi
    refine ⟨?_, ?_⟩
    · intro u hu ⟨τ, hτo, hτ⟩ ju hju
      rcases hτ with hτi | ⟨hp, hτi⟩
      · obtain ⟨k, hk, hk2, _⟩ := H.dep_before hi (taskJob_dep_of_input H ht hu hτo hτi hj hju)
        exact ⟨⟨k, hk, hk2⟩, H.ok_ideal (List.mem_of_getElem? hk2)⟩
      · obtain ⟨jp, hjp⟩ := H.predJob_exists ht hp
        obtain ⟨k1, hk1, _, k2, hk2, hst⟩ := H.dep_before hi (predJob_dep H ht hp hj hjp)
        obtain ⟨⟨k3, hk3, he⟩, hid⟩ := hpredIn jp hjp k2 hst u hu τ hτo hτi ju hju
        exact ⟨⟨k3, by omega, he⟩, hid⟩
    · intro hp jp hjp
      obtain ⟨k, hk, hk2, _⟩ := H.dep_before hi (predJob_dep H ht hp hj hjp)
      exact ⟨k, hk, hk2⟩
  · intro _ jp hjp
    exact ⟨Sched.C01_at_most_once c H.wiring H.wf acts s H.run jp, hpredIn jp hjp⟩

/-! ### C03 — at most `N` bodies of the flow execute at any instant -/

/-- **C03, flow level, every schedule.**  In every state reached by any run of the scheduler on the
    job list of an accepted flow, with the generated configuration (`c.N` = the flow's concurrency,
    ≥ 1):

    * there are exactly `c.N` worker slots, at most `c.N` of them `running`;
    * **every user function runs on a worker slot**: the jobs whose bodies are executing (`started`,
      not yet `ended`: `Sched.BodyRunning`) are exactly the jobs sitting in a `running` slot
      `w < c.N`, and they are jobs of the flow (`j < (genJobs p).length`);
    * hence any duplicate-free list of jobs whose bodies are executing has at most `c.N` elements:
      at most `c.N` task functions / predicates of the flow are between their `started` and their
      `ended` events at any instant. -/
theorem C03_flow_bound (H : RunH p sc c acts s) :
    s.ws.length = c.N ∧
    (s.ws.filter Sched.W.isRunning).length ≤ c.N ∧
    (∀ j, Sched.BodyRunning s.log j ↔ ∃ w : Nat, w < c.N ∧ s.ws[w]? = some (Sched.W.running j)) ∧
    (∀ j, Sched.BodyRunning s.log j → j < (genJobs p).length) ∧
    (∀ js : List Nat, js.Nodup → (∀ j ∈ js, Sched.BodyRunning s.log j) → js.length ≤ c.N) := by
  have hiff := Sched.bodyRunning_iff_slot c H.wiring H.wf acts s H.run
  have hN := Sched.C03_at_most_N_running c acts s H.run
  refine ⟨Sched.C03_worker_slots c acts s H.run, hN, hiff, ?_, ?_⟩
  · intro j hj
    obtain ⟨w, _, hx⟩ := (hiff j).mp hj
    have h1 := (Sched.endInv_run H.wiring H.wf acts s H.run).slot w _ j hx rfl
    have h2 := Sched.P3.sent_le_run H.wiring acts s H.run
    have := H.len
    omega
  · intro js hnd hall
    have hnd' : (js.map Sched.W.running).Nodup :=
      List.Pairwise.map _ (fun a b hab e => hab (Sched.W.running.inj e)) hnd
    have hsub : js.map Sched.W.running ⊆ s.ws.filter Sched.W.isRunning := by
      intro x hx
      obtain ⟨j, hj, rfl⟩ := List.mem_map.mp hx
      obtain ⟨w, _, hw⟩ := (hiff j).mp (hall j hj)
      exact List.mem_filter.mpr ⟨List.mem_of_getElem? hw, rfl⟩
    have := hnd'.length_le_of_subset hsub
    simp only [List.length_map] at this
    omega

/-! ### C05 — termination and progress -/

/-- **C05 termination, flow level.**  From every state reached by any run of the scheduler on the
    job list of an accepted flow:

    * every non-tick action strictly decreases the natural number `Sched.mu c`;
    * every continuation that contains no ticker action has at most `Sched.mu c s` actions (more
      precisely `more.length + mu c s' ≤ mu c s`): the flow cannot keep working forever;
    * in particular a tick-free run from the start has at most
      `mu c (init c) = 9·(number of jobs of the flow) + N + 8 + |ctxOf|` actions.

    (`Sched.WfCfg c` — what the S theorems need — holds for the generated configuration: `RunH.wf`.) -/
theorem C05_flow_terminates (H : RunH p sc c acts s) :
    (∀ (more : List Sched.Act) (s' : Sched.State), (∀ a ∈ more, a.isTick = false) →
      Sched.run c s more = some s' → more.length + Sched.mu c s' ≤ Sched.mu c s) ∧
    (∀ (a : Sched.Act) (s' : Sched.State), Sched.step c s a = some s' → a ≠ Sched.Act.loopTick →
      Sched.mu c s' < Sched.mu c s) ∧
    ((∀ a ∈ acts, a.isTick = false) → acts.length + Sched.mu c s ≤ Sched.mu c (Sched.init c)) ∧
    Sched.mu c (Sched.init c) = 9 * (genJobs p).length + c.N + 8 + c.ctxOf.length := by
  refine ⟨Sched.C05_terminates c H.wiring H.wf acts s H.run,
    fun a s' hs ha => Sched.C05_measure c H.wiring H.wf acts s s' a H.run hs ha,
    fun hnt => Sched.C05_terminates c H.wiring H.wf [] (Sched.init c) rfl acts s hnt H.run, ?_⟩
  rw [mu_init, H.len]

/-- **C05 progress, flow level.**  In every state reached by any run of the scheduler on the job
    list of an accepted flow in which the caller has not returned from `Wait` (more generally: that
    is not `Final` — `Wait` returned, loop and all workers exited), some action other than the
    ticker is enabled; and if that action is the end of a body, that body is executing in a worker
    slot (the only thing the scheduler ever waits for is a user function that has not returned).
    So the caller is never blocked forever in `Enqueue` or `Wait`. -/
theorem C05_flow_progress (H : RunH p sc c acts s) (hnf : s.caller.ret = none ∨ Sched.Final s = false) :
    ∃ a, a ≠ Sched.Act.loopTick ∧ (Sched.step c s a).isSome = true ∧
      (a.isWorkerEnd = true →
        ∃ (w : Nat) (j : Nat), w < c.N ∧ s.ws[w]? = some (Sched.W.running j) ∧ Sched.BodyRunning s.log j) := by
  have hf : Sched.Final s = false := by
    rcases hnf with h | h
    · simp [Sched.Final, h]
    · exact h
  obtain ⟨a, ha, hen⟩ := Sched.C05_progress c H.wiring H.wf acts s H.run hf
  refine ⟨a, ha, hen, ?_⟩
  intro hwe
  cases a with
  | workerEnd w o cancel =>
    obtain ⟨s', hs'⟩ := Option.isSome_iff_exists.mp hen
    obtain ⟨j, hj, _⟩ := Sched.inv_workerEnd hs'
    have hiff := Sched.bodyRunning_iff_slot c H.wiring H.wf acts s H.run j
    have hwN : w < c.N := by
      have := (List.getElem?_eq_some_iff.mp hj).1
      rwa [Sched.C03_worker_slots c acts s H.run] at this
    exact ⟨w, j, hwN, hj, hiff.mpr ⟨w, hwN, hj⟩⟩
  | _ => simp [Sched.Act.isWorkerEnd] at hwe

/-! ### C09 — cancellation -/

/-- **C09, flow level, every schedule.**  Accepted flow, generated configuration in which every
    `Enqueue` and `Wait` receive the same context (`FlowCtx c`: what a generated Flow does), any run.
    "`Wait` returned `r`" is the event `Ev.waitReturned r` of the log (`r = []` is nil); "the
    context is done" is `s.cancelledCtx c.waitCtx = true`, equivalently — clause 1 — the event
    `Ev.cancelled c.waitCtx` is in the log.

    1. The state flag and the log agree.
    2. **No job starts after cancellation.**  If the context is done in `s`, then along every
       continuation `more` of the run, every `started` event of the reached log is one of `s.log`:
       no task function, no predicate is started any more.  Position-wise (3.): in every log, every
       `started j` precedes the `cancelled` event.
    4. **nil ⇒ not cancelled.**  If `Wait` returned nil, the context was not cancelled at that
       time: `waitReturned []` precedes any `cancelled` event of the context.
    5. **Non-nil ⇒ Results untouched.**  If `Wait` returned a non-nil error `r`, the generated
       closure — `flowEnd p wait st` for the rendering `wait` of `r` (one string per entry) and any
       values `st` of the closure variables — returns exactly `wait` and writes no Results target;
       in fail-fast mode (`c.coe = false`: a generated Flow without ContinueOnError) `r` has exactly
       one entry. -/
theorem C09_flow_cancel (H : RunH p sc c acts s) (F : FlowCtx c) :
    (s.cancelledCtx c.waitCtx = true ↔ Ev.cancelled c.waitCtx ∈ s.log) ∧
    (s.cancelledCtx c.waitCtx = true →
      ∀ (more : List Sched.Act) (s' : Sched.State), Sched.run c s more = some s' →
        ∀ (k j : Nat), s'.log[k]? = some (Ev.started j) → s.log[k]? = some (Ev.started j)) ∧
    (∀ (i k j : Nat), s.log[i]? = some (Ev.cancelled c.waitCtx) → s.log[k]? = some (Ev.started j) → k < i) ∧
    (∀ (i k : Nat), s.log[i]? = some (Ev.cancelled c.waitCtx) → s.log[k]? = some (Ev.waitReturned []) → k < i) ∧
    (∀ r, Ev.waitReturned r ∈ s.log → r ≠ [] →
      (c.coe = false → ∃ x, r = [x]) ∧
      ∀ (wait : List String) (st : Store), wait.length = r.length →
        (flowEnd p wait st).ret = wait ∧ (flowEnd p wait st).written = []) := by
  have hpos : ∀ (acts' : List Sched.Act) (u : Sched.State), Sched.run c (Sched.init c) acts' = some u →
      ∀ (i k j : Nat), u.log[i]? = some (Ev.cancelled c.waitCtx) → u.log[k]? = some (Ev.started j) → k < i := by
    intro acts' u hu i k j hi hk
    exact Sched.C09_no_start_after_cancel c H.wiring acts' u hu i k j (by rw [F.same j]; exact hi) hk
  have hlogflag : s.cancelledCtx c.waitCtx = true → Ev.cancelled c.waitCtx ∈ s.log :=
    (Sched.reach2_run H.wiring H.wf acts s H.run).i6.cancelLog _
  refine ⟨⟨hlogflag, ?_⟩, ?_, hpos acts s H.run, ?_, ?_⟩
  · intro hm
    have inv : Sched.CancelInv c s :=
      Sched.run_induct (c := c) (Sched.CancelInv c) (fun s a s' hp h => Sched.cancelInv_step H.wiring hp h)
        acts _ _ (Sched.cancelInv_init c) H.run
    exact inv.flag _ hm
  · intro hc more s' hr' k j hk
    obtain ⟨i, hi⟩ := List.mem_iff_getElem?.mp (hlogflag hc)
    have hil : i < s.log.length := (List.getElem?_eq_some_iff.mp hi).1
    obtain ⟨es, hes⟩ := Sched.run_log_append H.wiring more s s' hr'
    have hi' : s'.log[i]? = some (Ev.cancelled c.waitCtx) := by
      rw [hes, List.getElem?_append_left hil]; exact hi
    have hki := hpos (acts ++ more) s' (Sched.P3.run_append_some H.run hr') i k j hi' hk
    rw [hes, List.getElem?_append_left (by omega)] at hk
    exact hk
  · intro i k hi hk
    exact Sched.C09_nil_implies_not_cancelled c H.wiring acts s H.run i k hi hk
  · intro r hret hne
    refine ⟨?_, ?_⟩
    · intro hcoe
      rcases Sched.C07_error_real c H.wiring H.wf hcoe acts s H.run r hret with h | ⟨x, hx, _⟩
      · exact absurd h hne
      · exact ⟨x, hx⟩
    · intro wait st hlen
      have hw : wait ≠ [] := by
        intro e; subst e
        cases r with
        | nil => exact hne rfl
        | cons _ _ => simp at hlen
      exact ⟨(C07_results_untouched p wait st).1, (C07_results_untouched p wait st).2.1 hw⟩

/-! ### C19 — state reports -/

/-- **C19, flow level, every schedule.**  Every state report emitted in any run of the scheduler on
    the job list of an accepted flow satisfies the C19 consistency relation (`Sched.GoodReport`:
    all fields non-negative, `Pending = Ready + Waiting + executing` with
    `0 ≤ executing ≤ Concurrency`, `IdleWorkers = Concurrency − executing`, `Concurrency = c.N`,
    `Pending ≤ submitted`, `Waiting ≤` the submitted jobs that name a dependency), where
    `submitted` — the number of `Enqueue` calls completed before the report — is at most the number
    of jobs of the flow; hence, in terms of the flow alone: `Pending ≤ |genJobs p|` and
    `Waiting ≤` the number of jobs of `genJobs p` with a non-empty `Dependencies` list. -/
theorem C19_flow_reports (H : RunH p sc c acts s) (i : Nat) (st : Sched.Report)
    (hi : s.log[i]? = some (Ev.report st)) :
    Sched.GoodReport c ((s.log.take i).filterMap Sched.Ev.sentId).length st ∧
    ((s.log.take i).filterMap Sched.Ev.sentId).length ≤ (genJobs p).length ∧
    st.pending ≤ ((genJobs p).length : Int) ∧
    st.waiting ≤ (((genJobs p).countP (fun j => !j.deps.isEmpty) : Nat) : Int) ∧
    st.concurrency = c.N ∧ 0 ≤ st.idle ∧ st.idle ≤ c.N := by
  have hg := Sched.C19_report_consistent c H.wiring H.wf acts s H.run i st hi
  have hsub : ((s.log.take i).filterMap Sched.Ev.sentId).length ≤ (genJobs p).length := by
    have h1 : ((s.log.take i).filterMap Sched.Ev.sentId).length ≤ (s.log.filterMap Sched.Ev.sentId).length :=
      ((List.take_sublist i s.log).filterMap _).length_le
    rw [(Sched.inv4_run H.wiring H.wf acts s H.run).2.sentLog, List.length_range] at h1
    have h2 := Sched.P3.sent_le_run H.wiring acts s H.run
    have := H.len
    omega
  have hwd := withDeps_le H hsub
  obtain ⟨x, hx0, hxN, _, hidle⟩ := hg.sum
  refine ⟨hg, hsub, ?_, ?_, hg.conc, hg.nonneg.2.2.2, by omega⟩
  · have := hg.pendLe; omega
  · have := hg.waitLe; omega

/-! ### C12 — single writer, reads after the write -/

/-- **C12, flow level, every schedule.**  For every closure variable `v` (`v<τ>`, `p<k>`,
    `p<k>PanicRecover`, `task<k>.ran`) of the code generated for an accepted flow, and every run of
    the scheduler:

    * two jobs whose bodies write `v` are the same job (single writer);
    * "write" is meant semantically: a body leaves every variable outside its write set unchanged,
      whatever the store it runs on;
    * if job `i` writes `v` and job `j` reads it, then `i` is among `j`'s `Dependencies`, and in
      every log the whole execution of the writer precedes the reader: `started i` < `ended i ok`
      < `started j` position-wise — `j` starts only after the writer of `v` ended without error.

    (Complements `C12_var_ownership`, which is the static part; the happens-before edges between
    `ended`, `resultSeen`, `dispatched` and `started` are channel operations, trusted.) -/
theorem C12_flow_single_writer_every_schedule (H : RunH p sc c acts s) (v : Var) :
    (∀ i j, i < (genJobs p).length → j < (genJobs p).length →
      v ∈ writesAt p i → v ∈ writesAt p j → i = j) ∧
    (∀ j (st : Store), v ∉ writesAt p j → (runJob p sc (jobAt p j) st).store.get v = st.get v) ∧
    (∀ i j, i < (genJobs p).length → j < (genJobs p).length → v ∈ writesAt p i → v ∈ readsAt p j →
      i ∈ c.depsOf j ∧
      ∀ k : Nat, s.log[k]? = some (Ev.started j) →
        ∃ m : Nat, m < k ∧ s.log[m]? = some (Ev.ended i Outcome.ok) ∧
          ∃ m' : Nat, m' < m ∧ s.log[m']? = some (Ev.started i)) := by
  refine ⟨fun i j hi hj hwi hwj => H.disc.writesDisjoint i j v hi hj hwi hwj,
    fun j st hv => runJob_frame p sc (jobAt p j) st v hv, ?_⟩
  intro i j hi hj hw hr
  have hdep : i ∈ c.depsOf j := by
    rw [depsOf_cfg H.deps hj]; exact H.disc.readDep i j v hi hj hr hw
  exact ⟨hdep, fun k hk => H.dep_before hk hdep⟩

end props

end Gen

/-! ### the property theorems applied to concrete runs (non-vacuity) -/

namespace Gen.Example

open Gen Sched

/-- `C01_flow_every_schedule` on the nil run, task 2 (job 3; consumes the outputs of task 0 — job 0 —
    and of the predicated task 1 — job 2): `started 3` occurs once, after `ended 0 ok` and
    `ended 2 ok`; and task 1 (job 2) started after its predicate job 1 ended `ok`. -/
theorem runNil_C01 : ∃ s, run cfg (init cfg) acts = some s ∧ s.log.count (Ev.started 3) ≤ 1 ∧
    (∃ i k0 k2 : Nat, s.log[i]? = some (Ev.started 3) ∧ k0 < i ∧ s.log[k0]? = some (Ev.ended 0 .ok) ∧
      k2 < i ∧ s.log[k2]? = some (Ev.ended 2 .ok)) ∧
    (∃ ri, idealRes prog sc 0 = some ri ∧ ri.ret = none) ∧
    (∃ i k1 : Nat, s.log[i]? = some (Ev.started 2) ∧ k1 < i ∧ s.log[k1]? = some (Ev.ended 1 .ok)) := by
  obtain ⟨s, H, _, hs3, hs2⟩ := runNil_H
  obtain ⟨i, hi⟩ := List.mem_iff_getElem?.mp hs3
  obtain ⟨i', hi'⟩ := List.mem_iff_getElem?.mp hs2
  obtain ⟨h1, h2, _⟩ := C01_flow_every_schedule H (t := t2) (by decide) tj2
  obtain ⟨⟨k0, hk0, he0⟩, hid0⟩ := (h2 i hi).1 t0 (by decide) ⟨2, by decide, Or.inl (by decide)⟩ 0 tj0
  obtain ⟨⟨k2, hk2, he2⟩, _⟩ := (h2 i hi).1 t1 (by decide) ⟨3, by decide, Or.inl (by decide)⟩ 2 tj1
  obtain ⟨_, h2', _⟩ := C01_flow_every_schedule H (t := t1) (by decide) tj1
  obtain ⟨k1, hk1, he1⟩ := (h2' i' hi').2 (by decide) 1 pj1
  exact ⟨s, H.run, h1, ⟨i, k0, k2, hi, hk0, he0, hk2, he2⟩, hid0, ⟨i', k1, hi', hk1, he1⟩⟩

/-- `C03_flow_bound` on the mid-run state: the bodies of jobs 0 and 1 are executing — the bound
    `N = 2` is attained — and no third one is. -/
theorem runMid_C03 : ∃ s, run cfg (init cfg) actsMid = some s ∧
    BodyRunning s.log 0 ∧ BodyRunning s.log 1 ∧ [0, 1].length = cfg.N ∧
    ∀ j, BodyRunning s.log j → j = 0 ∨ j = 1 := by
  obtain ⟨s, H, hws, _⟩ := runMid_H
  obtain ⟨_, _, hiff, _, hbound⟩ := C03_flow_bound H
  have b0 : BodyRunning s.log 0 := (hiff 0).mpr ⟨0, by decide, by rw [hws]; rfl⟩
  have b1 : BodyRunning s.log 1 := (hiff 1).mpr ⟨1, by decide, by rw [hws]; rfl⟩
  refine ⟨s, H.run, b0, b1, rfl, ?_⟩
  intro j hj
  by_cases h0 : j = 0
  · exact Or.inl h0
  · by_cases h1 : j = 1
    · exact Or.inr h1
    · exfalso
      have := hbound [j, 0, 1] (by simp [h0, h1]) (by
        intro x hx
        simp only [List.mem_cons, List.not_mem_nil, or_false] at hx
        rcases hx with rfl | rfl | rfl
        · exact hj
        · exact b0
        · exact b1)
      simp [cfg] at this

/-- `C05_flow_terminates` / `C05_flow_progress` on the mid-run state: the remaining 23 actions of
    the nil run are a tick-free continuation, bounded by the measure; the whole tick-free prefix is
    bounded by `mu (init) = 9·5 + 2 + 8 + 0 = 55`; and since the caller has not returned, something
    other than the ticker is enabled. -/
theorem runMid_C05 : ∃ s s', run cfg (init cfg) actsMid = some s ∧ run cfg s actsRest = some s' ∧
    actsRest.length = 23 ∧ 23 + mu cfg s' ≤ mu cfg s ∧ 16 + mu cfg s ≤ 55 ∧
    ∃ a, a ≠ Act.loopTick ∧ (step cfg s a).isSome = true := by
  obtain ⟨s, H, _, hret, hnt, ⟨s', hr', _⟩, hnt'⟩ := runMid_H
  obtain ⟨h1, _, h3, h4⟩ := C05_flow_terminates H
  obtain ⟨a, ha, hen, _⟩ := C05_flow_progress H (Or.inl hret)
  have hlen : actsRest.length = 23 := by decide
  have hlen' : actsMid.length = 16 := by decide
  have b1 := h1 actsRest s' hnt hr'
  have b2 := h3 hnt'
  have b3 : mu cfg (init cfg) = 55 := by rw [h4]; decide
  exact ⟨s, s', H.run, hr', hlen, by omega, by omega, a, ha, hen⟩

/-- `C09_flow_cancel` on the cancelled run: the context is done in `s`; in the continuation job 2 is
    dispatched to a worker but — clause 2 — not started (it is skipped); `Wait` returns `[ctxErr]`
    and — clause 5 — the closure returns that error and writes no Results target.  On the nil run
    followed by a cancellation — clause 4 — `Wait`'s nil return precedes the cancellation. -/
theorem runCancel_C09 :
    (∃ s s', run cfg (init cfg) actsCancel = some s ∧ run cfg s moreCancel = some s' ∧
      Ev.cancelled cfg.waitCtx ∈ s.log ∧ Ev.dispatched 2 ∈ s'.log ∧ Ev.started 2 ∉ s'.log ∧
      Ev.waitReturned [Res.ctxErr] ∈ s'.log ∧
      ∀ st, (flowEnd prog ["context canceled"] st).ret = ["context canceled"] ∧
        (flowEnd prog ["context canceled"] st).written = []) ∧
    (∃ s, run cfg (init cfg) actsNilCancel = some s ∧
      ∃ i k : Nat, s.log[i]? = some (Ev.cancelled cfg.waitCtx) ∧ s.log[k]? = some (Ev.waitReturned []) ∧ k < i) := by
  refine ⟨?_, ?_⟩
  · obtain ⟨s, s', H, H', hc, hns, hr', hd, _, hw⟩ := runCancel_H
    obtain ⟨h1, h2, _, _, _⟩ := C09_flow_cancel H cfg_flowCtx
    obtain ⟨_, _, _, _, h5⟩ := C09_flow_cancel H' cfg_flowCtx
    refine ⟨s, s', H.run, hr', h1.mp hc, hd, ?_, hw, ?_⟩
    · intro hst
      obtain ⟨k, hk⟩ := List.mem_iff_getElem?.mp hst
      exact hns (List.mem_of_getElem? (h2 hc moreCancel s' hr' k 2 hk))
    · intro st
      exact (h5 _ hw (by simp)).2 ["context canceled"] st rfl
  · obtain ⟨s, H, hnil, hcan⟩ := runNilCancel_H
    obtain ⟨_, _, _, h4, _⟩ := C09_flow_cancel H cfg_flowCtx
    obtain ⟨i, hi⟩ := List.mem_iff_getElem?.mp hcan
    obtain ⟨k, hk⟩ := List.mem_iff_getElem?.mp hnil
    exact ⟨s, H.run, i, k, hi, hk, h4 i k hi hk⟩

/-- `C19_flow_reports` on the run with a ticker action: the report `{Pending 5, Ready 0, Waiting 3,
    Idle 0, Concurrency 2}` is consistent, and both flow-level bounds are attained: the flow has
    5 jobs, 3 of them (jobs 2, 3, 4) with dependencies. -/
theorem runTick_C19 : ∃ s st, run cfgE (init cfgE) actsTick = some s ∧ Ev.report st ∈ s.log ∧
    st.pending = 5 ∧ st.waiting = 3 ∧
    st.pending ≤ ((genJobs prog).length : Int) ∧ (genJobs prog).length = 5 ∧
    st.waiting ≤ (((genJobs prog).countP (fun j => !j.deps.isEmpty) : Nat) : Int) ∧
    (genJobs prog).countP (fun j => !j.deps.isEmpty) = 3 ∧
    ∃ n, GoodReport cfgE n st ∧ n ≤ 5 := by
  obtain ⟨s, H, hm⟩ := runTick_H
  obtain ⟨i, hi⟩ := List.mem_iff_getElem?.mp hm
  obtain ⟨hg, hsub, hp, hwt, _⟩ := C19_flow_reports H i _ hi
  have h5 : (genJobs prog).length = 5 := by decide
  exact ⟨s, _, H.run, hm, rfl, rfl, hp, h5, hwt, by decide, _, hg, by omega⟩

/-- `C12_flow_single_writer_every_schedule` on the nil run, variable `v2` (the output of task 0):
    job 0 writes it, job 3 (task 2) reads it; job 0 is a dependency of job 3 and its whole execution
    precedes the start of job 3. -/
theorem runNil_C12 : ∃ s, run cfg (init cfg) acts = some s ∧
    Var.val 2 ∈ writesAt prog 0 ∧ Var.val 2 ∈ readsAt prog 3 ∧ 0 ∈ cfg.depsOf 3 ∧
    (∀ j, j < (genJobs prog).length → Var.val 2 ∈ writesAt prog j → j = 0) ∧
    ∃ k m m' : Nat, s.log[k]? = some (Ev.started 3) ∧ m < k ∧ s.log[m]? = some (Ev.ended 0 .ok) ∧
      m' < m ∧ s.log[m']? = some (Ev.started 0) := by
  obtain ⟨s, H, _, hs3, _⟩ := runNil_H
  obtain ⟨k, hk⟩ := List.mem_iff_getElem?.mp hs3
  have hw : Var.val 2 ∈ writesAt prog 0 := by decide
  have hr : Var.val 2 ∈ readsAt prog 3 := by decide
  obtain ⟨h1, _, h3⟩ := C12_flow_single_writer_every_schedule H (Var.val 2)
  obtain ⟨hdep, hord⟩ := h3 0 3 (by decide) (by decide) hw hr
  obtain ⟨m, hm, he, m', hm', hs0⟩ := hord k hk
  exact ⟨s, H.run, hw, hr, hdep, fun j hj hwj => h1 j 0 hj (by decide) hwj hw, k, m, m', hk, hm, he, hm', hs0⟩

end Gen.Example
