/-
  G ∘ S — the code generated for `cff.Parallel`, run by the scheduler.

  The job list `Gen.parJobs p` (with its dependencies) is handed to the scheduler model `S`;
  the outcome of each body, which `S` leaves to the action `workerEnd w outcome cancel`, is tied to
  the body semantics `Gen.runPJob` by `Consistent`.  The Parallel-level clauses of C04, C08 and C10
  then follow from the scheduler theorems (`Sched.C01_…`, `C07_…`, `C08_…`) and the structure of
  the job list (`Gen.ParJobs`).
-/
import CffVerif.Gen.ParJobs
import CffVerif.Gen.ParSched

namespace Gen

open Sched

/-- `c` is a scheduler configuration for the Parallel `p`: the dependencies are those of the
    generated job list, the scheduler is the real one (`Wiring.std`), at least one worker. -/
structure ParCfg (p : Prog) (c : Cfg) : Prop where
  deps : c.deps = (parJobs p).map (·.deps)
  wiring : c.wiring = Wiring.std
  workers : 1 ≤ c.N

theorem ParCfg.depsOf {p : Prog} {c : Cfg} (h : ParCfg p c) {j : Nat} {job : PJob}
    (hj : (parJobs p)[j]? = some job) : c.depsOf j = job.deps := by
  simp [Cfg.depsOf, h.deps, List.getD_eq_getElem?_getD, hj]

/-- The generated job list satisfies the scheduler's contract (dependencies are handles of jobs
    enqueued earlier), so every scheduler theorem applies to it. -/
theorem wf_parCfg {p : Prog} {c : Cfg} (h : ParCfg p c) : WfCfg c := by
  refine ⟨h.workers, ?_⟩
  intro j d hd
  cases hj : (parJobs p)[j]? with
  | none => simp [Cfg.depsOf, h.deps, List.getD_eq_getElem?_getD, hj] at hd
  | some job => rw [h.depsOf hj] at hd; exact parJobs_deps_before p j job hj d hd

/-! ### bodies against outcomes -/

/-- The body of job `j` (enqueue order). -/
def jobBody (p : Prog) (j : Nat) : PBody := ((parJobs p).getD j default).body

/-- What job `j` does in scenario `sc` (templates as they are). -/
def jobRes (p : Prog) (sc : Scenario) (j : Nat) : PRes := runPJob .std p sc (jobBody p j)

/-- The scheduler-level outcome of job `j`'s body: nil, or an error identifying the job. -/
def outcomeOf (p : Prog) (sc : Scenario) (j : Nat) : Outcome :=
  if (jobRes p sc j).ret.isNone then .ok else .fail j

/-- The log's body outcomes are those of the generated bodies in scenario `sc`. -/
def Consistent (p : Prog) (sc : Scenario) (log : List Ev) : Prop :=
  ∀ j o, Ev.ended j o ∈ log → o = outcomeOf p sc j

/-- `Consistent`, clause by clause: a body ends ok iff it returns nil; generated bodies do not call
    `runtime.Goexit`; a failure is the error of job `j` itself. -/
theorem consistent_iff (p : Prog) (sc : Scenario) (log : List Ev) :
    Consistent p sc log ↔ ∀ j o, Ev.ended j o ∈ log →
      (o = .ok ↔ (runPJob .std p sc (jobBody p j)).ret = none) ∧ o ≠ .goexit ∧ ∀ e, o = .fail e → e = j := by
  unfold Consistent outcomeOf jobRes
  constructor
  · intro h j o hm
    rw [h j o hm]
    cases hret : (runPJob .std p sc (jobBody p j)).ret <;> simp
  · intro h j o hm
    obtain ⟨h1, h2, h3⟩ := h j o hm
    cases hret : (runPJob .std p sc (jobBody p j)).ret with
    | none => simp [h1.mpr hret]
    | some x =>
      cases o with
      | ok => rw [h1.mp rfl] at hret; simp at hret
      | fail e => simp [h3 e rfl]
      | goexit => exact absurd rfl h2

def consistentB (p : Prog) (sc : Scenario) (log : List Ev) : Bool :=
  log.all fun
    | .ended j o => decide (o = outcomeOf p sc j)
    | _ => true

theorem consistentB_iff (p : Prog) (sc : Scenario) (log : List Ev) :
    consistentB p sc log = true ↔ Consistent p sc log := by
  unfold consistentB Consistent
  rw [List.all_eq_true]
  constructor
  · intro h j o hm; simpa using h _ hm
  · intro h ev hm
    cases ev <;> simp
    exact h _ _ hm

instance (p : Prog) (sc : Scenario) (log : List Ev) : Decidable (Consistent p sc log) :=
  decidable_of_iff _ (consistentB_iff p sc log)

/-- The call lines of the functions that were called (their body ran), in the order in which the
    bodies ended. -/
def callsOf (p : Prog) (sc : Scenario) (log : List Ev) : List String :=
  (endedIds log).map fun j => (jobRes p sc j).call

theorem range_map_getD {α β : Type} (l : List α) (d : α) (f : α → β) :
    (List.range l.length).map (fun j => f (l.getD j d)) = l.map f := by
  apply List.ext_getElem?
  intro i
  by_cases hi : i < l.length
  · simp [hi, List.getD_eq_getElem?_getD]
  · simp [hi]

theorem consistent_ok {p : Prog} {sc : Scenario} {log : List Ev} (h : Consistent p sc log) {j : Nat}
    (hm : Ev.ended j .ok ∈ log) : pOut sc (jobBody p j) = .ok := by
  have := h j _ hm
  unfold outcomeOf jobRes at this
  split at this
  · next hn => exact (runPJob_ret p sc _).1.mp (by simpa using hn)
  · simp at this

theorem consistent_fail {p : Prog} {sc : Scenario} {log : List Ev} (h : Consistent p sc log) {j : Nat}
    {o : Outcome} (hm : Ev.ended j o ∈ log) (ho : o ≠ .ok) : o = .fail j ∧ pOut sc (jobBody p j) ≠ .ok := by
  have := h j _ hm
  unfold outcomeOf jobRes at this
  split at this
  · exact absurd this ho
  · next hn =>
    refine ⟨this, fun hok => hn ?_⟩
    rw [(runPJob_ret p sc _).1.mpr hok]; rfl

/-! ### C10 — every function exactly once (fail-fast, nil result) -/

/-- **C10, "all elements, once" (fail-fast).** If `Wait` returned nil and every job of the
    generated Parallel was enqueued, then the functions that were called are — as a multiset — one
    call per job of the job list: every task, every element `(i, s[i])` of every slice, every entry
    `(k, m[k])` of every map (none for a nil or empty collection) and every End function, each
    exactly once with its own copy of its arguments (`parJobs_calls` spells the lines out); every
    body ended without error, and so no function of the directive failed in the scenario. -/
theorem C10_calls_complete (p : Prog) (sc : Scenario) (c : Cfg) (hc : ParCfg p c) (hff : c.coe = false)
    (acts : List Act) (s : State) (hr : run c (init c) acts = some s)
    (hnil : Ev.waitReturned [] ∈ s.log) (hall : s.caller.sent = (parJobs p).length)
    (hcons : Consistent p sc s.log) :
    (callsOf p sc s.log).Perm ((parJobs p).map fun j => pCall p j.body) ∧
    (∀ j o, Ev.ended j o ∈ s.log → o = .ok) ∧
    (∀ j ∈ parJobs p, pOut sc j.body = .ok) := by
  have hwf := wf_parCfg hc
  obtain ⟨hperm, hok⟩ := ended_perm_of_nil c hc.wiring hwf hff acts s hr hnil
  refine ⟨?_, hok, ?_⟩
  · have := hperm.map (fun j => (jobRes p sc j).call)
    rw [hall] at this
    unfold callsOf
    refine this.trans (List.Perm.of_eq ?_)
    have e : (fun j => (jobRes p sc j).call) = fun j => (fun x : PJob => pCall p x.body) ((parJobs p).getD j default) := by
      funext j; simp [jobRes, jobBody, runPJob_call]
    rw [e]
    exact range_map_getD (parJobs p) default (fun x : PJob => pCall p x.body)
  · intro j hj
    obtain ⟨i, hi⟩ := List.mem_iff_getElem?.mp hj
    have hlt : i < s.caller.sent := by rw [hall]; exact (List.getElem?_eq_some_iff.mp hi).1
    have hm := (C07_nil_complete c hc.wiring hwf hff acts s hr hnil i hlt).1
    have := consistent_ok hcons hm
    simpa [jobBody, List.getD_eq_getElem?_getD, hi] using this

/-- `C10_calls_complete` with the lines spelled out as the oracle `checkPar` expects them. -/
theorem C10_calls_complete_lines (p : Prog) (sc : Scenario) (c : Cfg) (hc : ParCfg p c) (hff : c.coe = false)
    (acts : List Act) (s : State) (hr : run c (init c) acts = some s)
    (hnil : Ev.waitReturned [] ∈ s.log) (hall : s.caller.sent = (parJobs p).length)
    (hcons : Consistent p sc s.log) :
    (callsOf p sc s.log).Perm
      ((p.ptasks.map fun t => s!"call {t.k}") ++ p.slices.flatMap (sliceLines p) ++ p.maps.flatMap mapLines) := by
  rw [← parJobs_calls]
  exact (C10_calls_complete p sc c hc hff acts s hr hnil hall hcons).1

/-! ### C10 — End hooks -/

/-- **C10, "End after all elements" (both modes).** Whenever the End function of a slice or map
    starts, the function call of every element of that collection has already returned without
    error — for every interleaving, worker count and error mode. -/
theorem C10_end_last (p : Prog) (c : Cfg) (hc : ParCfg p c)
    (acts : List Act) (s : State) (hr : run c (init c) acts = some s)
    (kd : CollKind) (col : Coll) (base : Nat) (hat : CollAt p kd col base) (hend : col.hasEnd = true)
    (i : Nat) (hi : s.log[i]? = some (Ev.started (base + collN col))) (x : Nat) (hx : x < collN col) :
    ∃ k, k < i ∧ s.log[k]? = some (Ev.ended (base + x) .ok) := by
  refine C01_deps_before_start c hc.wiring (wf_parCfg hc) acts s hr i _ hi (base + x) ?_
  rw [hc.depsOf (hat.endJob hend)]
  simp only [List.mem_map, List.mem_range]
  exact ⟨x, hx, rfl⟩

/-- **C10, "no End after a failure" (both modes).** If the function failed (returned an error or
    panicked) on some element of a collection, or has not returned without error for it, the End
    function of that collection has not been — and, the log being arbitrary, is never — started. -/
theorem C10_end_never_after_failure (p : Prog) (c : Cfg) (hc : ParCfg p c)
    (acts : List Act) (s : State) (hr : run c (init c) acts = some s)
    (kd : CollKind) (col : Coll) (base : Nat) (hat : CollAt p kd col base) (hend : col.hasEnd = true)
    (x : Nat) (hx : x < collN col)
    (hfail : (∃ o, o ≠ .ok ∧ Ev.ended (base + x) o ∈ s.log) ∨ Ev.ended (base + x) .ok ∉ s.log) :
    Ev.started (base + collN col) ∉ s.log := by
  intro hst
  obtain ⟨i, hi⟩ := List.mem_iff_getElem?.mp hst
  obtain ⟨k, _, hk⟩ := C10_end_last p c hc acts s hr kd col base hat hend i hi x hx
  have hok := List.mem_of_getElem? hk
  rcases hfail with ⟨o, hne, ho⟩ | hno
  · have := eq_of_countP_le_one ((full_run hc.wiring (wf_parCfg hc) acts s hr).1.i6.endedOnce (base + x)) ho hok
      (by simp [Ev.isEndedOf]) (by simp [Ev.isEndedOf])
    simp at this; exact hne this
  · exact hno hok

/-- The same in terms of the scenario: an element whose function does not return nil in the
    scenario keeps the End function of its collection from ever being called. -/
theorem C10_end_never_after_failing_element (p : Prog) (sc : Scenario) (c : Cfg) (hc : ParCfg p c)
    (acts : List Act) (s : State) (hr : run c (init c) acts = some s) (hcons : Consistent p sc s.log)
    (kd : CollKind) (col : Coll) (base : Nat) (hat : CollAt p kd col base) (hend : col.hasEnd = true)
    (x : Nat) (hx : x < collN col) (hbad : pOut sc (elemBody kd col x) ≠ .ok) :
    Ev.started (base + collN col) ∉ s.log := by
  apply C10_end_never_after_failure p c hc acts s hr kd col base hat hend x hx
  right
  intro hm
  have := consistent_ok hcons hm
  simp [jobBody, List.getD_eq_getElem?_getD, hat.elem x hx] at this
  exact hbad this

/-! ### C08 — ContinueOnError -/

/-- The error entry (as the oracle spells it) behind an entry of the scheduler's error. -/
def entryOf (p : Prog) (sc : Scenario) : Res → String
  | .fail j => ((jobRes p sc j).ret).getD "nil"
  | .ctxErr => "ctx"
  | .exitErr => "other:goexit"
  | .invalid => "other:invalid"
  | .ok => "nil"

/-- **C08 for Parallel (ContinueOnError).** When the loop has left its `for` with every job of the
    directive enqueued and no cancellation of any job's context (`Wait`'s own context does not matter):
    (a) every job without dependencies — every task, every slice element, every map entry (and the
        End function of an empty or nil collection) — was started exactly once, whatever else
        failed;
    (b) the accumulated error (what `Wait` returns) has exactly one entry per function that failed:
        it is the list of the failing bodies' own errors in the order in which the loop saw their
        results, a permutation of the failures in the order in which the bodies ended; every entry
        is the error of a job whose function does not return nil in the scenario; no sentinel, no
        context error. -/
theorem C08_par_errors (p : Prog) (sc : Scenario) (c : Cfg) (hc : ParCfg p c) (hcoe : c.coe = true)
    (acts : List Act) (s : State) (hr : run c (init c) acts = some s)
    (hp : s.loop.phase ≠ .select) (hall : s.caller.sent = (parJobs p).length)
    (hnc : ∀ j, Ev.cancelled (c.ctxOfJob j) ∉ s.log) (hcons : Consistent p sc s.log) :
    (∀ j job, (parJobs p)[j]? = some job → job.deps = [] → s.log.count (Ev.started j) = 1) ∧
    (∃ seen : List Nat, s.loop.err = seen.map Res.fail ∧ seen.Perm (failedIds s.log) ∧
      ∀ j ∈ seen, Ev.ended j (.fail j) ∈ s.log ∧ pOut sc (jobBody p j) ≠ .ok ∧
        (jobRes p sc j).ret = some (entryOf p sc (.fail j))) ∧
    Res.invalid ∉ s.loop.err ∧ Res.ctxErr ∉ s.loop.err ∧ Res.exitErr ∉ s.loop.err := by
  have hwf := wf_parCfg hc
  have hid : ∀ j o, Ev.ended j o ∈ s.log → o = .ok ∨ o = .fail j := by
    intro j o hm
    by_cases ho : o = .ok
    · exact Or.inl ho
    · exact Or.inr (consistent_fail hcons hm ho).1
  obtain ⟨herr, hperm⟩ := coe_err_perm c hc.wiring hwf hcoe acts s hr hp hnc hid
  refine ⟨?_, ⟨_, herr, hperm, ?_⟩, ?_, ?_, ?_⟩
  · intro j job hj hd
    have hlt : j < s.caller.sent := by rw [hall]; exact (List.getElem?_eq_some_iff.mp hj).1
    have hst := C08_runnable_ran c hc.wiring hwf hcoe acts s hr hp j hlt
      (by rw [hc.depsOf hj, hd]; simp) (hnc _)
    have h1 := C01_at_most_once c hc.wiring hwf acts s hr j
    have h2 : 0 < s.log.count (Ev.started j) := List.count_pos_iff.mpr hst
    omega
  · intro j hj
    obtain ⟨e, he⟩ := mem_failedIds.mp (hperm.mem_iff.mp hj)
    obtain ⟨h1, h2⟩ := consistent_fail hcons he (by simp)
    simp at h1; subst h1
    refine ⟨he, h2, ?_⟩
    cases hret : (jobRes p sc e).ret with
    | none => exact absurd ((runPJob_ret p sc _).1.mp hret) h2
    | some x => simp [entryOf, hret]
  · exact (C08_error_entries c hc.wiring hwf hcoe acts s hr).2.1
  · rw [herr]; simp
  · rw [herr]; simp

/-- **C08 for Parallel, call set (ContinueOnError).** Under the premises of `C08_par_errors`: the
    End function of a collection is called iff the function returned nil on every element — so the
    functions called are exactly `checkPar`'s `ideal` list: all tasks, all elements, all entries,
    and the End functions of the collections without a failing element. -/
theorem C08_par_end_iff (p : Prog) (sc : Scenario) (c : Cfg) (hc : ParCfg p c) (hcoe : c.coe = true)
    (acts : List Act) (s : State) (hr : run c (init c) acts = some s)
    (hp : s.loop.phase ≠ .select) (hall : s.caller.sent = (parJobs p).length)
    (hnc : ∀ j, Ev.cancelled (c.ctxOfJob j) ∉ s.log) (hcons : Consistent p sc s.log)
    (kd : CollKind) (col : Coll) (base : Nat) (hat : CollAt p kd col base) (hend : col.hasEnd = true) :
    Ev.started (base + collN col) ∈ s.log ↔ ∀ x, x < collN col → pOut sc (elemBody kd col x) = .ok := by
  have hwf := wf_parCfg hc
  constructor
  · intro hst x hx
    apply Classical.byContradiction
    intro hbad
    exact C10_end_never_after_failing_element p sc c hc acts s hr hcons kd col base hat hend x hx hbad hst
  · intro hok
    have hlt : base + collN col < s.caller.sent := by
      rw [hall]; exact (List.getElem?_eq_some_iff.mp (hat.endJob hend)).1
    apply C08_runnable_ran c hc.wiring hwf hcoe acts s hr hp _ hlt _ (hnc _)
    intro d hd
    rw [hc.depsOf (hat.endJob hend)] at hd
    simp only [List.mem_map, List.mem_range] at hd
    obtain ⟨x, hx, rfl⟩ := hd
    have hst := (C08_par_errors p sc c hc hcoe acts s hr hp hall hnc hcons).1 _ _ (hat.elem x hx) rfl
    have hst' : Ev.started (base + x) ∈ s.log := List.count_pos_iff.mp (by omega)
    obtain ⟨o, ho⟩ := coe_started_ended c hc.wiring hwf hcoe acts s hr hp hnc _ hst'
    have := hcons _ _ ho
    unfold outcomeOf jobRes at this
    have hb : jobBody p (base + x) = elemBody kd col x := by
      simp [jobBody, List.getD_eq_getElem?_getD, hat.elem x hx]
    rw [hb, (runPJob_ret p sc _).1.mpr (hok x hx)] at this
    simp at this; subst this; exact ho

/-- **C08 for Parallel, every function is called (ContinueOnError).** Under the premises of
    `C08_par_errors`, every task function, and the slice (map) function on every element (entry) of
    every collection, was called exactly once and returned — whatever else failed. -/
theorem C08_par_functions_called (p : Prog) (sc : Scenario) (c : Cfg) (hc : ParCfg p c) (hcoe : c.coe = true)
    (acts : List Act) (s : State) (hr : run c (init c) acts = some s)
    (hp : s.loop.phase ≠ .select) (hall : s.caller.sent = (parJobs p).length)
    (hnc : ∀ j, Ev.cancelled (c.ctxOfJob j) ∉ s.log) (hcons : Consistent p sc s.log) :
    (∀ pos t, p.ptasks[pos]? = some t →
      s.log.count (Ev.started pos) = 1 ∧ s!"call {t.k}" ∈ callsOf p sc s.log) ∧
    (∀ kd col base, CollAt p kd col base → ∀ x, x < collN col →
      s.log.count (Ev.started (base + x)) = 1 ∧ pCall p (elemBody kd col x) ∈ callsOf p sc s.log) := by
  have hwf := wf_parCfg hc
  have key : ∀ j job, (parJobs p)[j]? = some job → job.deps = [] →
      s.log.count (Ev.started j) = 1 ∧ pCall p job.body ∈ callsOf p sc s.log := by
    intro j job hj hd
    have h1 := (C08_par_errors p sc c hc hcoe acts s hr hp hall hnc hcons).1 j job hj hd
    refine ⟨h1, ?_⟩
    have hst : Ev.started j ∈ s.log := List.count_pos_iff.mp (by omega)
    obtain ⟨o, ho⟩ := coe_started_ended c hc.wiring hwf hcoe acts s hr hp hnc j hst
    unfold callsOf
    refine List.mem_map.mpr ⟨j, mem_endedIds.mpr ⟨o, ho⟩, ?_⟩
    simp [jobRes, jobBody, runPJob_call, List.getD_eq_getElem?_getD, hj]
  exact ⟨fun pos t ht => key pos _ (parJobs_task p pos t ht) rfl,
         fun kd col base hat x hx => key _ _ (hat.elem x hx) rfl⟩

/-- Job `j`'s function is to be called in scenario `sc`: the function of every job it depends on
    returns nil.  (For Parallel: every task, element and entry; an End function iff the collection's
    function returns nil on every element.)  This is the list `ideal` of the oracle `checkPar`. -/
def toBeCalled (p : Prog) (sc : Scenario) (j : Nat) : Bool :=
  ((parJobs p).getD j default).deps.all fun d => pOut sc (jobBody p d) == .ok

/-- **C08 for Parallel, exact call set and exact error (ContinueOnError).** Under the premises of
    `C08_par_errors`: the functions that were called are — each exactly once — those of the jobs
    whose dependencies' functions all return nil in the scenario; the error has one entry for each
    of these whose own function does not return nil, and nothing else. -/
theorem C08_par_ideal (p : Prog) (sc : Scenario) (c : Cfg) (hc : ParCfg p c) (hcoe : c.coe = true)
    (acts : List Act) (s : State) (hr : run c (init c) acts = some s)
    (hp : s.loop.phase ≠ .select) (hall : s.caller.sent = (parJobs p).length)
    (hnc : ∀ j, Ev.cancelled (c.ctxOfJob j) ∉ s.log) (hcons : Consistent p sc s.log) :
    (endedIds s.log).Perm ((List.range (parJobs p).length).filter (toBeCalled p sc)) ∧
    (callsOf p sc s.log).Perm
      (((List.range (parJobs p).length).filter (toBeCalled p sc)).map fun j => pCall p (jobBody p j)) ∧
    (s.loop.err.map (entryOf p sc)).Perm
      (((List.range (parJobs p).length).filter
          (fun j => toBeCalled p sc j && pOut sc (jobBody p j) != .ok)).map
        fun j => ((jobRes p sc j).ret).getD "nil") := by
  have hwf := wf_parCfg hc
  obtain ⟨R, _⟩ := full_run hc.wiring hwf acts s hr
  have hE := C08_par_errors p sc c hc hcoe acts s hr hp hall hnc hcons
  -- a job without dependencies ran to its end
  have nodeps : ∀ d jd, (parJobs p)[d]? = some jd → jd.deps = [] → ∃ o, Ev.ended d o ∈ s.log := by
    intro d jd hd hnd
    have h1 := hE.1 d jd hd hnd
    exact coe_started_ended c hc.wiring hwf hcoe acts s hr hp hnc d (List.count_pos_iff.mp (by omega))
  have getD_eq : ∀ j job, (parJobs p)[j]? = some job → (parJobs p).getD j default = job := by
    intro j job hj; simp [List.getD_eq_getElem?_getD, hj]
  -- membership in `endedIds`
  have mem : ∀ j, j ∈ endedIds s.log ↔ j < (parJobs p).length ∧ toBeCalled p sc j = true := by
    intro j
    rw [mem_endedIds]
    constructor
    · rintro ⟨o, ho⟩
      have hlt : j < (parJobs p).length := by rw [← hall]; exact ended_lt_sent hc.wiring hwf acts s hr j o ho
      refine ⟨hlt, ?_⟩
      have hj : (parJobs p)[j]? = some (parJobs p)[j] := List.getElem?_eq_getElem hlt
      unfold toBeCalled
      rw [getD_eq j _ hj, List.all_eq_true]
      intro d hd
      have hst := R.i6.endedStarted j o ho
      obtain ⟨i, hi⟩ := List.mem_iff_getElem?.mp hst
      obtain ⟨k, _, hk⟩ := C01_deps_before_start c hc.wiring hwf acts s hr i j hi d (by rw [hc.depsOf hj]; exact hd)
      simpa using consistent_ok hcons (List.mem_of_getElem? hk)
    · rintro ⟨hlt, htc⟩
      have hj : (parJobs p)[j]? = some (parJobs p)[j] := List.getElem?_eq_getElem hlt
      unfold toBeCalled at htc
      rw [getD_eq j _ hj, List.all_eq_true] at htc
      have hst : Ev.started j ∈ s.log := by
        apply C08_runnable_ran c hc.wiring hwf hcoe acts s hr hp j (by rw [hall]; exact hlt) _ (hnc _)
        intro d hd
        rw [hc.depsOf hj] at hd
        obtain ⟨jd, hjd, hnd⟩ := parJobs_deps_nodeps p j _ hj d hd
        obtain ⟨o, ho⟩ := nodeps d jd hjd hnd
        have := hcons d o ho
        unfold outcomeOf jobRes at this
        rw [(runPJob_ret p sc _).1.mpr (by simpa using htc d hd)] at this
        simp at this; subst this; exact ho
      exact coe_started_ended c hc.wiring hwf hcoe acts s hr hp hnc j hst
  have perm1 : (endedIds s.log).Perm ((List.range (parJobs p).length).filter (toBeCalled p sc)) := by
    rw [List.perm_ext_iff_of_nodup (endedIds_nodup R.i6.endedOnce) (List.nodup_range.filter _)]
    intro j; rw [mem, List.mem_filter, List.mem_range]
  refine ⟨perm1, ?_, ?_⟩
  · have := perm1.map (fun j => (jobRes p sc j).call)
    unfold callsOf
    refine this.trans (List.Perm.of_eq ?_)
    apply List.map_congr_left
    intro j _; simp [jobRes, runPJob_call]
  · obtain ⟨seen, herr, hperm, _⟩ := hE.2.1
    have perm2 : (failedIds s.log).Perm ((List.range (parJobs p).length).filter
        (fun j => toBeCalled p sc j && pOut sc (jobBody p j) != .ok)) := by
      rw [List.perm_ext_iff_of_nodup (failedIds_nodup R.i6.endedOnce) (List.nodup_range.filter _)]
      intro j
      rw [mem_failedIds, List.mem_filter, List.mem_range, Bool.and_eq_true]
      constructor
      · rintro ⟨e, he⟩
        have hm := (mem j).mp (mem_endedIds.mpr ⟨_, he⟩)
        exact ⟨hm.1, hm.2, by simpa using (consistent_fail hcons he (by simp)).2⟩
      · rintro ⟨hlt, htc, hbad⟩
        obtain ⟨o, ho⟩ := mem_endedIds.mp ((mem j).mpr ⟨hlt, htc⟩)
        refine ⟨j, ?_⟩
        have hne : o ≠ .ok := by
          rintro rfl
          have := consistent_ok hcons ho
          simp [this] at hbad
        rw [← (consistent_fail hcons ho hne).1]; exact ho
    rw [herr, List.map_map]
    have := (hperm.trans perm2).map (fun j => ((jobRes p sc j).ret).getD "nil")
    refine (List.Perm.of_eq ?_).trans this
    apply List.map_congr_left
    intro j _; simp [entryOf]

/-! ### C07 — fail-fast error -/

/-- **C07 for Parallel (fail-fast).** Whatever `Wait` returns is nil, or a context's error after
    a cancellation (of some context: generated code uses one context throughout), or exactly one entry: the own error (or `PanicError`) of one function that was
    called and does not return nil in the scenario — all of whose dependencies had returned nil. -/
theorem C07_par_error (p : Prog) (sc : Scenario) (c : Cfg) (hc : ParCfg p c) (hff : c.coe = false)
    (acts : List Act) (s : State) (hr : run c (init c) acts = some s) (hcons : Consistent p sc s.log)
    (r : List Res) (hret : Ev.waitReturned r ∈ s.log) :
    r = [] ∨ (r = [.ctxErr] ∧ ∃ x, Ev.cancelled x ∈ s.log) ∨
    ∃ j, r = [.fail j] ∧ Ev.ended j (.fail j) ∈ s.log ∧ pOut sc (jobBody p j) ≠ .ok ∧
      (jobRes p sc j).ret = some (entryOf p sc (.fail j)) ∧
      ∀ d ∈ c.depsOf j, pOut sc (jobBody p d) = .ok := by
  have hwf := wf_parCfg hc
  rcases C07_error_real c hc.wiring hwf hff acts s hr r hret with h | ⟨x, rfl, hx⟩
  · exact Or.inl h
  · rcases hx with ⟨rfl, hcan⟩ | ⟨j, e, rfl, he⟩ | ⟨rfl, j, he⟩
    · rcases hcan with hcan | ⟨_, _, hcan⟩
      · exact Or.inr (Or.inl ⟨rfl, _, hcan⟩)
      · exact Or.inr (Or.inl ⟨rfl, _, hcan⟩)
    · obtain ⟨h1, h2⟩ := consistent_fail hcons he (by simp)
      simp at h1; subst h1
      refine Or.inr (Or.inr ⟨e, rfl, he, h2, ?_, ?_⟩)
      · cases hret' : (jobRes p sc e).ret with
        | none => exact absurd ((runPJob_ret p sc _).1.mp hret') h2
        | some x => simp [entryOf, hret']
      · intro d hd
        have hst := (full_run hc.wiring hwf acts s hr).1.i6.endedStarted e _ he
        exact consistent_ok hcons (C07_no_downstream c hc.wiring hwf acts s hr e d hst (.direct hd))
    · have := (consistent_fail hcons he (by simp)).1
      simp at this

/-! ### C04 — containment -/

/-- **C04 for Parallel.** No panic escapes the body of any job generated for a Parallel — task,
    slice element, map entry, End function —, whatever the scenario; a panicking function makes
    its job fail with the `PanicError` entry carrying the panic's value class; without the recover
    block the panic would escape. -/
theorem C04_par_no_escape (p : Prog) (sc : Scenario) :
    (∀ j, (jobRes p sc j).crashed = false) ∧
    (∀ b, (runPJob .std p sc b).crashed = false) ∧
    (∀ b, pOut sc b = .panic → (runPJob .std p sc b).ret = some (pPanicEntry sc b)) ∧
    (∀ b, pOut sc b = .panic → (runPJob { recoverBlock := false } p sc b).crashed = true) :=
  ⟨fun _ => runPJob_no_crash p sc _, runPJob_no_crash p sc, fun b h => (runPJob_ret p sc b).2.2 h,
   fun b h => runPJob_crash_without_recover p sc b h⟩

end Gen
