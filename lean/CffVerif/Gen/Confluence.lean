/-
  Confluence of the generated flow (item 3): running the job bodies in any order that respects the
  jobs' `Dependencies` (each dependency ran earlier and returned nil) gives every executed body the
  result it has in the sequential reference execution `ideal`, and a store that agrees with
  `ideal`'s on everything those bodies wrote.
-/
import CffVerif.Gen.Discipline

namespace Gen

theorem snoc_induction {α : Type} {P : List α → Prop} (h0 : P [])
    (hs : ∀ l a, P l → P (l ++ [a])) : ∀ l, P l := by
  intro l
  have : ∀ l : List α, P l.reverse := by
    intro l
    induction l with
    | nil => exact h0
    | cons a l ih => rw [List.reverse_cons]; exact hs _ _ ih
  have h := this l.reverse
  rwa [List.reverse_reverse] at h

/-! ### the reference execution, with a trace -/

/-- The initial store of an execution: Params hold their values, everything else is zero. -/
def start (p : Prog) : Store :=
  { val := fun t => match p.params.idxOf? t with | some i => paramVal i | none => 0 }

/-- "ran and returned nil". -/
def okOpt : Option BodyRes → Bool
  | some r => r.ret.isNone
  | none => false

def okAt (res : List (Option BodyRes)) (d : Nat) : Bool := okOpt (res.getD d none)

/-- One step of the reference execution, recording what the body did (`none` = not run). -/
def idealStep (p : Prog) (sc : Scenario) (acc : Store × List (Option BodyRes)) (j : Job) :
    Store × List (Option BodyRes) :=
  if j.deps.all (okAt acc.2) then
    ((runJob p sc j acc.1).store, acc.2 ++ [some (runJob p sc j acc.1)])
  else (acc.1, acc.2 ++ [none])

/-- The reference execution after the first `m` jobs. -/
def idealPre (p : Prog) (sc : Scenario) (m : Nat) : Store × List (Option BodyRes) :=
  ((genJobs p).take m).foldl (idealStep p sc) (start p, [])

def idealTr (p : Prog) (sc : Scenario) : Store × List (Option BodyRes) :=
  (genJobs p).foldl (idealStep p sc) (start p, [])

/-- What the body of job `j` did in the reference execution (`none`: it did not run). -/
def idealRes (p : Prog) (sc : Scenario) (j : Nat) : Option BodyRes := (idealTr p sc).2.getD j none

/-- The step function of `Gen.ideal`. -/
def idealFn (p : Prog) (sc : Scenario) (acc : Ideal) (j : Job) : Ideal :=
  let ready := j.deps.all fun d => acc.succ.getD d false
  if !ready then { acc with succ := acc.succ ++ [false] }
  else
    let r := runJob p sc j acc.store
    let acc := { acc with store := r.store, succ := acc.succ ++ [r.ret.isNone] }
    if j.fn.isPred then acc.upd j.fn.k fun f => { f with predCalled := true, predArgs := r.args }
    else acc.upd j.fn.k fun f => { f with jobRan := true, fnCalled := r.invoked, fnArgs := r.args, fail := r.ret,
                                          failIsPred := r.ret.isSome && !r.invoked }

theorem ideal_eq_foldl (p : Prog) (sc : Scenario) :
    ideal p sc = (genJobs p).foldl (idealFn p sc) { store := start p } := rfl

theorem getD_map_okOpt (l : List (Option BodyRes)) (d : Nat) :
    (l.map okOpt).getD d false = okAt l d := by
  simp only [okAt, List.getD_eq_getElem?_getD, List.getElem?_map]
  cases l[d]? <;> rfl

theorem idealFn_sim (p : Prog) (sc : Scenario) (acc : Ideal) (tr : Store × List (Option BodyRes)) (j : Job)
    (h1 : acc.store = tr.1) (h2 : acc.succ = tr.2.map okOpt) :
    (idealFn p sc acc j).store = (idealStep p sc tr j).1 ∧
    (idealFn p sc acc j).succ = (idealStep p sc tr j).2.map okOpt := by
  have hready : (j.deps.all fun d => acc.succ.getD d false) = j.deps.all (okAt tr.2) := by
    congr 1; funext d; rw [h2, getD_map_okOpt]
  unfold idealFn idealStep
  simp only [hready]
  cases hr : j.deps.all (okAt tr.2) with
  | false =>
    simp only [Bool.not_false, if_true, Bool.false_eq_true, if_false]
    exact ⟨h1, by simp [h2, okOpt]⟩
  | true =>
    simp only [Bool.not_true, Bool.false_eq_true, if_false, if_true]
    cases j.fn.isPred <;> simp [Ideal.upd, h1, h2, okOpt]

/-- `Gen.ideal` and the traced reference execution agree on the store and on `succ`. -/
theorem ideal_eq (p : Prog) (sc : Scenario) :
    (ideal p sc).store = (idealTr p sc).1 ∧ (ideal p sc).succ = (idealTr p sc).2.map okOpt := by
  rw [ideal_eq_foldl]
  unfold idealTr
  have gen : ∀ (js : List Job) (acc : Ideal) (tr : Store × List (Option BodyRes)),
      acc.store = tr.1 → acc.succ = tr.2.map okOpt →
      (js.foldl (idealFn p sc) acc).store = (js.foldl (idealStep p sc) tr).1 ∧
      (js.foldl (idealFn p sc) acc).succ = (js.foldl (idealStep p sc) tr).2.map okOpt := by
    intro js
    induction js with
    | nil => intro acc tr h1 h2; exact ⟨h1, h2⟩
    | cons j js ih =>
      intro acc tr h1 h2
      simp only [List.foldl_cons]
      obtain ⟨g1, g2⟩ := idealFn_sim p sc acc tr j h1 h2
      exact ih _ _ g1 g2
  exact gen _ _ _ rfl rfl

/-! ### prefixes of the reference execution -/

theorem idealPre_zero (p : Prog) (sc : Scenario) : idealPre p sc 0 = (start p, []) := by
  simp [idealPre]

theorem idealPre_succ (p : Prog) (sc : Scenario) {m : Nat} (hm : m < (genJobs p).length) :
    idealPre p sc (m + 1) = idealStep p sc (idealPre p sc m) (jobAt p m) := by
  unfold idealPre
  rw [List.take_add_one, List.foldl_append, jobAt_eq hm]
  rfl

theorem idealPre_all (p : Prog) (sc : Scenario) : idealPre p sc (genJobs p).length = idealTr p sc := by
  unfold idealPre idealTr
  rw [List.take_length]

theorem idealStep_res (p : Prog) (sc : Scenario) (acc : Store × List (Option BodyRes)) (j : Job) :
    ∃ e, (idealStep p sc acc j).2 = acc.2 ++ [e] := by
  unfold idealStep
  split
  · exact ⟨_, rfl⟩
  · exact ⟨_, rfl⟩

theorem idealPre_length (p : Prog) (sc : Scenario) : ∀ m, m ≤ (genJobs p).length →
    (idealPre p sc m).2.length = m := by
  intro m
  induction m with
  | zero => intro _; simp [idealPre_zero]
  | succ m ih =>
    intro hm
    rw [idealPre_succ p sc (by omega)]
    obtain ⟨e, he⟩ := idealStep_res p sc (idealPre p sc m) (jobAt p m)
    rw [he, List.length_append, ih (by omega)]; rfl

/-- Results already recorded are never changed by later steps. -/
theorem idealPre_stable (p : Prog) (sc : Scenario) {i m : Nat} (him : i < m) :
    ∀ m', m ≤ m' → m' ≤ (genJobs p).length →
      (idealPre p sc m').2.getD i none = (idealPre p sc m).2.getD i none := by
  have gen : ∀ k, m + k ≤ (genJobs p).length →
      (idealPre p sc (m + k)).2.getD i none = (idealPre p sc m).2.getD i none := by
    intro k
    induction k with
    | zero => intro _; rfl
    | succ k ih =>
      intro hle
      rw [← Nat.add_assoc, idealPre_succ p sc (by omega)]
      obtain ⟨e, he⟩ := idealStep_res p sc (idealPre p sc (m + k)) (jobAt p (m + k))
      rw [he, ← ih (by omega)]
      have hl := idealPre_length p sc (m + k) (by omega)
      simp only [List.getD_eq_getElem?_getD]
      rw [List.getElem?_append_left (by omega)]
  intro m' hmm hle
  obtain ⟨k, rfl⟩ := Nat.exists_eq_add_of_le hmm
  exact gen k hle

theorem idealRes_eq (p : Prog) (sc : Scenario) {i m : Nat} (him : i < m) (hm : m ≤ (genJobs p).length) :
    (idealPre p sc m).2.getD i none = idealRes p sc i := by
  unfold idealRes
  rw [← idealPre_all]
  exact (idealPre_stable p sc him _ hm (Nat.le_refl _)).symm

/-- What step `j` of the reference execution does. -/
theorem ideal_step_spec (p : Prog) (sc : Scenario) {j : Nat} (hj : j < (genJobs p).length) :
    ((jobAt p j).deps.all (okAt (idealPre p sc j).2) = true →
      idealRes p sc j = some (runJob p sc (jobAt p j) (idealPre p sc j).1) ∧
      (idealPre p sc (j + 1)).1 = (runJob p sc (jobAt p j) (idealPre p sc j).1).store) ∧
    ((jobAt p j).deps.all (okAt (idealPre p sc j).2) = false →
      idealRes p sc j = none ∧ (idealPre p sc (j + 1)).1 = (idealPre p sc j).1) := by
  have hl := idealPre_length p sc j (by omega)
  have hr := idealRes_eq p sc (Nat.lt_succ_self j) hj
  rw [idealPre_succ p sc hj] at hr ⊢
  unfold idealStep at hr ⊢
  refine ⟨?_, ?_⟩
  · intro h
    simp only [h, if_true] at hr ⊢
    refine ⟨?_, trivial⟩
    rw [← hr]
    simp only [List.getD_eq_getElem?_getD]
    rw [List.getElem?_append_right (by omega)]
    simp [hl]
  · intro h
    simp only [h, Bool.false_eq_true, if_false] at hr ⊢
    refine ⟨?_, trivial⟩
    rw [← hr]
    simp only [List.getD_eq_getElem?_getD]
    rw [List.getElem?_append_right (by omega)]
    simp [hl]

/-- Frame for the reference execution: a variable that none of the jobs `m .. m'-1` writes is the
    same before and after them. -/
theorem idealPre_frame (p : Prog) (sc : Scenario) (x : Var) {m : Nat} :
    ∀ m', m ≤ m' → m' ≤ (genJobs p).length → (∀ k, m ≤ k → k < m' → x ∉ writesAt p k) →
      (idealPre p sc m').1.get x = (idealPre p sc m).1.get x := by
  have gen : ∀ k, m + k ≤ (genJobs p).length → (∀ i, m ≤ i → i < m + k → x ∉ writesAt p i) →
      (idealPre p sc (m + k)).1.get x = (idealPre p sc m).1.get x := by
    intro k
    induction k with
    | zero => intro _ _; rfl
    | succ k ih =>
      intro hle hnw
      rw [← ih (by omega) (fun i h1 h2 => hnw i h1 (by omega))]
      obtain ⟨s1, s2⟩ := ideal_step_spec p sc (j := m + k) (by omega)
      rw [← Nat.add_assoc]
      cases hr : (jobAt p (m + k)).deps.all (okAt (idealPre p sc (m + k)).2) with
      | true =>
        rw [(s1 hr).2]
        exact runJob_frame p sc _ _ x (hnw (m + k) (by omega) (by omega))
      | false => rw [(s2 hr).2]
  intro m' hmm hle hnw
  obtain ⟨k, rfl⟩ := Nat.exists_eq_add_of_le hmm
  exact gen k hle hnw

/-! ### executing the bodies in a given order -/

def execStep (p : Prog) (sc : Scenario) (acc : Store × List (Nat × BodyRes)) (j : Nat) :
    Store × List (Nat × BodyRes) :=
  ((runJob p sc (jobAt p j) acc.1).store, acc.2 ++ [(j, runJob p sc (jobAt p j) acc.1)])

/-- Run the bodies of the jobs at the given positions, in the given order, from the initial
    store; returns the final store and the list of (position, what the body did). -/
def execOrder (p : Prog) (sc : Scenario) (order : List Nat) : Store × List (Nat × BodyRes) :=
  order.foldl (execStep p sc) (start p, [])

theorem execOrder_snoc (p : Prog) (sc : Scenario) (o : List Nat) (j : Nat) :
    execOrder p sc (o ++ [j]) = execStep p sc (execOrder p sc o) j := by
  simp [execOrder, List.foldl_append]

theorem execOrder_fst (p : Prog) (sc : Scenario) : ∀ o, (execOrder p sc o).2.map Prod.fst = o := by
  apply snoc_induction
  · rfl
  · intro o j ih
    rw [execOrder_snoc]
    simp [execStep, ih]

theorem execOrder_length (p : Prog) (sc : Scenario) (o : List Nat) : (execOrder p sc o).2.length = o.length := by
  have := congrArg List.length (execOrder_fst p sc o)
  simpa using this

theorem mem_trace_order {p : Prog} {sc : Scenario} {o : List Nat} {j : Nat} {r : BodyRes}
    (h : (j, r) ∈ (execOrder p sc o).2) : j ∈ o := by
  rw [← execOrder_fst p sc o]
  exact List.mem_map.mpr ⟨(j, r), h, rfl⟩

/-- An order is valid if it has no duplicates, names existing jobs only, and every job in it comes
    after all the jobs it lists as `Dependencies`, each of which returned nil in this execution. -/
def ValidOrder (p : Prog) (sc : Scenario) (o : List Nat) : Prop :=
  o.Nodup ∧ (∀ j ∈ o, j < (genJobs p).length) ∧
  ∀ n j, o[n]? = some j → ∀ d ∈ (jobAt p j).deps,
    ∃ (m : Nat) (r : BodyRes), m < n ∧ (execOrder p sc o).2[m]? = some (d, r) ∧ r.ret = none

/-- The condition for appending job `j` to an executed order with trace `tr`. -/
def StepOK (p : Prog) (tr : List (Nat × BodyRes)) (j : Nat) : Prop :=
  j < (genJobs p).length ∧ ∀ d ∈ (jobAt p j).deps, ∃ r, (d, r) ∈ tr ∧ r.ret = none

theorem validOrder_nil (p : Prog) (sc : Scenario) : ValidOrder p sc [] :=
  ⟨List.nodup_nil, by simp, by simp⟩

theorem validOrder_snoc {p : Prog} {sc : Scenario} {o : List Nat} {j : Nat} :
    ValidOrder p sc (o ++ [j]) ↔ ValidOrder p sc o ∧ j ∉ o ∧ StepOK p (execOrder p sc o).2 j := by
  have htr : (execOrder p sc (o ++ [j])).2 = (execOrder p sc o).2 ++
      [(j, runJob p sc (jobAt p j) (execOrder p sc o).1)] := by
    rw [execOrder_snoc]; rfl
  have hlen := execOrder_length p sc o
  constructor
  · intro ⟨hnd, hlt, hdep⟩
    rw [List.nodup_append] at hnd
    obtain ⟨hnd1, _, hnd3⟩ := hnd
    refine ⟨⟨hnd1, fun k hk => hlt k (List.mem_append_left _ hk), ?_⟩, ?_, ?_, ?_⟩
    · intro n k hn d hd
      have hnl : n < o.length := (List.getElem?_eq_some_iff.mp hn).1
      obtain ⟨m, r, hm, hg, hr⟩ := hdep n k (by rw [List.getElem?_append_left hnl]; exact hn) d hd
      rw [htr, List.getElem?_append_left (by omega)] at hg
      exact ⟨m, r, hm, hg, hr⟩
    · intro hm; exact hnd3 j hm j (by simp) rfl
    · exact hlt j (by simp)
    · intro d hd
      obtain ⟨m, r, hm, hg, hr⟩ := hdep o.length j (by simp) d hd
      rw [htr, List.getElem?_append_left (by omega)] at hg
      exact ⟨r, List.mem_of_getElem? hg, hr⟩
  · intro ⟨⟨hnd, hlt, hdep⟩, hj, hjl, hjd⟩
    refine ⟨?_, ?_, ?_⟩
    · rw [List.nodup_append]
      refine ⟨hnd, by simp, ?_⟩
      intro a ha b hb
      simp only [List.mem_singleton] at hb
      subst hb
      intro e; subst e; exact hj ha
    · intro k hk
      rcases List.mem_append.mp hk with hk | hk
      · exact hlt k hk
      · simp only [List.mem_singleton] at hk; subst hk; exact hjl
    · intro n k hn d hd
      by_cases hnl : n < o.length
      · rw [List.getElem?_append_left hnl] at hn
        obtain ⟨m, r, hm, hg, hr⟩ := hdep n k hn d hd
        refine ⟨m, r, hm, ?_, hr⟩
        rw [htr, List.getElem?_append_left (by omega)]; exact hg
      · rw [List.getElem?_append_right (by omega)] at hn
        have hn0 : n = o.length := by
          have := (List.getElem?_eq_some_iff.mp hn).1; simp at this; omega
        subst hn0
        simp at hn; subst hn
        obtain ⟨r, hm, hr⟩ := hjd d hd
        obtain ⟨m, hm'⟩ := List.mem_iff_getElem?.mp hm
        have hml : m < (execOrder p sc o).2.length := (List.getElem?_eq_some_iff.mp hm').1
        refine ⟨m, r, by omega, ?_, hr⟩
        rw [htr, List.getElem?_append_left hml]; exact hm'

/-! ### confluence -/

/-- The invariant of an executed valid order. -/
structure ConfInv (p : Prog) (sc : Scenario) (o : List Nat) : Prop where
  /-- every executed body did what it does in the reference execution (which runs it, too) -/
  same : ∀ j r, (j, r) ∈ (execOrder p sc o).2 → ∃ ri, idealRes p sc j = some ri ∧ SameRes r ri
  /-- what the executed bodies wrote is what the reference execution ends with -/
  written : ∀ j ∈ o, ∀ x ∈ writesAt p j, (execOrder p sc o).1.get x = (idealTr p sc).1.get x
  /-- everything else still has its initial value -/
  untouched : ∀ x, (∀ j ∈ o, x ∉ writesAt p j) → (execOrder p sc o).1.get x = (start p).get x

theorem confInv_of_valid {p : Prog} (D : Disc p) (sc : Scenario) :
    ∀ o, ValidOrder p sc o → ConfInv p sc o := by
  apply snoc_induction
  · intro _
    refine ⟨?_, ?_, ?_⟩
    · intro j r h; simp [execOrder] at h
    · intro j h; simp at h
    · intro x _; rfl
  · intro o j ih hv
    obtain ⟨hvo, hjo, hjl, hjd⟩ := validOrder_snoc.mp hv
    have I := ih hvo
    have hol : ∀ i ∈ o, i < (genJobs p).length := hvo.2.1
    let n := (genJobs p).length
    -- the reference execution at step j
    have hpre_start : ∀ x, (∀ k, k < j → x ∉ writesAt p k) →
        (idealPre p sc j).1.get x = (start p).get x := by
      intro x hx
      have := idealPre_frame p sc x (m := 0) j (Nat.zero_le _) (by omega) (fun k _ hk => hx k hk)
      rw [this, idealPre_zero]
    have hfinal : ∀ i x, i < n → x ∈ writesAt p i → ∀ m, i + 1 ≤ m → m ≤ n →
        (idealPre p sc m).1.get x = (idealPre p sc (i + 1)).1.get x := by
      intro i x hi hx m h1 h2
      apply idealPre_frame p sc x m h1 h2
      intro k hk1 hk2 hxk
      have := D.writesDisjoint i k x hi (by omega) hx hxk
      omega
    -- 1. the reference execution runs job j
    have hready : (jobAt p j).deps.all (okAt (idealPre p sc j).2) = true := by
      rw [List.all_eq_true]
      intro d hd
      obtain ⟨r, hm, hr⟩ := hjd d hd
      obtain ⟨ri, hri, hs⟩ := I.same d r hm
      have hdj : d < j := D.depsBefore j hjl d hd
      unfold okAt
      rw [idealRes_eq p sc hdj (by omega), hri]
      simp [okOpt, ← hs.1, hr]
    obtain ⟨hres, hstore⟩ := (ideal_step_spec p sc hjl).1 hready
    -- 2. the stores agree on what job j reads
    have hreads : ∀ x ∈ (jobAt p j).reads p,
        (execOrder p sc o).1.get x = (idealPre p sc j).1.get x := by
      intro x hx
      by_cases hw : ∃ i, i < n ∧ x ∈ writesAt p i
      · obtain ⟨i, hi, hxi⟩ := hw
        have hidep : i ∈ (jobAt p j).deps := D.readDep i j x hi hjl hx hxi
        have hij : i < j := D.depsBefore j hjl i hidep
        obtain ⟨r, hm, _⟩ := hjd i hidep
        have hio : i ∈ o := mem_trace_order hm
        rw [I.written i hio x hxi, ← idealPre_all,
          hfinal i x hi hxi n (by omega) (Nat.le_refl _), hfinal i x hi hxi j (by omega) (by omega)]
      · have hno : ∀ k, k < n → x ∉ writesAt p k := fun k hk hxk => hw ⟨k, hk, hxk⟩
        rw [I.untouched x (fun i hi => hno i (hol i hi)), hpre_start x (fun k hk => hno k (by omega))]
    obtain ⟨hsame, hwr⟩ := runJob_congr p sc (jobAt p j) _ _ hreads
    -- 3. what job j writes
    have hnew : ∀ x ∈ writesAt p j,
        (runJob p sc (jobAt p j) (execOrder p sc o).1).store.get x = (idealTr p sc).1.get x := by
      intro x hx
      have h1 : (execOrder p sc o).1.get x = (start p).get x := by
        apply I.untouched
        intro i hi hxi
        have := D.writesDisjoint i j x (hol i hi) hjl hxi hx
        subst this; exact hjo hi
      have h2 : (idealPre p sc j).1.get x = (start p).get x := by
        apply hpre_start
        intro k hk hxk
        have := D.writesDisjoint k j x (by omega) hjl hxk hx
        omega
      rw [hwr x hx (h1.trans h2.symm), ← hstore, ← idealPre_all]
      exact (hfinal j x hjl hx n (by omega) (Nat.le_refl _)).symm
    have hex : execOrder p sc (o ++ [j]) = execStep p sc (execOrder p sc o) j := execOrder_snoc p sc o j
    refine ⟨?_, ?_, ?_⟩
    · intro k r hm
      rw [hex] at hm
      simp only [execStep, List.mem_append, List.mem_singleton] at hm
      rcases hm with hm | hm
      · exact I.same k r hm
      · cases hm
        exact ⟨_, hres, hsame⟩
    · intro i hi x hx
      rw [hex]
      simp only [execStep]
      rcases List.mem_append.mp hi with hio | hij
      · have hne : x ∉ (jobAt p j).writes p := by
          intro hxj
          have hij := D.writesDisjoint i j x (hol i hio) hjl hx hxj
          exact hjo (hij ▸ hio)
        rw [runJob_frame p sc _ _ x hne]
        exact I.written i hio x hx
      · simp only [List.mem_singleton] at hij
        subst hij
        exact hnew x hx
    · intro x hx
      rw [hex]
      simp only [execStep]
      rw [runJob_frame p sc _ _ x (hx j (by simp))]
      exact I.untouched x (fun i hi => hx i (List.mem_append_left _ hi))

/-- **Confluence (item 3).**  For an accepted flow and every valid order: each executed body
    returns the same error, makes the same call with the same arguments and emits the same events
    as in the reference execution `ideal p sc` — which runs that job as well; the final store
    agrees with `ideal`'s final store on every variable written by a job of the order; and every
    variable not written by a job of the order still has its initial value. -/
theorem confluence (p : Prog) (sc : Scenario) (hacc : validateFlow p = []) (hs : SmallTypes p)
    (hd : DistinctIds p) (o : List Nat) (hv : ValidOrder p sc o) :
    (∀ j r, (j, r) ∈ (execOrder p sc o).2 → ∃ ri, idealRes p sc j = some ri ∧ SameRes r ri) ∧
    (∀ j ∈ o, ∀ x ∈ writesAt p j, (execOrder p sc o).1.get x = (ideal p sc).store.get x) ∧
    (∀ x, (∀ j ∈ o, x ∉ writesAt p j) → (execOrder p sc o).1.get x = (start p).get x) := by
  have I := confInv_of_valid (disc_of_accepted p hacc hs hd) sc o hv
  rw [(ideal_eq p sc).1]
  exact ⟨I.same, I.written, I.untouched⟩

/-- `idealRes` is what `ideal` records in `succ`: job `j` "ran and returned nil" in `ideal`
    iff its recorded body result exists and has `ret = none`. -/
theorem ideal_succ_eq (p : Prog) (sc : Scenario) (j : Nat) :
    (ideal p sc).succ.getD j false = okOpt (idealRes p sc j) := by
  rw [(ideal_eq p sc).2, getD_map_okOpt]; rfl

end Gen
