/-
  C14 (order independence): acceptance by the flow validator model (`validateFlow`) does not depend
  on the ORDER in which the tasks, the Params types or the Results types are listed.

  The executable model is order-sensitive in its internals (`providerOf` picks the LAST provider,
  `dependsOn`/`Acyclic` speak about function INDICES, `bfs`/`dfsCycle` walk lists), so the proof
  goes through the declarative specification `WellFormed` (`validateFlow_iff_wellFormed`) and a
  type-level characterisation of acyclicity that does not mention indices (`AcyclicT`).
-/
import CffVerif.Gen.Complete

namespace Gen

/-! ### 1. type-level acyclicity -/

/-- Acyclicity without indices: a rank on TYPES such that every type a function provides ranks
    strictly above each of the function's dependency types that some function provides.
    Functions that provide nothing (impossible for accepted flows: output-less tasks carry Invoke
    and provide `invTy k`, predicates provide `prdTy k`) impose no constraint; nobody can depend
    on them, so they cannot lie on a cycle. -/
def AcyclicT (p : Prog) : Prop :=
  ∃ rank : Ty → Nat, ∀ f ∈ funcs p, ∀ o ∈ f.provides, ∀ d ∈ f.deps,
    (∃ g ∈ funcs p, d ∈ g.provides) → rank d < rank o

/-- Maximum of `r` over a list (0 for the empty list). -/
def supRank (r : Ty → Nat) : List Ty → Nat
  | [] => 0
  | t :: ts => max (r t) (supRank r ts)

theorem le_supRank {r : Ty → Nat} {l : List Ty} {t : Ty} (h : t ∈ l) : r t ≤ supRank r l := by
  induction l with
  | nil => simp at h
  | cons x xs ih =>
    simp only [supRank]
    rcases List.mem_cons.mp h with rfl | h
    · exact Nat.le_max_left _ _
    · exact Nat.le_trans (ih h) (Nat.le_max_right _ _)

theorem supRank_le {r : Ty → Nat} {l : List Ty} {b : Nat} (h : ∀ t ∈ l, r t ≤ b) : supRank r l ≤ b := by
  induction l with
  | nil => simp [supRank]
  | cons x xs ih =>
    simp only [supRank]
    exact Nat.max_le.mpr ⟨h x (by simp), ih (fun t ht => h t (by simp [ht]))⟩

/-- An (unbounded) strictly decreasing rank on function indices already silences the cycle search;
    `hasCycle_false_of_acyclic` without the bound. -/
theorem hasCycle_false_of_rank (p : Prog) (rank : Nat → Nat)
    (hrank : ∀ i, ∀ d ∈ dependsOn (funcs p) i, rank d < rank i) : hasCycle p = false := by
  unfold hasCycle
  simp only []
  apply dfs_fold_false
  · intro d hd v
    obtain ⟨f, hf, hdf⟩ := List.mem_flatMap.mp hd
    apply dfs_complete (funcs p) (allTypes p) rank hrank (dep_mem_allTypes p)
    · exact List.nodup_nil
    · intro x hx; simp at hx
    · exact mem_allTypes.mpr (Or.inr (Or.inr ⟨f, hf, Or.inl hdf⟩))
    · simp
    · intro x hx; simp at hx
  · rfl

/-- Rank compression: any strictly decreasing index rank can be replaced by one bounded by the
    number of functions (through the cycle search: it finds nothing, hence `Acyclic`). -/
theorem acyclic_of_rank (p : Prog) (hu : crossUnique (funcs p) = true) (rank : Nat → Nat)
    (hrank : ∀ i, ∀ d ∈ dependsOn (funcs p) i, rank d < rank i) : Acyclic p :=
  acyclic_of_no_cycle p (hasCycle_false_of_rank p rank hrank) hu

/-- From a type rank to an index rank (no uniqueness needed: `providerOf` names *a* provider). -/
theorem indexRank_of_acyclicT (p : Prog) (h : AcyclicT p) :
    ∃ rank : Nat → Nat, ∀ i, ∀ d ∈ dependsOn (funcs p) i, rank d < rank i := by
  obtain ⟨rT, hT⟩ := h
  let r' : Ty → Nat := fun τ => if (providerOf (funcs p) τ).isSome then rT τ + 1 else 0
  refine ⟨fun i => supRank r' ((funcs p).getD i default).deps, ?_⟩
  intro i j hj
  simp only [dependsOn, List.mem_filterMap] at hj
  obtain ⟨τ, hτ, hp⟩ := hj
  obtain ⟨hjl, hτj⟩ := providerOf_spec hp
  have h1 : rT τ + 1 ≤ supRank r' ((funcs p).getD i default).deps := by
    have := le_supRank (r := r') hτ
    simpa [r', hp] using this
  have h2 : supRank r' ((funcs p).getD j default).deps ≤ rT τ := by
    apply supRank_le
    intro σ hσ
    show (if (providerOf (funcs p) σ).isSome then rT σ + 1 else 0) ≤ rT τ
    split
    · next hs =>
      obtain ⟨k, hk⟩ := Option.isSome_iff_exists.mp hs
      have := hT _ (getD_mem hjl) τ hτj σ hσ (providerOf_isSome_iff.mp ⟨k, hk⟩)
      omega
    · exact Nat.zero_le _
  show supRank r' ((funcs p).getD j default).deps < supRank r' ((funcs p).getD i default).deps
  omega

theorem acyclic_of_acyclicT (p : Prog) (hu : crossUnique (funcs p) = true) (h : AcyclicT p) :
    Acyclic p := by
  obtain ⟨rank, hrank⟩ := indexRank_of_acyclicT p h
  exact acyclic_of_rank p hu rank hrank

theorem acyclicT_of_acyclic (p : Prog) (hu : crossUnique (funcs p) = true) (h : Acyclic p) :
    AcyclicT p := by
  obtain ⟨rank, hrank, _⟩ := h
  refine ⟨fun τ => match providerOf (funcs p) τ with | some i => rank i | none => 0, ?_⟩
  intro f hf o ho d hd hprov
  obtain ⟨i, hi, rfl⟩ := exists_getD_of_mem hf
  obtain ⟨j, hj⟩ := providerOf_isSome_iff.mpr hprov
  have hoi : providerOf (funcs p) o = some i := providerOf_of_mem hu hi ho
  have hji : j ∈ dependsOn (funcs p) i := by
    simp only [dependsOn, List.mem_filterMap]
    exact ⟨d, hd, hj⟩
  simp only [hoi, hj]
  exact hrank i j hji

/-- **Index-free acyclicity.**  With unique providers, the index-based `Acyclic` (rank on function
    indices, decreasing along `dependsOn`, bounded by the number of functions) is the same as the
    type-level `AcyclicT`. -/
theorem acyclic_iff_acyclicT (p : Prog) (hu : ∀ τ, countProviders (funcs p) τ ≤ 1) :
    Acyclic p ↔ AcyclicT p :=
  have hc := ((unique_iff _).mp hu).1
  ⟨acyclicT_of_acyclic p hc, acyclic_of_acyclicT p hc⟩

/-- The same, with the executable uniqueness checks as hypothesis. -/
theorem acyclic_iff_acyclicT' (p : Prog) (hu : crossUnique (funcs p) = true) :
    Acyclic p ↔ AcyclicT p :=
  ⟨acyclicT_of_acyclic p hu, acyclic_of_acyclicT p hu⟩

/-! ### 2. programs that differ only in listing order -/

/-- `q` lists the same tasks, Params and Results as `p`, possibly in another order, and agrees
    with `p` on the other fields the flow validator reads. -/
structure SameUpToOrder (p q : Prog) : Prop where
  tasks : p.tasks.Perm q.tasks
  params : p.params.Perm q.params
  results : p.results.Perm q.results
  quirk : p.quirk = q.quirk
  instrDir : p.instrDir = q.instrDir
  emitters : p.emitters = q.emitters

theorem SameUpToOrder.refl (p : Prog) : SameUpToOrder p p :=
  ⟨List.Perm.refl _, List.Perm.refl _, List.Perm.refl _, rfl, rfl, rfl⟩

theorem SameUpToOrder.symm {p q : Prog} (h : SameUpToOrder p q) : SameUpToOrder q p :=
  ⟨h.tasks.symm, h.params.symm, h.results.symm, h.quirk.symm, h.instrDir.symm, h.emitters.symm⟩

theorem SameUpToOrder.trans {p q r : Prog} (h : SameUpToOrder p q) (h' : SameUpToOrder q r) :
    SameUpToOrder p r :=
  ⟨h.tasks.trans h'.tasks, h.params.trans h'.params, h.results.trans h'.results,
   h.quirk.trans h'.quirk, h.instrDir.trans h'.instrDir, h.emitters.trans h'.emitters⟩

/-- `funcs` is a `flatMap` over the tasks: a permutation of the tasks permutes the functions. -/
theorem funcs_perm {p q : Prog} (h : p.tasks.Perm q.tasks) : (funcs p).Perm (funcs q) := by
  unfold funcs
  exact h.flatMap_right _

theorem countProviders_perm {fs gs : List Fn} (h : fs.Perm gs) (τ : Ty) :
    countProviders fs τ = countProviders gs τ := by
  rw [countProviders_eq_count, countProviders_eq_count]
  exact (h.flatMap_right _).count_eq τ

theorem consumed_of_sameUpToOrder {p q : Prog} (h : SameUpToOrder p q) {τ : Ty}
    (hc : Consumed p τ) : Consumed q τ := by
  rcases hc with hr | ⟨f, hf, hd⟩
  · exact Or.inl (h.results.mem_iff.mp hr)
  · exact Or.inr ⟨f, (funcs_perm h.tasks).mem_iff.mp hf, hd⟩

theorem acyclicT_of_sameUpToOrder {p q : Prog} (h : SameUpToOrder p q) (ha : AcyclicT p) :
    AcyclicT q := by
  obtain ⟨rank, hr⟩ := ha
  have hm : ∀ f, f ∈ funcs q ↔ f ∈ funcs p := fun f => (funcs_perm h.tasks).mem_iff.symm
  refine ⟨rank, ?_⟩
  intro f hf o ho d hd ⟨g, hg, hdg⟩
  exact hr f ((hm f).mp hf) o ho d hd ⟨g, (hm g).mp hg, hdg⟩

/-- Well-formedness is invariant under reordering (one direction; the relation is symmetric). -/
theorem wellFormed_of_sameUpToOrder {p q : Prog} (h : SameUpToOrder p q) (w : WellFormed p) :
    WellFormed q := by
  have hf := funcs_perm h.tasks
  have hcnt : ∀ τ, countProviders (funcs q) τ = countProviders (funcs p) τ :=
    fun τ => (countProviders_perm hf τ).symm
  have hcons : ∀ τ, Consumed q τ → Consumed p τ := fun τ => consumed_of_sameUpToOrder h.symm
  have huq : ∀ τ, countProviders (funcs q) τ ≤ 1 := fun τ => by rw [hcnt]; exact w.uniqueProvider τ
  refine ⟨h.params.nodup_iff.mp w.paramsDistinct, ?_, ?_, ?_, ?_, huq, ?_, ?_, ?_, ?_, ?_⟩
  · intro t ht; exact w.invokeIff t (h.tasks.mem_iff.mpr ht)
  · intro t ht; exact w.fallbackNeedsErr t (h.tasks.mem_iff.mpr ht)
  · rw [← h.quirk]; exact w.invokeConstant
  · intro hi
    rw [← h.emitters]
    apply w.emitterForInstr
    rcases hi with hi | ⟨t, ht, hti⟩
    · exact Or.inl (h.instrDir.trans hi)
    · exact Or.inr ⟨t, h.tasks.mem_iff.mpr ht, hti⟩
  · intro τ hτ; rw [hcnt]; exact w.paramNotProvided τ (h.params.mem_iff.mpr hτ)
  · intro τ hτ
    rw [hcnt]
    rcases w.consumedProvided τ (hcons τ hτ) with hp | hp
    · exact Or.inl (h.params.mem_iff.mp hp)
    · exact Or.inr hp
  · intro τ hτ
    exact consumed_of_sameUpToOrder h (w.paramsConsumed τ (h.params.mem_iff.mpr hτ))
  · intro f hfq o ho
    exact consumed_of_sameUpToOrder h (w.outputsConsumed f (hf.mem_iff.mpr hfq) o ho)
  · exact (acyclic_iff_acyclicT q huq).mpr
      (acyclicT_of_sameUpToOrder h ((acyclic_iff_acyclicT p w.uniqueProvider).mp w.acyclic))

theorem wellFormed_iff_of_sameUpToOrder {p q : Prog} (h : SameUpToOrder p q) :
    WellFormed p ↔ WellFormed q :=
  ⟨wellFormed_of_sameUpToOrder h, wellFormed_of_sameUpToOrder h.symm⟩

/-- The encoding side conditions are invariant under reordering. -/
theorem smallTypes_of_sameUpToOrder {p q : Prog} (h : SameUpToOrder p q) (hs : SmallTypes p) :
    SmallTypes q := by
  refine ⟨?_, ?_⟩
  · intro τ hτ
    apply hs.1 τ
    rcases List.mem_append.mp hτ with hτ | hτ
    · exact List.mem_append_left _ (h.params.mem_iff.mpr hτ)
    · exact List.mem_append_right _ (h.results.mem_iff.mpr hτ)
  · intro t ht; exact hs.2 t (h.tasks.mem_iff.mpr ht)

theorem distinctIds_of_sameUpToOrder {p q : Prog} (h : SameUpToOrder p q) (hd : DistinctIds p) :
    DistinctIds q := by
  unfold DistinctIds at hd ⊢
  exact (h.tasks.map _).nodup_iff.mp hd

theorem smallTypes_iff_of_sameUpToOrder {p q : Prog} (h : SameUpToOrder p q) :
    SmallTypes p ↔ SmallTypes q :=
  ⟨smallTypes_of_sameUpToOrder h, smallTypes_of_sameUpToOrder h.symm⟩

theorem distinctIds_iff_of_sameUpToOrder {p q : Prog} (h : SameUpToOrder p q) :
    DistinctIds p ↔ DistinctIds q :=
  ⟨distinctIds_of_sameUpToOrder h, distinctIds_of_sameUpToOrder h.symm⟩

/-- **Order independence of acceptance, general form.**  Two flows that list the same tasks, Params
    and Results in any orders are accepted together or rejected together. -/
theorem C14_order_general {p q : Prog} (h : SameUpToOrder p q) (hs : SmallTypes p) (hd : DistinctIds p) :
    validateFlow p = [] ↔ validateFlow q = [] := by
  rw [validateFlow_iff_wellFormed p hs hd,
    validateFlow_iff_wellFormed q (smallTypes_of_sameUpToOrder h hs) (distinctIds_of_sameUpToOrder h hd)]
  exact wellFormed_iff_of_sameUpToOrder h

/-! ### the three single-field instances -/

theorem sameUpToOrder_tasks (p : Prog) {ts : List Task} (h : p.tasks.Perm ts) :
    SameUpToOrder p { p with tasks := ts } :=
  ⟨h, List.Perm.refl _, List.Perm.refl _, rfl, rfl, rfl⟩

theorem sameUpToOrder_params (p : Prog) {ps : List Ty} (h : p.params.Perm ps) :
    SameUpToOrder p { p with params := ps } :=
  ⟨List.Perm.refl _, h, List.Perm.refl _, rfl, rfl, rfl⟩

theorem sameUpToOrder_results (p : Prog) {rs : List Ty} (h : p.results.Perm rs) :
    SameUpToOrder p { p with results := rs } :=
  ⟨List.Perm.refl _, List.Perm.refl _, h, rfl, rfl, rfl⟩

/-- **`wellFormed_perm`.**  Listing the tasks in another order preserves well-formedness. -/
theorem wellFormed_perm (p₁ p₂ : Prog) (ts : List Task) (hperm : p₁.tasks.Perm ts)
    (h₂ : p₂ = { p₁ with tasks := ts }) : WellFormed p₁ ↔ WellFormed p₂ := by
  subst h₂; exact wellFormed_iff_of_sameUpToOrder (sameUpToOrder_tasks p₁ hperm)

theorem wellFormed_perm_params (p₁ p₂ : Prog) (ps : List Ty) (hperm : p₁.params.Perm ps)
    (h₂ : p₂ = { p₁ with params := ps }) : WellFormed p₁ ↔ WellFormed p₂ := by
  subst h₂; exact wellFormed_iff_of_sameUpToOrder (sameUpToOrder_params p₁ hperm)

theorem wellFormed_perm_results (p₁ p₂ : Prog) (rs : List Ty) (hperm : p₁.results.Perm rs)
    (h₂ : p₂ = { p₁ with results := rs }) : WellFormed p₁ ↔ WellFormed p₂ := by
  subst h₂; exact wellFormed_iff_of_sameUpToOrder (sameUpToOrder_results p₁ hperm)

/-- `SmallTypes` and `DistinctIds` do not depend on the task order. -/
theorem smallTypes_perm (p₁ p₂ : Prog) (ts : List Task) (hperm : p₁.tasks.Perm ts)
    (h₂ : p₂ = { p₁ with tasks := ts }) : SmallTypes p₁ ↔ SmallTypes p₂ := by
  subst h₂; exact smallTypes_iff_of_sameUpToOrder (sameUpToOrder_tasks p₁ hperm)

theorem distinctIds_perm (p₁ p₂ : Prog) (ts : List Task) (hperm : p₁.tasks.Perm ts)
    (h₂ : p₂ = { p₁ with tasks := ts }) : DistinctIds p₁ ↔ DistinctIds p₂ := by
  subst h₂; exact distinctIds_iff_of_sameUpToOrder (sameUpToOrder_tasks p₁ hperm)

/-- **C14_order.**  Acceptance by the flow validator does not depend on the order in which the
    tasks are listed.  (The side conditions are only needed for one of the two programs: they are
    themselves order-invariant, `smallTypes_perm`, `distinctIds_perm`.) -/
theorem C14_order (p₁ p₂ : Prog) (ts : List Task) (hperm : p₁.tasks.Perm ts)
    (h₂ : p₂ = { p₁ with tasks := ts }) (hs : SmallTypes p₁) (hd : DistinctIds p₁) :
    validateFlow p₁ = [] ↔ validateFlow p₂ = [] := by
  subst h₂; exact C14_order_general (sameUpToOrder_tasks p₁ hperm) hs hd

/-- **C14_order_params.**  Nor on the order of the Params types. -/
theorem C14_order_params (p₁ p₂ : Prog) (ps : List Ty) (hperm : p₁.params.Perm ps)
    (h₂ : p₂ = { p₁ with params := ps }) (hs : SmallTypes p₁) (hd : DistinctIds p₁) :
    validateFlow p₁ = [] ↔ validateFlow p₂ = [] := by
  subst h₂; exact C14_order_general (sameUpToOrder_params p₁ hperm) hs hd

/-- **C14_order_results.**  Nor on the order of the Results types. -/
theorem C14_order_results (p₁ p₂ : Prog) (rs : List Ty) (hperm : p₁.results.Perm rs)
    (h₂ : p₂ = { p₁ with results := rs }) (hs : SmallTypes p₁) (hd : DistinctIds p₁) :
    validateFlow p₁ = [] ↔ validateFlow p₂ = [] := by
  subst h₂; exact C14_order_general (sameUpToOrder_results p₁ hperm) hs hd

/-- The full validator (`validate` = unsupported-signature diagnostics + `validateFlow`) on flows:
    acceptance is independent of the task order as well (`sigDiags` reads only `quirk`). -/
theorem C14_order_validate (p₁ p₂ : Prog) (ts : List Task) (hperm : p₁.tasks.Perm ts)
    (h₂ : p₂ = { p₁ with tasks := ts }) (hk : p₁.kind = .flow) (hs : SmallTypes p₁) (hd : DistinctIds p₁) :
    validate p₁ = [] ↔ validate p₂ = [] := by
  have h := C14_order p₁ p₂ ts hperm h₂ hs hd
  subst h₂
  have e : ∀ l : List String, l.eraseDups = [] ↔ l = [] := fun l => eraseDups_eq_nil_iff
  simp only [validate, hk, e, List.append_eq_nil_iff, h]
  exact Iff.rfl

/-! ### 4. non-vacuity -/

/-- The 4-task diamond with a predicate (end of `Properties.lean`) in two listing orders: both meet
    the side conditions, the task lists are permutations of each other, and both are accepted. -/
example :
    let t0 : Task := { k := 0, ins := [1], outs := [2] }
    let t1 : Task := { k := 1, ins := [1], outs := [3], pred := true, pins := [2] }
    let t2 : Task := { k := 2, ins := [2, 3], outs := [4] }
    let t3 : Task := { k := 3, ins := [4], outs := [], invoke := true }
    let a : Prog := { params := [1], results := [4], tasks := [t2, t0, t3, t1] }
    let b : Prog := { a with tasks := [t0, t1, t2, t3] }
    SmallTypes a ∧ DistinctIds a ∧ SmallTypes b ∧ DistinctIds b ∧ a.tasks.isPerm b.tasks = true ∧
    validateFlow a = [] ∧ validateFlow b = [] ∧ validate a = [] ∧ validate b = [] := by
  decide

/-- The internals really are order-sensitive on this pair: the function lists, the registered
    providers and the enqueue orders differ. -/
example :
    let t0 : Task := { k := 0, ins := [1], outs := [2] }
    let t1 : Task := { k := 1, ins := [1], outs := [3], pred := true, pins := [2] }
    let t2 : Task := { k := 2, ins := [2, 3], outs := [4] }
    let t3 : Task := { k := 3, ins := [4], outs := [], invoke := true }
    let a : Prog := { params := [1], results := [4], tasks := [t2, t0, t3, t1] }
    let b : Prog := { a with tasks := [t0, t1, t2, t3] }
    funcs a ≠ funcs b ∧ providerOf (funcs a) 2 ≠ providerOf (funcs b) 2 ∧
    toposort (funcs a) ≠ toposort (funcs b) := by
  decide

/-- The theorem applied: acceptance of the second order is *derived* from acceptance of the first
    (only the first program's verdict and side conditions are computed). -/
example :
    let t0 : Task := { k := 0, ins := [1], outs := [2] }
    let t1 : Task := { k := 1, ins := [1], outs := [3], pred := true, pins := [2] }
    let t2 : Task := { k := 2, ins := [2, 3], outs := [4] }
    let t3 : Task := { k := 3, ins := [4], outs := [], invoke := true }
    let a : Prog := { params := [1], results := [4], tasks := [t2, t0, t3, t1] }
    validateFlow { a with tasks := [t0, t1, t2, t3] } = [] := by
  intro t0 t1 t2 t3 a
  exact (C14_order a _ [t0, t1, t2, t3] (List.isPerm_iff.mp (by decide)) rfl (by decide) (by decide)).mp
    (by decide)

/-- The cyclic variant (task 0 made to depend on type 3, which task 1 provides under a predicate
    that needs task 0's output) is rejected in both listing orders, with the same class. -/
example :
    let t0 : Task := { k := 0, ins := [3], outs := [2] }
    let t1 : Task := { k := 1, ins := [1], outs := [3], pred := true, pins := [2] }
    let t2 : Task := { k := 2, ins := [2, 3], outs := [4] }
    let t3 : Task := { k := 3, ins := [4], outs := [], invoke := true }
    let a : Prog := { params := [1], results := [4], tasks := [t2, t3, t1, t0] }
    let b : Prog := { a with tasks := [t0, t1, t2, t3] }
    SmallTypes a ∧ DistinctIds a ∧ a.tasks.isPerm b.tasks = true ∧
    validateFlow a = ["cycle"] ∧ validateFlow b = ["cycle"] ∧ validateFlow a ≠ [] ∧ validateFlow b ≠ [] := by
  decide

/-- ... and, by the theorems, neither is `WellFormed` nor type-level acyclic. -/
example :
    let t0 : Task := { k := 0, ins := [3], outs := [2] }
    let t1 : Task := { k := 1, ins := [1], outs := [3], pred := true, pins := [2] }
    let t2 : Task := { k := 2, ins := [2, 3], outs := [4] }
    let t3 : Task := { k := 3, ins := [4], outs := [], invoke := true }
    let a : Prog := { params := [1], results := [4], tasks := [t2, t3, t1, t0] }
    ¬ WellFormed { a with tasks := [t0, t1, t2, t3] } ∧ ¬ AcyclicT a := by
  intro t0 t1 t2 t3 a
  have hperm : a.tasks.Perm [t0, t1, t2, t3] := List.isPerm_iff.mp (by decide)
  have hw : ¬ WellFormed a := fun h => absurd (wellFormed_accepted a (by decide) (by decide) h) (by decide)
  refine ⟨fun h => hw ((wellFormed_perm a _ _ hperm rfl).mpr h), ?_⟩
  intro hT
  have hu : crossUnique (funcs a) = true := by decide
  have := hasCycle_false_of_acyclic a (acyclic_of_acyclicT a hu hT)
  exact absurd this (by decide)

/-- Params and Results order: a two-Param, two-Result flow accepted in all four listings. -/
example :
    let t0 : Task := { k := 0, ins := [1, 2], outs := [3] }
    let t1 : Task := { k := 1, ins := [2, 3], outs := [4] }
    let a : Prog := { params := [1, 2], results := [3, 4], tasks := [t0, t1] }
    SmallTypes a ∧ DistinctIds a ∧ validateFlow a = [] ∧
    validateFlow { a with params := [2, 1] } = [] ∧
    validateFlow { a with results := [4, 3] } = [] ∧
    validateFlow { a with params := [2, 1], results := [4, 3], tasks := [t1, t0] } = [] := by
  decide

/-- Why uniqueness is assumed in `acyclic_iff_acyclicT`: with two providers of one type the
    index-based `Acyclic` only sees the LAST provider and is itself order-dependent.  Task 0
    consumes and provides type 2, task 1 also provides type 2.  Listed `[0, 1]` the registered
    provider of 2 is task 1 and the index graph is acyclic; listed `[1, 0]` task 0 depends on
    itself.  `AcyclicT` fails for both (and both are rejected anyway: "dup-provider"). -/
example :
    let u0 : Task := { k := 0, ins := [2], outs := [2] }
    let u1 : Task := { k := 1, ins := [], outs := [2] }
    let a : Prog := { results := [2], tasks := [u0, u1] }
    let b : Prog := { a with tasks := [u1, u0] }
    Acyclic a ∧ ¬ Acyclic b ∧ ¬ AcyclicT a ∧ ¬ AcyclicT b ∧
    validateFlow a ≠ [] ∧ validateFlow b ≠ [] := by
  intro u0 u1 a b
  refine ⟨⟨fun i => if i = 0 then 1 else 0, ?_, ?_⟩, ?_, ?_, ?_, by decide, by decide⟩
  · intro i
    match i with
    | 0 => decide
    | 1 => decide
    | n + 2 =>
      intro d hd
      have : dependsOn (funcs a) (n + 2) = [] := by
        have hf : funcs a = [u0.fn, u1.fn] := by decide
        simp [dependsOn, hf, show (default : Fn).deps = [] from rfl]
      rw [this] at hd; simp at hd
  · intro i
    have : (funcs a).length = 2 := by decide
    rw [this]
    show (if i = 0 then 1 else 0) < 2 + 1
    split <;> omega
  · intro h; exact absurd (hasCycle_false_of_acyclic b h) (by decide)
  · intro ⟨r, hr⟩
    have := hr u0.fn (by decide) 2 (by decide) 2 (by decide) ⟨u0.fn, by decide, by decide⟩
    omega
  · intro ⟨r, hr⟩
    have := hr u0.fn (by decide) 2 (by decide) 2 (by decide) ⟨u0.fn, by decide, by decide⟩
    omega

end Gen
