/-
  The variable discipline of accepted flows (item 2): in the code generated for a flow that
  `validateFlow` accepts,
    * distinct jobs have disjoint write sets,
    * no job writes a Params variable,
    * a job that reads a variable some job writes lists that job among its `Dependencies`
      (so the scheduler makes it wait for the writer).
-/
import CffVerif.Gen.Footprint
import CffVerif.Gen.Complete3

namespace Gen

/-! ### tasks and their ids -/

theorem find_k_eq {ts : List Task} {t : Task} (ht : t ∈ ts) (hd : (ts.map (·.k)).Nodup) :
    ts.find? (·.k == t.k) = some t := by
  induction ts with
  | nil => simp at ht
  | cons a as ih =>
    simp only [List.map_cons, List.nodup_cons] at hd
    rcases List.mem_cons.mp ht with rfl | hm
    · simp
    · have hne : a.k ≠ t.k := by
        intro e
        exact hd.1 (e ▸ List.mem_map.mpr ⟨t, hm, rfl⟩)
      rw [List.find?_cons_of_neg (by simpa using hne)]
      exact ih hm hd.2

theorem taskOf_eq {p : Prog} (hd : DistinctIds p) {t : Task} (ht : t ∈ p.tasks) : taskOf p t.k = t := by
  unfold taskOf
  rw [find_k_eq ht hd]; rfl

theorem task_eq_of_k {p : Prog} (hd : DistinctIds p) {t t' : Task} (ht : t ∈ p.tasks) (ht' : t' ∈ p.tasks)
    (hk : t.k = t'.k) : t = t' := by
  rw [← taskOf_eq hd ht, ← taskOf_eq hd ht', hk]

/-! ### footprints per function -/

/-- The footprints depend on the job's function only. -/
def Fn.writes (p : Prog) (f : Fn) : List Var :=
  if f.isPred then predWrites (taskOf p f.k) else taskWrites (taskOf p f.k)
def Fn.reads (p : Prog) (f : Fn) : List Var :=
  if f.isPred then predReads (taskOf p f.k) else taskReads (taskOf p f.k)

theorem Job.writes_eq (p : Prog) (j : Job) : j.writes p = j.fn.writes p := rfl
theorem Job.reads_eq (p : Prog) (j : Job) : j.reads p = j.fn.reads p := rfl

theorem fn_writes_task {p : Prog} (hd : DistinctIds p) {t : Task} (ht : t ∈ p.tasks) :
    t.fn.writes p = taskWrites t ∧ t.fn.reads p = taskReads t := by
  simp only [Fn.writes, Fn.reads, Task.fn, taskOf_eq hd ht]
  exact ⟨rfl, rfl⟩

theorem fn_writes_pred {p : Prog} (hd : DistinctIds p) {t : Task} (ht : t ∈ p.tasks) :
    t.predFn.writes p = predWrites t ∧ t.predFn.reads p = predReads t := by
  simp only [Fn.writes, Fn.reads, Task.predFn, taskOf_eq hd ht]
  exact ⟨rfl, rfl⟩

/-- Every function of an accepted flow provides at least one type. -/
theorem provides_nonempty {p : Prog} (hf : AcceptFacts p) {f : Fn} (h : f ∈ funcs p) : ∃ τ, τ ∈ f.provides := by
  obtain ⟨t, ht, rfl | ⟨_, rfl⟩⟩ := mem_funcs.mp h
  · cases ho : t.outs with
    | nil =>
      have hi : t.invoke = true := (hf.invokeIff t ht).mp (by simp [ho])
      exact ⟨invTy t.k, by simp [Fn.provides, Task.fn, hi]⟩
    | cons o os => exact ⟨o, by simp [Fn.provides, Task.fn, ho]⟩
  · exact ⟨prdTy t.k, by simp [Fn.provides, Task.predFn]⟩

/-- The functions of an accepted flow are pairwise different. -/
theorem funcs_index_unique {p : Prog} (hf : AcceptFacts p) {a b : Nat} (ha : a < (funcs p).length)
    (hb : b < (funcs p).length) (h : (funcs p).getD a default = (funcs p).getD b default) : a = b := by
  obtain ⟨τ, hτ⟩ := provides_nonempty hf (getD_mem ha)
  exact crossUnique_spec hf.oneProvider.1 ha hb hτ (h ▸ hτ)

/-- What a variable in the write set of a function says about the function. -/
theorem mem_fn_writes {p : Prog} (hd : DistinctIds p) {f : Fn} (h : f ∈ funcs p) {x : Var}
    (hx : x ∈ f.writes p) :
    ∃ t ∈ p.tasks,
      (f = t.fn ∧ ((∃ τ, x = Var.val τ ∧ τ ∈ t.outs) ∨ x = Var.ran t.k)) ∨
      (t.pred = true ∧ f = t.predFn ∧ (x = Var.p t.k ∨ x = Var.pPanic t.k)) := by
  obtain ⟨t, ht, rfl | ⟨hp, rfl⟩⟩ := mem_funcs.mp h
  · refine ⟨t, ht, Or.inl ⟨rfl, ?_⟩⟩
    rw [(fn_writes_task hd ht).1] at hx
    simp only [taskWrites, List.mem_append, List.mem_map, List.mem_singleton] at hx
    rcases hx with ⟨τ, hτ, rfl⟩ | rfl
    · exact Or.inl ⟨τ, rfl, hτ⟩
    · exact Or.inr rfl
  · refine ⟨t, ht, Or.inr ⟨hp, rfl, ?_⟩⟩
    rw [(fn_writes_pred hd ht).1] at hx
    simpa [predWrites] using hx

/-- Two functions of an accepted flow that write a common variable are the same function. -/
theorem fn_writes_disjoint {p : Prog} (hf : AcceptFacts p) (hd : DistinctIds p) {a b : Nat}
    (ha : a < (funcs p).length) (hb : b < (funcs p).length) {x : Var}
    (hxa : x ∈ ((funcs p).getD a default).writes p) (hxb : x ∈ ((funcs p).getD b default).writes p) :
    a = b := by
  have hu := hf.oneProvider.1
  obtain ⟨ta, hta, ca⟩ := mem_fn_writes hd (getD_mem ha) hxa
  obtain ⟨tb, htb, cb⟩ := mem_fn_writes hd (getD_mem hb) hxb
  rcases ca with ⟨ea, ca⟩ | ⟨_, ea, ca⟩ <;> rcases cb with ⟨eb, cb⟩ | ⟨_, eb, cb⟩
  · rcases ca with ⟨τ, rfl, hτa⟩ | rfl
    · rcases cb with ⟨τ', e, hτb⟩ | e
      · cases e
        apply crossUnique_spec hu ha hb (t := τ)
        · rw [ea]; simp [Fn.provides, Task.fn, hτa]
        · rw [eb]; simp [Fn.provides, Task.fn, hτb]
      · cases e
    · rcases cb with ⟨τ', e, _⟩ | e
      · cases e
      · have hk : ta.k = tb.k := Var.ran.inj e
        have : ta = tb := task_eq_of_k hd hta htb hk
        subst this
        exact funcs_index_unique hf ha hb (ea.trans eb.symm)
  · rcases ca with ⟨τ, rfl, _⟩ | rfl <;> rcases cb with e | e <;> cases e
  · rcases cb with ⟨τ, rfl, _⟩ | rfl <;> rcases ca with e | e <;> cases e
  · have hk : ta.k = tb.k := by
      rcases ca with rfl | rfl <;> rcases cb with e | e <;>
        first | exact Var.p.inj e | exact Var.pPanic.inj e | exact absurd e (by simp)
    apply crossUnique_spec hu ha hb (t := prdTy ta.k)
    · rw [ea]; simp [Fn.provides, Task.predFn]
    · rw [eb, hk]; simp [Fn.provides, Task.predFn]

/-- A variable that one function reads and another writes is carried by a type the reader
    depends on and the writer provides. -/
theorem read_write_type {p : Prog} (hd : DistinctIds p) {f g : Fn} (hf : f ∈ funcs p) (hg : g ∈ funcs p)
    {x : Var} (hr : x ∈ f.reads p) (hw : x ∈ g.writes p) : ∃ τ, τ ∈ f.deps ∧ τ ∈ g.provides := by
  obtain ⟨tg, htg, cg⟩ := mem_fn_writes hd hg hw
  obtain ⟨tf, htf, rfl | ⟨hpf, rfl⟩⟩ := mem_funcs.mp hf
  · rw [(fn_writes_task hd htf).2] at hr
    simp only [taskReads, List.mem_append, List.mem_map] at hr
    rcases hr with ⟨τ, hτ, rfl⟩ | hr
    · -- an input value
      rcases cg with ⟨eg, cg⟩ | ⟨_, eg, cg⟩
      · rcases cg with ⟨τ', e, hτ'⟩ | e
        · cases e
          exact ⟨τ, by simp [Task.fn, hτ], by rw [eg]; simp [Fn.provides, Task.fn, hτ']⟩
        · cases e
      · rcases cg with e | e <;> cases e
    · -- the gate variables
      cases hp : tf.pred with
      | false => simp [hp] at hr
      | true =>
        simp only [hp, if_true, List.mem_cons, List.not_mem_nil, or_false] at hr
        have hk : ∃ k, (x = Var.p k ∨ x = Var.pPanic k) ∧ k = tf.k := by
          rcases hr with rfl | rfl
          · exact ⟨_, Or.inl rfl, rfl⟩
          · exact ⟨_, Or.inr rfl, rfl⟩
        rcases cg with ⟨eg, cg⟩ | ⟨_, eg, cg⟩
        · rcases cg with ⟨τ', e, _⟩ | e <;> rcases hr with rfl | rfl <;> cases e
        · have hkk : tg.k = tf.k := by
            rcases hr with rfl | rfl <;> rcases cg with e | e <;>
              first | exact (Var.p.inj e).symm | exact (Var.pPanic.inj e).symm | exact absurd e (by simp)
          refine ⟨prdTy tf.k, by simp [Task.fn, hp], ?_⟩
          rw [eg, ← hkk]; simp [Fn.provides, Task.predFn]
  · rw [(fn_writes_pred hd htf).2] at hr
    simp only [predReads, List.mem_map] at hr
    obtain ⟨τ, hτ, rfl⟩ := hr
    rcases cg with ⟨eg, cg⟩ | ⟨_, eg, cg⟩
    · rcases cg with ⟨τ', e, hτ'⟩ | e
      · cases e
        exact ⟨τ, by simp [Task.predFn, hτ], by rw [eg]; simp [Fn.provides, Task.fn, hτ']⟩
      · cases e
    · rcases cg with e | e <;> cases e

/-! ### the job list -/

/-- `toposort` of an acyclic flow is a duplicate-free enumeration of the function indices. -/
theorem toposort_facts (p : Prog) (hac : Acyclic p) :
    (toposort (funcs p)).Nodup ∧ (toposort (funcs p)).length = (funcs p).length ∧
    ∀ x ∈ toposort (funcs p), x < (funcs p).length := by
  have hlen : (toposort (funcs p)).length = (funcs p).length := by
    have := (genJobs_deps_before p hac).2
    simpa [genJobs] using this
  obtain ⟨rank, hrank, hbound⟩ := hac
  obtain ⟨_, hnd, hall⟩ := toposort_sound (funcs p) rank hrank hbound
  refine ⟨hnd, hlen, ?_⟩
  -- the members below `length` already exhaust the length
  have hperm : ((toposort (funcs p)).filter (fun x => decide (x < (funcs p).length))).Perm
      (List.range (funcs p).length) := by
    apply (List.perm_ext_iff_of_nodup (hnd.sublist List.filter_sublist) List.nodup_range).mpr
    intro a
    simp only [List.mem_filter, decide_eq_true_eq, List.mem_range]
    exact ⟨fun h => h.2, fun h => ⟨hall a h, h⟩⟩
  have hl := hperm.length_eq
  rw [List.length_range] at hl
  have := List.length_filter_eq_length_iff.mp (hl.trans hlen.symm)
  intro x hx
  simpa using this x hx

/-- The job at a position of `genJobs`. -/
def jobAt (p : Prog) (j : Nat) : Job := (genJobs p).getD j default

theorem jobAt_eq {p : Prog} {j : Nat} (hj : j < (genJobs p).length) : (genJobs p)[j]? = some (jobAt p j) := by
  simp [jobAt, List.getD_eq_getElem?_getD, List.getElem?_eq_getElem hj]

theorem jobAt_of_get {p : Prog} {j : Nat} {job : Job} (h : (genJobs p)[j]? = some job) : jobAt p j = job := by
  simp [jobAt, List.getD_eq_getElem?_getD, h]

/-- Position `j` of the job list holds function `topo[j]`. -/
theorem jobAt_spec {p : Prog} {j : Nat} (hj : j < (genJobs p).length) :
    ∃ i, (toposort (funcs p))[j]? = some i ∧ (jobAt p j).fn = (funcs p).getD i default ∧
      (jobAt p j).deps = (dependsOn (funcs p) i).map fun d => (toposort (funcs p)).idxOf d := by
  have h := jobAt_eq hj
  simp only [genJobs, List.getElem?_map] at h
  cases ht : (toposort (funcs p))[j]? with
  | none => simp [ht] at h
  | some i =>
    simp only [ht, Option.map_some, Option.some.injEq] at h
    exact ⟨i, rfl, by rw [← h], by rw [← h]⟩

/-- If the function at position `j` depends on a type that the function at position `i` provides,
    job `j` lists job `i` as a dependency. -/
theorem dep_of_type {p : Prog} (hf : AcceptFacts p) (hac : Acyclic p) {i j a b : Nat}
    (_ha : (toposort (funcs p))[j]? = some a) (hb : (toposort (funcs p))[i]? = some b) {τ : Ty}
    (hdep : τ ∈ ((funcs p).getD a default).deps) (hprov : τ ∈ ((funcs p).getD b default).provides) :
    i ∈ (dependsOn (funcs p) a).map fun d => (toposort (funcs p)).idxOf d := by
  obtain ⟨hnd, _, hlt⟩ := toposort_facts p hac
  have hbl : b < (funcs p).length := hlt b (List.mem_of_getElem? hb)
  have hpo : providerOf (funcs p) τ = some b := providerOf_of_mem hf.oneProvider.1 hbl hprov
  apply List.mem_map.mpr
  refine ⟨b, ?_, ?_⟩
  · simp only [dependsOn, List.mem_filterMap]
    exact ⟨τ, hdep, hpo⟩
  · obtain ⟨hil, hie⟩ := List.getElem?_eq_some_iff.mp hb
    have := hnd.idxOf_getElem i hil
    rw [hie] at this
    exact this

/-! ### the discipline (item 2) -/

/-- Variables written / read by the job at a position. -/
def writesAt (p : Prog) (j : Nat) : List Var := (jobAt p j).writes p
def readsAt (p : Prog) (j : Nat) : List Var := (jobAt p j).reads p

/-- Everything the later developments need to know about an accepted flow. -/
structure Disc (p : Prog) : Prop where
  /-- every job's dependencies are earlier positions -/
  depsBefore : ∀ j, j < (genJobs p).length → ∀ d ∈ (jobAt p j).deps, d < j
  /-- distinct jobs have disjoint write sets -/
  writesDisjoint : ∀ i j x, i < (genJobs p).length → j < (genJobs p).length →
      x ∈ writesAt p i → x ∈ writesAt p j → i = j
  /-- no job writes a Params variable -/
  paramsNotWritten : ∀ j τ, j < (genJobs p).length → τ ∈ p.params → Var.val τ ∉ writesAt p j
  /-- a variable that job `j` reads and job `i` writes makes `i` a dependency of `j` -/
  readDep : ∀ i j x, i < (genJobs p).length → j < (genJobs p).length →
      x ∈ readsAt p j → x ∈ writesAt p i → i ∈ (jobAt p j).deps

theorem disc_of_accepted (p : Prog) (hacc : validateFlow p = []) (hs : SmallTypes p) (hd : DistinctIds p) :
    Disc p := by
  have hf := accept_facts p hacc
  have hac := accept_acyclic p hacc
  have hwf := accepted_wellFormed p hs hd hacc
  obtain ⟨hnd, hlen, hlt⟩ := toposort_facts p hac
  have hjl : (genJobs p).length = (funcs p).length := (genJobs_deps_before p hac).2
  refine ⟨?_, ?_, ?_, ?_⟩
  · intro j hj d hdm
    exact (genJobs_deps_before p hac).1 j _ (jobAt_eq hj) d hdm
  · intro i j x hi hj hxi hxj
    obtain ⟨a, hta, hfa, _⟩ := jobAt_spec hi
    obtain ⟨b, htb, hfb, _⟩ := jobAt_spec hj
    have hal : a < (funcs p).length := hlt a (List.mem_of_getElem? hta)
    have hbl : b < (funcs p).length := hlt b (List.mem_of_getElem? htb)
    simp only [writesAt, Job.writes_eq, hfa, hfb] at hxi hxj
    have hab : a = b := fn_writes_disjoint hf hd hal hbl hxi hxj
    subst hab
    obtain ⟨hil, _⟩ := List.getElem?_eq_some_iff.mp hta
    exact (List.getElem?_inj hil hnd).mp (hta.trans htb.symm)
  · intro j τ hj hτ hx
    obtain ⟨a, hta, hfa, _⟩ := jobAt_spec hj
    have hal : a < (funcs p).length := hlt a (List.mem_of_getElem? hta)
    simp only [writesAt, Job.writes_eq, hfa] at hx
    obtain ⟨t, ht, c⟩ := mem_fn_writes hd (getD_mem hal) hx
    have hnone := countProviders_eq_zero_iff.mp (hwf.paramNotProvided τ hτ)
    have hno := providerOf_eq_none_iff.mp hnone _ (getD_mem hal)
    rcases c with ⟨e, c⟩ | ⟨_, e, c⟩
    · rcases c with ⟨τ', e', hτ'⟩ | e'
      · cases e'
        apply hno
        rw [e]; simp [Fn.provides, Task.fn, hτ']
      · cases e'
    · rcases c with e' | e' <;> cases e'
  · intro i j x hi hj hr hw
    obtain ⟨b, htb, hfb, _⟩ := jobAt_spec hi
    obtain ⟨a, hta, hfa, hda⟩ := jobAt_spec hj
    have hal : a < (funcs p).length := hlt a (List.mem_of_getElem? hta)
    have hbl : b < (funcs p).length := hlt b (List.mem_of_getElem? htb)
    simp only [readsAt, Job.reads_eq, hfa] at hr
    simp only [writesAt, Job.writes_eq, hfb] at hw
    obtain ⟨τ, h1, h2⟩ := read_write_type hd (getD_mem hal) (getD_mem hbl) hr hw
    rw [hda]
    exact dep_of_type hf hac hta htb h1 h2

/-- **Item 2, as stated.** -/
theorem discipline (p : Prog) (hacc : validateFlow p = []) (hs : SmallTypes p) (hd : DistinctIds p) :
    (∀ i j, i < (genJobs p).length → j < (genJobs p).length → i ≠ j →
        ∀ x, x ∈ writesAt p i → x ∉ writesAt p j) ∧
    (∀ j, j < (genJobs p).length → ∀ τ ∈ p.params, Var.val τ ∉ writesAt p j) ∧
    (∀ i j, i < (genJobs p).length → j < (genJobs p).length →
        ∀ x, x ∈ readsAt p j → x ∈ writesAt p i → i ∈ (jobAt p j).deps) := by
  have D := disc_of_accepted p hacc hs hd
  exact ⟨fun i j hi hj hne x hxi hxj => hne (D.writesDisjoint i j x hi hj hxi hxj),
    fun j hj τ hτ => D.paramsNotWritten j τ hj hτ,
    fun i j hi hj x hr hw => D.readDep i j x hi hj hr hw⟩

end Gen
