/-
  G — behaviour of the code generated for cff.Flow (internal/templates/flow/*.tmpl), as
  executable semantics of the job bodies over a store, and the reference ("ideal") execution
  in enqueue order.
-/
import CffVerif.Gen.Compile

namespace Gen

/-- The closure variables of one execution of a generated flow. -/
structure Store where
  val : Ty → Nat := fun _ => 0          -- `var v<τ> T`, zero-initialised
  p : Nat → Bool := fun _ => false      -- `var p<k> bool`
  pPanic : Nat → Bool := fun _ => false -- `p<k>PanicRecover != nil`
  ran : Nat → Bool := fun _ => false    -- `task<k>.ran`

def Store.setVal (s : Store) (t : Ty) (v : Nat) : Store := { s with val := fun x => if x == t then v else s.val x }
def Store.setVals (s : Store) (ts : List Ty) (vs : List Nat) : Store :=
  (ts.zip vs).foldl (fun s tv => s.setVal tv.1 tv.2) s

/-- What one job body did. -/
structure BodyRes where
  store : Store
  ret : Option String := none            -- the error the job returns (`ret`-style entry), none = nil
  invoked : Bool := false                -- the user function was called
  args : List Nat := []
  events : List (String × String) := []  -- (kind, class) sent to the task emitter, in order
  crashed : Bool := false                -- a panic escaped the body (never with the templates' recover blocks)

/-- Mechanism flags of the task template (all true in the real templates). -/
structure BodyFlags where
  recoverBlock : Bool := true      -- `defer func() { recovered := recover() … }()`
  gateBeforeCall : Bool := true    -- `if !p<k> { return nil }` stands before the call
  fallbackOnErrorOnly : Bool := true

def BodyFlags.std : BodyFlags := {}

/-- Predicate job (`predicate.go.tmpl`): evaluates the predicate once; a panic is recorded. -/
def runPred (t : Task) (sc : Scenario) (s : Store) : BodyRes :=
  let args := t.pins.map s.val
  match sc.predOut t.k with
  | .t => { store := { s with p := fun x => if x == t.k then true else s.p x }, invoked := true, args }
  | .f => { store := { s with p := fun x => if x == t.k then false else s.p x }, invoked := true, args }
  | .panic => { store := { s with pPanic := fun x => if x == t.k then true else s.pPanic x }, invoked := true, args }

def fallbackVals (t : Task) : List Nat := (List.range t.outs.length).map (fallbackVal t.k)

/-- Task job (`task.go.tmpl`), with its defer order: `ran.Store(true)`, recover block, `TaskDone` if ran. -/
def runTask (fl : BodyFlags) (t : Task) (sc : Scenario) (s : Store) : BodyRes :=
  let ppanic := s!"ppanic:{t.k}:{sc.vclass 'p' t.k 0}"
  if t.pred && s.pPanic t.k then
    -- `p<k>` was never assigned: the gate returns early, the deferred block sees the predicate's panic
    if t.fb then { store := s.setVals t.outs (fallbackVals t), events := [("TaskPanicRecovered", ppanic)] }
    else { store := s, ret := some ppanic, events := [("TaskPanic", ppanic)] }
  else if t.pred && !s.p t.k && fl.gateBeforeCall then { store := s }
  else
    let args := t.ins.map s.val
    let s := { s with ran := fun x => if x == t.k then true else s.ran x }
    match sc.fnOut t.k with
    | .ok =>
      { store := s.setVals t.outs ((List.range t.outs.length).map fun o => taskOut t.k o args),
        invoked := true, args, events := [("TaskSuccess", "-"), ("TaskDone", "-")] }
    | .err =>
      let e := s!"err:{t.k}"
      if t.fb then { store := s.setVals t.outs (fallbackVals t), invoked := true, args,
                     events := [("TaskErrorRecovered", e), ("TaskDone", "-")] }
      else { store := s, ret := some e, invoked := true, args, events := [("TaskError", e), ("TaskDone", "-")] }
    | .panic =>
      let e := s!"panic:{t.k}:{sc.vclass 't' t.k 0}"
      if !fl.recoverBlock then { store := s, invoked := true, args, crashed := true }
      else if t.fb then { store := s.setVals t.outs (fallbackVals t), invoked := true, args,
                          events := [("TaskPanicRecovered", e), ("TaskDone", "-")] }
      else { store := s, ret := some e, invoked := true, args, events := [("TaskPanic", e), ("TaskDone", "-")] }

def taskOf (p : Prog) (k : Nat) : Task := (p.tasks.find? (·.k == k)).getD { k := k }

def runJob (p : Prog) (sc : Scenario) (j : Job) (s : Store) : BodyRes :=
  let t := taskOf p j.fn.k
  if j.fn.isPred then runPred t sc s else runTask .std t sc s

/-- Per-function summary of the ideal execution. -/
structure FnInfo where
  predCalled : Bool := false
  predArgs : List Nat := []
  fnCalled : Bool := false
  fnArgs : List Nat := []
  jobRan : Bool := false
  fail : Option String := none
  failIsPred : Bool := false
  deriving Repr, Inhabited

structure Ideal where
  store : Store := {}
  succ : List Bool := []                 -- per job (enqueue order): ran and returned nil
  info : List (Nat × FnInfo) := []       -- per task k

def Ideal.get (i : Ideal) (k : Nat) : FnInfo := (i.info.lookup k).getD {}
def Ideal.upd (i : Ideal) (k : Nat) (f : FnInfo → FnInfo) : Ideal :=
  { i with info := (k, f (i.get k)) :: i.info.filter (·.1 != k) }

/-- The reference execution: jobs in enqueue order; a job runs iff all the jobs it depends on
    ran and returned nil (the scheduler's contract, C01/C07). -/
def ideal (p : Prog) (sc : Scenario) : Ideal :=
  let start : Store := { val := fun t => match p.params.idxOf? t with | some i => paramVal i | none => 0 }
  (genJobs p).foldl (fun (acc : Ideal) j =>
    let ready := j.deps.all fun d => acc.succ.getD d false
    if !ready then { acc with succ := acc.succ ++ [false] }
    else
      let r := runJob p sc j acc.store
      let acc := { acc with store := r.store, succ := acc.succ ++ [r.ret.isNone] }
      if j.fn.isPred then acc.upd j.fn.k fun f => { f with predCalled := true, predArgs := r.args }
      else acc.upd j.fn.k fun f => { f with jobRan := true, fnCalled := r.invoked, fnArgs := r.args, fail := r.ret,
                                            failIsPred := r.ret.isSome && !r.invoked })
    { store := start }

/-- Tasks that task `k` transitively depends on (through task inputs and predicate inputs). -/
def ancestors (p : Prog) (k : Nat) : List Nat :=
  let provTask := fun (t : Ty) => (p.tasks.find? (·.outs.contains t)).map (·.k)
  let direct := fun (k : Nat) => let t := taskOf p k; (t.ins ++ t.pins).filterMap provTask
  let rec go (fuel : Nat) (frontier acc : List Nat) : List Nat :=
    match fuel with
    | 0 => acc
    | fuel + 1 =>
      let next := (frontier.flatMap direct).filter (fun x => !acc.contains x)
      if next.isEmpty then acc else go fuel next.eraseDups (acc ++ next.eraseDups)
  go (p.tasks.length + 1) [k] []

end Gen
