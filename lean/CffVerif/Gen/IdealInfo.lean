/-
  The per-task summary `Ideal.info` of the reference execution records exactly what the traced
  reference execution (`idealRes`) says each job body did: this links the statements of
  Confluence/Compose ("same BodyRes as in `ideal`") to the fields of `Gen.ideal` that the
  differential-testing driver compares (`fnCalled`, `fnArgs`, `predCalled`, `predArgs`, `fail`).
-/
import CffVerif.Gen.Confluence

namespace Gen

/-! ### `Ideal.upd` / `Ideal.get` -/

theorem lookup_filter_ne (l : List (Nat × FnInfo)) (k k' : Nat) (h : k' ≠ k) :
    (l.filter (·.1 != k)).lookup k' = l.lookup k' := by
  induction l with
  | nil => rfl
  | cons a l ih =>
    obtain ⟨a1, a2⟩ := a
    by_cases ha : a1 = k
    · subst ha
      rw [List.filter_cons_of_neg (by simp), ih, List.lookup_cons]
      have : (k' == a1) = false := by simpa using h
      rw [this]
    · rw [List.filter_cons_of_pos (by simpa using ha), List.lookup_cons, List.lookup_cons, ih]

theorem Ideal.get_upd (i : Ideal) (k k' : Nat) (f : FnInfo → FnInfo) :
    (i.upd k f).get k' = if k' = k then f (i.get k) else i.get k' := by
  unfold Ideal.upd
  by_cases h : k' = k
  · subst h
    simp [Ideal.get]
  · simp only [h, if_false]
    unfold Ideal.get
    simp only []
    rw [List.lookup_cons]
    have : (k' == k) = false := by simpa using h
    rw [this]
    simp only []
    rw [lookup_filter_ne _ _ _ h]

/-! ### prefixes of `Gen.ideal` -/

def idealFnPre (p : Prog) (sc : Scenario) (m : Nat) : Ideal :=
  ((genJobs p).take m).foldl (idealFn p sc) { store := start p }

theorem idealFnPre_succ (p : Prog) (sc : Scenario) {m : Nat} (hm : m < (genJobs p).length) :
    idealFnPre p sc (m + 1) = idealFn p sc (idealFnPre p sc m) (jobAt p m) := by
  unfold idealFnPre
  rw [List.take_add_one, List.foldl_append, jobAt_eq hm]
  rfl

theorem idealFnPre_all (p : Prog) (sc : Scenario) : idealFnPre p sc (genJobs p).length = ideal p sc := by
  unfold idealFnPre
  rw [List.take_length, ideal_eq_foldl]

theorem idealFnPre_sim (p : Prog) (sc : Scenario) : ∀ m, m ≤ (genJobs p).length →
    (idealFnPre p sc m).store = (idealPre p sc m).1 ∧
    (idealFnPre p sc m).succ = (idealPre p sc m).2.map okOpt := by
  intro m
  induction m with
  | zero => intro _; simp [idealFnPre, idealPre_zero]
  | succ m ih =>
    intro hm
    obtain ⟨h1, h2⟩ := ih (by omega)
    rw [idealFnPre_succ p sc (by omega), idealPre_succ p sc (by omega)]
    exact idealFn_sim p sc _ _ _ h1 h2

/-! ### what `info` says about a job -/

/-- `info` records that job `j` ran and did `r`. -/
def InfoOK (I : Ideal) (j : Job) (r : BodyRes) : Prop :=
  if j.fn.isPred then (I.get j.fn.k).predCalled = true ∧ (I.get j.fn.k).predArgs = r.args
  else (I.get j.fn.k).jobRan = true ∧ (I.get j.fn.k).fnCalled = r.invoked ∧
       (I.get j.fn.k).fnArgs = r.args ∧ (I.get j.fn.k).fail = r.ret

/-- `info` records that job `j` did not run. -/
def InfoNone (I : Ideal) (j : Job) : Prop :=
  if j.fn.isPred then (I.get j.fn.k).predCalled = false else (I.get j.fn.k).jobRan = false

/-- Two different jobs differ in (`isPred`, `k`). -/
theorem job_key_unique {p : Prog} (D : Disc p) {i j : Nat} (hi : i < (genJobs p).length)
    (hj : j < (genJobs p).length) (h1 : (jobAt p i).fn.isPred = (jobAt p j).fn.isPred)
    (h2 : (jobAt p i).fn.k = (jobAt p j).fn.k) : i = j := by
  have hw : writesAt p i = writesAt p j := by
    simp only [writesAt, Job.writes, h1, h2]
  have hne : ∃ x, x ∈ writesAt p i := by
    simp only [writesAt, Job.writes]
    split
    · exact ⟨Var.p (taskOf p (jobAt p i).fn.k).k, by simp [predWrites]⟩
    · exact ⟨Var.ran (taskOf p (jobAt p i).fn.k).k, by simp [taskWrites]⟩
  obtain ⟨x, hx⟩ := hne
  exact D.writesDisjoint i j x hi hj hx (hw ▸ hx)

/-- A step of `ideal` leaves the predicate fields of `info k` alone unless it runs `k`'s predicate. -/
theorem idealFn_pred_fields (p : Prog) (sc : Scenario) (I : Ideal) (jm : Job) (k : Nat)
    (h : ¬ (jm.fn.isPred = true ∧ k = jm.fn.k)) :
    ((idealFn p sc I jm).get k).predCalled = (I.get k).predCalled ∧
    ((idealFn p sc I jm).get k).predArgs = (I.get k).predArgs := by
  unfold idealFn
  simp only []
  split
  · exact ⟨rfl, rfl⟩
  · cases hm : jm.fn.isPred with
    | false =>
      simp only [Bool.false_eq_true, if_false, Ideal.get_upd]
      split
      · next hk => subst hk; exact ⟨rfl, rfl⟩
      · exact ⟨rfl, rfl⟩
    | true =>
      have hk : k ≠ jm.fn.k := fun e => h ⟨hm, e⟩
      simp only [if_true, Ideal.get_upd, hk, if_false]
      exact ⟨rfl, rfl⟩

/-- A step of `ideal` leaves the task fields of `info k` alone unless it runs task `k`. -/
theorem idealFn_task_fields (p : Prog) (sc : Scenario) (I : Ideal) (jm : Job) (k : Nat)
    (h : ¬ (jm.fn.isPred = false ∧ k = jm.fn.k)) :
    ((idealFn p sc I jm).get k).jobRan = (I.get k).jobRan ∧
    ((idealFn p sc I jm).get k).fnCalled = (I.get k).fnCalled ∧
    ((idealFn p sc I jm).get k).fnArgs = (I.get k).fnArgs ∧
    ((idealFn p sc I jm).get k).fail = (I.get k).fail := by
  unfold idealFn
  simp only []
  split
  · exact ⟨rfl, rfl, rfl, rfl⟩
  · cases hm : jm.fn.isPred with
    | true =>
      simp only [if_true, Ideal.get_upd]
      split
      · next hk => subst hk; exact ⟨rfl, rfl, rfl, rfl⟩
      · exact ⟨rfl, rfl, rfl, rfl⟩
    | false =>
      have hk : k ≠ jm.fn.k := fun e => h ⟨hm, e⟩
      simp only [Bool.false_eq_true, if_false, Ideal.get_upd, hk]
      exact ⟨rfl, rfl, rfl, rfl⟩

/-- Running job `m` changes no other job's `info` fields. -/
theorem idealFn_info_other {p : Prog} (sc : Scenario) (I : Ideal) (jm ji : Job)
    (hkey : ¬ (ji.fn.isPred = jm.fn.isPred ∧ ji.fn.k = jm.fn.k)) :
    (∀ r, InfoOK I ji r → InfoOK (idealFn p sc I jm) ji r) ∧
    (InfoNone I ji → InfoNone (idealFn p sc I jm) ji) := by
  unfold InfoOK InfoNone
  cases hi : ji.fn.isPred with
  | true =>
    obtain ⟨e1, e2⟩ := idealFn_pred_fields p sc I jm ji.fn.k (fun h => hkey ⟨hi.trans h.1.symm, h.2⟩)
    simp only [if_true, e1, e2]
    exact ⟨fun r h => h, fun h => h⟩
  | false =>
    obtain ⟨e1, e2, e3, e4⟩ := idealFn_task_fields p sc I jm ji.fn.k (fun h => hkey ⟨hi.trans h.1.symm, h.2⟩)
    simp only [Bool.false_eq_true, if_false, e1, e2, e3, e4]
    exact ⟨fun r h => h, fun h => h⟩

/-- The loop invariant relating `info` to the trace. -/
theorem idealFnPre_info {p : Prog} (D : Disc p) (sc : Scenario) : ∀ m, m ≤ (genJobs p).length →
    ∀ i, i < (genJobs p).length →
      (∀ r, i < m → (idealPre p sc m).2.getD i none = some r → InfoOK (idealFnPre p sc m) (jobAt p i) r) ∧
      ((m ≤ i ∨ (idealPre p sc m).2.getD i none = none) → InfoNone (idealFnPre p sc m) (jobAt p i)) := by
  intro m
  induction m with
  | zero =>
    intro _ i _
    refine ⟨fun r h => by omega, fun _ => ?_⟩
    unfold InfoNone
    split <;> simp [idealFnPre, Ideal.get]
  | succ m ih =>
    intro hm i hi
    have hml : m < (genJobs p).length := by omega
    obtain ⟨hs1, hs2⟩ := idealFnPre_sim p sc m (by omega)
    have hlen := idealPre_length p sc m (by omega)
    by_cases him : i = m
    · -- the job executed at this step
      subst him
      have hgetD : ∀ e, ((idealPre p sc i).2 ++ [e]).getD i none = e := by
        intro e
        simp only [List.getD_eq_getElem?_getD]
        rw [List.getElem?_append_right (by omega)]
        simp [hlen]
      have hnone := (ih (by omega) i hi).2 (Or.inl (Nat.le_refl _))
      rw [idealFnPre_succ p sc hml, idealPre_succ p sc hml]
      have hready : ((jobAt p i).deps.all fun d => (idealFnPre p sc i).succ.getD d false)
          = (jobAt p i).deps.all (okAt (idealPre p sc i).2) := by
        congr 1; funext d; rw [hs2, getD_map_okOpt]
      unfold idealStep idealFn
      simp only [hready, hs1]
      cases hr : (jobAt p i).deps.all (okAt (idealPre p sc i).2) with
      | false =>
        simp only [Bool.not_false, if_true, Bool.false_eq_true, if_false, hgetD]
        refine ⟨fun r _ h => (by cases h), fun _ => ?_⟩
        unfold InfoNone at hnone ⊢
        exact hnone
      | true =>
        simp only [Bool.not_true, Bool.false_eq_true, if_false, if_true, hgetD]
        refine ⟨?_, ?_⟩
        · intro r _ h
          cases h
          unfold InfoOK
          cases hp : (jobAt p i).fn.isPred <;> simp [Ideal.get_upd]
        · intro h
          rcases h with h | h
          · omega
          · cases h
    · -- another job
      have hkey : ¬ ((jobAt p i).fn.isPred = (jobAt p m).fn.isPred ∧ (jobAt p i).fn.k = (jobAt p m).fn.k) :=
        fun h => him (job_key_unique D hi hml h.1 h.2)
      obtain ⟨o1, o2⟩ := idealFn_info_other (p := p) sc (idealFnPre p sc m) (jobAt p m) (jobAt p i) hkey
      obtain ⟨ih1, ih2⟩ := ih (by omega) i hi
      rw [idealFnPre_succ p sc hml]
      have hres : i < m → (idealPre p sc (m + 1)).2.getD i none = (idealPre p sc m).2.getD i none :=
        fun h => idealPre_stable p sc h (m + 1) (by omega) hm
      refine ⟨?_, ?_⟩
      · intro r hlt h
        have hlt' : i < m := by omega
        rw [hres hlt'] at h
        exact o1 r (ih1 r hlt' h)
      · intro h
        apply o2
        apply ih2
        rcases h with h | h
        · exact Or.inl (by omega)
        · by_cases hlt : i < m
          · rw [hres hlt] at h; exact Or.inr h
          · exact Or.inl (by omega)

/-- **`info` is the trace.**  For every job of an accepted flow, `ideal`'s per-task summary says
    the job ran, with the call/arguments/error of its recorded body result — or that it did not
    run, when the reference execution skipped it. -/
theorem ideal_info (p : Prog) (sc : Scenario) (hacc : validateFlow p = []) (hs : SmallTypes p)
    (hd : DistinctIds p) {j : Nat} (hj : j < (genJobs p).length) :
    (∀ r, idealRes p sc j = some r → InfoOK (ideal p sc) (jobAt p j) r) ∧
    (idealRes p sc j = none → InfoNone (ideal p sc) (jobAt p j)) := by
  have D := disc_of_accepted p hacc hs hd
  obtain ⟨h1, h2⟩ := idealFnPre_info D sc (genJobs p).length (Nat.le_refl _) j hj
  rw [idealFnPre_all, idealPre_all] at h1 h2
  exact ⟨fun r h => h1 r hj h, fun h => h2 (Or.inr h)⟩

end Gen
