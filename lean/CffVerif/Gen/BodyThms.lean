/-
  Lemmas about one job body of generated Flow code (`Gen.runTask`, `Gen.runPred`): panic
  containment, the predicate gate, FallbackWith, and the event protocol of one invocation.
  They hold for every task shape, scenario and store.
-/
import CffVerif.Gen.Flow

namespace Gen

theorem setVals_val_congr (ts : List Ty) (vs : List Nat) : ∀ (s s' : Store), s.val = s'.val →
    (s.setVals ts vs).val = (s'.setVals ts vs).val := by
  unfold Store.setVals
  generalize ts.zip vs = l
  induction l with
  | nil => intro s s' h; simpa using h
  | cons x xs ih =>
    intro s s' h
    simp only [List.foldl_cons]
    apply ih
    simp [Store.setVal, h]

/-- The gate of a task: its function is invoked iff it has no predicate, or the predicate
    returned true (and did not panic). -/
def gateOpen (t : Task) (s : Store) : Bool := !t.pred || (s.p t.k && !s.pPanic t.k)

theorem runTask_invoked_iff (t : Task) (sc : Scenario) (s : Store) :
    (runTask .std t sc s).invoked = gateOpen t s := by
  unfold runTask gateOpen BodyFlags.std
  cases hp : t.pred <;> cases hpp : s.pPanic t.k <;> cases hq : s.p t.k <;> cases hf : t.fb <;>
    cases ho : sc.fnOut t.k <;> simp [hp, hpp, hq, hf, ho]

/-- With the templates' recover blocks a panic never escapes a task body. -/
theorem runTask_no_crash (t : Task) (sc : Scenario) (s : Store) : (runTask .std t sc s).crashed = false := by
  unfold runTask BodyFlags.std
  cases hp : t.pred <;> cases hpp : s.pPanic t.k <;> cases hq : s.p t.k <;> cases hf : t.fb <;>
    cases ho : sc.fnOut t.k <;> simp [hp, hpp, hq, hf, ho]

/-- Without the recover block a panicking task function takes the process down (the flag matters). -/
theorem runTask_crash_without_recover (t : Task) (sc : Scenario) (s : Store) (hp : t.pred = false)
    (ho : sc.fnOut t.k = .panic) : (runTask { recoverBlock := false } t sc s).crashed = true := by
  unfold runTask; simp [hp, ho]

/-- A panicking function without FallbackWith becomes the job's error, carrying the task and the
    panic value's identity. -/
theorem runTask_panic_error (t : Task) (sc : Scenario) (s : Store) (hg : gateOpen t s = true)
    (ho : sc.fnOut t.k = .panic) (hf : t.fb = false) :
    (runTask .std t sc s).ret = some s!"panic:{t.k}:{sc.vclass 't' t.k 0}" := by
  unfold gateOpen at hg
  unfold runTask BodyFlags.std
  cases hp : t.pred <;> cases hpp : s.pPanic t.k <;> cases hq : s.p t.k <;> simp_all

/-- An error returned by the function without FallbackWith is returned by the job unchanged. -/
theorem runTask_error_passthrough (t : Task) (sc : Scenario) (s : Store) (hg : gateOpen t s = true)
    (ho : sc.fnOut t.k = .err) (hf : t.fb = false) :
    (runTask .std t sc s).ret = some s!"err:{t.k}" := by
  unfold gateOpen at hg
  unfold runTask BodyFlags.std
  cases hp : t.pred <;> cases hpp : s.pPanic t.k <;> cases hq : s.p t.k <;> simp_all

/-- Predicate false: the function is not called, nothing is emitted, outputs keep their zero
    values, and the job succeeds. -/
theorem runTask_pred_false (t : Task) (sc : Scenario) (s : Store) (hp : t.pred = true)
    (hpp : s.pPanic t.k = false) (hq : s.p t.k = false) :
    (runTask .std t sc s).invoked = false ∧ (runTask .std t sc s).ret = none ∧
    (runTask .std t sc s).events = [] ∧ (runTask .std t sc s).store.val = s.val := by
  unfold runTask BodyFlags.std; simp [hp, hpp, hq]

/-- FallbackWith: on an error, a panic, or a panicking predicate the job succeeds and the outputs
    are the fallback values. -/
theorem runTask_fallback (t : Task) (sc : Scenario) (s : Store) (hf : t.fb = true)
    (hbad : (t.pred = true ∧ s.pPanic t.k = true) ∨ (gateOpen t s = true ∧ sc.fnOut t.k ≠ .ok)) :
    (runTask .std t sc s).ret = none ∧
    (runTask .std t sc s).store.val = (s.setVals t.outs (fallbackVals t)).val := by
  unfold gateOpen at hbad
  unfold runTask BodyFlags.std
  cases hp : t.pred <;> cases hpp : s.pPanic t.k <;> cases hq : s.p t.k <;> cases ho : sc.fnOut t.k <;>
    simp_all <;> exact setVals_val_congr _ _ _ _ rfl

/-- On success the outputs are the function's results; the fallback values are not used. -/
theorem runTask_success (t : Task) (sc : Scenario) (s : Store) (hg : gateOpen t s = true)
    (ho : sc.fnOut t.k = .ok) :
    (runTask .std t sc s).ret = none ∧ (runTask .std t sc s).args = t.ins.map s.val ∧
    (runTask .std t sc s).store.val =
      (s.setVals t.outs ((List.range t.outs.length).map fun o => taskOut t.k o (t.ins.map s.val))).val := by
  unfold gateOpen at hg
  unfold runTask BodyFlags.std
  cases hp : t.pred <;> cases hpp : s.pPanic t.k <;> cases hq : s.p t.k <;>
    simp_all <;> exact setVals_val_congr _ _ _ _ rfl

def isOutcomeKind (k : String) : Bool :=
  k == "TaskSuccess" || k == "TaskError" || k == "TaskErrorRecovered" || k == "TaskPanic" || k == "TaskPanicRecovered"

/-- Event protocol of one invocation: exactly one outcome event, matching what happened, followed
    by exactly one TaskDone. -/
theorem runTask_events_invoked (t : Task) (sc : Scenario) (s : Store) (hg : gateOpen t s = true) :
    ∃ kind cls, (runTask .std t sc s).events = [(kind, cls), ("TaskDone", "-")] ∧ isOutcomeKind kind = true ∧
      (kind = "TaskSuccess" ↔ sc.fnOut t.k = .ok) ∧
      ((kind = "TaskError" ∨ kind = "TaskErrorRecovered") ↔ sc.fnOut t.k = .err) ∧
      ((kind = "TaskPanic" ∨ kind = "TaskPanicRecovered") ↔ sc.fnOut t.k = .panic) ∧
      ((kind = "TaskErrorRecovered" ∨ kind = "TaskPanicRecovered") → t.fb = true) := by
  unfold gateOpen at hg
  unfold runTask BodyFlags.std
  cases hp : t.pred <;> cases hpp : s.pPanic t.k <;> cases hq : s.p t.k <;> cases hf : t.fb <;>
    cases ho : sc.fnOut t.k <;> simp_all [isOutcomeKind]

/-- A task that is not invoked emits no TaskDone; it emits at most the report of its predicate's panic. -/
theorem runTask_events_not_invoked (t : Task) (sc : Scenario) (s : Store) (hg : gateOpen t s = false) :
    (runTask .std t sc s).events = [] ∨
    (∃ cls, (runTask .std t sc s).events = [("TaskPanic", cls)] ∧ t.fb = false ∧ s.pPanic t.k = true) ∨
    (∃ cls, (runTask .std t sc s).events = [("TaskPanicRecovered", cls)] ∧ t.fb = true ∧ s.pPanic t.k = true) := by
  unfold gateOpen at hg
  unfold runTask BodyFlags.std
  cases hp : t.pred <;> cases hpp : s.pPanic t.k <;> cases hq : s.p t.k <;> cases hf : t.fb <;> simp_all

/-- A predicate job never fails the flow by itself: a panic is recorded, not propagated. -/
theorem runPred_never_fails (t : Task) (sc : Scenario) (s : Store) :
    (runPred t sc s).ret = none ∧ (runPred t sc s).crashed = false ∧ (runPred t sc s).invoked = true ∧
    (runPred t sc s).args = t.pins.map s.val := by
  unfold runPred; cases sc.predOut t.k <;> simp

end Gen
