/-
  Flow-level, schedule-universal corollaries (part 1: infrastructure, C07).

  The per-body theorems (Gen/BodyThms.lean, Properties.lean C04/C07/C11/C18) hold for one body on
  one store; the scheduler theorems (Properties.lean C01/C07/C08) hold for every run of the
  scheduler; `schedule_independent` (Gen/Compose.lean) says that every body that ended in a run did
  what it does in the reference execution `ideal`.  Here the three are combined, so that the
  per-body facts are stated "for every run of the scheduler on the generated job list".

  `RunH p sc c acts s` bundles the common hypotheses: an accepted flow, a standard-wiring
  configuration built from its job list, any action list (= any interleaving, worker count ≥ 1,
  either error mode, any cancellation) leading to `s`, and a log whose outcomes are those of the
  generated bodies.
-/
import CffVerif.Properties2
import CffVerif.Gen.ComposeExample

namespace Gen

open Sched (Ev Outcome Res)

/-- The common hypotheses of the flow-level theorems: `s` is the state after an arbitrary run
    `acts` of the scheduler (standard wiring, at least one worker, either error mode) on the job
    list generated for the accepted flow `p`, and the outcomes logged in `s.log` are consistent
    with the generated bodies in scenario `sc` (`ok` exactly when the body returns nil, never
    Goexit). -/
structure RunH (p : Prog) (sc : Scenario) (c : Sched.Cfg) (acts : List Sched.Act) (s : Sched.State) : Prop where
  acc : validateFlow p = []
  small : SmallTypes p
  ids : DistinctIds p
  deps : c.deps = (genJobs p).map (·.deps)
  wiring : c.wiring = Sched.Wiring.std
  workers : 1 ≤ c.N
  run : Sched.run c (Sched.init c) acts = some s
  cons : (replay p sc s.log).2 = true

section infra
variable {p : Prog} {sc : Scenario} {c : Sched.Cfg} {acts : List Sched.Act} {s : Sched.State}

theorem RunH.wf (H : RunH p sc c acts s) : Sched.WfCfg c :=
  wf_cfgOf p (accept_acyclic p H.acc) c H.deps H.workers

theorem RunH.disc (H : RunH p sc c acts s) : Disc p := disc_of_accepted p H.acc H.small H.ids

theorem RunH.acyclic (H : RunH p sc c acts s) : Acyclic p := accept_acyclic p H.acc

/-! ### the reference execution, job by job -/

/-- A job that the reference execution ran: its recorded result is the body on the reference store
    at that moment, and all its dependencies ran and returned nil. -/
theorem idealRes_some_spec (p : Prog) (sc : Scenario) {j : Nat} (hj : j < (genJobs p).length) {ri : BodyRes}
    (h : idealRes p sc j = some ri) :
    ri = runJob p sc (jobAt p j) (idealPre p sc j).1 ∧
    (jobAt p j).deps.all (okAt (idealPre p sc j).2) = true := by
  obtain ⟨s1, s2⟩ := ideal_step_spec p sc hj
  cases hr : (jobAt p j).deps.all (okAt (idealPre p sc j).2) with
  | true =>
    have := (s1 hr).1
    rw [h] at this
    exact ⟨Option.some.inj this, rfl⟩
  | false =>
    have := (s2 hr).1
    rw [h] at this
    cases this

theorem ideal_dep_ran {p : Prog} (D : Disc p) (sc : Scenario) {j : Nat} (hj : j < (genJobs p).length)
    {ri : BodyRes} (h : idealRes p sc j = some ri) {d : Nat} (hd : d ∈ (jobAt p j).deps) :
    ∃ rd, idealRes p sc d = some rd ∧ rd.ret = none := by
  obtain ⟨_, hall⟩ := idealRes_some_spec p sc hj h
  obtain ⟨r, hg, hret, _⟩ := okAt_true (List.all_eq_true.mp hall d hd)
  have hdj := D.depsBefore j hj d hd
  rw [idealRes_eq p sc hdj (by omega)] at hg
  exact ⟨r, hg, hret⟩

/-- The recorded result of a job of the reference execution is, observably, the body run on the
    *final* reference store (everything the body reads already has its final value when it runs). -/
theorem idealRes_final {p : Prog} (D : Disc p) (sc : Scenario) {j : Nat} (hj : j < (genJobs p).length)
    {ri : BodyRes} (h : idealRes p sc j = some ri) :
    SameRes ri (runJob p sc (jobAt p j) (ideal p sc).store) := by
  obtain ⟨e, _⟩ := idealRes_some_spec p sc hj h
  rw [e, (ideal_eq p sc).1]
  exact (runJob_congr p sc (jobAt p j) _ _ (fun x hx => reads_final D sc hj hx)).1

/-- The gate variables of a predicated task whose task job ran in the reference execution: the
    predicate job ran before it, so `p<k>` / `p<k>PanicRecover` hold the predicate's outcome, both
    when the task job starts and at the end. -/
theorem ideal_gate_vars {p : Prog} (D : Disc p) (hac : Acyclic p) (hd : DistinctIds p) (sc : Scenario)
    {t : Task} (ht : t ∈ p.tasks) (hp : t.pred = true) {j : Nat} (hj : j < (genJobs p).length)
    (hfn : (jobAt p j).fn = t.fn) {ri : BodyRes} (h : idealRes p sc j = some ri) :
    (idealPre p sc j).1.p t.k = (sc.predOut t.k == .t) ∧
    (idealPre p sc j).1.pPanic t.k = (sc.predOut t.k == .panic) ∧
    (ideal p sc).store.p t.k = (sc.predOut t.k == .t) ∧
    (ideal p sc).store.pPanic t.k = (sc.predOut t.k == .panic) := by
  obtain ⟨jp, hjp, hfp⟩ := fn_job hac (mem_funcs.mpr ⟨t, ht, Or.inr ⟨hp, rfl⟩⟩)
  obtain ⟨hwp, _⟩ := writes_pred hd ht hfp
  obtain ⟨_, hrt⟩ := writes_task hd ht hfn
  have hx1r : Var.p t.k ∈ readsAt p j := by rw [hrt]; simp [taskReads, hp]
  have hx2r : Var.pPanic t.k ∈ readsAt p j := by rw [hrt]; simp [taskReads, hp]
  have hx1w : Var.p t.k ∈ writesAt p jp := by rw [hwp]; simp [predWrites]
  have hx2w : Var.pPanic t.k ∈ writesAt p jp := by rw [hwp]; simp [predWrites]
  have hdep : jp ∈ (jobAt p j).deps := D.readDep jp j _ hjp hj hx1r hx1w
  obtain ⟨rd, hrd, _⟩ := ideal_dep_ran D sc hj h hdep
  obtain ⟨_, hready⟩ := idealRes_some_spec p sc hjp hrd
  have hst := ((ideal_step_spec p sc hjp).1 hready).2
  rw [runJob_pred hd ht sc hfp] at hst
  have a1 : (idealPre p sc jp).1.p t.k = false := toNat_inj (pre_own_writes D sc hjp hx1w)
  have a2 : (idealPre p sc jp).1.pPanic t.k = false := toNat_inj (pre_own_writes D sc hjp hx2w)
  have f1 : (idealTr p sc).1.p t.k = (sc.predOut t.k == .t) := by
    have := toNat_inj (final_written D sc hjp hx1w)
    rw [this, hst]
    unfold runPred
    cases sc.predOut t.k <;> simp [a1]
  have f2 : (idealTr p sc).1.pPanic t.k = (sc.predOut t.k == .panic) := by
    have := toNat_inj (final_written D sc hjp hx2w)
    rw [this, hst]
    unfold runPred
    cases sc.predOut t.k <;> simp [a2]
  have g1 : (idealPre p sc j).1.p t.k = (idealTr p sc).1.p t.k := toNat_inj (reads_final D sc hj hx1r)
  have g2 : (idealPre p sc j).1.pPanic t.k = (idealTr p sc).1.pPanic t.k := toNat_inj (reads_final D sc hj hx2r)
  rw [(ideal_eq p sc).1]
  exact ⟨g1.trans f1, g2.trans f2, f1, f2⟩

/-! ### the trace of a replay -/

theorem trace_is_runJob (p : Prog) (sc : Scenario) :
    ∀ o j r, (j, r) ∈ (execOrder p sc o).2 → ∃ st, r = runJob p sc (jobAt p j) st := by
  apply snoc_induction
  · intro j r h; simp [execOrder] at h
  · intro o k ih j r h
    rw [execOrder_snoc] at h
    simp only [execStep, List.mem_append, List.mem_singleton] at h
    rcases h with h | h
    · exact ih j r h
    · cases h; exact ⟨_, rfl⟩

theorem fst_nodup_unique {α β : Type} : ∀ (l : List (α × β)), (l.map Prod.fst).Nodup →
    ∀ a b b', (a, b) ∈ l → (a, b') ∈ l → b = b' := by
  intro l
  induction l with
  | nil => intro _ a b b' h; simp at h
  | cons x l ih =>
    intro hnd a b b' h1 h2
    simp only [List.map_cons, List.nodup_cons, List.mem_map, not_exists, not_and] at hnd
    simp only [List.mem_cons] at h1 h2
    rcases h1 with h1 | h1 <;> rcases h2 with h2 | h2
    · rw [← h1] at h2; cases h2; rfl
    · exact absurd (by rw [← h1]) (hnd.1 _ h2)
    · exact absurd (by rw [← h2]) (hnd.1 _ h1)
    · exact ih hnd.2 a b b' h1 h2

/-- The log of a run gives a valid execution order. -/
theorem RunH.valid (H : RunH p sc c acts s) : ValidOrder p sc (endedOrder s.log) :=
  (valid_of_goodLog p sc s.log
    (goodLog_of_run p H.acyclic c H.deps H.wiring H.workers acts s H.run) H.cons).1

/-- A job has at most one entry in the replayed trace. -/
theorem RunH.trace_unique (H : RunH p sc c acts s) {j : Nat} {r r' : BodyRes}
    (h : (j, r) ∈ replayTrace p sc s.log) (h' : (j, r') ∈ replayTrace p sc s.log) : r = r' := by
  apply fst_nodup_unique _ _ j r r' h h'
  unfold replayTrace
  rw [execOrder_fst]
  exact H.valid.1

/-- Everything the composition says about one `ended` event of a run. -/
theorem RunH.ended (H : RunH p sc c acts s) {j : Nat} {o : Outcome} (hm : Ev.ended j o ∈ s.log) :
    j < (genJobs p).length ∧
    ∃ r ri, (j, r) ∈ replayTrace p sc s.log ∧ idealRes p sc j = some ri ∧ SameRes r ri ∧
      (o = Outcome.ok ↔ ri.ret = none) ∧ o ≠ Outcome.goexit ∧
      ri = runJob p sc (jobAt p j) (idealPre p sc j).1 ∧
      (∃ st, r = runJob p sc (jobAt p j) st) := by
  obtain ⟨job, r, ri, hjob, hr, hri, hsame, hiff, hne⟩ :=
    (schedule_independent p sc H.acc H.small H.ids c H.deps H.wiring H.workers acts s H.run H.cons).1 j o hm
  have hj : j < (genJobs p).length := (List.getElem?_eq_some_iff.mp hjob).1
  exact ⟨hj, r, ri, hr, hri, hsame, hiff, hne, (idealRes_some_spec p sc hj hri).1,
    trace_is_runJob p sc _ j r hr⟩

/-- A trace entry comes from an `ended` event. -/
theorem trace_ended {p : Prog} {sc : Scenario} {log : List Ev} {j : Nat} {r : BodyRes}
    (h : (j, r) ∈ replayTrace p sc log) : ∃ o, Ev.ended j o ∈ log :=
  mem_endedOrder.mp (mem_trace_order h)

/-- Two `ended` events of the same job are the same event. -/
theorem RunH.ended_unique (H : RunH p sc c acts s) {j : Nat} {o o' : Outcome}
    (h : Ev.ended j o ∈ s.log) (h' : Ev.ended j o' ∈ s.log) : o = o' := by
  have h1 := (Sched.C08_one_result_per_job c H.wiring H.wf acts s H.run j).2.2.1
  have := Sched.eq_of_countP_le_one h1 h h' (by simp [Sched.Ev.isEndedOf]) (by simp [Sched.Ev.isEndedOf])
  cases this; rfl

end infra

/-! ### C07 — the error a flow returns is the own error of a task that failed -/

/-- `j` is the position of the task job of `t`. -/
def TaskJob (p : Prog) (t : Task) (j : Nat) : Prop := j < (genJobs p).length ∧ (jobAt p j).fn = t.fn

/-- `j` is the position of the predicate job of `t`. -/
def PredJob (p : Prog) (t : Task) (j : Nat) : Prop := j < (genJobs p).length ∧ (jobAt p j).fn = t.predFn

/-- `ret` is task `t`'s own error in scenario `sc`: the error its function returns (`err:k`), the
    PanicError for a panic of its function (`panic:k:class`) — both only when the gate is open —
    or the PanicError for a panic of its predicate (`ppanic:k:class`). -/
def OwnError (t : Task) (sc : Scenario) (ret : Option String) : Prop :=
  ((t.pred = true → sc.predOut t.k = .t) ∧ sc.fnOut t.k = .err ∧ ret = some s!"err:{t.k}") ∨
  ((t.pred = true → sc.predOut t.k = .t) ∧ sc.fnOut t.k = .panic ∧
      ret = some s!"panic:{t.k}:{sc.vclass 't' t.k 0}") ∨
  (t.pred = true ∧ sc.predOut t.k = .panic ∧ ret = some s!"ppanic:{t.k}:{sc.vclass 'p' t.k 0}")

/-- Body level: a task body that returns an error has no FallbackWith and returns exactly one of
    the three entries of the template. -/
theorem runTask_ret_some (t : Task) (sc : Scenario) (s : Store) (h : (runTask .std t sc s).ret ≠ none) :
    t.fb = false ∧
    ((gateOpen t s = true ∧ sc.fnOut t.k = .err ∧ (runTask .std t sc s).ret = some s!"err:{t.k}") ∨
     (gateOpen t s = true ∧ sc.fnOut t.k = .panic ∧
        (runTask .std t sc s).ret = some s!"panic:{t.k}:{sc.vclass 't' t.k 0}") ∨
     (t.pred = true ∧ s.pPanic t.k = true ∧
        (runTask .std t sc s).ret = some s!"ppanic:{t.k}:{sc.vclass 'p' t.k 0}")) := by
  revert h
  unfold gateOpen
  unfold runTask BodyFlags.std
  cases hp : t.pred <;> cases hpp : s.pPanic t.k <;> cases hq : s.p t.k <;> cases hf : t.fb <;>
    cases ho : sc.fnOut t.k <;> simp

/-- Job `j` is the task job of a listed task without FallbackWith whose body returned an error in
    this run (`r`, replayed from the log) and in the reference execution (`ri`): the same error,
    which is the result of `runJob` on the reference store — at the moment the job runs in `ideal`
    and, observably, on the final store — and is the task's own error. -/
def FailedTask (p : Prog) (sc : Scenario) (log : List Ev) (j : Nat) : Prop :=
  ∃ t ∈ p.tasks, TaskJob p t j ∧ t.fb = false ∧
    ∃ r ri, (j, r) ∈ replayTrace p sc log ∧ idealRes p sc j = some ri ∧ SameRes r ri ∧
      ri = runJob p sc (jobAt p j) (idealPre p sc j).1 ∧
      SameRes ri (runTask .std t sc (ideal p sc).store) ∧
      ri.ret ≠ none ∧ r.crashed = false ∧ OwnError t sc ri.ret

section c07
variable {p : Prog} {sc : Scenario} {c : Sched.Cfg} {acts : List Sched.Act} {s : Sched.State}

/-- A body that ended with an outcome other than `ok`: the outcome is `fail e`, the job is a task
    job (never a predicate job), and the error is the task's own. -/
theorem RunH.failed_task (H : RunH p sc c acts s) {j : Nat} {o : Outcome} (hm : Ev.ended j o ∈ s.log)
    (ho : o ≠ Outcome.ok) : (∃ e, o = Outcome.fail e) ∧ FailedTask p sc s.log j := by
  obtain ⟨hj, r, ri, hr, hri, hsame, hiff, hne, heq, st, hst⟩ := H.ended hm
  have hret : ri.ret ≠ none := fun h => ho (hiff.mpr h)
  refine ⟨?_, ?_⟩
  · cases o with
    | ok => exact absurd rfl ho
    | fail e => exact ⟨e, rfl⟩
    | goexit => exact absurd rfl hne
  · obtain ⟨t, ht, hfn | ⟨hp, hfn⟩⟩ := job_task H.acyclic hj
    · have hfin := idealRes_final H.disc sc hj hri
      rw [runJob_task H.ids ht sc hfn] at hfin
      have heq' := heq
      rw [runJob_task H.ids ht sc hfn] at heq'
      rw [heq'] at hret
      obtain ⟨hfb, hown⟩ := runTask_ret_some t sc _ hret
      have hcr : r.crashed = false := by
        rw [hst, runJob_task H.ids ht sc hfn]; exact runTask_no_crash t sc st
      have hgate : gateOpen t (idealPre p sc j).1 = true → (t.pred = true → sc.predOut t.k = .t) := by
        intro hg hp
        obtain ⟨g1, _⟩ := ideal_gate_vars H.disc H.acyclic H.ids sc ht hp hj hfn hri
        unfold gateOpen at hg
        rw [hp, g1] at hg
        cases hpo : sc.predOut t.k <;> simp [hpo] at hg ⊢
      refine ⟨t, ht, ⟨hj, hfn⟩, hfb, r, ri, hr, hri, hsame, heq, hfin, by rw [heq']; exact hret, hcr, ?_⟩
      rw [heq']
      rcases hown with ⟨hg, h1, h2⟩ | ⟨hg, h1, h2⟩ | ⟨hp, hpp, h2⟩
      · exact Or.inl ⟨hgate hg, h1, h2⟩
      · exact Or.inr (Or.inl ⟨hgate hg, h1, h2⟩)
      · obtain ⟨_, g2, _⟩ := ideal_gate_vars H.disc H.acyclic H.ids sc ht hp hj hfn hri
        rw [g2] at hpp
        exact Or.inr (Or.inr ⟨hp, by simpa using hpp, h2⟩)
    · exfalso
      rw [heq, runJob_pred H.ids ht sc hfn] at hret
      exact hret (runPred_never_fails t sc _).1

/-- **C07, flow level (fail-fast).**  In every run of the scheduler on the job list of an accepted
    flow: a non-nil error returned by `Wait` is exactly one entry `x`, which is never the internal
    sentinel and never "job exited unexpectedly" (generated bodies do not call Goexit), and is

    * the context's error — then `Wait`'s context was cancelled, or a job was skipped because the
      context it was enqueued with was cancelled; or
    * `fail e`, the error value of a job `j` whose body ended with it (`Ev.ended j (fail e)`): `j`
      is the task job of a listed task `t` without FallbackWith, and its body returned an error
      both in this run and in the reference execution `ideal p sc` — the same one, the value of
      `runJob` on the reference store, namely `t`'s own `err:k` / `panic:k:class` /
      `ppanic:k:class` entry (`FailedTask`, `OwnError`). -/
theorem C07_flow_error_real (H : RunH p sc c acts s) (hcoe : c.coe = false) (r : List Res)
    (hret : Ev.waitReturned r ∈ s.log) (hne : r ≠ []) :
    ∃ x, r = [x] ∧ x ≠ Res.exitErr ∧ x ≠ Res.invalid ∧ x ≠ Res.ok ∧
      ((x = Res.ctxErr ∧ (Ev.cancelled c.waitCtx ∈ s.log ∨
          ∃ j, Ev.skipped j .ctx ∈ s.log ∧ Ev.cancelled (c.ctxOfJob j) ∈ s.log)) ∨
       (∃ j e, x = Res.fail e ∧ Ev.ended j (Outcome.fail e) ∈ s.log ∧ FailedTask p sc s.log j ∧
          ∃ ri, idealRes p sc j = some ri ∧ ri.ret ≠ none)) := by
  rcases Sched.C07_error_real c H.wiring H.wf hcoe acts s H.run r hret with h | ⟨x, hx, hreal⟩
  · exact absurd h hne
  · refine ⟨x, hx, ?_⟩
    rcases hreal with ⟨h1, h2⟩ | ⟨j, e, h1, h2⟩ | ⟨_, j, h2⟩
    · subst h1
      exact ⟨by simp, by simp, by simp, Or.inl ⟨rfl, h2⟩⟩
    · subst h1
      obtain ⟨_, hft⟩ := H.failed_task h2 (by simp)
      obtain ⟨t, ht, htj, hfb, r', ri, hr', hri, hs, heq, hfin, hret', hcr, hown⟩ := hft
      exact ⟨by simp, by simp, by simp, Or.inr ⟨j, e, rfl, h2,
        ⟨t, ht, htj, hfb, r', ri, hr', hri, hs, heq, hfin, hret', hcr, hown⟩, ri, hri, hret'⟩⟩
    · obtain ⟨_, _, _, _, _, _, _, hng, _⟩ := H.ended h2
      exact absurd rfl hng

/-! ### C07/C08 — nothing downstream of a failed body runs -/

theorem anc_trans {c : Sched.Cfg} {j d a : Nat} (h1 : Sched.Anc c j d) (h2 : Sched.Anc c d a) :
    Sched.Anc c j a := by
  induction h1 with
  | direct hd => exact Sched.Anc.step hd h2
  | step hd _ ih => exact Sched.Anc.step hd (ih h2)

/-- **C07/C08, flow level (both modes).**  In every run of the scheduler on the job list of an
    accepted flow: if the body of job `j` ended with an outcome other than `ok` — by consistency:
    the body returned an error, in this run and in the reference execution; `j` is then the task
    job of a task that failed with its own error (`FailedTask`) — then no job that depends on `j`,
    directly or transitively, was started, ended, or has a replayed body. -/
theorem C07_flow_no_downstream (H : RunH p sc c acts s) (j : Nat) (o : Outcome)
    (hend : Ev.ended j o ∈ s.log) (hfail : o ≠ Outcome.ok) :
    FailedTask p sc s.log j ∧
    ∀ k, Sched.Anc c k j →
      Ev.started k ∉ s.log ∧ (∀ o', Ev.ended k o' ∉ s.log) ∧ ∀ r, (k, r) ∉ replayTrace p sc s.log := by
  refine ⟨(H.failed_task hend hfail).2, ?_⟩
  intro k hanc
  have hns : Ev.started k ∉ s.log := by
    intro hst
    have hok := Sched.C07_no_downstream c H.wiring H.wf acts s H.run k j hst hanc
    exact hfail (H.ended_unique hend hok)
  have hne : ∀ o', Ev.ended k o' ∉ s.log := by
    intro o' he
    obtain ⟨R, _⟩ := Sched.full_run H.wiring H.wf acts s H.run
    exact hns (R.i6.endedStarted k o' he)
  refine ⟨hns, hne, ?_⟩
  intro r hr
  obtain ⟨o', ho'⟩ := trace_ended hr
  exact hne o' ho'

/-- The same, with the premise on the replayed body: a body that returned an error in this run. -/
theorem C07_flow_no_downstream_body (H : RunH p sc c acts s) (j : Nat) (r : BodyRes)
    (hr : (j, r) ∈ replayTrace p sc s.log) (hret : r.ret ≠ none) :
    (∃ e, Ev.ended j (Outcome.fail e) ∈ s.log) ∧ FailedTask p sc s.log j ∧
    ∀ k, Sched.Anc c k j →
      Ev.started k ∉ s.log ∧ (∀ o', Ev.ended k o' ∉ s.log) ∧ ∀ r, (k, r) ∉ replayTrace p sc s.log := by
  obtain ⟨o, ho⟩ := trace_ended hr
  obtain ⟨_, r', ri, hr', _, hsame, hiff, _⟩ := H.ended ho
  have hrr : r = r' := H.trace_unique hr hr'
  have hfail : o ≠ Outcome.ok := by
    intro h
    apply hret
    rw [hrr, hsame.1]
    exact hiff.mp h
  obtain ⟨⟨e, he⟩, _⟩ := H.failed_task ho hfail
  obtain ⟨h1, h2⟩ := C07_flow_no_downstream H j o ho hfail
  exact ⟨⟨e, he ▸ ho⟩, h1, h2⟩

/-- `u` consumes an output of `t` directly: as an input of its function, or of its predicate. -/
def ConsumesDirect (u t : Task) : Prop := ∃ τ ∈ t.outs, τ ∈ u.ins ∨ (u.pred = true ∧ τ ∈ u.pins)

/-- `u` consumes an output of `t`, directly or through other tasks of the flow. -/
inductive Consumes (p : Prog) : Task → Task → Prop
  | direct {u t : Task} : u ∈ p.tasks → t ∈ p.tasks → ConsumesDirect u t → Consumes p u t
  | step {u v t : Task} : u ∈ p.tasks → v ∈ p.tasks → ConsumesDirect u v → Consumes p v t → Consumes p u t

theorem anc_of_consumesDirect (H : RunH p sc c acts s) {u t : Task} (hu : u ∈ p.tasks) (ht : t ∈ p.tasks)
    (hc : ConsumesDirect u t) {ju jt : Nat} (hju : TaskJob p u ju) (hjt : TaskJob p t jt) :
    Sched.Anc c ju jt := by
  have D := H.disc
  obtain ⟨τ, hτo, hτ⟩ := hc
  have hw : Var.val τ ∈ writesAt p jt := by
    rw [(writes_task H.ids ht hjt.2).1]; simp [taskWrites, hτo]
  rcases hτ with hτ | ⟨hp, hτ⟩
  · have hr : Var.val τ ∈ readsAt p ju := by
      rw [(writes_task H.ids hu hju.2).2]; simp [taskReads, hτ]
    have := D.readDep jt ju _ hjt.1 hju.1 hr hw
    rw [← depsOf_cfg H.deps hju.1] at this
    exact Sched.Anc.direct this
  · obtain ⟨jp, hjp, hfp⟩ := fn_job H.acyclic (mem_funcs.mpr ⟨u, hu, Or.inr ⟨hp, rfl⟩⟩)
    have hr : Var.val τ ∈ readsAt p jp := by
      rw [(writes_pred H.ids hu hfp).2]; simp [predReads, hτ]
    have h1 := D.readDep jt jp _ hjt.1 hjp hr hw
    rw [← depsOf_cfg H.deps hjp] at h1
    have hr2 : Var.p u.k ∈ readsAt p ju := by
      rw [(writes_task H.ids hu hju.2).2]; simp [taskReads, hp]
    have hw2 : Var.p u.k ∈ writesAt p jp := by
      rw [(writes_pred H.ids hu hfp).1]; simp [predWrites]
    have h2 := D.readDep jp ju _ hjp hju.1 hr2 hw2
    rw [← depsOf_cfg H.deps hju.1] at h2
    exact Sched.Anc.step h2 (Sched.Anc.direct h1)

theorem anc_of_consumes (H : RunH p sc c acts s) {u t : Task} (hc : Consumes p u t) :
    ∀ {ju jt : Nat}, TaskJob p u ju → TaskJob p t jt → Sched.Anc c ju jt := by
  induction hc with
  | direct hu ht hd => intro ju jt hju hjt; exact anc_of_consumesDirect H hu ht hd hju hjt
  | step hu hv hd _ ih =>
    intro ju jt hju hjt
    obtain ⟨jv, hjv, hfv⟩ := fn_job H.acyclic (mem_funcs.mpr ⟨_, hv, Or.inl rfl⟩)
    exact anc_trans (anc_of_consumesDirect H hu hv hd hju ⟨hjv, hfv⟩) (ih ⟨hjv, hfv⟩ hjt)

/-- **C07/C08 in terms of tasks (both modes).**  In every run: if the task job of `t` ended with an
    error, the function of a task `u` that consumes — directly, or through other tasks, as function
    input or as predicate input — an output of `t` is never invoked: the task job of `u` is never
    started and has no replayed body. -/
theorem C07_flow_no_downstream_tasks (H : RunH p sc c acts s) {t u : Task} (hc : Consumes p u t)
    {jt ju : Nat} (hjt : TaskJob p t jt) (hju : TaskJob p u ju) {o : Outcome}
    (hend : Ev.ended jt o ∈ s.log) (hfail : o ≠ Outcome.ok) :
    Ev.started ju ∉ s.log ∧ (∀ o', Ev.ended ju o' ∉ s.log) ∧ ∀ r, (ju, r) ∉ replayTrace p sc s.log :=
  (C07_flow_no_downstream H jt o hend hfail).2 ju (anc_of_consumes H hc hju hjt)

end c07

end Gen
