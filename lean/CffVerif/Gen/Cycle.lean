/-
  C14 (cycles) / C02: if the compiler's cycle search (`hasCycle`, mirroring internal/cycle.go)
  finds nothing and every type has at most one provider, the flow's function graph is acyclic
  (`Gen.Acyclic`), hence `toposort` is sound for it.
-/
import CffVerif.Gen.Topo

namespace Gen

/-- A memo list in which every entry's dependency types (those that have a provider) occur later. -/
def GoodV (fs : List Fn) : List Ty → Prop
  | [] => True
  | t :: v => GoodV fs v ∧ ∃ ds, provDeps fs t = some ds ∧ ∀ d ∈ ds, provDeps fs d ≠ none → d ∈ v

theorem dfs_fold_sound (fs : List Fn) (fuel : Nat) (path : List Ty)
    (ih : ∀ (t : Ty) (v v' : List Ty), GoodV fs v → dfsCycle fs fuel path t v = (false, v') →
        GoodV fs v' ∧ (∀ x ∈ v, x ∈ v') ∧ (provDeps fs t = none ∨ t ∈ v')) :
    ∀ (ds : List Ty) (acc : Bool × List Ty), acc.1 = false → GoodV fs acc.2 →
      (ds.foldl (fun (acc : Bool × List Ty) d => if acc.1 then acc else dfsCycle fs fuel path d acc.2) acc).1 = false →
      GoodV fs (ds.foldl (fun (acc : Bool × List Ty) d => if acc.1 then acc else dfsCycle fs fuel path d acc.2) acc).2 ∧
      (∀ x ∈ acc.2, x ∈ (ds.foldl (fun (acc : Bool × List Ty) d => if acc.1 then acc else dfsCycle fs fuel path d acc.2) acc).2) ∧
      (∀ d ∈ ds, provDeps fs d = none ∨ d ∈ (ds.foldl (fun (acc : Bool × List Ty) d => if acc.1 then acc else dfsCycle fs fuel path d acc.2) acc).2) := by
  intro ds
  induction ds with
  | nil => intro acc _ hg _; exact ⟨hg, fun x hx => hx, by simp⟩
  | cons d ds ihd =>
    intro acc hf hg hres
    simp only [List.foldl_cons] at hres ⊢
    simp only [hf, Bool.false_eq_true, if_false] at hres ⊢
    -- the call on d must have returned false, otherwise the fold stays true
    have stays : ∀ (l : List Ty) (a : Bool × List Ty), a.1 = true →
        (l.foldl (fun (acc : Bool × List Ty) d => if acc.1 then acc else dfsCycle fs fuel path d acc.2) a).1 = true := by
      intro l; induction l with
      | nil => intro a h; exact h
      | cons x xs ihx => intro a h; simp only [List.foldl_cons, h, if_true]; exact ihx a h
    cases hc : (dfsCycle fs fuel path d acc.2).1 with
    | true => have := stays ds _ hc; rw [this] at hres; simp at hres
    | false =>
      have heq : dfsCycle fs fuel path d acc.2 = (false, (dfsCycle fs fuel path d acc.2).2) := by
        rw [← hc]
      obtain ⟨g1, g2, g3⟩ := ih d acc.2 _ hg heq
      obtain ⟨r1, r2, r3⟩ := ihd (dfsCycle fs fuel path d acc.2) hc g1 hres
      refine ⟨r1, fun x hx => r2 x (g2 x hx), ?_⟩
      intro x hx
      simp only [List.mem_cons] at hx
      rcases hx with rfl | hx
      · rcases g3 with g3 | g3
        · exact Or.inl g3
        · exact Or.inr (r2 x g3)
      · exact r3 x hx

/-- Soundness of the memoised search: a `false` answer extends the memo by a good list that
    contains the start type (if it has a provider). -/
theorem dfs_sound (fs : List Fn) : ∀ (fuel : Nat) (path : List Ty) (t : Ty) (v v' : List Ty),
    GoodV fs v → dfsCycle fs fuel path t v = (false, v') →
    GoodV fs v' ∧ (∀ x ∈ v, x ∈ v') ∧ (provDeps fs t = none ∨ t ∈ v') := by
  intro fuel
  induction fuel with
  | zero => intro path t v v' _ h; simp [dfsCycle] at h
  | succ fuel ih =>
    intro path t v v' hg h
    simp only [dfsCycle] at h
    cases hp : provDeps fs t with
    | none => simp only [hp] at h; cases h; exact ⟨hg, fun x hx => hx, Or.inl rfl⟩
    | some ds =>
      simp only [hp] at h
      split at h
      · simp at h
      · split at h
        · next hv =>
          cases h
          exact ⟨hg, fun x hx => hx, Or.inr (by simpa using hv)⟩
        · split at h
          · simp at h
          · next hr =>
            have hr' : (ds.foldl (fun (acc : Bool × List Ty) d => if acc.1 then acc else dfsCycle fs fuel (path ++ [t]) d acc.2) (false, v)).1 = false := by
              simpa using hr
            obtain ⟨f1, f2, f3⟩ := dfs_fold_sound fs fuel (path ++ [t]) (fun t' w w' => ih (path ++ [t]) t' w w') ds (false, v) rfl hg hr'
            cases h
            refine ⟨⟨f1, ds, hp, ?_⟩, fun x hx => List.mem_cons_of_mem _ (f2 x hx), Or.inr (by simp)⟩
            intro d hd hne
            rcases f3 d hd with h0 | h0
            · exact absurd h0 hne
            · exact h0

/-- Position-from-the-end rank of the last occurrence of `t` in `v` (0 if absent). -/
def trank : List Ty → Ty → Nat
  | [], _ => 0
  | x :: v, t => if v.contains t then trank v t else if x == t then v.length + 1 else 0

theorem trank_le (v : List Ty) (t : Ty) : trank v t ≤ v.length := by
  induction v with
  | nil => simp [trank]
  | cons x v ih => simp only [trank]; split <;> (try split) <;> simp <;> omega

theorem trank_pos {v : List Ty} {t : Ty} (h : t ∈ v) : 0 < trank v t := by
  induction v with
  | nil => simp at h
  | cons x v ih =>
    simp only [trank]
    by_cases hv : v.contains t = true
    · simp only [hv, if_true]; exact ih (by simpa using hv)
    · simp only [hv, Bool.false_eq_true, if_false]
      have : x = t := by
        simp only [List.mem_cons] at h
        rcases h with rfl | h
        · rfl
        · exact absurd (by simpa using h) hv
      simp [this]

/-- In a good memo list, dependencies have strictly smaller rank. -/
theorem goodV_rank (fs : List Fn) : ∀ (v : List Ty), GoodV fs v → ∀ t ∈ v,
    ∃ ds, provDeps fs t = some ds ∧ ∀ d ∈ ds, provDeps fs d ≠ none → d ∈ v ∧ trank v d < trank v t := by
  intro v
  induction v with
  | nil => intro _ t h; simp at h
  | cons x v ih =>
    intro hg t ht
    obtain ⟨hgv, ds, hds, hdv⟩ := hg
    by_cases hv : v.contains t = true
    · have htv : t ∈ v := by simpa using hv
      obtain ⟨ds', h1, h2⟩ := ih hgv t htv
      refine ⟨ds', h1, ?_⟩
      intro d hd hne
      obtain ⟨hdin, hlt⟩ := h2 d hd hne
      refine ⟨List.mem_cons_of_mem _ hdin, ?_⟩
      simp only [trank, hv, if_true]
      have : v.contains d = true := by simpa using hdin
      simp only [this, if_true]; exact hlt
    · have hxt : x = t := by
        simp only [List.mem_cons] at ht
        rcases ht with rfl | ht
        · rfl
        · exact absurd (by simpa using ht) hv
      subst hxt
      refine ⟨ds, hds, ?_⟩
      intro d hd hne
      have hdin := hdv d hd hne
      refine ⟨List.mem_cons_of_mem _ hdin, ?_⟩
      simp only [trank, hv, Bool.false_eq_true, if_false, beq_self_eq_true, if_true]
      have : v.contains d = true := by simpa using hdin
      simp only [this, if_true]
      have := trank_le v d; omega

/-- Top level: no cycle found ⇒ a good memo list containing every dependency type that has a provider. -/
theorem hasCycle_false_good (p : Prog) (h : hasCycle p = false) :
    ∃ v, GoodV (funcs p) v ∧ ∀ f ∈ funcs p, ∀ d ∈ f.deps, provDeps (funcs p) d = none ∨ d ∈ v := by
  unfold hasCycle at h
  simp only [] at h
  have key := dfs_fold_sound (funcs p) ((allTypes p).length + 2) []
    (fun t v v' => dfs_sound (funcs p) _ [] t v v') ((funcs p).flatMap Fn.deps) (false, []) rfl trivial h
  refine ⟨_, key.1, ?_⟩
  intro f hf d hd
  exact key.2.2 d (List.mem_flatMap.mpr ⟨f, hf, hd⟩)


/-! ### from the memo list to a rank on functions -/

theorem providerOf_spec {fs : List Fn} {t : Ty} {i : Nat} (h : providerOf fs t = some i) :
    i < fs.length ∧ t ∈ (fs.getD i default).provides := by
  unfold providerOf at h
  have hm := List.mem_of_getLast? h
  obtain ⟨h1, h2⟩ := List.mem_filter.mp hm
  exact ⟨List.mem_range.mp h1, by simpa using h2⟩

theorem crossUnique_spec {fs : List Fn} (h : crossUnique fs = true) {i j : Nat} {t : Ty}
    (hi : i < fs.length) (hj : j < fs.length)
    (ti : t ∈ (fs.getD i default).provides) (tj : t ∈ (fs.getD j default).provides) : i = j := by
  unfold crossUnique at h
  simp only [List.all_eq_true, List.mem_range, Bool.or_eq_true, beq_iff_eq, Bool.not_eq_true',
    List.any_eq_false] at h
  rcases h i hi j hj with h | h
  · exact h
  · have := h t ti
    simp at this
    exact absurd tj this

theorem providerOf_of_mem {fs : List Fn} (hu : crossUnique fs = true) {i : Nat} {t : Ty}
    (hi : i < fs.length) (ti : t ∈ (fs.getD i default).provides) : providerOf fs t = some i := by
  have hin : i ∈ (List.range fs.length).filter fun k => (fs.getD k default).provides.contains t :=
    List.mem_filter.mpr ⟨List.mem_range.mpr hi, List.contains_iff_mem.mpr ti⟩
  cases hp : providerOf fs t with
  | none =>
    unfold providerOf at hp
    rw [List.getLast?_eq_none_iff] at hp
    rw [hp] at hin; simp at hin
  | some j =>
    obtain ⟨hj, tj⟩ := providerOf_spec hp
    rw [crossUnique_spec hu hi hj ti tj]

/-- Rank of a function: one more than the least memo-rank among the types it provides that were
    visited; functions none of whose outputs is anybody's dependency rank above everything. -/
def frank (fs : List Fn) (v : List Ty) (i : Nat) : Nat :=
  let outs := (fs.getD i default).provides.filter (fun o => v.contains o)
  match outs with
  | [] => v.length + 2
  | o :: os => 1 + (os.foldl (fun m x => min m (trank v x)) (trank v o))

theorem foldl_min_le (l : List Ty) (v : List Ty) (m : Nat) :
    l.foldl (fun m x => min m (trank v x)) m ≤ m ∧ ∀ x ∈ l, l.foldl (fun m x => min m (trank v x)) m ≤ trank v x := by
  induction l generalizing m with
  | nil => simp
  | cons a l ih =>
    simp only [List.foldl_cons]
    obtain ⟨h1, h2⟩ := ih (min m (trank v a))
    refine ⟨by omega, ?_⟩
    intro x hx
    simp only [List.mem_cons] at hx
    rcases hx with rfl | hx
    · omega
    · exact h2 x hx

theorem foldl_min_ge (l : List Ty) (v : List Ty) (m b : Nat) (hm : b ≤ m) (hl : ∀ x ∈ l, b ≤ trank v x) :
    b ≤ l.foldl (fun m x => min m (trank v x)) m := by
  induction l generalizing m with
  | nil => simpa using hm
  | cons a l ih =>
    simp only [List.foldl_cons]
    apply ih
    · have := hl a (by simp); omega
    · intro x hx; exact hl x (by simp [hx])

theorem frank_le_of_visited_output {fs : List Fn} {v : List Ty} {i : Nat} {o : Ty}
    (ho : o ∈ (fs.getD i default).provides) (hv : o ∈ v) : frank fs v i ≤ 1 + trank v o := by
  unfold frank
  have hmem : o ∈ (fs.getD i default).provides.filter (fun o => v.contains o) :=
    List.mem_filter.mpr ⟨ho, List.contains_iff_mem.mpr hv⟩
  cases hout : (fs.getD i default).provides.filter (fun o => v.contains o) with
  | nil => rw [hout] at hmem; simp at hmem
  | cons a as =>
    rw [hout] at hmem
    simp only []
    obtain ⟨h1, h2⟩ := foldl_min_le as v (trank v a)
    simp only [List.mem_cons] at hmem
    rcases hmem with rfl | hmem
    · omega
    · have := h2 o hmem; omega

theorem frank_lower {fs : List Fn} {v : List Ty} {i : Nat} {b : Nat} (hb : b ≤ v.length + 1)
    (h : ∀ o ∈ (fs.getD i default).provides, o ∈ v → b ≤ trank v o) : b + 1 ≤ frank fs v i := by
  unfold frank
  cases hout : (fs.getD i default).provides.filter (fun o => v.contains o) with
  | nil => simp only []; omega
  | cons a as =>
    simp only []
    have above : ∀ o ∈ a :: as, b ≤ trank v o := by
      intro o ho
      rw [← hout] at ho
      obtain ⟨ho1, ho2⟩ := List.mem_filter.mp ho
      exact h o ho1 (List.contains_iff_mem.mp ho2)
    have := foldl_min_ge as v (trank v a) b (above a (by simp)) (fun x hx => above x (by simp [hx]))
    omega

theorem countP_lt_of_extra {p q : Nat → Bool} {l : List Nat} (hpq : ∀ x, p x = true → q x = true)
    {d : Nat} (hd : d ∈ l) (hqd : q d = true) (hpd : p d = false) : l.countP p < l.countP q := by
  induction l with
  | nil => simp at hd
  | cons x xs ih =>
    simp only [List.countP_cons]
    have hmono : xs.countP p ≤ xs.countP q := List.countP_mono_left (fun y _ hy => hpq y hy)
    simp only [List.mem_cons] at hd
    rcases hd with rfl | hd
    · simp [hqd, hpd]; omega
    · have := ih hd
      by_cases hx : p x = true
      · simp [hx, hpq x hx]; omega
      · simp [hx]; split <;> omega

/-- **No cycle found ⇒ acyclic.** If the cycle search finds nothing and no type has two providing
    functions, the function graph has a rank that strictly decreases along every dependency and is
    bounded by the number of functions: `toposort` is then sound (`genJobs_deps_before`). -/
theorem acyclic_of_no_cycle (p : Prog) (hc : hasCycle p = false) (hu : crossUnique (funcs p) = true) :
    Acyclic p := by
  obtain ⟨v, hg, hroots⟩ := hasCycle_false_good p hc
  -- strict decrease of `frank` along dependencies
  have hdec : ∀ i, ∀ d ∈ dependsOn (funcs p) i, frank (funcs p) v d < frank (funcs p) v i := by
    intro i d hd
    simp only [dependsOn, List.mem_filterMap] at hd
    obtain ⟨t', ht', hprov⟩ := hd
    obtain ⟨hdlt, ht'd⟩ := providerOf_spec hprov
    -- i is a real function (otherwise it has no dependency types)
    have hilt : i < (funcs p).length := by
      rcases Nat.lt_or_ge i (funcs p).length with h | h
      · exact h
      · exfalso
        have hdef : (funcs p).getD i default = default := by
          simp [List.getD_eq_getElem?_getD, List.getElem?_eq_none h]
        rw [hdef] at ht'
        exact absurd ht' (by simp [show (default : Fn).deps = [] from rfl])
    have hfi : (funcs p).getD i default ∈ funcs p := by
      rw [List.getD_eq_getElem?_getD, List.getElem?_eq_getElem hilt]; simp
    have hne : provDeps (funcs p) t' ≠ none := by simp [provDeps, hprov]
    have ht'v : t' ∈ v := by
      rcases hroots _ hfi t' ht' with h | h
      · exact absurd h hne
      · exact h
    have hd1 : frank (funcs p) v d ≤ 1 + trank v t' := frank_le_of_visited_output ht'd ht'v
    have hi1 : (trank v t' + 1) + 1 ≤ frank (funcs p) v i := by
      apply frank_lower
      · have := trank_le v t'; omega
      · intro o ho1 hov
        obtain ⟨ds, hds, hall⟩ := goodV_rank (funcs p) v hg o hov
        have hpo : providerOf (funcs p) o = some i := providerOf_of_mem hu hilt ho1
        have : ds = ((funcs p).getD i default).deps := by
          simp [provDeps, hpo] at hds; exact hds.symm
        subst this
        have := (hall t' ht' hne).2
        omega
    omega
  -- compress the rank below the number of functions
  refine ⟨fun i => ((List.range (funcs p).length).countP fun j => decide (frank (funcs p) v j < frank (funcs p) v i)), ?_, ?_⟩
  · intro i d hd
    have hlt := hdec i d hd
    have hdl : d < (funcs p).length := by
      simp only [dependsOn, List.mem_filterMap] at hd
      obtain ⟨t', _, hprov⟩ := hd
      exact (providerOf_spec hprov).1
    apply countP_lt_of_extra (d := d)
    · intro x hx; simp at hx ⊢; omega
    · exact List.mem_range.mpr hdl
    · simpa using hlt
    · simp
  · intro i
    have := List.countP_le_length (p := fun j => decide (frank (funcs p) v j < frank (funcs p) v i)) (l := List.range (funcs p).length)
    simp at this
    show ((List.range (funcs p).length).countP fun j => decide (frank (funcs p) v j < frank (funcs p) v i)) < (funcs p).length + 1
    omega

end Gen
