/-
  Non-vacuity of `ideal_eq_valueOf`, `ideal_calls`, `idealAgreesWithDenote_true` and
  `C02_order_independent_results`: the diamond of `Gen.Example` in a scenario in which the
  predicate of task 1 returns **false** (task 1 is skipped, its output 3 stays zero, and task 2 —
  the join — is still called, with that zero), and a relisting of the same flow.
-/
import CffVerif.Gen.DenoteOrder

namespace Gen.Example

open Gen

/-- The predicate of task 1 returns false; nothing fails. -/
def scF : Scenario := { pred := [(1, .f)] }

/-- The same flow as `prog` (`[t2, t0, t3, t1]`), listed in another order. -/
def prog' : Prog := { params := [1], results := [4], tasks := [t1, t3, t0, t2] }

theorem scF_noFailure : NoFailure prog scF := by decide

/-- All hypotheses of the theorems hold for `prog`/`prog'` and `scF`; the predicate is false. -/
theorem hyps :
    validateFlow prog = [] ∧ validateFlow prog' = [] ∧ SmallTypes prog ∧ DistinctIds prog ∧
    prog.params = prog'.params ∧ prog.results = prog'.results ∧ prog.tasks.Perm prog'.tasks ∧
    NoFailure prog scF ∧ scF.predOut 1 = .f ∧
    -- the two listings are compiled to different job orders
    (genJobs prog).map (fun j => (j.fn.isPred, j.fn.k)) = [(false, 0), (true, 1), (false, 1), (false, 2), (false, 3)] ∧
    (genJobs prog').map (fun j => (j.fn.isPred, j.fn.k)) = [(true, 1), (false, 1), (false, 0), (false, 2), (false, 3)] := by
  decide

/-- What the executable definitions compute in this scenario (all by evaluation):
    the skipped task leaves zero in type 3 on both sides; the join (task 2) is called with
    `[valueOf 2, 0]`; task 1 is not called; the driver's check passes; the relisted flow gives the
    same Results value. -/
theorem computed :
    (ideal prog scF).store.val 3 = 0 ∧ valueOf prog scF 5 3 = 0 ∧
    (ideal prog scF).store.val 2 = valueOf prog scF 5 2 ∧ valueOf prog scF 5 2 ≠ 0 ∧
    (ideal prog scF).store.val 4 = valueOf prog scF 5 4 ∧ valueOf prog scF 5 4 ≠ 0 ∧
    ((ideal prog scF).get 1).jobRan = true ∧ ((ideal prog scF).get 1).fnCalled = false ∧
    ((ideal prog scF).get 1).predCalled = true ∧ ((ideal prog scF).get 1).predArgs = [valueOf prog scF 5 1] ∧
    ((ideal prog scF).get 2).fnCalled = true ∧
    ((ideal prog scF).get 2).fnArgs = [valueOf prog scF 5 2, 0] ∧
    idealAgreesWithDenote prog scF = true ∧
    (ideal prog scF).store.val 4 = (ideal prog' scF).store.val 4 ∧
    -- the bound `p.tasks.length + 1` on the fuel is tight already for a single task
    (let one : Prog := { params := [1], results := [2], tasks := [{ k := 0, ins := [1], outs := [2] }] }
     validateFlow one = [] ∧ (ideal one {}).store.val 2 = valueOf one {} 2 2 ∧
       (ideal one {}).store.val 2 ≠ valueOf one {} 1 2) := by
  decide

/-- The theorems applied to the example. -/
theorem example_denote : ∀ τ, (ideal prog scF).store.val τ = valueOf prog scF 5 τ :=
  ideal_eq_valueOf prog scF hyps.1 prog_small prog_ids scF_noFailure 5 (by decide)

theorem example_check : idealAgreesWithDenote prog scF = true :=
  idealAgreesWithDenote_true prog scF hyps.1 prog_small prog_ids scF_noFailure

theorem example_order : ∀ τ ∈ prog.results, (ideal prog scF).store.val τ = (ideal prog' scF).store.val τ :=
  C02_order_independent_results prog prog' scF hyps.1 hyps.2.1 prog_small prog_ids rfl rfl hyps.2.2.2.2.2.2.1
    scF_noFailure

/-- Without `NoFailure` the link fails, as it must: if task 0's function errs, the reference
    execution leaves the Results type at zero, while the denotation (which describes the flow in
    which nothing fails) does not. -/
theorem needs_noFailure :
    let scE : Scenario := { fn := [(0, .err)] }
    ¬ NoFailure prog scE ∧ (ideal prog scE).store.val 4 = 0 ∧ valueOf prog scE 5 4 ≠ 0 ∧
    idealAgreesWithDenote prog scE = false := by
  decide

end Gen.Example
