/-
  C — the compiler's graph construction and validation (internal/compile.go, cycle.go, graph.go),
  as executable definitions on abstract flow specs.  Types are naturals (identity = types.Identical);
  the per-task sentinel types of cff.Invoke and cff.Predicate are encoded as 1000+k and 2000+k.
-/
import CffVerif.Gen.Spec
import CffVerif.Gen.Sig

namespace Gen

def invTy (k : Nat) : Ty := 1000 + k
def prdTy (k : Nat) : Ty := 2000 + k

/-- A function of the flow graph: a task or a predicate (`flow.Funcs` entry). -/
structure Fn where
  isPred : Bool
  k : Nat
  deps : List Ty          -- Function.Dependencies
  outs : List Ty          -- function.outputs()
  invoke : Bool := false  -- task carries Invoke(true): provides invTy k
  deriving Repr, DecidableEq, Inhabited

def Task.fn (t : Task) : Fn :=
  { isPred := false, k := t.k, deps := t.ins ++ (if t.pred then [prdTy t.k] else []), outs := t.outs, invoke := t.invoke }
def Task.predFn (t : Task) : Fn :=
  { isPred := true, k := t.k, deps := t.pins, outs := [prdTy t.k] }

/-- `flow.Funcs`: each task followed by its predicate, in listing order. -/
def funcs (p : Prog) : List Fn :=
  p.tasks.flatMap fun t => if t.pred then [t.fn, t.predFn] else [t.fn]

def Fn.provides (f : Fn) : List Ty := f.outs ++ (if f.invoke then [invTy f.k] else [])

/-- `flow.providers` after the registration loop: `Set` overwrites, so the last provider wins. -/
def providerOf (fs : List Fn) (t : Ty) : Option Nat :=
  ((List.range fs.length).filter fun i => (fs.getD i default).provides.contains t).getLast?

def countProviders (fs : List Fn) (t : Ty) : Nat :=
  (fs.map fun f => f.provides.count t).sum

/-- No type is provided by two different functions. -/
def crossUnique (fs : List Fn) : Bool :=
  (List.range fs.length).all fun i => (List.range fs.length).all fun j =>
    i == j || !((fs.getD i default).provides.any fun t => (fs.getD j default).provides.contains t)

/-- No function provides the same type twice. -/
def selfUnique (fs : List Fn) : Bool := fs.all fun f => f.provides.eraseDups.length == f.provides.length

/-! ### validation -/

/-- breadth-first walk of `validateFuncs`: returns (types without provider, Params types never reached). -/
def bfs (fs : List Fn) : Nat → List Ty → List Ty → List Ty → List Ty → List Ty × List Ty
  | 0, _, _, inputs, missing => (missing, inputs)
  | _ + 1, [], _, inputs, missing => (missing, inputs)
  | fuel + 1, t :: queue, visited, inputs, missing =>
    if visited.contains t then bfs fs fuel queue visited inputs missing
    else
      let visited := t :: visited
      match providerOf fs t with
      | some i => bfs fs fuel (queue ++ (fs.getD i default).deps) visited inputs missing
      | none =>
        if inputs.contains t then bfs fs fuel queue visited (inputs.filter (· != t)) missing
        else bfs fs fuel queue visited inputs (missing ++ [t])

/-- Dependency types of the provider of `t` (none if no function provides `t`). -/
def provDeps (fs : List Fn) (t : Ty) : Option (List Ty) :=
  (providerOf fs t).map fun i => (fs.getD i default).deps

/-- `findFlowCyclesForFunc`: depth-first search with path check and memo; returns (cycle found, memo).
    The Go recursion needs no fuel (the path grows with distinct types); here the fuel is
    `#types + 2` and running out of it is reported as a cycle (unreachable, see `Gen.Cycle`). -/
def dfsCycle (fs : List Fn) : Nat → List Ty → Ty → List Ty → Bool × List Ty
  | 0, _, _, visited => (true, visited)
  | fuel + 1, path, t, visited =>
    match provDeps fs t with
    | none => (false, visited)
    | some ds =>
      if path.contains t then (true, visited)
      else if visited.contains t then (false, visited)
      else
        let r := ds.foldl (fun (acc : Bool × List Ty) d =>
          if acc.1 then acc else dfsCycle fs fuel (path ++ [t]) d acc.2) (false, visited)
        if r.1 then (true, r.2) else (false, t :: r.2)

def allTypes (p : Prog) : List Ty :=
  (p.params ++ p.results ++ (funcs p).flatMap (fun f => f.deps ++ f.provides)).eraseDups

def hasCycle (p : Prog) : Bool :=
  let fs := funcs p
  let fuel := (allTypes p).length + 2
  ((fs.flatMap Fn.deps).foldl (fun (acc : Bool × List Ty) d =>
      if acc.1 then acc else dfsCycle fs fuel [] d acc.2) (false, [])).1

/-- Diagnostics classes the compiler reports for a flow (empty = accepted). -/
def validateFlow (p : Prog) : List String :=
  let fs := funcs p
  let dupParams := if p.params.eraseDups.length != p.params.length then ["dup-provider"] else []
  let taskDiags := p.tasks.flatMap fun t =>
    (if t.outs.isEmpty && !t.invoke then ["invoke"] else []) ++
    (if !t.outs.isEmpty && t.invoke then ["invoke"] else []) ++
    (if t.fb && !t.err then ["fallback"] else [])
  -- cff.Invoke with a non-constant argument is refused (F4)
  let invokeVar := if p.quirk == "invokevar" then ["invoke"] else []
  let instrumented := p.instrDir || p.tasks.any (·.instr)
  let instrDiag := if instrumented && p.emitters == 0 then ["other"] else []
  let dupProv := if crossUnique fs && selfUnique fs then [] else ["dup-provider"]
  let received := fun (t : Ty) => p.results.contains t || fs.any (fun f => f.deps.contains t) || (t ≥ 1000 && t < 2000)
  let unusedOut := if fs.any (fun f => f.outs.any (fun o => !received o)) then ["unused-output"] else []
  let sinks := p.results ++ (p.tasks.filter (·.invoke)).map (fun t => invTy t.k)
  let fuel := ((allTypes p).length + 2) * ((fs.flatMap Fn.deps).length + sinks.length + 2)
  let (missing, unusedIn) := bfs fs fuel sinks [] p.params.eraseDups []
  let noProv := if missing.isEmpty then [] else ["no-provider"]
  let unusedParam := if unusedIn.isEmpty then [] else ["unused-param"]
  let cyc := if hasCycle p then ["cycle"] else []
  (dupParams ++ taskDiags ++ invokeVar ++ instrDiag ++ dupProv ++ unusedOut ++ noProv ++ unusedParam ++ cyc).eraseDups

/-- Parallel directives: ContinueOnError excludes End hooks; instrumentation needs an emitter;
    at least one task. -/
def validatePar (p : Prog) : List String :=
  let hasEnd := p.slices.any (·.hasEnd) || p.maps.any (·.hasEnd)
  let instr := p.instrDir || p.ptasks.any (·.instr)
  ((if (p.slices ++ p.maps).any (fun c => !c.assignable) then ["other"] else []) ++
   (if p.hasCoe && hasEnd then ["other"] else []) ++
   (if instr && p.emitters == 0 then ["other"] else []) ++
   (if p.ptasks.isEmpty && p.slices.isEmpty && p.maps.isEmpty then ["other"] else [])).eraseDups

/-- Unsupported signatures: type-correct Go that cff must refuse (a predicate returning a defined
    boolean type or two results, a variadic predicate, a FallbackWith of the wrong arity).  The
    harness marks such programs with a `sig-*` quirk. -/
def sigDiags (p : Prog) : List String :=
  if p.quirk == "sig-shape" then
    -- the function of one task has the given parameter/result kinds: refused unless `classifySig` accepts
    let (variadic, ps) := parsePK p.sigP
    if (classifySig variadic ps (parseRK p.sigR)).isSome then [] else ["other"]
  else if p.quirk == "sig-fbarity" then ["fallback"]
  else if p.quirk.startsWith "sig-" then ["other"] else []

def validate (p : Prog) : List String :=
  match p.kind with
  | .flow => (sigDiags p ++ validateFlow p).eraseDups
  | .par => validatePar p

/-! ### scheduling -/

/-- `g.Dependencies(funcIdx)`: one entry per dependency type that a function provides. -/
def dependsOn (fs : List Fn) (i : Nat) : List Nat :=
  (fs.getD i default).deps.filterMap (providerOf fs)

/-- `toposort`: depth-first post-order over `0..Count-1`. -/
def topoVisit (fs : List Fn) : Nat → Nat → List Nat → List Nat
  | 0, _, acc => acc
  | fuel + 1, n, acc =>
    if acc.contains n then acc
    else
      let acc := (dependsOn fs n).foldl (fun acc d => topoVisit fs fuel d acc) acc
      if acc.contains n then acc else acc ++ [n]

def toposort (fs : List Fn) : List Nat :=
  (List.range fs.length).foldl (fun acc n => topoVisit fs (fs.length + 1) n acc) []

/-- A job of the generated code: the function and the positions (in `TopoFuncs`) of the jobs it
    lists as `Dependencies`. -/
structure Job where
  fn : Fn
  deps : List Nat
  deriving Repr, DecidableEq, Inhabited

/-- The jobs in the order the generated code enqueues them. -/
def genJobs (p : Prog) : List Job :=
  let fs := funcs p
  let topo := toposort fs
  topo.map fun i =>
    { fn := fs.getD i default,
      deps := (dependsOn fs i).map fun d => (topo.idxOf d) }

/-- Executable check: every dependency is enqueued before its dependent. -/
def depsBefore (js : List Job) : Bool :=
  (List.range js.length).all fun i => (js.getD i default).deps.all (· < i)

end Gen
