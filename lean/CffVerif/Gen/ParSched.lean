/-
  Scheduler-level facts used by the Parallel composition (body-agnostic, about `Sched.run` only):
  job ids occurring in the log were submitted; the ids of the `ended` events of a complete run are
  a permutation of the submitted ids; ContinueOnError: the accumulated error against the failing
  bodies.
-/
import CffVerif.Properties

namespace Sched

open Loop

/-! ### the loop never knows more jobs than the caller submitted -/

theorem regDeps_length (w : Wiring) : ∀ (ds : List Nat) (jobs : List JobRec) (meId : Nat) (me : JobRec),
    (regDeps w jobs meId me ds).1.length = jobs.length
  | [], _, _, _ => rfl
  | d :: ds, jobs, meId, me => by
    unfold regDeps
    simp only []
    split
    · exact regDeps_length w ds jobs meId _
    · rw [regDeps_length w ds _ meId _]; simp

theorem enq_length (c : Cfg) (l : LoopSt) (j : Nat) : (enq c l j).jobs.length = l.jobs.length + 1 := by
  rw [enq_jobs]; simp [regDeps_length]

theorem markInvalid_length : ∀ (ks : List Nat) (l : LoopSt), (markInvalid l ks).jobs.length = l.jobs.length
  | [], _ => rfl
  | k :: ks, l => by unfold markInvalid; rw [markInvalid_length ks]; simp

theorem notify_length : ∀ (ks : List Nat) (l : LoopSt), (notify l ks).jobs.length = l.jobs.length
  | [], _ => rfl
  | k :: ks, l => by
    unfold notify
    simp only []
    rw [notify_length ks]
    split <;> simp

theorem result_length (c : Cfg) (l : LoopSt) (j : Nat) (r : Res) : (result c l j r).jobs.length = l.jobs.length := by
  unfold result
  simp only []
  split
  · split
    · simp
    · rw [notify_length, markInvalid_length]; split <;> simp
  · rw [notify_length]; simp

theorem dispatch_length {c : Cfg} {l l' : LoopSt} {j : Nat} (h : dispatch c l = some (j, l')) :
    l'.jobs.length = l.jobs.length := by
  unfold dispatch at h
  split at h
  · simp at h
  · split at h
    · simp at h
    · simp only [Option.some.injEq, Prod.mk.injEq] at h
      obtain ⟨_, rfl⟩ := h; simp

theorem jobsLe_step {c : Cfg} (hw : c.wiring = Wiring.std) {s s' : State} {a : Act}
    (hle : s.loop.jobs.length + s.enq.length ≤ s.caller.sent) (h : step c s a = some s') :
    s'.loop.jobs.length + s'.enq.length ≤ s'.caller.sent := by
  cases a with
  | callerSend => obtain ⟨_, _, _, _, rfl⟩ := inv_callerSend h; simp; omega
  | callerClose => obtain ⟨_, _, rfl⟩ := inv_callerClose h; exact hle
  | callerRetCtx => obtain ⟨_, _, _, rfl⟩ := inv_callerRetCtx hw h; exact hle
  | callerRetFin => obtain ⟨_, _, _, rfl⟩ := inv_callerRetFin h; exact hle
  | loopEnq =>
    obtain ⟨j, rest, _, _, he, rfl⟩ := inv_loopEnq h
    simp only [addLog_loop, addLog_enq, addLog_caller, exitCheck_jobs, enq_length]
    rw [he] at hle; simp at hle; omega
  | loopEnqClosed =>
    obtain ⟨_, _, _, _, rfl⟩ := inv_loopEnqClosed h
    simpa [closed] using hle
  | loopDispatch w =>
    obtain ⟨j, l, _, _, hd, rfl⟩ := inv_loopDispatch h
    simp only [addLog_loop, addLog_enq, addLog_caller, setW_loop, setW_enq, setW_caller, exitCheck_jobs,
      dispatch_length hd]
    exact hle
  | loopResult =>
    obtain ⟨j, r, rest, _, _, rfl⟩ := inv_loopResult h
    simp only [exitCheck_jobs, result_length]; exact hle
  | loopTick => obtain ⟨_, _, rfl⟩ := inv_loopTick h; simpa using hle
  | loopDrain =>
    obtain ⟨j, rest, _, he, rfl⟩ := inv_loopDrain hw h
    rw [he] at hle; simp at hle ⊢; omega
  | loopClose => obtain ⟨_, _, _, rfl⟩ := inv_loopClose hw h; exact hle
  | workerDecide w =>
    obtain ⟨_, _, hc⟩ := inv_workerDecide hw h
    rcases hc with ⟨_, rfl⟩ | ⟨_, _, rfl⟩ | ⟨_, _, rfl⟩ <;> exact hle
  | workerEnd w o cancel =>
    obtain ⟨j, _, rfl⟩ := inv_workerEnd h
    have e : (afterBody c s j o cancel).caller = s.caller ∧ (afterBody c s j o cancel).loop = s.loop ∧
        (afterBody c s j o cancel).enq = s.enq := by unfold afterBody; split <;> simp
    simp only [setW_caller, setW_loop, setW_enq, e.1, e.2.1, e.2.2]; exact hle
  | workerPost w => obtain ⟨_, _, _, _, rfl⟩ := inv_workerPost h; exact hle
  | workerDiePost w => obtain ⟨_, _, _, rfl⟩ := inv_workerDiePost hw h; exact hle
  | workerExit w => obtain ⟨_, _, rfl⟩ := inv_workerExit h; exact hle
  | cancel => obtain ⟨_, _, rfl⟩ := inv_cancel h; exact hle

/-- The loop has registered at most the jobs the caller submitted. -/
theorem jobs_le_sent {c : Cfg} (hw : c.wiring = Wiring.std) (acts : List Act) (s : State)
    (hr : run c (init c) acts = some s) : s.loop.jobs.length + s.enq.length ≤ s.caller.sent :=
  run_induct (c := c) (fun s => s.loop.jobs.length + s.enq.length ≤ s.caller.sent)
    (fun _ _ _ hp h => jobsLe_step hw hp h) acts _ _ (by simp [init]) hr

/-- A job whose body started (or ended) was submitted by the caller. -/
theorem started_lt_sent {c : Cfg} (hw : c.wiring = Wiring.std) (hwf : WfCfg c) (acts : List Act) (s : State)
    (hr : run c (init c) acts = some s) (j : Nat) (h : Ev.started j ∈ s.log) : j < s.caller.sent := by
  have hd := (allInv_run hw hwf acts s hr).i3.startedDisp j h
  have hle := jobs_le_sent hw acts s hr
  by_cases hj : j < s.loop.jobs.length
  · omega
  · rw [job_of_ge s.loop j (by omega)] at hd; simp at hd

theorem ended_lt_sent {c : Cfg} (hw : c.wiring = Wiring.std) (hwf : WfCfg c) (acts : List Act) (s : State)
    (hr : run c (init c) acts = some s) (j : Nat) (o : Outcome) (h : Ev.ended j o ∈ s.log) : j < s.caller.sent :=
  started_lt_sent hw hwf acts s hr j ((full_run hw hwf acts s hr).1.i6.endedStarted j o h)

/-! ### the jobs that ended, in log order -/

def Ev.endedId : Ev → Option Nat
  | .ended j _ => some j
  | _ => none

/-- A body that ended with an error of its own. -/
def Ev.failedId : Ev → Option Nat
  | .ended j (.fail _) => some j
  | _ => none

/-- A result the loop saw that carries a body's own error. -/
def Ev.seenFailId : Ev → Option Nat
  | .resultSeen j (.fail _) => some j
  | _ => none

/-- The jobs whose body ran to its end, in the order in which they ended. -/
def endedIds (log : List Ev) : List Nat := log.filterMap Ev.endedId
/-- The jobs whose body returned an error (or panicked into a `PanicError`), in that order. -/
def failedIds (log : List Ev) : List Nat := log.filterMap Ev.failedId

theorem mem_endedIds {log : List Ev} {j : Nat} : j ∈ endedIds log ↔ ∃ o, Ev.ended j o ∈ log := by
  unfold endedIds
  rw [List.mem_filterMap]
  constructor
  · rintro ⟨ev, hm, he⟩
    cases ev <;> simp [Ev.endedId] at he
    subst he; exact ⟨_, hm⟩
  · rintro ⟨o, hm⟩; exact ⟨_, hm, rfl⟩

theorem mem_failedIds {log : List Ev} {j : Nat} : j ∈ failedIds log ↔ ∃ e, Ev.ended j (.fail e) ∈ log := by
  unfold failedIds
  rw [List.mem_filterMap]
  constructor
  · rintro ⟨ev, hm, he⟩
    cases ev with
    | ended k o =>
      cases o <;> simp [Ev.failedId] at he
      subst he; exact ⟨_, hm⟩
    | _ => simp [Ev.failedId] at he
  · rintro ⟨e, hm⟩; exact ⟨_, hm, rfl⟩

theorem nodup_filterMap_of_countP {f : Ev → Option Nat} {q : Nat → Ev → Bool} {log : List Ev}
    (hq : ∀ j ev, f ev = some j → q j ev = true) (h1 : ∀ j, log.countP (q j) ≤ 1) : (log.filterMap f).Nodup := by
  rw [List.nodup_iff_count]
  intro j
  rw [List.count_eq_countP, List.countP_filterMap]
  refine Nat.le_trans (List.countP_mono_left ?_) (h1 j)
  intro ev _ h
  cases hf : f ev with
  | none => simp [hf] at h
  | some k =>
    simp [hf] at h; subst h; exact hq _ _ hf

theorem endedIds_nodup {log : List Ev} (h : ∀ j, log.countP (Ev.isEndedOf j) ≤ 1) : (endedIds log).Nodup :=
  nodup_filterMap_of_countP (q := Ev.isEndedOf)
    (by intro j ev he; cases ev <;> simp [Ev.endedId] at he; subst he; simp [Ev.isEndedOf]) h

theorem failedIds_nodup {log : List Ev} (h : ∀ j, log.countP (Ev.isEndedOf j) ≤ 1) : (failedIds log).Nodup :=
  nodup_filterMap_of_countP (q := Ev.isEndedOf)
    (by
      intro j ev he
      cases ev with
      | ended k o => cases o <;> simp [Ev.failedId] at he; subst he; simp [Ev.isEndedOf]
      | _ => simp [Ev.failedId] at he) h

theorem filterMap_congr_mem {α β : Type} {f g : α → Option β} : ∀ {l : List α}, (∀ x ∈ l, f x = g x) →
    l.filterMap f = l.filterMap g
  | [], _ => rfl
  | x :: xs, h => by
    rw [List.filterMap_cons, List.filterMap_cons, h x (by simp),
      filterMap_congr_mem (l := xs) (fun y hy => h y (by simp [hy]))]

/-- **Fail-fast, `Wait` returned nil:** the jobs that ended are — each exactly once — all the
    submitted jobs, and every one of them ended without error. -/
theorem ended_perm_of_nil (c : Cfg) (hw : c.wiring = Wiring.std) (hwf : WfCfg c) (hc : c.coe = false)
    (acts : List Act) (s : State) (hr : run c (init c) acts = some s) (hnil : Ev.waitReturned [] ∈ s.log) :
    (endedIds s.log).Perm (List.range s.caller.sent) ∧ ∀ j o, Ev.ended j o ∈ s.log → o = .ok := by
  obtain ⟨R, _⟩ := full_run hw hwf acts s hr
  have hlt : ∀ j o, Ev.ended j o ∈ s.log → j < s.caller.sent := ended_lt_sent hw hwf acts s hr
  have hok : ∀ j, j < s.caller.sent → Ev.ended j .ok ∈ s.log :=
    fun j hj => (C07_nil_complete c hw hwf hc acts s hr hnil j hj).1
  refine ⟨?_, ?_⟩
  · rw [List.perm_ext_iff_of_nodup (endedIds_nodup R.i6.endedOnce) List.nodup_range]
    intro j
    rw [mem_endedIds, List.mem_range]
    exact ⟨fun ⟨o, ho⟩ => hlt j o ho, fun hj => ⟨_, hok j hj⟩⟩
  · intro j o ho
    have := eq_of_countP_le_one (R.i6.endedOnce j) ho (hok j (hlt j o ho))
      (by simp [Ev.isEndedOf]) (by simp [Ev.isEndedOf])
    simpa using this

/-- **ContinueOnError, loop left its `for`, no job's context cancelled, bodies fail with an error that names
    their job:** the accumulated error has exactly one entry per body that failed — the body's own
    error —, in the order in which the loop saw the results; as a multiset these are the failures
    of the `ended` events. -/
theorem coe_err_perm (c : Cfg) (hw : c.wiring = Wiring.std) (hwf : WfCfg c) (hc : c.coe = true)
    (acts : List Act) (s : State) (hr : run c (init c) acts = some s) (hp : s.loop.phase ≠ .select)
    (hnc : ∀ j, Ev.cancelled (c.ctxOfJob j) ∉ s.log) (hid : ∀ j o, Ev.ended j o ∈ s.log → o = .ok ∨ o = .fail j) :
    s.loop.err = (s.log.filterMap Ev.seenFailId).map Res.fail ∧
    (s.log.filterMap Ev.seenFailId).Perm (failedIds s.log) := by
  obtain ⟨R, _⟩ := full_run hw hwf acts s hr
  have hprod : ∀ j e, Ev.resultSeen j (.fail e) ∈ s.log → Ev.ended j (.fail e) ∈ s.log := by
    intro j e hm
    rcases (R.i6.seenProd j _ hm).1 with ⟨o, h1, h2⟩ | ⟨h1, _⟩ | ⟨h1, _⟩
    · cases o <;> simp [outcomeRes] at h1
      subst h1; exact h2
    · simp at h1
    · simp at h1
  refine ⟨?_, ?_⟩
  · rw [(C08_error_entries c hw hwf hc acts s hr).1, List.map_filterMap]
    apply filterMap_congr_mem
    intro ev hm
    cases ev with
    | resultSeen j r =>
      cases r with
      | ok => simp [Ev.errEntry, Ev.seenFailId, Res.isErr]
      | fail e =>
        have := hid j _ (hprod j e hm)
        simp at this; subst this
        simp [Ev.errEntry, Ev.seenFailId, Res.isErr]
      | exitErr =>
        rcases (R.i6.seenProd j _ hm).1 with ⟨o, h1, h2⟩ | ⟨h1, _⟩ | ⟨h1, _⟩
        · cases o <;> simp [outcomeRes] at h1
          have := hid j _ h2; simp at this
        · simp at h1
        · simp at h1
      | ctxErr =>
        rcases (R.i6.seenProd j _ hm).1 with ⟨o, h1, _⟩ | ⟨_, h2⟩ | ⟨h1, _⟩
        · cases o <;> simp [outcomeRes] at h1
        · exact absurd (R.i6.skipCtx j h2) (hnc _)
        · simp at h1
      | invalid => simp [Ev.errEntry, Ev.seenFailId]
    | _ => simp [Ev.errEntry, Ev.seenFailId]
  · have nd1 : (s.log.filterMap Ev.seenFailId).Nodup :=
      nodup_filterMap_of_countP (q := Ev.isSeenOf)
        (by
          intro j ev he
          cases ev with
          | resultSeen k r => cases r <;> simp [Ev.seenFailId] at he; subst he; simp [Ev.isSeenOf]
          | _ => simp [Ev.seenFailId] at he) R.i6.seenOnce
    rw [List.perm_ext_iff_of_nodup nd1 (failedIds_nodup R.i6.endedOnce)]
    intro j
    rw [mem_failedIds, List.mem_filterMap]
    constructor
    · rintro ⟨ev, hm, he⟩
      cases ev with
      | resultSeen k r =>
        cases r <;> simp [Ev.seenFailId] at he
        subst he; exact ⟨_, hprod _ _ hm⟩
      | _ => simp [Ev.seenFailId] at he
    · rintro ⟨e, hm⟩
      have hj := ended_lt_sent hw hwf acts s hr j _ hm
      obtain ⟨r, hseen⟩ := C08_all_decided_at_exit c hw hwf hc acts s hr hp j hj
      rcases (R.i6.seenProd j r hseen).1 with ⟨o, h1, h2⟩ | ⟨_, h2⟩ | ⟨_, h2⟩
      · have := eq_of_countP_le_one (R.i6.endedOnce j) h2 hm (by simp [Ev.isEndedOf]) (by simp [Ev.isEndedOf])
        simp at this; subst this
        exact ⟨_, hseen, by simp [h1, outcomeRes, Ev.seenFailId]⟩
      · exact absurd (R.i6.skipCtx j h2) (hnc _)
      · have hst := R.i6.endedStarted j _ hm
        have := eq_of_countP_le_one (R.i6.decOnce j) hst h2 (by simp [Ev.decides]) (by simp [Ev.decides])
        simp at this

/-- ContinueOnError, loop left its `for`, no job's context cancelled: a body that started has ended. -/
theorem coe_started_ended (c : Cfg) (hw : c.wiring = Wiring.std) (hwf : WfCfg c) (hc : c.coe = true)
    (acts : List Act) (s : State) (hr : run c (init c) acts = some s) (hp : s.loop.phase ≠ .select)
    (hnc : ∀ j, Ev.cancelled (c.ctxOfJob j) ∉ s.log) (j : Nat) (hst : Ev.started j ∈ s.log) : ∃ o, Ev.ended j o ∈ s.log := by
  obtain ⟨R, _⟩ := full_run hw hwf acts s hr
  have hj := started_lt_sent hw hwf acts s hr j hst
  obtain ⟨r, hseen⟩ := C08_all_decided_at_exit c hw hwf hc acts s hr hp j hj
  rcases (R.i6.seenProd j r hseen).1 with ⟨o, _, h2⟩ | ⟨_, h2⟩ | ⟨_, h2⟩
  · exact ⟨o, h2⟩
  · exact absurd (R.i6.skipCtx j h2) (hnc _)
  · have := eq_of_countP_le_one (R.i6.decOnce j) hst h2 (by simp [Ev.decides]) (by simp [Ev.decides])
    simp at this

end Sched
