/-
  G — the end of the closure generated for cff.Parallel (internal/templates/parallel/parallel.go.tmpl)
  and the event protocol of one Parallel task (parallel/task.go.tmpl).

      defer func() { parallelEmitter.ParallelDone(ctx, …) }()          -- registered first, runs last
      defer func() { for _, t := range tasks { if !t.ran.Load() { t.emitter.TaskSkipped(ctx, err) } } }()
      …enqueue tasks, slice elements, map entries, End hooks…
      if err := sched.Wait(ctx); err != nil { parallelEmitter.ParallelError(ctx, err); return err }
      parallelEmitter.ParallelSuccess(ctx); return nil

  A task body: `defer TaskDone-if-ran`, `defer recover → TaskPanic + PanicError`, `defer ran.Store(true)`,
  call, `TaskError`/`TaskSuccess`.  Deferred calls run last-in first-out, so `ran` is set before the
  recover block and before the TaskDone test: an invoked task always reports TaskDone.
-/
import CffVerif.Gen.FlowRun
import CffVerif.Gen.ParBody

namespace Gen

/-- Events one invocation of an instrumented Parallel task sends to its emitter. -/
def parTaskEvents (sc : Scenario) (t : PTask) : List (String × String) :=
  (match sc.fnOut t.k with
   | .ok => [("TaskSuccess", "-")]
   | .err => [("TaskError", s!"err:{t.k}")]
   | .panic => [("TaskPanic", s!"panic:{t.k}:{sc.vclass 'q' t.k 0}")]) ++ [("TaskDone", "-")]

/-- **C18 (Parallel task).** Exactly one outcome event matching what the function did, then exactly
    one TaskDone. -/
theorem parTaskEvents_shape (sc : Scenario) (t : PTask) :
    ∃ kind cls, parTaskEvents sc t = [(kind, cls), ("TaskDone", "-")] ∧
      (kind = "TaskSuccess" ↔ sc.fnOut t.k = .ok) ∧ (kind = "TaskError" ↔ sc.fnOut t.k = .err) ∧
      (kind = "TaskPanic" ↔ sc.fnOut t.k = .panic) := by
  unfold parTaskEvents
  cases h : sc.fnOut t.k <;> simp

/-- Instrumented tasks of a Parallel (cff.Task options carrying cff.Instrument), by id. -/
def instrPTasks (p : Prog) : List Nat := (p.ptasks.filter (·.instr)).map (·.k)

/-- The closure's epilogue: what every installed emitter receives after `Wait` returned. The sweep is
    given as a set (ids sorted): its order is the order of the `tasks` slice. -/
def parEnd (p : Prog) (wait : List String) (ran : Nat → Bool) : List DEv :=
  let rc := retCls wait
  let outcome : List DEv :=
    if !p.instrDir then [] else if wait.isEmpty then [("ParallelSuccess", -1, "-")] else [("ParallelError", -1, rc)]
  let sweep : List DEv := ((instrPTasks p).filter fun k => !ran k).map (skippedEv rc)
  let done : List DEv := if p.instrDir then [("ParallelDone", -1, "-")] else []
  outcome ++ sweep ++ done

/-- **C18 (Parallel directive).** Exactly one ParallelSuccess (iff nil is returned) or ParallelError
    (with the returned error), then exactly one ParallelDone; nothing if not instrumented. -/
theorem parEnd_directive_events (p : Prog) (wait : List String) (ran : Nat → Bool) :
    (parEnd p wait ran).filter DEv.isDirective =
      if p.instrDir then
        [if wait.isEmpty then ("ParallelSuccess", -1, "-") else ("ParallelError", -1, retCls wait), ("ParallelDone", -1, "-")]
      else [] := by
  simp only [parEnd, List.filter_append, filter_dir_sweep]
  cases hi : p.instrDir <;> cases hw : wait.isEmpty <;> simp [DEv.isDirective]

/-- **C18 (Parallel skipped).** TaskSkipped exactly for the instrumented tasks that did not run; in
    particular none when every task ran. -/
theorem parEnd_skipped (p : Prog) (wait : List String) (ran : Nat → Bool) :
    (parEnd p wait ran).filter (fun e => !DEv.isDirective e) =
      ((instrPTasks p).filter fun k => !ran k).map (skippedEv (retCls wait)) := by
  simp only [parEnd, List.filter_append, filter_nondir_sweep]
  cases hi : p.instrDir <;> cases hw : wait.isEmpty <;> simp [DEv.isDirective]

theorem parEnd_all_ran (p : Prog) (wait : List String) (ran : Nat → Bool) (h : ∀ k ∈ instrPTasks p, ran k = true) :
    (parEnd p wait ran).filter (fun e => !DEv.isDirective e) = [] := by
  rw [parEnd_skipped]
  have : (instrPTasks p).filter (fun k => !ran k) = [] := by
    rw [List.filter_eq_nil_iff]; intro k hk; simp [h k hk]
  rw [this]; rfl

end Gen
