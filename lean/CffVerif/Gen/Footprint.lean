/-
  Footprints of the generated job bodies (`Gen.runJob`): the closure variables a body may read
  and the ones it may write, with the two frame lemmas
    (a) outside its write set a body leaves the store unchanged;
    (b) a body's observable result (`ret`, `invoked`, `args`, `events`) is a function of its read
        set, and so is its effect on every written variable, given the variable's prior value.
-/
import CffVerif.Gen.Flow
import CffVerif.Gen.BodyThms

namespace Gen

/-- The closure variables of a generated flow. -/
inductive Var where
  | val (τ : Ty)
  | p (k : Nat)
  | pPanic (k : Nat)
  | ran (k : Nat)
  deriving DecidableEq, Repr

/-- The content of a variable (booleans as 0/1). -/
def Store.get (s : Store) : Var → Nat
  | .val τ => s.val τ
  | .p k => (s.p k).toNat
  | .pPanic k => (s.pPanic k).toNat
  | .ran k => (s.ran k).toNat

theorem toNat_inj {a b : Bool} (h : a.toNat = b.toNat) : a = b := by
  cases a <;> cases b <;> simp_all

/-- Two stores with the same content in every variable are equal. -/
theorem Store.ext_get {s s' : Store} (h : ∀ x, s.get x = s'.get x) : s = s' := by
  cases s with
  | mk v p pp r =>
    cases s' with
    | mk v' p' pp' r' =>
      have h1 : v = v' := funext fun τ => h (.val τ)
      have h2 : p = p' := funext fun k => toNat_inj (h (.p k))
      have h3 : pp = pp' := funext fun k => toNat_inj (h (.pPanic k))
      have h4 : r = r' := funext fun k => toNat_inj (h (.ran k))
      subst h1 h2 h3 h4; rfl

/-! ### footprints -/

def taskReads (t : Task) : List Var :=
  t.ins.map Var.val ++ (if t.pred then [Var.p t.k, Var.pPanic t.k] else [])
def taskWrites (t : Task) : List Var := t.outs.map Var.val ++ [Var.ran t.k]
def predReads (t : Task) : List Var := t.pins.map Var.val
def predWrites (t : Task) : List Var := [Var.p t.k, Var.pPanic t.k]

/-- Read set of a job body. -/
def Job.reads (p : Prog) (j : Job) : List Var :=
  if j.fn.isPred then predReads (taskOf p j.fn.k) else taskReads (taskOf p j.fn.k)
/-- Write set of a job body. -/
def Job.writes (p : Prog) (j : Job) : List Var :=
  if j.fn.isPred then predWrites (taskOf p j.fn.k) else taskWrites (taskOf p j.fn.k)

/-- The observable part of what a body did (everything but the store). -/
def SameRes (r r' : BodyRes) : Prop :=
  r.ret = r'.ret ∧ r.invoked = r'.invoked ∧ r.args = r'.args ∧ r.events = r'.events

theorem SameRes.refl (r : BodyRes) : SameRes r r := ⟨rfl, rfl, rfl, rfl⟩
theorem SameRes.symm {r r' : BodyRes} (h : SameRes r r') : SameRes r' r :=
  ⟨h.1.symm, h.2.1.symm, h.2.2.1.symm, h.2.2.2.symm⟩
theorem SameRes.trans {a b c : BodyRes} (h : SameRes a b) (h' : SameRes b c) : SameRes a c :=
  ⟨h.1.trans h'.1, h.2.1.trans h'.2.1, h.2.2.1.trans h'.2.2.1, h.2.2.2.trans h'.2.2.2⟩

/-! ### `setVals` -/

theorem foldl_setVal_other (l : List (Ty × Nat)) : ∀ (s : Store),
    (l.foldl (fun s tv => s.setVal tv.1 tv.2) s).p = s.p ∧
    (l.foldl (fun s tv => s.setVal tv.1 tv.2) s).pPanic = s.pPanic ∧
    (l.foldl (fun s tv => s.setVal tv.1 tv.2) s).ran = s.ran := by
  induction l with
  | nil => intro s; exact ⟨rfl, rfl, rfl⟩
  | cons a l ih =>
    intro s
    simp only [List.foldl_cons]
    obtain ⟨h1, h2, h3⟩ := ih (s.setVal a.1 a.2)
    exact ⟨h1, h2, h3⟩

theorem foldl_setVal_not_mem (τ : Ty) (l : List (Ty × Nat)) : ∀ (s : Store), τ ∉ l.map Prod.fst →
    (l.foldl (fun s tv => s.setVal tv.1 tv.2) s).val τ = s.val τ := by
  induction l with
  | nil => intro s _; rfl
  | cons a l ih =>
    intro s h
    simp only [List.map_cons, List.mem_cons, not_or] at h
    simp only [List.foldl_cons]
    rw [ih _ h.2]
    simp [Store.setVal, h.1]

theorem foldl_setVal_mem (τ : Ty) (l : List (Ty × Nat)) : ∀ (s s' : Store), τ ∈ l.map Prod.fst →
    (l.foldl (fun s tv => s.setVal tv.1 tv.2) s).val τ = (l.foldl (fun s tv => s.setVal tv.1 tv.2) s').val τ := by
  induction l with
  | nil => intro s s' h; simp at h
  | cons a l ih =>
    intro s s' h
    simp only [List.foldl_cons]
    by_cases hm : τ ∈ l.map Prod.fst
    · exact ih _ _ hm
    · rw [foldl_setVal_not_mem τ l _ hm, foldl_setVal_not_mem τ l _ hm]
      simp only [List.map_cons, List.mem_cons] at h
      rcases h with h | h
      · simp [Store.setVal, h]
      · exact absurd h hm

theorem setVals_p (s : Store) (ts : List Ty) (vs : List Nat) : (s.setVals ts vs).p = s.p :=
  (foldl_setVal_other _ s).1
theorem setVals_pPanic (s : Store) (ts : List Ty) (vs : List Nat) : (s.setVals ts vs).pPanic = s.pPanic :=
  (foldl_setVal_other _ s).2.1
theorem setVals_ran (s : Store) (ts : List Ty) (vs : List Nat) : (s.setVals ts vs).ran = s.ran :=
  (foldl_setVal_other _ s).2.2

theorem setVals_val_not_mem (s : Store) (ts : List Ty) (vs : List Nat) (τ : Ty) (h : τ ∉ ts) :
    (s.setVals ts vs).val τ = s.val τ := by
  apply foldl_setVal_not_mem
  intro hm
  apply h
  obtain ⟨⟨a, b⟩, hab, rfl⟩ := List.mem_map.mp hm
  exact (List.of_mem_zip hab).1

theorem setVals_val_mem (s s' : Store) (ts : List Ty) (vs : List Nat) (τ : Ty) (h : τ ∈ ts)
    (hl : vs.length = ts.length) : (s.setVals ts vs).val τ = (s'.setVals ts vs).val τ := by
  apply foldl_setVal_mem
  have : (ts.zip vs).map Prod.fst = ts := by
    rw [List.map_fst_zip]; omega
  rw [this]; exact h

/-- Outside `ts` (as `val` variables) `setVals` changes nothing. -/
theorem get_setVals_frame (s : Store) (ts : List Ty) (vs : List Nat) (x : Var) (h : x ∉ ts.map Var.val) :
    (s.setVals ts vs).get x = s.get x := by
  cases x with
  | val τ =>
    simp only [Store.get]
    apply setVals_val_not_mem
    intro hm; exact h (List.mem_map.mpr ⟨τ, hm, rfl⟩)
  | p k => simp only [Store.get, setVals_p]
  | pPanic k => simp only [Store.get, setVals_pPanic]
  | ran k => simp only [Store.get, setVals_ran]

/-- Setting `ran k`. -/
def Store.markRan (s : Store) (k : Nat) : Store := { s with ran := fun x => if x == k then true else s.ran x }

theorem get_markRan_frame (s : Store) (k : Nat) (x : Var) (h : x ≠ Var.ran k) : (s.markRan k).get x = s.get x := by
  cases x with
  | val τ => rfl
  | p k' => rfl
  | pPanic k' => rfl
  | ran k' =>
    have : k' ≠ k := fun e => h (by rw [e])
    simp [Store.get, Store.markRan, this]

theorem get_markRan_self (s : Store) (k : Nat) : (s.markRan k).get (Var.ran k) = 1 := by
  simp [Store.get, Store.markRan]

/-! ### the task body in a form convenient for frame reasoning -/

/-- What the task body does to the store, as a function of the values it reads. -/
inductive TaskEffect where
  | none                       -- store untouched
  | outs (vs : List Nat)       -- outputs assigned, `ran` untouched (predicate panicked, fallback)
  | ran                        -- `ran` set, outputs untouched (error / panic without fallback)
  | ranOuts (vs : List Nat)    -- `ran` set and outputs assigned

def TaskEffect.apply (t : Task) (s : Store) : TaskEffect → Store
  | .none => s
  | .outs vs => s.setVals t.outs vs
  | .ran => s.markRan t.k
  | .ranOuts vs => (s.markRan t.k).setVals t.outs vs

def TaskEffect.lenOk (t : Task) : TaskEffect → Prop
  | .outs vs => vs.length = t.outs.length
  | .ranOuts vs => vs.length = t.outs.length
  | _ => True

/-- The effect of the task body, computed from the gate variables and the arguments only. -/
def taskEffect (t : Task) (sc : Scenario) (pp q : Bool) (args : List Nat) : TaskEffect :=
  if t.pred && pp then (if t.fb then .outs (fallbackVals t) else .none)
  else if t.pred && !q then .none
  else
    match sc.fnOut t.k with
    | .ok => .ranOuts ((List.range t.outs.length).map fun o => taskOut t.k o args)
    | .err => if t.fb then .ranOuts (fallbackVals t) else .ran
    | .panic => if t.fb then .ranOuts (fallbackVals t) else .ran

theorem taskEffect_lenOk (t : Task) (sc : Scenario) (pp q : Bool) (args : List Nat) :
    (taskEffect t sc pp q args).lenOk t := by
  unfold taskEffect
  cases t.pred <;> cases pp <;> cases q <;> cases t.fb <;> cases sc.fnOut t.k <;>
    simp [TaskEffect.lenOk, fallbackVals]

theorem runTask_store (t : Task) (sc : Scenario) (s : Store) :
    (runTask .std t sc s).store = (taskEffect t sc (s.pPanic t.k) (s.p t.k) (t.ins.map s.val)).apply t s := by
  unfold runTask taskEffect BodyFlags.std
  cases hp : t.pred <;> cases hpp : s.pPanic t.k <;> cases hq : s.p t.k <;> cases hf : t.fb <;>
    cases ho : sc.fnOut t.k <;> simp [TaskEffect.apply, Store.markRan]

/-- The non-store part of the task body's result depends only on the gate variables (if the task
    has a predicate) and on the argument values. -/
theorem runTask_obs (t : Task) (sc : Scenario) (s s' : Store)
    (hpp : t.pred = true → s.pPanic t.k = s'.pPanic t.k) (hq : t.pred = true → s.p t.k = s'.p t.k)
    (hargs : t.ins.map s.val = t.ins.map s'.val) :
    SameRes (runTask .std t sc s) (runTask .std t sc s') ∧
    taskEffect t sc (s.pPanic t.k) (s.p t.k) (t.ins.map s.val)
      = taskEffect t sc (s'.pPanic t.k) (s'.p t.k) (t.ins.map s'.val) := by
  cases hp : t.pred with
  | false =>
    refine ⟨?_, ?_⟩
    · unfold runTask BodyFlags.std SameRes
      simp only [hp, hargs]
      cases hf : t.fb <;> cases ho : sc.fnOut t.k <;> simp
    · unfold taskEffect; simp only [hp, hargs]; simp
  | true =>
    have e1 := hpp hp
    have e2 := hq hp
    refine ⟨?_, ?_⟩
    · unfold runTask BodyFlags.std SameRes
      simp only [hp, hargs, e1, e2]
      cases hpp' : s'.pPanic t.k <;> cases hq' : s'.p t.k <;> cases hf : t.fb <;>
        cases ho : sc.fnOut t.k <;> simp
    · rw [e1, e2, hargs]

theorem effect_frame (t : Task) (e : TaskEffect) (s : Store) (x : Var) (hx : x ∉ taskWrites t) :
    (e.apply t s).get x = s.get x := by
  simp only [taskWrites, List.mem_append, List.mem_singleton, not_or] at hx
  cases e with
  | none => rfl
  | outs vs => exact get_setVals_frame _ _ _ _ hx.1
  | ran => exact get_markRan_frame _ _ _ hx.2
  | ranOuts vs =>
    simp only [TaskEffect.apply]
    rw [get_setVals_frame _ _ _ _ hx.1, get_markRan_frame _ _ _ hx.2]

theorem effect_congr (t : Task) (e : TaskEffect) (he : e.lenOk t) (s s' : Store) (x : Var)
    (hx : x ∈ taskWrites t) (hxx : s.get x = s'.get x) : (e.apply t s).get x = (e.apply t s').get x := by
  simp only [taskWrites, List.mem_append, List.mem_singleton] at hx
  cases e with
  | none => exact hxx
  | outs vs =>
    simp only [TaskEffect.apply]
    rcases hx with hx | hx
    · obtain ⟨τ, hτ, rfl⟩ := List.mem_map.mp hx
      exact setVals_val_mem _ _ _ _ _ hτ he
    · subst hx
      rw [get_setVals_frame _ _ _ _ (by simp), get_setVals_frame _ _ _ _ (by simp)]; exact hxx
  | ran =>
    simp only [TaskEffect.apply]
    rcases hx with hx | hx
    · obtain ⟨τ, _, rfl⟩ := List.mem_map.mp hx
      rw [get_markRan_frame _ _ _ (by simp), get_markRan_frame _ _ _ (by simp)]; exact hxx
    · subst hx; rw [get_markRan_self, get_markRan_self]
  | ranOuts vs =>
    simp only [TaskEffect.apply]
    rcases hx with hx | hx
    · obtain ⟨τ, hτ, rfl⟩ := List.mem_map.mp hx
      exact setVals_val_mem _ _ _ _ _ hτ he
    · subst hx
      rw [get_setVals_frame _ _ _ _ (by simp), get_setVals_frame _ _ _ _ (by simp),
        get_markRan_self, get_markRan_self]

/-! ### frame lemmas for the task body -/

theorem runTask_frame (t : Task) (sc : Scenario) (s : Store) (x : Var) (hx : x ∉ taskWrites t) :
    (runTask .std t sc s).store.get x = s.get x := by
  rw [runTask_store]; exact effect_frame t _ s x hx

theorem reads_task {t : Task} {s s' : Store} (h : ∀ x ∈ taskReads t, s.get x = s'.get x) :
    (t.pred = true → s.pPanic t.k = s'.pPanic t.k) ∧ (t.pred = true → s.p t.k = s'.p t.k) ∧
    t.ins.map s.val = t.ins.map s'.val := by
  refine ⟨?_, ?_, ?_⟩
  · intro hp
    exact toNat_inj (h (Var.pPanic t.k) (by simp [taskReads, hp]))
  · intro hp
    exact toNat_inj (h (Var.p t.k) (by simp [taskReads, hp]))
  · apply List.map_congr_left
    intro τ hτ
    exact h (Var.val τ) (by simp [taskReads, hτ])

theorem runTask_congr (t : Task) (sc : Scenario) (s s' : Store)
    (h : ∀ x ∈ taskReads t, s.get x = s'.get x) :
    SameRes (runTask .std t sc s) (runTask .std t sc s') ∧
    ∀ x ∈ taskWrites t, s.get x = s'.get x →
      (runTask .std t sc s).store.get x = (runTask .std t sc s').store.get x := by
  obtain ⟨h1, h2, h3⟩ := reads_task h
  obtain ⟨ho, he⟩ := runTask_obs t sc s s' h1 h2 h3
  refine ⟨ho, ?_⟩
  intro x hx hxx
  rw [runTask_store, runTask_store, ← he]
  exact effect_congr t _ (taskEffect_lenOk _ _ _ _ _) s s' x hx hxx

/-! ### frame lemmas for the predicate body -/

theorem runPred_frame (t : Task) (sc : Scenario) (s : Store) (x : Var) (hx : x ∉ predWrites t) :
    (runPred t sc s).store.get x = s.get x := by
  simp only [predWrites, List.mem_cons, List.not_mem_nil, or_false, not_or] at hx
  unfold runPred
  cases sc.predOut t.k <;> cases x <;> simp_all [Store.get]

theorem runPred_congr (t : Task) (sc : Scenario) (s s' : Store)
    (h : ∀ x ∈ predReads t, s.get x = s'.get x) :
    SameRes (runPred t sc s) (runPred t sc s') ∧
    ∀ x ∈ predWrites t, s.get x = s'.get x →
      (runPred t sc s).store.get x = (runPred t sc s').store.get x := by
  have hargs : t.pins.map s.val = t.pins.map s'.val := by
    apply List.map_congr_left
    intro τ hτ
    exact h (Var.val τ) (by simp [predReads, hτ])
  refine ⟨?_, ?_⟩
  · unfold runPred SameRes
    simp only [hargs]
    cases sc.predOut t.k <;> simp
  · intro x hx hxx
    simp only [predWrites, List.mem_cons, List.not_mem_nil, or_false] at hx
    unfold runPred
    rcases hx with rfl | rfl <;> cases sc.predOut t.k <;> simp_all [Store.get]

/-! ### frame lemmas for `runJob` (item 1) -/

/-- **Frame (a).** A job body leaves every variable outside its write set unchanged. -/
theorem runJob_frame (p : Prog) (sc : Scenario) (j : Job) (s : Store) (x : Var) (hx : x ∉ j.writes p) :
    (runJob p sc j s).store.get x = s.get x := by
  unfold runJob
  unfold Job.writes at hx
  cases hp : j.fn.isPred with
  | true => simp only [hp, if_true] at hx ⊢; exact runPred_frame _ sc s x hx
  | false => simp only [hp] at hx ⊢; exact runTask_frame _ sc s x hx

/-- **Frame (b).** If two stores agree on a job's read set, the body returns the same error, makes
    the same call with the same arguments and emits the same events in both; and every variable of
    its write set on which the two stores agreed before holds the same value afterwards.

    (The premise on the prior value cannot be dropped: a body does not always assign its write set —
    a gated-off task returns without touching its outputs, a failing task does not assign them, a
    panicking predicate does not assign `p<k>` — see `frame_b_needs_prior` below.) -/
theorem runJob_congr (p : Prog) (sc : Scenario) (j : Job) (s s' : Store)
    (h : ∀ x ∈ j.reads p, s.get x = s'.get x) :
    SameRes (runJob p sc j s) (runJob p sc j s') ∧
    ∀ x ∈ j.writes p, s.get x = s'.get x →
      (runJob p sc j s).store.get x = (runJob p sc j s').store.get x := by
  unfold runJob
  unfold Job.reads at h
  unfold Job.writes
  cases hp : j.fn.isPred with
  | true => simp only [hp, if_true] at h ⊢; exact runPred_congr _ sc s s' h
  | false => simp only [hp] at h ⊢; exact runTask_congr _ sc s s' h

/-- Counterexample to the unconditional form of (b) ("same values on the write set"): a task whose
    predicate returned false does not assign its output, so two stores that agree on everything the
    body reads but differ on the output variable still differ there afterwards. -/
theorem frame_b_needs_prior :
    let t : Task := { k := 0, pred := true, outs := [5] }
    let p : Prog := { tasks := [t] }
    let j : Job := { fn := t.fn, deps := [] }
    let s : Store := {}
    let s' : Store := { val := fun τ => if τ = 5 then 7 else 0 }
    (∀ x ∈ j.reads p, s.get x = s'.get x) ∧ Var.val 5 ∈ j.writes p ∧
    (runJob p {} j s).store.get (Var.val 5) ≠ (runJob p {} j s').store.get (Var.val 5) := by
  decide

end Gen
