/-
  C14 completeness: `validateFlow p = [] ↔ WellFormed p` under the encoding assumptions.
  The development is split over
    Complete1 — list/provider facts, `dfs_complete`, `hasCycle_false_of_acyclic`
    Complete2 — `Reach`, `bfs_inv`, `bfs_spec`
    Complete3 — `WellFormed`, `SmallTypes`, `DistinctIds`, `all_reachable`,
                `wellFormed_accepted`, `accepted_wellFormed`, `validateFlow_iff_wellFormed`
  This file adds decidability of the side conditions and the non-vacuity examples.
-/
import CffVerif.Gen.Complete3

namespace Gen

instance (p : Prog) : Decidable (SmallTypes p) := by unfold SmallTypes; infer_instance
instance (p : Prog) : Decidable (DistinctIds p) := by unfold DistinctIds; infer_instance

/-- Non-vacuity: the diamond with a predicate (four tasks) meets the side conditions and is
    accepted; hence, by `validateFlow_iff_wellFormed`, it is `WellFormed`. -/
example :
    let t0 : Task := { k := 0, ins := [1], outs := [2] }
    let t1 : Task := { k := 1, ins := [1], outs := [3], pred := true, pins := [2] }
    let t2 : Task := { k := 2, ins := [2, 3], outs := [4] }
    let t3 : Task := { k := 3, ins := [4], outs := [], invoke := true }
    let ok : Prog := { params := [1], results := [4], tasks := [t2, t0, t3, t1] }
    SmallTypes ok ∧ DistinctIds ok ∧ validateFlow ok = [] := by
  decide

example :
    let t0 : Task := { k := 0, ins := [1], outs := [2] }
    let t1 : Task := { k := 1, ins := [1], outs := [3], pred := true, pins := [2] }
    let t2 : Task := { k := 2, ins := [2, 3], outs := [4] }
    let t3 : Task := { k := 3, ins := [4], outs := [], invoke := true }
    let ok : Prog := { params := [1], results := [4], tasks := [t2, t0, t3, t1] }
    WellFormed ok := by
  intro t0 t1 t2 t3 ok
  exact (validateFlow_iff_wellFormed ok (by decide) (by decide)).mp (by decide)

/-- A rejected mutation (the provider of type 2 removed) is, by the same theorem, not well-formed. -/
example :
    let t1 : Task := { k := 1, ins := [1], outs := [3], pred := true, pins := [2] }
    let t2 : Task := { k := 2, ins := [2, 3], outs := [4] }
    let t3 : Task := { k := 3, ins := [4], outs := [], invoke := true }
    let bad : Prog := { params := [1], results := [4], tasks := [t2, t3, t1] }
    ¬ WellFormed bad := by
  intro t1 t2 t3 bad h
  exact absurd (wellFormed_accepted bad (by decide) (by decide) h) (by decide)

/-- `SmallTypes` cannot be dropped from `accepted_wellFormed`: the model treats every output type in
    `[1000, 2000)` as received (it is the range of the Invoke sentinels), so a user type in that
    range that nobody consumes is accepted although `WellFormed.outputsConsumed` fails. -/
example :
    let w : Prog := { tasks := [{ k := 0, outs := [1500] }] }
    validateFlow w = [] ∧ DistinctIds w ∧ ¬ SmallTypes w ∧ ¬ WellFormed w := by
  intro w
  refine ⟨by decide, by decide, by decide, ?_⟩
  intro h
  have := h.outputsConsumed { isPred := false, k := 0, deps := [], outs := [1500] } (by decide) 1500 (by decide)
  rcases this with h | ⟨f, hf, hd⟩
  · exact absurd h (by decide)
  · have hf' : f = { isPred := false, k := 0, deps := [], outs := [1500] } := by
      have : funcs w = [{ isPred := false, k := 0, deps := [], outs := [1500] }] := by decide
      rw [this] at hf; simpa using hf
    subst hf'
    exact absurd hd (by decide)

end Gen
