/-
  C02 — order independence of the results of a generated flow, operationally: via
  `ideal_eq_valueOf` (reference execution = denotation) and `valueOf_perm` (the denotation does not
  depend on the listing order), and — with `flow_refines_ideal` — for every run of the scheduler
  that returns nil: the values written into the Results do not depend on the order in which the
  tasks are listed, on the concurrency limit, or on the schedule.
-/
import CffVerif.Gen.DenoteLink
import CffVerif.Gen.FlowRun
import CffVerif.Gen.ComposeExample

namespace Gen

open Sched (Ev Outcome)

/-! ### the side conditions are invariant under relisting -/

theorem NoFailure.perm {p₁ p₂ : Prog} {sc : Scenario} (hperm : p₁.tasks.Perm p₂.tasks)
    (h : NoFailure p₁ sc) : NoFailure p₂ sc :=
  fun t ht => h t (hperm.symm.subset ht)

theorem SmallTypes.perm {p₁ p₂ : Prog} (hparams : p₁.params = p₂.params) (hresults : p₁.results = p₂.results)
    (hperm : p₁.tasks.Perm p₂.tasks) (h : SmallTypes p₁) : SmallTypes p₂ := by
  unfold SmallTypes at h ⊢
  rw [← hparams, ← hresults]
  exact ⟨h.1, fun t ht => h.2 t (hperm.symm.subset ht)⟩

theorem DistinctIds.perm {p₁ p₂ : Prog} (hperm : p₁.tasks.Perm p₂.tasks) (h : DistinctIds p₁) :
    DistinctIds p₂ := by
  unfold DistinctIds at h ⊢
  exact (hperm.map _).nodup_iff.mp h

/-! ### the reference execution -/

/-- Order independence of the reference execution, for every type variable. -/
theorem C02_order_independent_values (p₁ p₂ : Prog) (sc : Scenario)
    (h₁ : validateFlow p₁ = []) (h₂ : validateFlow p₂ = []) (hs : SmallTypes p₁) (hd : DistinctIds p₁)
    (hparams : p₁.params = p₂.params) (hresults : p₁.results = p₂.results)
    (hperm : p₁.tasks.Perm p₂.tasks) (hnf : NoFailure p₁ sc) (τ : Ty) :
    (ideal p₁ sc).store.val τ = (ideal p₂ sc).store.val τ := by
  have hlen := hperm.length_eq
  rw [ideal_eq_valueOf p₁ sc h₁ hs hd hnf (p₁.tasks.length + 1) (Nat.le_refl _) τ,
    ideal_eq_valueOf p₂ sc h₂ (hs.perm hparams hresults hperm) (hd.perm hperm) (hnf.perm hperm)
      (p₁.tasks.length + 1) (by omega) τ]
  exact valueOf_perm p₁ p₂ sc hparams hperm
    (uniqueProviders_of_accept (accept_facts p₁ h₁) hd) _ τ

/-- **`C02_order_independent_results`.**  Two accepted flows with the same Params and Results whose
    task lists are permutations of each other (the listing order changed) end their reference
    executions with the same value in every Results type, in every scenario in which nothing fails.
    (`SmallTypes`, `DistinctIds` and `NoFailure` of the second program follow from the first's.) -/
theorem C02_order_independent_results (p₁ p₂ : Prog) (sc : Scenario)
    (h₁ : validateFlow p₁ = []) (h₂ : validateFlow p₂ = []) (hs : SmallTypes p₁) (hd : DistinctIds p₁)
    (hparams : p₁.params = p₂.params) (hresults : p₁.results = p₂.results)
    (hperm : p₁.tasks.Perm p₂.tasks) (hnf : NoFailure p₁ sc) :
    ∀ τ ∈ p₁.results, (ideal p₁ sc).store.val τ = (ideal p₂ sc).store.val τ :=
  fun τ _ => C02_order_independent_values p₁ p₂ sc h₁ h₂ hs hd hparams hresults hperm hnf τ

/-! ### every run that returns nil -/

/-- **`C02_results_independent`.**  Take two listings `p₁`, `p₂` of the same flow (same Params and
    Results, task lists permutations of each other), both accepted, and a scenario in which nothing
    fails.  Run each under *any* standard-wiring scheduler configuration built from its job list
    (any number of workers `c.N ≥ 1`), along *any* schedule `acts` whose logged outcomes are
    consistent with the bodies, in fail-fast mode, with all jobs submitted and `Wait` returning nil.
    Then the two runs leave the same value in every Results type — and both leave
    `valueOf p₁ sc (p₁.tasks.length + 1) τ` there. -/
theorem C02_results_independent (p₁ p₂ : Prog) (sc : Scenario)
    (h₁ : validateFlow p₁ = []) (h₂ : validateFlow p₂ = []) (hs : SmallTypes p₁) (hd : DistinctIds p₁)
    (hparams : p₁.params = p₂.params) (hresults : p₁.results = p₂.results)
    (hperm : p₁.tasks.Perm p₂.tasks) (hnf : NoFailure p₁ sc)
    (c₁ c₂ : Sched.Cfg)
    (hdeps₁ : c₁.deps = (genJobs p₁).map (·.deps)) (hdeps₂ : c₂.deps = (genJobs p₂).map (·.deps))
    (hw₁ : c₁.wiring = Sched.Wiring.std) (hw₂ : c₂.wiring = Sched.Wiring.std)
    (hN₁ : 1 ≤ c₁.N) (hN₂ : 1 ≤ c₂.N)
    (acts₁ acts₂ : List Sched.Act) (s₁ s₂ : Sched.State)
    (hr₁ : Sched.run c₁ (Sched.init c₁) acts₁ = some s₁) (hr₂ : Sched.run c₂ (Sched.init c₂) acts₂ = some s₂)
    (hcons₁ : (replay p₁ sc s₁.log).2 = true) (hcons₂ : (replay p₂ sc s₂.log).2 = true)
    (hcoe₁ : c₁.coe = false) (hcoe₂ : c₂.coe = false)
    (hnil₁ : Ev.waitReturned [] ∈ s₁.log) (hnil₂ : Ev.waitReturned [] ∈ s₂.log)
    (hall₁ : s₁.caller.sent = (genJobs p₁).length) (hall₂ : s₂.caller.sent = (genJobs p₂).length) :
    ∀ τ, (replay p₁ sc s₁.log).1.val τ = (replay p₂ sc s₂.log).1.val τ ∧
         (replay p₁ sc s₁.log).1.val τ = valueOf p₁ sc (p₁.tasks.length + 1) τ := by
  intro τ
  have e₁ := (flow_refines_ideal p₁ sc h₁ hs hd c₁ hdeps₁ hw₁ hN₁ acts₁ s₁ hr₁ hcons₁ hcoe₁ hnil₁ hall₁).2.1 τ
  have e₂ := (flow_refines_ideal p₂ sc h₂ (hs.perm hparams hresults hperm) (hd.perm hperm) c₂ hdeps₂ hw₂ hN₂
    acts₂ s₂ hr₂ hcons₂ hcoe₂ hnil₂ hall₂).2.1 τ
  rw [e₁, e₂]
  exact ⟨C02_order_independent_values p₁ p₂ sc h₁ h₂ hs hd hparams hresults hperm hnf τ,
    ideal_eq_valueOf p₁ sc h₁ hs hd hnf _ (Nat.le_refl _) τ⟩

/-- The same, on what the closure's epilogue copies into the Results targets (`flowEnd … .written`,
    C07): the two runs write the same list of (target index, value). -/
theorem C02_results_written_independent (p₁ p₂ : Prog) (sc : Scenario)
    (h₁ : validateFlow p₁ = []) (h₂ : validateFlow p₂ = []) (hs : SmallTypes p₁) (hd : DistinctIds p₁)
    (hparams : p₁.params = p₂.params) (hresults : p₁.results = p₂.results)
    (hperm : p₁.tasks.Perm p₂.tasks) (hnf : NoFailure p₁ sc)
    (c₁ c₂ : Sched.Cfg)
    (hdeps₁ : c₁.deps = (genJobs p₁).map (·.deps)) (hdeps₂ : c₂.deps = (genJobs p₂).map (·.deps))
    (hw₁ : c₁.wiring = Sched.Wiring.std) (hw₂ : c₂.wiring = Sched.Wiring.std)
    (hN₁ : 1 ≤ c₁.N) (hN₂ : 1 ≤ c₂.N)
    (acts₁ acts₂ : List Sched.Act) (s₁ s₂ : Sched.State)
    (hr₁ : Sched.run c₁ (Sched.init c₁) acts₁ = some s₁) (hr₂ : Sched.run c₂ (Sched.init c₂) acts₂ = some s₂)
    (hcons₁ : (replay p₁ sc s₁.log).2 = true) (hcons₂ : (replay p₂ sc s₂.log).2 = true)
    (hcoe₁ : c₁.coe = false) (hcoe₂ : c₂.coe = false)
    (hnil₁ : Ev.waitReturned [] ∈ s₁.log) (hnil₂ : Ev.waitReturned [] ∈ s₂.log)
    (hall₁ : s₁.caller.sent = (genJobs p₁).length) (hall₂ : s₂.caller.sent = (genJobs p₂).length) :
    (flowEnd p₁ [] (replay p₁ sc s₁.log).1).written = (flowEnd p₂ [] (replay p₂ sc s₂.log).1).written ∧
    (flowEnd p₁ [] (replay p₁ sc s₁.log).1).written =
      (List.range p₁.results.length).map fun i =>
        (i, valueOf p₁ sc (p₁.tasks.length + 1) (p₁.results.getD i 0)) := by
  have h := C02_results_independent p₁ p₂ sc h₁ h₂ hs hd hparams hresults hperm hnf c₁ c₂ hdeps₁ hdeps₂
    hw₁ hw₂ hN₁ hN₂ acts₁ acts₂ s₁ s₂ hr₁ hr₂ hcons₁ hcons₂ hcoe₁ hcoe₂ hnil₁ hnil₂ hall₁ hall₂
  rw [(flowEnd_results p₁ [] _).2 rfl, (flowEnd_results p₂ [] _).2 rfl, ← hresults]
  refine ⟨?_, ?_⟩
  · apply List.map_congr_left
    intro i _
    rw [(h _).1]
  · apply List.map_congr_left
    intro i _
    rw [(h _).2]

end Gen
