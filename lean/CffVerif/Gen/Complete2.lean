/-
  C14 completeness, part 2: the breadth-first walk of `validateFuncs` (`bfs`) computes exactly
  the types reachable from the sinks; characterisation of its two results.
-/
import CffVerif.Gen.Complete1

namespace Gen

/-- Types reachable from the sinks (Results and Invoke sentinels) by following, from a type, the
    dependencies of its registered provider. -/
inductive Reach (fs : List Fn) (sinks : List Ty) : Ty → Prop
  | sink {t : Ty} : t ∈ sinks → Reach fs sinks t
  | dep {t : Ty} {i : Nat} {d : Ty} : Reach fs sinks t → providerOf fs t = some i →
      d ∈ (fs.getD i default).deps → Reach fs sinks d

/-- What `bfs` is expected to return: the reachable types with neither provider nor Param, and the
    Params that are not (reachable and provider-less). -/
def BfsPost (fs : List Fn) (sinks params : List Ty) (r : List Ty × List Ty) : Prop :=
  (∀ x, x ∈ r.1 ↔ Reach fs sinks x ∧ providerOf fs x = none ∧ x ∉ params) ∧
  (∀ x, x ∈ r.2 ↔ x ∈ params ∧ ¬ (Reach fs sinks x ∧ providerOf fs x = none))

theorem countP_unvisited_lt (A visited : List Ty) (t : Ty) (htA : t ∈ A) (htv : t ∉ visited) :
    A.countP (fun x => !(t :: visited).contains x) < A.countP (fun x => !visited.contains x) := by
  apply countP_lt_of_extra (d := t)
  · intro x hx
    simp only [List.contains_eq_mem, List.mem_cons, Bool.not_eq_true', decide_eq_false_iff_not,
      not_or] at hx ⊢
    exact hx.2
  · exact htA
  · simpa using htv
  · simp

/-- The loop invariant of `bfs`, with a termination measure showing that the fuel suffices:
    each step consumes a queue element, and a step that pushes dependencies marks a new type of `A`
    as visited. -/
theorem bfs_inv (fs : List Fn) (sinks params A : List Ty) (D : Nat)
    (hA : ∀ x, Reach fs sinks x → x ∈ A) (hD : ∀ i, (fs.getD i default).deps.length ≤ D) :
    ∀ (fuel : Nat) (queue visited inputs missing : List Ty),
      queue.length + A.countP (fun x => !visited.contains x) * (D + 1) < fuel →
      (∀ t ∈ queue, Reach fs sinks t) → (∀ t ∈ visited, Reach fs sinks t) →
      (∀ t ∈ sinks, t ∈ queue ∨ t ∈ visited) →
      (∀ t ∈ visited, ∀ i, providerOf fs t = some i →
          ∀ d ∈ (fs.getD i default).deps, d ∈ queue ∨ d ∈ visited) →
      (∀ x, x ∈ missing ↔ x ∈ visited ∧ providerOf fs x = none ∧ x ∉ params) →
      (∀ x, x ∈ inputs ↔ x ∈ params ∧ ¬ (x ∈ visited ∧ providerOf fs x = none)) →
      BfsPost fs sinks params (bfs fs fuel queue visited inputs missing) := by
  intro fuel
  induction fuel with
  | zero => intro queue visited inputs missing h; omega
  | succ fuel ih =>
    intro queue visited inputs missing hfuel hq hv hs hc hm hi
    cases queue with
    | nil =>
      simp only [bfs]
      have hall : ∀ x, Reach fs sinks x → x ∈ visited := by
        intro x hx
        induction hx with
        | sink h => rcases hs _ h with h | h; · simp at h
                    · exact h
        | dep _ hp hd ihx =>
          rcases hc _ ihx _ hp _ hd with h | h
          · simp at h
          · exact h
      refine ⟨fun x => ?_, fun x => ?_⟩
      · rw [hm x]
        exact ⟨fun ⟨a, b, c⟩ => ⟨hv x a, b, c⟩, fun ⟨a, b, c⟩ => ⟨hall x a, b, c⟩⟩
      · rw [hi x]
        constructor
        · intro ⟨a, b⟩; exact ⟨a, fun ⟨c, d⟩ => b ⟨hall x c, d⟩⟩
        · intro ⟨a, b⟩; exact ⟨a, fun ⟨c, d⟩ => b ⟨hv x c, d⟩⟩
    | cons t q =>
      simp only [bfs]
      simp only [List.length_cons] at hfuel
      by_cases hvis : visited.contains t = true
      · rw [if_pos hvis]
        have htv : t ∈ visited := List.contains_iff_mem.mp hvis
        apply ih q visited inputs missing (by omega)
          (fun x hx => hq x (List.mem_cons_of_mem _ hx)) hv
        · intro x hx
          rcases hs x hx with h | h
          · rcases List.mem_cons.mp h with rfl | h
            · exact Or.inr htv
            · exact Or.inl h
          · exact Or.inr h
        · intro x hx i hp d hd
          rcases hc x hx i hp d hd with h | h
          · rcases List.mem_cons.mp h with rfl | h
            · exact Or.inr htv
            · exact Or.inl h
          · exact Or.inr h
        · exact hm
        · exact hi
      · rw [if_neg hvis]
        have htv : t ∉ visited := fun h => hvis (List.contains_iff_mem.mpr h)
        have htR : Reach fs sinks t := hq t (by simp)
        have hcnt := countP_unvisited_lt A visited t (hA t htR) htv
        have hv' : ∀ x ∈ t :: visited, Reach fs sinks x := by
          intro x hx
          rcases List.mem_cons.mp hx with rfl | hx
          · exact htR
          · exact hv x hx
        have hmul : (A.countP (fun x => !(t :: visited).contains x) + 1) * (D + 1)
            ≤ A.countP (fun x => !visited.contains x) * (D + 1) :=
          Nat.mul_le_mul_right _ hcnt
        rw [Nat.add_mul] at hmul
        cases hp : providerOf fs t with
        | some i =>
          simp only []
          have hDi := hD i
          apply ih (q ++ (fs.getD i default).deps) (t :: visited) inputs missing
          · simp only [List.length_append]; omega
          · intro x hx
            rcases List.mem_append.mp hx with hx | hx
            · exact hq x (List.mem_cons_of_mem _ hx)
            · exact Reach.dep htR hp hx
          · exact hv'
          · intro x hx
            rcases hs x hx with h | h
            · rcases List.mem_cons.mp h with rfl | h
              · exact Or.inr (by simp)
              · exact Or.inl (List.mem_append_left _ h)
            · exact Or.inr (List.mem_cons_of_mem _ h)
          · intro x hx j hpx d hd
            rcases List.mem_cons.mp hx with rfl | hx
            · rw [hp] at hpx; cases hpx
              exact Or.inl (List.mem_append_right _ hd)
            · rcases hc x hx j hpx d hd with h | h
              · rcases List.mem_cons.mp h with rfl | h
                · exact Or.inr (by simp)
                · exact Or.inl (List.mem_append_left _ h)
              · exact Or.inr (List.mem_cons_of_mem _ h)
          · intro x
            rw [hm x]
            constructor
            · intro ⟨a, b, c⟩; exact ⟨List.mem_cons_of_mem _ a, b, c⟩
            · intro ⟨a, b, c⟩
              rcases List.mem_cons.mp a with rfl | a
              · rw [hp] at b; cases b
              · exact ⟨a, b, c⟩
          · intro x
            rw [hi x]
            constructor
            · intro ⟨a, b⟩
              refine ⟨a, fun ⟨c, d⟩ => ?_⟩
              rcases List.mem_cons.mp c with rfl | c
              · rw [hp] at d; cases d
              · exact b ⟨c, d⟩
            · intro ⟨a, b⟩
              exact ⟨a, fun ⟨c, d⟩ => b ⟨List.mem_cons_of_mem _ c, d⟩⟩
        | none =>
          simp only []
          have hs' : ∀ x ∈ sinks, x ∈ q ∨ x ∈ t :: visited := by
            intro x hx
            rcases hs x hx with h | h
            · rcases List.mem_cons.mp h with rfl | h
              · exact Or.inr (by simp)
              · exact Or.inl h
            · exact Or.inr (List.mem_cons_of_mem _ h)
          have hc' : ∀ x ∈ t :: visited, ∀ i, providerOf fs x = some i →
              ∀ d ∈ (fs.getD i default).deps, d ∈ q ∨ d ∈ t :: visited := by
            intro x hx j hpx d hd
            rcases List.mem_cons.mp hx with rfl | hx
            · rw [hp] at hpx; cases hpx
            · rcases hc x hx j hpx d hd with h | h
              · rcases List.mem_cons.mp h with rfl | h
                · exact Or.inr (by simp)
                · exact Or.inl h
              · exact Or.inr (List.mem_cons_of_mem _ h)
          by_cases hin : inputs.contains t = true
          · rw [if_pos hin]
            have htin : t ∈ inputs := List.contains_iff_mem.mp hin
            have htp : t ∈ params := ((hi t).mp htin).1
            apply ih q (t :: visited) (inputs.filter (· != t)) missing (by omega)
              (fun x hx => hq x (List.mem_cons_of_mem _ hx)) hv' hs' hc'
            · intro x
              rw [hm x]
              constructor
              · intro ⟨a, b, c⟩; exact ⟨List.mem_cons_of_mem _ a, b, c⟩
              · intro ⟨a, b, c⟩
                rcases List.mem_cons.mp a with rfl | a
                · exact absurd htp c
                · exact ⟨a, b, c⟩
            · intro x
              simp only [List.mem_filter, bne_iff_ne, ne_eq]
              rw [hi x]
              constructor
              · intro ⟨⟨a, b⟩, hne⟩
                refine ⟨a, fun ⟨c, d⟩ => ?_⟩
                rcases List.mem_cons.mp c with rfl | c
                · exact hne rfl
                · exact b ⟨c, d⟩
              · intro ⟨a, b⟩
                refine ⟨⟨a, fun ⟨c, d⟩ => b ⟨List.mem_cons_of_mem _ c, d⟩⟩, ?_⟩
                intro e; subst e
                exact b ⟨by simp, hp⟩
          · rw [if_neg hin]
            have htin : t ∉ inputs := fun h => hin (List.contains_iff_mem.mpr h)
            have htp : t ∉ params := fun h => htin ((hi t).mpr ⟨h, fun ⟨c, _⟩ => htv c⟩)
            apply ih q (t :: visited) inputs (missing ++ [t]) (by omega)
              (fun x hx => hq x (List.mem_cons_of_mem _ hx)) hv' hs' hc'
            · intro x
              simp only [List.mem_append, List.mem_singleton]
              rw [hm x]
              constructor
              · rintro (⟨a, b, c⟩ | rfl)
                · exact ⟨List.mem_cons_of_mem _ a, b, c⟩
                · exact ⟨by simp, hp, htp⟩
              · intro ⟨a, b, c⟩
                rcases List.mem_cons.mp a with rfl | a
                · exact Or.inr rfl
                · exact Or.inl ⟨a, b, c⟩
            · intro x
              rw [hi x]
              constructor
              · intro ⟨a, b⟩
                refine ⟨a, fun ⟨c, d⟩ => ?_⟩
                rcases List.mem_cons.mp c with rfl | c
                · exact htp a
                · exact b ⟨c, d⟩
              · intro ⟨a, b⟩
                exact ⟨a, fun ⟨c, d⟩ => b ⟨List.mem_cons_of_mem _ c, d⟩⟩

/-! ### the call made by `validateFlow` -/

theorem mem_funcs {p : Prog} {f : Fn} :
    f ∈ funcs p ↔ ∃ t ∈ p.tasks, f = t.fn ∨ (t.pred = true ∧ f = t.predFn) := by
  unfold funcs
  simp only [List.mem_flatMap]
  constructor
  · rintro ⟨t, ht, hf⟩
    refine ⟨t, ht, ?_⟩
    cases hp : t.pred <;> simp [hp] at hf ⊢ <;> exact hf
  · rintro ⟨t, ht, hf⟩
    refine ⟨t, ht, ?_⟩
    cases hp : t.pred <;> simp [hp] at hf ⊢ <;> exact hf

/-- The sinks the walk starts from: the Results and one sentinel type per Invoke task. -/
def sinksOf (p : Prog) : List Ty := p.results ++ (p.tasks.filter (·.invoke)).map (fun t => invTy t.k)

/-- The fuel `validateFlow` gives to `bfs`. -/
def bfsFuel (p : Prog) : Nat :=
  ((allTypes p).length + 2) * (((funcs p).flatMap Fn.deps).length + (sinksOf p).length + 2)

theorem mem_sinksOf {p : Prog} {x : Ty} :
    x ∈ sinksOf p ↔ x ∈ p.results ∨ ∃ t ∈ p.tasks, t.invoke = true ∧ x = invTy t.k := by
  unfold sinksOf
  simp only [List.mem_append, List.mem_map, List.mem_filter]
  constructor
  · rintro (h | ⟨t, ⟨ht, hi⟩, rfl⟩)
    · exact Or.inl h
    · exact Or.inr ⟨t, ht, hi, rfl⟩
  · rintro (h | ⟨t, ht, hi, rfl⟩)
    · exact Or.inl h
    · exact Or.inr ⟨t, ⟨ht, hi⟩, rfl⟩

theorem invTy_provided {p : Prog} {t : Task} (ht : t ∈ p.tasks) (hi : t.invoke = true) :
    t.fn ∈ funcs p ∧ invTy t.k ∈ t.fn.provides := by
  refine ⟨mem_funcs.mpr ⟨t, ht, Or.inl rfl⟩, ?_⟩
  simp [Fn.provides, Task.fn, hi]

theorem reach_mem_allTypes (p : Prog) (x : Ty) (h : Reach (funcs p) (sinksOf p) x) : x ∈ allTypes p := by
  cases h with
  | sink hs =>
    rcases mem_sinksOf.mp hs with h | ⟨t, ht, hi, rfl⟩
    · exact mem_allTypes.mpr (Or.inr (Or.inl h))
    · obtain ⟨h1, h2⟩ := invTy_provided ht hi
      exact mem_allTypes.mpr (Or.inr (Or.inr ⟨_, h1, Or.inr h2⟩))
  | dep _ _ hd => exact dep_mem_allTypes p _ _ hd

theorem deps_length_le_of_mem {fs : List Fn} {f : Fn} (h : f ∈ fs) :
    f.deps.length ≤ (fs.flatMap Fn.deps).length := by
  induction fs with
  | nil => simp at h
  | cons g gs ih =>
    simp only [List.flatMap_cons, List.length_append]
    rcases List.mem_cons.mp h with rfl | h
    · omega
    · have := ih h; omega

theorem getD_deps_length_le (fs : List Fn) (i : Nat) :
    (fs.getD i default).deps.length ≤ (fs.flatMap Fn.deps).length := by
  rcases Nat.lt_or_ge i fs.length with h | h
  · exact deps_length_le_of_mem (getD_mem h)
  · rw [getD_of_ge h]; simp [show (default : Fn).deps = [] from rfl]

theorem fuel_arith (a d s : Nat) : s + a * (d + 1) < (a + 2) * (d + s + 2) := by
  have h1 : (a + 2) * (d + s + 2) = a * d + a * s + 2 * a + 2 * (d + s + 2) := by
    rw [Nat.add_mul, Nat.mul_add, Nat.mul_add]; omega
  have h2 : a * (d + 1) = a * d + a := by rw [Nat.mul_add]; omega
  omega

/-- **`bfs_spec`.**  With the fuel used by `validateFlow`, the walk returns as `missing` exactly the
    types reachable from the sinks that have neither a provider nor a Param, and leaves as unused
    inputs exactly the Params that are not reachable (or that a function also provides). -/
theorem bfs_spec (p : Prog) :
    BfsPost (funcs p) (sinksOf p) p.params
      (bfs (funcs p) (bfsFuel p) (sinksOf p) [] p.params.eraseDups []) := by
  apply bfs_inv (funcs p) (sinksOf p) p.params (allTypes p) ((funcs p).flatMap Fn.deps).length
    (reach_mem_allTypes p) (getD_deps_length_le (funcs p))
  · have : (allTypes p).countP (fun x => !([] : List Ty).contains x) = (allTypes p).length := by
      simp
    rw [this]
    exact fuel_arith _ _ _
  · intro t ht; exact Reach.sink ht
  · intro t ht; simp at ht
  · intro t ht; exact Or.inl ht
  · intro t ht; simp at ht
  · intro x; simp
  · intro x; rw [List.mem_eraseDups]; simp

end Gen
