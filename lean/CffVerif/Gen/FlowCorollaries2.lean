/-
  Flow-level, schedule-universal corollaries (part 2: C11 gate and fallback, C18 events, C04 panic,
  and the non-vacuity example).  See Gen/FlowCorollaries.lean for `RunH` and the C07 part.
-/
import CffVerif.Gen.FlowCorollaries

namespace Gen

open Sched (Ev Outcome Res)

section part2
variable {p : Prog} {sc : Scenario} {c : Sched.Cfg} {acts : List Sched.Act} {s : Sched.State}

/-! ### what an ended task / predicate job is -/

theorem TaskJob.unique (D : Disc p) {t : Task} {j j' : Nat} (h : TaskJob p t j) (h' : TaskJob p t j') : j' = j :=
  job_key_unique D h'.1 h.1 (by rw [h'.2, h.2]) (by rw [h'.2, h.2])

theorem PredJob.unique (D : Disc p) {t : Task} {j j' : Nat} (h : PredJob p t j) (h' : PredJob p t j') : j' = j :=
  job_key_unique D h'.1 h.1 (by rw [h'.2, h.2]) (by rw [h'.2, h.2])

/-- Everything about an ended task job: its replayed result `r`, the reference result `ri`, which is
    the task body on the reference store at that moment and, observably, on the final reference store. -/
theorem RunH.ended_task (H : RunH p sc c acts s) {t : Task} (ht : t ∈ p.tasks) {j : Nat} (hj : TaskJob p t j)
    {o : Outcome} (hend : Ev.ended j o ∈ s.log) :
    ∃ r ri, (j, r) ∈ replayTrace p sc s.log ∧ idealRes p sc j = some ri ∧ SameRes r ri ∧
      (o = Outcome.ok ↔ ri.ret = none) ∧ o ≠ Outcome.goexit ∧
      ri = runTask .std t sc (idealPre p sc j).1 ∧
      SameRes ri (runTask .std t sc (ideal p sc).store) ∧
      (∃ st, r = runTask .std t sc st) := by
  obtain ⟨hjl, r, ri, hr, hri, hsame, hiff, hne, heq, st, hst⟩ := H.ended hend
  have hfin := idealRes_final H.disc sc hjl hri
  rw [runJob_task H.ids ht sc hj.2] at hfin heq hst
  exact ⟨r, ri, hr, hri, hsame, hiff, hne, heq, hfin, st, hst⟩

theorem RunH.ended_pred (H : RunH p sc c acts s) {t : Task} (ht : t ∈ p.tasks) {j : Nat} (hj : PredJob p t j)
    {o : Outcome} (hend : Ev.ended j o ∈ s.log) :
    o = Outcome.ok ∧
    ∃ r ri, (j, r) ∈ replayTrace p sc s.log ∧ idealRes p sc j = some ri ∧ SameRes r ri ∧
      ri = runPred t sc (idealPre p sc j).1 ∧ SameRes ri (runPred t sc (ideal p sc).store) := by
  obtain ⟨hjl, r, ri, hr, hri, hsame, hiff, hne, heq, _⟩ := H.ended hend
  have hfin := idealRes_final H.disc sc hjl hri
  rw [runJob_pred H.ids ht sc hj.2] at hfin heq
  refine ⟨hiff.mpr ?_, r, ri, hr, hri, hsame, heq, hfin⟩
  rw [heq]; exact (runPred_never_fails t sc _).1

theorem runTask_args (t : Task) (sc : Scenario) (s : Store) (h : (runTask .std t sc s).invoked = true) :
    (runTask .std t sc s).args = t.ins.map s.val := by
  revert h
  unfold runTask BodyFlags.std
  cases hp : t.pred <;> cases hpp : s.pPanic t.k <;> cases hq : s.p t.k <;> cases hf : t.fb <;>
    cases ho : sc.fnOut t.k <;> simp

/-- **Arguments, every schedule.**  In every run, a task function that is invoked is invoked on the
    values its input types have in the final reference store (`(ideal p sc).store`), and a
    predicate on the reference values of its input types — whatever the schedule. -/
theorem RunH.task_args (H : RunH p sc c acts s) {u : Task} (hu : u ∈ p.tasks) {ju : Nat} (hju : TaskJob p u ju)
    {o : Outcome} (hend : Ev.ended ju o ∈ s.log) :
    ∃ ru, (ju, ru) ∈ replayTrace p sc s.log ∧
      (ru.invoked = true → ru.args = u.ins.map (ideal p sc).store.val) := by
  obtain ⟨r, ri, hr, _, hsame, _, _, _, hfin, _⟩ := H.ended_task hu hju hend
  refine ⟨r, hr, ?_⟩
  intro hinv
  rw [hsame.2.1, hfin.2.1] at hinv
  rw [hsame.2.2.1, hfin.2.2.1]
  exact runTask_args u sc _ hinv

theorem RunH.pred_args (H : RunH p sc c acts s) {u : Task} (hu : u ∈ p.tasks) {jp : Nat} (hjp : PredJob p u jp)
    {o : Outcome} (hend : Ev.ended jp o ∈ s.log) :
    ∃ rp, (jp, rp) ∈ replayTrace p sc s.log ∧ rp.invoked = true ∧ rp.events = [] ∧
      rp.args = u.pins.map (ideal p sc).store.val := by
  obtain ⟨_, r, ri, hr, _, hsame, _, hfin⟩ := H.ended_pred hu hjp hend
  refine ⟨r, hr, ?_, ?_, ?_⟩
  · rw [hsame.2.1, hfin.2.1]; exact (runPred_never_fails u sc _).2.2.1
  · rw [hsame.2.2.2, hfin.2.2.2]; unfold runPred; cases sc.predOut u.k <;> rfl
  · rw [hsame.2.2.1, hfin.2.2.1]; exact (runPred_never_fails u sc _).2.2.2

/-- The predicate job of a predicated task is a dependency of its task job. -/
theorem predJob_dep (H : RunH p sc c acts s) {t : Task} (ht : t ∈ p.tasks) (hp : t.pred = true)
    {j jp : Nat} (hj : TaskJob p t j) (hjp : PredJob p t jp) : jp ∈ c.depsOf j := by
  rw [depsOf_cfg H.deps hj.1]
  apply H.disc.readDep jp j (Var.p t.k) hjp.1 hj.1
  · rw [(writes_task H.ids ht hj.2).2]; simp [taskReads, hp]
  · rw [(writes_pred H.ids ht hjp.2).1]; simp [predWrites]

/-! ### C11 — the gate, for every schedule -/

/-- **C11 gate, every schedule.**  Accepted flow, nothing fails (`NoFailure`), any run of the
    scheduler (any interleaving, worker count, either error mode, cancellation …).  Every listed
    task `t` has exactly one task job `j`; it is started at most once and ends at most once; if it
    ended, it returned nil and

    * if `t` has a predicate that returns false, the function of `t` was **not** invoked;
    * otherwise it **was** invoked, with the arguments `t.ins.map (valueOf p sc (p.tasks.length + 1))`
      — the declarative denotation, the same for every schedule.

    If `t` has a predicate, there is exactly one predicate job `jp`; it is started at most once and
    ends at most once (the predicate is evaluated at most once), if it ended the predicate was
    called with `t.pins.map (valueOf …)`, and the task job starts only after it ended. -/
theorem C11_gate_every_schedule (H : RunH p sc c acts s) (hnf : NoFailure p sc) (t : Task) (ht : t ∈ p.tasks) :
    ∃ j, TaskJob p t j ∧ (∀ j', TaskJob p t j' → j' = j) ∧
      s.log.countP (Ev.isEndedOf j) ≤ 1 ∧ s.log.count (Ev.started j) ≤ 1 ∧
      (∀ o, Ev.ended j o ∈ s.log → o = Outcome.ok ∧
        ∃ r, (j, r) ∈ replayTrace p sc s.log ∧ r.ret = none ∧
          ((t.pred && sc.predOut t.k == .f) = true → r.invoked = false) ∧
          ((t.pred && sc.predOut t.k == .f) = false →
            r.invoked = true ∧ r.args = t.ins.map (valueOf p sc (p.tasks.length + 1)))) ∧
      (t.pred = true → ∃ jp, PredJob p t jp ∧ (∀ j', PredJob p t j' → j' = jp) ∧
        s.log.countP (Ev.isEndedOf jp) ≤ 1 ∧ s.log.count (Ev.started jp) ≤ 1 ∧
        (Ev.started j ∈ s.log → Ev.ended jp Outcome.ok ∈ s.log) ∧
        (∀ o, Ev.ended jp o ∈ s.log → o = Outcome.ok ∧
          ∃ r, (jp, r) ∈ replayTrace p sc s.log ∧ r.ret = none ∧ r.invoked = true ∧
            r.args = t.pins.map (valueOf p sc (p.tasks.length + 1)))) := by
  obtain ⟨j, hj, hfn, _, ri, hri, hret, _, _, g1, g2⟩ :=
    ideal_calls p sc H.acc H.small H.ids hnf _ (Nat.le_refl _) t ht
  have htj : TaskJob p t j := ⟨hj, hfn⟩
  have hone := Sched.C08_one_result_per_job c H.wiring H.wf acts s H.run
  refine ⟨j, htj, fun j' h' => htj.unique H.disc h', (hone j).2.2.1,
    Sched.C01_at_most_once c H.wiring H.wf acts s H.run j, ?_, ?_⟩
  · intro o hend
    obtain ⟨_, r, ri', hr, hri', hsame, hiff, _⟩ := H.ended hend
    rw [hri] at hri'
    cases hri'
    refine ⟨hiff.mpr hret, r, hr, hsame.1.trans hret, ?_, ?_⟩
    · intro hg; rw [hsame.2.1]; exact (g1 hg).1
    · intro hg
      obtain ⟨m1, m2, _⟩ := g2 hg
      exact ⟨hsame.2.1.trans m1, hsame.2.2.1.trans m2⟩
  · intro hp
    obtain ⟨jp, hjp, hfp, _, rp, hrp, hpret, hpinv, hpargs, _⟩ :=
      ideal_pred_calls p sc H.acc H.small H.ids hnf _ (Nat.le_refl _) t ht hp
    have htp : PredJob p t jp := ⟨hjp, hfp⟩
    refine ⟨jp, htp, fun j' h' => htp.unique H.disc h', (hone jp).2.2.1,
      Sched.C01_at_most_once c H.wiring H.wf acts s H.run jp, ?_, ?_⟩
    · intro hst
      obtain ⟨i, hi⟩ := List.mem_iff_getElem?.mp hst
      obtain ⟨k, _, hk⟩ := Sched.C01_deps_before_start c H.wiring H.wf acts s H.run i j hi jp
        (predJob_dep H ht hp htj htp)
      exact List.mem_of_getElem? hk
    · intro o hend
      obtain ⟨_, r, ri', hr, hri', hsame, hiff, _⟩ := H.ended hend
      rw [hrp] at hri'
      cases hri'
      exact ⟨hiff.mpr hpret, r, hr, hsame.1.trans hpret, hsame.2.1.trans hpinv, hsame.2.2.1.trans hpargs⟩

/-! ### C11 — FallbackWith, for every schedule -/

/-- **C11 fallback, every schedule.**  Accepted flow, any run.  Let `t` be a listed task with
    FallbackWith whose predicate panics in `sc`, or whose gate is open (no predicate, or the
    predicate returns true) and whose function returns an error or panics in `sc`.  Whenever the
    task job of `t` ended in the run: it ended `ok` — the body returned nil —; every output variable
    of `t` holds the corresponding fallback value at the end of the run, and so it does in the
    reference execution; and every task function / predicate invoked in the run — in particular the
    consumers of `t`'s outputs — is invoked on the values of the reference store, i.e. sees the
    fallback values. -/
theorem C11_fallback_every_schedule (H : RunH p sc c acts s) {t : Task} (ht : t ∈ p.tasks) (hfb : t.fb = true)
    (hbad : (t.pred = true ∧ sc.predOut t.k = .panic) ∨
            ((t.pred = true → sc.predOut t.k = .t) ∧ sc.fnOut t.k ≠ .ok))
    {j : Nat} (hj : TaskJob p t j) {o : Outcome} (hend : Ev.ended j o ∈ s.log) :
    o = Outcome.ok ∧
    (∃ r, (j, r) ∈ replayTrace p sc s.log ∧ r.ret = none ∧ r.crashed = false) ∧
    (∀ τ ∈ t.outs, (replay p sc s.log).1.val τ = fallbackVal t.k (t.outs.idxOf τ) ∧
                   (ideal p sc).store.val τ = fallbackVal t.k (t.outs.idxOf τ)) ∧
    (∀ u ∈ p.tasks, ∀ ju, TaskJob p u ju → ∀ o', Ev.ended ju o' ∈ s.log →
      ∃ ru, (ju, ru) ∈ replayTrace p sc s.log ∧
        (ru.invoked = true → ru.args = u.ins.map (ideal p sc).store.val)) ∧
    (∀ u ∈ p.tasks, ∀ jp, PredJob p u jp → ∀ o', Ev.ended jp o' ∈ s.log →
      ∃ rp, (jp, rp) ∈ replayTrace p sc s.log ∧ rp.args = u.pins.map (ideal p sc).store.val) := by
  have D := H.disc
  obtain ⟨r, ri, hr, hri, hsame, hiff, _, heq, _, st, hst⟩ := H.ended_task ht hj hend
  -- the failure, on the reference store at the moment the job runs
  have hbad' : (t.pred = true ∧ (idealPre p sc j).1.pPanic t.k = true) ∨
      (gateOpen t (idealPre p sc j).1 = true ∧ sc.fnOut t.k ≠ .ok) := by
    rcases hbad with ⟨hp, hpo⟩ | ⟨hpo, hfo⟩
    · obtain ⟨_, g2, _⟩ := ideal_gate_vars D H.acyclic H.ids sc ht hp hj.1 hj.2 hri
      exact Or.inl ⟨hp, by rw [g2, hpo]; rfl⟩
    · refine Or.inr ⟨?_, hfo⟩
      unfold gateOpen
      cases hp : t.pred with
      | false => rfl
      | true =>
        obtain ⟨g1, g2, _⟩ := ideal_gate_vars D H.acyclic H.ids sc ht hp hj.1 hj.2 hri
        rw [g1, g2, hpo hp]; rfl
  obtain ⟨f1, f2⟩ := runTask_fallback t sc (idealPre p sc j).1 hfb hbad'
  have hrinone : ri.ret = none := by rw [heq]; exact f1
  have hvals : ∀ τ ∈ t.outs, (ideal p sc).store.val τ = fallbackVal t.k (t.outs.idxOf τ) := by
    intro τ hτ
    have hx : Var.val τ ∈ writesAt p j := by rw [(writes_task H.ids ht hj.2).1]; simp [taskWrites, hτ]
    have h1 := final_written D sc hj.1 hx
    obtain ⟨_, hready⟩ := idealRes_some_spec p sc hj.1 hri
    have hstep := ((ideal_step_spec p sc hj.1).1 hready).2
    rw [runJob_task H.ids ht sc hj.2] at hstep
    rw [(ideal_eq p sc).1]
    have h2 : (idealTr p sc).1.val τ = (idealPre p sc (j + 1)).1.val τ := h1
    rw [h2, hstep, f2]
    exact setVals_val_idx t.outs _ (fallbackVal t.k) τ (outs_nodup (accept_facts p H.acc) ht) hτ
  refine ⟨hiff.mpr hrinone, ⟨r, hr, hsame.1.trans hrinone, ?_⟩, ?_, ?_, ?_⟩
  · rw [hst]; exact runTask_no_crash t sc st
  · intro τ hτ
    have hx : Var.val τ ∈ writesAt p j := by rw [(writes_task H.ids ht hj.2).1]; simp [taskWrites, hτ]
    have := (schedule_independent p sc H.acc H.small H.ids c H.deps H.wiring H.workers acts s H.run
      H.cons).2.1 j o hend _ hx
    have h' : (replay p sc s.log).1.val τ = (ideal p sc).store.val τ := this
    exact ⟨h'.trans (hvals τ hτ), hvals τ hτ⟩
  · intro u hu ju hju o' ho'
    exact H.task_args hu hju ho'
  · intro u hu jp hjp o' ho'
    obtain ⟨rp, h1, _, _, h2⟩ := H.pred_args hu hjp ho'
    exact ⟨rp, h1, h2⟩

/-! ### C18 — the events of a task, for every schedule -/

/-- **C18 task events, every schedule.**  Accepted flow, any run.  For every task job that ended in
    the run, the events its body sent to the task's emitter are exactly those of the reference
    execution (`r.events = ri.events`, `ri` being the task body on the reference store), hence:

    * if the function was invoked: exactly one outcome event, matching what the function did in
      `sc` (TaskSuccess / TaskError[Recovered] / TaskPanic[Recovered], `Recovered` only with
      FallbackWith), followed by exactly one TaskDone;
    * if it was not invoked: no TaskDone; nothing at all, or — only when the task's predicate
      panicked — the single TaskPanic (no FallbackWith) / TaskPanicRecovered (FallbackWith) event. -/
theorem C18_task_events_every_schedule (H : RunH p sc c acts s) {t : Task} (ht : t ∈ p.tasks)
    {j : Nat} (hj : TaskJob p t j) {o : Outcome} (hend : Ev.ended j o ∈ s.log) :
    ∃ r ri, (j, r) ∈ replayTrace p sc s.log ∧ idealRes p sc j = some ri ∧ SameRes r ri ∧
      ri = runTask .std t sc (idealPre p sc j).1 ∧
      r.events = (runTask .std t sc (ideal p sc).store).events ∧
      (r.invoked = true →
        ∃ kind cls, r.events = [(kind, cls), ("TaskDone", "-")] ∧ isOutcomeKind kind = true ∧
          (kind = "TaskSuccess" ↔ sc.fnOut t.k = .ok) ∧
          ((kind = "TaskError" ∨ kind = "TaskErrorRecovered") ↔ sc.fnOut t.k = .err) ∧
          ((kind = "TaskPanic" ∨ kind = "TaskPanicRecovered") ↔ sc.fnOut t.k = .panic) ∧
          ((kind = "TaskErrorRecovered" ∨ kind = "TaskPanicRecovered") → t.fb = true)) ∧
      (r.invoked = false →
        ("TaskDone", "-") ∉ r.events ∧
        (r.events = [] ∨
         (∃ cls, r.events = [("TaskPanic", cls)] ∧ t.fb = false ∧ t.pred = true ∧ sc.predOut t.k = .panic) ∨
         (∃ cls, r.events = [("TaskPanicRecovered", cls)] ∧ t.fb = true ∧ t.pred = true ∧
            sc.predOut t.k = .panic))) := by
  obtain ⟨r, ri, hr, hri, hsame, _, _, heq, hfin, _⟩ := H.ended_task ht hj hend
  have hev : r.events = (runTask .std t sc (ideal p sc).store).events := hsame.2.2.2.trans hfin.2.2.2
  have hinv : r.invoked = gateOpen t (ideal p sc).store := by
    rw [hsame.2.1, hfin.2.1]; exact runTask_invoked_iff t sc _
  refine ⟨r, ri, hr, hri, hsame, heq, hev, ?_, ?_⟩
  · intro h
    rw [hev]
    exact runTask_events_invoked t sc _ (hinv ▸ h)
  · intro h
    have hg : gateOpen t (ideal p sc).store = false := hinv ▸ h
    have hpred : (ideal p sc).store.pPanic t.k = true → t.pred = true ∧ sc.predOut t.k = .panic := by
      intro hpp
      have hp : t.pred = true := by
        cases hp : t.pred with
        | true => rfl
        | false => unfold gateOpen at hg; simp [hp] at hg
      obtain ⟨_, _, _, g4⟩ := ideal_gate_vars H.disc H.acyclic H.ids sc ht hp hj.1 hj.2 hri
      rw [g4] at hpp
      exact ⟨hp, by simpa using hpp⟩
    rw [hev]
    rcases runTask_events_not_invoked t sc _ hg with h0 | ⟨cls, h1, h2, h3⟩ | ⟨cls, h1, h2, h3⟩
    · rw [h0]; exact ⟨by simp, Or.inl rfl⟩
    · rw [h1]
      obtain ⟨a, b⟩ := hpred h3
      exact ⟨by simp, Or.inr (Or.inl ⟨cls, rfl, h2, a, b⟩)⟩
    · rw [h1]
      obtain ⟨a, b⟩ := hpred h3
      exact ⟨by simp, Or.inr (Or.inr ⟨cls, rfl, h2, a, b⟩)⟩

/-- A predicate job sends no event (predicates are not instrumented), in every run. -/
theorem C18_pred_no_events (H : RunH p sc c acts s) {t : Task} (ht : t ∈ p.tasks)
    {jp : Nat} (hjp : PredJob p t jp) {o : Outcome} (hend : Ev.ended jp o ∈ s.log) :
    ∃ rp, (jp, rp) ∈ replayTrace p sc s.log ∧ rp.events = [] := by
  obtain ⟨rp, h1, _, h2, _⟩ := H.pred_args ht hjp hend
  exact ⟨rp, h1, h2⟩

/-- **C18 closing events, nil return.**  Fail-fast, every job submitted, `Wait` returned nil: the
    closure's epilogue (Results copy, FlowSuccess, the TaskSkipped sweep, FlowDone) is that of the
    reference execution: `flowEnd p [] (ideal p sc).store` — the same for every schedule —; in
    particular TaskSkipped is reported exactly for the instrumented tasks that did not run in the
    reference execution. -/
theorem C18_flow_end_nil (H : RunH p sc c acts s) (hcoe : c.coe = false)
    (hnil : Ev.waitReturned [] ∈ s.log) (hall : s.caller.sent = (genJobs p).length) :
    flowEnd p [] (replay p sc s.log).1 = flowEnd p [] (ideal p sc).store ∧
    (flowEnd p [] (replay p sc s.log).1).events.filter (fun e => !DEv.isDirective e) =
      ((instrTasksInOrder p).filter fun k => !(ideal p sc).store.ran k).map (skippedEv "nil") ∧
    (flowEnd p [] (replay p sc s.log).1).events.filter DEv.isDirective =
      (if p.instrDir then [("FlowSuccess", -1, "-"), ("FlowDone", -1, "-")] else []) := by
  have h1 := (flow_refines_ideal p sc H.acc H.small H.ids c H.deps H.wiring H.workers acts s H.run H.cons
    hcoe hnil hall).1
  rw [h1]
  exact ⟨rfl, flowEnd_skipped p [] _, flowEnd_directive_events p [] _⟩

/-! ### C04 — a panicking task, for every schedule -/

/-- **C04 panic, every schedule.**  Accepted flow, any run.  Let `t` be a listed task without
    FallbackWith whose function panics in `sc` and whose gate is open in the reference execution.
    Whenever the task job of `t` ended in the run: the panic did not escape (`crashed = false`), the
    function had been invoked, the outcome is `fail e` for some error value `e`, and the error the
    body returned — in this run and in the reference execution — is exactly the PanicError entry
    `panic:{t.k}:{class}`.  In fail-fast mode, if `Wait` returned `[fail e]` where `e` is the error
    value of this job (`Ev.ended j (fail e)`), the flow returns exactly this PanicError
    (`flowEnd … .ret`), and no Results target is written. -/
theorem C04_flow_panic_every_schedule (H : RunH p sc c acts s) {t : Task} (ht : t ∈ p.tasks)
    (hpanic : sc.fnOut t.k = .panic) (hfb : t.fb = false) (hgate : gateOpen t (ideal p sc).store = true)
    {j : Nat} (hj : TaskJob p t j) {o : Outcome} (hend : Ev.ended j o ∈ s.log) :
    (∃ e, o = Outcome.fail e) ∧
    ∃ r ri, (j, r) ∈ replayTrace p sc s.log ∧ idealRes p sc j = some ri ∧
      r.ret = some s!"panic:{t.k}:{sc.vclass 't' t.k 0}" ∧
      ri.ret = some s!"panic:{t.k}:{sc.vclass 't' t.k 0}" ∧
      r.crashed = false ∧ r.invoked = true ∧
      r.events = [("TaskPanic", s!"panic:{t.k}:{sc.vclass 't' t.k 0}"), ("TaskDone", "-")] ∧
      (c.coe = false → ∀ e, Ev.waitReturned [Res.fail e] ∈ s.log → Ev.ended j (Outcome.fail e) ∈ s.log →
        o = Outcome.fail e ∧
        (flowEnd p [s!"panic:{t.k}:{sc.vclass 't' t.k 0}"] (replay p sc s.log).1).ret =
          r.ret.toList ∧
        (flowEnd p [s!"panic:{t.k}:{sc.vclass 't' t.k 0}"] (replay p sc s.log).1).written = []) := by
  obtain ⟨r, ri, hr, hri, hsame, hiff, hne, _, hfin, st, hst⟩ := H.ended_task ht hj hend
  have hret : ri.ret = some s!"panic:{t.k}:{sc.vclass 't' t.k 0}" := by
    rw [hfin.1]; exact runTask_panic_error t sc _ hgate hpanic hfb
  have hrret : r.ret = some s!"panic:{t.k}:{sc.vclass 't' t.k 0}" := hsame.1.trans hret
  have hinv : r.invoked = true := by
    rw [hsame.2.1, hfin.2.1, runTask_invoked_iff]; exact hgate
  have hev : r.events = [("TaskPanic", s!"panic:{t.k}:{sc.vclass 't' t.k 0}"), ("TaskDone", "-")] := by
    rw [hsame.2.2.2, hfin.2.2.2]
    revert hgate
    unfold gateOpen runTask BodyFlags.std
    cases hp : t.pred <;> cases hpp : (ideal p sc).store.pPanic t.k <;> cases hq : (ideal p sc).store.p t.k <;>
      simp [hfb, hpanic]
  have hno : o ≠ Outcome.ok := by
    intro h
    have := hiff.mp h
    rw [hret] at this
    cases this
  refine ⟨?_, r, ri, hr, hri, hrret, hret, ?_, hinv, hev, ?_⟩
  · cases o with
    | ok => exact absurd rfl hno
    | fail e => exact ⟨e, rfl⟩
    | goexit => exact absurd rfl hne
  · rw [hst]; exact runTask_no_crash t sc st
  · intro _ e _ he
    refine ⟨H.ended_unique hend he, ?_, ?_⟩
    · rw [hrret]; rfl
    · exact (flowEnd_results p _ _).1 (by simp)

end part2

/-! ### non-vacuity: the failing run of Gen/ComposeExample.lean (fail-fast, two workers)

  `Gen.Example.prog` with task 0 returning an error (`scFail`), run `actsFail`: the predicate of
  task 1 (job 1) and task 1 (job 2) end `ok` on worker 1, then task 0 (job 0) ends with `fail 7`
  on worker 0; `Wait` returns `[fail 7]`.  Jobs 3 (task 2, which consumes task 0's output) and 4
  (task 3, which consumes task 2's) are never started. -/

namespace Example

open Gen Sched

def scFail : Scenario := { fn := [(0, .err)] }

/-- The hypotheses of the flow-level theorems hold for the failing run (checked by `decide`), and
    so do — checked independently by `decide` — the facts the theorems conclude. -/
theorem runFail_facts :
    ∃ s, run cfg (init cfg) actsFail = some s ∧ (replay prog scFail s.log).2 = true ∧
      Ev.waitReturned [Res.fail 7] ∈ s.log ∧ Ev.ended 0 (Outcome.fail 7) ∈ s.log ∧
      0 ∈ cfg.depsOf 3 ∧ 3 ∈ cfg.depsOf 4 ∧
      Ev.started 3 ∉ s.log ∧ Ev.started 4 ∉ s.log ∧
      (jobAt prog 0).fn = t0.fn ∧ (jobAt prog 3).fn = t2.fn ∧ (jobAt prog 4).fn = t3.fn ∧
      (idealRes prog scFail 0).map (·.ret) = some (some "err:0") ∧
      (replayTrace prog scFail s.log).map (fun x => (x.1, x.2.ret)) =
        [(1, none), (2, none), (0, some "err:0")] := by
  decide

theorem runFail_H : ∃ s, RunH prog scFail cfg actsFail s ∧
    Ev.waitReturned [Res.fail 7] ∈ s.log ∧ Ev.ended 0 (Outcome.fail 7) ∈ s.log := by
  obtain ⟨s, hr, hcons, hw, he, _⟩ := runFail_facts
  exact ⟨s, ⟨prog_accepted, prog_small, prog_ids, rfl, rfl, by decide, hr, hcons⟩, hw, he⟩

/-- `C07_flow_error_real` applied to the failing run: the hypotheses are satisfiable, and the
    conclusion is the `fail` branch — the single entry is the error value of a task job that failed
    with its own error. -/
theorem runFail_error_real : ∃ s, run cfg (init cfg) actsFail = some s ∧
    ∃ j e, Ev.waitReturned [Res.fail e] ∈ s.log ∧ Ev.ended j (Outcome.fail e) ∈ s.log ∧
      FailedTask prog scFail s.log j := by
  obtain ⟨s, H, hw, _⟩ := runFail_H
  obtain ⟨x, hx, _, _, _, h | ⟨j, e, h1, h2, h3, _⟩⟩ :=
    C07_flow_error_real H rfl [Res.fail 7] hw (by simp)
  · cases hx; cases h.1
  · cases hx; cases h1
    exact ⟨s, H.run, j, 7, hw, h2, h3⟩

/-- `C07_flow_no_downstream` and its task-level form applied to the failing run: job 0 (task 0)
    failed, so jobs 3 and 4 — tasks 2 and 3, which consume task 0's output directly and through
    task 2 — never start. -/
theorem runFail_no_downstream : ∃ s, run cfg (init cfg) actsFail = some s ∧
    Anc cfg 3 0 ∧ Anc cfg 4 0 ∧ Consumes prog t2 t0 ∧ Consumes prog t3 t0 ∧
    Ev.started 3 ∉ s.log ∧ Ev.started 4 ∉ s.log := by
  obtain ⟨s, H, _, he⟩ := runFail_H
  have a3 : Anc cfg 3 0 := Anc.direct (by decide)
  have a4 : Anc cfg 4 0 := Anc.step (d := 3) (by decide) a3
  have c2 : Consumes prog t2 t0 :=
    Consumes.direct (by decide) (by decide) ⟨2, by decide, Or.inl (by decide)⟩
  have c3 : Consumes prog t3 t0 :=
    Consumes.step (v := t2) (by decide) (by decide) ⟨4, by decide, Or.inl (by decide)⟩ c2
  have hj0 : TaskJob prog t0 0 := ⟨by decide, by decide⟩
  have hj4 : TaskJob prog t3 4 := ⟨by decide, by decide⟩
  exact ⟨s, H.run, a3, a4, c2, c3,
    ((C07_flow_no_downstream H 0 _ he (by simp)).2 3 a3).1,
    (C07_flow_no_downstream_tasks H c3 hj0 hj4 he (by simp)).1⟩

/-! Further non-vacuity checks (hypotheses of items 3, 4, 6 are satisfiable; the concluded facts
    are confirmed independently by `decide`). -/

/-- Item 3: the nil run of Gen/ComposeExample.lean satisfies `RunH` and `NoFailure`; the predicate
    returns false in `scPredF`, and task 1's function is not invoked while task 0's is. -/
def scPredF : Scenario := { pred := [(1, .f)] }

theorem runNil_gate : ∃ s, RunH prog scPredF cfg acts s ∧ NoFailure prog scPredF ∧
    Ev.ended 2 Outcome.ok ∈ s.log ∧ TaskJob prog t1 2 ∧
    (replayTrace prog scPredF s.log).map (fun x => (x.1, x.2.invoked)) =
      [(1, true), (2, false), (0, true), (3, true), (4, true)] := by
  have h : ∃ s, run cfg (init cfg) acts = some s ∧ (replay prog scPredF s.log).2 = true ∧
      Ev.ended 2 Outcome.ok ∈ s.log ∧ TaskJob prog t1 2 ∧
      (replayTrace prog scPredF s.log).map (fun x => (x.1, x.2.invoked)) =
        [(1, true), (2, false), (0, true), (3, true), (4, true)] := by
    unfold TaskJob; decide
  obtain ⟨s, hr, hcons, h1, h2, h3⟩ := h
  exact ⟨s, ⟨prog_accepted, prog_small, prog_ids, rfl, rfl, by decide, hr, hcons⟩, by decide, h1, h2, h3⟩

/-- Item 6: the failing run with task 0 panicking instead (`scPanic`): the job returns the
    PanicError entry `panic:0:str`. -/
def scPanic : Scenario := { fn := [(0, .panic)] }

theorem runFail_panic : ∃ s, RunH prog scPanic cfg actsFail s ∧ Ev.ended 0 (Outcome.fail 7) ∈ s.log ∧
    scPanic.fnOut t0.k = .panic ∧ t0.fb = false ∧ gateOpen t0 (ideal prog scPanic).store = true ∧
    TaskJob prog t0 0 ∧ Ev.waitReturned [Res.fail 7] ∈ s.log ∧
    (replayTrace prog scPanic s.log).map (fun x => (x.1, x.2.ret)) =
      [(1, none), (2, none), (0, some "panic:0:str")] := by
  have h : ∃ s, run cfg (init cfg) actsFail = some s ∧ (replay prog scPanic s.log).2 = true ∧
      Ev.ended 0 (Outcome.fail 7) ∈ s.log ∧
      scPanic.fnOut t0.k = .panic ∧ t0.fb = false ∧ gateOpen t0 (ideal prog scPanic).store = true ∧
      TaskJob prog t0 0 ∧ Ev.waitReturned [Res.fail 7] ∈ s.log ∧
      (replayTrace prog scPanic s.log).map (fun x => (x.1, x.2.ret)) =
        [(1, none), (2, none), (0, some "panic:0:str")] := by
    unfold TaskJob; decide
  obtain ⟨s, hr, hcons, h1⟩ := h
  exact ⟨s, ⟨prog_accepted, prog_small, prog_ids, rfl, rfl, by decide, hr, hcons⟩, h1⟩

/-- Item 4: the same diamond with FallbackWith on task 0, whose function returns an error
    (`scFail`); the nil run `acts`: task 0's job ends `ok`, its output (type 2) holds the fallback
    value, and task 2 is called with it. -/
def t0fb : Task := { t0 with fb := true, err := true }
def progFb : Prog := { prog with tasks := [t2, t0fb, t3, t1] }

theorem runNil_fallback : ∃ s, RunH progFb scFail cfg acts s ∧ Ev.ended 0 Outcome.ok ∈ s.log ∧
    TaskJob progFb t0fb 0 ∧ t0fb.fb = true ∧ scFail.fnOut t0fb.k ≠ .ok ∧
    (replay progFb scFail s.log).1.val 2 = fallbackVal 0 0 ∧
    ((replayTrace progFb scFail s.log).map (fun x => (x.1, x.2.args)))[3]? =
      some (3, [fallbackVal 0 0, (ideal progFb scFail).store.val 3]) := by
  have h : ∃ s, run cfg (init cfg) acts = some s ∧ (replay progFb scFail s.log).2 = true ∧
      validateFlow progFb = [] ∧ cfg.deps = (genJobs progFb).map (·.deps) ∧
      Ev.ended 0 Outcome.ok ∈ s.log ∧
      TaskJob progFb t0fb 0 ∧ t0fb.fb = true ∧ scFail.fnOut t0fb.k ≠ .ok ∧
      (replay progFb scFail s.log).1.val 2 = fallbackVal 0 0 ∧
      ((replayTrace progFb scFail s.log).map (fun x => (x.1, x.2.args)))[3]? =
        some (3, [fallbackVal 0 0, (ideal progFb scFail).store.val 3]) := by
    unfold TaskJob; decide
  obtain ⟨s, hr, hcons, hacc, hdeps, h1⟩ := h
  exact ⟨s, ⟨hacc, by unfold SmallTypes; decide, by unfold DistinctIds; decide, hdeps, rfl, by decide, hr, hcons⟩, h1⟩

/-- The three theorems applied to these runs. -/
theorem runs_applied :
    (∃ s r, run cfg (init cfg) acts = some s ∧ (2, r) ∈ replayTrace prog scPredF s.log ∧ r.invoked = false) ∧
    (∃ s r, run cfg (init cfg) actsFail = some s ∧ (0, r) ∈ replayTrace prog scPanic s.log ∧
      r.ret = some s!"panic:{t0.k}:{scPanic.vclass 't' t0.k 0}" ∧ r.crashed = false) ∧
    (∃ s, run cfg (init cfg) acts = some s ∧
      (replay progFb scFail s.log).1.val 2 = fallbackVal t0fb.k (t0fb.outs.idxOf 2)) := by
  refine ⟨?_, ?_, ?_⟩
  · obtain ⟨s, H, hnf, hend, hj, _⟩ := runNil_gate
    obtain ⟨j, hj', _, _, _, hgate, _⟩ := C11_gate_every_schedule H hnf t1 (by decide)
    have : 2 = j := TaskJob.unique H.disc hj' hj
    subst this
    obtain ⟨_, r, hr, _, h1, _⟩ := hgate _ hend
    exact ⟨s, r, H.run, hr, h1 (by decide)⟩
  · obtain ⟨s, H, hend, h1, h2, h3, hj, _⟩ := runFail_panic
    obtain ⟨_, r, _, hr, _, hret, _, hcr, _⟩ :=
      C04_flow_panic_every_schedule H (t := t0) (by decide) h1 h2 h3 hj hend
    exact ⟨s, r, H.run, hr, hret, hcr⟩
  · obtain ⟨s, H, hend, hj, hfb, hbad, _⟩ := runNil_fallback
    obtain ⟨_, _, hv, _⟩ := C11_fallback_every_schedule H (t := t0fb) (by decide) hfb
      (Or.inr ⟨by decide, hbad⟩) hj hend
    exact ⟨s, H.run, (hv 2 (by decide)).1⟩

end Example

end Gen
