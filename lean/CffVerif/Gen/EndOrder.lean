/-
  Two more facts about the scheduler's log, needed to read a valid execution order off it:
  every `ended j` is preceded (at a smaller index) by `started j`, and only submitted jobs end.
-/
import CffVerif.Properties

namespace Sched

open Loop

structure EndInv (s : State) : Prop where
  /-- a worker slot only ever holds a submitted job -/
  slot : ∀ (w : Nat) (x : W) (j : Nat), s.ws[w]? = some x → W.job? x = some j → j < s.caller.sent
  endedLt : ∀ j o, Ev.ended j o ∈ s.log → j < s.caller.sent
  endedAfter : ∀ (i j : Nat) (o : Outcome), s.log[i]? = some (Ev.ended j o) → ∃ k, k < i ∧ s.log[k]? = some (Ev.started j)

theorem endInv_init (c : Cfg) : EndInv (init c) := by
  refine ⟨?_, ?_, ?_⟩
  · intro w x j h hj
    simp only [init] at h
    obtain ⟨_, h⟩ := List.getElem?_eq_some_iff.mp h
    simp at h; subst h; simp [W.job?] at hj
  · intro j o h; simp [init] at h
  · intro i j o h; simp [init] at h

/-- The general preservation argument. -/
theorem endInv_gen {s s' : State} {es : List Ev} (h : EndInv s)
    (hws : ∀ (w : Nat) (x : W), s'.ws[w]? = some x → s.ws[w]? = some x ∨ ∀ j, W.job? x = some j → j < s'.caller.sent)
    (hsent : s.caller.sent ≤ s'.caller.sent) (hlog : s'.log = s.log ++ es)
    (hes : ∀ j o, Ev.ended j o ∈ es → j < s'.caller.sent ∧ Ev.started j ∈ s.log) : EndInv s' := by
  refine ⟨?_, ?_, ?_⟩
  · intro w x j hx hj
    rcases hws w x hx with h' | h'
    · exact Nat.lt_of_lt_of_le (h.slot w x j h' hj) hsent
    · exact h' j hj
  · intro j o hm
    rw [hlog] at hm
    rcases List.mem_append.mp hm with hm | hm
    · exact Nat.lt_of_lt_of_le (h.endedLt j o hm) hsent
    · exact (hes j o hm).1
  · intro i j o hi
    rw [hlog] at hi ⊢
    by_cases hlt : i < s.log.length
    · rw [List.getElem?_append_left hlt] at hi
      obtain ⟨k, hk, hk2⟩ := h.endedAfter i j o hi
      exact ⟨k, hk, by rw [List.getElem?_append_left (by omega)]; exact hk2⟩
    · rw [List.getElem?_append_right (by omega)] at hi
      obtain ⟨k, hk⟩ := List.mem_iff_getElem?.mp (hes j o (List.mem_of_getElem? hi)).2
      have hkl : k < s.log.length := (List.getElem?_eq_some_iff.mp hk).1
      exact ⟨k, by omega, by rw [List.getElem?_append_left hkl]; exact hk⟩

theorem set_slot {s : State} {bound : Nat} {w : Nat} {y : W} (hy : ∀ j, W.job? y = some j → j < bound) :
    ∀ (w' : Nat) (x : W), (s.ws.set w y)[w']? = some x → s.ws[w']? = some x ∨ ∀ j, W.job? x = some j → j < bound := by
  intro w' x hx
  rcases getElem?_set_cases hx with ⟨_, rfl⟩ | ⟨_, h⟩
  · exact Or.inr hy
  · exact Or.inl h

theorem endInv_step {c : Cfg} (hw : c.wiring = Wiring.std) {s s' : State} {a : Act}
    (R : Reach2 c s) (h : EndInv s) (hs : step c s a = some s') : EndInv s' := by
  have same : ∀ (w : Nat) (x : W), s.ws[w]? = some x → s.ws[w]? = some x ∨ ∀ j, W.job? x = some j → j < s.caller.sent :=
    fun w x hx => Or.inl hx
  cases a with
  | callerSend =>
    obtain ⟨_, _, _, _, rfl⟩ := inv_callerSend hs
    exact endInv_gen (es := [.sent s.caller.sent]) h (fun w x hx => Or.inl (by simpa using hx))
      (by simp) (by simp) (by simp)
  | callerClose =>
    obtain ⟨_, _, rfl⟩ := inv_callerClose hs
    exact endInv_gen (es := []) h same (Nat.le_refl _) (by simp) (by simp)
  | callerRetCtx =>
    obtain ⟨_, _, _, rfl⟩ := inv_callerRetCtx hw hs
    exact endInv_gen (es := [.waitReturned [.ctxErr]]) h same (Nat.le_refl _) (by simp) (by simp)
  | callerRetFin =>
    obtain ⟨_, _, _, rfl⟩ := inv_callerRetFin hs
    exact endInv_gen (es := [.waitReturned (retVal c s)]) h same (Nat.le_refl _) (by simp) (by simp)
  | loopEnq =>
    obtain ⟨j, rest, _, _, _, rfl⟩ := inv_loopEnq hs
    exact endInv_gen (es := [.registered j]) h same (Nat.le_refl _) (by simp) (by simp)
  | loopEnqClosed =>
    obtain ⟨_, _, _, _, rfl⟩ := inv_loopEnqClosed hs
    exact endInv_gen (es := []) h same (Nat.le_refl _) (by simp) (by simp)
  | loopDispatch w =>
    obtain ⟨j, l, hph, _, hd, rfl⟩ := inv_loopDispatch hs
    have hjl : j < s.loop.jobs.length := (core_dispatch (R.r.i1.core hph) hd).2.1
    have hfifo := (R.r.i1.fifo hph).2
    have hjs : j < s.caller.sent := by omega
    refine endInv_gen (es := [.dispatched j]) h ?_ (Nat.le_refl _) (by simp) (by simp)
    intro w' x hx
    simp only [addLog_ws, setW_ws, addLog_caller, setW_caller] at hx ⊢
    exact set_slot (y := .holding j) (by intro k hk; simp [W.job?] at hk; omega) w' x hx
  | loopResult =>
    obtain ⟨j, r, rest, _, _, rfl⟩ := inv_loopResult hs
    refine endInv_gen (es := [.resultSeen j r] ++
      (if r.isErr && c.coe then invalidWrites (Loop.job s.loop j).consumers else [])) h same
      (Nat.le_refl _) (by simp) ?_
    intro k o hm
    simp only [List.mem_append, List.mem_singleton] at hm
    rcases hm with hm | hm
    · cases hm
    · split at hm
      · simp [invalidWrites] at hm
      · simp at hm
  | loopTick =>
    obtain ⟨_, _, rfl⟩ := inv_loopTick hs
    exact endInv_gen (es := [.report (Loop.report c s.loop)]) h same (Nat.le_refl _) (by simp) (by simp)
  | loopDrain =>
    obtain ⟨_, _, _, _, rfl⟩ := inv_loopDrain hw hs
    exact endInv_gen (es := []) h same (Nat.le_refl _) (by simp) (by simp)
  | loopClose =>
    obtain ⟨_, _, _, rfl⟩ := inv_loopClose hw hs
    exact endInv_gen (es := [.loopExit]) h same (Nat.le_refl _) (by simp) (by simp)
  | workerDecide w =>
    obtain ⟨j, hj, hc⟩ := inv_workerDecide hw hs
    have hjs : j < s.caller.sent := h.slot w _ j hj rfl
    rcases hc with ⟨_, rfl⟩ | ⟨_, _, rfl⟩ | ⟨_, _, rfl⟩
    · refine endInv_gen (es := [.skipped j .ctx]) h ?_ (Nat.le_refl _) (by simp) (by simp)
      intro w' x hx
      simp only [addLog_ws, setW_ws, addLog_caller, setW_caller] at hx ⊢
      exact set_slot (y := .posting j .ctxErr) (by intro k hk; simp [W.job?] at hk; omega) w' x hx
    · refine endInv_gen (es := [.skipped j .invalid]) h ?_ (Nat.le_refl _) (by simp) (by simp)
      intro w' x hx
      simp only [addLog_ws, setW_ws, addLog_caller, setW_caller] at hx ⊢
      exact set_slot (y := .posting j .invalid) (by intro k hk; simp [W.job?] at hk; omega) w' x hx
    · refine endInv_gen (es := [.started j]) h ?_ (Nat.le_refl _) (by simp) (by simp)
      intro w' x hx
      simp only [addLog_ws, setW_ws, addLog_caller, setW_caller] at hx ⊢
      exact set_slot (y := .running j) (by intro k hk; simp [W.job?] at hk; omega) w' x hx
  | workerEnd w o cancel =>
    obtain ⟨j, hj, rfl⟩ := inv_workerEnd hs
    have hjs : j < s.caller.sent := h.slot w _ j hj rfl
    have hst : Ev.started j ∈ s.log := (R.i6.runFresh w j hj).1
    have hcaller : (afterBody c s j o cancel).caller = s.caller := by unfold afterBody; split <;> simp
    have hws' : (afterBody c s j o cancel).ws = s.ws := by unfold afterBody; split <;> simp
    have hlog : ∃ es, (afterBody c s j o cancel).log = s.log ++ es ∧
        ∀ k o', Ev.ended k o' ∈ es → k = j := by
      unfold afterBody
      split
      · exact ⟨[.ended j o, .cancelled (c.ctxOfJob j)], by simp, by intro k o' hm; simp at hm; exact hm.1⟩
      · exact ⟨[.ended j o], by simp, by intro k o' hm; simp at hm; exact hm.1⟩
    obtain ⟨es, hes, hesj⟩ := hlog
    refine endInv_gen (es := es) h ?_ (by simp [hcaller]) (by simpa using hes) ?_
    · intro w' x hx
      simp only [setW_ws, setW_caller, hcaller, hws'] at hx ⊢
      refine set_slot (y := if o = .goexit then .dying j else .posting j (outcomeRes o)) ?_ w' x hx
      intro k hk
      split at hk <;> (simp [W.job?] at hk; omega)
    · intro k o' hm
      have := hesj k o' hm
      subst this
      simp only [setW_caller, hcaller]
      exact ⟨hjs, hst⟩
  | workerPost w =>
    obtain ⟨j, r, _, _, rfl⟩ := inv_workerPost hs
    refine endInv_gen (es := []) h ?_ (Nat.le_refl _) (by simp) (by simp)
    intro w' x hx
    simp only [setW_ws, setW_caller] at hx ⊢
    exact set_slot (y := .idle) (by intro k hk; simp [W.job?] at hk) w' x hx
  | workerDiePost w =>
    obtain ⟨j, _, _, rfl⟩ := inv_workerDiePost hw hs
    refine endInv_gen (es := []) h ?_ (Nat.le_refl _) (by simp) (by simp)
    intro w' x hx
    simp only [setW_ws, setW_caller] at hx ⊢
    exact set_slot (y := .idle) (by intro k hk; simp [W.job?] at hk) w' x hx
  | workerExit w =>
    obtain ⟨_, _, rfl⟩ := inv_workerExit hs
    refine endInv_gen (es := []) h ?_ (Nat.le_refl _) (by simp) (by simp)
    intro w' x hx
    simp only [setW_ws, setW_caller] at hx ⊢
    exact set_slot (y := .exited) (by intro k hk; simp [W.job?] at hk) w' x hx
  | cancel x =>
    obtain ⟨_, _, rfl⟩ := inv_cancel hs
    exact endInv_gen (es := [.cancelled x]) h same (Nat.le_refl _) (by simp) (by simp)

theorem endInv_run {c : Cfg} (hw : c.wiring = Wiring.std) (hwf : WfCfg c) (acts : List Act) (s : State)
    (hr : run c (init c) acts = some s) : EndInv s := by
  have : Reach2 c s ∧ EndInv s := by
    refine run_induct (c := c) (fun s => Reach2 c s ∧ EndInv s) ?_ acts _ _
      ⟨⟨⟨inv1_init c, inv2_init c, inv3_init c, inv4_init c, inv5_init c⟩, inv6_init c, inv7_init c⟩,
       endInv_init c⟩ hr
    intro s a s' hp h
    have R := hp.1.r
    exact ⟨⟨⟨inv1_step hw hwf R.i1 h, inv2_step hw hwf R.i1 R.i2 h, inv3_step hw hwf R.i1 R.i2 R.i3 h,
            inv4_step hw hwf R.i1 R.i4 h, inv5_step hw R.i5 h⟩, inv6_step hw hwf R hp.1.i6 h,
            inv7_step hw hwf R hp.1.i7 h⟩, endInv_step hw hp.1 hp.2 h⟩
  exact this.2

/-- **Started before ended, only submitted jobs end.**  In every log of a standard-wiring run, an
    `ended j` event at index `i` is preceded by `started j` at a smaller index, and `j` is a job
    the caller submitted. -/
theorem ended_after_started (c : Cfg) (hw : c.wiring = Wiring.std) (hwf : WfCfg c)
    (acts : List Act) (s : State) (hr : run c (init c) acts = some s) (i j : Nat) (o : Outcome)
    (hi : s.log[i]? = some (Ev.ended j o)) :
    j < s.caller.sent ∧ j < c.deps.length ∧ ∃ k, k < i ∧ s.log[k]? = some (Ev.started j) := by
  have E := endInv_run hw hwf acts s hr
  have h1 := E.endedLt j o (List.mem_of_getElem? hi)
  have h2 := P3.sent_le_run hw acts s hr
  exact ⟨h1, by omega, E.endedAfter i j o hi⟩

end Sched
