/-
  Tie obligations over the facts extracted from the cff source.

  `CffVerif/Extracted/Facts.lean` is regenerated from the repository on every
  run by `harness/cmd/extract` (go/ast + go/types + text/template/parse).  The
  theorems below re-check those facts by kernel evaluation (`decide`).  They are
  the syntactic, per-site half of the tie between the hand-written models and
  the code; the behavioural half is the differential / replay testing.

  Reading a failure.  When someone edits cff so that a fact no longer holds, or
  so that the extractor no longer recognises the construct (it then emits an
  `unknown` entry), the corresponding theorem FAILS TO BUILD.  That is the
  signal.  The reaction is never to weaken the statement silently: either the
  edit is a defect, or the new site is reviewed and the hand-written table below
  (`classified`, `knownRandom`, ...) is extended with the reason why the site is
  harmless.

  Core Lean only; no `sorry`, no axioms, no `native_decide`.
-/
import CffVerif.Extracted.Types
import CffVerif.Extracted.Facts

namespace Tie
open Extracted

/-! ### helpers (structural recursion only, so that the kernel can evaluate them) -/

/-- `sub` occurs as a contiguous block of `l`. -/
def listHasSub {α : Type} [BEq α] (sub : List α) : List α → Bool
  | [] => sub.isEmpty
  | l@(_ :: t) => sub.isPrefixOf l || listHasSub sub t

/-- Substring test. (`String.splitOn`/`String.contains` do not reduce in the
kernel; `String.toList` and list functions do.) -/
def hasSub (s sub : String) : Bool := listHasSub sub.toList s.toList

/-- `pre` is a prefix of `s`. -/
def hasPrefix (s pre : String) : Bool := pre.toList.isPrefixOf s.toList

/-- The text of a Go string literal is a comment once leading white space is
dropped: re-computed here from `literal`, independently of the extractor's
`isComment` flag. -/
def startsComment (s : String) : Bool :=
  let t := s.toList.dropWhile (fun c => c == ' ' || c == '\t' || c == '\n' || c == '\r')
  "//".toList.isPrefixOf t || "/*".toList.isPrefixOf t

/-! ### C15 - directive arguments evaluated once, in source order -/

/-- **C15.** Every template action that prints a user expression prints it
through the hoisting printer `expr` (which replaces it by its `_LINE_COL`
variable and records it for the prologue).  The only other printer allowed is
`rawExpr`, and only in the prologue template, where the hoisted variables are
assigned their expressions.  A bare print (`wrapper = ""`), `quote`, `printf`,
an operand the extractor cannot classify (`"unknown"`), or a template that no
longer parses all falsify this. -/
theorem exprSites_wrapped :
    exprSites.all (fun s =>
      s.wrapper == "expr" ||
      (s.wrapper == "rawExpr" && s.file == "prologue/param_expr.go.tmpl")) = true := by
  decide

/-- **C15.** The prologue assigns each hoisted variable exactly once: it
contains exactly one `expr`/`rawExpr` pair, both over the element of the range
over the (position-sorted) expression list. -/
theorem prologue_sites :
    exprSites.filter (fun s => s.file == "prologue/param_expr.go.tmpl") =
      [ { file := "prologue/param_expr.go.tmpl", action := "{{expr .}}", wrapper := "expr", kind := "rangeElem" },
        { file := "prologue/param_expr.go.tmpl", action := "{{rawExpr .}}", wrapper := "rawExpr", kind := "rangeElem" } ] := by
  decide

/-- **C15.** The extractor found the template executions it tracks dot
through: the flow set and the parallel set are executed on a struct, the
prologue on the list returned by `paramExprs`.  (The `foreign` entry is
modifier mode, whose templates live in `internal/modifier/templates` and are
outside the scope of `exprSites`.) -/
theorem template_roots :
    templateRoots =
      [ ("foreign", "flow.go.tmpl", "unknown: fm"),
        ("templates/flow/* templates/shared/*", "flow.go.tmpl", "struct: flowTemplateData{ Flow: f, }"),
        ("templates/parallel/* templates/shared/*", "parallel.go.tmpl", "struct: parallelTemplateData{ Parallel: p, }"),
        ("templates/prologue/*", "param_expr.go.tmpl", "userExprs: paramExprs(exprs)") ] := by
  decide

/-- **C15** (coverage).  The struct fields of package `internal` holding user
expressions (`ast.Expr`, `[]ast.Expr`, `ast.Node`); the extractor recognises a
printed user expression by these field names.  The list is pinned so that a new
expression field (a new directive argument that must be hoisted) shows up here
and gets reviewed.  Not printed by any template today: `Node` of `flow`,
`parallel`, `task`, `predicate`, `validateVisitedType` (used for positions
only) and the modifier-mode structs. -/
theorem expr_fields_known :
    exprFields =
      [ ("compiledFunc", "Node"), ("flow", "Concurrency"), ("flow", "Ctx"), ("flow", "Emitters"),
        ("flow", "Node"), ("flowModifier", "expr"), ("function", "Node"), ("input", "Node"),
        ("instrument", "Name"), ("mapTask", "Map"), ("output", "Node"), ("parallel", "Concurrency"),
        ("parallel", "ContinueOnError"), ("parallel", "Ctx"), ("parallel", "Emitters"),
        ("parallel", "Node"), ("predicate", "Node"), ("providedValues", "Exprs"),
        ("rootModifierParams", "Ctx"), ("sliceTask", "Slice"), ("task", "FallbackWithResults"),
        ("task", "Node"), ("validateVisitedType", "Node") ] := by
  decide

/-! ### C13 - output compiles, no unexpanded directive -/

/-- **C13.** Generated code reaches packages only through the `{{ import "..." }}`
action (which honours the names the file imports them under and synthesises
aliases): no template text spells `time.X`, `context.X`, `fmt.X`, `runtime.X`,
`debug.X`, `sync.X`, `atomic.X`, `cff.X`, `strconv.X` or `errors.X`.  (A
hard-coded `time.Since` was a real defect.) -/
theorem no_hardcoded_pkg_refs : hardcodedPkgRefs = [] := by
  decide

/-- **C13.** The directive stubs of the root package (functions whose body is
the "not processed with cff" panic) are exactly the names the compiler
recognises as directives (`internal._codegenDirectives`): a stub missing from
the table would be left unexpanded in the output and panic at run time; a table
entry without a stub is dead.  Neither side contains an `unknown` entry because
the table side is compared against the closed list below. -/
theorem directive_names_agree : directiveNames = directiveTable := by
  decide

/-- **C13.** The directive set the models and generators of the harness are
written against. -/
theorem directive_table_known :
    directiveTable =
      [ "Concurrency", "ContinueOnError", "FallbackWith", "Flow", "Instrument", "InstrumentFlow",
        "InstrumentParallel", "Invoke", "Map", "MapEnd", "Parallel", "Params", "Predicate",
        "Results", "Slice", "SliceEnd", "Task", "Tasks", "WithEmitter" ] := by
  decide

/-! ### C17 - generation is deterministic -/

/-- Map iterations of the generator, each with the reason why the iteration
order cannot leak into the generated text.  (file, function, operand). -/
def classified : List (String × String × String) :=
  [ -- diagnostics only: reports "unused input type" errors; generation fails, nothing is written
    ("internal/compile.go", "compiler.validateFuncs", "flowInputs.Keys()"),
    -- accumulates into a slice that is sorted (sort.Strings) before imports are added
    ("internal/gen.go", "generator.GenerateFile", "addImports"),
    -- accumulates into a set: aliases[names[0]] = struct{}{}
    ("internal/gen.go", "generator.GenerateFile", "f.Imports"),
    -- filtered into a slice that is sorted by source position (sort.Slice; positions are distinct) before use
    ("internal/gen.go", "paramExprs", "provided"),
    -- modifier mode: same two loops as in gen.go (sorted before use / accumulates into a set)
    ("internal/gen2.go", "generatorv2.GenerateFile", "addImports"),
    ("internal/gen2.go", "generatorv2.GenerateFile", "f.Imports"),
    -- accumulates build tags into a slice that is sorted (sort.Strings) before being joined
    ("internal/pkg/gopackages.go", "goPackagesLoader.Load", "tags") ]

/-- **C17.** Every iteration over a map (range over a map-typed operand; `Keys`,
`Iterate`, `Range` of a `typeutil.Map` / `sync.Map`) in `internal`,
`internal/modifier`, `internal/pkg` and `cmd/cff` is one of the reviewed,
order-insensitive sites.  An operand whose type could not be resolved is an
`unknown: ...` entry and is not in the table. -/
theorem mapRanges_classified :
    mapRangeSites.all (fun s => classified.contains (s.file, s.func, s.expr)) = true := by
  decide

/-- **C17.** The reviewed table is exact: the iteration sites are those of
`classified`, one for one and in the extractor's (sorted) order.  Stronger than
`mapRanges_classified`: a SECOND loop over an already classified operand in the
same function (same triple) is caught too, and so is a stale table entry. -/
theorem mapRanges_exactly_classified :
    mapRangeSites.map (fun s => (s.file, s.func, s.expr)) = classified := by
  decide

/-- **C17.** No iteration site was left unresolved by the extractor (stated
separately so that the failure message says so). -/
theorem mapRanges_resolved :
    mapRangeSites.all (fun s => s.kind == "range" || s.kind == "call") = true := by
  decide

/-- **C17.** The operand types were resolved with full type information: the
analysed packages parsed and type-checked without error (otherwise the
extractor falls back to syntactic resolution, which is weaker). -/
theorem type_info_complete : typeErrors = [] := by
  decide

/-- Random / clock / pid sources of the generator.  All four build the magic
token of `newGenerator`; the token is emitted only in source-map mode
(`printMagic` returns "" otherwise) and every occurrence is replaced by a line
directive in `resetMagicTokens` before the file is written. -/
def knownRandom : List (String × String × String) :=
  [ ("internal/gen.go", "newGenerator", "rand.Int63()"),
    ("internal/gen.go", "newGenerator", "rand.New(opts.RandSrc)"),
    ("internal/gen.go", "newGenerator", "rand.New(opts.RandSrc).Int()"),
    ("internal/gen.go", "newGenerator", "rand.NewSource(rand.Int63())") ]

/-- **C17.** Every use of `math/rand`, `crypto/rand`, `time.Now`, `os.Getpid` in
the generator is one of the reviewed ones. -/
theorem random_sources_known :
    randomSources.all (fun s => knownRandom.contains s) = true := by
  decide

/-- **C17.** ... one for one (an additional call spelled like a reviewed one is
caught too). -/
theorem random_sources_exact : randomSources = knownRandom := by
  decide

/-! ### C20 - source-map mode differs from base mode by comments only -/

/-- **C20.** Whatever the generator writes only in source-map mode is a comment
(a `//line` / `/*line` directive or the `// CFF_MAGIC_TOKEN` marker), and so is
every string literal spelling a line directive.  A write of something that is
not a string literal, or a `sourceMapped` condition of a shape the extractor
does not recognise, is an `unknown` entry with `isComment = false`. -/
theorem sourcemap_writes_are_comments :
    sourceMapWrites.all (·.isComment) = true := by
  decide

/-- **C20.** Same statement with the comment test re-computed in Lean from the
literal text rather than trusted from the extractor. -/
theorem sourcemap_writes_start_comment :
    sourceMapWrites.all (fun w => startsComment w.literal) = true := by
  decide

/-- Line-directive literals written OUTSIDE a `sourceMapped` guard.

* `resetMagicTokens` is only called from the `if g.sourceMapped` block of
  `GenerateFile`.
* `generateParallel` writes the closing `/*line file:N*/` comment in base mode
  too (unlike `generateFlow`, which guards it).  It is a comment in both modes,
  so C20's "equal up to comments and line directives" is unaffected; it does mean
  that base-mode output of `cff.Parallel` carries a line directive. -/
def knownUnguarded : List (String × String) :=
  [ ("internal/gen.go", "generator.resetMagicTokens"),
    ("internal/gen_parallel.go", "generator.generateParallel") ]

/-- **C20.** Outside the guards, only the reviewed functions spell a line
directive. -/
theorem sourcemap_unguarded_known :
    (sourceMapWrites.filter (fun w => !w.guarded)).all
      (fun w => knownUnguarded.contains (w.file, w.func)) = true := by
  decide

/-! ### C05 C06 C19 - scheduler channel geometry and dispatch gate -/

/-- **C05 C06 C19.** The channel capacities the scheduler model assumes: the
enqueue channel holds one job; the ready channel is unbuffered (a job is
handed to a worker only by rendez-vous); the result channel holds `Concurrency`
results (with the dispatch gate below, workers can always post); the
`finishedc` channel is an unbuffered close-only signal. -/
theorem chan_caps :
    chanCaps =
      [ ("donec", "c.Concurrency"), ("enqueuec", "1"), ("finishedc", "0"), ("readyc", "0") ] := by
  decide

/-- **C05 C06 C19.** The channels made above are the ones the scheduler is
built from, and the bound of the dispatch gate (`s.concurrency`) is the capacity
of the result channel (`c.Concurrency`). -/
theorem sched_field_inits :
    schedFieldInits =
      [ ("concurrency", "c.Concurrency"), ("continueOnError", "c.ContinueOnError"),
        ("donec", "donec"), ("enqueuec", "enqueuec"),
        ("finishedc", "make(chan struct{})"), ("readyc", "readyc") ] := by
  decide

/-- **C05 C06 C19.** The select arm sending on the ready channel is enabled by
exactly one condition (the channel variable is nil otherwise), and it mentions
both the number of executing jobs and the concurrency limit. -/
theorem dispatch_guarded :
    dispatchGuard.length = 1 ∧
    dispatchGuard.all (fun g =>
      hasSub g "ongoing" && hasSub g "concurrency" && !hasPrefix g "unknown") = true := by
  decide

/-- **C06 C19.** The dispatch gate is exactly the one of the model: a job is
dispatched only when one is ready and fewer than `concurrency` are executing
(`<`, not `<=`: with `<=` the result channel can overflow after an early exit
and leak a worker, and reports show more executing jobs than workers). -/
theorem dispatch_guard_exact :
    dispatchGuard = ["ready.Len() > 0 && ongoing < s.concurrency"] := by
  decide

end Tie
