/-
  Tie obligations over the facts extracted from the cff source.

  `CffVerif/Extracted/Facts.lean` is regenerated from the repository on every
  run by `harness/cmd/extract` (go/ast + go/types + text/template/parse).  The
  theorems below re-check those facts by kernel evaluation (`decide`).  They are
  the syntactic, per-site half of the tie between the hand-written models and
  the code; the behavioural half is the differential / replay testing.

  Reading a failure.  When someone edits cff so that a fact no longer holds, or
  so that the extractor no longer recognises the construct (it then emits an
  `unknown` entry), the corresponding theorem FAILS TO BUILD.  That is the
  signal.  The reaction is never to weaken the statement silently: either the
  edit is a defect, or the new site is reviewed and the hand-written table below
  (`orderExceptions`, `reviewedLess`, `knownRandom`, ...) is extended with the
  reason why the site is harmless.

  Core Lean only; no `sorry`, no axioms, no `native_decide`.
-/
import CffVerif.Extracted.Types
import CffVerif.Extracted.Facts
import CffVerif.Sched.HB

namespace Tie
open Extracted

/-! ### helpers (structural recursion only, so that the kernel can evaluate them) -/

/-- `sub` occurs as a contiguous block of `l`. -/
def listHasSub {α : Type} [BEq α] (sub : List α) : List α → Bool
  | [] => sub.isEmpty
  | l@(_ :: t) => sub.isPrefixOf l || listHasSub sub t

/-- Substring test. (`String.splitOn`/`String.contains` do not reduce in the
kernel; `String.toList` and list functions do.) -/
def hasSub (s sub : String) : Bool := listHasSub sub.toList s.toList

/-- `pre` is a prefix of `s`. -/
def hasPrefix (s pre : String) : Bool := pre.toList.isPrefixOf s.toList

/-- The text of a Go string literal is a comment once leading white space is
dropped: re-computed here from `literal`, independently of the extractor's
`isComment` flag. -/
def startsComment (s : String) : Bool :=
  let t := s.toList.dropWhile (fun c => c == ' ' || c == '\t' || c == '\n' || c == '\r')
  "//".toList.isPrefixOf t || "/*".toList.isPrefixOf t

/-! ### C15 - directive arguments evaluated once, in source order -/

/-- **C15.** Every template action that prints a user expression prints it
through the hoisting printer `expr` (which replaces it by its `_LINE_COL`
variable and records it for the prologue).  The only other printer allowed is
`rawExpr`, and only in the prologue template, where the hoisted variables are
assigned their expressions.  A bare print (`wrapper = ""`), `quote`, `printf`,
an operand the extractor cannot classify (`"unknown"`), or a template that no
longer parses all falsify this. -/
theorem exprSites_wrapped :
    exprSites.all (fun s =>
      s.wrapper == "expr" ||
      (s.wrapper == "rawExpr" && s.file == "prologue/param_expr.go.tmpl")) = true := by
  decide

/-- **C15.** The prologue assigns each hoisted variable exactly once: it
contains exactly one `expr`/`rawExpr` pair, both over the element of the range
over the (position-sorted) expression list. -/
theorem prologue_sites :
    exprSites.filter (fun s => s.file == "prologue/param_expr.go.tmpl") =
      [ { file := "prologue/param_expr.go.tmpl", action := "{{expr .}}", wrapper := "expr", kind := "rangeElem" },
        { file := "prologue/param_expr.go.tmpl", action := "{{rawExpr .}}", wrapper := "rawExpr", kind := "rangeElem" } ] := by
  decide

/-- **C15.** The extractor found the template executions it tracks dot
through: the flow set and the parallel set are executed on a struct, the
prologue on the list returned by `paramExprs`.  (The `foreign` entry is
modifier mode, whose templates live in `internal/modifier/templates` and are
outside the scope of `exprSites`.) -/
theorem template_roots :
    templateRoots =
      [ ("foreign", "flow.go.tmpl", "unknown: fm"),
        ("templates/flow/* templates/shared/*", "flow.go.tmpl", "struct: flowTemplateData{ Flow: f, }"),
        ("templates/parallel/* templates/shared/*", "parallel.go.tmpl", "struct: parallelTemplateData{ Parallel: p, }"),
        ("templates/prologue/*", "param_expr.go.tmpl", "userExprs: paramExprs(exprs)") ] := by
  decide

/-- **C15** (coverage).  The struct fields of package `internal` holding user
expressions (`ast.Expr`, `[]ast.Expr`, `ast.Node`); the extractor recognises a
printed user expression by these field names.  The list is pinned so that a new
expression field (a new directive argument that must be hoisted) shows up here
and gets reviewed.  Not printed by any template today: `Node` of `flow`,
`parallel`, `task`, `predicate`, `validateVisitedType` (used for positions
only) and the modifier-mode structs. -/
theorem expr_fields_known :
    exprFields =
      [ ("compiledFunc", "Node"), ("flow", "Concurrency"), ("flow", "Ctx"), ("flow", "Emitters"),
        ("flow", "Node"), ("flowModifier", "expr"), ("function", "Node"), ("input", "Node"),
        ("instrument", "Name"), ("mapTask", "Map"), ("output", "Node"), ("parallel", "Concurrency"),
        ("parallel", "ContinueOnError"), ("parallel", "Ctx"), ("parallel", "Emitters"),
        ("parallel", "Node"), ("predicate", "Node"), ("providedValues", "Exprs"),
        ("rootModifierParams", "Ctx"), ("sliceTask", "Slice"), ("task", "FallbackWithResults"),
        ("task", "Node"), ("validateVisitedType", "Node") ] := by
  decide

/-! ### C13 - output compiles, no unexpanded directive -/

/-- **C13.** Generated code reaches packages only through the `{{ import "..." }}`
action (which honours the names the file imports them under and synthesises
aliases): no template text spells `time.X`, `context.X`, `fmt.X`, `runtime.X`,
`debug.X`, `sync.X`, `atomic.X`, `cff.X`, `strconv.X` or `errors.X`.  (A
hard-coded `time.Since` was a real defect.) -/
theorem no_hardcoded_pkg_refs : hardcodedPkgRefs = [] := by
  decide

/-- **C13.** The directive stubs of the root package (functions whose body is
the "not processed with cff" panic) are exactly the names the compiler
recognises as directives (`internal._codegenDirectives`): a stub missing from
the table would be left unexpanded in the output and panic at run time; a table
entry without a stub is dead.  Neither side contains an `unknown` entry because
the table side is compared against the closed list below. -/
theorem directive_names_agree : directiveNames = directiveTable := by
  decide

/-- **C13.** The directive set the models and generators of the harness are
written against. -/
theorem directive_table_known :
    directiveTable =
      [ "Concurrency", "ContinueOnError", "FallbackWith", "Flow", "Instrument", "InstrumentFlow",
        "InstrumentParallel", "Invoke", "Map", "MapEnd", "Parallel", "Params", "Predicate",
        "Results", "Slice", "SliceEnd", "Task", "Tasks", "WithEmitter" ] := by
  decide

/-! ### C17 - generation is deterministic -/

/-- The patterns under which the order of an iteration cannot be observed after
the loop (computed by the extractor from the loop body and its context; see
`Extracted.MapRange`). -/
def orderInsensitive (pattern : String) : Bool :=
  pattern == "set" || pattern == "count" || hasPrefix pattern "append-then-sort:"

/-- Iteration sites that fit no pattern, reviewed by hand, each with the reason
why the iteration order cannot leak into the generated text.  (file, operand):
the function name is left out on purpose, so that moving the code within the
file does not trip the obligation. -/
def orderExceptions : List (String × String) :=
  [ -- diagnostics only: reports "unused input type" errors; generation fails, nothing is written
    ("internal/compile.go", "flowInputs.Keys()") ]

/-- A site is fine when its loop fits a pattern, when it is a `Keys()` call that
is directly ranged over by such a loop, or when it is a reviewed exception. -/
def siteOrderInsensitive (s : MapRange) : Bool :=
  orderInsensitive s.pattern ||
  (s.pattern == "keys-call" && hasPrefix s.detail "range:" &&
    orderInsensitive (String.ofList (s.detail.toList.drop 6))) ||
  orderExceptions.contains (s.file, s.expr)

set_option maxRecDepth 4096 in -- statement texts are long strings
/-- **C17.** Every iteration over a map (range over a map-typed operand; `Keys`,
`Iterate`, `Range` of a `typeutil.Map` / `sync.Map`) in `internal`,
`internal/modifier`, `internal/pkg` and `cmd/cff` is order-insensitive BY
PATTERN: the loop only builds a set / counts (`"set"`, `"count"`), or only
appends to one local slice that is sorted before its next use
(`"append-then-sort:<slice>"`); or it is one of the reviewed exceptions.  The
pattern does not depend on where the loop lives, so moving it into a helper
keeps the obligation true, while a loop that writes to the output, an append
loop whose sort was removed, or a new loop whose slice is used unsorted is an
`"unknown:<statement>"` entry and falsifies it.  A new exception is added to
`orderExceptions` with its reason, never silently. -/
theorem mapRanges_order_insensitive :
    mapRangeSites.all siteOrderInsensitive = true := by
  decide

set_option maxRecDepth 4096 in -- statement texts are long strings
/-- **C17.** Each exception excuses at most one site: a SECOND unclassifiable
`flowInputs.Keys()` in the file is looked at.  (A site that disappears is
harmless and does not trip it.) -/
theorem mapRanges_exceptions_once :
    orderExceptions.all (fun e =>
      (mapRangeSites.filter (fun s =>
        !orderInsensitive s.pattern && (s.file, s.expr) == e)).length ≤ 1) = true := by
  decide

/-- Comparisons of the append-then-sort sites that do not sort by the natural
order of the elements, each with the reason why the comparison tells any two
elements of the slice apart (otherwise elements that compare equal would keep
the random order they were appended in).  The slice is spelled `_s`. -/
def reviewedLess : List String :=
  [ -- paramExprs: sorted by source position; the elements are the user-provided expressions
    -- (directive arguments) of one file, whose positions are distinct
    "func(i, j int) bool { return _s[i].Pos() < _s[j].Pos() }" ]

/-- The custom comparison of a site, if any: the `detail` of an
append-then-sort site; for a `Keys()` call ranged over by such a loop the whole
`detail` (which then contains `;less=`). -/
def customLess (s : MapRange) : Option String :=
  if hasPrefix s.pattern "append-then-sort:" then
    (if s.detail == "" then none else some s.detail)
  else if s.pattern == "keys-call" && hasSub s.detail ";less=" then some s.detail
  else none

set_option maxRecDepth 4096 in -- statement texts are long strings
/-- **C17.** Every append-then-sort site that sorts with a custom less-function
uses a reviewed one, so that a new comparison function is looked at once
(`sort.Slice` fixes the order only if the comparison is total on the elements). -/
theorem mapRanges_sort_details_known :
    mapRangeSites.all (fun s =>
      match customLess s with
      | none => true
      | some d => reviewedLess.contains d) = true := by
  decide

/-- **C17.** No iteration site was left unresolved by the extractor (stated
separately so that the failure message says so). -/
theorem mapRanges_resolved :
    mapRangeSites.all (fun s => s.kind == "range" || s.kind == "call") = true := by
  decide

/-- **C17.** The operand types were resolved with full type information: the
analysed packages parsed and type-checked without error (otherwise the
extractor falls back to syntactic resolution, which is weaker). -/
theorem type_info_complete : typeErrors = [] := by
  decide

/-- Random / clock / pid sources of the generator.  All four build the magic
token of `newGenerator`; the token is emitted only in source-map mode
(`printMagic` returns "" otherwise) and every occurrence is replaced by a line
directive in `resetMagicTokens` before the file is written. -/
def knownRandom : List (String × String × String) :=
  [ ("internal/gen.go", "newGenerator", "rand.Int63()"),
    ("internal/gen.go", "newGenerator", "rand.New(opts.RandSrc)"),
    ("internal/gen.go", "newGenerator", "rand.New(opts.RandSrc).Int()"),
    ("internal/gen.go", "newGenerator", "rand.NewSource(rand.Int63())") ]

/-- **C17.** Every use of `math/rand`, `crypto/rand`, `time.Now`, `os.Getpid` in
the generator is one of the reviewed ones. -/
theorem random_sources_known :
    randomSources.all (fun s => knownRandom.contains s) = true := by
  decide

/-- **C17.** ... one for one (an additional call spelled like a reviewed one is
caught too). -/
theorem random_sources_exact :
    randomSources.all (fun x => randomSources.count x ≤ knownRandom.count x) = true := by
  decide

/-! ### C20 - source-map mode differs from base mode by comments only -/

/-- **C20.** Whatever the generator writes only in source-map mode is a comment
(a `//line` / `/*line` directive or the `// CFF_MAGIC_TOKEN` marker), and so is
every string literal spelling a line directive.  A write of something that is
not a string literal, or a `sourceMapped` condition of a shape the extractor
does not recognise, is an `unknown` entry with `isComment = false`.  What is
written may be spelled as a format string or as a concatenation: `literal` is the
constant value, or the LEADING constant part of the concatenation (`"//line " +
name + ":1\n"` gives `"//line "`); a concatenation that does not begin with a
constant is `unknown`. -/
theorem sourcemap_writes_are_comments :
    sourceMapWrites.all (·.isComment) = true := by
  decide

/-- **C20.** Same statement with the comment test re-computed in Lean from the
literal text rather than trusted from the extractor. -/
theorem sourcemap_writes_start_comment :
    sourceMapWrites.all (fun w => startsComment w.literal) = true := by
  decide

/-- Line-directive literals written OUTSIDE a `sourceMapped` guard.

* `resetMagicTokens` is only called from the `if g.sourceMapped` block of
  `GenerateFile`.
* `generateParallel` writes the closing `/*line file:N*/` comment in base mode
  too (unlike `generateFlow`, which guards it).  It is a comment in both modes,
  so C20's "equal up to comments and line directives" is unaffected; it does mean
  that base-mode output of `cff.Parallel` carries a line directive. -/
def knownUnguarded : List (String × String) :=
  [ ("internal/gen.go", "generator.resetMagicTokens"),
    ("internal/gen_parallel.go", "generator.generateParallel") ]

/-- **C20.** Outside the guards, only the reviewed functions spell a line
directive. -/
theorem sourcemap_unguarded_known :
    (sourceMapWrites.filter (fun w => !w.guarded)).all
      (fun w => knownUnguarded.contains (w.file, w.func)) = true := by
  decide

/-! ### C05 C06 C19 - scheduler channel geometry and dispatch gate -/

/-- **C05 C06 C19.** The channel capacities the scheduler model assumes: the
enqueue channel holds one job; the ready channel is unbuffered (a job is
handed to a worker only by rendez-vous); the result channel holds `Concurrency`
results (with the dispatch gate below, workers can always post); the
`finishedc` channel is an unbuffered close-only signal. -/
theorem chan_caps :
    chanCaps =
      [ ("donec", "c.Concurrency"), ("enqueuec", "1"), ("finishedc", "0"), ("readyc", "0") ] := by
  decide

/-- **C05 C06 C19.** The channels made above are the ones the scheduler is
built from, and the bound of the dispatch gate (`s.concurrency`) is the capacity
of the result channel (`c.Concurrency`). -/
theorem sched_field_inits :
    schedFieldInits =
      [ ("concurrency", "c.Concurrency"), ("continueOnError", "c.ContinueOnError"),
        ("donec", "donec"), ("enqueuec", "enqueuec"),
        ("finishedc", "make(chan struct{})"), ("readyc", "readyc") ] := by
  decide

/-- **C05 C06 C19.** The select arm sending on the ready channel is enabled by
exactly one condition (the channel variable is nil otherwise), and it mentions
both the number of executing jobs and the concurrency limit. -/
theorem dispatch_guarded :
    dispatchGuard.length = 1 ∧
    dispatchGuard.all (fun g =>
      hasSub g "ongoing" && hasSub g "concurrency" && !hasPrefix g "unknown") = true := by
  decide

/-- **C06 C19.** The dispatch gate is the one of the model: the guard is a conjunction (no `||`)
with the conjunct `ongoing < s.concurrency` (how "a job is ready" is spelled is left open, so that
a change of the ready queue's data structure does not trip it): a job is
dispatched only when one is ready and fewer than `concurrency` are executing
(`<`, not `<=`: with `<=` the result channel can overflow after an early exit
and leak a worker, and reports show more executing jobs than workers).  The
bound is the FIELD: a local bound once to `s.concurrency` (`c := s.concurrency`,
never assigned again, the field written nowhere in the package) is printed by the
extractor as `s.concurrency`; any other local stays spelled by its name and
falsifies this. -/
theorem dispatch_guard_exact :
    dispatchGuard.length = 1 ∧
    dispatchGuard.all (fun g => hasSub g "ongoing < s.concurrency" && !hasSub g "||") = true := by
  decide

/-! ### Scheduler wiring: the mechanism flags of `Sched.Wiring` (C01 C03 C05 C06 C07 C08 C09)

`Sched.Wiring.std` says what the code does; every theorem about the scheduler
model is about `std`, and for each flag the model has a counter-example showing
what breaks when it is off.  The obligations below tie each flag to the code:
the extractor (`harness/cmd/extract/schedwiring.go`) reports the Scheduler Loop,
the worker, `Wait` and `Enqueue` as ordered marker lists (`name` or
`name:detail`, see `Extracted.SelArm`); every mechanism is stated as a property
over the marker NAMES (so that renaming a local, or replacing `container/list`
by a slice, does not trip it), and every list is pinned by name (so that a new
statement shows up for review: it is an `unknown:` marker or a new name).

| flag                    | obligation                                   |
|-------------------------|----------------------------------------------|
| `gateDispatch`          | `dispatch_guard_exact`, `ready_arm_gated`    |
| `capDone`               | `chan_caps`, `loop_channel_caps`             |
| `drainOnExit`           | `drain_on_exit`                              |
| `respawn`               | `worker_respawns`                            |
| `workerChecksCtx`       | `worker_checks_ctx`                          |
| `workerChecksInvalid`   | `worker_checks_invalid`                      |
| `waitSelectsCtx`        | `wait_selects_ctx`                           |
| `lateEnqueueChecksDone` | `late_enqueue_checks_done`                   |
| `filterSentinel`        | `sentinel_filtered`                          |
-/

/-- The name of a marker: the text before the first `:`. -/
def markName (s : String) : List Char := s.toList.takeWhile (· != ':')
/-- The detail of a marker: the text after the first `:`. -/
def markDetail (s : String) : List Char := (s.toList.dropWhile (· != ':')).drop 1
def names (l : List String) : List (List Char) := l.map markName
/-- Marker names as character lists (strings are compared as lists so that the
kernel can evaluate the comparison). -/
def nm (l : List String) : List (List Char) := l.map String.toList
/-- The markers named `n`. -/
def marked (n : String) (l : List String) : List String := l.filter (fun s => markName s == n.toList)
/-- Exactly one marker is named `n`, and its detail satisfies `p`. -/
def oneMarked (n : String) (l : List String) (p : String → Bool) : Bool :=
  (marked n l).length == 1 && (marked n l).all p
def hasName (n : String) (l : List String) : Bool := (names l).contains n.toList
/-- The names before the first marker named `n`. -/
def namesBefore (n : String) (l : List String) : List (List Char) :=
  (names l).takeWhile (· != n.toList)
def noUnknown (l : List String) : Bool := l.all (fun s => !hasPrefix s "unknown")

/-- The source text playing `role` in the Scheduler Loop (`""` when the extractor did not find it). -/
def role (r : String) : List Char := ((loopRoles.lookup r).getD "").toList
def armsOf (k : String) : List SelArm := loopSelectArms.filter (fun a => a.kind == k)

/-- Capacity of the channel made for the Scheduler field `s.<f>`. -/
def capOfField (t : List Char) : Option String :=
  (schedFieldInits.find? (fun p => "s.".toList ++ p.1.toList == t)).bind (fun p => chanCaps.lookup p.2)

set_option maxRecDepth 4096 in -- marker texts are long strings
/-- **C01 C03 C05 C06 C07 C08 C09.** The extractor recognised every statement
of the Scheduler Loop's arms and exits, of the worker, of `Wait` and of
`Enqueue`: nothing was emitted as `unknown`. -/
theorem wiring_no_unknown :
    (loopSelectArms.all (fun a => a.kind != "unknown" && noUnknown [a.comm] && noUnknown a.disabledWhen) &&
     noUnknown loopAfterFor && noUnknown loopExitConds && noUnknown resultArmShape &&
     noUnknown enqueueArmShape && noUnknown workerShape && noUnknown waitShape &&
     noUnknown enqueueShape) = true := by
  decide

set_option maxRecDepth 4096 in -- marker texts are long strings
/-- **C05 C06 C09.** The select of the Scheduler Loop has exactly the four arms
of the model (`loopDispatch`, `loopEnq`/`loopEnqClosed`, `loopResult`,
`loopTick`): one send, one two-value receive, one value receive, one bare
receive, and no `default` (the loop blocks instead of spinning).  A new arm (a
respawn request channel, a second result channel) shows up here. -/
theorem loop_arm_kinds :
    loopSelectArms.map (·.kind) = ["send", "recvOk", "recvVal", "recv"] := by
  decide

set_option maxRecDepth 4096 in -- marker texts are long strings
/-- **C05 C06 C19.** (`capDone`, channel geometry.)  The channels the arms use
are the fields of the Scheduler, with the capacities the model assumes: results
are read from the channel of capacity `Concurrency`, jobs are dispatched on the
unbuffered channel, enqueues are read from the channel of capacity 1. -/
theorem loop_channel_caps :
    capOfField (role "resultChan") = some "c.Concurrency" ∧
    capOfField (role "readySrc") = some "0" ∧
    capOfField (role "enqueueSrc") = some "1" := by
  decide

set_option maxRecDepth 4096 in -- marker texts are long strings
/-- **C06 C19.** (`gateDispatch`.)  The dispatch arm sends on a local channel
variable which is nil exactly when the dispatch guard (pinned by
`dispatch_guard_exact`) is false: set to nil in the `else` of that one `if`,
nowhere else. -/
theorem ready_arm_gated :
    (armsOf "send").length = 1 ∧
    (armsOf "send").all (fun a =>
      a.chanIsLocalNilable && a.chan.toList == role "readyChan" &&
      nm a.disabledWhen == dispatchGuard.map (fun g => "nil-if:!(".toList ++ g.toList ++ ")".toList)) = true := by
  decide

set_option maxRecDepth 4096 in -- marker texts are long strings
/-- **C05 C09.** The enqueue arm is disabled only once the enqueue channel is
closed: its channel operand is a local that is set to nil in exactly one place,
`if !ok { ch = nil }` of this very arm.  (Any other condition, e.g.
back-pressure while the ready queue is long, parks the caller inside `Enqueue`
where neither a failure nor a cancelled context can reach it.) -/
theorem enqueue_arm_disabled_only_when_closed :
    (armsOf "recvOk").length = 1 ∧
    (armsOf "recvOk").all (fun a =>
      a.chanIsLocalNilable && a.chan.toList == role "enqueueChan" &&
      nm a.disabledWhen == ["closed:".toList ++ a.chan.toList]) = true := by
  decide

set_option maxRecDepth 4096 in -- marker texts are long strings
/-- **C05 C09.** Every other arm is unconditional: the result arm receives
straight from the Scheduler's result channel (no nil-able local in between), so
a posted result is always accepted; the ticker arm is off only when there is no
emitter (`Cfg.emit`). -/
theorem other_arms_unconditional :
    loopSelectArms.all (fun a =>
      a.kind == "send" || a.kind == "recvOk" ||
      (a.kind == "recvVal" && !a.chanIsLocalNilable && a.disabledWhen.isEmpty) ||
      (a.kind == "recv" && !a.disabledWhen.isEmpty &&
        a.disabledWhen.all (fun d =>
          hasPrefix d "nil-unless:" && hasSub d "emitter != nil" && !hasSub d "&&" && !hasSub d "||"))) = true := by
  decide

set_option maxRecDepth 4096 in -- marker texts are long strings
/-- **C05.** (`drainOnExit`.)  When the Scheduler Loop's function exits it
drains the enqueue channel (`for range s.enqueuec {}`, or the same loop spelled
`for { if _, ok := <-s.enqueuec; !ok { break } }`; unconditionally), then
closes the ready channel, then closes `finishedc`: `Wait` is released only after
every pending `Enqueue` has been, and the channel drained is the one `Enqueue`
sends on. -/
theorem drain_on_exit :
    listHasSub (nm ["drain", "closeReady", "closeFinished"]) (names loopAfterFor) = true ∧
    oneMarked "drain" loopAfterFor (fun d => markDetail d == role "enqueueSrc") = true := by
  decide

set_option maxRecDepth 4096 in -- marker texts are long strings
/-- **C05 C06.** Pin-down: everything that runs at the exit of the Scheduler
Loop's function, in execution order (the ticker is stopped only if one was
started). -/
theorem loop_after_for_exact :
    names loopAfterFor = nm ["cond-stopTicker", "drain", "closeReady", "closeFinished"] := by
  decide

set_option maxRecDepth 4096 in -- marker texts are long strings
/-- **C05.** One enqueue channel: `Enqueue` sends on, `Wait` closes, the loop
receives from (through its local) and drains the same field; `Wait` waits on
the channel the loop closes last. -/
theorem enqueue_channel_consistent :
    oneMarked "closeEnqueue" waitShape (fun d => markDetail d == role "enqueueSrc") = true ∧
    oneMarked "send" enqueueShape (fun d => (role "enqueueSrc" ++ " <- ".toList).isPrefixOf (markDetail d)) = true ∧
    (marked "finished" waitShape).map markDetail = (marked "closeFinished" loopAfterFor).map markDetail ∧
    (marked "finished" waitShape).length = 1 := by
  decide

set_option maxRecDepth 4096 in -- marker texts are long strings
/-- **C05.** `Enqueue`'s send is unconditional: a plain send statement, not an
arm of a select (an `Enqueue` that gives up, e.g. on `ctx.Done()`, returns a
handle of a job the loop never sees; a dependant then waits for ever). -/
theorem enqueue_send_unconditional :
    hasName "selectAroundSend" enqueueShape = false ∧
    listHasSub (nm ["mkJob", "send", "returns"]) (names enqueueShape) = true := by
  decide

set_option maxRecDepth 4096 in -- marker texts are long strings
/-- **C05.** Pin-down: the statements of `Enqueue`. -/
theorem enqueue_shape_exact :
    names enqueueShape = nm ["mkJob", "send", "returns"] := by
  decide

set_option maxRecDepth 4096 in -- marker texts are long strings
/-- **C07 C05.** The loop is left in exactly two ways: the fail-fast exit of the
result arm (an error result and `!s.continueOnError`), and the check at the
bottom of the body, `pending == 0 && enqueuec == nil` over the loop's own
counter and enqueue-channel local (`Loop.exitCheck`).  A third exit (e.g. an
early return under continue-on-error) or a weaker condition shows up here. -/
theorem loop_exits :
    loopExitConds.length = 2 ∧
    oneMarked "recvVal" loopExitConds (fun c =>
      hasSub c "!= nil) && (!s.continueOnError)" && !hasSub c "||") = true ∧
    oneMarked "loop" loopExitConds (fun c =>
      markDetail c == "(".toList ++ role "pending" ++ " == 0 && ".toList ++ role "enqueueChan" ++ " == nil)".toList) = true := by
  decide

set_option maxRecDepth 4096 in -- marker texts are long strings
/-- **C01 C07 C08.** The result arm does what `Loop.result` does, in this
order: mark the job done, decrement `pending` and `ongoing`; on an error record
it in the job, leave at once unless continue-on-error (recording that error
alone), else append it through the sentinel filter and mark the direct
consumers invalid; then, error or not, notify the consumers.  This is also the
pin-down of the arm: any other statement is an `unknown` marker.  (A local
closure called as a statement, `release(job)`, is read as its body with the
parameter renamed to the argument, here and in every other marker list.) -/
theorem result_arm_exact :
    names resultArmShape =
      nm ["bindJob", "setDone", "pendingDec", "ongoingDec", "errBranch", "setErr",
          "errRecordFailFast", "sentinelFilter", "markInvalid", "errBranchEnd", "notify"] := by
  decide

set_option maxRecDepth 4096 in -- marker texts are long strings
/-- **C07 C08.** The fail-fast exit is taken exactly when continue-on-error is
off (`if !c.coe` of `Loop.result`). -/
theorem failfast_condition :
    oneMarked "errRecordFailFast" resultArmShape (fun d => markDetail d == "!s.continueOnError".toList) = true := by
  decide

set_option maxRecDepth 4096 in -- marker texts are long strings
/-- **C08.** (`filterSentinel`.)  Under continue-on-error an error is appended
to the scheduler's error unless it is the sentinel `errJobInvalid`, and for no
other reason: the guard is exactly one negated `errors.Is(_, errJobInvalid)`
(no further conjunct such as a de-duplication test), and there is no unguarded
append. -/
theorem sentinel_filtered :
    oneMarked "sentinelFilter" resultArmShape (fun d =>
      hasPrefix d "sentinelFilter:!errors.Is(" && hasSub d ", errJobInvalid)" &&
      !hasSub d "&&" && !hasSub d "||") = true ∧
    hasName "appendErr" resultArmShape = false := by
  decide

set_option maxRecDepth 4096 in -- marker texts are long strings
/-- **C05 C08.** (`lateEnqueueChecksDone`.)  Registering a job, the loop skips
a dependency that has already run (`if dep.done { ...; continue }`) instead of
waiting for a notification that will never come, and in that branch marks the
job invalid if the dependency failed; only otherwise does it register as a
consumer and count the dependency. -/
theorem late_enqueue_checks_done :
    listHasSub (nm ["forDeps", "depDoneCheck", "depErrInvalidates", "depSkip",
                    "addConsumer", "remainingInc", "endDeps"]) (names enqueueArmShape) = true := by
  decide

set_option maxRecDepth 4096 in -- marker texts are long strings
/-- **C05 C07 C08.** Pin-down of the enqueue arm (`Loop.closed`, `Loop.enq`):
on close only the channel local is cleared; otherwise dependencies are
registered, `pending` is incremented, and the job goes to the ready queue iff
it waits for nothing. -/
theorem enqueue_arm_exact :
    names enqueueArmShape =
      nm ["closedSetsNil", "forDeps", "depDoneCheck", "depErrInvalidates", "depSkip",
          "addConsumer", "remainingInc", "endDeps", "pendingInc", "readyIfZero", "waitingInc"] := by
  decide

set_option maxRecDepth 4096 in -- marker texts are long strings
/-- **C03 C05 C06.** (`respawn`.)  A worker that dies inside a job (its loop
did not end cleanly) posts the failure of the job it held and then starts its
own replacement, unconditionally and itself (`go worker(readyc, donec)` with
its own channels; not through the Scheduler Loop, which may already have
exited, and not depending on a context).  `deferGuard` is the test of the
clean-exit flag, spelled `if clean { return }` ahead of the rest or as one
`if !clean { ... }` around it. -/
theorem worker_respawns :
    listHasSub (nm ["defer", "deferGuard", "deferPost", "respawn", "endDefer"]) (names workerShape) = true ∧
    (marked "respawn" workerShape).length = 1 := by
  decide

set_option maxRecDepth 4096 in -- marker texts are long strings
/-- **C09.** (`workerChecksCtx`.)  The worker runs a job only in the last
branch of a chain whose first test is `j.ctx.Err() != nil` (the job's own
context), which skips the job with that error.  (`if err := j.ctx.Err(); err !=
nil`, or `e := j.ctx.Err()` bound once earlier in the loop body and tested by the
first branch; if / else-if chain or tagless switch.) -/
theorem worker_checks_ctx :
    oneMarked "ctxCheck" workerShape (fun d => hasSub d ".ctx.Err()" && hasSub d "!= nil") = true ∧
    (namesBefore "run" workerShape).contains "ctxSkip".toList = true ∧
    hasName "run" workerShape = true ∧ hasName "runUnguarded" workerShape = false := by
  decide

set_option maxRecDepth 4096 in -- marker texts are long strings
/-- **C01 C08.** (`workerChecksInvalid`.)  Before running a job the worker
tests its `invalid` mark (the field the loop sets) and skips it with the
sentinel `errJobInvalid`. -/
theorem worker_checks_invalid :
    oneMarked "invalidCheck" workerShape (fun d => hasSub d ".invalid" && !hasSub d "!") = true ∧
    oneMarked "invalidSkip" workerShape (fun d => hasSub d "= errJobInvalid") = true ∧
    (namesBefore "run" workerShape).contains "invalidSkip".toList = true := by
  decide

set_option maxRecDepth 4096 in -- marker texts are long strings
/-- **C01 C08 C09.** The order of the worker's tests is the one of
`workerDecide`: context first, then invalid, then run (a cancelled job reports
the context error even if it is also invalid), and the result is posted after
the job is no longer the current one. -/
theorem worker_check_order :
    listHasSub (nm ["ctxCheck", "ctxSkip", "invalidCheck", "invalidSkip", "run", "clearCurrent", "post"])
      (names workerShape) = true := by
  decide

set_option maxRecDepth 4096 in -- marker texts are long strings
/-- **C01 C03 C06 C08 C09.** Pin-down of the worker.  (`rangeReady` is the loop
receiving from the ready channel until it is closed: `for j := range readyc`, or
`for { j, ok := <-readyc; if !ok { break }; ... }`.) -/
theorem worker_shape_exact :
    names workerShape =
      nm ["defer", "deferGuard", "deferPost", "respawn", "endDefer",
          "rangeReady", "mkResult", "setCurrent", "ctxCheck", "ctxSkip", "invalidCheck",
          "invalidSkip", "run", "clearCurrent", "post", "endRange", "markCleanExit"] := by
  decide

set_option maxRecDepth 4096 in -- marker texts are long strings
/-- **C09.** (`waitSelectsCtx`.)  After closing the enqueue channel `Wait`
selects between its context and the loop's exit, and on the context it returns
the context's error at once (`callerRetCtx`), nothing else. -/
theorem wait_selects_ctx :
    listHasSub (nm ["closeEnqueue", "select", "ctxDone", "returns", "finished", "returns", "endSelect"])
      (names waitShape) = true ∧
    listHasSub ["ctxDone:ctx.Done()", "returns:ctx.Err()"] waitShape = true := by
  decide

set_option maxRecDepth 4096 in -- marker texts are long strings
/-- **C05 C07 C09.** Pin-down of `Wait`: on the loop's exit it returns the
scheduler's error, or the context's error if there is none (`callerRetFin`). -/
theorem wait_shape_exact :
    waitShape =
      [ "closeEnqueue:s.enqueuec", "select", "ctxDone:ctx.Done()", "returns:ctx.Err()",
        "finished:s.finishedc", "returns:s.err ?: ctx.Err()", "endSelect" ] := by
  decide

/-! ### Structure of the template text (C04 C05 C06 C07 C10 C11 C18)

The generated code of a directive is `func() (err error) { <prologue>; <root
template> }()`.  Several safety mechanisms exist only as template TEXT; the
extractor flattens the templates (see `Extracted.TmplFn`, `Extracted.Mark`) and
the obligations below fail when an edit removes one of them.  Each mechanism is
stated twice: as a property (so that the failure names the mechanism), and as
the exact list found today (so that a new func literal, `return` or construct
shows up for review). -/

/-- A mark lying under no template branch. -/
def m (n : String) : Mark := { guards := [], name := n }
/-- A mark under the template branches `g`. -/
def mg (g : List String) (n : String) : Mark := { guards := g, name := n }

def isUnknownMark (x : Mark) : Bool := hasPrefix x.name "unknown"
/-- The marks before the first one named `a`. -/
def before (a : String) (ms : List Mark) : List Mark := ms.takeWhile (fun x => x.name != a)
/-- The marks after the first one named `a`. -/
def after (a : String) (ms : List Mark) : List Mark := (ms.dropWhile (fun x => x.name != a)).drop 1
/-- The marks after the first `a` and before the next `b`. -/
def between (a b : String) (ms : List Mark) : List Mark := before b (after a ms)
def count (a : String) (ms : List Mark) : Nat := (ms.filter (fun x => x.name == a)).length

/-- The marks of a root template. -/
def rootOf (f : String) : List Mark :=
  match rootOrder.find? (fun e => e.1 == f) with
  | some e => e.2
  | none => []

/-- The marks of the job closure `i` of template `f`. -/
def bodyOf (f : String) (i : Nat) : List Mark :=
  match taskBodyOrder.find? (fun e => e.1 == f && e.2.1 == i) with
  | some e => e.2.2
  | none => []

/-- **C04 C05 C06 C07 C10 C11 C18.** The structural scanner recognised
everything it looked at: every template parsed, the flattened text of every
template tokenised and was balanced in brackets (each template branch balanced
in braces on its own), the root templates call `NewScheduler`, slice/map have
their `for` loop, element closure and End job. -/
theorem tmpl_struct_recognised : tmplStructUnknown = [] := by
  decide

/-! #### M1 - every job closure recovers (C04) -/

/-- **C04.** Every job closure (`func(ctx context.Context) (err error)`) has,
directly in its body, a deferred func literal calling `recover()`, and neither
that literal nor its `recover()` lies in a template branch the closure does not
lie in: a panic in user code always becomes an error of the job. -/
theorem job_bodies_recover :
    tmplFuncLits.all (fun j => !j.isJobBody ||
      tmplFuncLits.any (fun d =>
        d.file == j.file && d.parent == some j.index && d.depth == j.depth + 1 &&
        d.isDeferred && d.hasRecover && !d.conditional)) = true := by
  decide

/-- **C04.** The job closures are the ones whose statement order is extracted
(`taskBodyOrder`), one for one. -/
theorem job_bodies_listed :
    taskBodyOrder.map (fun e => (e.1, e.2.1)) =
      (tmplFuncLits.filter (·.isJobBody)).map (fun j => (j.file, j.index)) := by
  decide

/-- **C04.** In every job closure the recover defer is registered,
unconditionally, before the user function is called (a defer registered after
the call would not see its panic); the closure does call the user function;
and nothing in it went unrecognised. -/
theorem job_bodies_recover_before_call :
    taskBodyOrder.all (fun e =>
      (before "call" e.2.2).contains (m "defer:recover") &&
      e.2.2.any (fun x => x.name == "call") &&
      !e.2.2.any isUnknownMark) = true := by
  decide

/-- **C04 C11 C18.** Nothing protective is registered after the user call: no
defer (recover, TaskDone, `ran.Store`) and no predicate gate follows a `call`. -/
theorem nothing_protective_after_call :
    taskBodyOrder.all (fun e =>
      (after "call" e.2.2).all (fun x =>
        !hasPrefix x.name "defer:" && x.name != "gate" && x.name != "ranStore")) = true := by
  decide

def deferLit (file : String) (index depth : Nat) (parent : Option Nat) : TmplFn :=
  { file, index, depth, parent, guards := [], isDeferred := true, hasRecover := false,
    isJobBody := false, conditional := false }
def recoverLit (file : String) (index depth : Nat) (parent : Option Nat) : TmplFn :=
  { file, index, depth, parent, guards := [], isDeferred := true, hasRecover := true,
    isJobBody := false, conditional := false }
def jobLit (file : String) (index : Nat) (guards : List String) : TmplFn :=
  { file, index, depth := 0, parent := none, guards, isDeferred := false, hasRecover := false,
    isJobBody := true, conditional := !guards.isEmpty }
def plainLit (file : String) (index depth : Nat) (parent : Option Nat) : TmplFn :=
  { file, index, depth, parent, guards := [], isDeferred := false, hasRecover := false,
    isJobBody := false, conditional := false }

/-- **C04 C18.** The func literals of the templates, exactly: in the root
templates the Done defer and the TaskSkipped sweep; in each task/predicate
template the job closure with its defers; in slice/map the element closure and
the End job (under `with .SliceEndFn` / `with .MapEndFn`), each with its recover
defer.  A new literal (a new goroutine body, a new defer) shows up here.  A
`{{define}}` holding a func literal, a `defer`, a `go` or a `recover()` is expanded
where it is included: its literals are listed under the including template, at
the place of the include, and not under the define. -/
theorem func_lits_known :
    tmplFuncLits =
      [ deferLit "flow/flow.go.tmpl" 0 0 none,
        deferLit "flow/flow.go.tmpl" 1 0 none,
        jobLit "flow/predicate.go.tmpl" 0 [],
        recoverLit "flow/predicate.go.tmpl" 1 1 (some 0),
        jobLit "flow/task.go.tmpl" 0 [],
        deferLit "flow/task.go.tmpl" 1 1 (some 0),
        recoverLit "flow/task.go.tmpl" 2 1 (some 0),
        plainLit "modifier/concurrency.go.tmpl" 0 0 none,
        deferLit "modifier/flow.go.tmpl" 0 0 none,
        jobLit "modifier/flow_task.go.tmpl" 0 [],
        recoverLit "modifier/flow_task.go.tmpl" 1 1 (some 0),
        jobLit "parallel/map.go.tmpl" 0 [],
        recoverLit "parallel/map.go.tmpl" 1 1 (some 0),
        jobLit "parallel/map.go.tmpl" 2 ["with .MapEndFn"],
        recoverLit "parallel/map.go.tmpl" 3 1 (some 2),
        deferLit "parallel/parallel.go.tmpl" 0 0 none,
        deferLit "parallel/parallel.go.tmpl" 1 0 none,
        jobLit "parallel/slice.go.tmpl" 0 [],
        recoverLit "parallel/slice.go.tmpl" 1 1 (some 0),
        jobLit "parallel/slice.go.tmpl" 2 ["with .SliceEndFn"],
        recoverLit "parallel/slice.go.tmpl" 3 1 (some 2),
        jobLit "parallel/task.go.tmpl" 0 [],
        deferLit "parallel/task.go.tmpl" 1 1 (some 0),
        recoverLit "parallel/task.go.tmpl" 2 1 (some 0) ] := by
  decide

/-- **C04 C11 C18.** The statement order of every job closure, exactly.  (In
`flow/task.go.tmpl`, TaskPanicRecovered lives inside the recover defer and is
therefore not a mark of the body.) -/
theorem task_body_order_known :
    taskBodyOrder =
      [ ("flow/predicate.go.tmpl", 0, [m "defer:recover", m "call", m "return"]),
        ("flow/task.go.tmpl", 0,
          [ m "defer:TaskDone", m "defer:recover", mg ["if .Predicate"] "gate", m "defer:ranStore",
            m "call",
            mg ["if .Function.HasError", "if .FallbackWith"] "fallback",
            mg ["if .Function.HasError", "unless .FallbackWith"] "TaskError",
            mg ["if .Function.HasError", "unless .FallbackWith"] "return",
            mg ["if .Function.HasError"] "TaskSuccess",
            mg ["unless .Function.HasError"] "TaskSuccess",
            m "return" ]),
        ("modifier/flow_task.go.tmpl", 0, [m "defer:recover", m "call", m "return"]),
        ("parallel/map.go.tmpl", 0, [m "defer:recover", m "call", m "return"]),
        ("parallel/map.go.tmpl", 2, [m "defer:recover", m "call", m "return"]),
        ("parallel/slice.go.tmpl", 0,
          [ m "defer:recover", mg ["if .HasIndexParameter"] "call",
            mg ["unless .HasIndexParameter"] "call", m "return" ]),
        ("parallel/slice.go.tmpl", 2, [m "defer:recover", m "call", m "return"]),
        ("parallel/task.go.tmpl", 0,
          [ m "defer:TaskDone", m "defer:recover", m "defer:ranStore", m "call",
            mg ["if .Function.HasError"] "TaskError", mg ["if .Function.HasError"] "return",
            m "TaskSuccess", m "return" ]) ] := by
  decide

/-! #### M2 - nothing returns between NewScheduler and Wait (C05 C06) -/

/-- **C05 C06.** In every root template the scheduler is created once and
waited for once, both unconditionally, and between `NewScheduler(` and
`sched.Wait(` no statement of the outer closure returns (a `return` there would
skip `Wait` and leak the scheduler's goroutines); `return`s inside job closures
and deferred literals are not marks of the root.  Nothing in between went
unrecognised. -/
theorem no_return_between_new_and_wait :
    rootOrder.all (fun e =>
      count "NewScheduler" e.2 == 1 && count "Wait" e.2 == 1 &&
      e.2.contains (m "NewScheduler") && e.2.contains (m "Wait") &&
      (after "NewScheduler" e.2).contains (m "Wait") &&
      (between "NewScheduler" "Wait" e.2).all (fun x => x.name != "return" && !isUnknownMark x)) = true := by
  decide

/-- Templates whose text returns outside every func literal: the root
templates (after `Wait`, see `root_order_known`) and two function DECLARATIONS of
modifier mode, which are not part of any directive's closure. -/
def returnsAllowedIn : List String :=
  [ "flow/flow.go.tmpl", "parallel/parallel.go.tmpl", "modifier/flow.go.tmpl",
    "modifier/concurrency.go.tmpl", "modifier/func.go.tmpl{modifierReturnValue}" ]

/-- **C05 C06.** No sub-template (task, predicate, slice, map, the shared
ones: everything included between `NewScheduler` and `Wait`) returns outside a
func literal. -/
theorem no_return_in_subtemplates :
    topLevelReturns.all (fun r => returnsAllowedIn.contains r.1) = true := by
  decide

/-- **C05 C06.** The `return`s outside func literals, exactly. -/
theorem top_level_returns_known :
    topLevelReturns =
      [ ("flow/flow.go.tmpl", "return err"),
        ("flow/flow.go.tmpl", "return nil"),
        ("modifier/concurrency.go.tmpl", "return func() int { return c }"),
        ("modifier/flow.go.tmpl", "return err"),
        ("modifier/flow.go.tmpl", "return nil"),
        ("modifier/func.go.tmpl{modifierReturnValue}", "return {{ template \"modifierReturnType\" . }} { return {{ range . }} {{ .Name }} {{ if not .LastIdx }}, {{ end }} {{ end }} }"),
        ("modifier/func.go.tmpl{modifierReturnValue}", "return {{ template \"modifierReturnType\" . }} { return {{ range . }} {{ .Name }} {{ if not .LastIdx }}, {{ end }} {{ end }} }"),
        ("parallel/parallel.go.tmpl", "return err"),
        ("parallel/parallel.go.tmpl", "return nil") ] := by
  decide

/-- **C05 C06 C07 C18.** The root templates, exactly: emitter, Done defer,
scheduler, task type, TaskSkipped sweep, the sub-templates (one per function /
task, inside a `range`), `Wait`, then the error path (`Error`, `return`), the
Results copy (flow only), `Success`, `return`.  Modifier mode has no
TaskSkipped sweep (it emits no task events). -/
theorem root_order_known :
    rootOrder =
      [ ("flow/flow.go.tmpl",
          [ m "include:buildEmitter", m "defer:Done", m "NewScheduler", m "include:task",
            m "defer:Skipped", mg ["range $flow.TopoFuncs"] "include:func.go.tmpl",
            m "Wait", m "Error", m "return", mg ["range .Outputs"] "ResultsCopy",
            m "Success", m "return" ]),
        ("modifier/flow.go.tmpl",
          [ mg ["outside with .Flow", "with .FuncArgs"] "include:args",
            mg ["outside with .Flow"] "include:modifierProviders",
            m "include:buildEmitter", m "defer:Done", m "NewScheduler", m "include:task",
            mg ["range .TopoFuncs"] "include:flow_func.go.tmpl",
            m "Wait", m "Error", m "return", mg ["range .Outputs"] "ResultsCopy",
            m "Success", m "return" ]),
        ("parallel/parallel.go.tmpl",
          [ m "include:buildEmitter", m "defer:Done", m "NewScheduler", m "include:task",
            m "defer:Skipped",
            mg ["range $parallel.Tasks"] "include:task.go.tmpl",
            mg ["range $parallel.SliceTasks"] "include:slice.go.tmpl",
            mg ["range $parallel.MapTasks"] "include:map.go.tmpl",
            m "Wait", m "Error", m "return", m "Success", m "return" ]) ] := by
  decide

/-! #### M3 - the predicate gate precedes the user call (C11) -/

/-- **C11.** In the job closure of `flow/task.go.tmpl` the predicate gate
(`if !p<hash> { return nil }`, present exactly when the task has a predicate)
comes before the call of the user function, `ran.Store(true)` is registered
between the gate and the call (so a task whose predicate is false has not "run"
and is reported TaskSkipped), and neither the call nor `ran.Store` precedes the
gate. -/
theorem predicate_gate_before_call :
    (count "gate" (bodyOf "flow/task.go.tmpl" 0) == 1 &&
     (bodyOf "flow/task.go.tmpl" 0).contains (mg ["if .Predicate"] "gate") &&
     count "call" (bodyOf "flow/task.go.tmpl" 0) == 1 &&
     (after "gate" (bodyOf "flow/task.go.tmpl" 0)).contains (m "call") &&
     (between "gate" "call" (bodyOf "flow/task.go.tmpl" 0)).any
       (fun x => x == m "defer:ranStore" || x == m "ranStore") &&
     (before "gate" (bodyOf "flow/task.go.tmpl" 0)).all
       (fun x => x.name != "call" && x.name != "defer:ranStore" && x.name != "ranStore")) = true := by
  decide

/-- **C11.** Every task closure that reports task events marks itself as run
(`ran.Store(true)`) before calling the user function, unconditionally. -/
theorem ran_store_before_call :
    [("flow/task.go.tmpl", 0), ("parallel/task.go.tmpl", 0)].all (fun k =>
      (before "call" (bodyOf k.1 k.2)).any
        (fun x => x == m "defer:ranStore" || x == m "ranStore")) = true := by
  decide

/-! #### M4 - Results are copied only after a successful Wait (C07) -/

/-- **C07.** In the flow root templates, what follows `sched.Wait` is exactly:
the error event, `return` (the error path leaves before anything is copied),
the Results copies (`*(dst) = v<hash>`, one per output), the success event,
`return`.  No Results copy precedes `Wait`, and none sits in a defer (a defer
doing anything but its one event is an `unknown` mark). -/
theorem results_copy_after_wait_check :
    ["flow/flow.go.tmpl", "modifier/flow.go.tmpl"].all (fun f =>
      after "Wait" (rootOf f) ==
        [m "Error", m "return", mg ["range .Outputs"] "ResultsCopy", m "Success", m "return"] &&
      count "ResultsCopy" (before "Wait" (rootOf f)) == 0 &&
      !(rootOf f).any isUnknownMark) = true := by
  decide

/-- **C07.** `Wait` is called in the header of the `if` whose block is the
error path. -/
theorem wait_stmts_known :
    waitStmts =
      [ ("flow/flow.go.tmpl", "if err := sched.Wait(ctx); err != nil"),
        ("modifier/flow.go.tmpl", "if err := sched.Wait(ctx); err != nil"),
        ("parallel/parallel.go.tmpl", "if err := sched.Wait(ctx); err != nil") ] := by
  decide

/-! #### M5 - the TaskSkipped sweep runs before the Done event (C18) -/

/-- **C18.** The defers of the root templates are, in registration order, the
Done event and then the TaskSkipped sweep, both unconditional and both
registered before `Wait` (whose error path returns): deferred calls run in
reverse order, so every task that did not run is reported skipped before the
flow / parallel is reported done.  No other defer exists. -/
theorem root_defers_order :
    ["flow/flow.go.tmpl", "parallel/parallel.go.tmpl"].all (fun f =>
      (before "Wait" (rootOf f)).filter (fun x => hasPrefix x.name "defer:" || isUnknownMark x) ==
        [m "defer:Done", m "defer:Skipped"] &&
      (after "Wait" (rootOf f)).all (fun x => !hasPrefix x.name "defer:" && !isUnknownMark x)) = true := by
  decide

/-! #### M6, M7 - slice / map element jobs (C10) -/

/-- **C10.** Every use of a loop variable (`idx`, `val`, `key`) inside the
element closure of `parallel/slice.go.tmpl` / `map.go.tmpl` (includes of the
`call...` templates followed) is covered by an `x := x` copy made in the loop
body before the closure is created, under template conditions that are a
prefix of the use's: whenever the use is emitted, so is the copy.  (`idx` is
copied and used under `if .HasIndexParameter`.)  A copy may be spelled `x := x`
or pairwise in `x, y := x, y`; a copy made in both branches of one `{{if}} ..
{{else}}` counts as made under the conditions of the `{{if}}` itself. -/
theorem loop_vars_copied :
    loopVarUses.all (fun u => u.2.all (fun x =>
      loopVarCopies.any (fun c => c.1 == u.1 &&
        c.2.any (fun y => y.name == x.name && y.guards.isPrefixOf x.guards)))) = true := by
  decide

/-- **C10.** The copies and the uses, exactly. -/
theorem loop_vars_known :
    loopVarCopies =
      [ ("parallel/map.go.tmpl", [m "key", m "val"]),
        ("parallel/slice.go.tmpl", [mg ["if .HasIndexParameter"] "idx", m "val"]) ] ∧
    loopVarUses =
      [ ("parallel/map.go.tmpl", [m "key", m "val"]),
        ("parallel/slice.go.tmpl",
          [ mg ["if .HasIndexParameter"] "idx", mg ["if .HasIndexParameter"] "val",
            mg ["unless .HasIndexParameter"] "val" ]) ] := by
  decide

/-- **C10.** The End job of a slice / map has a Dependencies field, and its
value is the variable the scheduled element jobs are collected into. -/
theorem end_job_depends_on_elements :
    endJobDeps.all (fun d =>
      d.2 != "none" && !hasPrefix d.2 "unknown" &&
      elemJobCollect.any (fun c => c.1 == d.1 && hasSub c.2 (d.2 ++ "[idx] =") ||
                                   c.1 == d.1 && hasSub c.2 (d.2 ++ " = append(" ++ d.2 ++ ","))) = true := by
  decide

/-- **C10.** ... exactly: one End job per template; the element jobs are
collected under the same condition the End job exists under (`if .SliceEndFn` /
`with .SliceEndFn`). -/
theorem end_job_deps_known :
    endJobDeps =
      [ ("parallel/map.go.tmpl", "{{$t}}Jobs"), ("parallel/slice.go.tmpl", "{{$t}}Jobs") ] ∧
    elemJobCollect =
      [ ("parallel/map.go.tmpl", "[if .MapEndFn] {{$t}}Jobs = append({{$t}}Jobs,"),
        ("parallel/slice.go.tmpl", "[if .SliceEndFn] {{$t}}Jobs[idx] =") ] := by
  decide

-- ==== P28 ownership ====
/-! ### C12 C01 C03 C06 C19 - who touches what in package scheduler

The scheduler is lock-free because all bookkeeping is done by one goroutine, the
Scheduler Loop.  `CffVerif/Sched/Own.lean` proves that discipline for the MODEL
(`C12_loop_state_owner`, `C12_loop_touches_workers_only_by_handoff`,
`C12_invalid_written_before_handoff`); the obligations below check that the
SOURCE has the shape the model assumes: which goroutine kind ("thread") may run
which function, and which function touches which field (`Extracted.FieldAccess`,
`fnThreads`).  A field access is judged by the THREADS of its context, not by the
name of the function: moving code of the loop into a helper that only the loop
calls keeps every obligation true; the same code called from `Wait` falsifies
them.  Names of locals do not occur.  What is pinned by name: the functions that
are goroutine roots (`Scheduler.run`, `worker`, the literal of `Config.New`) and
the fields. -/

/-- The Scheduler Loop: the goroutine running `(*Scheduler).run`. -/
def loopT : String := "Scheduler.run"
/-- The worker goroutines (initial and replacement workers). -/
def workerT : String := "worker"
/-- The goroutine of the user: `Config.New`, `Enqueue`, `Wait`. -/
def callerT : String := "caller"
/-- The goroutine `Config.New` starts to spawn the workers. -/
def spawnerT : String := "Config.New:go"

/-- The threads a context may run on (`[]`: none known, treated as unknown). -/
def threadsOf (fn : String) : List String :=
  match fnThreads.find? (fun e => e.1 == fn) with
  | some e => e.2
  | none => []

/-- The context runs on at least one thread, and only on threads of `allowed`. -/
def runsOnlyOn (allowed : List String) (fn : String) : Bool :=
  !(threadsOf fn).isEmpty && (threadsOf fn).all (fun t => allowed.contains t)

def accessesOf (strct : String) : List FieldAccess := fieldAccesses.filter (fun a => a.struct == strct)

/-- **C03 C06 C12 C19.** The `go` statements of package scheduler and of the root
package, exactly: `Config.New` starts the spawner literal and the loop; the
spawner starts the workers; a dying worker's deferred literal starts its
replacement.  Nothing else starts a goroutine: no goroutine per emit (a
`go` in the emitter adapter or in the ticker arm reorders / piles up state
reports), none per job, none in `Enqueue` / `Wait`.  A `go` on a function value
or on a function outside the package is a `dynamic:` / `extern:` entry. -/
theorem own_goroutine_roots :
    goroutineRoots =
      [ ("Config.New", "Config.New:go"), ("Config.New", "Scheduler.run"),
        ("Config.New:go", "worker"), ("worker:defer", "worker") ] := by
  decide

/-- **C12.** Every function context of package scheduler runs on threads the
model knows (caller, loop, worker, spawner; `init` for package variables), none
of them `unknown` (a func literal that is stored or passed on, a function used as
a value); the three roots run on their own thread only and the API on the
caller's; and every context that touches a field runs on some thread. -/
theorem own_threads_known :
    fnThreads.all (fun e => e.2.all (fun t => [callerT, loopT, workerT, spawnerT, "init"].contains t)) = true ∧
    threadsOf "Scheduler.run" = [loopT] ∧ threadsOf "worker" = [workerT] ∧
    threadsOf "Config.New:go" = [spawnerT] ∧
    ["Config.New", "Scheduler.Enqueue", "Scheduler.Wait"].all (fun f => threadsOf f == [callerT]) = true ∧
    fieldAccesses.all (fun a => !(threadsOf a.fn).isEmpty && a.kind != "unknown") = true := by
  decide

/-- Escapes reviewed by hand: (struct, field, callee).
* the loop keeps ready jobs in a `container/list`; the list is a local of `run`,
  so the pointer stays with the loop. -/
def reviewedEscapes : List (String × String × String) :=
  [ ("ScheduledJob", "*", "(*container/list.List).PushBack") ]

set_option maxRecDepth 4096 in
/-- **C12.** No field of a scheduler struct has its address taken or is re-sliced
(an alias through which another goroutine, or the caller, could write), and no
pointer to a `ScheduledJob` / `Scheduler` is handed to code outside the package,
except the reviewed escapes, and those only on the loop's thread. -/
theorem own_no_escape :
    (fieldAccesses.filter (fun a => a.kind == "escape")).all (fun a =>
      reviewedEscapes.contains (a.struct, a.field, a.detail) && runsOnlyOn [loopT] a.fn) = true := by
  decide

/-- The fields of a job that are set once by `Enqueue` and never change. -/
def jobImmutable : List String := ["ctx", "run", "deps"]

set_option maxRecDepth 4096 in
/-- **C12 C01.** The bookkeeping fields of a job (`remaining`, `consumers`, `done`,
`err`, and any field added later: everything but `ctx`, `run`, `deps`,
`invalid`) are read and written on the loop's thread only - not by workers, not
by `Enqueue` / `Wait`, not even initialised by `Enqueue` (`step_nonloop_frame`:
non-loop actions leave the loop state alone). -/
theorem own_job_bookkeeping_loop_only :
    (accessesOf "ScheduledJob").all (fun a =>
      jobImmutable.contains a.field || a.field == "invalid" || a.field == "*" ||
      ((a.kind == "read" || a.kind == "write") && runsOnlyOn [loopT] a.fn)) = true := by
  decide

set_option maxRecDepth 4096 in
/-- **C12.** `invalid` is the one loop-owned field a worker reads.  It is written on
the loop's thread only, and only in the select arms that process a new job
(`recv Scheduler.enqueuec`: the job itself, before it is put on the ready list)
or a result (`recv Scheduler.donec`: the consumers of the finished job, which
still wait for it) - never in the arm handing a job to a worker, never outside the
select: `C12_invalid_written_before_handoff`.  It is read only by the loop and by
workers.  (A write moved into a helper has `arm = ""` and is looked at again.) -/
theorem own_job_invalid :
    ((accessesOf "ScheduledJob").filter (fun a => a.field == "invalid")).all (fun a =>
      (a.kind == "write" && runsOnlyOn [loopT] a.fn &&
        (a.arm == "recv:Scheduler.enqueuec" || a.arm == "recv:Scheduler.donec")) ||
      (a.kind == "read" && runsOnlyOn [loopT, workerT] a.fn)) = true := by
  decide

set_option maxRecDepth 4096 in
/-- **C12.** `ctx`, `run`, `deps` are initialised by the caller (in `Enqueue`'s
composite literal, before the job is sent on `enqueuec`) and afterwards only
read, by the loop and the workers.  Nobody assigns to them. -/
theorem own_job_immutable :
    ((accessesOf "ScheduledJob").filter (fun a => jobImmutable.contains a.field)).all (fun a =>
      (a.kind == "init" && runsOnlyOn [callerT] a.fn) ||
      (a.kind == "read" && runsOnlyOn [loopT, workerT] a.fn)) = true := by
  decide

/-- **C12.** What `Enqueue` initialises a job with, exactly: the caller's context,
`Job.Run`, and `Job.Dependencies` itself - not a slice derived from it (filtering
the dependencies "in place" writes into the caller's backing array while the
loop may be reading the same array through an earlier job's `deps`). -/
theorem own_job_inits :
    structInits.filter (fun e => e.1 == "ScheduledJob") =
      [ ("ScheduledJob", "ctx", "param:context.Context"),
        ("ScheduledJob", "deps", "Job.Dependencies"),
        ("ScheduledJob", "run", "Job.Run") ] := by
  decide

set_option maxRecDepth 4096 in
/-- **C12.** A worker touches a job only by reading `ctx`, `invalid`, `run` (of the job
it received over `readyc`): stated for every context that may run on a worker's
thread, so a helper called from `worker` is covered. -/
theorem own_worker_reads_only :
    ((accessesOf "ScheduledJob").filter (fun a => (threadsOf a.fn).contains workerT)).all (fun a =>
      a.kind == "read" && ["ctx", "invalid", "run"].contains a.field) = true := by
  decide

set_option maxRecDepth 4096 in
/-- **C12.** Fields of the `Scheduler`: everything but `err` is set by `Config.New`'s
composite literal (on the caller's thread, before the loop is started) and never
assigned afterwards.  `err` is written on the loop's thread only; it is read by
the loop, and by the caller only inside the select arm `<-s.finishedc` of `Wait`,
i.e. after the loop has exited (`close(finishedc)` is the loop's last action):
a read of `s.err` before the select or in the `ctx.Done()` arm races with the loop. -/
theorem own_sched_fields :
    (accessesOf "Scheduler").all (fun a =>
      if a.field == "err" then
        ((a.kind == "write" || a.kind == "read") && runsOnlyOn [loopT] a.fn) ||
        (a.kind == "read" && runsOnlyOn [callerT] a.fn && a.arm == "recv:Scheduler.finishedc")
      else
        (a.kind == "init" && runsOnlyOn [callerT] a.fn) ||
        (a.kind == "read" && runsOnlyOn [callerT, loopT] a.fn)) = true := by
  decide

/-- **C12.** The caller does wait for the loop that way: some read of `s.err` sits in
the `<-s.finishedc` arm (non-vacuity of the exception above). -/
theorem own_wait_reads_err_after_finished :
    fieldAccesses.any (fun a =>
      a.struct == "Scheduler" && a.field == "err" && a.kind == "read" &&
      runsOnlyOn [callerT] a.fn && a.arm == "recv:Scheduler.finishedc") = true := by
  decide

/-- **C01 C12 C19.** The fields of `ScheduledJob` and `Scheduler` and their types,
exactly (a new field is looked at: who owns it?).  `remaining` and `concurrency`
are `int`, as wide as the model's unbounded `Nat` for any number of jobs that
fits in memory: with `uint16` the 65536th dependency wraps `remaining` to 0 and
the job runs before its dependencies. -/
theorem own_field_types :
    fieldTypes.filter (fun e => e.1 == "ScheduledJob" || e.1 == "Scheduler") =
      [ ("ScheduledJob", "consumers", "[]*ScheduledJob"),
        ("ScheduledJob", "ctx", "context.Context"),
        ("ScheduledJob", "deps", "[]*ScheduledJob"),
        ("ScheduledJob", "done", "bool"),
        ("ScheduledJob", "err", "error"),
        ("ScheduledJob", "invalid", "bool"),
        ("ScheduledJob", "remaining", "int"),
        ("ScheduledJob", "run", "func(context.Context) error"),
        ("Scheduler", "concurrency", "int"),
        ("Scheduler", "continueOnError", "bool"),
        ("Scheduler", "donec", "<-chan jobResult"),
        ("Scheduler", "enqueuec", "chan *ScheduledJob"),
        ("Scheduler", "err", "error"),
        ("Scheduler", "finishedc", "chan struct{}"),
        ("Scheduler", "readyc", "chan<- *ScheduledJob") ] := by
  decide

/-- **C01 C19.** Counters are `int`: every integer-typed local of package scheduler
(the loop's `pending`, `ongoing`, `waiting` under whatever name, locals of its
helpers) and every field of the reported `State`; the loop does have its three
counters.  A narrower type (`int32`, `uint8`) or a named integer type shows up
with a different type text. -/
theorem own_counters_int :
    loopCounterTypes.all (fun e => e.2.2 == "int") = true ∧
    3 ≤ (loopCounterTypes.filter (fun e => e.1 == "Scheduler.run")).length ∧
    (fieldTypes.filter (fun e => e.1 == "State")).all (fun e => e.2.2 == "int") = true ∧
    5 ≤ (fieldTypes.filter (fun e => e.1 == "State")).length := by
  decide

/-- **C19 C03.** The emitter.  The root package's adapter returns nil for a nil
emitter and for the no-op emitter, and for nothing else; `NewScheduler` passes
the adapted emitter to `scheduler.Config`; the loop creates its ticker only under
`emitter != nil` (so no ticker, and no tick arm ever enabled, without an
emitter); `Emit` is called on the loop's thread only (state reports are
sequential and in order).  Nothing went unrecognised. -/
theorem own_emitter :
    ["nilForNil", "nilForNop", "configEmitterAdapted", "tickerOnlyIfEmitter"].all
      (fun mk => emitterAdapter.contains mk) = true ∧
    emitterAdapter.all (fun mk =>
      !hasPrefix mk "unknown" && !hasPrefix mk "nilFor:" && mk != "noTicker" &&
      (!hasPrefix mk "emitOn:" || mk == "emitOn:Scheduler.run")) = true := by
  decide

-- ==== C12: the model's access table covers the source ====

/-- The accesses of the source the model has to account for: reads and writes of the fields of
    `ScheduledJob` and `Scheduler`, and `Enqueue`'s initialisation of a job (`Config.New`'s
    initialisation of the `Scheduler` precedes the `go` statements that start the model's goroutines
    and is not an action of the model). -/
def c12Relevant (a : FieldAccess) : Bool :=
  (a.struct == "ScheduledJob" || a.struct == "Scheduler") && a.field != "*" &&
  (a.kind == "read" || a.kind == "write" || (a.kind == "init" && a.struct == "ScheduledJob"))

set_option maxRecDepth 100000 in
/-- **C12.** Every read / write of a `ScheduledJob` / `Scheduler` field in the source, by every
    thread its function may run on, is an access of the model (`Sched.accesses`, enumerated as
    `Sched.accessTable`), for which `Sched.C12_race_free` — conflicting accesses are ordered by
    happens-before — is proved.  (Only this direction is an obligation: an access the model has and
    the source has not makes the theorem stronger than needed, never wrong.) -/
theorem c12_access_table_covers_source :
    (fieldAccesses.filter c12Relevant).all (fun a =>
      !(threadsOf a.fn).isEmpty &&
      (threadsOf a.fn).all (fun t =>
        Sched.accessTable.contains
          (a.struct ++ "." ++ a.field, t, if a.kind == "read" then "read" else "write"))) = true := by
  decide

-- ==== C20: names generated by -genmode=modifier ====

/-- **C20 C13.** The `_cff<Kind>` prefixes of the functions `-genmode=modifier` generates: none is a
    prefix of another (so `Text.modName` is injective across kinds as well as within one:
    `Text.C20_modname_injective`, `Text.modname_kinds_of_not_prefix`), there is no unrecognised entry,
    and the kinds the naming fixture of the text differential exercises are among them. -/
theorem modifier_kinds_prefix_free :
    ((nm modifierKinds).all fun k => (nm modifierKinds).all fun k' => k == k' || !(k.isPrefixOf k')) &&
    noUnknown modifierKinds &&
    ((nm ["Flow", "Task", "Results", "Params", "Concurrency"]).all fun k => (nm modifierKinds).contains k) = true := by
  decide

end Tie
