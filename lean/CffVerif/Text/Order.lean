/-
  T — emission from maps (C17): the generator collects imports in a Go map (`addImports`) and
  user expressions in a Go map (`exprs`), whose iteration order is random, then sorts by key
  (import path / source position) before emitting.  Sorting any permutation of the same entries
  gives the same list, so the random map order cannot reach the output.
-/
namespace Text

/-- **C17 sorted emission.** For any total order on keys, sorting is invariant under permutation
    of the input. -/
theorem sorted_emission {α : Type} (le : α → α → Bool)
    (htrans : ∀ a b c, le a b = true → le b c = true → le a c = true)
    (htotal : ∀ a b, (le a b || le b a) = true)
    (hanti : ∀ a b, le a b = true → le b a = true → a = b)
    (l₁ l₂ : List α) (h : l₁.Perm l₂) : l₁.mergeSort le = l₂.mergeSort le := by
  apply List.Perm.eq_of_pairwise (le := fun a b => le a b = true)
  · intro a b _ _ hab hba; exact hanti a b hab hba
  · exact List.pairwise_mergeSort htrans htotal l₁
  · exact List.pairwise_mergeSort htrans htotal l₂
  · exact (List.mergeSort_perm l₁ le).trans (h.trans (List.mergeSort_perm l₂ le).symm)

/-- Instance used for the prologue: expressions keyed by their (distinct) source positions. -/
theorem prologue_order_independent (l₁ l₂ : List (Nat × String)) (h : l₁.Perm l₂)
    (hdistinct : ∀ a ∈ l₁, ∀ b ∈ l₁, a.1 = b.1 → a = b) :
    (l₁.mergeSort (fun a b => decide (a.1 ≤ b.1))).map Prod.snd = (l₂.mergeSort (fun a b => decide (a.1 ≤ b.1))).map Prod.snd := by
  -- with distinct positions the sorted lists are equal as lists of pairs
  have p1 := List.pairwise_mergeSort (le := fun (a b : Nat × String) => decide (a.1 ≤ b.1))
    (by intro a b c h1 h2; simp at *; omega) (by intro a b; simp; omega) l₁
  have p2 := List.pairwise_mergeSort (le := fun (a b : Nat × String) => decide (a.1 ≤ b.1))
    (by intro a b c h1 h2; simp at *; omega) (by intro a b; simp; omega) l₂
  have perm : (l₁.mergeSort (fun a b => decide (a.1 ≤ b.1))).Perm (l₂.mergeSort (fun a b => decide (a.1 ≤ b.1))) :=
    (List.mergeSort_perm l₁ _).trans (h.trans (List.mergeSort_perm l₂ _).symm)
  have : l₁.mergeSort (fun a b => decide (a.1 ≤ b.1)) = l₂.mergeSort (fun a b => decide (a.1 ≤ b.1)) := by
    apply List.Perm.eq_of_pairwise (le := fun (a b : Nat × String) => decide (a.1 ≤ b.1) = true) _ p1 p2 perm
    intro a b ha hb hab hba
    have ha' : a ∈ l₁ := (List.mergeSort_perm l₁ _).subset ha
    have hb' : b ∈ l₁ := h.symm.subset ((List.mergeSort_perm l₂ _).subset hb)
    apply hdistinct a ha' b hb'
    simp at hab hba; omega
  rw [this]

end Text
