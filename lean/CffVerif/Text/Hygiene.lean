/-
  T — name capture by the generated wrapper.

  Go code transcribed:
    * /repo/internal/gen.go, `generator.generateFlow` (and `generateParallel`):
          io.WriteString(w, "func() (err error) {\n")
          prologueTmpl.ExecuteTemplate(w, _paramExprTmpl, paramExprs(exprs))   -- prologue
          w.Write(b.Bytes())                                                   -- body
          io.WriteString(w, "}()")
    * /repo/internal/templates/prologue/param_expr.go.tmpl:
          {{ range . -}} {{ expr . }} := {{ rawExpr . }} {{ end }}
    * `exprPrinter.printExpr`: the variable is `fmt.Sprintf("_%d_%d", pos.Line, pos.Column)`;
      `printRawExpr`: the right-hand side is the user's expression, printed verbatim.
  So the user's i-th expression, written at the call site in environment ρ, is evaluated inside
  the closure in ρ[err ↦ nil][_l₁_c₁ ↦ v₁]…[_lᵢ₋₁_cᵢ₋₁ ↦ vᵢ₋₁].

  Properties served:
    * C15 (hoisted expressions mean what they meant at the call site):
      `capture_partial`, `prologue_values_ok`, `err_captured` (recorded finding F6),
      `hoisted_names_fresh`, `hoisted_ne_user`.

  Deliberately abstracted: values are `Nat` (nil/zero = 0); expressions are variables, literals
  and a binary operator, and have no side effects; an identifier is either of the form `_<l>_<c>`
  (`Ident.hoisted l c`, whoever wrote it — a user may write such a name, and then it is in `fv`)
  or any other name (`Ident.user`), i.e. the injectivity of `Sprintf("_%d_%d")` on strings is
  taken as the injectivity of the constructor; `printExpr`'s special cases (`nil`, expressions
  without a position) are not hoisted and not modelled; the names the body itself declares
  (`sched`, `tasks`, …) shadow nothing in the prologue because they are declared after it.
-/
namespace Text.Hygiene

inductive Ident where
  | user (s : String)
  | hoisted (line col : Nat)
  deriving Repr, DecidableEq

/-- The wrapper's named result. -/
def errName : Ident := .user "err"

inductive Expr where
  | var (x : Ident)
  | lit (n : Nat)
  | op (a b : Expr)
  deriving Repr

def Expr.fv : Expr → List Ident
  | .var x => [x]
  | .lit _ => []
  | .op a b => a.fv ++ b.fv

abbrev Env := Ident → Nat

def Expr.eval : Expr → Env → Nat
  | .var x, ρ => ρ x
  | .lit n, _ => n
  | .op a b, ρ => a.eval ρ + 2 * b.eval ρ

def update (ρ : Env) (x : Ident) (v : Nat) : Env := fun y => if y = x then v else ρ y

/-- A prologue line `_l_c := e`. -/
abbrev Line := (Nat × Nat) × Expr

def Line.name (l : Line) : Ident := .hoisted l.1.1 l.1.2

/-- The environment after executing the prologue lines `pre`. -/
def afterLines : Env → List Line → Env
  | ρ, [] => ρ
  | ρ, l :: rest => afterLines (update ρ l.name (l.2.eval ρ)) rest

/-- The environment in which the expression following the lines `pre` is evaluated inside
    `func() (err error) { pre… ; _ := e ; … }()`: the named result `err` starts as nil. -/
def wrapperEnv (ρ : Env) (pre : List Line) : Env := afterLines (update ρ errName 0) pre

/-- The values the prologue assigns, in order. -/
def prologueValuesFrom : Env → List Line → List Nat
  | _, [] => []
  | ρ, l :: rest => l.2.eval ρ :: prologueValuesFrom (update ρ l.name (l.2.eval ρ)) rest

def prologueValues (ρ : Env) (ls : List Line) : List Nat := prologueValuesFrom (update ρ errName 0) ls

theorem eval_congr (e : Expr) (ρ ρ' : Env) (h : ∀ x ∈ e.fv, ρ x = ρ' x) : e.eval ρ = e.eval ρ' := by
  induction e with
  | var x => exact h x (by simp [Expr.fv])
  | lit n => rfl
  | op a b iha ihb =>
    simp only [Expr.eval]
    rw [iha (fun x hx => h x (by simp [Expr.fv, hx])), ihb (fun x hx => h x (by simp [Expr.fv, hx]))]

theorem afterLines_other (ρ : Env) (pre : List Line) (x : Ident) (h : ∀ l ∈ pre, l.name ≠ x) :
    afterLines ρ pre x = ρ x := by
  induction pre generalizing ρ with
  | nil => rfl
  | cons l rest ih =>
    simp only [afterLines]
    rw [ih _ (fun l' hl' => h l' (List.mem_cons_of_mem _ hl'))]
    have : x ≠ l.name := fun e => h l List.mem_cons_self e.symm
    simp [update, this]

/-- **C15 (partial).** If the expression mentions neither `err` nor any earlier hoisted name, then
    evaluating it inside the wrapper gives what it gives at the call site. -/
theorem capture_partial (ρ : Env) (pre : List Line) (e : Expr)
    (herr : errName ∉ e.fv) (hpre : ∀ l ∈ pre, l.name ∉ e.fv) :
    e.eval (wrapperEnv ρ pre) = e.eval ρ := by
  apply eval_congr
  intro x hx
  unfold wrapperEnv
  rw [afterLines_other _ pre x (fun l hl e' => hpre l hl (e' ▸ hx))]
  have : x ≠ errName := fun e' => herr (e' ▸ hx)
  simp [update, this]

theorem prologueValuesFrom_eq (ρ₀ ρ : Env) : ∀ (pre ls : List Line), ρ₀ = afterLines (update ρ errName 0) pre →
    (∀ pre' l post, pre ++ ls = pre' ++ l :: post → errName ∉ l.2.fv ∧ ∀ l' ∈ pre', l'.name ∉ l.2.fv) →
    prologueValuesFrom ρ₀ ls = ls.map (fun l => l.2.eval ρ)
  | _, [], _, _ => rfl
  | pre, l :: rest, h0, h => by
    have hl := h pre l rest rfl
    have hv : l.2.eval ρ₀ = l.2.eval ρ := by
      rw [h0]; exact capture_partial ρ pre l.2 hl.1 hl.2
    have ih := prologueValuesFrom_eq (update ρ₀ l.name (l.2.eval ρ₀)) ρ (pre ++ [l]) rest
      (by
        rw [h0]
        have : ∀ (σ : Env) (a : List Line), afterLines σ (a ++ [l]) = update (afterLines σ a) l.name (l.2.eval (afterLines σ a)) := by
          intro σ a
          induction a generalizing σ with
          | nil => rfl
          | cons x xs ihx => simp only [List.cons_append, afterLines]; exact ihx _
        exact (this _ pre).symm)
      (by
        intro pre' l' post e
        exact h pre' l' post (by simpa [List.append_assoc] using e))
    simp only [prologueValuesFrom, List.map_cons, hv]
    rw [← hv, ih]

/-- **C15, whole prologue.** If no line mentions `err` or the name of an earlier line, the prologue
    computes exactly the call-site values of the user's expressions, in order. -/
theorem prologue_values_ok (ρ : Env) (ls : List Line)
    (h : ∀ pre l post, ls = pre ++ l :: post → errName ∉ l.2.fv ∧ ∀ l' ∈ pre, l'.name ∉ l.2.fv) :
    prologueValues ρ ls = ls.map (fun l => l.2.eval ρ) :=
  prologueValuesFrom_eq _ ρ [] ls rfl (by simpa using h)

/-- **C15 witness (recorded finding F6).** `cff.Params(err)`-style use of the enclosing function's
    `err`: at the call site `err` is 7, inside the wrapper the hoisted line reads the wrapper's own
    named result, which is still nil. -/
theorem err_captured :
    let ρ : Env := fun x => if x = errName then 7 else 1
    let e : Expr := .var errName
    e.eval ρ = 7 ∧ e.eval (wrapperEnv ρ []) = 0 ∧
    prologueValues ρ [((3, 5), .op (.var (.user "x")) (.var errName))] = [1] ∧
    [((3, 5), Expr.op (.var (.user "x")) (.var errName))].map (fun l => l.2.eval ρ) = [15] := by
  decide

/-- Second way to lose the call-site meaning: the user's expression mentions an earlier hoisted
    name (a user variable spelled `_3_5`). -/
example :
    let ρ : Env := fun x => if x = .hoisted 3 5 then 9 else 1
    let pre : List Line := [((3, 5), .lit 4)]
    let e : Expr := .var (.hoisted 3 5)
    e.eval ρ = 9 ∧ e.eval (wrapperEnv ρ pre) = 4 := by decide

/-- Non-vacuity of the positive direction. -/
example :
    let ρ : Env := fun x => if x = errName then 7 else if x = .user "x" then 3 else 1
    prologueValues ρ [((3, 5), .var (.user "x")), ((3, 9), .op (.var (.user "x")) (.lit 2))] = [3, 7] := by
  decide

/-- **C15 fresh names.** The hoisted variable names of distinct source positions are distinct. -/
theorem hoisted_names_fresh (p q : Nat × Nat) : Ident.hoisted p.1 p.2 = Ident.hoisted q.1 q.2 ↔ p = q := by
  constructor
  · intro h; injection h with h1 h2; exact Prod.ext h1 h2
  · intro h; rw [h]

/-- … so a prologue whose lines have pairwise distinct positions declares each name once. -/
theorem hoisted_names_nodup (ls : List Line) (h : (ls.map (·.1)).Nodup) : (ls.map Line.name).Nodup := by
  induction ls with
  | nil => exact List.nodup_nil
  | cons l rest ih =>
    simp only [List.map_cons, List.nodup_cons] at h ⊢
    refine ⟨?_, ih h.2⟩
    intro hm
    obtain ⟨l', hl', e⟩ := List.mem_map.mp hm
    apply h.1
    have : l'.1 = l.1 := (hoisted_names_fresh l'.1 l.1).mp e
    exact List.mem_map.mpr ⟨l', hl', this⟩

/-- A hoisted name is never the wrapper's `err` nor any other ordinary identifier. -/
theorem hoisted_ne_user (l c : Nat) (s : String) : Ident.hoisted l c ≠ Ident.user s := by
  intro h; cases h

end Text.Hygiene
