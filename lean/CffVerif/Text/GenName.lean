/-
  T — default output file name (`genFilename`, cmd/cff/main.go), on the base name as a list of
  characters.  cff only processes `.go` files; the theorems carry that guard explicitly.
-/
namespace Text

def testSuf : List Char := ['_', 't', 'e', 's', 't', '.', 'g', 'o']
def goSuf : List Char := ['.', 'g', 'o']
def genTestSuf : List Char := ['_', 'g', 'e', 'n', '_', 't', 'e', 's', 't', '.', 'g', 'o']
def genSuf : List Char := ['_', 'g', 'e', 'n', '.', 'g', 'o']

theorem testSuf_length : testSuf.length = 8 := rfl
theorem goSuf_length : goSuf.length = 3 := rfl
theorem genTestSuf_length : genTestSuf.length = 12 := rfl
theorem genSuf_length : genSuf.length = 7 := rfl

/-- `foo_test.go ↦ foo_gen_test.go`, `foo.go ↦ foo_gen.go`. -/
def genName (n : List Char) : List Char :=
  if testSuf.isSuffixOf n then n.take (n.length - testSuf.length) ++ genTestSuf
  else n.take (n.length - goSuf.length) ++ genSuf

def genNameS (s : String) : String := String.ofList (genName s.toList)

theorem split_of_suffix {suf n : List Char} (h : suf.isSuffixOf n = true) :
    n = n.take (n.length - suf.length) ++ suf := by
  rw [List.isSuffixOf_iff_suffix] at h
  exact (List.suffix_iff_eq_append.mp h).symm

/-- The 4th character from the end tells the two output forms apart. -/
theorem fourth_from_end (x : List Char) (suf : List Char) (c : Char) (h : suf.reverse[3]? = some c) :
    (x ++ suf).reverse[3]? = some c := by
  rw [List.reverse_append, List.getElem?_append_left]
  · exact h
  · exact (List.getElem?_eq_some_iff.mp h).1

theorem genName_length (n : List Char) (hgo : goSuf.isSuffixOf n = true) : (genName n).length = n.length + 4 := by
  unfold genName
  split
  · next ht =>
    have := split_of_suffix ht
    have hl : testSuf.length ≤ n.length := by
      have := congrArg List.length this; rw [List.length_append, List.length_take] at this; omega
    rw [List.length_append, List.length_take, genTestSuf_length]; rw [testSuf_length] at hl ⊢; omega
  · have := split_of_suffix hgo
    have hl : goSuf.length ≤ n.length := by
      have := congrArg List.length this; rw [List.length_append, List.length_take] at this; omega
    rw [List.length_append, List.length_take, genSuf_length]; rw [goSuf_length] at hl ⊢; omega

/-- **C16 name.** The generated file never overwrites its own source. -/
theorem genName_ne (n : List Char) (hgo : goSuf.isSuffixOf n = true) : genName n ≠ n := by
  intro h; have := genName_length n hgo; rw [h] at this; omega

/-- A test file yields a test file and a non-test file a non-test file. -/
theorem genName_test_iff (n : List Char) (hgo : goSuf.isSuffixOf n = true) :
    testSuf.isSuffixOf (genName n) = testSuf.isSuffixOf n := by
  unfold genName
  split
  · next ht =>
    rw [ht, List.isSuffixOf_iff_suffix]
    exact ⟨n.take (n.length - testSuf.length) ++ ['_', 'g', 'e', 'n'], by simp [genTestSuf, testSuf]⟩
  · next hnt =>
    have hnt' : testSuf.isSuffixOf n = false := by
      cases hq : testSuf.isSuffixOf n with
      | false => rfl
      | true => exact absurd hq hnt
    rw [hnt']
    cases hs : testSuf.isSuffixOf (List.take (n.length - goSuf.length) n ++ genSuf) with
    | false => rfl
    | true =>
      exfalso
      have e := split_of_suffix hs
      have h1 := fourth_from_end (List.take (n.length - goSuf.length) n) genSuf 'n' (by decide)
      have h2 := fourth_from_end ((List.take (n.length - goSuf.length) n ++ genSuf).take
                  ((List.take (n.length - goSuf.length) n ++ genSuf).length - testSuf.length)) testSuf 't' (by decide)
      rw [← e] at h2
      rw [h1] at h2; simp at h2

/-- Distinct sources of a directory get distinct outputs. -/
theorem genName_injective (a b : List Char) (ha : goSuf.isSuffixOf a = true) (hb : goSuf.isSuffixOf b = true)
    (h : genName a = genName b) : a = b := by
  have ta := genName_test_iff a ha
  have tb := genName_test_iff b hb
  rw [h] at ta
  have tab : testSuf.isSuffixOf a = testSuf.isSuffixOf b := ta.symm.trans tb
  unfold genName at h
  cases hta : testSuf.isSuffixOf a with
  | true =>
    have htb : testSuf.isSuffixOf b = true := by rw [← tab]; exact hta
    simp only [hta, htb, if_true] at h
    have := List.append_cancel_right h
    rw [split_of_suffix hta, split_of_suffix htb, this]
  | false =>
    have htb : testSuf.isSuffixOf b = false := by rw [← tab]; exact hta
    simp only [hta, htb] at h
    have := List.append_cancel_right h
    rw [split_of_suffix ha, split_of_suffix hb, this]

example : genNameS "foo_test.go" = "foo_gen_test.go" ∧ genNameS "a.b.go" = "a.b_gen.go"
    ∧ genNameS "x.go.go" = "x.go_gen.go" ∧ genNameS "t_test_test.go" = "t_test_gen_test.go" := by decide

end Text
