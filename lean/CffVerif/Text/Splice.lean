/-
  T — the byte-level splice of `generator.GenerateFile` (/repo/internal/gen.go, lines 80–145).

  Go code transcribed:

      lastOff := posFile.Offset(f.AST.Package)
      writeInvertedCffTag(&buff, bs[:lastOff])              -- `header`, a function of bs[:pkgOff]
      for _, gen := range f.Generators {
          buff.Write(bs[lastOff:posFile.Offset(gen.Pos())])  -- source text up to the directive
          gen.generate(... writer: &buff ...)                -- generated text `g`
          lastOff = posFile.Offset(gen.End())
      }
      buff.Write(bs[lastOff:])                               -- remaining source as-is

  `splice` is that loop (a left fold carrying the buffer and `lastOff`) over `List α`.

  Properties served:
    * C16 (everything outside the directive spans is copied verbatim and in order):
      `splice_eq`, `splice_length`, `splice_erase_eq`, `splice_erase_drop`, `splice_kept_sublist`,
      `splice_nogens`.

  Deliberately abstracted: the header (`writeInvertedCffTag` and the `//line` line of source-map
  mode) is an arbitrary list; each generator's output is an arbitrary list; the later
  parse / add-imports / `format.Node` pass over the buffer is not part of this model; Go panics on
  `bs[a:b]` with `a > b`, the model yields `[]` there (never reached under `Ordered`).
-/
namespace Text

variable {α : Type}

/-- Go's `bs[a:b]`. -/
def slice (l : List α) (a b : Nat) : List α := (l.take b).drop a

/-- One directive generator: `(posFile.Offset(gen.Pos()), posFile.Offset(gen.End()), text it writes)`. -/
abbrev Gen (α : Type) := Nat × Nat × List α

/-- One iteration of the `for _, gen := range f.Generators` loop; state = `(buff, lastOff)`. -/
def spliceStep (src : List α) (st : List α × Nat) (gen : Gen α) : List α × Nat :=
  (st.1 ++ slice src st.2 gen.1 ++ gen.2.2, gen.2.1)

/-- `GenerateFile`'s buffer just before the re-parse: header, then the loop, then the tail. -/
def splice (src : List α) (pkgOff : Nat) (header : List α) (gens : List (Gen α)) : List α :=
  let st := gens.foldl (spliceStep src) (header, pkgOff)
  st.1 ++ src.drop st.2

/-- Offsets are in file order: `lastOff ≤ start₁ ≤ end₁ ≤ start₂ ≤ … ≤ endₙ ≤ n`. -/
def Ordered : Nat → List (Gen α) → Nat → Prop
  | lastOff, [], n => lastOff ≤ n
  | lastOff, (s, e, _) :: rest, n => lastOff ≤ s ∧ s ≤ e ∧ Ordered e rest n

instance decOrdered : (lastOff : Nat) → (gens : List (Gen α)) → (n : Nat) → Decidable (Ordered lastOff gens n)
  | lastOff, [], n => inferInstanceAs (Decidable (lastOff ≤ n))
  | lastOff, (s, e, _) :: rest, n =>
    have := decOrdered e rest n
    inferInstanceAs (Decidable (lastOff ≤ s ∧ s ≤ e ∧ Ordered e rest n))

/-- The closed form: `src[lastOff:s₁] ++ g₁ ++ src[e₁:s₂] ++ g₂ ++ … ++ src[eₙ:]`. -/
def interleave (src : List α) : Nat → List (Gen α) → List α
  | lastOff, [] => src.drop lastOff
  | lastOff, (s, e, g) :: rest => slice src lastOff s ++ g ++ interleave src e rest

theorem foldl_spliceStep (src : List α) (gens : List (Gen α)) (buff : List α) (lastOff : Nat) :
    (gens.foldl (spliceStep src) (buff, lastOff)).1 ++ src.drop (gens.foldl (spliceStep src) (buff, lastOff)).2
      = buff ++ interleave src lastOff gens := by
  induction gens generalizing buff lastOff with
  | nil => rfl
  | cons gen rest ih =>
    obtain ⟨s, e, g⟩ := gen
    simp only [List.foldl_cons, spliceStep, interleave]
    rw [ih]; simp [List.append_assoc]

/-- **C16 splice, closed form.** The loop writes
    `header ++ src[pkgOff:s₁] ++ g₁ ++ src[e₁:s₂] ++ … ++ gₙ ++ src[eₙ:]`.
    (Holds for every offset list; `Ordered` is what makes the slices the real, non-degenerate
    slices — see `splice_length` and `splice_erase_eq`.) -/
theorem splice_eq (src : List α) (pkgOff : Nat) (header : List α) (gens : List (Gen α)) :
    splice src pkgOff header gens = header ++ interleave src pkgOff gens := by
  unfold splice; exact foldl_spliceStep src gens header pkgOff

/-- No generators ⇒ the source is copied from the package clause on. (In the tool `GenerateFile`
    returns before writing anything in that case; this is the degenerate case of the loop.) -/
theorem splice_nogens (src : List α) (pkgOff : Nat) (header : List α) :
    splice src pkgOff header [] = header ++ src.drop pkgOff := rfl

/-! ### slices -/

theorem slice_eq (l : List α) (a b : Nat) : slice l a b = (l.drop a).take (b - a) := by
  unfold slice; exact List.drop_take

theorem length_slice (l : List α) (a b : Nat) (hb : b ≤ l.length) : (slice l a b).length = b - a := by
  unfold slice; simp [List.length_drop, List.length_take, Nat.min_eq_left hb]

theorem drop_eq_slice_append (l : List α) (a b : Nat) (hab : a ≤ b) : l.drop a = slice l a b ++ l.drop b := by
  rw [slice_eq]
  have h := (List.take_append_drop (b - a) (l.drop a)).symm
  rw [List.drop_drop] at h
  have e : a + (b - a) = b := by omega
  rw [e] at h; exact h

theorem Ordered.le : ∀ {lastOff : Nat} {gens : List (Gen α)} {n : Nat}, Ordered lastOff gens n → lastOff ≤ n
  | _, [], _, h => h
  | _, (_, _, _) :: _, _, ⟨h1, h2, h3⟩ => Nat.le_trans h1 (Nat.le_trans h2 (Ordered.le h3))

/-- Total text of the spans cut out, and of the text generated in their place. -/
def cutLen : List (Gen α) → Nat
  | [] => 0
  | (s, e, _) :: rest => (e - s) + cutLen rest

def genLen : List (Gen α) → Nat
  | [] => 0
  | (_, _, g) :: rest => g.length + genLen rest

theorem cutLen_le : ∀ {lastOff : Nat} {gens : List (Gen α)} {n : Nat}, Ordered lastOff gens n →
    lastOff + cutLen gens ≤ n
  | _, [], _, h => by simp only [cutLen]; exact h
  | _, (s, e, _) :: rest, _, ⟨h1, h2, h3⟩ => by
    have := cutLen_le h3
    simp only [cutLen]; omega

theorem interleave_length (src : List α) : ∀ (lastOff : Nat) (gens : List (Gen α)),
    Ordered lastOff gens src.length →
    (interleave src lastOff gens).length + cutLen gens = (src.length - lastOff) + genLen gens
  | lastOff, [], _ => by simp [interleave, cutLen, genLen]
  | lastOff, (s, e, g) :: rest, ⟨h1, h2, h3⟩ => by
    have ih := interleave_length src e rest h3
    have he := Ordered.le h3
    have hc := cutLen_le h3
    simp only [interleave, cutLen, genLen, List.length_append]
    rw [length_slice src lastOff s (by omega)]
    omega

/-- Under `Ordered` nothing is lost or duplicated: the output has the header, the source from the
    package clause on minus exactly the directive spans, plus exactly the generated texts. -/
theorem splice_length (src : List α) (pkgOff : Nat) (header : List α) (gens : List (Gen α))
    (h : Ordered pkgOff gens src.length) :
    (splice src pkgOff header gens).length + cutLen gens
      = header.length + (src.length - pkgOff) + genLen gens := by
  rw [splice_eq, List.length_append]
  have := interleave_length src pkgOff gens h
  omega

/-! ### C16: the text outside the spans survives, in order -/

/-- Keep exactly the elements whose index (counted from `i`) satisfies `p`: the specification-side
    notion of "`src` with some positions removed". -/
def filterIdx (p : Nat → Bool) : Nat → List α → List α
  | _, [] => []
  | i, x :: xs => if p i then x :: filterIdx p (i + 1) xs else filterIdx p (i + 1) xs

/-- Position `i` lies in one of the directive spans `[s, e)`. -/
def inSpans (gens : List (Gen α)) (i : Nat) : Bool :=
  gens.any (fun g => decide (g.1 ≤ i) && decide (i < g.2.1))

/-- `src` with the directive spans removed. -/
def removeSpans (src : List α) (gens : List (Gen α)) : List α :=
  filterIdx (fun i => !inSpans gens i) 0 src

/-- The generators with their output erased. -/
def eraseGen (gens : List (Gen α)) : List (Gen α) := gens.map (fun g => (g.1, g.2.1, []))

theorem filterIdx_append (p : Nat → Bool) : ∀ (i : Nat) (l₁ l₂ : List α),
    filterIdx p i (l₁ ++ l₂) = filterIdx p i l₁ ++ filterIdx p (i + l₁.length) l₂
  | i, [], l₂ => by simp [filterIdx]
  | i, x :: xs, l₂ => by
    have ih := filterIdx_append p (i + 1) xs l₂
    have e : i + 1 + xs.length = i + (xs.length + 1) := by omega
    simp only [List.cons_append, filterIdx, List.length_cons, ih, e]
    split <;> simp

theorem filterIdx_take_drop (p : Nat → Bool) (k : Nat) (l : List α) (hk : k ≤ l.length) :
    filterIdx p 0 l = filterIdx p 0 (l.take k) ++ filterIdx p k (l.drop k) := by
  have h := filterIdx_append p 0 (l.take k) (l.drop k)
  rw [List.take_append_drop, List.length_take, Nat.min_eq_left hk, Nat.zero_add] at h
  exact h

theorem filterIdx_congr (p q : Nat → Bool) : ∀ (i : Nat) (l : List α),
    (∀ j, i ≤ j → j < i + l.length → p j = q j) → filterIdx p i l = filterIdx q i l
  | _, [], _ => rfl
  | i, x :: xs, h => by
    have ih := filterIdx_congr p q (i + 1) xs (fun j h1 h2 => h j (by omega) (by simp; omega))
    have hi := h i (Nat.le_refl _) (by simp)
    simp only [filterIdx, ih, hi]

theorem filterIdx_true (i : Nat) (l : List α) : filterIdx (fun _ => true) i l = l := by
  induction l generalizing i with
  | nil => rfl
  | cons x xs ih => simp [filterIdx, ih]

theorem filterIdx_false (i : Nat) (l : List α) : filterIdx (fun _ => false) i l = [] := by
  induction l generalizing i with
  | nil => rfl
  | cons x xs ih => simp [filterIdx, ih]

theorem filterIdx_sublist (p : Nat → Bool) (i : Nat) (l : List α) : (filterIdx p i l).Sublist l := by
  induction l generalizing i with
  | nil => exact List.Sublist.slnil
  | cons x xs ih =>
    simp only [filterIdx]
    split
    · exact (ih (i + 1)).cons_cons x
    · exact (ih (i + 1)).cons x

theorem inSpans_eraseGen (gens : List (Gen α)) (i : Nat) : inSpans (eraseGen gens) i = inSpans gens i := by
  unfold inSpans eraseGen; simp [List.any_map, Function.comp_def]

/-- Before `lastOff` there is no span. -/
theorem inSpans_lt : ∀ {lastOff : Nat} {gens : List (Gen α)} {n : Nat}, Ordered lastOff gens n →
    ∀ i, i < lastOff → inSpans gens i = false
  | _, [], _, _, _, _ => rfl
  | lastOff, (s, e, g) :: rest, n, ⟨h1, h2, h3⟩, i, hi => by
    have ih := inSpans_lt h3 i (by omega)
    unfold inSpans at ih ⊢
    simp only [List.any_cons, ih, Bool.or_false, Bool.and_eq_false_iff, decide_eq_false_iff_not]
    left; omega

theorem interleave_erase (src : List α) : ∀ (lastOff : Nat) (gens : List (Gen α)),
    Ordered lastOff gens src.length →
    interleave src lastOff (eraseGen gens) = filterIdx (fun i => !inSpans gens i) lastOff (src.drop lastOff)
  | lastOff, [], _ => by
    simp only [eraseGen, List.map_nil, interleave]
    exact (filterIdx_true lastOff _).symm
  | lastOff, (s, e, g) :: rest, ⟨h1, h2, h3⟩ => by
    have ih := interleave_erase src e rest h3
    have he : e ≤ src.length := Ordered.le h3
    have hrest := inSpans_lt h3
    -- the source from lastOff on is  src[lastOff:s] ++ src[s:e] ++ src[e:]
    have split1 : src.drop lastOff = slice src lastOff s ++ (slice src s e ++ src.drop e) := by
      rw [← drop_eq_slice_append src s e h2, ← drop_eq_slice_append src lastOff s h1]
    have hcons : ∀ i, inSpans ((s, e, g) :: rest) i = ((decide (s ≤ i) && decide (i < e)) || inSpans rest i) := by
      intro i; simp [inSpans]
    have e1 : eraseGen ((s, e, g) :: rest) = (s, e, []) :: eraseGen rest := rfl
    rw [e1]
    simp only [interleave, List.append_nil]
    rw [split1, filterIdx_append, filterIdx_append, length_slice src lastOff s (by omega),
      length_slice src s e he]
    have a1 : lastOff + (s - lastOff) = s := by omega
    have a2 : s + (e - s) = e := by omega
    rw [a1, a2]
    -- first part: all kept
    have p1 : filterIdx (fun i => !inSpans ((s, e, g) :: rest) i) lastOff (slice src lastOff s) = slice src lastOff s := by
      rw [filterIdx_congr _ (fun _ => true), filterIdx_true]
      intro j hj1 hj2
      rw [length_slice src lastOff s (by omega)] at hj2
      rw [hcons, hrest j (by omega)]
      have : ¬ s ≤ j := by omega
      simp [this]
    -- second part: all dropped
    have p2 : filterIdx (fun i => !inSpans ((s, e, g) :: rest) i) s (slice src s e) = [] := by
      rw [filterIdx_congr _ (fun _ => false), filterIdx_false]
      intro j hj1 hj2
      rw [length_slice src s e he] at hj2
      rw [hcons]
      have h1' : s ≤ j := hj1
      have h2' : j < e := by omega
      simp [h1', h2']
    -- third part: the induction hypothesis
    have p3 : filterIdx (fun i => !inSpans ((s, e, g) :: rest) i) e (src.drop e)
        = filterIdx (fun i => !inSpans rest i) e (src.drop e) := by
      apply filterIdx_congr
      intro j hj1 _
      rw [hcons]
      have : ¬ j < e := by omega
      simp [this]
    rw [p1, p2, p3, ih]; simp

/-- **C16 splice.** Erase the generated segments from the output: what is left is the header
    followed by exactly those source elements that sit at a position `≥ pkgOff` outside every
    directive span, in source order. -/
theorem splice_erase_eq (src : List α) (pkgOff : Nat) (header : List α) (gens : List (Gen α))
    (h : Ordered pkgOff gens src.length) :
    splice src pkgOff header (eraseGen gens)
      = header ++ filterIdx (fun i => decide (pkgOff ≤ i) && !inSpans gens i) 0 src := by
  rw [splice_eq, interleave_erase src pkgOff gens h]
  congr 1
  have hp : pkgOff ≤ src.length := Ordered.le h
  rw [filterIdx_take_drop _ pkgOff src hp]
  have z : filterIdx (fun i => decide (pkgOff ≤ i) && !inSpans gens i) 0 (src.take pkgOff) = [] := by
    rw [filterIdx_congr _ (fun _ => false), filterIdx_false]
    intro j _ hj
    rw [List.length_take, Nat.min_eq_left hp] at hj
    have : ¬ pkgOff ≤ j := by omega
    simp [this]
  rw [z, List.nil_append]
  apply filterIdx_congr
  intro j hj _
  simp [hj]

/-- **C16 splice**, in the form "`src` with the spans removed, from the package clause on". -/
theorem splice_erase_drop (src : List α) (pkgOff : Nat) (header : List α) (gens : List (Gen α))
    (h : Ordered pkgOff gens src.length) :
    splice src pkgOff header (eraseGen gens) = header ++ (removeSpans src gens).drop pkgOff := by
  rw [splice_eq, interleave_erase src pkgOff gens h]
  congr 1
  have hp : pkgOff ≤ src.length := Ordered.le h
  unfold removeSpans
  rw [filterIdx_take_drop _ pkgOff src hp]
  have z : filterIdx (fun i => !inSpans gens i) 0 (src.take pkgOff) = src.take pkgOff := by
    rw [filterIdx_congr _ (fun _ => true), filterIdx_true]
    intro j _ hj
    rw [List.length_take, Nat.min_eq_left hp] at hj
    rw [inSpans_lt h j (by omega)]; rfl
  rw [z]
  have hl : (src.take pkgOff).length = pkgOff := by rw [List.length_take, Nat.min_eq_left hp]
  exact (List.drop_left' hl).symm

/-- Same relative order: the surviving user text is a subsequence of the source. -/
theorem splice_kept_sublist (src : List α) (pkgOff : Nat) (gens : List (Gen α)) :
    (filterIdx (fun i => decide (pkgOff ≤ i) && !inSpans gens i) 0 src).Sublist src :=
  filterIdx_sublist _ _ _

/-! ### non-vacuity -/

/-- `"//t\npkg;aF(1) b P(2,3) c"` with the two directive spans `F(1)` = [9,13) and `P(2,3)` = [16,22)
    and the package clause at offset 4. -/
def exSrc : List Char :=
  ['/', '/', 't', '\n', 'p', 'k', 'g', ';', 'a', 'F', '(', '1', ')', ' ', 'b', ' ', 'P', '(', '2', ',', '3', ')', ' ', 'c']

def exGens : List (Gen Char) := [(9, 13, ['X', 'X']), (16, 22, ['Y'])]

example : Ordered 4 exGens exSrc.length := by decide

example : splice exSrc 4 ['/', '/', 'h', '\n'] exGens
    = ['/', '/', 'h', '\n', 'p', 'k', 'g', ';', 'a', 'X', 'X', ' ', 'b', ' ', 'Y', ' ', 'c'] := by decide

example : splice exSrc 4 ['/', '/', 'h', '\n'] (eraseGen exGens)
    = ['/', '/', 'h', '\n', 'p', 'k', 'g', ';', 'a', ' ', 'b', ' ', ' ', 'c'] := by decide

example : (removeSpans exSrc exGens).drop 4 = ['p', 'k', 'g', ';', 'a', ' ', 'b', ' ', ' ', 'c'] := by decide

/-- Out-of-order offsets are rejected by `Ordered` (the hypothesis is not vacuous either way). -/
example : ¬ Ordered 4 ([(16, 22, []), (9, 13, [])] : List (Gen Char)) 24 := by decide

end Text
