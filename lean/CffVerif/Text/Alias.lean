/-
  T — import alias synthesis (`printImportAlias`, internal/gen.go).
-/
namespace Text

structure AliasSt where
  addImports : List (String × String) := []   -- import path ↦ name ("" = implicit)
  aliases    : List String := []              -- names taken in the file
  deriving Repr, DecidableEq

/-- `filepath.Base` for slash-separated import paths. -/
def baseName (p : String) : String := ((p.splitOn "/").getLast?).getD p

def maxLen : List String → Nat
  | [] => 0
  | a :: as => max a.length (maxLen as)

theorem length_le_maxLen {a : String} {as : List String} (h : a ∈ as) : a.length ≤ maxLen as := by
  induction as with
  | nil => simp at h
  | cons x xs ih =>
    simp only [List.mem_cons] at h
    simp only [maxLen]
    rcases h with rfl | h
    · omega
    · have := ih h; omega

/-- The `for` loop: prepend `_` until the name is free. -/
def findAlias (aliases : List String) : Nat → String → String
  | 0, alias => alias
  | n + 1, alias => if alias ∈ aliases then findAlias aliases n ("_" ++ alias) else alias

def fuelFor (aliases : List String) (alias : String) : Nat := (maxLen aliases + 2) - alias.length

def printImportAlias (path alias : String) (st : AliasSt) : String × AliasSt :=
  match st.addImports.lookup path with
  | some name => (if name == "" then baseName path else name, st)
  | none =>
    let a := findAlias st.aliases (fuelFor st.aliases alias) alias
    (a, { addImports := st.addImports ++ [(path, if a == baseName path then "" else a)],
          aliases := a :: st.aliases })

theorem findAlias_fresh (aliases : List String) : ∀ (n : Nat) (alias : String),
    (maxLen aliases + 2) - alias.length ≤ n → findAlias aliases n alias ∉ aliases := by
  intro n
  induction n with
  | zero =>
    intro alias hn hm
    simp only [findAlias] at hm
    have := length_le_maxLen hm; omega
  | succ n ih =>
    intro alias hn
    simp only [findAlias]
    split
    · next hm =>
      apply ih
      have := length_le_maxLen hm
      have h1 : ("_" ++ alias).length = alias.length + 1 := by
        rw [String.length_append]; have : "_".length = 1 := by decide
        omega
      rw [h1]; omega
    · next hm => exact hm

/-- The loop terminates with a name that is not taken. -/
theorem printImportAlias_fresh (path alias : String) (st : AliasSt)
    (hnew : st.addImports.lookup path = none) :
    (printImportAlias path alias st).1 ∉ st.aliases ∧
    (printImportAlias path alias st).1 ∈ (printImportAlias path alias st).2.aliases := by
  simp only [printImportAlias, hnew]
  exact ⟨findAlias_fresh st.aliases _ alias (Nat.le_refl _), by simp⟩

/-- Two different new paths never get the same name. -/
theorem printImportAlias_distinct (p1 a1 p2 a2 : String) (st : AliasSt)
    (h1 : st.addImports.lookup p1 = none)
    (h2 : (printImportAlias p1 a1 st).2.addImports.lookup p2 = none) :
    (printImportAlias p2 a2 (printImportAlias p1 a1 st).2).1 ≠ (printImportAlias p1 a1 st).1 := by
  intro e
  have f2 := (printImportAlias_fresh p2 a2 _ h2).1
  have m1 := (printImportAlias_fresh p1 a1 st h1).2
  rw [e] at f2; exact f2 m1

end Text
