/-
  T — the per-file type ids behind the generated variable names `v<N>` (internal/gen.go
  `printTypeHash`: a typeutil.Map from type to id, `nextTypeID` starting at 1, an id handed out the
  first time a type is printed).  The ids are a function of the order in which the templates print
  types — slices and template text, never a Go map iteration — so they are deterministic (C17);
  the flow template prints the Params types first, in order, so Params value i is `v<i+1>`
  (used by the harness to name a user variable like the generated one).
-/
namespace Text

/-- State of the generator: the types seen so far, in first-use order (type τ has id = position + 1). -/
abbrev IdSt := List Nat

def typeId (st : IdSt) (τ : Nat) : IdSt × Nat :=
  match st.idxOf? τ with
  | some i => (st, i + 1)
  | none => (st ++ [τ], st.length + 1)

/-- Ids handed out while printing a sequence of types. -/
def idsOf : IdSt → List Nat → IdSt × List Nat
  | st, [] => (st, [])
  | st, τ :: rest =>
    let (st1, i) := typeId st τ
    let (st2, is) := idsOf st1 rest
    (st2, i :: is)

theorem typeId_pos (st : IdSt) (τ : Nat) : 0 < (typeId st τ).2 := by
  unfold typeId; split <;> simp

/-- A type keeps its id: printing it again yields the same number and does not change the state. -/
theorem typeId_stable (st : IdSt) (τ : Nat) :
    typeId (typeId st τ).1 τ = ((typeId st τ).1, (typeId st τ).2) := by
  unfold typeId
  cases h : st.idxOf? τ with
  | some i => simp [h]
  | none =>
    have hn : τ ∉ st := by
      intro hm
      have := List.idxOf?_eq_none_iff.mp h
      exact this hm
    have : (st ++ [τ]).idxOf? τ = some st.length := by
      rw [List.idxOf?_eq_some_iff]
      refine ⟨by simp, ?_, ?_⟩
      · simp
      · intro j hj
        have : j < st.length := hj
        simp only [List.getElem_append_left this]
        intro e
        exact hn (e ▸ List.getElem_mem this)
    simp [this]

/-- **C17 ids.** The ids are determined by the printing order alone: Params types printed first,
    without repetition, get the ids 1, 2, 3, … in order. -/
theorem idsOf_fresh_prefix : ∀ (ps : List Nat) (st : IdSt), (st ++ ps).Nodup →
    (idsOf st ps).2 = (List.range ps.length).map (fun i => st.length + i + 1) ∧ (idsOf st ps).1 = st ++ ps := by
  intro ps
  induction ps with
  | nil => intro st _; simp [idsOf]
  | cons τ rest ih =>
    intro st hnd
    have hτ : τ ∉ st := by
      intro hm
      have := List.nodup_append.mp hnd
      exact this.2.2 τ hm τ (by simp) rfl
    have hidx : st.idxOf? τ = none := List.idxOf?_eq_none_iff.mpr hτ
    have h1 : typeId st τ = (st ++ [τ], st.length + 1) := by simp [typeId, hidx]
    have hnd' : ((st ++ [τ]) ++ rest).Nodup := by simpa [List.append_assoc] using hnd
    obtain ⟨i1, i2⟩ := ih (st ++ [τ]) hnd'
    simp only [idsOf, h1]
    constructor
    · rw [i1]
      have hl : (st ++ [τ]).length = st.length + 1 := by simp
      rw [hl]
      rw [show (τ :: rest).length = rest.length + 1 from rfl, List.range_succ_eq_map]
      simp only [List.map_cons, List.map_map, Nat.add_zero]
      congr 1
      apply List.map_congr_left
      intro a _
      simp only [Function.comp]
      omega
    · rw [i2]; simp [List.append_assoc]

example : (idsOf [] [7, 3, 7, 5, 3]).2 = [1, 2, 1, 3, 2] := by decide

end Text
