/-
  T — which files one run of `cff` writes (cmd/cff/main.go `run`: the `-file=IN[=OUT]` arguments
  select cff files of the package by base name; a selected file is written to OUT if given and to
  the documented name `genFilename IN` next to it otherwise; without `-file` every cff file of the
  package is written to its documented name).  The driver's FS check uses `outputsOf`.
-/
import CffVerif.Text.GenName

namespace Text

/-- One `-file` argument. -/
structure FileArg where
  name : String
  out : Option String := none
  deriving Repr, DecidableEq

/-- Path written for one selected input. -/
def outPath (dir : String) (a : FileArg) : String := a.out.getD (dir ++ "/" ++ genNameS a.name)

/-- The paths `cff` writes for a package in directory `dir` whose cff files are `inputs`. -/
def outputsOf (dir : String) (inputs : List String) (args : List FileArg) : List String :=
  if args.isEmpty then inputs.map fun i => dir ++ "/" ++ genNameS i
  else (args.filter fun a => inputs.contains a.name).map (outPath dir)

/-- **C16 documented paths.** Every path written is either the explicit OUT of a `-file` argument
    that names a cff file of the package, or the documented name of such a file — nothing else. -/
theorem outputsOf_documented (dir : String) (inputs : List String) (args : List FileArg) (p : String)
    (hp : p ∈ outputsOf dir inputs args) :
    (∃ a ∈ args, a.name ∈ inputs ∧ a.out = some p) ∨ (∃ i ∈ inputs, p = dir ++ "/" ++ genNameS i) := by
  unfold outputsOf at hp
  split at hp
  · right
    obtain ⟨i, hi, rfl⟩ := List.mem_map.mp hp
    exact ⟨i, hi, rfl⟩
  · obtain ⟨a, ha, rfl⟩ := List.mem_map.mp hp
    obtain ⟨ha1, ha2⟩ := List.mem_filter.mp ha
    have hin : a.name ∈ inputs := List.contains_iff_mem.mp ha2
    cases ho : a.out with
    | some o => left; exact ⟨a, ha1, hin, by simp [outPath, ho]⟩
    | none => right; exact ⟨a.name, hin, by simp [outPath, ho]⟩

/-- Exactly one file per selected input: each `-file` argument naming a cff file yields one path,
    in argument order; an explicit OUT is honoured for the argument that carries it. -/
theorem outputsOf_per_arg (dir : String) (inputs : List String) (args : List FileArg) (h : args ≠ []) :
    outputsOf dir inputs args = (args.filter fun a => inputs.contains a.name).map (outPath dir) ∧
    ∀ a ∈ args, a.name ∈ inputs → ∀ o, a.out = some o → o ∈ outputsOf dir inputs args := by
  have he : args.isEmpty = false := by cases args <;> simp_all
  refine ⟨by simp [outputsOf, he], ?_⟩
  intro a ha hin o ho
  simp only [outputsOf, he, Bool.false_eq_true, if_false]
  exact List.mem_map.mpr ⟨a, List.mem_filter.mpr ⟨ha, List.contains_iff_mem.mpr hin⟩, by simp [outPath, ho]⟩

example : outputsOf "p" ["foo.go", "a.b.go", "foo_test.go"] [{ name := "foo.go", out := some "p/x.go" }, { name := "a.b.go" }, { name := "nope.go" }]
    = ["p/x.go", "p/a.b_gen.go"] ∧
    outputsOf "p" ["foo.go", "foo_test.go"] [] = ["p/foo_gen.go", "p/foo_gen_test.go"] := by decide

end Text
