/-
  T — directive elimination: which `cff.Flow` / `cff.Parallel` calls the tool finds and replaces.

  Go code transcribed:
    * /repo/internal/compile.go, `compiler.compileFile`: `astWalk(astFile, func(n ast.Node) bool …)`
      (`ast.Walk` with a visitor function, /repo/internal/ast.go).  For an `*ast.CallExpr` whose
      callee resolves into the cff package the visitor registers a `flowGenerator` /
      `parallelGenerator` and **returns false**, so `ast.Walk` does not visit the call's arguments:
      a directive written inside another directive's task literal is never registered.  For any
      other node it returns true (keep looking), so ordinary calls are descended into.
    * /repo/internal/gen.go, `generator.GenerateFile`: only the registered generators' spans
      `[gen.Pos(), gen.End())` are replaced by generated text.
    * /repo/internal/gen.go, `generateFlow` / `exprPrinter.printExpr` / `printRawExpr` and
      /repo/internal/templates/prologue/param_expr.go.tmpl: the generated text hoists each user
      expression verbatim (`{{ expr . }} := {{ rawExpr . }}`, `rawExpr` = `format.Node` of the
      original AST node) — the generator never looks inside it.

  Properties served:
    * C13 (the output contains no cff directive any more / compiles without the cff tag):
      `walker_partial` (true when no directive is nested in another directive's arguments),
      `walker_nested_witness` (the recorded finding F8: a nested directive survives),
      `rewrite_idempotent_on_clean`, `rewrite_preserves_nondirective`.

  Deliberately abstracted: a syntax tree has only leaves, ordinary calls `f(args…)`, directive
  calls, and already-generated closures (`func() (err error) { _l_c := arg; … }()`, whose hoisted
  expressions are ordinary Go again and *are* visited if the tool is run on its own output);
  statements, function literals and every other Go node are "calls" that are descended into.
  Nested cff calls that are not Flow/Parallel (cff.Task, cff.Params, …) are part of the directive's
  own syntax and are not `directive` nodes here; `directive` stands for Flow/Parallel only.
-/
namespace Text

inductive Node where
  | leaf (n : Nat)
  | call (f : Nat) (args : List Node)
  | directive (args : List Node)
  | generated (hoisted : List Node)
  deriving Repr

mutual
/-- The tool's effect on the tree: every directive reached by the walker is replaced by a generated
    closure that holds the directive's argument expressions verbatim. -/
def rewrite : Node → Node
  | .leaf n => .leaf n
  | .call f args => .call f (rewriteList args)          -- `return true`: keep looking
  | .directive args => .generated args                  -- registered; `return false`: args not visited
  | .generated hoisted => .generated (rewriteList hoisted)  -- an ordinary func literal call
def rewriteList : List Node → List Node
  | [] => []
  | t :: ts => rewrite t :: rewriteList ts
end

mutual
/-- Some directive call occurs in the tree. -/
def hasDirective : Node → Bool
  | .leaf _ => false
  | .call _ args => hasDirectiveList args
  | .directive _ => true
  | .generated hoisted => hasDirectiveList hoisted
def hasDirectiveList : List Node → Bool
  | [] => false
  | t :: ts => hasDirective t || hasDirectiveList ts
end

mutual
/-- Some directive call occurs inside the arguments of another directive call. -/
def nestedDirective : Node → Bool
  | .leaf _ => false
  | .call _ args => nestedDirectiveList args
  | .directive args => hasDirectiveList args
  | .generated hoisted => nestedDirectiveList hoisted
def nestedDirectiveList : List Node → Bool
  | [] => false
  | t :: ts => nestedDirective t || nestedDirectiveList ts
end

theorem rewriteList_eq_map (ts : List Node) : rewriteList ts = ts.map rewrite := by
  induction ts with
  | nil => rfl
  | cons t ts ih => simp [rewriteList, ih]

theorem hasDirectiveList_eq_any (ts : List Node) : hasDirectiveList ts = ts.any hasDirective := by
  induction ts with
  | nil => rfl
  | cons t ts ih => simp [hasDirectiveList, ih]

theorem nestedDirectiveList_eq_any (ts : List Node) : nestedDirectiveList ts = ts.any nestedDirective := by
  induction ts with
  | nil => rfl
  | cons t ts ih => simp [nestedDirectiveList, ih]

mutual
/-- Nodes outside directives are left alone: a tree without directives is not changed at all. -/
theorem rewrite_preserves_nondirective : (t : Node) → hasDirective t = false → rewrite t = t
  | .leaf _, _ => by simp [rewrite]
  | .call f args, h => by
    simp only [hasDirective] at h
    simp only [rewrite, rewriteList_preserves args h]
  | .directive _, h => by simp [hasDirective] at h
  | .generated hoisted, h => by
    simp only [hasDirective] at h
    simp only [rewrite, rewriteList_preserves hoisted h]
theorem rewriteList_preserves : (ts : List Node) → hasDirectiveList ts = false → rewriteList ts = ts
  | [], _ => rfl
  | t :: ts, h => by
    simp only [hasDirectiveList, Bool.or_eq_false_iff] at h
    simp only [rewriteList, rewrite_preserves_nondirective t h.1, rewriteList_preserves ts h.2]
end

mutual
/-- **C13 (partial).** If no directive sits inside another directive's arguments, the rewritten
    tree contains no directive. -/
theorem walker_partial : (t : Node) → nestedDirective t = false → hasDirective (rewrite t) = false
  | .leaf _, _ => by simp [rewrite, hasDirective]
  | .call f args, h => by
    simp only [nestedDirective] at h
    simp only [rewrite, hasDirective, walker_partial_list args h]
  | .directive args, h => by
    simp only [nestedDirective] at h
    simp only [rewrite, hasDirective, h]
  | .generated hoisted, h => by
    simp only [nestedDirective] at h
    simp only [rewrite, hasDirective, walker_partial_list hoisted h]
theorem walker_partial_list : (ts : List Node) → nestedDirectiveList ts = false →
    hasDirectiveList (rewriteList ts) = false
  | [], _ => rfl
  | t :: ts, h => by
    simp only [nestedDirectiveList, Bool.or_eq_false_iff] at h
    simp only [rewriteList, hasDirectiveList, walker_partial t h.1, walker_partial_list ts h.2,
      Bool.or_self]
end

mutual
/-- The converse direction, so that the partial theorem is sharp: the directives left in the output
    are exactly the nested ones. -/
theorem hasDirective_rewrite : (t : Node) → hasDirective (rewrite t) = nestedDirective t
  | .leaf _ => by simp [rewrite, hasDirective, nestedDirective]
  | .call f args => by simp only [rewrite, hasDirective, nestedDirective, hasDirectiveList_rewriteList args]
  | .directive args => by simp only [rewrite, hasDirective, nestedDirective]
  | .generated hoisted => by
    simp only [rewrite, hasDirective, nestedDirective, hasDirectiveList_rewriteList hoisted]
theorem hasDirectiveList_rewriteList : (ts : List Node) →
    hasDirectiveList (rewriteList ts) = nestedDirectiveList ts
  | [] => rfl
  | t :: ts => by
    simp only [rewriteList, hasDirectiveList, nestedDirectiveList, hasDirective_rewrite t,
      hasDirectiveList_rewriteList ts]
end

/-- On a clean tree (no nested directive) one run of the tool reaches a fixed point: running it on
    its own output changes nothing. -/
theorem rewrite_idempotent_on_clean (t : Node) (h : nestedDirective t = false) :
    rewrite (rewrite t) = rewrite t :=
  rewrite_preserves_nondirective _ (walker_partial t h)

/-- **C13 witness (recorded finding F8).** `cff.Flow(…, cff.Task(func() { cff.Flow(…) }))`: the inner
    directive sits in a task literal (`call 7`) of the outer one; the outer one is replaced, the inner
    one is copied verbatim into the generated closure and survives. -/
theorem walker_nested_witness :
    let t := Node.call 0 [.directive [.leaf 1, .call 7 [.directive [.leaf 2]]]]
    nestedDirective t = true ∧ hasDirective (rewrite t) = true ∧
    rewrite t = .call 0 [.generated [.leaf 1, .call 7 [.directive [.leaf 2]]]] :=
  ⟨by decide, by decide, rfl⟩

/-- Non-vacuity of the positive direction: two sibling top-level directives are both eliminated. -/
example :
    let t := Node.call 0 [.directive [.leaf 1], .call 3 [.directive [.call 7 [.leaf 2]]]]
    nestedDirective t = false ∧ hasDirective t = true ∧ hasDirective (rewrite t) = false := by
  decide

end Text
