/-
  E — EmitterStack (emitter_stack.go): 0 emitters ↦ no-op, 1 ↦ itself, n ↦ one-level flatten.
  Stacks are always flat lists of non-stack emitters (by induction over the constructor).
-/
namespace Emitter

inductive Atom where
  | nop
  | leaf (i : Nat)
  deriving DecidableEq, Repr

inductive Em where
  | atom (a : Atom)
  | stack (as : List Atom)
  deriving DecidableEq, Repr

def Em.atoms : Em → List Atom
  | .atom a => [a]
  | .stack as => as

/-- `cff.EmitterStack(emitters...)`. -/
def mkStack : List Em → Em
  | [] => .atom .nop
  | [e] => e
  | es => .stack (es.flatMap Em.atoms)

def Atom.leafId : Atom → Option Nat
  | .nop => none
  | .leaf i => some i

/-- The leaf emitters (with multiplicity, in order) that receive each event sent to `e`. -/
def Em.receivers (e : Em) : List Nat := e.atoms.filterMap Atom.leafId

/-- Broadcast: every receiver occurrence gets the whole event list, in order. -/
def Em.deliver {Event : Type} (e : Em) (evs : List Event) : List (Nat × List Event) :=
  e.receivers.map (fun i => (i, evs))

/-- **C18 stack law.** Combining emitters with `EmitterStack` — however nested — delivers to every
    leaf occurrence exactly what it would receive alone. -/
theorem receivers_mkStack (es : List Em) : (mkStack es).receivers = es.flatMap Em.receivers := by
  match es with
  | [] => simp [mkStack, Em.receivers, Em.atoms, Atom.leafId]
  | [e] => simp [mkStack]
  | e1 :: e2 :: rest =>
    simp only [mkStack, Em.receivers, Em.atoms]
    induction (e1 :: e2 :: rest) with
    | nil => simp
    | cons x xs ih => simp [List.flatMap_cons, List.filterMap_append, ih, Em.receivers]

theorem deliver_mkStack {Event : Type} (es : List Em) (evs : List Event) :
    (mkStack es).deliver evs = es.flatMap (fun e => e.deliver evs) := by
  simp only [Em.deliver, receivers_mkStack, List.map_flatMap]

end Emitter
