/-
  T — the source-map "magic token" (/repo/internal/gen.go).

  Go code transcribed:
    * `newGenerator`:   `magic: fmt.Sprintf("CFF_MAGIC_TOKEN=%d\n", rand.New(opts.RandSrc).Int())`
      — a fresh random token per generator.
    * `generator.printMagic` (template function `magic`, called at the top of
      templates/flow/flow.go.tmpl and templates/parallel/parallel.go.tmpl):
          if !g.sourceMapped { return "" }
          return fmt.Sprintf("\n// %v", g.magic)
      — in source-map mode a comment whose text is the token; in base mode nothing.
    * `generator.resetMagicTokens` (run at the end of `GenerateFile` when `g.sourceMapped`):
          for _, cg := range file.Comments { if cg.Text() == g.magic { magicList = append(…) } }
          for _, magic := range magicList {
              w.Write(bb[offset:pos.Offset])
              fmt.Fprintf(w, "/*line %v:%d*/", outputPath, pos.Line+1)
              offset = …magic.End()…
          }
          w.Write(bb[offset:])
      — every comment whose text equals the token is replaced by a line directive naming the
      line after the comment's own position in the output; everything else is copied.

  Properties served:
    * C17 (the output is a function of the input, not of the generator's random choices):
      `magic_independent`, `magic_base_independent` (and `reset_render` = the token-free closed form).
    * C20 (source-map mode and base mode emit the same code up to comments):
      `magic_strip`.

  Deliberately abstracted: the output is a token list, one token per line (the "line" of a token is
  the number of tokens before it, `pos.Line+1` is that number plus 2 in 1-based lines); a comment
  *group* is one `comment` token (in the real file an adjacent user comment would join the magic
  comment's group and `cg.Text()` would no longer match — the templates put the magic comment on a
  line of its own after a code line); `format.Node` between rendering and resetting is the
  identity on tokens.  `reset` also replaces a *user's* comment that happens to equal the token:
  that is why `magic_independent` needs the freshness hypothesis, exactly as the tool relies on the token
  being improbable.
-/
namespace Text.Magic

/-- Output tokens. -/
inductive Tok where
  | code (s : String)
  | comment (s : String)
  deriving Repr, DecidableEq

/-- Template-level tokens: user/generated tokens, or a call of the template function `magic`. -/
inductive TTok where
  | tok (t : Tok)
  | marker
  deriving Repr, DecidableEq

/-- Template execution (`printMagic`): the marker becomes a comment holding the token in
    source-map mode and nothing in base mode. -/
def render (magic : String) (sm : Bool) : List TTok → List Tok
  | [] => []
  | .tok t :: rest => t :: render magic sm rest
  | .marker :: rest => if sm then .comment magic :: render magic sm rest else render magic sm rest

/-- `fmt.Sprintf("line %v:%d", outputPath, pos.Line+1)`; `line` = 0-based index of the comment. -/
def lineDir (file : String) (line : Nat) : String :=
  "line " ++ file ++ ":" ++ toString (line + 2)

/-- `resetMagicTokens`, scanning from output line `line`. -/
def resetFrom (magic file : String) : Nat → List Tok → List Tok
  | _, [] => []
  | line, .code s :: rest => .code s :: resetFrom magic file (line + 1) rest
  | line, .comment s :: rest =>
    if s = magic then .comment (lineDir file line) :: resetFrom magic file (line + 1) rest
    else .comment s :: resetFrom magic file (line + 1) rest

def reset (magic file : String) (toks : List Tok) : List Tok := resetFrom magic file 0 toks

def stripComments : List Tok → List Tok
  | [] => []
  | .code s :: rest => .code s :: stripComments rest
  | .comment _ :: rest => stripComments rest

/-- The user's tokens do not contain the magic token as a comment text. -/
def Fresh (magic : String) (body : List TTok) : Prop := TTok.tok (.comment magic) ∉ body

instance (magic : String) (body : List TTok) : Decidable (Fresh magic body) :=
  inferInstanceAs (Decidable (_ ∉ _))

/-- What source-map mode is meant to emit, written without any token: each marker becomes the
    line directive for its own output line. -/
def expectedFrom (file : String) : Nat → List TTok → List Tok
  | _, [] => []
  | line, .tok t :: rest => t :: expectedFrom file (line + 1) rest
  | line, .marker :: rest => .comment (lineDir file line) :: expectedFrom file (line + 1) rest

theorem resetFrom_render (magic file : String) (body : List TTok) (h : Fresh magic body) (line : Nat) :
    resetFrom magic file line (render magic true body) = expectedFrom file line body := by
  induction body generalizing line with
  | nil => rfl
  | cons t rest ih =>
    have hrest : Fresh magic rest := fun hm => h (List.mem_cons_of_mem _ hm)
    cases t with
    | marker => simp [render, resetFrom, expectedFrom, ih hrest]
    | tok t =>
      cases t with
      | code s => simp [render, resetFrom, expectedFrom, ih hrest]
      | comment s =>
        have hs : s ≠ magic := by
          intro e; subst e; exact h List.mem_cons_self
        simp [render, resetFrom, expectedFrom, ih hrest, hs]

/-- Closed form of the source-map output: it does not mention the token. -/
theorem reset_render (magic file : String) (body : List TTok) (h : Fresh magic body) :
    reset magic file (render magic true body) = expectedFrom file 0 body :=
  resetFrom_render magic file body h 0

/-- **C17 magic token.** Two runs that drew different random tokens (neither of which the user
    wrote as a comment) write the same file in source-map mode. -/
theorem magic_independent (m1 m2 file : String) (body : List TTok) (h1 : Fresh m1 body) (h2 : Fresh m2 body) :
    reset m1 file (render m1 true body) = reset m2 file (render m2 true body) := by
  rw [reset_render m1 file body h1, reset_render m2 file body h2]

/-- **C17, base mode.** Without source maps no marker is written at all: the rendering does not
    depend on the token (and `GenerateFile` does not call `resetMagicTokens`). -/
theorem magic_base_independent (m1 m2 : String) (body : List TTok) : render m1 false body = render m2 false body := by
  induction body with
  | nil => rfl
  | cons t rest ih => cases t <;> simp [render, ih]

/-- In base mode the output is exactly the non-marker tokens. -/
theorem render_false (m : String) (body : List TTok) :
    render m false body = body.filterMap (fun t => match t with | .tok t => some t | .marker => none) := by
  induction body with
  | nil => rfl
  | cons t rest ih => cases t <;> simp [render, ih]

theorem stripComments_resetFrom (m file : String) (line : Nat) (toks : List Tok) :
    stripComments (resetFrom m file line toks) = stripComments toks := by
  induction toks generalizing line with
  | nil => rfl
  | cons t rest ih =>
    cases t with
    | code s => simp [resetFrom, stripComments, ih]
    | comment s =>
      simp only [resetFrom]
      split <;> simp [stripComments, ih]

theorem stripComments_render (m : String) (body : List TTok) :
    stripComments (render m true body) = stripComments (render m false body) := by
  induction body with
  | nil => rfl
  | cons t rest ih =>
    cases t with
    | marker => simp [render, stripComments, ih]
    | tok t => cases t <;> simp [render, stripComments, ih]

/-- **C20 helper.** Markers and the line directives that replace them are comments: the source-map
    output and the base output have the same code. (No freshness needed.) -/
theorem magic_strip (m file : String) (body : List TTok) :
    stripComments (reset m file (render m true body)) = stripComments (render m false body) := by
  unfold reset; rw [stripComments_resetFrom, stripComments_render]

/-! ### non-vacuity -/

def exBody : List TTok :=
  [.tok (.code "func() (err error) {"), .tok (.code "_3_5 := f"), .marker, .tok (.comment "user"),
   .tok (.code "sched := …"), .tok (.code "}()"), .marker, .tok (.code "x")]

example : reset "CFF_MAGIC_TOKEN=1\n" "out.go" (render "CFF_MAGIC_TOKEN=1\n" true exBody)
    = [.code "func() (err error) {", .code "_3_5 := f", .comment "line out.go:4", .comment "user",
       .code "sched := …", .code "}()", .comment "line out.go:8", .code "x"] := by decide

example : reset "CFF_MAGIC_TOKEN=1\n" "out.go" (render "CFF_MAGIC_TOKEN=1\n" true exBody)
    = reset "CFF_MAGIC_TOKEN=2\n" "out.go" (render "CFF_MAGIC_TOKEN=2\n" true exBody) := by decide

/-- The freshness hypothesis is needed: if the user wrote the first token as a comment, the two
    runs differ. -/
example : reset "user" "out.go" (render "user" true exBody)
    ≠ reset "CFF_MAGIC_TOKEN=2\n" "out.go" (render "CFF_MAGIC_TOKEN=2\n" true exBody) := by decide

end Text.Magic
