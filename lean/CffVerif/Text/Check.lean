/-
  Differential oracle for the text-level functions (tie mechanism C): parses the lines written
  by harness/cmd/textrun (format: harness/TEXT_PROTOCOL.md) and compares each observation with the
  models `Text.BExpr.rewriteLine`, `Text.printImportAlias`, `Emitter.mkStack`, `Text.genNameS`.
  Returns divergences as (kind, detail).
-/
import CffVerif.Text.BuildTag
import CffVerif.Text.Alias
import CffVerif.Text.Stack
import CffVerif.Text.GenName
import CffVerif.Text.Outputs
import CffVerif.Text.ModName

namespace Text.Check

open Text Text.BExpr Emitter

abbrev Div := String × String

def field (toks : List String) (key : String) : Option String :=
  toks.findSome? fun t => if t.startsWith (key ++ "=") then some (t.drop (key.length + 1)).copy else none

def listOf (s : String) (sep : String) : List String := if s == "-" || s == "" then [] else s.splitOn sep

/-- Prefix-form constraint expression (`t:<tag>`, `!`, `&`, `|`). -/
def parsePrefix : Nat → List String → Option (BExpr × List String)
  | 0, _ => none
  | _ + 1, [] => none
  | n + 1, t :: rest =>
    if t == "!" then
      match parsePrefix n rest with
      | some (e, r) => some (.not e, r)
      | none => none
    else if t == "&" || t == "|" then
      match parsePrefix n rest with
      | some (a, r1) =>
        match parsePrefix n r1 with
        | some (b, r2) => some (if t == "&" then .and a b else .or a b, r2)
        | none => none
      | none => none
    else if t.startsWith "t:" then some (.tag (t.drop 2).copy, rest)
    else none

def parseE (s : String) : Option BExpr :=
  let toks := s.splitOn ","
  match parsePrefix (toks.length + 1) toks with
  | some (e, []) => some e
  | _ => none

def assignments : List String → List (String → Bool)
  | [] => [fun _ => false]
  | t :: ts => (assignments ts).flatMap fun σ => [fun x => if x == t then true else σ x, fun x => if x == t then false else σ x]

def checkBT (toks : List String) : List Div :=
  let id := toks.getD 1 "?"
  let f := field toks
  let num := fun k => ((f k).bind String.toNat?).getD 999
  let d1 := if (f "other_same") != some "1" || num "other_in" != num "other_out" then [("bt.other-lines", id)] else []
  let d2 := if (f "bad_same") != some "1" || num "bad_in" != num "bad_out" then [("bt.bad-lines", id ++ " a constraint line became unparsable or a bad line changed")] else []
  let ins := (listOf ((f "in").getD "-") ";").filterMap parseE
  let outs := (listOf ((f "out").getD "-") ";").filterMap parseE
  let gIn := (((f "in_lines").getD "").toList.filter (· == 'g')).length
  let gOut := (((f "out_lines").getD "").toList.filter (· == 'g')).length
  let d3 := if gIn != gOut then [("bt.shape", id ++ " number of //go:build lines changed")] else []
  let expected := ins.map rewriteLine
  let tgs := ("cff" :: (ins.flatMap tags ++ outs.flatMap tags)).eraseDups
  let bad := (assignments tgs).any fun σ => (outs.all (eval σ)) != (expected.all (eval σ))
  let d4 := if bad then [("bt.semantics", id ++ " output constraints are not the cff-flipped input constraints")] else []
  let d5 := if outs.any (fun e => !e.noDoubleNeg) then [("bt.double-negation", id)] else []
  d1 ++ d2 ++ d3 ++ d4 ++ d5

def sortStrings (l : List String) : List String := l.mergeSort (fun a b => decide (a ≤ b))

def checkAL (toks : List String) : List Div :=
  let id := toks.getD 1 "?"
  let f := field toks
  let aliases := listOf ((f "aliases").getD "-") ","
  let calls := (listOf ((f "calls").getD "-") ";").map fun c =>
    match c.splitOn "=" with
    | p :: rest => (p, "=".intercalate rest)
    | [] => (c, "")
  let (rets, st) := calls.foldl (fun (acc : List String × AliasSt) c =>
      let (r, st') := printImportAlias c.1 c.2 acc.2
      (acc.1 ++ [r], st')) ([], { aliases := aliases })
  let gotRet := listOf ((f "ret").getD "-") ","
  let d1 := if rets != gotRet then [("al.ret", s!"{id} model {rets} impl {gotRet}")] else []
  let addM := sortStrings (st.addImports.map fun (p, n) => p ++ "=" ++ (if n == "" then "." else n))
  let addI := sortStrings (listOf ((f "add").getD "-") ";")
  let d2 := if addM != addI then [("al.add", s!"{id} model {addM} impl {addI}")] else []
  let alM := sortStrings st.aliases.eraseDups
  let alI := sortStrings (listOf ((f "final_aliases").getD "-") ",")
  let d3 := if alM != alI then [("al.aliases", s!"{id} model {alM} impl {alI}")] else []
  d1 ++ d2 ++ d3

/-- Evaluate a prefix tree (`L<l>`, `S<n>,…`) with the model constructor. -/
def evalTree : Nat → List String → Option (Em × List String)
  | 0, _ => none
  | _ + 1, [] => none
  | n + 1, t :: rest =>
    if t.startsWith "L" then (t.drop 1).toNat?.map fun l => (Em.atom (.leaf l), rest)
    else if t.startsWith "S" then
      match (t.drop 1).toNat? with
      | none => none
      | some k =>
        let rec go (k : Nat) (acc : List Em) (r : List String) : Option (List Em × List String) :=
          match k with
          | 0 => some (acc, r)
          | k + 1 =>
            match evalTree n r with
            | some (e, r') => go k (acc ++ [e]) r'
            | none => none
        (go k [] rest).map fun (es, r) => (mkStack es, r)
    else none

def occurrences (ids : List Nat) : List (Nat × Nat) :=
  (ids.foldl (fun (acc : List (Nat × Nat) × List Nat) i =>
    let k := (acc.2.filter (· == i)).length + 1
    (acc.1 ++ [(i, k)], i :: acc.2)) ([], [])).1

def parseGroups : List String → List (String × String)
  | "leaf" :: lk :: got :: rest => (lk, if got.startsWith "got=" then (got.drop 4).copy else got) :: parseGroups rest
  | _ :: rest => parseGroups rest
  | [] => []

def checkES (toks : List String) : List Div :=
  let id := toks.getD 1 "?"
  let f := field toks
  let treeToks := ((f "tree").getD "").splitOn ","
  let sent := (f "sent").getD "-"
  match evalTree (treeToks.length + 1) treeToks with
  | some (em, []) =>
    let expected := (occurrences em.receivers).map fun (l, k) => (s!"{l}#{k}", sent)
    let got := parseGroups toks
    let d1 := if expected != got then [("es.fanout", s!"{id} model {expected.map (·.1)} impl {got.map (·.1)} (or some group's events differ from what was sent)")] else []
    let d2 := if (f "args") != some "1" then [("es.args", id)] else []
    d1 ++ d2
  | _ => [("es.parse", id)]

def checkGF (toks : List String) : List Div :=
  match toks with
  | ["GF", inp, "->", out] =>
    if out == "none" then (if inp == "plain.go" then [] else [("gf.name", s!"{inp}: nothing created")])
    else if genNameS inp != out then [("gf.name", s!"{inp}: model {genNameS inp} impl {out}")] else []
  | _ => [("gf.parse", " ".intercalate toks)]

def checkFS (toks : List String) : List Div :=
  let id := toks.getD 1 "?"
  let f := field toks
  let inputs := listOf ((f "inputs").getD "-") ","
  let flags := listOf ((f "flags").getD "-") ";"
  let outs := flags.filterMap fun fl =>
    match (fl.drop 6).copy.splitOn "=" with      -- "-file=" NAME [= OUT]
    | [_, o] => some o
    | _ => none
  let allowed := inputs.map (fun i => "p/" ++ genNameS i) ++ outs
  let created := listOf ((f "created").getD "-") ","
  let known := id == "collide" || id == "pkgs"   -- "pkgs" (two packages, `./...`) is decided by the harness's X line
  let d1 := if !known && ((f "modified") != some "-" || (f "deleted") != some "-") then [("fs.modified", id ++ " a pre-existing file was modified or deleted")] else []
  let d2 := if !known && created.any (fun p => !allowed.contains p) then [("fs.created", s!"{id} created {created} allowed {allowed}")] else []
  let d3 := if !known && id != "file:dup" && (f "exit") != some "0" then [("fs.exit", id)] else []
  -- exactness: the files written are exactly `Text.outputsOf` (Text/Outputs.lean: OUT where given, the
  -- documented name otherwise; without -file every cff file) — when every -file argument names a
  -- file of the package by its base name, without duplicates
  let parsed := flags.map fun fl => (fl.drop 6).copy.splitOn "="
  let names := parsed.map (·.headD "")
  let simple := parsed.all (fun q => (q.length == 1 || q.length == 2) && inputs.contains (q.headD "")) &&
    names.eraseDups.length == names.length
  let args : List FileArg := parsed.map fun q => { name := q.headD "", out := q[1]? }
  let cffInputs := inputs.filter (· != "plain.go")       -- the fixture's file without a directive
  let expected := outputsOf "p" cffInputs args
  let srt := fun (l : List String) => l.mergeSort (fun a b => decide (a ≤ b))
  let d4 := if !known && id != "multi:rerun" && simple && (f "exit") == some "0" && srt created != srt expected then
      [("fs.created", s!"{id} created {created} expected exactly {expected}")] else []
  d1 ++ d2 ++ d3 ++ d4

def checkDT (toks : List String) : List Div :=
  let id := (toks.getD 1 "?") ++ " " ++ (toks.getD 2 "")
  let f := field toks
  (if (f "exit") != some "0" then [("dt.exit", id)] else []) ++
  (if (f "identical") != some "1" then [("dt.nondeterministic", id ++ " repeated runs differ")] else []) ++
  (if (f "alone_identical") != some "1" then [("dt.alone", id ++ " -file alone differs from whole-package run")] else []) ++
  (if (f "seq_identical") == some "0" then [("dt.sequence", id ++ " output depends on an earlier run in the same directory")] else []) ++
  (if (f "others_untouched") != some "1" then [("dt.others", id ++ " other files touched / undocumented output path")] else [])

def checkSM (toks : List String) : List Div :=
  if field toks "same_modulo_comments" != some "1" then [("sm.differs", (toks.getD 1 "?") ++ " " ++ (toks.getD 2 ""))] else []

/-- Section MN: names generated by -genmode=modifier against `Text.modName`. -/
def checkMN (toks : List String) : List Div :=
  let f := field toks
  match f "file", f "kind", (f "line").bind String.toNat?, (f "col").bind String.toNat?, f "name" with
  | some file, some kind, some l, some c, some name =>
    let want := modName kind file l c
    if name == want then [] else [("mn.name", s!"{file}:{l}:{c} {kind}: model {want} impl {name}")]
  | _, _, _, _, _ => [("mn.parse", " ".intercalate toks)]

def checkMNB (toks : List String) : List Div :=
  let f := field toks
  (if f "exit" != some "0" then [("mn.exit", "cff -genmode=modifier failed on the naming fixture")] else []) ++
  (if f "builds" != some "1" then [("mn.builds", "modifier-mode output of the naming fixture does not build")] else [])

def checkLine (toks : List String) : List Div :=
  match toks with
  | "MN" :: _ => checkMN toks
  | "MNB" :: _ => checkMNB toks
  | "BT" :: _ => checkBT toks
  | "AL" :: _ => checkAL toks
  | "ES" :: _ => checkES toks
  | ["ES0", v] => if v == "nop=1" then [] else [("es.ctor", "EmitterStack() is not the no-op emitter")]
  | ["ES1", v] => if v == "same=1" then [] else [("es.ctor", "EmitterStack(e) is not e")]
  | "GF" :: _ => checkGF toks
  | "FS" :: _ => checkFS toks
  | "DT" :: _ => checkDT toks
  | "SM" :: _ => checkSM toks
  | "X" :: sec :: rest => [("x." ++ sec, " ".intercalate rest)]
  | _ => []

end Text.Check
