/-
  T — hoisting of user expressions (C15) and source-map mode (C20).
-/
namespace Text

/-- The prologue of a generated closure: the referenced user expressions, sorted by source
    position, each assigned to its own variable before anything is enqueued. -/
def prologue {E : Type} (exprs : List (Nat × E)) : List (Nat × E) :=
  exprs.mergeSort (fun a b => decide (a.1 ≤ b.1))

/-- **C15 prologue.** Every referenced expression is evaluated exactly once (the prologue is a
    permutation of the collected expressions) and in source order (positions ascending). -/
theorem prologue_once_in_order {E : Type} (exprs : List (Nat × E)) :
    (prologue exprs).Perm exprs ∧ (prologue exprs).Pairwise (fun a b => a.1 ≤ b.1) := by
  refine ⟨List.mergeSort_perm _ _, ?_⟩
  have := List.pairwise_mergeSort (le := fun (a b : Nat × E) => decide (a.1 ≤ b.1))
    (by intro a b c h1 h2; simp at *; omega) (by intro a b; simp; omega) exprs
  exact this.imp (by intro a b h; simpa using h)

/-! ### source-map mode -/

inductive Tok where
  | code (s : String)
  | comment (s : String)
  deriving Repr, DecidableEq

/-- A piece of generator output: code that is always written, or a line directive / magic token
    that is written (as a comment) only in source-map mode. -/
inductive Seg where
  | always (s : String)
  | mapOnly (s : String)
  deriving Repr, DecidableEq

def render (sourceMap : Bool) : List Seg → List Tok
  | [] => []
  | .always s :: rest => .code s :: render sourceMap rest
  | .mapOnly s :: rest => if sourceMap then .comment s :: render sourceMap rest else render sourceMap rest

def stripComments : List Tok → List Tok
  | [] => []
  | .code s :: rest => .code s :: stripComments rest
  | .comment _ :: rest => stripComments rest

/-- **C20 source-map.** Source-map mode emits exactly the code of base mode up to comments. -/
theorem sourcemap_same_code (segs : List Seg) :
    stripComments (render true segs) = stripComments (render false segs) := by
  induction segs with
  | nil => rfl
  | cons s rest ih => cases s <;> simp [render, stripComments, ih]

end Text
