/-
  T — build-constraint inversion (internal/buildtag.go).

  `invert` mirrors `invertCffConstraint`, `collapse` mirrors `collapseDoubleNegation`;
  `rewriteLine` is what `writeInvertedCffTag` prints for a `//go:build` line (before
  `Expr.String`); for a `// +build` line the library's `PlusBuildLines (invert e)` is printed,
  which is semantically `invert e` (library behaviour, covered by the differential).
-/
namespace Text

inductive BExpr where
  | tag (t : String)
  | not (e : BExpr)
  | and (a b : BExpr)
  | or (a b : BExpr)
  deriving DecidableEq, Repr, Inhabited

namespace BExpr

def eval (σ : String → Bool) : BExpr → Bool
  | tag t => σ t
  | not e => !(eval σ e)
  | and a b => eval σ a && eval σ b
  | or a b => eval σ a || eval σ b

/-- `invertCffConstraint`: every `cff` tag is negated; `!cff` loses its `!`. -/
def invert : BExpr → BExpr
  | tag t => if t == "cff" then not (tag t) else tag t
  | not (tag t) => if t == "cff" then tag t else not (tag t)
  | not e => not (invert e)
  | and a b => and (invert a) (invert b)
  | or a b => or (invert a) (invert b)

/-- `collapseDoubleNegation`: `!!X` becomes `X` (bottom-up). -/
def collapse : BExpr → BExpr
  | tag t => tag t
  | not e =>
    match collapse e with
    | not x => x
    | y => not y
  | and a b => and (collapse a) (collapse b)
  | or a b => or (collapse a) (collapse b)

/-- The expression printed for a `//go:build` line. -/
def rewriteLine (e : BExpr) : BExpr := collapse (invert e)

/-- The tag assignment with `cff` flipped. -/
def flipCff (σ : String → Bool) : String → Bool := fun t => if t == "cff" then !(σ t) else σ t

def tags : BExpr → List String
  | tag t => [t]
  | not e => tags e
  | and a b => tags a ++ tags b
  | or a b => tags a ++ tags b

/-- No `!!` anywhere: the printed text is accepted by `go/build/constraint`. -/
def noDoubleNeg : BExpr → Bool
  | tag _ => true
  | not (not _) => false
  | not e => noDoubleNeg e
  | and a b => noDoubleNeg a && noDoubleNeg b
  | or a b => noDoubleNeg a && noDoubleNeg b

theorem invert_eval (σ : String → Bool) (e : BExpr) : (invert e).eval σ = e.eval (flipCff σ) := by
  fun_induction invert e <;> simp_all [eval, flipCff]

theorem collapse_eval (σ : String → Bool) (e : BExpr) : (collapse e).eval σ = e.eval σ := by
  induction e with
  | tag t => rfl
  | not e ih =>
    simp only [collapse]
    split
    · next x hx => rw [hx] at ih; simp only [eval] at ih ⊢; rw [← ih]; simp
    · simp [eval, ih]
  | and a b iha ihb => simp [collapse, eval, iha, ihb]
  | or a b iha ihb => simp [collapse, eval, iha, ihb]

theorem collapse_noDoubleNeg (e : BExpr) : (collapse e).noDoubleNeg = true := by
  induction e with
  | tag t => rfl
  | not e ih =>
    simp only [collapse]
    split
    · next x hx =>
      rw [hx] at ih
      cases x <;> simp_all [noDoubleNeg]
    · next y hy =>
      generalize collapse e = z at *
      cases z <;> simp_all [noDoubleNeg]
  | and a b iha ihb => simp [collapse, noDoubleNeg, iha, ihb]
  | or a b iha ihb => simp [collapse, noDoubleNeg, iha, ihb]

end BExpr
end Text
