/-
  Refinement (IronFleet style): the scheduler LTS `Sched` (caller, loop goroutine, N workers, three
  channels, counters, ready list …) refines a small abstract specification `Spec` that has none of
  these — only sets of jobs.

    1. `Spec.State`, `Spec.Step`        the specification (read this first; two minutes)
    2. `Spec.*` theorems               proved from `Spec.Step` alone (no reference to `Sched`)
    3. `abs`                           abstraction function, computed from the log and `doneCtx`
    4. `refines_step`, `refines_run`   every `Sched` step is a `Spec` step (internal ones stutter;
                                       the model's one compound action — a body that cancels its
                                       own context as it ends — is two `Spec` steps: `Refines`)
    5. `C01/C03/C07_via_refinement`    the `Spec` theorems carried to `Sched` runs by 4
    6. a concrete abstract trace and an impossible `Spec` step, by `decide`
       (`decide +kernel` for the trace: kernel evaluation, no axiom, no native code)
-/
import CffVerif.Gen.FlowCorollaries3

namespace Sched

/-! ## 1. The specification -/

namespace Spec

/-- The error of a body that ran and failed: the user's error value or "job exited" (Goexit). -/
def bodyErr : Res → Bool
  | .fail _ | .exitErr => true
  | _ => false

/-- Abstract state: which job is where.  Sets are lists (proved duplicate-free and disjoint below). -/
structure State where
  submitted  : Nat := 0                    -- jobs `0 … submitted-1` were handed to `Enqueue`
  running    : List Nat := []              -- body is executing
  succeeded  : List Nat := []              -- body ran and returned nil
  failed     : List (Nat × Res) := []      -- body ran and failed, with its error
  skippedDep : List Nat := []              -- never ran: a dependency failed or was skipped
  skippedCtx : List Nat := []              -- never ran: its own context was cancelled
  cancelled  : List Nat := []              -- the contexts that are done
  returned   : Option (List Res) := none   -- what `Wait` returned (`[]` = nil)
  deriving DecidableEq, Repr

def init : State := {}

def State.failedJobs (s : State) : List Nat := s.failed.map (·.1)

/-- `j` is in none of the sets: nothing has been decided about it. -/
def State.fresh (s : State) (j : Nat) : Prop :=
  j ∉ s.running ∧ j ∉ s.succeeded ∧ j ∉ s.failedJobs ∧ j ∉ s.skippedDep ∧ j ∉ s.skippedCtx

/-- `j`'s body has been started (and is running or over). -/
def State.started (s : State) (j : Nat) : Prop :=
  j ∈ s.running ∨ j ∈ s.succeeded ∨ j ∈ s.failedJobs

/-- `d` will never succeed: it failed or was skipped. -/
def State.lost (s : State) (d : Nat) : Prop :=
  d ∈ s.failedJobs ∨ d ∈ s.skippedDep ∨ d ∈ s.skippedCtx

/-- An entry of the error `Wait` returns is real: the error of a job in `failed`, or a context
    error backed by a cancellation (of `Wait`'s context, or of the context of a skipped job). -/
def Real (c : Cfg) (s : State) (x : Res) : Prop :=
  (∃ j, (j, x) ∈ s.failed) ∨ (x = .ctxErr ∧ (c.waitCtx ∈ s.cancelled ∨ ∃ j, j ∈ s.skippedCtx))

/-- The specification.  (`c.deps.length` jobs, `c.depsOf j` the dependencies of `j`, `c.ctxOfJob j`
    the context `j` was enqueued with, `c.waitCtx` the context of `Wait`, `c.N` workers,
    `c.coe` = ContinueOnError.)

    Adaptations to what the model really does (the model was validated by trace replay):
    * `submit`: jobs arrive one by one and the caller may call `Wait` before it has submitted all
      `c.deps.length` of them, so "every job" in `ret` means every *submitted* job; no submission
      after `Wait` returned.
    * `start` has NO fail-fast premise: in fail-fast mode a job that a worker already received is
      still started after another job failed — even after the loop saw the failure and even after
      `Wait` returned through its context arm.  What the model guarantees is exactly: submitted,
      undecided, all dependencies succeeded, own context live, a free worker.
    * `skipDep` is taken only with a live own context (the worker checks the context first), and
      a body error is a user error or Goexit's "job exited" (`bodyErr`).
    * `ret`: in both modes nil means every submitted job succeeded (for ContinueOnError this is new:
      `nil_complete_coe` below), and `Wait`'s context is live at that moment. -/
inductive Step (c : Cfg) : State → State → Prop
  | submit {s} : s.returned = none → s.submitted < c.deps.length →
      Step c s { s with submitted := s.submitted + 1 }
  | start {s} (j : Nat) : j < s.submitted → s.fresh j → (∀ d ∈ c.depsOf j, d ∈ s.succeeded) →
      c.ctxOfJob j ∉ s.cancelled → s.running.length < c.N →
      Step c s { s with running := j :: s.running }
  | finishOk {s} (j : Nat) : j ∈ s.running →
      Step c s { s with running := s.running.erase j, succeeded := j :: s.succeeded }
  | finishFail {s} (j : Nat) (e : Res) : j ∈ s.running → bodyErr e = true →
      Step c s { s with running := s.running.erase j, failed := (j, e) :: s.failed }
  | skipDep {s} (j : Nat) : c.coe = true → j < s.submitted → s.fresh j →
      (∃ d ∈ c.depsOf j, s.lost d) → c.ctxOfJob j ∉ s.cancelled →
      Step c s { s with skippedDep := j :: s.skippedDep }
  | skipCtx {s} (j : Nat) : j < s.submitted → s.fresh j → c.ctxOfJob j ∈ s.cancelled →
      Step c s { s with skippedCtx := j :: s.skippedCtx }
  | cancel {s} (x : Nat) : x ∈ c.ctxs → x ∉ s.cancelled →
      Step c s { s with cancelled := x :: s.cancelled }
  | ret {s} (r : List Res) : s.returned = none →
      (r = [] → (∀ j, j < s.submitted → j ∈ s.succeeded) ∧ c.waitCtx ∉ s.cancelled) →
      (c.coe = false → r.length ≤ 1) → (∀ x ∈ r, Real c s x) →
      Step c s { s with returned := some r }
  | stutter {s} : Step c s s

/-- Runs of the specification: reflexive-transitive closure of `Step`. -/
inductive Steps (c : Cfg) : State → State → Prop
  | refl {s} : Steps c s s
  | tail {s t u} : Steps c s t → Step c t u → Steps c s u

theorem Steps.trans {c : Cfg} {s t u : State} (h1 : Steps c s t) (h2 : Steps c t u) : Steps c s u := by
  induction h2 with
  | refl => exact h1
  | tail _ hs ih => exact .tail ih hs

theorem Steps.single {c : Cfg} {s t : State} (h : Step c s t) : Steps c s t := .tail .refl h

/-! ## 2. Theorems of the specification (from `Spec.Step` only) -/

/-- How many times `j` occurs in the five job sets together. -/
def State.occ (s : State) (j : Nat) : Nat :=
  s.running.count j + s.succeeded.count j + s.failedJobs.count j + s.skippedDep.count j + s.skippedCtx.count j

theorem State.fresh_occ {s : State} {j : Nat} (h : s.fresh j) : s.occ j = 0 := by
  obtain ⟨h1, h2, h3, h4, h5⟩ := h
  simp [State.occ, List.count_eq_zero.mpr h1, List.count_eq_zero.mpr h2, List.count_eq_zero.mpr h3,
    List.count_eq_zero.mpr h4, List.count_eq_zero.mpr h5]

theorem count_cons_nat (j k : Nat) (l : List Nat) :
    (k :: l).count j = l.count j + if k = j then 1 else 0 := by
  simp [List.count_cons]

theorem count_erase_nat (j k : Nat) (l : List Nat) :
    (l.erase k).count j = l.count j - if k = j then 1 else 0 := by
  by_cases h : k = j
  · subst h; simp [List.count_erase_self]
  · simp [h, List.count_erase_of_ne (Ne.symm h)]

/-- Case split on `j = k` for goals about `occ` after one job moved. -/
macro "occ_tac" j:ident k:ident : tactic =>
  `(tactic| (by_cases e : $j = $k
             · subst e; simp only [↓reduceIte, if_true] at *; omega
             · simp only [if_neg e] at *; omega))

/-- The invariant of the specification. -/
structure Inv (c : Cfg) (s : State) : Prop where
  /-- every job is in at most one of the sets, at most once -/
  occ : ∀ j, s.occ j ≤ 1
  bound : s.running.length ≤ c.N
  deps : ∀ j, s.started j → ∀ d ∈ c.depsOf j, d ∈ s.succeeded
  ffNoSkipDep : c.coe = false → s.skippedDep = []
  nil : s.returned = some [] → ∀ j, j < s.submitted → j ∈ s.succeeded
  lt : ∀ j, 0 < s.occ j → j < s.submitted
  sub : s.submitted ≤ c.deps.length
  errs : ∀ x ∈ s.failed, bodyErr x.2 = true

theorem inv_init (c : Cfg) : Inv c init := by
  refine ⟨?_, ?_, ?_, ?_, ?_, ?_, ?_, ?_⟩ <;> simp [init, State.occ, State.started, State.failedJobs]

theorem mem_of_occ_running {s : State} {j : Nat} (h : j ∈ s.running) : 0 < s.occ j := by
  have := List.count_pos_iff.mpr h; unfold State.occ; omega

theorem inv_step {c : Cfg} {s t : State} (hi : Inv c s) (h : Step c s t) : Inv c t := by
  obtain ⟨hocc, hb, hd, hff, hnil, hlt, hsub, herr⟩ := hi
  cases h with
  | submit hr hs =>
    refine ⟨hocc, hb, hd, hff, ?_, ?_, ?_, herr⟩
    · intro h; simp [hr] at h
    · intro j hj; have := hlt j hj; simp only; omega
    · simp only; omega
  | start j hj hf hdeps hctx hN =>
    have h0 := State.fresh_occ hf
    refine ⟨?_, ?_, ?_, hff, hnil, ?_, hsub, herr⟩
    · intro k
      have := hocc k
      simp only [State.occ, State.failedJobs, count_cons_nat] at this h0 ⊢
      occ_tac j k
    · simp only [List.length_cons]; omega
    · intro k hk d hdk
      simp only [State.started, List.mem_cons, State.failedJobs] at hk
      rcases hk with (rfl | hk) | hk
      · exact hdeps d hdk
      · exact hd k (Or.inl hk) d hdk
      · exact hd k (Or.inr hk) d hdk
    · intro k hk
      simp only [State.occ, State.failedJobs, count_cons_nat] at hk
      by_cases e : j = k
      · subst e; exact hj
      · simp only [e, if_false] at hk; exact hlt k hk
  | finishOk j hj =>
    have hpos := List.count_pos_iff.mpr hj
    refine ⟨?_, ?_, ?_, hff, ?_, ?_, hsub, herr⟩
    · intro k
      have := hocc k
      simp only [State.occ, State.failedJobs, count_cons_nat, count_erase_nat] at this ⊢
      occ_tac j k
    · exact Nat.le_trans (List.length_erase_le ..) hb
    · intro k hk d hdk
      simp only [State.started, List.mem_cons, State.failedJobs] at hk
      have : s.started k := by
        rcases hk with hk | (rfl | hk) | hk
        · exact Or.inl (List.mem_of_mem_erase hk)
        · exact Or.inl hj
        · exact Or.inr (Or.inl hk)
        · exact Or.inr (Or.inr hk)
      exact List.mem_cons_of_mem _ (hd k this d hdk)
    · intro h k hk; exact List.mem_cons_of_mem _ (hnil h k hk)
    · intro k hk
      apply hlt k
      simp only [State.occ, State.failedJobs, count_cons_nat, count_erase_nat] at hk ⊢
      occ_tac j k
  | finishFail j e hj he =>
    have hpos := List.count_pos_iff.mpr hj
    refine ⟨?_, ?_, ?_, hff, hnil, ?_, hsub, ?_⟩
    · intro k
      have := hocc k
      simp only [State.occ, State.failedJobs, List.map_cons, count_cons_nat, count_erase_nat] at this ⊢
      occ_tac j k
    · exact Nat.le_trans (List.length_erase_le ..) hb
    · intro k hk d hdk
      simp only [State.started, List.mem_cons, State.failedJobs, List.map_cons] at hk
      have : s.started k := by
        rcases hk with hk | hk | (rfl | hk)
        · exact Or.inl (List.mem_of_mem_erase hk)
        · exact Or.inr (Or.inl hk)
        · exact Or.inl hj
        · exact Or.inr (Or.inr hk)
      exact hd k this d hdk
    · intro k hk
      apply hlt k
      simp only [State.occ, State.failedJobs, List.map_cons, count_cons_nat, count_erase_nat] at hk ⊢
      occ_tac j k
    · intro x hx
      simp only [List.mem_cons] at hx
      rcases hx with rfl | hx
      · exact he
      · exact herr x hx
  | skipDep j hc hj hf hl hctx =>
    have h0 := State.fresh_occ hf
    refine ⟨?_, hb, hd, ?_, hnil, ?_, hsub, herr⟩
    · intro k
      have := hocc k
      simp only [State.occ, State.failedJobs, count_cons_nat] at this h0 ⊢
      occ_tac j k
    · intro h; simp [hc] at h
    · intro k hk
      simp only [State.occ, State.failedJobs, count_cons_nat] at hk
      by_cases e : j = k
      · subst e; exact hj
      · simp only [e, if_false] at hk; exact hlt k hk
  | skipCtx j hj hf hctx =>
    have h0 := State.fresh_occ hf
    refine ⟨?_, hb, hd, hff, hnil, ?_, hsub, herr⟩
    · intro k
      have := hocc k
      simp only [State.occ, State.failedJobs, count_cons_nat] at this h0 ⊢
      occ_tac j k
    · intro k hk
      simp only [State.occ, State.failedJobs, count_cons_nat] at hk
      by_cases e : j = k
      · subst e; exact hj
      · simp only [e, if_false] at hk; exact hlt k hk
  | cancel x _ _ => exact ⟨hocc, hb, hd, hff, hnil, hlt, hsub, herr⟩
  | ret r hr hn _ _ =>
    refine ⟨hocc, hb, hd, hff, ?_, hlt, hsub, herr⟩
    intro h
    simp only [Option.some.injEq] at h
    exact (hn h).1
  | stutter => exact ⟨hocc, hb, hd, hff, hnil, hlt, hsub, herr⟩

theorem inv_steps {c : Cfg} {s t : State} (hi : Inv c s) (h : Steps c s t) : Inv c t := by
  induction h with
  | refl => exact hi
  | tail _ hs ih => exact inv_step ih hs

/-- Every state of every run of the specification satisfies the invariant. -/
theorem inv_reachable {c : Cfg} {s : State} (h : Steps c init s) : Inv c s := inv_steps (inv_init c) h


/-- **(b)** The sets are duplicate-free … -/
theorem Inv.nodup {c : Cfg} {s : State} (hi : Inv c s) :
    s.running.Nodup ∧ s.succeeded.Nodup ∧ s.failedJobs.Nodup ∧ s.skippedDep.Nodup ∧ s.skippedCtx.Nodup := by
  refine ⟨?_, ?_, ?_, ?_, ?_⟩ <;> rw [List.nodup_iff_count] <;> intro j <;>
    (have := hi.occ j; unfold State.occ at this; omega)

/-- … **(b)** pairwise disjoint (running / succeeded / failed / skipped-by-dependency /
    skipped-by-context: a job is in at most one of them) … -/
theorem Inv.disjoint {c : Cfg} {s : State} (hi : Inv c s) (j : Nat) :
    (j ∈ s.running → j ∉ s.succeeded ∧ j ∉ s.failedJobs ∧ j ∉ s.skippedDep ∧ j ∉ s.skippedCtx) ∧
    (j ∈ s.succeeded → j ∉ s.failedJobs ∧ j ∉ s.skippedDep ∧ j ∉ s.skippedCtx) ∧
    (j ∈ s.failedJobs → j ∉ s.skippedDep ∧ j ∉ s.skippedCtx) ∧
    (j ∈ s.skippedDep → j ∉ s.skippedCtx) := by
  have := hi.occ j
  unfold State.occ at this
  refine ⟨fun h => ⟨?_, ?_, ?_, ?_⟩, fun h => ⟨?_, ?_, ?_⟩, fun h => ⟨?_, ?_⟩, fun h => ?_⟩ <;>
    (intro h2; have := List.count_pos_iff.mpr h; have := List.count_pos_iff.mpr h2; omega)

/-- … **(b)** and at most `N` bodies run at any instant. -/
theorem Inv.running_le {c : Cfg} {s : State} (hi : Inv c s) : s.running.length ≤ c.N := hi.bound

/-- **(a)** A job whose body was started (running, succeeded or failed) has every dependency
    in `succeeded`. -/
theorem Inv.deps_succeeded {c : Cfg} {s : State} (hi : Inv c s) (j : Nat) (hj : s.started j) :
    ∀ d ∈ c.depsOf j, d ∈ s.succeeded := hi.deps j hj

/-- **(d)** Fail-fast never skips a job because of a dependency. -/
theorem Inv.failfast_no_skipDep {c : Cfg} {s : State} (hi : Inv c s) (hc : c.coe = false) :
    s.skippedDep = [] := hi.ffNoSkipDep hc

/-- **(e)** `Wait` returned nil ⇒ every submitted job succeeded. -/
theorem Inv.nil_complete {c : Cfg} {s : State} (hi : Inv c s) (h : s.returned = some []) :
    ∀ j, j < s.submitted → j ∈ s.succeeded := hi.nil h

/-- What never shrinks along a step: "sets only grow" (a job leaves `running` only towards
    `succeeded`/`failed`, so `started` grows too), and `Wait`'s return value is final. -/
structure Grows (s t : State) : Prop where
  submitted : s.submitted ≤ t.submitted
  succeeded : ∀ j, j ∈ s.succeeded → j ∈ t.succeeded
  failed : ∀ x, x ∈ s.failed → x ∈ t.failed
  skippedDep : ∀ j, j ∈ s.skippedDep → j ∈ t.skippedDep
  skippedCtx : ∀ j, j ∈ s.skippedCtx → j ∈ t.skippedCtx
  cancelled : ∀ x, x ∈ s.cancelled → x ∈ t.cancelled
  started : ∀ j, s.started j → t.started j
  returned : ∀ r, s.returned = some r → t.returned = some r

theorem Grows.refl (s : State) : Grows s s :=
  ⟨Nat.le_refl _, fun _ h => h, fun _ h => h, fun _ h => h, fun _ h => h, fun _ h => h, fun _ h => h, fun _ h => h⟩

theorem Grows.trans {s t u : State} (h1 : Grows s t) (h2 : Grows t u) : Grows s u :=
  ⟨Nat.le_trans h1.1 h2.1, fun j h => h2.2 j (h1.2 j h), fun j h => h2.3 j (h1.3 j h),
   fun j h => h2.4 j (h1.4 j h), fun j h => h2.5 j (h1.5 j h), fun j h => h2.6 j (h1.6 j h),
   fun j h => h2.7 j (h1.7 j h), fun j h => h2.8 j (h1.8 j h)⟩

theorem step_grows {c : Cfg} {s t : State} (h : Step c s t) : Grows s t := by
  cases h with
  | submit _ _ => exact ⟨Nat.le_succ _, fun _ h => h, fun _ h => h, fun _ h => h, fun _ h => h, fun _ h => h, fun _ h => h, fun _ h => h⟩
  | start j _ _ _ _ _ =>
    refine ⟨Nat.le_refl _, fun _ h => h, fun _ h => h, fun _ h => h, fun _ h => h, fun _ h => h, ?_, fun _ h => h⟩
    intro k hk
    rcases hk with hk | hk | hk
    · exact Or.inl (List.mem_cons_of_mem _ hk)
    · exact Or.inr (Or.inl hk)
    · exact Or.inr (Or.inr hk)
  | finishOk j hj =>
    refine ⟨Nat.le_refl _, fun _ h => List.mem_cons_of_mem _ h, fun _ h => h, fun _ h => h, fun _ h => h, fun _ h => h, ?_, fun _ h => h⟩
    intro k hk
    rcases hk with hk | hk | hk
    · by_cases e : k = j
      · subst e; exact Or.inr (Or.inl (List.mem_cons_self ..))
      · exact Or.inl ((List.mem_erase_of_ne e).mpr hk)
    · exact Or.inr (Or.inl (List.mem_cons_of_mem _ hk))
    · exact Or.inr (Or.inr hk)
  | finishFail j e hj _ =>
    refine ⟨Nat.le_refl _, fun _ h => h, fun _ h => List.mem_cons_of_mem _ h, fun _ h => h, fun _ h => h, fun _ h => h, ?_, fun _ h => h⟩
    intro k hk
    rcases hk with hk | hk | hk
    · by_cases e : k = j
      · subst e; exact Or.inr (Or.inr (by simp [State.failedJobs]))
      · exact Or.inl ((List.mem_erase_of_ne e).mpr hk)
    · exact Or.inr (Or.inl hk)
    · exact Or.inr (Or.inr (by simp only [State.failedJobs, List.map_cons]; exact List.mem_cons_of_mem _ hk))
  | skipDep j _ _ _ _ _ =>
    exact ⟨Nat.le_refl _, fun _ h => h, fun _ h => h, fun _ h => List.mem_cons_of_mem _ h, fun _ h => h, fun _ h => h, fun _ h => h, fun _ h => h⟩
  | skipCtx j _ _ _ =>
    exact ⟨Nat.le_refl _, fun _ h => h, fun _ h => h, fun _ h => h, fun _ h => List.mem_cons_of_mem _ h, fun _ h => h, fun _ h => h, fun _ h => h⟩
  | cancel x _ _ =>
    exact ⟨Nat.le_refl _, fun _ h => h, fun _ h => h, fun _ h => h, fun _ h => h, fun _ h => List.mem_cons_of_mem _ h, fun _ h => h, fun _ h => h⟩
  | ret r hr _ _ _ =>
    refine ⟨Nat.le_refl _, fun _ h => h, fun _ h => h, fun _ h => h, fun _ h => h, fun _ h => h, fun _ h => h, ?_⟩
    intro r' h; rw [hr] at h; cases h
  | stutter => exact Grows.refl _

theorem steps_grows {c : Cfg} {s t : State} (h : Steps c s t) : Grows s t := by
  induction h with
  | refl => exact Grows.refl _
  | tail _ hs ih => exact ih.trans (step_grows hs)

/-- **(a), "hence forever".** Once a job has been started, its dependencies are in `succeeded` in
    every later state. -/
theorem deps_succeeded_forever {c : Cfg} {s t : State} (hi : Inv c s) (h : Steps c s t) (j : Nat)
    (hj : s.started j) : ∀ d ∈ c.depsOf j, d ∈ t.succeeded :=
  fun d hd => (steps_grows h).succeeded d (hi.deps j hj d hd)

/-- A step that puts `j` into `running` is `start j`: all its premises held. -/
theorem start_inv {c : Cfg} {s t : State} {j : Nat} (h : Step c s t) (hn : j ∉ s.running)
    (hin : j ∈ t.running) :
    j < s.submitted ∧ s.fresh j ∧ (∀ d ∈ c.depsOf j, d ∈ s.succeeded) ∧
    c.ctxOfJob j ∉ s.cancelled ∧ s.running.length < c.N := by
  cases h with
  | start k h1 h2 h3 h4 h5 =>
    simp only [List.mem_cons] at hin
    rcases hin with rfl | hin
    · exact ⟨h1, h2, h3, h4, h5⟩
    · exact absurd hin hn
  | finishOk k _ => exact absurd (List.mem_of_mem_erase hin) hn
  | finishFail k e _ _ => exact absurd (List.mem_of_mem_erase hin) hn
  | _ => exact absurd hin hn

/-- **(c)** A job is started at most once: once it has been started, no later step starts it
    (puts it into `running`) again. -/
theorem start_at_most_once {c : Cfg} {s u v : State} {j : Nat} (hj : s.started j)
    (h1 : Steps c s u) (h2 : Step c u v) (hn : j ∉ u.running) : j ∉ v.running := by
  intro hin
  obtain ⟨_, ⟨_, f2, f3, _, _⟩, _⟩ := start_inv h2 hn hin
  rcases (steps_grows h1).started j hj with h | h | h
  · exact hn h
  · exact f2 h
  · exact f3 h

end Spec

/-! ## 3. The abstraction function -/

/-- What one event of the log does to the abstract state.  Events of the loop's bookkeeping
    (`registered`, `dispatched`, `resultSeen`, `wroteInvalid`, `report`, `loopExit`) are invisible;
    cancellations are read off `doneCtx`. -/
def Spec.State.apply (a : Spec.State) : Ev → Spec.State
  | .sent _ => { a with submitted := a.submitted + 1 }
  | .started j => { a with running := j :: a.running }
  | .ended j .ok => { a with running := a.running.erase j, succeeded := j :: a.succeeded }
  | .ended j (.fail e) => { a with running := a.running.erase j, failed := (j, .fail e) :: a.failed }
  | .ended j .goexit => { a with running := a.running.erase j, failed := (j, .exitErr) :: a.failed }
  | .skipped j .invalid => { a with skippedDep := j :: a.skippedDep }
  | .skipped j .ctx => { a with skippedCtx := j :: a.skippedCtx }
  | .waitReturned r => { a with returned := some r }
  | _ => a

/-- The abstract state of a log. -/
def absLog (log : List Ev) : Spec.State := log.foldl Spec.State.apply {}

/-- **The abstraction function**: computed from the ghost log (what was observably done) and the
    set of done contexts — not from the loop's counters, job records, ready list, channels or the
    worker slots. -/
def abs (_c : Cfg) (s : State) : Spec.State := { absLog s.log with cancelled := s.doneCtx }

theorem abs_init (c : Cfg) : abs c (init c) = Spec.init := rfl

namespace Spec

/-! ### Reading the abstract state off the log (pure facts about the fold) -/

theorem fold_cancelled : ∀ (log : List Ev) (a : State), (log.foldl State.apply a).cancelled = a.cancelled
  | [], _ => rfl
  | e :: es, a => by
    rw [List.foldl_cons, fold_cancelled es]
    rcases e with _ | _ | _ | _ | ⟨_, _ | _ | _⟩ | ⟨_, _ | _⟩ | _ | _ | _ | _ | _ | _ <;> rfl

def State.setCancelled (a : State) (d : List Nat) : State := { a with cancelled := d }

theorem fold_setCancelled (d : List Nat) : ∀ (log : List Ev) (a : State),
    log.foldl State.apply (a.setCancelled d) = (log.foldl State.apply a).setCancelled d
  | [], _ => rfl
  | e :: es, a => by
    rw [List.foldl_cons, List.foldl_cons, ← fold_setCancelled d es]
    rcases e with _ | _ | _ | _ | ⟨_, _ | _ | _⟩ | ⟨_, _ | _⟩ | _ | _ | _ | _ | _ | _ <;> rfl

theorem fold_submitted : ∀ (log : List Ev) (a : State),
    (log.foldl State.apply a).submitted = a.submitted + (log.filterMap Ev.sentId).length
  | [], _ => rfl
  | e :: es, a => by
    rw [List.foldl_cons, fold_submitted es]
    rcases e with _ | _ | _ | _ | ⟨_, _ | _ | _⟩ | ⟨_, _ | _⟩ | _ | _ | _ | _ | _ | _ <;>
      simp [State.apply, Ev.sentId, List.filterMap_cons] <;> omega

/-- The job an event reports as succeeded / failed (with its error) / skipped. -/
def evOk : Ev → Option Nat
  | .ended j .ok => some j
  | _ => none
def evFail : Ev → Option (Nat × Res)
  | .ended j (.fail e) => some (j, .fail e)
  | .ended j .goexit => some (j, .exitErr)
  | _ => none
def evSkipDep : Ev → Option Nat
  | .skipped j .invalid => some j
  | _ => none
def evSkipCtx : Ev → Option Nat
  | .skipped j .ctx => some j
  | _ => none

theorem fold_succeeded : ∀ (log : List Ev) (a : State),
    (log.foldl State.apply a).succeeded = (log.filterMap evOk).reverse ++ a.succeeded
  | [], _ => rfl
  | e :: es, a => by
    rw [List.foldl_cons, fold_succeeded es]
    rcases e with _ | _ | _ | _ | ⟨_, _ | _ | _⟩ | ⟨_, _ | _⟩ | _ | _ | _ | _ | _ | _ <;>
      simp [State.apply, evOk, List.filterMap_cons]

theorem fold_failed : ∀ (log : List Ev) (a : State),
    (log.foldl State.apply a).failed = (log.filterMap evFail).reverse ++ a.failed
  | [], _ => rfl
  | e :: es, a => by
    rw [List.foldl_cons, fold_failed es]
    rcases e with _ | _ | _ | _ | ⟨_, _ | _ | _⟩ | ⟨_, _ | _⟩ | _ | _ | _ | _ | _ | _ <;>
      simp [State.apply, evFail, List.filterMap_cons]

theorem fold_skippedDep : ∀ (log : List Ev) (a : State),
    (log.foldl State.apply a).skippedDep = (log.filterMap evSkipDep).reverse ++ a.skippedDep
  | [], _ => rfl
  | e :: es, a => by
    rw [List.foldl_cons, fold_skippedDep es]
    rcases e with _ | _ | _ | _ | ⟨_, _ | _ | _⟩ | ⟨_, _ | _⟩ | _ | _ | _ | _ | _ | _ <;>
      simp [State.apply, evSkipDep, List.filterMap_cons]

theorem fold_skippedCtx : ∀ (log : List Ev) (a : State),
    (log.foldl State.apply a).skippedCtx = (log.filterMap evSkipCtx).reverse ++ a.skippedCtx
  | [], _ => rfl
  | e :: es, a => by
    rw [List.foldl_cons, fold_skippedCtx es]
    rcases e with _ | _ | _ | _ | ⟨_, _ | _ | _⟩ | ⟨_, _ | _⟩ | _ | _ | _ | _ | _ | _ <;>
      simp [State.apply, evSkipCtx, List.filterMap_cons]

/-- A job is in `succeeded` iff the log has its `ended … ok` event. -/
theorem mem_succeeded {log : List Ev} {j : Nat} : j ∈ (absLog log).succeeded ↔ Ev.ended j .ok ∈ log := by
  simp only [absLog, fold_succeeded, List.append_nil, List.mem_reverse, List.mem_filterMap]
  constructor
  · rintro ⟨e, he, h⟩
    rcases e with _ | _ | _ | _ | ⟨_, _ | _ | _⟩ | ⟨_, _ | _⟩ | _ | _ | _ | _ | _ | _ <;> simp [evOk] at h
    subst h; exact he
  · intro h; exact ⟨_, h, rfl⟩

/-- `(j, r)` is in `failed` iff the log has the `ended` event of `j` with that failure. -/
theorem mem_failed {log : List Ev} {j : Nat} {r : Res} :
    (j, r) ∈ (absLog log).failed ↔ ∃ o, o ≠ .ok ∧ r = outcomeRes o ∧ Ev.ended j o ∈ log := by
  simp only [absLog, fold_failed, List.append_nil, List.mem_reverse, List.mem_filterMap]
  constructor
  · rintro ⟨e, he, h⟩
    rcases e with _ | _ | _ | _ | ⟨_, _ | _ | _⟩ | ⟨_, _ | _⟩ | _ | _ | _ | _ | _ | _ <;> simp [evFail] at h
    · obtain ⟨rfl, rfl⟩ := h; exact ⟨_, by simp, rfl, he⟩
    · obtain ⟨rfl, rfl⟩ := h; exact ⟨_, by simp, rfl, he⟩
  · rintro ⟨o, ho, rfl, h⟩
    cases o with
    | ok => exact absurd rfl ho
    | fail e => exact ⟨_, h, rfl⟩
    | goexit => exact ⟨_, h, rfl⟩

theorem mem_failedJobs {log : List Ev} {j : Nat} :
    j ∈ (absLog log).failedJobs ↔ ∃ o, o ≠ .ok ∧ Ev.ended j o ∈ log := by
  simp only [State.failedJobs, List.mem_map]
  constructor
  · rintro ⟨⟨k, r⟩, hx, rfl⟩
    obtain ⟨o, h1, _, h2⟩ := mem_failed.mp hx
    exact ⟨o, h1, h2⟩
  · rintro ⟨o, h1, h2⟩
    exact ⟨(j, outcomeRes o), mem_failed.mpr ⟨o, h1, rfl, h2⟩, rfl⟩

theorem mem_skippedDep {log : List Ev} {j : Nat} :
    j ∈ (absLog log).skippedDep ↔ Ev.skipped j .invalid ∈ log := by
  simp only [absLog, fold_skippedDep, List.append_nil, List.mem_reverse, List.mem_filterMap]
  constructor
  · rintro ⟨e, he, h⟩
    rcases e with _ | _ | _ | _ | ⟨_, _ | _ | _⟩ | ⟨_, _ | _⟩ | _ | _ | _ | _ | _ | _ <;> simp [evSkipDep] at h
    subst h; exact he
  · intro h; exact ⟨_, h, rfl⟩

theorem mem_skippedCtx {log : List Ev} {j : Nat} :
    j ∈ (absLog log).skippedCtx ↔ Ev.skipped j .ctx ∈ log := by
  simp only [absLog, fold_skippedCtx, List.append_nil, List.mem_reverse, List.mem_filterMap]
  constructor
  · rintro ⟨e, he, h⟩
    rcases e with _ | _ | _ | _ | ⟨_, _ | _ | _⟩ | ⟨_, _ | _⟩ | _ | _ | _ | _ | _ | _ <;> simp [evSkipCtx] at h
    subst h; exact he
  · intro h; exact ⟨_, h, rfl⟩

theorem apply_running_sub (a : State) (e : Ev) (j : Nat) (h : j ∈ (a.apply e).running) :
    j ∈ a.running ∨ e = .started j := by
  rcases e with _ | _ | _ | k | ⟨k, _ | _ | _⟩ | ⟨_, _ | _⟩ | _ | _ | _ | _ | _ | _ <;>
    simp only [State.apply, List.mem_cons] at h <;>
    first
      | exact Or.inl h
      | exact Or.inl (List.mem_of_mem_erase h)
      | (rcases h with h | h
         · exact Or.inr (by rw [h])
         · exact Or.inl h)

theorem apply_running_keep (a : State) (e : Ev) (j : Nat) (h : j ∈ a.running ∨ e = .started j)
    (hne : ∀ o, e ≠ .ended j o) : j ∈ (a.apply e).running := by
  rcases e with _ | _ | _ | k | ⟨k, _ | _ | _⟩ | ⟨_, _ | _⟩ | _ | _ | _ | _ | _ | _ <;>
    simp only [State.apply, List.mem_cons, reduceCtorEq, Ev.started.injEq, or_false] at h ⊢ <;>
    first
      | exact h
      | (rcases h with h | h
         · exact Or.inr h
         · exact Or.inl h.symm)
      | (have hk : j ≠ k := fun e => hne _ (by rw [e])
         exact (List.mem_erase_of_ne hk).mpr h)

/-- A job in `running` was started … -/
theorem fold_running_started (j : Nat) : ∀ (log : List Ev) (a : State),
    j ∈ (log.foldl State.apply a).running → j ∈ a.running ∨ Ev.started j ∈ log
  | [], _ => by simp
  | e :: es, a => by
    intro h
    rw [List.foldl_cons] at h
    rcases fold_running_started j es _ h with h | h
    · rcases apply_running_sub a e j h with h | h
      · exact Or.inl h
      · exact Or.inr (by rw [h]; exact List.mem_cons_self ..)
    · exact Or.inr (List.mem_cons_of_mem _ h)

/-- … and a job that was started and has not ended is in `running`. -/
theorem fold_running_of_started (j : Nat) : ∀ (log : List Ev) (a : State),
    (j ∈ a.running ∨ Ev.started j ∈ log) → (∀ o, Ev.ended j o ∉ log) → j ∈ (log.foldl State.apply a).running
  | [], _ => by simp
  | e :: es, a => by
    intro h hne
    rw [List.foldl_cons]
    apply fold_running_of_started j es _ _ (fun o ho => hne o (List.mem_cons_of_mem _ ho))
    have hne' : ∀ o, e ≠ Ev.ended j o := fun o heq => hne o (by rw [heq]; exact List.mem_cons_self ..)
    simp only [List.mem_cons] at h
    rcases h with h | h | h
    · exact Or.inl (apply_running_keep a e j (Or.inl h) hne')
    · exact Or.inl (apply_running_keep a e j (Or.inr h.symm) hne')
    · exact Or.inr h

theorem fold_returned : ∀ (log : List Ev) (a : State), (∀ r, Ev.waitReturned r ∉ log) →
    (log.foldl State.apply a).returned = a.returned
  | [], _, _ => rfl
  | e :: es, a, h => by
    rw [List.foldl_cons, fold_returned es _ (fun r hr => h r (List.mem_cons_of_mem _ hr))]
    rcases e with _ | _ | _ | _ | ⟨_, _ | _ | _⟩ | ⟨_, _ | _⟩ | _ | _ | _ | _ | _ | r <;> try rfl
    exact absurd (List.mem_cons_self ..) (h r)


/-- Events that leave the abstract state alone. -/
def silent : Ev → Bool
  | .registered _ | .dispatched _ | .resultSeen _ _ | .wroteInvalid _ | .report _ | .loopExit
  | .cancelled _ => true
  | _ => false

theorem fold_silent : ∀ (es : List Ev) (a : State), (∀ e ∈ es, silent e = true) → es.foldl State.apply a = a
  | [], _, _ => rfl
  | e :: es, a, h => by
    rw [List.foldl_cons]
    have he := h e (List.mem_cons_self ..)
    have : a.apply e = a := by
      rcases e with _ | _ | _ | _ | ⟨_, _ | _ | _⟩ | ⟨_, _ | _⟩ | _ | _ | _ | _ | _ | _ <;>
        first | rfl | simp [silent] at he
    rw [this]; exact fold_silent es a (fun e' he' => h e' (List.mem_cons_of_mem _ he'))

theorem silent_invalidWrites (ks : List Nat) : ∀ e ∈ invalidWrites ks, silent e = true := by
  intro e he; simp [invalidWrites] at he; obtain ⟨k, _, rfl⟩ := he; rfl

end Spec

open Spec in
/-- `abs` after the log grew by `es`. -/
theorem abs_append (c : Cfg) {s s' : State} {es : List Ev} (hl : s'.log = s.log ++ es) :
    abs c s' = es.foldl State.apply ((abs c s).setCancelled s'.doneCtx) := by
  have h1 : absLog s'.log = es.foldl State.apply (absLog s.log) := by
    rw [hl]; exact List.foldl_append
  show (absLog s'.log).setCancelled s'.doneCtx = _
  rw [h1, ← fold_setCancelled]
  rfl

/-- A step that logs only silent events and cancels nothing is invisible. -/
theorem abs_silent (c : Cfg) {s s' : State} {es : List Ev} (hl : s'.log = s.log ++ es)
    (hes : ∀ e ∈ es, Spec.silent e = true) (hd : s'.doneCtx = s.doneCtx) : abs c s' = abs c s := by
  rw [abs_append c hl, Spec.fold_silent es _ hes, hd]; rfl

/-- A step that logs one event and cancels nothing applies that event. -/
theorem abs_event (c : Cfg) {s s' : State} {e : Ev} (hl : s'.log = s.log ++ [e])
    (hd : s'.doneCtx = s.doneCtx) : abs c s' = (abs c s).apply e := by
  rw [abs_append c hl, hd]; rfl

/-! ### What the scheduler's invariants say about the abstract state -/

/-- `Wait`'s return value as recorded in the log is the caller's. -/
structure RetLink (s : State) : Prop where
  ret : (absLog s.log).returned = s.caller.ret
  logged : ∀ r, Ev.waitReturned r ∈ s.log → s.caller.ret = some r

theorem retLink_init (c : Cfg) : RetLink (init c) := ⟨rfl, by simp [init]⟩

theorem retLink_frame {s s' : State} (hp : RetLink s) (es : List Ev) (hl : s'.log = s.log ++ es)
    (hes : ∀ r, Ev.waitReturned r ∉ es) (hret : s'.caller.ret = s.caller.ret) : RetLink s' := by
  refine ⟨?_, ?_⟩
  · rw [hl, absLog, List.foldl_append, Spec.fold_returned es _ hes, hret]; exact hp.ret
  · intro r hm
    rw [hl] at hm
    rcases List.mem_append.mp hm with hm | hm
    · rw [hret]; exact hp.logged r hm
    · exact absurd hm (hes r)

theorem retLink_ret {s : State} (hp : RetLink s) (hn : s.caller.ret = none) (r : List Res) :
    RetLink (addLog { s with caller := { s.caller with ret := some r } } (.waitReturned r)) := by
  refine ⟨?_, ?_⟩
  · simp [absLog, List.foldl_append, Spec.State.apply]
  · intro r' hm
    simp only [addLog_log, List.mem_append, List.mem_singleton, Ev.waitReturned.injEq] at hm
    rcases hm with hm | hm
    · have := hp.logged r' hm; rw [hn] at this; cases this
    · subst hm; rfl

theorem retLink_step {c : Cfg} (hw : c.wiring = Wiring.std) {s s' : State} {a : Act}
    (h : RetLink s) (hs : step c s a = some s') : RetLink s' := by
  cases a with
  | callerSend =>
    obtain ⟨_, _, _, _, rfl⟩ := inv_callerSend hs
    exact retLink_frame h [.sent s.caller.sent] rfl (by simp) rfl
  | callerClose =>
    obtain ⟨_, _, rfl⟩ := inv_callerClose hs
    exact retLink_frame h [] (by simp) (by simp) rfl
  | callerRetCtx =>
    obtain ⟨_, hn, _, rfl⟩ := inv_callerRetCtx hw hs
    exact retLink_ret h hn _
  | callerRetFin =>
    obtain ⟨_, hn, _, rfl⟩ := inv_callerRetFin hs
    exact retLink_ret h hn _
  | loopEnq =>
    obtain ⟨j, rest, _, _, _, rfl⟩ := inv_loopEnq hs
    exact retLink_frame h [.registered j] rfl (by simp) rfl
  | loopEnqClosed =>
    obtain ⟨_, _, _, _, rfl⟩ := inv_loopEnqClosed hs
    exact retLink_frame h [] (by simp) (by simp) rfl
  | loopDispatch w =>
    obtain ⟨j, l, _, _, _, rfl⟩ := inv_loopDispatch hs
    exact retLink_frame h [.dispatched j] rfl (by simp) rfl
  | loopResult =>
    obtain ⟨j, r, rest, _, _, rfl⟩ := inv_loopResult hs
    refine retLink_frame h ([.resultSeen j r] ++
      (if r.isErr && c.coe then invalidWrites (Loop.job s.loop j).consumers else []))
      (by simp [List.append_assoc]) ?_ rfl
    intro r' hm
    simp only [List.mem_append, List.mem_singleton, reduceCtorEq, false_or] at hm
    split at hm
    · have := Spec.silent_invalidWrites _ _ hm; simp [Spec.silent] at this
    · simp at hm
  | loopTick =>
    obtain ⟨_, _, rfl⟩ := inv_loopTick hs
    exact retLink_frame h [.report (Loop.report c s.loop)] rfl (by simp) rfl
  | loopDrain =>
    obtain ⟨_, _, _, _, rfl⟩ := inv_loopDrain hw hs
    exact retLink_frame h [] (by simp) (by simp) rfl
  | loopClose =>
    obtain ⟨_, _, _, rfl⟩ := inv_loopClose hw hs
    exact retLink_frame h [.loopExit] rfl (by simp) rfl
  | workerDecide w =>
    obtain ⟨j, _, hc⟩ := inv_workerDecide hw hs
    rcases hc with ⟨_, rfl⟩ | ⟨_, _, rfl⟩ | ⟨_, _, rfl⟩
    · exact retLink_frame h [.skipped j .ctx] rfl (by simp) rfl
    · exact retLink_frame h [.skipped j .invalid] rfl (by simp) rfl
    · exact retLink_frame h [.started j] rfl (by simp) rfl
  | workerEnd w o cancel =>
    obtain ⟨j, _, rfl⟩ := inv_workerEnd hs
    have hcal : (afterBody c s j o cancel).caller = s.caller := (afterBody_frame c s j o cancel).2.2.2.2
    rcases afterBody_log c s j o cancel with h' | h'
    · exact retLink_frame h _ h' (by simp) (by simp [hcal])
    · exact retLink_frame h _ h' (by simp) (by simp [hcal])
  | workerPost w =>
    obtain ⟨j, r, _, _, rfl⟩ := inv_workerPost hs
    exact retLink_frame h [] (by simp) (by simp) rfl
  | workerDiePost w =>
    obtain ⟨j, _, _, rfl⟩ := inv_workerDiePost hw hs
    exact retLink_frame h [] (by simp) (by simp) rfl
  | workerExit w =>
    obtain ⟨_, _, rfl⟩ := inv_workerExit hs
    exact retLink_frame h [] (by simp) (by simp) rfl
  | cancel x =>
    obtain ⟨_, _, rfl⟩ := inv_cancel hs
    exact retLink_frame h [.cancelled x] rfl (by simp) rfl

theorem retLink_run {c : Cfg} (hw : c.wiring = Wiring.std) (acts : List Act) (s : State)
    (hr : run c (init c) acts = some s) : RetLink s :=
  run_induct (c := c) RetLink (fun _ _ _ hp h => retLink_step hw hp h) acts _ _ (retLink_init c) hr

theorem cancelInv_run {c : Cfg} (hw : c.wiring = Wiring.std) (acts : List Act) (s : State)
    (hr : run c (init c) acts = some s) : CancelInv c s :=
  run_induct (c := c) (CancelInv c) (fun _ _ _ hp h => cancelInv_step hw hp h) acts _ _ (cancelInv_init c) hr

theorem abs_submitted {c : Cfg} {s : State} (h4 : Inv4 c s) : (abs c s).submitted = s.caller.sent := by
  show (absLog s.log).submitted = _
  rw [absLog, Spec.fold_submitted, h4.sentLog]; simp

/-- A job a worker has received but not yet decided on is in none of the sets. -/
theorem fresh_of_holding {c : Cfg} {s : State} (R : Reach2 c s) {w j : Nat}
    (hj : s.ws[w]? = some (W.holding j)) : (abs c s).fresh j := by
  have h0 := R.i6.decFresh w j hj
  rw [List.countP_eq_zero] at h0
  have nst : Ev.started j ∉ s.log := fun hm => by simpa [Ev.decides] using h0 _ hm
  have nsk : ∀ y, Ev.skipped j y ∉ s.log := fun y hm => by simpa [Ev.decides] using h0 _ hm
  have nend : ∀ o, Ev.ended j o ∉ s.log := fun o hm => nst (R.i6.endedStarted j o hm)
  refine ⟨?_, ?_, ?_, ?_, ?_⟩
  · intro hm
    rcases Spec.fold_running_started j s.log {} hm with h | h
    · simp at h
    · exact nst h
  · intro hm; exact nend _ (Spec.mem_succeeded.mp hm)
  · intro hm; obtain ⟨o, _, ho⟩ := Spec.mem_failedJobs.mp hm; exact nend o ho
  · intro hm; exact nsk _ (Spec.mem_skippedDep.mp hm)
  · intro hm; exact nsk _ (Spec.mem_skippedCtx.mp hm)

/-- A job whose record says `failed` (its result was an error) failed or was skipped. -/
theorem lost_of_failed {c : Cfg} {s : State} (R : Reach2 c s) {d : Nat}
    (hf : (Loop.job s.loop d).failed = true) : (abs c s).lost d := by
  obtain ⟨r, hr⟩ := R.i6.doneSeen d (R.r.i2.failedDone d hf)
  obtain ⟨hprod, _, hfe⟩ := R.i6.seenProd d r hr
  have hie : r.isErr = true := by rw [← hfe]; exact hf
  rcases hprod with ⟨o, ho, he⟩ | ⟨_, hsk⟩ | ⟨_, hsk⟩
  · refine Or.inl (Spec.mem_failedJobs.mpr ⟨o, ?_, he⟩)
    intro e; subst e; subst ho; simp [outcomeRes, Res.isErr] at hie
  · exact Or.inr (Or.inr (Spec.mem_skippedCtx.mpr hsk))
  · exact Or.inr (Or.inl (Spec.mem_skippedDep.mpr hsk))

/-- A real entry in the sense of the log is real in the sense of the specification. -/
theorem real_of_realEntry {c : Cfg} {s : State} (CI : CancelInv c s) {x : Res}
    (h : RealEntry c x s.log) : Spec.Real c (abs c s) x := by
  rcases h with ⟨rfl, h | ⟨j, h, _⟩⟩ | ⟨j, e, rfl, h⟩ | ⟨rfl, j, h⟩
  · refine Or.inr ⟨rfl, Or.inl ?_⟩
    have := CI.flag _ h
    simpa [abs, ctxDone_eq_mem] using this
  · exact Or.inr ⟨rfl, Or.inr ⟨j, Spec.mem_skippedCtx.mpr h⟩⟩
  · exact Or.inl ⟨j, Spec.mem_failed.mpr ⟨.fail e, by simp, rfl, h⟩⟩
  · exact Or.inl ⟨j, Spec.mem_failed.mpr ⟨.goexit, by simp, rfl, h⟩⟩

/-- Any duplicate-free list of jobs whose bodies are executing has at most `N` elements. -/
theorem bodyRunning_le {c : Cfg} (hw : c.wiring = Wiring.std) (hwf : WfCfg c) (acts : List Act) (s : State)
    (hr : run c (init c) acts = some s) (js : List Nat) (hnd : js.Nodup)
    (hall : ∀ j ∈ js, BodyRunning s.log j) : js.length ≤ c.N := by
  have hN := C03_at_most_N_running c acts s hr
  have hnd' : (js.map W.running).Nodup :=
    List.Pairwise.map _ (fun a b hab e => hab (W.running.inj e)) hnd
  have hsub : js.map W.running ⊆ s.ws.filter W.isRunning := by
    intro x hx
    obtain ⟨j, hj, rfl⟩ := List.mem_map.mp hx
    obtain ⟨w, _, hw'⟩ := (bodyRunning_iff_slot c hw hwf acts s hr j).mp (hall j hj)
    exact List.mem_filter.mpr ⟨List.mem_of_getElem? hw', rfl⟩
  have := hnd'.length_le_of_subset hsub
  simp only [List.length_map] at this
  omega

/-- **ContinueOnError: nil ⇒ complete** (the fail-fast half is `Inv8.nilComplete`).  When the loop
    has left its `for` with an empty error, every submitted job ended without error. -/
theorem nil_complete_coe (c : Cfg) (hw : c.wiring = Wiring.std) (hwf : WfCfg c) (hc : c.coe = true)
    (acts : List Act) (s : State) (hr : run c (init c) acts = some s) (hp : s.loop.phase ≠ .select)
    (herr : s.loop.err = []) (j : Nat) (hj : j < s.caller.sent) : Ev.ended j .ok ∈ s.log := by
  obtain ⟨R, h8⟩ := full_run hw hwf acts s hr
  have hclean : ∀ n k, k < n → ∀ r, Ev.resultSeen k r ∈ s.log → r.isErr = false := by
    intro n
    induction n with
    | zero => intro k hk; omega
    | succ n ih =>
      intro k hk r hseen
      cases hie : r.isErr with
      | false => rfl
      | true =>
        exfalso
        by_cases hinv : r = .invalid
        · subst hinv
          rcases (R.i6.seenProd k _ hseen).1 with ⟨o, ho, _⟩ | ⟨ho, _⟩ | ⟨_, hsk⟩
          · cases o <;> simp [outcomeRes] at ho
          · cases ho
          · obtain ⟨d, hd, hf⟩ := h8.skippedInvalid k hsk
            obtain ⟨r', hr'⟩ := R.i6.doneSeen d (R.r.i2.failedDone d hf)
            have hfe := (R.i6.seenProd d r' hr').2.2
            have hdk : d < k := hwf.2 k d hd
            have := ih d (by omega) r' hr'
            rw [← hfe, hf] at this; cases this
        · have : r ∈ s.log.filterMap Ev.errEntry :=
            List.mem_filterMap.mpr ⟨_, hseen, by simp [Ev.errEntry, hie, hinv]⟩
          rw [← R.i7.errCoe hc, herr] at this; cases this
  obtain ⟨r, hseen⟩ := C08_all_decided_at_exit c hw hwf hc acts s hr hp j hj
  have hok := hclean (j + 1) j (by omega) r hseen
  rcases (R.i6.seenProd j r hseen).1 with ⟨o, ho, he⟩ | ⟨ho, _⟩ | ⟨ho, _⟩
  · cases o with
    | ok => exact he
    | fail e => subst ho; simp [outcomeRes, Res.isErr] at hok
    | goexit => subst ho; simp [outcomeRes, Res.isErr] at hok
  · subst ho; simp [Res.isErr] at hok
  · subst ho; simp [Res.isErr] at hok

/-! ## 4. The refinement -/

/-- What one scheduler step is in the specification: one `Spec.Step`; or, for the model's one
    compound action — `workerEnd w o true`, a body that cancels its own context and ends, which the
    model takes atomically — two of them (`finish…`, then `cancel`). -/
def Refines (c : Cfg) (a : Act) (x y : Spec.State) : Prop :=
  Spec.Step c x y ∨ (∃ w o, a = .workerEnd w o true) ∧ ∃ m, Spec.Step c x m ∧ Spec.Step c m y

theorem Refines.steps {c : Cfg} {a : Act} {x y : Spec.State} (h : Refines c a x y) : Spec.Steps c x y := by
  rcases h with h | ⟨_, m, h1, h2⟩
  · exact .single h
  · exact .tail (.single h1) h2

/-- The finish step of the specification that corresponds to the end of a body. -/
theorem finish_step (c : Cfg) (x : Spec.State) (j : Nat) (o : Outcome) (hj : j ∈ x.running) :
    Spec.Step c x (x.apply (.ended j o)) := by
  cases o with
  | ok => exact .finishOk j hj
  | fail e => exact .finishFail j (.fail e) hj rfl
  | goexit => exact .finishFail j .exitErr hj rfl

theorem refines_step_core {c : Cfg} (hw : c.wiring = Wiring.std) (hwf : WfCfg c) (acts : List Act)
    {s s' : State} {a : Act} (hr : run c (init c) acts = some s) (hI : Spec.Inv c (abs c s))
    (h : step c s a = some s') : Refines c a (abs c s) (abs c s') := by
  obtain ⟨R, h8⟩ := full_run hw hwf acts s hr
  have RL := retLink_run hw acts s hr
  have hr' : run c (init c) (acts ++ [a]) = some s' := P3.run_append_some hr (P3.run_single h)
  obtain ⟨R', h8'⟩ := full_run hw hwf _ s' hr'
  have hsub := abs_submitted (c := c) R.r.i4
  have hretabs : (abs c s).returned = s.caller.ret := RL.ret
  have stut : ∀ {es : List Ev}, s'.log = s.log ++ es → (∀ e ∈ es, Spec.silent e = true) →
      s'.doneCtx = s.doneCtx → Refines c a (abs c s) (abs c s') := by
    intro es h1 h2 h3; rw [abs_silent c h1 h2 h3]; exact Or.inl .stutter
  have ev : ∀ {e : Ev}, s'.log = s.log ++ [e] → s'.doneCtx = s.doneCtx →
      Spec.Step c (abs c s) ((abs c s).apply e) → Refines c a (abs c s) (abs c s') := by
    intro e h1 h2 h3; rw [abs_event c h1 h2]; exact Or.inl h3
  cases a with
  | callerSend =>
    obtain ⟨_, hn, hlt, _, rfl⟩ := inv_callerSend h
    exact ev (e := .sent s.caller.sent) rfl rfl (.submit (hretabs.trans hn) (by rw [hsub]; exact hlt))
  | callerClose =>
    obtain ⟨_, _, rfl⟩ := inv_callerClose h
    exact stut (es := []) (by simp) (by simp) rfl
  | callerRetCtx =>
    obtain ⟨_, hn, hcan, rfl⟩ := inv_callerRetCtx hw h
    refine ev (e := .waitReturned [.ctxErr]) rfl rfl (.ret [.ctxErr] (hretabs.trans hn) (by simp) (by simp) ?_)
    intro x hx
    simp only [List.mem_singleton] at hx
    subst hx
    exact Or.inr ⟨rfl, Or.inl (by simpa [abs, ctxDone_eq_mem] using hcan)⟩
  | callerRetFin =>
    obtain ⟨_, hn, hp, rfl⟩ := inv_callerRetFin h
    obtain ⟨hreal, hlen, hnilff⟩ := retVal_real R h8 hp
    have CI := cancelInv_run hw acts s hr
    refine ev (e := .waitReturned (retVal c s)) rfl rfl
      (.ret (retVal c s) (hretabs.trans hn) ?_ hlen (fun x hx => real_of_realEntry CI (hreal x hx)))
    intro hnil
    have herr : s.loop.err = [] ∧ s.cancelledCtx c.waitCtx = false := by
      unfold retVal at hnil
      split at hnil
      · next he =>
        split at hnil
        · cases hnil
        · next hcan => exact ⟨by simpa using he, by simpa using hcan⟩
      · next he => rw [hnil] at he; simp at he
    refine ⟨?_, by simpa [abs, ctxDone_eq_mem] using herr.2⟩
    intro j hj
    rw [hsub] at hj
    apply Spec.mem_succeeded.mpr
    cases hc : c.coe with
    | false => exact hnilff hc hnil j hj
    | true => exact nil_complete_coe c hw hwf hc acts s hr (by simp [hp]) herr.1 j hj
  | loopEnq =>
    obtain ⟨j, rest, _, _, _, rfl⟩ := inv_loopEnq h
    exact stut (es := [.registered j]) rfl (by simp [Spec.silent]) rfl
  | loopEnqClosed =>
    obtain ⟨_, _, _, _, rfl⟩ := inv_loopEnqClosed h
    exact stut (es := []) (by simp) (by simp) rfl
  | loopDispatch w =>
    obtain ⟨j, l, _, _, _, rfl⟩ := inv_loopDispatch h
    exact stut (es := [.dispatched j]) rfl (by simp [Spec.silent]) rfl
  | loopResult =>
    obtain ⟨j, r, rest, _, _, rfl⟩ := inv_loopResult h
    refine stut (es := [.resultSeen j r] ++
      (if r.isErr && c.coe then invalidWrites (Loop.job s.loop j).consumers else []))
      (by simp [List.append_assoc]) ?_ rfl
    intro e he
    simp only [List.mem_append, List.mem_singleton] at he
    rcases he with rfl | he
    · rfl
    · split at he
      · exact Spec.silent_invalidWrites _ _ he
      · simp at he
  | loopTick =>
    obtain ⟨_, _, rfl⟩ := inv_loopTick h
    exact stut (es := [.report (Loop.report c s.loop)]) rfl (by simp [Spec.silent]) rfl
  | loopDrain =>
    obtain ⟨_, _, _, _, rfl⟩ := inv_loopDrain hw h
    exact stut (es := []) (by simp) (by simp) rfl
  | loopClose =>
    obtain ⟨_, _, _, rfl⟩ := inv_loopClose hw h
    exact stut (es := [.loopExit]) rfl (by simp [Spec.silent]) rfl
  | workerDecide w =>
    obtain ⟨j, hj, hcase⟩ := inv_workerDecide hw h
    have hfresh := fresh_of_holding R hj
    have hjlt : j < (abs c s).submitted := by
      rw [hsub]; exact (endInv_run hw hwf acts s hr).slot w _ j hj rfl
    rcases hcase with ⟨hcan, rfl⟩ | ⟨hcan, _, rfl⟩ | ⟨hcan, _, rfl⟩
    · exact ev (e := .skipped j .ctx) rfl rfl
        (.skipCtx j hjlt hfresh (by simpa [abs, ctxDone_eq_mem] using hcan))
    · have hm : Ev.skipped j .invalid ∈ (addLog (setW s w (.posting j .invalid)) (.skipped j .invalid)).log := by simp
      have hcoe : c.coe = true := by
        cases hc : c.coe with
        | true => rfl
        | false => exact absurd hm (h8'.noInvalidFf hc j)
      obtain ⟨d, hd, hf⟩ := h8'.skippedInvalid j hm
      exact ev (e := .skipped j .invalid) rfl rfl (.skipDep j hcoe hjlt hfresh ⟨d, hd, lost_of_failed R hf⟩
        (by simpa [abs, ctxDone_eq_mem] using hcan))
    · have hdeps : ∀ d ∈ c.depsOf j, d ∈ (abs c s).succeeded := by
        intro d hd
        have hi : (addLog (setW s w (.running j)) (.started j)).log[s.log.length]? = some (Ev.started j) := by simp
        obtain ⟨k, hk, hke⟩ := R'.r.i3.depsBefore _ j hi d hd
        have : s.log[k]? = some (Ev.ended d .ok) := by
          simpa [List.getElem?_append_left hk] using hke
        exact Spec.mem_succeeded.mpr (List.mem_of_getElem? this)
      have hbound : (abs c s).running.length < c.N := by
        have hnst : Ev.started j ∉ s.log := R.r.i3.holdingFresh w j hj
        have hall : ∀ k ∈ j :: (abs c s).running,
            BodyRunning (addLog (setW s w (.running j)) (.started j)).log k := by
          intro k hk
          simp only [List.mem_cons] at hk
          simp only [BodyRunning, addLog_log, setW_log, List.mem_append, List.mem_singleton,
            reduceCtorEq, or_false, Ev.started.injEq]
          rcases hk with rfl | hk
          · exact ⟨Or.inr rfl, fun o ho => hnst (R.i6.endedStarted _ o ho)⟩
          · refine ⟨Or.inl ?_, ?_⟩
            · rcases Spec.fold_running_started k s.log {} hk with h0 | h0
              · simp at h0
              · exact h0
            · intro o ho
              have hd := (hI.disjoint k).1 hk
              cases o with
              | ok => exact hd.1 (Spec.mem_succeeded.mpr ho)
              | fail e => exact hd.2.1 (Spec.mem_failedJobs.mpr ⟨_, by simp, ho⟩)
              | goexit => exact hd.2.1 (Spec.mem_failedJobs.mpr ⟨_, by simp, ho⟩)
        have := bodyRunning_le hw hwf _ _ hr' (j :: (abs c s).running)
          (List.nodup_cons.mpr ⟨hfresh.1, hI.nodup.1⟩) hall
        simp only [List.length_cons] at this
        omega
      exact ev (e := .started j) rfl rfl
        (.start j hjlt hfresh hdeps (by simpa [abs, ctxDone_eq_mem] using hcan) hbound)
  | workerEnd w o cancel =>
    obtain ⟨j, hj, rfl⟩ := inv_workerEnd h
    obtain ⟨hst, hne0⟩ := R.i6.runFresh w j hj
    have hjrun : j ∈ (abs c s).running := by
      apply Spec.fold_running_of_started j s.log {} (Or.inr hst)
      intro o' ho
      have := List.countP_pos_iff.mpr ⟨_, ho, (by simp [Ev.isEndedOf] : Ev.isEndedOf j (Ev.ended j o') = true)⟩
      omega
    by_cases hcc : (cancel && !s.cancelledCtx (c.ctxOfJob j)) = true
    · -- the compound action: the body cancels its own context and ends
      have hlog : (setW (afterBody c s j o cancel) w (if o = .goexit then .dying j else .posting j (outcomeRes o))).log
          = s.log ++ [Ev.ended j o, Ev.cancelled (c.ctxOfJob j)] := by
        simp [afterBody, hcc]
      have hdc : (setW (afterBody c s j o cancel) w (if o = .goexit then .dying j else .posting j (outcomeRes o))).doneCtx
          = c.ctxOfJob j :: s.doneCtx := by
        simp [afterBody, hcc]
      have hcanc : cancel = true ∧ s.cancelledCtx (c.ctxOfJob j) = false := by simpa using hcc
      rw [abs_append c hlog, hdc]
      refine Or.inr ⟨⟨w, o, by rw [hcanc.1]⟩, (abs c s).apply (.ended j o), finish_step c _ j o hjrun, ?_⟩
      have e : List.foldl Spec.State.apply ((abs c s).setCancelled (c.ctxOfJob j :: s.doneCtx))
            [Ev.ended j o, Ev.cancelled (c.ctxOfJob j)]
          = { (abs c s).apply (.ended j o) with
              cancelled := c.ctxOfJob j :: ((abs c s).apply (.ended j o)).cancelled } := by
        cases o <;> rfl
      rw [e]
      refine .cancel _ (Cfg.ctxOfJob_mem_ctxs c j) ?_
      have : ((abs c s).apply (.ended j o)).cancelled = s.doneCtx := by cases o <;> rfl
      rw [this]
      simpa [ctxDone_eq_mem] using hcanc.2
    · have hlog : (setW (afterBody c s j o cancel) w (if o = .goexit then .dying j else .posting j (outcomeRes o))).log
          = s.log ++ [Ev.ended j o] := by
        simp [afterBody, hcc]
      have hdc : (setW (afterBody c s j o cancel) w (if o = .goexit then .dying j else .posting j (outcomeRes o))).doneCtx
          = s.doneCtx := by
        simp [afterBody, hcc]
      exact ev hlog hdc (finish_step c _ j o hjrun)
  | workerPost w =>
    obtain ⟨j, r, _, _, rfl⟩ := inv_workerPost h
    exact stut (es := []) (by simp) (by simp) rfl
  | workerDiePost w =>
    obtain ⟨j, _, _, rfl⟩ := inv_workerDiePost hw h
    exact stut (es := []) (by simp) (by simp) rfl
  | workerExit w =>
    obtain ⟨_, _, rfl⟩ := inv_workerExit h
    exact stut (es := []) (by simp) (by simp) rfl
  | cancel x =>
    obtain ⟨hcan, hx, rfl⟩ := inv_cancel h
    rw [abs_append c (s := s) (s' := addLog (s.cancelCtx x) (.cancelled x)) (es := [.cancelled x]) rfl]
    exact Or.inl (.cancel x hx (by simpa [abs, ctxDone_eq_mem] using hcan))

/-- **Refinement, all runs.**  Every run of the scheduler — any configuration with standard wiring,
    any interleaving of caller, loop, workers and cancellations, any outcomes — maps under `abs`
    to a run of the specification from its initial (empty) state. -/
theorem refines_run (c : Cfg) (hw : c.wiring = Wiring.std) (hwf : WfCfg c) (acts : List Act) (s : State)
    (hr : run c (init c) acts = some s) : Spec.Steps c Spec.init (abs c s) := by
  have : (∃ acts, run c (init c) acts = some s) ∧ Spec.Steps c Spec.init (abs c s) := by
    refine run_induct (c := c)
      (fun s => (∃ acts, run c (init c) acts = some s) ∧ Spec.Steps c Spec.init (abs c s))
      ?_ acts _ _ ⟨⟨[], rfl⟩, .refl⟩ hr
    intro s a s' ⟨⟨acts0, hr0⟩, hsteps⟩ h
    refine ⟨⟨acts0 ++ [a], P3.run_append_some hr0 (P3.run_single h)⟩, ?_⟩
    exact hsteps.trans (refines_step_core hw hwf acts0 hr0 (Spec.inv_reachable hsteps) h).steps
  exact this.2

/-- **Refinement, one step.**  From every reachable state, every enabled action of the scheduler is
    a step of the specification between the abstractions of the two states (`Refines`: exactly one
    `Spec.Step`, except that the model's compound action `workerEnd w o true` — a body that cancels
    its own context as it ends — is the two steps `finish…; cancel`).  All seventeen actions are
    covered; the loop's actions, `callerClose`, and the workers' posting/exiting stutter. -/
theorem refines_step (c : Cfg) (hw : c.wiring = Wiring.std) (hwf : WfCfg c) (acts : List Act) (s s' : State)
    (a : Act) (hr : run c (init c) acts = some s) (h : step c s a = some s') :
    Refines c a (abs c s) (abs c s') :=
  refines_step_core hw hwf acts hr (Spec.inv_reachable (refines_run c hw hwf acts s hr)) h

/-- The same with the conclusion as a single `Spec.Step`, for every action but the compound one. -/
theorem refines_step_atomic (c : Cfg) (hw : c.wiring = Wiring.std) (hwf : WfCfg c) (acts : List Act)
    (s s' : State) (a : Act) (hr : run c (init c) acts = some s) (h : step c s a = some s')
    (ha : ∀ w o, a ≠ .workerEnd w o true) : Spec.Step c (abs c s) (abs c s') := by
  rcases refines_step c hw hwf acts s s' a hr h with h | ⟨⟨w, o, e⟩, _⟩
  · exact h
  · exact absurd e (ha w o)

/-- Internal actions (the loop goroutine, closing `enqueuec`, posting results, exiting) are
    invisible: the abstract state does not move. -/
theorem refines_internal (c : Cfg) (hw : c.wiring = Wiring.std) (s s' : State) (a : Act)
    (h : step c s a = some s')
    (ha : a = .callerClose ∨ a = .loopEnq ∨ a = .loopEnqClosed ∨ (∃ w, a = .loopDispatch w) ∨
      a = .loopResult ∨ a = .loopTick ∨ a = .loopDrain ∨ a = .loopClose ∨ (∃ w, a = .workerPost w) ∨
      (∃ w, a = .workerDiePost w) ∨ (∃ w, a = .workerExit w)) : abs c s' = abs c s := by
  rcases ha with rfl | rfl | rfl | ⟨w, rfl⟩ | rfl | rfl | rfl | rfl | ⟨w, rfl⟩ | ⟨w, rfl⟩ | ⟨w, rfl⟩
  · obtain ⟨_, _, rfl⟩ := inv_callerClose h; rfl
  · obtain ⟨j, rest, _, _, _, rfl⟩ := inv_loopEnq h
    exact abs_silent c (es := [.registered j]) rfl (by simp [Spec.silent]) rfl
  · obtain ⟨_, _, _, _, rfl⟩ := inv_loopEnqClosed h; rfl
  · obtain ⟨j, l, _, _, _, rfl⟩ := inv_loopDispatch h
    exact abs_silent c (es := [.dispatched j]) rfl (by simp [Spec.silent]) rfl
  · obtain ⟨j, r, rest, _, _, rfl⟩ := inv_loopResult h
    refine abs_silent c (es := [.resultSeen j r] ++
      (if r.isErr && c.coe then invalidWrites (Loop.job s.loop j).consumers else []))
      (by simp [List.append_assoc]) ?_ rfl
    intro e he
    simp only [List.mem_append, List.mem_singleton] at he
    rcases he with rfl | he
    · rfl
    · split at he
      · exact Spec.silent_invalidWrites _ _ he
      · simp at he
  · obtain ⟨_, _, rfl⟩ := inv_loopTick h
    exact abs_silent c (es := [.report (Loop.report c s.loop)]) rfl (by simp [Spec.silent]) rfl
  · obtain ⟨_, _, _, _, rfl⟩ := inv_loopDrain hw h; rfl
  · obtain ⟨_, _, _, rfl⟩ := inv_loopClose hw h
    exact abs_silent c (es := [.loopExit]) rfl (by simp [Spec.silent]) rfl
  · obtain ⟨j, r, _, _, rfl⟩ := inv_workerPost h; rfl
  · obtain ⟨j, _, _, rfl⟩ := inv_workerDiePost hw h; rfl
  · obtain ⟨_, _, rfl⟩ := inv_workerExit h; rfl

/-! ## 5. The specification's theorems, carried to scheduler runs -/

namespace Spec

/-- A started job is in `running`, `succeeded` or `failed` (pure fact about the fold). -/
theorem started_of_log {log : List Ev} {j : Nat} (h : Ev.started j ∈ log) : (absLog log).started j := by
  by_cases he : ∃ o, Ev.ended j o ∈ log
  · obtain ⟨o, ho⟩ := he
    cases o with
    | ok => exact Or.inr (Or.inl (mem_succeeded.mpr ho))
    | fail e => exact Or.inr (Or.inr (mem_failedJobs.mpr ⟨_, by simp, ho⟩))
    | goexit => exact Or.inr (Or.inr (mem_failedJobs.mpr ⟨_, by simp, ho⟩))
  · exact Or.inl (fold_running_of_started j log {} (Or.inr h) (fun o ho => he ⟨o, ho⟩))

theorem apply_occ (a : State) (e : Ev) (j : Nat) :
    a.occ j + (if e = .started j then 1 else 0) ≤ (a.apply e).occ j := by
  rcases e with _ | _ | _ | k | ⟨k, _ | _ | _⟩ | ⟨k, _ | _⟩ | _ | _ | _ | _ | _ | _ <;>
    simp only [State.apply, State.occ, State.failedJobs, List.map_cons, count_cons_nat, count_erase_nat,
      reduceCtorEq, if_false, Ev.started.injEq] <;>
    first
      | omega
      | (by_cases e : k = j
         · subst e; simp only [if_true, ↓reduceIte]; omega
         · simp only [if_neg e]; omega)

/-- Every `started j` event is an occurrence of `j` in the sets (pure fact about the fold). -/
theorem fold_occ (j : Nat) : ∀ (log : List Ev) (a : State),
    a.occ j + log.count (Ev.started j) ≤ (log.foldl State.apply a).occ j
  | [], _ => by simp
  | e :: es, a => by
    rw [List.foldl_cons, List.count_cons]
    have h1 := apply_occ a e j
    have h2 := fold_occ j es (a.apply e)
    have : (if (e == Ev.started j) = true then 1 else 0) = (if e = Ev.started j then 1 else 0) := by simp
    rw [this]
    omega

def isEnded : Ev → Bool
  | .ended _ _ => true
  | _ => false

theorem apply_len (a : State) (e : Ev) :
    a.running.length + (if e.isStarted then 1 else 0) ≤ (a.apply e).running.length + (if isEnded e then 1 else 0) := by
  rcases e with _ | _ | _ | k | ⟨k, _ | _ | _⟩ | ⟨k, _ | _⟩ | _ | _ | _ | _ | _ | _ <;>
    simp only [State.apply, Ev.isStarted, isEnded, List.length_cons, List.length_erase, if_true, Bool.false_eq_true,
      if_false] <;>
    first
      | omega
      | (split <;> omega)

/-- Bodies started − bodies ended ≤ bodies running (pure fact about the fold). -/
theorem fold_len : ∀ (log : List Ev) (a : State),
    a.running.length + log.countP Ev.isStarted ≤ (log.foldl State.apply a).running.length + log.countP isEnded
  | [], _ => by simp
  | e :: es, a => by
    rw [List.foldl_cons, List.countP_cons, List.countP_cons]
    have h1 := apply_len a e
    have h2 := fold_len es (a.apply e)
    omega

end Spec

/-- **C01 via refinement.**  In every run: when `started j` is in the log, every dependency of `j`
    has ended without error; and `started j` occurs at most once.  Proof: `refines_run`, then the
    specification's theorems (a) `Inv.deps_succeeded` and (b) "every job is in at most one set, at
    most once" — no scheduler invariant is used besides the refinement. -/
theorem C01_via_refinement (c : Cfg) (hw : c.wiring = Wiring.std) (hwf : WfCfg c) (acts : List Act) (s : State)
    (hr : run c (init c) acts = some s) (j : Nat) :
    (Ev.started j ∈ s.log → ∀ d ∈ c.depsOf j, Ev.ended d .ok ∈ s.log) ∧ s.log.count (Ev.started j) ≤ 1 := by
  have hI : Spec.Inv c (abs c s) := Spec.inv_reachable (refines_run c hw hwf acts s hr)
  refine ⟨?_, ?_⟩
  · intro hst d hd
    exact Spec.mem_succeeded.mp (hI.deps_succeeded j (Spec.started_of_log hst) d hd)
  · have h1 := Spec.fold_occ j s.log {}
    have h2 : (abs c s).occ j ≤ 1 := hI.occ j
    have h3 : (abs c s).occ j = (absLog s.log).occ j := rfl
    have h4 : Spec.State.occ {} j = 0 := rfl
    rw [h3, absLog] at h2
    omega

/-- **C03 via refinement.**  In every run, at every instant: any duplicate-free list of jobs whose
    bodies are executing (started, not ended) has at most `N` elements, and the number of `started`
    events exceeds the number of `ended` events by at most `N`.  Proof: `refines_run` and the
    specification's bound `Inv.running_le`. -/
theorem C03_via_refinement (c : Cfg) (hw : c.wiring = Wiring.std) (hwf : WfCfg c) (acts : List Act) (s : State)
    (hr : run c (init c) acts = some s) :
    (∀ js : List Nat, js.Nodup → (∀ j ∈ js, BodyRunning s.log j) → js.length ≤ c.N) ∧
    s.log.countP Ev.isStarted ≤ s.log.countP Spec.isEnded + c.N := by
  have hI : Spec.Inv c (abs c s) := Spec.inv_reachable (refines_run c hw hwf acts s hr)
  have hb : (absLog s.log).running.length ≤ c.N := hI.running_le
  refine ⟨?_, ?_⟩
  · intro js hnd hall
    have hsub : js ⊆ (absLog s.log).running := fun j hj =>
      Spec.fold_running_of_started j s.log {} (Or.inr (hall j hj).1) (hall j hj).2
    exact Nat.le_trans (hnd.length_le_of_subset hsub) hb
  · have := Spec.fold_len s.log {}
    rw [absLog] at hb
    simp only [List.length_nil, Nat.zero_add] at this
    omega

/-- **C07 via refinement.**  In every run, in BOTH error modes: if `Wait` returned nil then every
    submitted job ended without error; and in fail-fast mode no job is ever skipped as invalid.
    Proof: `refines_run` and the specification's theorems (e) `Inv.nil_complete` and
    (d) `Inv.failfast_no_skipDep`.  (That `Wait`'s context is live at the instant of a nil return
    is the premise of the specification's `ret` rule, i.e. a property of the abstract run itself.) -/
theorem C07_via_refinement (c : Cfg) (hw : c.wiring = Wiring.std) (hwf : WfCfg c) (acts : List Act) (s : State)
    (hr : run c (init c) acts = some s) :
    (Ev.waitReturned [] ∈ s.log → ∀ j, j < s.caller.sent → Ev.ended j .ok ∈ s.log) ∧
    (c.coe = false → ∀ j, Ev.skipped j .invalid ∉ s.log) := by
  have hI : Spec.Inv c (abs c s) := Spec.inv_reachable (refines_run c hw hwf acts s hr)
  refine ⟨?_, ?_⟩
  · intro hnil j hj
    have RL := retLink_run hw acts s hr
    have hret : (abs c s).returned = some [] := RL.ret.trans (RL.logged [] hnil)
    have hsub := abs_submitted (c := c) (reach_run hw hwf acts s hr).i4
    exact Spec.mem_succeeded.mp (hI.nil_complete hret j (by rw [hsub]; exact hj))
  · intro hc j hm
    have := hI.failfast_no_skipDep hc
    have hm' : j ∈ (abs c s).skippedDep := Spec.mem_skippedDep.mpr hm
    rw [this] at hm'
    cases hm'

/-! ## 6. A concrete abstract trace, and an impossible step -/

namespace RefineExample

/-- The states a run goes through. -/
def runStates (c : Cfg) : State → List Act → List State
  | s, [] => [s]
  | s, a :: as => s :: (match step c s a with
      | some s' => runStates c s' as
      | none => [])

/-- Drop consecutive repetitions (the stutters). -/
def compress : List Spec.State → List Spec.State
  | x :: y :: rest => if x = y then compress (y :: rest) else x :: compress (y :: rest)
  | l => l

/-- The abstract trace of a run: the abstraction of every state it goes through, stutters removed. -/
def absTrace (c : Cfg) (acts : List Act) : List Spec.State :=
  compress ((runStates c (init c) acts).map (abs c))

/-- ContinueOnError, two workers, four jobs: 1 depends on 0, 3 depends on 2; jobs 2 and 3 are
    enqueued with context 1, the others and `Wait` with context 0. -/
def cfg : Cfg := { N := 2, coe := true, emit := false, deps := [[], [0], [], [2]], ctxOf := [0, 0, 1, 1] }

/-- Jobs 0 and 2 run concurrently; 0 fails with error 7; 2 succeeds and cancels its context as it
    ends (the compound action); 1 is skipped for its failed dependency, 3 for its cancelled
    context; `Wait` returns both errors. -/
def acts : List Act :=
  [.callerSend, .loopEnq, .callerSend, .loopEnq, .callerSend, .loopEnq, .callerSend, .loopEnq,
   .callerClose, .loopEnqClosed,
   .loopDispatch 0, .loopDispatch 1, .workerDecide 0, .workerDecide 1,
   .workerEnd 0 (.fail 7) false, .workerPost 0, .loopResult,
   .workerEnd 1 .ok true, .workerPost 1, .loopResult,
   .loopDispatch 0, .loopDispatch 1, .workerDecide 0, .workerDecide 1,
   .workerPost 0, .workerPost 1, .loopResult, .loopResult,
   .loopClose, .callerRetFin, .workerExit 0, .workerExit 1]

/-- **The abstract trace of the run, computed.**  Twelve abstract states for 32 scheduler actions:
    four `submit`s, `start 0`, `start 2`, `finishFail 0 (fail 7)`, `finishOk 2; cancel 1` (one
    scheduler action, two specification steps), `skipDep 1`, `skipCtx 3`, `ret [fail 7, ctxErr]`;
    the other 21 actions stutter. -/
theorem absTrace_computed :
    absTrace cfg acts =
      [ {}, { submitted := 1 }, { submitted := 2 }, { submitted := 3 }, { submitted := 4 },
        { submitted := 4, running := [0] },
        { submitted := 4, running := [2, 0] },
        { submitted := 4, running := [2], failed := [(0, .fail 7)] },
        { submitted := 4, succeeded := [2], failed := [(0, .fail 7)], cancelled := [1] },
        { submitted := 4, succeeded := [2], failed := [(0, .fail 7)], skippedDep := [1], cancelled := [1] },
        { submitted := 4, succeeded := [2], failed := [(0, .fail 7)], skippedDep := [1], skippedCtx := [3],
          cancelled := [1] },
        { submitted := 4, succeeded := [2], failed := [(0, .fail 7)], skippedDep := [1], skippedCtx := [3],
          cancelled := [1], returned := some [.fail 7, .ctxErr] } ] := by
  decide +kernel

/-- The run is a complete run of the scheduler (it ends in a `Final` state) of a well-formed
    configuration … -/
theorem run_final : ∃ s, run cfg (init cfg) acts = some s ∧ Final s = true ∧ wfCfgB cfg = true ∧
    abs cfg s = { submitted := 4, succeeded := [2], failed := [(0, .fail 7)], skippedDep := [1],
                  skippedCtx := [3], cancelled := [1], returned := some [.fail 7, .ctxErr] } := by
  decide

/-- … so, by `refines_run`, its last abstract state is reachable in the specification (the
    hypotheses of the refinement theorem are satisfiable). -/
theorem spec_reaches : Spec.Steps cfg Spec.init
    { submitted := 4, succeeded := [2], failed := [(0, .fail 7)], skippedDep := [1],
      skippedCtx := [3], cancelled := [1], returned := some [.fail 7, .ctxErr] } := by
  obtain ⟨s, hr, _, hwf, habs⟩ := run_final
  rw [← habs]
  exact refines_run cfg rfl (wfCfg_of_b hwf) acts s hr

instance (s : Spec.State) (j : Nat) : Decidable (s.fresh j) := by
  unfold Spec.State.fresh; infer_instance
instance (s : Spec.State) (j : Nat) : Decidable (s.lost j) := by
  unfold Spec.State.lost; infer_instance

/-- The eighth state of the trace: job 0 has failed, job 1 (which depends on it) is undecided. -/
def afterFail : Spec.State := { submitted := 4, running := [2], failed := [(0, .fail 7)] }

/-- **An impossible step**: no step of the specification starts job 1 — its dependency failed. -/
theorem no_start_after_failed_dep : ¬ ∃ t, Spec.Step cfg afterFail t ∧ 1 ∈ t.running := by
  rintro ⟨t, h, hin⟩
  have := Spec.start_inv h (by decide) hin
  revert this
  decide

/-- What is possible instead (ContinueOnError): job 1 is skipped for its dependency. -/
theorem skip_after_failed_dep : Spec.Step cfg afterFail { afterFail with skippedDep := [1] } :=
  .skipDep 1 rfl (by decide) (by decide) ⟨0, by decide, by decide⟩ (by decide)

/-- And in fail-fast mode not even that: the rule needs `coe = true`. -/
theorem no_skipDep_failfast : ¬ ∃ t, Spec.Step { cfg with coe := false } afterFail t ∧ 1 ∈ t.skippedDep := by
  rintro ⟨t, h, hin⟩
  cases h <;> simp [afterFail] at hin
  next hc _ _ _ _ => cases hc

end RefineExample

end Sched
