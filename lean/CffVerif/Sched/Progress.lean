/-
  Progress (C05, C06): in every reachable state that is not final some non-tick action is
  enabled, and a natural-number measure strictly decreases on every non-tick action.
-/
import CffVerif.Sched.ReportInv

namespace Sched

open Loop

/-- Small protocol facts needed for progress. -/
structure Inv5 (c : Cfg) (s : State) : Prop where
  nilClosed : s.loop.enqNil = true → s.enq = [] ∧ s.caller.closed = true
  retClosed : s.caller.ret.isSome = true → s.caller.closed = true
  notDone : s.loop.phase = .select → ¬ (s.loop.pending = 0 ∧ s.loop.enqNil = true)
  noExited : s.loop.phase ≠ .exited → ∀ x ∈ s.ws, x ≠ W.exited
  exitedClosed : s.loop.phase = .exited → s.caller.closed = true ∧ s.enq = []
  closedNoSend : s.caller.closed = true → True

theorem inv5_init (c : Cfg) : Inv5 c (init c) := by
  refine ⟨by simp [init], by simp [init], by simp [init], ?_, by simp [init], fun _ => trivial⟩
  intro _ x hx; simp [init, List.mem_replicate] at hx; simp [hx.2]

theorem exitCheck_notDone (l : LoopSt) : (exitCheck l).phase = .select → ¬ ((exitCheck l).pending = 0 ∧ (exitCheck l).enqNil = true) := by
  intro hp hc
  rw [exitCheck_phase] at hp
  simp only [exitCheck_pending, exitCheck_enqNil] at hc
  simp [hc.1, hc.2] at hp

theorem mem_set_ne {ws : List W} {w : Nat} {y x : W} (hx : x ∈ ws.set w y) : x = y ∨ x ∈ ws := by
  rcases List.mem_or_eq_of_mem_set hx with h | h
  · exact Or.inr h
  · exact Or.inl h

theorem inv5_step {c : Cfg} (hw : c.wiring = Wiring.std) {s s' : State} {a : Act}
    (h : Inv5 c s) (hs : step c s a = some s') : Inv5 c s' := by
  obtain ⟨g1, g2, g3, g4, g5, _⟩ := h
  cases a with
  | callerSend =>
    obtain ⟨hc, _, _, he, rfl⟩ := inv_callerSend hs
    refine ⟨?_, by simpa using g2, by simpa using g3, by simpa using g4, ?_, fun _ => trivial⟩
    · intro hn; have := (g1 hn).2; simp [hc] at this
    · intro hp; have := (g5 hp).1; simp [hc] at this
  | callerClose =>
    obtain ⟨_, _, rfl⟩ := inv_callerClose hs
    exact ⟨fun hn => ⟨(g1 hn).1, rfl⟩, fun _ => rfl, g3, g4, fun hp => ⟨rfl, (g5 hp).2⟩, fun _ => trivial⟩
  | callerRetCtx =>
    obtain ⟨hc, _, _, rfl⟩ := inv_callerRetCtx hw hs
    exact ⟨by simpa using g1, fun _ => by simpa using hc, by simpa using g3, by simpa using g4, by simpa using g5, fun _ => trivial⟩
  | callerRetFin =>
    obtain ⟨hc, _, _, rfl⟩ := inv_callerRetFin hs
    exact ⟨by simpa using g1, fun _ => by simpa using hc, by simpa using g3, by simpa using g4, by simpa using g5, fun _ => trivial⟩
  | loopEnq =>
    obtain ⟨j, rest, hp, hn, he, rfl⟩ := inv_loopEnq hs
    have eo := enq_others c s.loop j
    refine ⟨?_, by simpa using g2, ?_, ?_, ?_, fun _ => trivial⟩
    · intro hn'; simp [eo.2.2.2.1, hn] at hn'
    · intro hp'; exact exitCheck_notDone _ hp'
    · intro hp' x hx
      exact g4 (by simp [hp]) x (by simpa using hx)
    · intro hp'
      simp only [addLog_loop, exitCheck_phase, eo.2.2.1, hp] at hp'
      split at hp' <;> simp at hp'
  | loopEnqClosed =>
    obtain ⟨hp, _, he, hc, rfl⟩ := inv_loopEnqClosed hs
    refine ⟨fun _ => ⟨he, hc⟩, g2, fun hp' => exitCheck_notDone _ hp', ?_, ?_, fun _ => trivial⟩
    · intro _ x hx; exact g4 (by simp [hp]) x hx
    · intro hp'
      simp only [exitCheck_phase, closed, hp] at hp'
      split at hp' <;> simp at hp'
  | loopDispatch w =>
    obtain ⟨j, l, hp, hidle, hd, rfl⟩ := inv_loopDispatch hs
    have hgate : c.wiring.gateDispatch = true := by rw [hw]; rfl
    obtain ⟨_, _, _, _, _, _, hph, hnil, _⟩ := dispatch_gate hgate hd
    refine ⟨?_, by simpa using g2, fun hp' => exitCheck_notDone _ hp', ?_, ?_, fun _ => trivial⟩
    · intro hn; simp only [addLog_loop, setW_loop, exitCheck_enqNil, hnil] at hn; simpa using g1 hn
    · intro _ x hx
      simp only [addLog_ws, setW_ws] at hx
      rcases mem_set_ne hx with rfl | hx
      · simp
      · exact g4 (by simp [hp]) x hx
    · intro hp'
      simp only [addLog_loop, setW_loop, exitCheck_phase, hph, hp] at hp'
      split at hp' <;> simp at hp'
  | loopResult =>
    obtain ⟨j, r, rest, hp, hdc, rfl⟩ := inv_loopResult hs
    obtain ⟨hnil, hph⟩ := result_frame c s.loop j r
    refine ⟨?_, g2, fun hp' => exitCheck_notDone _ hp', ?_, ?_, fun _ => trivial⟩
    · intro hn; simp only [exitCheck_enqNil, hnil] at hn; exact g1 hn
    · intro _ x hx; exact g4 (by simp [hp]) x hx
    · intro hp'
      simp only [exitCheck_phase] at hp'
      split at hp'
      · simp at hp'
      · rcases hph with h | h <;> simp [h, hp] at hp'
  | loopTick =>
    obtain ⟨hp, _, rfl⟩ := inv_loopTick hs
    refine ⟨by simpa using g1, by simpa using g2, fun hp' => exitCheck_notDone _ hp', ?_, ?_, fun _ => trivial⟩
    · intro _ x hx; exact g4 (by simp [hp]) x (by simpa using hx)
    · intro hp'
      simp only [addLog_loop, exitCheck_phase, hp] at hp'
      split at hp' <;> simp at hp'
  | loopDrain =>
    obtain ⟨_, _, hp, _, rfl⟩ := inv_loopDrain hw hs
    refine ⟨?_, g2, g3, g4, ?_, fun _ => trivial⟩
    · intro hn; have := g1 hn; simp_all
    · intro hp'; simp [hp] at hp'
  | loopClose =>
    obtain ⟨hp, he, hc, rfl⟩ := inv_loopClose hw hs
    refine ⟨by simpa using g1, by simpa using g2, by simp, by simp, fun _ => ⟨hc, he⟩, fun _ => trivial⟩
  | workerDecide w =>
    obtain ⟨j, hj, hcases⟩ := inv_workerDecide hw hs
    rcases hcases with ⟨_, rfl⟩ | ⟨_, _, rfl⟩ | ⟨_, _, rfl⟩ <;>
    · refine ⟨by simpa using g1, by simpa using g2, by simpa using g3, ?_, by simpa using g5, fun _ => trivial⟩
      intro hp x hx
      simp only [addLog_ws, setW_ws] at hx
      rcases mem_set_ne hx with rfl | hx
      · simp
      · exact g4 hp x hx
  | workerEnd w o cancel =>
    obtain ⟨j, hj, rfl⟩ := inv_workerEnd hs
    have hab : (afterBody c s j o cancel).loop = s.loop ∧ (afterBody c s j o cancel).ws = s.ws ∧
        (afterBody c s j o cancel).enq = s.enq ∧ (afterBody c s j o cancel).caller = s.caller := by
      unfold afterBody; split <;> simp
    refine ⟨by simpa [hab] using g1, by simpa [hab] using g2, by simpa [hab] using g3, ?_, by simpa [hab] using g5, fun _ => trivial⟩
    intro hp x hx
    simp only [setW_ws, setW_loop, hab.1, hab.2.1] at hx hp
    rcases mem_set_ne hx with rfl | hx
    · split <;> simp
    · exact g4 hp x hx
  | workerPost w =>
    obtain ⟨j, r, hj, _, rfl⟩ := inv_workerPost hs
    refine ⟨by simpa using g1, by simpa using g2, by simpa using g3, ?_, by simpa using g5, fun _ => trivial⟩
    intro hp x hx
    simp only [setW_ws] at hx
    rcases mem_set_ne hx with rfl | hx
    · simp
    · exact g4 hp x hx
  | workerDiePost w =>
    obtain ⟨j, hj, _, rfl⟩ := inv_workerDiePost hw hs
    refine ⟨by simpa using g1, by simpa using g2, by simpa using g3, ?_, by simpa using g5, fun _ => trivial⟩
    intro hp x hx
    simp only [setW_ws] at hx
    rcases mem_set_ne hx with rfl | hx
    · simp
    · exact g4 hp x hx
  | workerExit w =>
    obtain ⟨hj, hp, rfl⟩ := inv_workerExit hs
    refine ⟨by simpa using g1, by simpa using g2, by simpa using g3, ?_, by simpa using g5, fun _ => trivial⟩
    intro hp'; simp [hp] at hp'
  | cancel =>
    obtain ⟨_, _, rfl⟩ := inv_cancel hs
    exact ⟨by simpa using g1, by simpa using g2, by simpa using g3, by simpa using g4, by simpa using g5, fun _ => trivial⟩


/-! ### progress -/

/-- Everything known about a reachable state. -/
structure Reach (c : Cfg) (s : State) : Prop where
  i1 : Inv1 c s
  i2 : Inv2 c s
  i3 : Inv3 c s
  i4 : Inv4 c s
  i5 : Inv5 c s

theorem reach_run {c : Cfg} (hw : c.wiring = Wiring.std) (hwf : WfCfg c) (acts : List Act) (s : State)
    (hr : run c (init c) acts = some s) : Reach c s := by
  refine run_induct (c := c) (Reach c) ?_ acts _ _
    ⟨inv1_init c, inv2_init c, inv3_init c, inv4_init c, inv5_init c⟩ hr
  intro s a s' hp h
  exact ⟨inv1_step hw hwf hp.i1 h, inv2_step hw hwf hp.i1 hp.i2 h, inv3_step hw hwf hp.i1 hp.i2 hp.i3 h,
         inv4_step hw hwf hp.i1 hp.i4 h, inv5_step hw hp.i5 h⟩

/-- No circular wait: while the loop selects and has pending jobs, some job is ready, held by a
    worker, or has its result in `donec`. -/
theorem no_circular_wait {c : Cfg} (hwf : WfCfg c) {s : State} (R : Reach c s)
    (hp : s.loop.phase = .select) (hpend : s.loop.pending ≠ 0) (hready : s.loop.ready = [])
    (hidle : ∀ x ∈ s.ws, W.busy x = false) (hdc : s.donec = []) : False := by
  have hcore := R.i1.core hp
  -- every registered job is done (strong induction: dependencies are smaller)
  have all : ∀ k, k < s.loop.jobs.length → (job s.loop k).done = true := by
    intro k
    induction k using Nat.strongRecOn with
    | _ k ih =>
      intro hk
      cases hd : (job s.loop k).done with
      | true => rfl
      | false =>
        exfalso
        have hrem : (job s.loop k).remaining = 0 := by
          rw [hcore.rem k hk]
          have : (c.depsOf k).countP (fun d => !(job s.loop d).done) = 0 := by
            rw [List.countP_eq_zero]
            intro d hdm
            have hdk := hwf.2 k d hdm
            simp [ih d hdk (by omega)]
          simp [this]
        cases hdisp : (job s.loop k).dispatched with
        | false =>
          have := (hcore.readyIff k).mpr ⟨hk, hrem, hdisp⟩
          rw [hready] at this; simp at this
        | true =>
          have hc := R.i1.cust k
          simp only [hdisp, hd, Bool.not_false, Bool.and_self, Bool.toNat_true, custCount, hdc, List.countP_nil, Nat.add_zero] at hc
          have : s.ws.countP (W.holds k) = 0 := by
            rw [List.countP_eq_zero]
            intro x hx
            have := hidle x hx
            simp only [W.busy, Option.isSome_eq_false_iff, Option.isNone_iff_eq_none] at this
            simp [W.holds, this]
          omega
  have : s.loop.jobs.countP undoneB = 0 := by
    rw [countP_jobs_range, List.countP_eq_zero]
    intro k hk
    have := all k (List.mem_range.mp hk)
    simp [undoneB]; exact this
  have hpe := R.i4.counts.pend
  rw [this] at hpe
  exact hpend (by simpa using hpe)

theorem capDone_std {c : Cfg} (hw : c.wiring = Wiring.std) : c.capDone = c.N := by
  simp [Cfg.capDone, hw, Wiring.std]

/-- **Progress.** In every reachable state that is not final, some action other than the ticker
    is enabled — where a running body counts as able to end (the property's premise that user
    functions return, panic or exit). -/
theorem progress {c : Cfg} (hw : c.wiring = Wiring.std) (hwf : WfCfg c) {s : State} (R : Reach c s)
    (hnf : Final s = false) : ∃ a, a ≠ Act.loopTick ∧ (step c s a).isSome = true := by
  by_cases hb : ∃ x ∈ s.ws, W.busy x = true
  · obtain ⟨x, hx, hbx⟩ := hb
    obtain ⟨w, hw'⟩ := List.mem_iff_getElem?.mp hx
    have hroom : s.donec.length < c.capDone := by
      rw [capDone_std hw]
      have hpos := countP_pos_of hw' hbx
      have h1 := R.i1.ongoing
      have h2 := R.i1.gate
      omega
    cases x with
    | idle => simp [W.busy, W.job?] at hbx
    | exited => simp [W.busy, W.job?] at hbx
    | holding j =>
      refine ⟨.workerDecide w, by simp, ?_⟩
      simp only [step, hw']
      split
      · rfl
      · split <;> rfl
    | running j =>
      refine ⟨.workerEnd w .ok false, by simp, ?_⟩
      simp [step, hw']
    | posting j r =>
      refine ⟨.workerPost w, by simp, ?_⟩
      simp [step, hw', hroom]
    | dying j =>
      refine ⟨.workerDiePost w, by simp, ?_⟩
      simp [step, hw', hroom]
  · have hidle : ∀ x ∈ s.ws, W.busy x = false := by
      intro x hx
      cases hbx : W.busy x with
      | false => rfl
      | true => exact absurd ⟨x, hx, hbx⟩ hb
    have hNpos : 0 < s.ws.length := by rw [R.i1.wsLen]; exact hwf.1
    -- caller moves available while Wait has not been called
    have callerMove : s.caller.closed = false → ∃ a, a ≠ Act.loopTick ∧ (step c s a).isSome = true := by
      intro hc
      have hret : s.caller.ret = none := by
        cases hr : s.caller.ret with
        | none => rfl
        | some v => have := R.i5.retClosed (by simp [hr]); simp [hc] at this
      refine ⟨.callerClose, by simp, ?_⟩
      simp [step, hc, hret]
    cases hph : s.loop.phase with
    | select =>
      cases hdc : s.donec with
      | cons e rest =>
        refine ⟨.loopResult, by simp, ?_⟩
        obtain ⟨j, r⟩ := e
        simp [step, hph, hdc]
      | nil =>
        cases hnil : s.loop.enqNil with
        | false =>
          cases he : s.enq with
          | cons j rest =>
            refine ⟨.loopEnq, by simp, ?_⟩
            simp [step, hph, hnil, he]
          | nil =>
            cases hc : s.caller.closed with
            | true =>
              refine ⟨.loopEnqClosed, by simp, ?_⟩
              simp [step, hph, hnil, he, hc]
            | false => exact callerMove hc
        | true =>
          have hpend : s.loop.pending ≠ 0 := by
            intro h0; exact R.i5.notDone hph ⟨h0, hnil⟩
          cases hrd : s.loop.ready with
          | nil => exact absurd (no_circular_wait hwf R hph hpend hrd hidle hdc) id
          | cons j rest =>
            -- worker 0 is idle
            obtain ⟨x0, hx0⟩ : ∃ x, s.ws[0]? = some x := by
              exact ⟨s.ws[0], List.getElem?_eq_getElem hNpos⟩
            have hmem := List.mem_of_getElem? hx0
            have hx0idle : x0 = W.idle := by
              have h1 := hidle x0 hmem
              have h2 := R.i5.noExited (by simp [hph]) x0 hmem
              cases x0 <;> simp_all [W.busy, W.job?]
            subst hx0idle
            have hong : s.loop.ongoing = 0 := by
              rw [R.i1.ongoing, hdc]
              have : s.ws.countP W.busy = 0 := by
                rw [List.countP_eq_zero]; intro x hx; simp [hidle x hx]
              simp [this]
            refine ⟨.loopDispatch 0, by simp, ?_⟩
            have hN : c.N ≠ 0 := by have := hwf.1; omega
            simp [step, hph, hx0, dispatch, hrd, hong, hN]
    | draining =>
      cases he : s.enq with
      | cons j rest =>
        refine ⟨.loopDrain, by simp, ?_⟩
        simp [step, hph, he, hw, Wiring.std]
      | nil =>
        cases hc : s.caller.closed with
        | true =>
          refine ⟨.loopClose, by simp, ?_⟩
          simp [step, hph, he, hc, hw, Wiring.std]
        | false => exact callerMove hc
    | exited =>
      have hcl := (R.i5.exitedClosed hph).1
      by_cases hall : s.ws.all (· == W.exited) = true
      · -- all workers gone: the caller has not returned yet
        have hret : s.caller.ret = none := by
          cases hr : s.caller.ret with
          | none => rfl
          | some v => simp [Final, hr, hph, hall] at hnf
        refine ⟨.callerRetFin, by simp, ?_⟩
        simp [step, hcl, hret, hph]
      · have hex : ∃ x ∈ s.ws, x ≠ W.exited := by
          apply Classical.byContradiction
          intro hcon
          apply hall
          simp only [List.all_eq_true, beq_iff_eq]
          intro x hx
          apply Classical.byContradiction
          intro hne; exact hcon ⟨x, hx, hne⟩
        obtain ⟨x, hx, hne⟩ := hex
        obtain ⟨w, hw'⟩ := List.mem_iff_getElem?.mp hx
        have hxi : x = W.idle := by
          have h1 := hidle x hx
          cases x <;> simp_all [W.busy, W.job?]
        subst hxi
        refine ⟨.workerExit w, by simp, ?_⟩
        simp [step, hw', hph]

end Sched
