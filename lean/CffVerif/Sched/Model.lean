/-
  S — the scheduler as a labelled transition system.

  Hand-written model of /repo/scheduler/scheduler.go.  Three kinds of goroutine
  (caller, loop, N workers) and three channels (enqueuec cap 1, readyc unbuffered,
  donec cap N).  `step` is a total computable function; `none` = action not enabled.
  Go's `select` is "any enabled arm".  The unbuffered `readyc` send/receive is the joint
  action `loopDispatch w`.  Job bodies are atomic at `workerEnd`, with the outcome chosen by
  the action (so every outcome assignment, also schedule-dependent ones, is covered by
  quantifying over action lists).

  The loop goroutine's reactions are the pure functions in namespace `Loop`
  (`Loop.enq`, `Loop.closed`, `Loop.dispatch`, `Loop.result`, `Loop.report`); the same functions
  are used by the trace-replay driver, so the correspondence check exercises exactly the
  definitions the theorems are about.

  Contexts: every job carries its own context (`Enqueue(ctx, job)`; `Cfg.ctxOf`), `Wait` has its
  own (`Cfg.waitCtx`); contexts are identified by numbers, `State.doneCtx` is the set of the
  cancelled ones.  A worker checks the context of the job it received, `Wait` checks its own.
  With the defaults every job and `Wait` use context 0 (what cff-generated code does).

  Core Lean only (this module is linked into the native driver).
-/

namespace Sched

/-- What a job body did. -/
inductive Outcome where
  | ok
  | fail (e : Nat)
  | goexit
  deriving DecidableEq, Repr, Inhabited

/-- A result as posted on `donec` / an entry of the error `Wait` returns. -/
inductive Res where
  | ok
  | fail (e : Nat)      -- the user's error value `e`
  | exitErr             -- "job exited unexpectedly"
  | ctxErr              -- ctx.Err()
  | invalid             -- the sentinel errJobInvalid
  deriving DecidableEq, Repr, Inhabited

def Res.isErr : Res → Bool
  | .ok => false
  | _ => true

/-- Mechanism switches.  `Wiring.std` is what the code does; every theorem is about `std`;
    each flag has a `decide`d counter-example showing what breaks when it is off. -/
structure Wiring where
  gateDispatch          : Bool := true   -- dispatch arm only while ongoing < N
  capDone               : Option Nat := none  -- capacity of donec (none = N)
  drainOnExit           : Bool := true   -- `for range s.enqueuec {}` on exit
  respawn               : Bool := true   -- a dying worker starts a replacement
  workerChecksCtx       : Bool := true
  workerChecksInvalid   : Bool := true
  waitSelectsCtx        : Bool := true
  lateEnqueueChecksDone : Bool := true   -- `if dep.done { if dep.err != nil {invalid} ; continue }`
  filterSentinel        : Bool := true   -- errJobInvalid is not appended to the error
  deriving DecidableEq, Repr

def Wiring.std : Wiring := {}

structure Cfg where
  N    : Nat
  coe  : Bool
  emit : Bool
  /-- `deps[j]` = the handles job `j` names as dependencies (earlier jobs; duplicates allowed). -/
  deps : List (List Nat)
  wiring : Wiring := .std
  /-- `ctxOf[j]` = the id of the context job `j` is enqueued with (`Enqueue(ctx, job)`);
      jobs beyond the list use context 0. -/
  ctxOf : List Nat := []
  /-- the id of the context `Wait` is called with. -/
  waitCtx : Nat := 0
  deriving Repr

def Cfg.depsOf (c : Cfg) (j : Nat) : List Nat := c.deps.getD j []

/-- The context job `j` was enqueued with. -/
def Cfg.ctxOfJob (c : Cfg) (j : Nat) : Nat := c.ctxOf.getD j 0

/-- The (finitely many) contexts the configuration mentions: Wait's, the default one, and
    every job's.  Only these can be cancelled (cancelling any other context is unobservable). -/
def Cfg.ctxs (c : Cfg) : List Nat := c.waitCtx :: 0 :: c.ctxOf

def Cfg.capDone (c : Cfg) : Nat := c.wiring.capDone.getD c.N

/-- Well-formed configuration: at least one worker; dependencies are handles of earlier jobs. -/
def WfCfg (c : Cfg) : Prop :=
  1 ≤ c.N ∧ ∀ j, ∀ d ∈ c.depsOf j, d < j

/-- Loop-owned fields of a ScheduledJob (`dispatched` is a ghost). -/
structure JobRec where
  remaining  : Int := 0
  consumers  : List Nat := []
  done       : Bool := false
  failed     : Bool := false     -- job.err != nil
  invalid    : Bool := false
  dispatched : Bool := false     -- ghost: has been sent on readyc
  deriving DecidableEq, Repr, Inhabited


namespace JobRec
def addConsumer (r : JobRec) (k : Nat) : JobRec := { r with consumers := r.consumers ++ [k] }
def incRem (r : JobRec) : JobRec := { r with remaining := r.remaining + 1 }
def decRem (r : JobRec) : JobRec := { r with remaining := r.remaining - 1 }
def setInvalid (r : JobRec) : JobRec := { r with invalid := true }
def setDone (r : JobRec) : JobRec := { r with done := true }
def setFailed (r : JobRec) : JobRec := { r with failed := true }
def setDispatched (r : JobRec) : JobRec := { r with dispatched := true }
@[simp] theorem addConsumer_remaining (r : JobRec) (k : Nat) : (r.addConsumer k).remaining = r.remaining := rfl
@[simp] theorem addConsumer_consumers (r : JobRec) (k : Nat) : (r.addConsumer k).consumers = r.consumers ++ [k] := rfl
@[simp] theorem addConsumer_done (r : JobRec) (k : Nat) : (r.addConsumer k).done = r.done := rfl
@[simp] theorem addConsumer_failed (r : JobRec) (k : Nat) : (r.addConsumer k).failed = r.failed := rfl
@[simp] theorem addConsumer_invalid (r : JobRec) (k : Nat) : (r.addConsumer k).invalid = r.invalid := rfl
@[simp] theorem addConsumer_dispatched (r : JobRec) (k : Nat) : (r.addConsumer k).dispatched = r.dispatched := rfl
@[simp] theorem incRem_remaining (r : JobRec) : (r.incRem).remaining = r.remaining + 1 := rfl
@[simp] theorem incRem_consumers (r : JobRec) : (r.incRem).consumers = r.consumers := rfl
@[simp] theorem incRem_done (r : JobRec) : (r.incRem).done = r.done := rfl
@[simp] theorem incRem_failed (r : JobRec) : (r.incRem).failed = r.failed := rfl
@[simp] theorem incRem_invalid (r : JobRec) : (r.incRem).invalid = r.invalid := rfl
@[simp] theorem incRem_dispatched (r : JobRec) : (r.incRem).dispatched = r.dispatched := rfl
@[simp] theorem decRem_remaining (r : JobRec) : (r.decRem).remaining = r.remaining - 1 := rfl
@[simp] theorem decRem_consumers (r : JobRec) : (r.decRem).consumers = r.consumers := rfl
@[simp] theorem decRem_done (r : JobRec) : (r.decRem).done = r.done := rfl
@[simp] theorem decRem_failed (r : JobRec) : (r.decRem).failed = r.failed := rfl
@[simp] theorem decRem_invalid (r : JobRec) : (r.decRem).invalid = r.invalid := rfl
@[simp] theorem decRem_dispatched (r : JobRec) : (r.decRem).dispatched = r.dispatched := rfl
@[simp] theorem setInvalid_remaining (r : JobRec) : (r.setInvalid).remaining = r.remaining := rfl
@[simp] theorem setInvalid_consumers (r : JobRec) : (r.setInvalid).consumers = r.consumers := rfl
@[simp] theorem setInvalid_done (r : JobRec) : (r.setInvalid).done = r.done := rfl
@[simp] theorem setInvalid_failed (r : JobRec) : (r.setInvalid).failed = r.failed := rfl
@[simp] theorem setInvalid_invalid (r : JobRec) : (r.setInvalid).invalid = true := rfl
@[simp] theorem setInvalid_dispatched (r : JobRec) : (r.setInvalid).dispatched = r.dispatched := rfl
@[simp] theorem setDone_remaining (r : JobRec) : (r.setDone).remaining = r.remaining := rfl
@[simp] theorem setDone_consumers (r : JobRec) : (r.setDone).consumers = r.consumers := rfl
@[simp] theorem setDone_done (r : JobRec) : (r.setDone).done = true := rfl
@[simp] theorem setDone_failed (r : JobRec) : (r.setDone).failed = r.failed := rfl
@[simp] theorem setDone_invalid (r : JobRec) : (r.setDone).invalid = r.invalid := rfl
@[simp] theorem setDone_dispatched (r : JobRec) : (r.setDone).dispatched = r.dispatched := rfl
@[simp] theorem setFailed_remaining (r : JobRec) : (r.setFailed).remaining = r.remaining := rfl
@[simp] theorem setFailed_consumers (r : JobRec) : (r.setFailed).consumers = r.consumers := rfl
@[simp] theorem setFailed_done (r : JobRec) : (r.setFailed).done = r.done := rfl
@[simp] theorem setFailed_failed (r : JobRec) : (r.setFailed).failed = true := rfl
@[simp] theorem setFailed_invalid (r : JobRec) : (r.setFailed).invalid = r.invalid := rfl
@[simp] theorem setFailed_dispatched (r : JobRec) : (r.setFailed).dispatched = r.dispatched := rfl
@[simp] theorem setDispatched_remaining (r : JobRec) : (r.setDispatched).remaining = r.remaining := rfl
@[simp] theorem setDispatched_consumers (r : JobRec) : (r.setDispatched).consumers = r.consumers := rfl
@[simp] theorem setDispatched_done (r : JobRec) : (r.setDispatched).done = r.done := rfl
@[simp] theorem setDispatched_failed (r : JobRec) : (r.setDispatched).failed = r.failed := rfl
@[simp] theorem setDispatched_invalid (r : JobRec) : (r.setDispatched).invalid = r.invalid := rfl
@[simp] theorem setDispatched_dispatched (r : JobRec) : (r.setDispatched).dispatched = true := rfl
end JobRec

inductive Phase where
  | select | draining | exited
  deriving DecidableEq, Repr, Inhabited

/-- A state report (scheduler.State). -/
structure Report where
  pending : Int
  ready : Int
  waiting : Int
  idle : Int
  concurrency : Int
  deriving DecidableEq, Repr, Inhabited

structure LoopSt where
  phase   : Phase := .select
  enqNil  : Bool := false          -- local `enqueuec == nil`
  ready   : List Nat := []
  pending : Int := 0
  ongoing : Int := 0
  waiting : Int := 0
  err     : List Res := []         -- s.err as its list of entries (multierr.Errors)
  jobs    : List JobRec := []      -- indexed by registration order
  deriving DecidableEq, Repr, Inhabited

namespace Loop

def getJob (jobs : List JobRec) (j : Nat) : JobRec := jobs.getD j {}

def job (l : LoopSt) (j : Nat) : JobRec := getJob l.jobs j

def setJob (l : LoopSt) (j : Nat) (r : JobRec) : LoopSt := { l with jobs := l.jobs.set j r }

/-- The check at the bottom of the `for` body. -/
def exitCheck (l : LoopSt) : LoopSt :=
  if l.pending == 0 && l.enqNil then { l with phase := .draining } else l

/-- `for _, dep := range job.deps { … }` of the enqueue arm, acting on the job being
    registered (`me`, not yet in `jobs`) and the dependency records. -/
def regDeps (w : Wiring) (jobs : List JobRec) (meId : Nat) (me : JobRec) :
    List Nat → List JobRec × JobRec
  | [] => (jobs, me)
  | d :: ds =>
    let dr := getJob jobs d
    if dr.done && w.lateEnqueueChecksDone then
      regDeps w jobs meId (if dr.failed then me.setInvalid else me) ds
    else
      regDeps w (jobs.set d (dr.addConsumer meId)) meId me.incRem ds

/-- enqueue arm, `ok = true`: register job `j` (the next in FIFO order). -/
def enq (c : Cfg) (l : LoopSt) (j : Nat) : LoopSt :=
  let (jobs, me) := regDeps c.wiring l.jobs j {} (c.depsOf j)
  let l := { l with jobs := jobs ++ [me], pending := l.pending + 1 }
  if me.remaining == 0 then { l with ready := l.ready ++ [j] }
  else { l with waiting := l.waiting + 1 }

/-- enqueue arm, `ok = false`. -/
def closed (l : LoopSt) : LoopSt := { l with enqNil := true }

/-- dispatch arm: front of `ready` goes to a worker. -/
def dispatch (c : Cfg) (l : LoopSt) : Option (Nat × LoopSt) :=
  match l.ready with
  | [] => none
  | j :: rest =>
    if c.wiring.gateDispatch && !(l.ongoing < c.N) then none
    else
      some (j, { setJob l j (job l j).setDispatched with
                  ready := rest, ongoing := l.ongoing + 1 })

/-- `for _, consumer := range job.consumers { consumer.invalid = true }` -/
def markInvalid (l : LoopSt) : List Nat → LoopSt
  | [] => l
  | k :: ks => markInvalid (setJob l k (job l k).setInvalid) ks

/-- `for _, consumer := range job.consumers { consumer.remaining--; … }` -/
def notify (l : LoopSt) : List Nat → LoopSt
  | [] => l
  | k :: ks =>
    let kr' := (job l k).decRem
    let l := setJob l k kr'
    let l := if kr'.remaining == 0
             then { l with waiting := l.waiting - 1, ready := l.ready ++ [k] } else l
    notify l ks

/-- result arm for `res = {Job: j, Err: r}`. -/
def result (c : Cfg) (l : LoopSt) (j : Nat) (r : Res) : LoopSt :=
  let jr := job l j
  let l := setJob l j jr.setDone
  let l := { l with pending := l.pending - 1, ongoing := l.ongoing - 1 }
  if r.isErr then
    let l := setJob l j (job l j).setFailed
    if !c.coe then
      -- `s.err = err; return`
      { l with err := [r], phase := .draining }
    else
      let l := if r == .invalid && c.wiring.filterSentinel then l
               else { l with err := l.err ++ [r] }
      let l := markInvalid l jr.consumers
      notify l jr.consumers
  else
    notify l jr.consumers

def idleWorkers (concurrency ongoing : Int) : Int :=
  let idle := concurrency - ongoing
  if idle < 0 then 0 else idle

def report (c : Cfg) (l : LoopSt) : Report :=
  { pending := l.pending, ready := l.ready.length, waiting := l.waiting,
    idle := idleWorkers c.N l.ongoing, concurrency := c.N }

end Loop

/-- Worker goroutine slot. -/
inductive W where
  | idle                              -- blocked in `range readyc`
  | holding (j : Nat)                 -- received j, about to read ctx.Err()/invalid
  | running (j : Nat)                 -- inside j.run
  | posting (j : Nat) (r : Res)       -- at `donec <- res`
  | dying (j : Nat)                   -- in the deferred func after Goexit, at `donec <- …`
  | exited
  deriving DecidableEq, Repr, Inhabited

inductive SkipWhy where
  | ctx | invalid
  deriving DecidableEq, Repr

/-- Ghost history. -/
inductive Ev where
  | sent (j : Nat)
  | registered (j : Nat)
  | dispatched (j : Nat)
  | started (j : Nat)
  | ended (j : Nat) (o : Outcome)
  | skipped (j : Nat) (why : SkipWhy)
  | resultSeen (j : Nat) (r : Res)
  | wroteInvalid (k : Nat)            -- loop wrote `invalid` of job k (C12)
  | report (st : Report)
  | cancelled (x : Nat)               -- context `x` became done
  | loopExit
  | waitReturned (r : List Res)
  deriving DecidableEq, Repr

structure CallerSt where
  sent   : Nat := 0                 -- number of Enqueue calls completed
  closed : Bool := false            -- Wait has executed close(enqueuec)
  ret    : Option (List Res) := none  -- Wait's return value as an error-entry list ([] = nil)
  deriving DecidableEq, Repr, Inhabited

structure State where
  caller : CallerSt := {}
  enq    : List Nat := []           -- contents of enqueuec
  loop   : LoopSt := {}
  ws     : List W := []
  donec  : List (Nat × Res) := []
  doneCtx : List Nat := []          -- the contexts that are done (cancelled)
  log    : List Ev := []            -- newest last
  deriving DecidableEq, Repr, Inhabited

/-- `x` is one of the done contexts `d`. -/
def ctxDone (d : List Nat) (x : Nat) : Bool := d.contains x

/-- `ctx.Err() != nil` for context `x`.  (Reducible notation for `ctxDone s.doneCtx x`, so that
    it is transparent to updates of the other fields.) -/
@[reducible] def State.cancelledCtx (s : State) (x : Nat) : Bool := ctxDone s.doneCtx x

/-- Context `x` becomes done. -/
def State.cancelCtx (s : State) (x : Nat) : State := { s with doneCtx := x :: s.doneCtx }

def init (c : Cfg) : State := { ws := List.replicate c.N .idle }

inductive Act where
  | callerSend | callerClose | callerRetCtx | callerRetFin
  | loopEnq | loopEnqClosed | loopDispatch (w : Nat) | loopResult | loopTick
  | loopDrain | loopClose
  | workerDecide (w : Nat) | workerEnd (w : Nat) (o : Outcome) (cancel : Bool)
  | workerPost (w : Nat) | workerDiePost (w : Nat) | workerExit (w : Nat)
  | cancel (x : Nat)
  deriving DecidableEq, Repr

def outcomeRes : Outcome → Res
  | .ok => .ok
  | .fail e => .fail e
  | .goexit => .exitErr

def setW (s : State) (w : Nat) (x : W) : State := { s with ws := s.ws.set w x }

def addLog (s : State) (e : Ev) : State := { s with log := s.log ++ [e] }

/-- Events the loop's invalid-marking writes (ghost, for C12). -/
def invalidWrites (ks : List Nat) : List Ev := ks.map .wroteInvalid

def step (c : Cfg) (s : State) : Act → Option State
  | .callerSend =>
    if !s.caller.closed && s.caller.ret.isNone && decide (s.caller.sent < c.deps.length)
        && decide (s.enq.length < 1) then
      some (addLog { s with enq := s.enq ++ [s.caller.sent],
                            caller := { s.caller with sent := s.caller.sent + 1 } }
            (.sent s.caller.sent))
    else none
  | .callerClose =>
    if !s.caller.closed && s.caller.ret.isNone then
      some { s with caller := { s.caller with closed := true } }
    else none
  | .callerRetCtx =>
    if s.caller.closed && s.caller.ret.isNone && s.cancelledCtx c.waitCtx && c.wiring.waitSelectsCtx then
      some (addLog { s with caller := { s.caller with ret := some [.ctxErr] } }
            (.waitReturned [.ctxErr]))
    else none
  | .callerRetFin =>
    if s.caller.closed && s.caller.ret.isNone && s.loop.phase == .exited then
      let r := if s.loop.err.isEmpty then (if s.cancelledCtx c.waitCtx then [.ctxErr] else []) else s.loop.err
      some (addLog { s with caller := { s.caller with ret := some r } } (.waitReturned r))
    else none
  | .loopEnq =>
    match s.loop.phase, s.loop.enqNil, s.enq with
    | .select, false, j :: rest =>
      some (addLog { s with enq := rest, loop := Loop.exitCheck (Loop.enq c s.loop j) }
            (.registered j))
    | _, _, _ => none
  | .loopEnqClosed =>
    match s.loop.phase, s.loop.enqNil, s.enq, s.caller.closed with
    | .select, false, [], true =>
      some { s with loop := Loop.exitCheck (Loop.closed s.loop) }
    | _, _, _, _ => none
  | .loopDispatch w =>
    match s.loop.phase, s.ws[w]?, Loop.dispatch c s.loop with
    | .select, some .idle, some (j, l) =>
      some (addLog (setW { s with loop := Loop.exitCheck l } w (.holding j)) (.dispatched j))
    | _, _, _ => none
  | .loopResult =>
    match s.loop.phase, s.donec with
    | .select, (j, r) :: rest =>
      let wr := if r.isErr && c.coe then invalidWrites (Loop.job s.loop j).consumers else []
      some { s with donec := rest, loop := Loop.exitCheck (Loop.result c s.loop j r),
                    log := s.log ++ [.resultSeen j r] ++ wr }
    | _, _ => none
  | .loopTick =>
    if s.loop.phase == .select && c.emit then
      some (addLog { s with loop := Loop.exitCheck s.loop } (.report (Loop.report c s.loop)))
    else none
  | .loopDrain =>
    match s.loop.phase, s.enq with
    | .draining, _ :: rest => if c.wiring.drainOnExit then some { s with enq := rest } else none
    | _, _ => none
  | .loopClose =>
    if s.loop.phase == .draining
        && (!c.wiring.drainOnExit || (s.enq.isEmpty && s.caller.closed)) then
      some (addLog { s with loop := { s.loop with phase := .exited } } .loopExit)
    else none
  | .workerDecide w =>
    match s.ws[w]? with
    | some (.holding j) =>
      if s.cancelledCtx (c.ctxOfJob j) && c.wiring.workerChecksCtx then
        some (addLog (setW s w (.posting j .ctxErr)) (.skipped j .ctx))
      else if (Loop.job s.loop j).invalid && c.wiring.workerChecksInvalid then
        some (addLog (setW s w (.posting j .invalid)) (.skipped j .invalid))
      else
        some (addLog (setW s w (.running j)) (.started j))
    | _ => none
  | .workerEnd w o cancel =>
    match s.ws[w]? with
    | some (.running j) =>
      let s := addLog s (.ended j o)
      let s := if cancel && !s.cancelledCtx (c.ctxOfJob j)
               then addLog (s.cancelCtx (c.ctxOfJob j)) (.cancelled (c.ctxOfJob j)) else s
      match o with
      | .goexit => some (setW s w (.dying j))
      | o => some (setW s w (.posting j (outcomeRes o)))
    | _ => none
  | .workerPost w =>
    match s.ws[w]? with
    | some (.posting j r) =>
      if s.donec.length < c.capDone then
        some (setW { s with donec := s.donec ++ [(j, r)] } w .idle)
      else none
    | _ => none
  | .workerDiePost w =>
    match s.ws[w]? with
    | some (.dying j) =>
      if s.donec.length < c.capDone then
        some (setW { s with donec := s.donec ++ [(j, .exitErr)] } w
                (if c.wiring.respawn then .idle else .exited))
      else none
    | _ => none
  | .workerExit w =>
    match s.ws[w]? with
    | some .idle => if s.loop.phase == .exited then some (setW s w .exited) else none
    | _ => none
  | .cancel x =>
    if !s.cancelledCtx x && c.ctxs.contains x then some (addLog (s.cancelCtx x) (.cancelled x)) else none

def run (c : Cfg) : State → List Act → Option State
  | s, [] => some s
  | s, a :: as => (step c s a).bind (run c · as)

def Reachable (c : Cfg) (s : State) : Prop := ∃ acts, run c (init c) acts = some s

/-- Everything is over: Wait returned, the loop and every worker goroutine exited. -/
def Final (s : State) : Bool :=
  s.caller.ret.isSome && s.loop.phase == .exited && s.ws.all (· == .exited)

end Sched
