/-
  Trace conformance (tie mechanism B): replays the hook trace of one execution of the real
  scheduler through the model's executable definitions, per component.

  * loop lines  → `Loop.enq / Loop.closed / Loop.dispatch / Loop.result / Loop.report / Loop.exitCheck`
                  (the same functions `Sched.step` is built from), comparing the loop's
                  counters after every arm;
  * worker lines → the decision rule of `step (.workerDecide w)` and the result classes of
                  `workerEnd / workerPost / workerDiePost`;
  * caller lines → `callerRetFin / callerRetCtx`;
  * cross-component multiset checks.

  Every divergence has a kind; properties subscribe to kinds.
-/
import CffVerif.Sched.Model

namespace Sched.Replay

structure Div where
  kind : String
  detail : String
  deriving Repr

inductive WS where
  | idle | holding (j : Nat) | running (j : Nat) | finished (j : Nat) (r : Res)
  deriving Repr, DecidableEq

structure RS where
  cfg : Cfg := { N := 1, coe := false, emit := false, deps := [] }
  haveCfg : Bool := false
  loop : LoopSt := {}
  loopExited : Bool := false
  workers : List (Nat × WS) := []
  cancelBegun : Bool := false
  cancelEnded : Bool := false
  /-- per-job contexts (the scheduler API takes a context per Enqueue; model: `Cfg.ctxOf`): jobs whose
      OWN context was cancelled (`X cancel-begin j<id>`); Wait's context is the global flag above -/
  ownCancelBegun : List Nat := []
  ownCancelEnded : List Nat := []
  recvAfterCancel : List Nat := []    -- jobs whose recv line came after cancel-end
  dispatched : List Nat := []
  received : List Nat := []
  posted : List (Nat × Res) := []
  results : List (Nat × Res) := []
  sent : Nat := 0
  closeSeen : Bool := false
  cancelEndedAtClose : Bool := false
  divs : List Div := []
  lateEnqHits : Nat := 0               -- registrations that met an already-done dependency
  invalidAtReg : Nat := 0
  loopEvents : Nat := 0
  workerEvents : Nat := 0
  deriving Repr

def RS.div (s : RS) (kind detail : String) : RS :=
  { s with divs := s.divs ++ [{ kind, detail }] }

def parseRes (t : String) : Option Res :=
  if t == "ok" then some .ok
  else if t == "invalid" then some .invalid
  else if t == "ctx" then some .ctxErr
  else if t == "exit" then some .exitErr
  else if t.startsWith "fail:" then (t.drop 5).toNat?.map .fail
  else none

def parseResList (t : String) : Option (List Res) :=
  if t == "nil" then some [] else (t.splitOn ",").mapM parseRes

def resStr : Res → String
  | .ok => "ok" | .fail e => s!"fail:{e}" | .exitErr => "exit" | .ctxErr => "ctx" | .invalid => "invalid"

def getW (s : RS) (w : Nat) : WS := (s.workers.lookup w).getD .idle
def setW (s : RS) (w : Nat) (x : WS) : RS :=
  { s with workers := (w, x) :: s.workers.filter (·.1 != w) }

/-- Compare the loop's counters as logged after an arm with the model's. -/
def cmpCounters (s : RS) (arm : String) (p o w r : Int) (nil : Bool) : RS :=
  let l := s.loop
  let s := if l.pending != p then s.div "loop.counter.pending" s!"after {arm}: impl {p} model {l.pending}" else s
  let s := if l.ongoing != o then s.div "loop.counter.ongoing" s!"after {arm}: impl {o} model {l.ongoing}" else s
  let s := if l.waiting != w then s.div "loop.counter.waiting" s!"after {arm}: impl {w} model {l.waiting}" else s
  let s := if (l.ready.length : Int) != r then s.div "loop.counter.ready" s!"after {arm}: impl {r} model {l.ready.length}" else s
  if l.enqNil != nil then s.div "loop.counter.enqnil" s!"after {arm}: impl {nil} model {l.enqNil}" else s

def toks (line : String) : List String := (line.splitOn " ").filter (· != "")

def loopArm (s : RS) (arm : String) (jtok cls : String) (p o w r : Int) (nil : Bool) : RS :=
  let s := { s with loopEvents := s.loopEvents + 1 }
  -- the model says the loop left the `for` before this arm?
  let s := if s.loop.phase != .select && arm != "exit" && !s.loopExited
           then s.div "loop.exit-late" s!"model left the loop before arm {arm}" else s
  if arm == "exit" then
    let s := if s.loop.phase == .select then s.div "loop.exit-early" "impl left the loop; model still selecting" else s
    let s := match parseResList cls with
      | some e => if e != s.loop.err then s.div "loop.err" s!"impl {cls} model {repr s.loop.err}" else s
      | none => s.div "loop.err" s!"unparsable error list {cls}"
    let s := cmpCounters s arm p o w r nil
    { s with loopExited := true }
  else
  let c := s.cfg
  match arm with
  | "enq" =>
    match jtok.toNat? with
    | none => s.div "trace.parse" s!"enq {jtok}"
    | some j =>
      let s := if j != s.loop.jobs.length then s.div "loop.enq-order" s!"registered {j}, expected {s.loop.jobs.length}" else s
      let doneDeps := (c.depsOf j).any fun d => (Loop.job s.loop d).done
      let l := Loop.exitCheck (Loop.enq c s.loop j)
      let s := { s with loop := l, lateEnqHits := s.lateEnqHits + (if doneDeps then 1 else 0),
                        invalidAtReg := s.invalidAtReg + (if (Loop.job l j).invalid then 1 else 0) }
      cmpCounters s arm p o w r nil
  | "closed" =>
    let s := { s with loop := Loop.exitCheck (Loop.closed s.loop) }
    cmpCounters s arm p o w r nil
  | "disp" =>
    match jtok.toNat? with
    | none => s.div "trace.parse" s!"disp {jtok}"
    | some j =>
      let s := if s.dispatched.contains j then s.div "xcheck.double-dispatch" s!"job {j}" else s
      let s := { s with dispatched := j :: s.dispatched }
      match Loop.dispatch c s.loop with
      | some (j', l) =>
        if j' == j then cmpCounters { s with loop := Loop.exitCheck l } arm p o w r nil
        else
          let s := s.div "loop.dispatch-not-front" s!"impl dispatched {j}, model's ready front is {j'}"
          -- resynchronise: remove j from ready if present
          let l := s.loop
          let l := { Loop.setJob l j (Loop.job l j).setDispatched with
                      ready := l.ready.filter (· != j), ongoing := l.ongoing + 1 }
          { s with loop := l }
      | none =>
        -- gate closed or ready empty: tell which
        let ungated : Cfg := { c with wiring := { c.wiring with gateDispatch := false } }
        match Loop.dispatch ungated s.loop with
        | some (j', l) =>
          let s := s.div "loop.dispatch-while-ongoing>=N" s!"job {j} dispatched with ongoing={s.loop.ongoing} N={c.N}"
          let s := if j' != j then s.div "loop.dispatch-not-front" s!"impl {j} model {j'}" else s
          { s with loop := l }
        | none => s.div "loop.dispatch-empty" s!"impl dispatched {j}; model's ready list is empty"
  | "res" =>
    match jtok.toNat?, parseRes cls with
    | some j, some rr =>
      let jr := Loop.job s.loop j
      let s := if !jr.dispatched || jr.done then s.div "loop.result-unexpected" s!"result for job {j} (dispatched={jr.dispatched} done={jr.done})" else s
      let s := { s with results := (j, rr) :: s.results, loop := Loop.exitCheck (Loop.result c s.loop j rr) }
      cmpCounters s arm p o w r nil
    | _, _ => s.div "trace.parse" s!"res {jtok} {cls}"
  | _ => s.div "trace.parse" s!"unknown loop arm {arm}"

def workerLine (s : RS) (w : Nat) (what : String) (j : Nat) (cls : String) : RS :=
  let s := { s with workerEvents := s.workerEvents + 1 }
  let st := getW s w
  match what with
  | "recv" =>
    let s := if st != .idle then s.div "worker.two-jobs" s!"worker {w} received {j} while {repr st}" else s
    let s := if s.received.contains j then s.div "xcheck.double-receive" s!"job {j}" else s
    let s := { s with received := j :: s.received,
                      recvAfterCancel := if s.cancelEnded || s.ownCancelEnded.contains j then j :: s.recvAfterCancel else s.recvAfterCancel }
    setW s w (.holding j)
  | "skipctx" =>
    let s := if st != .holding j then s.div "worker.order" s!"worker {w} skipctx {j} in {repr st}" else s
    let s := if !s.cancelBegun && !s.ownCancelBegun.contains j && s.cfg.wiring.workerChecksCtx then s.div "worker.decision" s!"job {j} skipped for ctx without cancellation" else s
    setW s w (.finished j .ctxErr)
  | "skipinvalid" =>
    let s := if st != .holding j then s.div "worker.order" s!"worker {w} skipinvalid {j} in {repr st}" else s
    let s := if !(Loop.job s.loop j).invalid then s.div "worker.decision" s!"job {j} skipped as invalid; model says valid" else s
    setW s w (.finished j .invalid)
  | "start" =>
    let s := if st != .holding j then s.div "worker.order" s!"worker {w} start {j} in {repr st}" else s
    let s := if (Loop.job s.loop j).invalid then s.div "worker.decision" s!"job {j} started; model says invalid" else s
    let s := if s.recvAfterCancel.contains j then s.div "worker.decision" s!"job {j} started although received after cancellation completed" else s
    setW s w (.running j)
  | "end" =>
    let s := if st != .running j then s.div "worker.order" s!"worker {w} end {j} in {repr st}" else s
    match parseRes cls with
    | some r => setW s w (.finished j r)
    | none => s.div "trace.parse" s!"end class {cls}"
  | "post" =>
    match parseRes cls with
    | some r =>
      let s := match st with
        | .finished j' r' => if j' == j && r' == r then s else s.div "worker.post-class" s!"worker {w} posts {j} {cls} in {repr st}"
        | _ => s.div "worker.order" s!"worker {w} post {j} in {repr st}"
      setW { s with posted := (j, r) :: s.posted } w .idle
    | none => s.div "trace.parse" s!"post class {cls}"
  | "die" =>
    -- Goexit inside the body: the deferred func posts the exit error for the current job
    let s := if st != .running j then s.div "worker.order" s!"worker {w} die {j} in {repr st}" else s
    -- the replacement worker gets a fresh id; this slot is gone
    setW { s with posted := (j, .exitErr) :: s.posted } w .idle
  | _ => s.div "trace.parse" s!"unknown worker event {what}"

def callerLine (s : RS) (t : List String) : RS :=
  match t with
  | "send" :: j :: _ =>
    match j.toNat? with
    | some j => if j != s.sent then s.div "caller.fifo" s!"send {j} expected {s.sent}" else { s with sent := s.sent + 1 }
    | none => s.div "trace.parse" "send"
  | "sent" :: _ => s
  | ["close"] => { s with closeSeen := true, cancelEndedAtClose := s.cancelEnded }
  | ["ret", arm, cls] =>
    match parseResList cls with
    | none => s.div "trace.parse" s!"ret {cls}"
    | some e =>
      if arm == "ctx" then
        let s := if !s.cancelBegun then s.div "wait.ctx-arm" "Wait took the ctx arm without cancellation" else s
        if e != [.ctxErr] then s.div "wait.result" s!"ctx arm returned {cls}" else s
      else
        let s := if !s.loopExited then s.div "wait.result" "Wait took the finished arm before the loop exited" else s
        if !s.loop.err.isEmpty then
          if e != s.loop.err then s.div "wait.result" s!"Wait returned {cls}, loop error is {repr s.loop.err}" else s
        else if e == [] then
          if s.cancelEndedAtClose then s.div "wait.result" "Wait returned nil although the context was cancelled before Wait" else s
        else if e == [.ctxErr] then
          if !s.cancelBegun then s.div "wait.result" "Wait returned ctx error without cancellation" else s
        else s.div "wait.result" s!"Wait returned {cls}, loop error is nil"
  | _ => s.div "trace.parse" s!"caller {t}"

def tickLine (s : RS) (t : List String) : RS :=
  match t.map String.toInt? with
  | [some p, some r, some w, some i, some c] =>
    let m := Loop.report s.cfg s.loop
    let s := { s with loopEvents := s.loopEvents + 1 }
    if m != { pending := p, ready := r, waiting := w, idle := i, concurrency := c } then
      s.div "report.fields" s!"impl {t} model {repr m}"
    else { s with loop := Loop.exitCheck s.loop }   -- the exit check after the tick arm
  | _ => s.div "trace.parse" s!"tick {t}"

/-- One trace line (without the leading `T`). -/
def line (s : RS) (t : List String) : RS :=
  match t with
  | ["cfg", n, coe, emit, ce, cr, cd] =>
    match n.toNat?, ce.toNat?, cr.toNat?, cd.toNat? with
    | some n, some ce, some cr, some cd =>
      let s := { s with cfg := { s.cfg with N := n, coe := coe == "1", emit := emit == "1" }, haveCfg := true }
      let s := if ce != 1 then s.div "wiring.cap.enqueue" s!"cap(enqueuec)={ce}" else s
      let s := if cr != 0 then s.div "wiring.cap.ready" s!"cap(readyc)={cr}" else s
      if cd != n then s.div "wiring.cap.done" s!"cap(donec)={cd} N={n}" else s
    | _, _, _, _ => s.div "trace.parse" "cfg"
  | ["L", "tick", p, r, w, i, c] => tickLine s [p, r, w, i, c]
  | ["L", arm, j, cls, p, o, w, r, nil] =>
    match p.toInt?, o.toInt?, w.toInt?, r.toInt? with
    | some p, some o, some w, some r => loopArm s arm j cls p o w r (nil == "1")
    | _, _, _, _ => s.div "trace.parse" "L counters"
  | ["W", w, what, j, cls] =>
    match w.toNat?, j.toNat? with
    | some w, some j => workerLine s w what j cls
    | _, _ => s.div "trace.parse" "W"
  | ["W", w, "recv", j] =>
    match w.toNat?, j.toNat? with
    | some w, some j => workerLine s w "recv" j ""
    | _, _ => s.div "trace.parse" "W recv"
  | "C" :: rest => callerLine s rest
  | ["X", "cancel-begin"] => { s with cancelBegun := true }
  | ["X", "cancel-end"] => { s with cancelEnded := true }
  | ["X", "cancel-begin", jid] =>
    match (jid.drop 1).toNat? with
    | some j => { s with ownCancelBegun := j :: s.ownCancelBegun }
    | none => s
  | ["X", "cancel-end", jid] =>
    match (jid.drop 1).toNat? with
    | some j => { s with ownCancelEnded := j :: s.ownCancelEnded }
    | none => s
  | _ => s.div "trace.parse" s!"{t}"

/-- Pre-pass: the dependency table from the caller's `send` lines. -/
def depsOfTrace (lines : List (List String)) : List (List Nat) :=
  let sends := lines.filterMap fun t =>
    match t with
    | "C" :: "send" :: j :: ds => j.toNat?.map fun j => (j, ds.filterMap String.toNat?)
    | _ => none
  let n := sends.foldl (fun m x => max m (x.1 + 1)) 0
  (List.range n).map fun j => (sends.lookup j).getD []

/-- End-of-scenario cross-component checks (`complete` = the scenario returned normally). -/
def finish (s : RS) : RS :=
  let s := if !s.haveCfg then s.div "trace.parse" "no cfg line" else s
  -- every receive answers a dispatch (the snapshot is taken when Wait returns, so the
  -- receive line of the last dispatches may be missing; duplicates are flagged on the spot)
  -- (a worker logs `recv` before the loop logs `disp`, so one receive may be ahead of the loop's
  --  last logged arm: it must then be the front of the model's ready list)
  let s := s.received.foldl (fun s j =>
              if s.dispatched.contains j || s.loop.ready.head? == some j then s
              else s.div "xcheck.disp-recv" s!"job {j} received but never dispatched") s
  let s := if (s.received.filter (fun j => !s.dispatched.contains j)).length > 1
           then s.div "xcheck.disp-recv" "more than one receive without a dispatch" else s
  -- every result the loop saw was posted by a worker, with the same class
  let s := s.results.foldl (fun s x => if s.posted.contains x then s else s.div "xcheck.result-unposted" s!"job {x.1} {resStr x.2}") s
  s

def replay (lines : List (List String)) : RS :=
  let s : RS := { cfg := { N := 1, coe := false, emit := false, deps := depsOfTrace lines } }
  finish (lines.foldl line s)

end Sched.Replay
