/-
  Stable facts about dispatched jobs (Inv2) and the links between the loop's records, job
  custody and the ghost log (Inv3) — what C01 needs.
-/
import CffVerif.Sched.Inv

namespace Sched

open Loop

/-- Facts about a dispatched job that stay true forever (also after the loop has left). -/
structure Inv2 (c : Cfg) (s : State) : Prop where
  depsDone : ∀ j, (job s.loop j).dispatched = true → ∀ d ∈ c.depsOf j, (job s.loop d).done = true
  invalIff : ∀ j, (job s.loop j).dispatched = true →
      ((job s.loop j).invalid = true ↔ ∃ d ∈ c.depsOf j, (job s.loop d).failed = true)
  failedDone : ∀ d, (job s.loop d).failed = true → (job s.loop d).done = true
  doneDisp : ∀ d, (job s.loop d).done = true → (job s.loop d).dispatched = true

theorem inv2_init (c : Cfg) : Inv2 c (init c) := by
  refine ⟨?_, ?_, ?_, ?_⟩ <;> intro j h <;> simp [init, job, getJob] at h

theorem inv2_frame {c : Cfg} {s s' : State} (h : Inv2 c s) (hl : s'.loop.jobs = s.loop.jobs) : Inv2 c s' := by
  have e : ∀ k, job s'.loop k = job s.loop k := by intro k; simp [job, hl]
  obtain ⟨h1, h2, h3, h4⟩ := h
  exact ⟨by simpa [e] using h1, by simpa [e] using h2, by simpa [e] using h3, by simpa [e] using h4⟩

theorem countP_eq_zero_all {p : Nat → Bool} {l : List Nat} (h : ((l.countP p : Nat) : Int) = 0) :
    ∀ d ∈ l, p d = false := by
  intro d hd
  have h0 : l.countP p = 0 := by exact_mod_cast h
  rw [List.countP_eq_zero] at h0
  simpa using h0 d hd

theorem inv2_step {c : Cfg} (hw : c.wiring = Wiring.std) (hwf : WfCfg c) {s s' : State} {a : Act}
    (h1 : Inv1 c s) (h : Inv2 c s) (hs : step c s a = some s') : Inv2 c s' := by
  have hlate : c.wiring.lateEnqueueChecksDone = true := by rw [hw]; rfl
  have hgate : c.wiring.gateDispatch = true := by rw [hw]; rfl
  cases a with
  | callerSend => obtain ⟨_, _, _, _, rfl⟩ := inv_callerSend hs; exact inv2_frame h rfl
  | callerClose => obtain ⟨_, _, rfl⟩ := inv_callerClose hs; exact inv2_frame h rfl
  | callerRetCtx => obtain ⟨_, _, _, rfl⟩ := inv_callerRetCtx hw hs; exact inv2_frame h rfl
  | callerRetFin => obtain ⟨_, _, _, rfl⟩ := inv_callerRetFin hs; exact inv2_frame h rfl
  | loopEnqClosed => obtain ⟨_, _, _, _, rfl⟩ := inv_loopEnqClosed hs; exact inv2_frame h (by simp [closed])
  | loopTick => obtain ⟨_, _, rfl⟩ := inv_loopTick hs; exact inv2_frame h (by simp)
  | loopDrain => obtain ⟨_, _, _, _, rfl⟩ := inv_loopDrain hw hs; exact inv2_frame h rfl
  | loopClose => obtain ⟨_, _, _, rfl⟩ := inv_loopClose hw hs; exact inv2_frame h rfl
  | workerDecide w =>
    obtain ⟨j, _, hc⟩ := inv_workerDecide hw hs
    rcases hc with ⟨_, rfl⟩ | ⟨_, _, rfl⟩ | ⟨_, _, rfl⟩ <;> exact inv2_frame h rfl
  | workerEnd w o cancel =>
    obtain ⟨j, _, rfl⟩ := inv_workerEnd hs
    refine inv2_frame h ?_
    simp only [setW_loop]; unfold afterBody; split <;> rfl
  | workerPost w => obtain ⟨_, _, _, _, rfl⟩ := inv_workerPost hs; exact inv2_frame h rfl
  | workerDiePost w => obtain ⟨_, _, _, rfl⟩ := inv_workerDiePost hw hs; exact inv2_frame h rfl
  | workerExit w => obtain ⟨_, _, rfl⟩ := inv_workerExit hs; exact inv2_frame h rfl
  | cancel => obtain ⟨_, _, rfl⟩ := inv_cancel hs; exact inv2_frame h rfl
  | loopEnq =>
    obtain ⟨j, rest, hp, _, he, rfl⟩ := inv_loopEnq hs
    have hf := h1.fifo hp
    rw [he] at hf
    have hjeq : j = s.loop.jobs.length := by
      have := hf.1; simp [List.range'] at this; exact this.1
    subst hjeq
    have hdeps : ∀ d ∈ c.depsOf s.loop.jobs.length, d < s.loop.jobs.length := hwf.2 _
    obtain ⟨_, fdone, ffailed, fdisp, finv⟩ := enq_fields (c := c) (l := s.loop) hlate hdeps
    have hlt : ∀ k, (job s.loop k).dispatched = true → k < s.loop.jobs.length := by
      intro k hk
      rcases Nat.lt_or_ge k s.loop.jobs.length with hh | hh
      · exact hh
      · rw [job_of_ge _ _ hh] at hk; simp at hk
    obtain ⟨g1, g2, g3, g4⟩ := h
    refine ⟨?_, ?_, ?_, ?_⟩
    · intro k hk d hd
      simp only [addLog_loop, exitCheck_job, fdisp, fdone] at hk ⊢
      exact g1 k hk d hd
    · intro k hk
      simp only [addLog_loop, exitCheck_job, fdisp, ffailed] at hk ⊢
      rw [finv k (hlt k hk)]; exact g2 k hk
    · intro d hd; simp only [addLog_loop, exitCheck_job, fdone, ffailed] at hd ⊢; exact g3 d hd
    · intro d hd; simp only [addLog_loop, exitCheck_job, fdone, fdisp] at hd ⊢; exact g4 d hd
  | loopDispatch w =>
    obtain ⟨j, l, hp, _, hd, rfl⟩ := inv_loopDispatch hs
    have hcore := h1.core hp
    obtain ⟨_, hjlt, hjnd, _, _⟩ := core_dispatch hcore hd
    obtain ⟨_, _, _, hready, _, _, _, _, _, fdone, ffailed, finv, fdisp⟩ := dispatch_gate hgate hd
    have hjr : j ∈ s.loop.ready := by rw [hready]; simp
    have hrem := ((hcore.readyIff j).mp hjr).2.1
    obtain ⟨g1, g2, g3, g4⟩ := h
    refine ⟨?_, ?_, ?_, ?_⟩
    · intro k hk d hdm
      simp only [addLog_loop, setW_loop, exitCheck_job, fdisp, fdone] at hk ⊢
      by_cases hkj : k = j
      · subst hkj
        have := hcore.rem k hjlt
        rw [hrem] at this
        have := countP_eq_zero_all this.symm d hdm
        simpa using this
      · simp [hkj] at hk; exact g1 k hk d hdm
    · intro k hk
      simp only [addLog_loop, setW_loop, exitCheck_job, fdisp, ffailed, finv] at hk ⊢
      by_cases hkj : k = j
      · subst hkj
        rw [hcore.inval k hjlt]
        constructor
        · rintro ⟨d, hd, _, hf⟩; exact ⟨d, hd, hf⟩
        · rintro ⟨d, hd, hf⟩; exact ⟨d, hd, g3 d hf, hf⟩
      · simp [hkj] at hk; exact g2 k hk
    · intro d hd; simp only [addLog_loop, setW_loop, exitCheck_job, fdone, ffailed] at hd ⊢; exact g3 d hd
    · intro d hd
      simp only [addLog_loop, setW_loop, exitCheck_job, fdone, fdisp] at hd ⊢
      simp [g4 d hd]
  | loopResult =>
    obtain ⟨j, r, rest, hp, hdc, rfl⟩ := inv_loopResult hs
    have hcore := h1.core hp
    have hcj := h1.cust j
    have hpos : 0 < custCount s j := by
      simp only [custCount, hdc, List.countP_cons]; simp; omega
    have hdj : (job s.loop j).dispatched = true ∧ (job s.loop j).done = false := by
      rw [hcj] at hpos
      cases hd1 : (job s.loop j).dispatched <;> cases hd2 : (job s.loop j).done <;> simp [hd1, hd2] at hpos ⊢
    have hjlt : j < s.loop.jobs.length := by
      rcases Nat.lt_or_ge j s.loop.jobs.length with hh | hh
      · exact hh
      · have := hdj.1; rw [job_of_ge _ _ hh] at this; simp at this
    obtain ⟨g1, g2, g3, g4⟩ := h
    -- a dispatched job does not depend on the (undone) job j
    have hnotdep : ∀ k, (job s.loop k).dispatched = true → j ∉ c.depsOf k := by
      intro k hk hm; have := g1 k hk j hm; simp [hdj.2] at this
    by_cases hexit : r.isErr = true ∧ c.coe = false
    · obtain ⟨_, _, _, _, _, _, _, _, fdone, ffailed, fdisp, finv⟩ := result_exit (l := s.loop) hjlt hexit.1 hexit.2
      refine ⟨?_, ?_, ?_, ?_⟩
      · intro k hk d hd
        simp only [exitCheck_job, fdisp, fdone] at hk ⊢
        simp [g1 k hk d hd]
      · intro k hk
        simp only [exitCheck_job, fdisp, ffailed, finv] at hk ⊢
        rw [g2 k hk]
        constructor
        · rintro ⟨d, hd, hf⟩; exact ⟨d, hd, by simp [hf]⟩
        · rintro ⟨d, hd, hf⟩
          have : d ≠ j := by intro e; subst e; exact hnotdep k hk hd
          exact ⟨d, hd, by simpa [this] using hf⟩
      · intro d hd
        simp only [exitCheck_job, fdone, ffailed] at hd ⊢
        simp only [Bool.or_eq_true, decide_eq_true_eq] at hd ⊢
        rcases hd with hd | hd
        · exact Or.inl (g3 d hd)
        · exact Or.inr hd
      · intro d hd
        simp only [exitCheck_job, fdone, fdisp] at hd ⊢
        simp only [Bool.or_eq_true, decide_eq_true_eq] at hd
        rcases hd with hd | hd
        · exact g4 d hd
        · subst hd; exact hdj.1
    · have hne : r.isErr = true → c.coe = true := by
        intro he; cases hc : c.coe with
        | true => rfl
        | false => exact absurd ⟨he, hc⟩ hexit
      obtain ⟨hcore', F⟩ := core_result hcore hjlt hdj.2 hdj.1 hne
      have hlt : ∀ k, (job s.loop k).dispatched = true → k < s.loop.jobs.length := by
        intro k hk
        rcases Nat.lt_or_ge k s.loop.jobs.length with hh | hh
        · exact hh
        · rw [job_of_ge _ _ hh] at hk; simp at hk
      refine ⟨?_, ?_, ?_, ?_⟩
      · intro k hk d hd
        simp only [exitCheck_job, F.dispatched, F.done] at hk ⊢
        simp [g1 k hk d hd]
      · intro k hk
        simp only [exitCheck_job, F.dispatched] at hk ⊢
        have hk' : k < (result c s.loop j r).jobs.length := by rw [F.len]; exact hlt k hk
        rw [hcore'.inval k hk']
        constructor
        · rintro ⟨d, hd, _, hf⟩; exact ⟨d, hd, hf⟩
        · rintro ⟨d, hd, hf⟩
          refine ⟨d, hd, ?_, hf⟩
          rw [F.done]; simp [g1 k hk d hd]
      · intro d hd
        simp only [exitCheck_job] at hd ⊢
        exact hcore'.failedDone d hd
      · intro d hd
        simp only [exitCheck_job] at hd ⊢
        exact hcore'.doneDisp d hd


/-! ### log links -/

def Ev.isStarted : Ev → Bool
  | .started _ => true
  | _ => false

/-- C01, first half, as a property of the log. -/
def DepsBefore (c : Cfg) (log : List Ev) : Prop :=
  ∀ (i j : Nat), log[i]? = some (Ev.started j) →
    ∀ d ∈ c.depsOf j, ∃ k, k < i ∧ log[k]? = some (Ev.ended d .ok)

theorem depsBefore_append_list {c : Cfg} {log es : List Ev} (h : DepsBefore c log)
    (he : ∀ e ∈ es, e.isStarted = false) : DepsBefore c (log ++ es) := by
  intro i j hi d hd
  by_cases hlt : i < log.length
  · rw [List.getElem?_append_left hlt] at hi
    obtain ⟨k, hk, hk2⟩ := h i j hi d hd
    exact ⟨k, hk, by rw [List.getElem?_append_left (by omega)]; exact hk2⟩
  · rw [List.getElem?_append_right (by omega)] at hi
    have := he _ (List.mem_of_getElem? hi)
    simp [Ev.isStarted] at this

theorem depsBefore_append_started {c : Cfg} {log : List Ev} {j : Nat} (h : DepsBefore c log)
    (hd : ∀ d ∈ c.depsOf j, Ev.ended d .ok ∈ log) : DepsBefore c (log ++ [Ev.started j]) := by
  intro i j' hi d hdm
  by_cases hlt : i < log.length
  · rw [List.getElem?_append_left hlt] at hi
    obtain ⟨k, hk, hk2⟩ := h i j' hi d hdm
    exact ⟨k, hk, by rw [List.getElem?_append_left (by omega)]; exact hk2⟩
  · rw [List.getElem?_append_right (by omega)] at hi
    have hi0 : i = log.length := by
      have := (List.getElem?_eq_some_iff.mp hi).1; simp at this; omega
    subst hi0
    simp at hi; subst hi
    obtain ⟨k, hk⟩ := List.mem_iff_getElem?.mp (hd d hdm)
    have hklt : k < log.length := (List.getElem?_eq_some_iff.mp hk).1
    exact ⟨k, hklt, by rw [List.getElem?_append_left hklt]; exact hk⟩

structure Inv3 (c : Cfg) (s : State) : Prop where
  endedOk : ∀ d, (job s.loop d).done = true → (job s.loop d).failed = false → Ev.ended d .ok ∈ s.log
  custOkW : ∀ (w d : Nat), s.ws[w]? = some (W.posting d .ok) → Ev.ended d .ok ∈ s.log
  custOkD : ∀ d, (d, Res.ok) ∈ s.donec → Ev.ended d .ok ∈ s.log
  startedDisp : ∀ j, Ev.started j ∈ s.log → (job s.loop j).dispatched = true
  holdingFresh : ∀ (w j : Nat), s.ws[w]? = some (W.holding j) → Ev.started j ∉ s.log
  once : ∀ j, s.log.count (Ev.started j) ≤ 1
  depsBefore : DepsBefore c s.log

theorem inv3_init (c : Cfg) : Inv3 c (init c) := by
  refine ⟨?_, ?_, ?_, ?_, ?_, ?_, ?_⟩
  · intro d h; simp [init, job, getJob] at h
  · intro w d h; simp [init] at h; obtain ⟨_, h⟩ := List.getElem?_eq_some_iff.mp h; simp at h
  · intro d h; simp [init] at h
  · intro j h; simp [init] at h
  · intro w j _; simp [init]
  · intro j; simp [init]
  · intro i j h; simp [init] at h

/-- Frame: the step keeps `done/failed/dispatched`, `ws`, `donec`, and appends non-`started` events. -/
theorem inv3_frame {c : Cfg} {s s' : State} {es : List Ev} (h : Inv3 c s)
    (hdone : ∀ k, (job s'.loop k).done = (job s.loop k).done)
    (hfailed : ∀ k, (job s'.loop k).failed = (job s.loop k).failed)
    (hdisp : ∀ k, (job s'.loop k).dispatched = (job s.loop k).dispatched)
    (hws : s'.ws = s.ws) (hdc : s'.donec = s.donec) (hlog : s'.log = s.log ++ es)
    (hes : ∀ e ∈ es, e.isStarted = false) : Inv3 c s' := by
  obtain ⟨h1, h2, h3, h4, h5, h6, h7⟩ := h
  have nost : ∀ j, Ev.started j ∉ es := by
    intro j hm; have := hes _ hm; simp [Ev.isStarted] at this
  refine ⟨?_, ?_, ?_, ?_, ?_, ?_, ?_⟩
  · intro d hd hf; rw [hdone] at hd; rw [hfailed] at hf; rw [hlog]; exact List.mem_append_left _ (h1 d hd hf)
  · intro w d hd; rw [hws] at hd; rw [hlog]; exact List.mem_append_left _ (h2 w d hd)
  · intro d hd; rw [hdc] at hd; rw [hlog]; exact List.mem_append_left _ (h3 d hd)
  · intro j hj; rw [hlog] at hj; rw [hdisp]
    rcases List.mem_append.mp hj with hj | hj
    · exact h4 j hj
    · exact absurd hj (nost j)
  · intro w j hj hm; rw [hws] at hj; rw [hlog] at hm
    rcases List.mem_append.mp hm with hm | hm
    · exact h5 w j hj hm
    · exact absurd hm (nost j)
  · intro j; rw [hlog, List.count_append, List.count_eq_zero_of_not_mem (nost j)]; exact h6 j
  · rw [hlog]; exact depsBefore_append_list h7 hes


theorem two_holders {ws : List W} {w w' j : Nat} {x x' : W} (h : ws[w]? = some x) (h' : ws[w']? = some x')
    (hne : w ≠ w') (hp : W.holds j x = true) (hp' : W.holds j x' = true) : 2 ≤ ws.countP (W.holds j) := by
  have e := countP_set_drop (y := W.idle) h hp (by simp [W.holds, W.job?])
  have h2 : (ws.set w W.idle)[w']? = some x' := by rw [List.getElem?_set_ne hne]; exact h'
  have := countP_pos_of h2 hp'
  omega

/-- A worker slot holding job `j` means `j` is dispatched and not done; nobody else holds it. -/
theorem holder_facts {c : Cfg} {s : State} (h1 : Inv1 c s) {w j : Nat} {x : W} (hx : s.ws[w]? = some x)
    (hj : x.job? = some j) :
    (job s.loop j).dispatched = true ∧ (job s.loop j).done = false ∧
    (∀ w' x', s.ws[w']? = some x' → x'.job? = some j → w' = w) ∧
    (∀ r, (j, r) ∉ s.donec) := by
  have hh : W.holds j x = true := by simp [W.holds, hj]
  have hpos := countP_pos_of hx hh
  have hc := h1.cust j
  have hle : custCount s j ≤ 1 := by
    rw [hc]; cases (job s.loop j).dispatched <;> cases (job s.loop j).done <;> simp
  have hdd : (job s.loop j).dispatched = true ∧ (job s.loop j).done = false := by
    have : 0 < custCount s j := by simp only [custCount]; omega
    rw [hc] at this
    cases hd1 : (job s.loop j).dispatched <;> cases hd2 : (job s.loop j).done <;> simp [hd1, hd2] at this ⊢
  refine ⟨hdd.1, hdd.2, ?_, ?_⟩
  · intro w' x' hx' hj'
    by_cases hne : w = w'
    · exact hne.symm
    · have := two_holders hx hx' hne hh (by simp [W.holds, hj'])
      simp only [custCount] at hle; omega
  · intro r hm
    have : 0 < s.donec.countP (fun x => x.1 == j) := by
      apply List.countP_pos_iff.mpr; exact ⟨(j, r), hm, by simp⟩
    simp only [custCount] at hle; omega

theorem isErr_false_iff (r : Res) : r.isErr = false ↔ r = .ok := by
  cases r <;> simp [Res.isErr]

theorem inv3_step {c : Cfg} (hw : c.wiring = Wiring.std) (hwf : WfCfg c) {s s' : State} {a : Act}
    (h1 : Inv1 c s) (h2 : Inv2 c s) (h : Inv3 c s) (hs : step c s a = some s') : Inv3 c s' := by
  have hlate : c.wiring.lateEnqueueChecksDone = true := by rw [hw]; rfl
  have hgate : c.wiring.gateDispatch = true := by rw [hw]; rfl
  cases a with
  | callerSend =>
    obtain ⟨_, _, _, _, rfl⟩ := inv_callerSend hs
    exact inv3_frame (es := [Ev.sent s.caller.sent]) h (fun _ => rfl) (fun _ => rfl) (fun _ => rfl) rfl rfl rfl (by simp [Ev.isStarted])
  | callerClose =>
    obtain ⟨_, _, rfl⟩ := inv_callerClose hs
    exact inv3_frame (es := []) h (fun _ => rfl) (fun _ => rfl) (fun _ => rfl) rfl rfl (by simp) (by simp)
  | callerRetCtx =>
    obtain ⟨_, _, _, rfl⟩ := inv_callerRetCtx hw hs
    exact inv3_frame (es := [Ev.waitReturned [.ctxErr]]) h (fun _ => rfl) (fun _ => rfl) (fun _ => rfl) rfl rfl rfl (by simp [Ev.isStarted])
  | callerRetFin =>
    obtain ⟨_, _, _, rfl⟩ := inv_callerRetFin hs
    exact inv3_frame (es := [Ev.waitReturned (retVal c s)]) h (fun _ => rfl) (fun _ => rfl) (fun _ => rfl) rfl rfl rfl (by simp [Ev.isStarted])
  | loopEnqClosed =>
    obtain ⟨_, _, _, _, rfl⟩ := inv_loopEnqClosed hs
    exact inv3_frame (es := []) h (by simp [closed, job]) (by simp [closed, job]) (by simp [closed, job]) rfl rfl (by simp) (by simp)
  | loopTick =>
    obtain ⟨_, _, rfl⟩ := inv_loopTick hs
    exact inv3_frame (es := [Ev.report (report c s.loop)]) h (by simp) (by simp) (by simp) rfl rfl rfl (by simp [Ev.isStarted])
  | loopDrain =>
    obtain ⟨_, _, _, _, rfl⟩ := inv_loopDrain hw hs
    exact inv3_frame (es := []) h (fun _ => rfl) (fun _ => rfl) (fun _ => rfl) rfl rfl (by simp) (by simp)
  | loopClose =>
    obtain ⟨_, _, _, rfl⟩ := inv_loopClose hw hs
    exact inv3_frame (es := [Ev.loopExit]) h (by simp [job]) (by simp [job]) (by simp [job]) rfl rfl rfl (by simp [Ev.isStarted])
  | cancel =>
    obtain ⟨_, _, rfl⟩ := inv_cancel hs
    exact inv3_frame (es := [Ev.cancelled _]) h (fun _ => rfl) (fun _ => rfl) (fun _ => rfl) rfl rfl rfl (by simp [Ev.isStarted])
  | loopEnq =>
    obtain ⟨j, rest, hp, _, he, rfl⟩ := inv_loopEnq hs
    have hf := h1.fifo hp
    rw [he] at hf
    have hjeq : j = s.loop.jobs.length := by
      have := hf.1; simp [List.range'] at this; exact this.1
    subst hjeq
    have hdeps : ∀ d ∈ c.depsOf s.loop.jobs.length, d < s.loop.jobs.length := hwf.2 _
    obtain ⟨_, fdone, ffailed, fdisp, _⟩ := enq_fields (c := c) (l := s.loop) hlate hdeps
    exact inv3_frame (es := [Ev.registered s.loop.jobs.length]) h (by simpa using fdone) (by simpa using ffailed)
      (by simpa using fdisp) rfl rfl rfl (by simp [Ev.isStarted])
  | loopDispatch w =>
    obtain ⟨j, l, hp, hidle, hd, rfl⟩ := inv_loopDispatch hs
    obtain ⟨_, hjlt, hjnd, _, _⟩ := core_dispatch (h1.core hp) hd
    obtain ⟨_, _, _, _, _, _, _, _, _, fdone, ffailed, _, fdisp⟩ := dispatch_gate hgate hd
    obtain ⟨g1, g2, g3, g4, g5, g6, g7⟩ := h
    have nost : Ev.started j ∉ s.log := by
      intro hm; have := g4 j hm; simp [hjnd] at this
    refine ⟨?_, ?_, ?_, ?_, ?_, ?_, ?_⟩
    · intro d hd1 hf
      simp only [addLog_loop, setW_loop, exitCheck_job, fdone, ffailed] at hd1 hf
      simp only [addLog_log, setW_log]; exact List.mem_append_left _ (g1 d hd1 hf)
    · intro w' d hd1
      simp only [addLog_ws, setW_ws] at hd1
      by_cases hww : w = w'
      · subst hww
        rw [List.getElem?_set_self (List.getElem?_eq_some_iff.mp hidle).1] at hd1; simp at hd1
      · rw [List.getElem?_set_ne hww] at hd1
        simp only [addLog_log, setW_log]; exact List.mem_append_left _ (g2 w' d hd1)
    · intro d hd1; simp only [addLog_log, setW_log]; exact List.mem_append_left _ (g3 d hd1)
    · intro k hk
      simp only [addLog_log, setW_log] at hk
      simp only [addLog_loop, setW_loop, exitCheck_job, fdisp]
      rcases List.mem_append.mp hk with hk | hk
      · simp [g4 k hk]
      · simp at hk
    · intro w' k hk hm
      simp only [addLog_ws, setW_ws] at hk
      simp only [addLog_log, setW_log] at hm
      have hm' : Ev.started k ∈ s.log := by
        rcases List.mem_append.mp hm with hm | hm
        · exact hm
        · simp at hm
      by_cases hww : w = w'
      · subst hww
        rw [List.getElem?_set_self (List.getElem?_eq_some_iff.mp hidle).1] at hk
        simp at hk; subst hk; exact nost hm'
      · rw [List.getElem?_set_ne hww] at hk; exact g5 w' k hk hm'
    · intro k; simp only [addLog_log, setW_log, List.count_append]; simpa using g6 k
    · simp only [addLog_log, setW_log]; exact depsBefore_append_list g7 (by simp [Ev.isStarted])
  | loopResult =>
    obtain ⟨j, r, rest, hp, hdc, rfl⟩ := inv_loopResult hs
    have hcj := h1.cust j
    have hpos : 0 < custCount s j := by
      simp only [custCount, hdc, List.countP_cons]; simp; omega
    have hdj : (job s.loop j).dispatched = true ∧ (job s.loop j).done = false := by
      rw [hcj] at hpos
      cases hd1 : (job s.loop j).dispatched <;> cases hd2 : (job s.loop j).done <;> simp [hd1, hd2] at hpos ⊢
    have hjlt : j < s.loop.jobs.length := by
      rcases Nat.lt_or_ge j s.loop.jobs.length with hh | hh
      · exact hh
      · have := hdj.1; rw [job_of_ge _ _ hh] at this; simp at this
    -- the three record fields after the arm, in both cases
    have fields : (∀ k, (job (exitCheck (result c s.loop j r)) k).done = ((job s.loop k).done || decide (k = j))) ∧
        (∀ k, (job (exitCheck (result c s.loop j r)) k).failed = ((job s.loop k).failed || (r.isErr && decide (k = j)))) ∧
        (∀ k, (job (exitCheck (result c s.loop j r)) k).dispatched = (job s.loop k).dispatched) := by
      by_cases hexit : r.isErr = true ∧ c.coe = false
      · obtain ⟨_, _, _, _, _, _, _, _, fdone, ffailed, fdisp, _⟩ := result_exit (l := s.loop) hjlt hexit.1 hexit.2
        exact ⟨by simpa using fdone, by intro k; simp [ffailed, hexit.1], by simpa using fdisp⟩
      · have hne : r.isErr = true → c.coe = true := by
          intro he; cases hc : c.coe with
          | true => rfl
          | false => exact absurd ⟨he, hc⟩ hexit
        obtain ⟨_, F⟩ := core_result (h1.core hp) hjlt hdj.2 hdj.1 hne
        exact ⟨by simpa using F.done, by simpa using F.failed, by simpa using F.dispatched⟩
    obtain ⟨fdone, ffailed, fdisp⟩ := fields
    obtain ⟨g1, g2, g3, g4, g5, g6, g7⟩ := h
    have hes : ∀ e ∈ [Ev.resultSeen j r] ++ (if (r.isErr && c.coe) = true then invalidWrites (job s.loop j).consumers else []),
        e.isStarted = false := by
      intro e he
      simp at he
      rcases he with rfl | ⟨_, he⟩
      · rfl
      · simp [invalidWrites] at he; obtain ⟨k, _, rfl⟩ := he; rfl
    have nost : ∀ k, Ev.started k ∉ [Ev.resultSeen j r] ++ (if (r.isErr && c.coe) = true then invalidWrites (job s.loop j).consumers else []) := by
      intro k hm; have := hes _ hm; simp [Ev.isStarted] at this
    refine ⟨?_, ?_, ?_, ?_, ?_, ?_, ?_⟩
    · intro d hd hf
      simp only [fdone, ffailed] at hd hf
      simp only [List.append_assoc]
      apply List.mem_append_left
      by_cases hdj' : d = j
      · subst hdj'
        simp [hdj.2] at hf
        have hfj := hf.2
        have : r = .ok := (isErr_false_iff r).mp hfj
        subst this
        exact g3 d (by rw [hdc]; simp)
      · simp [hdj'] at hd hf
        exact g1 d hd hf
    · intro w d hd; simp only [List.append_assoc]; exact List.mem_append_left _ (g2 w d hd)
    · intro d hd; simp only [List.append_assoc]; apply List.mem_append_left
      exact g3 d (by rw [hdc]; exact List.mem_cons_of_mem _ hd)
    · intro k hk
      rw [fdisp]
      simp only [List.append_assoc] at hk
      rcases List.mem_append.mp hk with hk | hk
      · exact g4 k hk
      · exact absurd hk (nost k)
    · intro w k hk hm
      simp only [List.append_assoc] at hm
      rcases List.mem_append.mp hm with hm | hm
      · exact g5 w k hk hm
      · exact absurd hm (nost k)
    · intro k
      simp only [List.append_assoc]
      rw [List.count_append, List.count_eq_zero_of_not_mem (nost k)]; exact g6 k
    · simp only [List.append_assoc]; exact depsBefore_append_list g7 hes
  | workerDecide w =>
    obtain ⟨j, hj, hcases⟩ := inv_workerDecide hw hs
    obtain ⟨hdisp, _, huniq, _⟩ := holder_facts (j := j) h1 hj (by simp [W.job?])
    obtain ⟨g1, g2, g3, g4, g5, g6, g7⟩ := h
    have hwlt := (List.getElem?_eq_some_iff.mp hj).1
    -- common part for the two skipping outcomes
    have skip : ∀ (rr : Res) (why : SkipWhy), rr ≠ .ok →
        Inv3 c (addLog (setW s w (.posting j rr)) (.skipped j why)) := by
      intro rr why hrr
      refine ⟨?_, ?_, ?_, ?_, ?_, ?_, ?_⟩
      · intro d hd hf; simp only [addLog_log, setW_log]; exact List.mem_append_left _ (g1 d hd hf)
      · intro w' d hd
        simp only [addLog_ws, setW_ws] at hd
        by_cases hww : w = w'
        · subst hww; rw [List.getElem?_set_self hwlt] at hd; simp at hd; exact absurd hd.2 hrr
        · rw [List.getElem?_set_ne hww] at hd
          simp only [addLog_log, setW_log]; exact List.mem_append_left _ (g2 w' d hd)
      · intro d hd; simp only [addLog_log, setW_log]; exact List.mem_append_left _ (g3 d hd)
      · intro k hk
        simp only [addLog_log, setW_log] at hk
        rcases List.mem_append.mp hk with hk | hk
        · exact g4 k hk
        · simp at hk
      · intro w' k hk hm
        simp only [addLog_ws, setW_ws] at hk
        simp only [addLog_log, setW_log] at hm
        have hm' : Ev.started k ∈ s.log := by
          rcases List.mem_append.mp hm with hm | hm
          · exact hm
          · simp at hm
        by_cases hww : w = w'
        · subst hww; rw [List.getElem?_set_self hwlt] at hk; simp at hk
        · rw [List.getElem?_set_ne hww] at hk; exact g5 w' k hk hm'
      · intro k; simp only [addLog_log, setW_log, List.count_append]; simpa using g6 k
      · simp only [addLog_log, setW_log]; exact depsBefore_append_list g7 (by simp [Ev.isStarted])
    rcases hcases with ⟨_, rfl⟩ | ⟨_, _, rfl⟩ | ⟨_, hinv, rfl⟩
    · exact skip _ _ (by simp)
    · exact skip _ _ (by simp)
    · -- the job starts
      have hfresh := g5 w j hj
      have hdeps : ∀ d ∈ c.depsOf j, Ev.ended d .ok ∈ s.log := by
        intro d hd
        have hdone := h2.depsDone j hdisp d hd
        have hnf : (job s.loop d).failed = false := by
          cases hf : (job s.loop d).failed with
          | false => rfl
          | true =>
            have := (h2.invalIff j hdisp).mpr ⟨d, hd, hf⟩
            simp [hinv] at this
        exact g1 d hdone hnf
      refine ⟨?_, ?_, ?_, ?_, ?_, ?_, ?_⟩
      · intro d hd hf; simp only [addLog_log, setW_log]; exact List.mem_append_left _ (g1 d hd hf)
      · intro w' d hd
        simp only [addLog_ws, setW_ws] at hd
        by_cases hww : w = w'
        · subst hww; rw [List.getElem?_set_self hwlt] at hd; simp at hd
        · rw [List.getElem?_set_ne hww] at hd
          simp only [addLog_log, setW_log]; exact List.mem_append_left _ (g2 w' d hd)
      · intro d hd; simp only [addLog_log, setW_log]; exact List.mem_append_left _ (g3 d hd)
      · intro k hk
        simp only [addLog_log, setW_log] at hk
        rcases List.mem_append.mp hk with hk | hk
        · exact g4 k hk
        · simp at hk; subst hk; exact hdisp
      · intro w' k hk hm
        simp only [addLog_ws, setW_ws] at hk
        simp only [addLog_log, setW_log] at hm
        by_cases hww : w = w'
        · subst hww; rw [List.getElem?_set_self hwlt] at hk; simp at hk
        · rw [List.getElem?_set_ne hww] at hk
          rcases List.mem_append.mp hm with hm | hm
          · exact g5 w' k hk hm
          · simp at hm; subst hm
            exact hww (huniq w' _ hk (by simp [W.job?])).symm
      · intro k
        simp only [addLog_log, setW_log, List.count_append]
        by_cases hk : k = j
        · subst hk
          rw [List.count_eq_zero_of_not_mem hfresh]; simp
        · have : List.count (Ev.started k) [Ev.started j] = 0 := by
            apply List.count_eq_zero_of_not_mem; simp; exact hk
          rw [this]; simpa using g6 k
      · simp only [addLog_log, setW_log]; exact depsBefore_append_started g7 hdeps
  | workerEnd w o cancel =>
    obtain ⟨j, hj, rfl⟩ := inv_workerEnd hs
    have hwlt := (List.getElem?_eq_some_iff.mp hj).1
    obtain ⟨g1, g2, g3, g4, g5, g6, g7⟩ := h
    have hab : (afterBody c s j o cancel).loop = s.loop ∧ (afterBody c s j o cancel).ws = s.ws ∧
        (afterBody c s j o cancel).donec = s.donec ∧
        ∃ es, (afterBody c s j o cancel).log = s.log ++ (Ev.ended j o :: es) ∧ ∀ e ∈ es, e.isStarted = false := by
      unfold afterBody; split
      · exact ⟨rfl, rfl, rfl, [Ev.cancelled (c.ctxOfJob j)], by simp, by simp [Ev.isStarted]⟩
      · exact ⟨rfl, rfl, rfl, [], by simp, by simp⟩
    obtain ⟨hl, hws, hdc, es, hlog, hes⟩ := hab
    have hes' : ∀ e ∈ Ev.ended j o :: es, e.isStarted = false := by
      intro e he; simp at he; rcases he with rfl | he
      · rfl
      · exact hes e he
    have nost : ∀ k, Ev.started k ∉ Ev.ended j o :: es := by
      intro k hm; have := hes' _ hm; simp [Ev.isStarted] at this
    refine ⟨?_, ?_, ?_, ?_, ?_, ?_, ?_⟩
    · intro d hd hf
      simp only [setW_loop, hl] at hd hf
      simp only [setW_log, hlog]; exact List.mem_append_left _ (g1 d hd hf)
    · intro w' d hd
      simp only [setW_ws, hws] at hd
      simp only [setW_log, hlog]
      by_cases hww : w = w'
      · subst hww
        rw [List.getElem?_set_self hwlt] at hd
        simp at hd
        split at hd
        · simp at hd
        · simp at hd
          obtain ⟨rfl, ho⟩ := hd
          have : o = .ok := by cases o <;> simp [outcomeRes] at ho ⊢
          subst this; simp
      · rw [List.getElem?_set_ne hww] at hd
        exact List.mem_append_left _ (g2 w' d hd)
    · intro d hd
      simp only [setW_donec, hdc] at hd
      simp only [setW_log, hlog]; exact List.mem_append_left _ (g3 d hd)
    · intro k hk
      simp only [setW_log, hlog] at hk
      simp only [setW_loop, hl]
      rcases List.mem_append.mp hk with hk | hk
      · exact g4 k hk
      · exact absurd hk (nost k)
    · intro w' k hk hm
      simp only [setW_ws, hws] at hk
      simp only [setW_log, hlog] at hm
      have hm' : Ev.started k ∈ s.log := by
        rcases List.mem_append.mp hm with hm | hm
        · exact hm
        · exact absurd hm (nost k)
      by_cases hww : w = w'
      · subst hww
        rw [List.getElem?_set_self hwlt] at hk
        split at hk <;> simp at hk
      · rw [List.getElem?_set_ne hww] at hk; exact g5 w' k hk hm'
    · intro k
      simp only [setW_log, hlog]
      rw [List.count_append, List.count_eq_zero_of_not_mem (nost k)]; exact g6 k
    · simp only [setW_log, hlog]; exact depsBefore_append_list g7 hes'
  | workerPost w =>
    obtain ⟨j, r, hj, _, rfl⟩ := inv_workerPost hs
    have hwlt := (List.getElem?_eq_some_iff.mp hj).1
    obtain ⟨g1, g2, g3, g4, g5, g6, g7⟩ := h
    refine ⟨g1, ?_, ?_, g4, ?_, g6, g7⟩
    · intro w' d hd
      simp only [setW_ws] at hd
      by_cases hww : w = w'
      · subst hww; rw [List.getElem?_set_self hwlt] at hd; simp at hd
      · rw [List.getElem?_set_ne hww] at hd; exact g2 w' d hd
    · intro d hd
      simp only [setW_donec] at hd
      rcases List.mem_append.mp hd with hd | hd
      · exact g3 d hd
      · simp at hd; obtain ⟨rfl, rfl⟩ := hd; exact g2 w d hj
    · intro w' k hk hm
      simp only [setW_ws] at hk
      by_cases hww : w = w'
      · subst hww; rw [List.getElem?_set_self hwlt] at hk; simp at hk
      · rw [List.getElem?_set_ne hww] at hk; exact g5 w' k hk hm
  | workerDiePost w =>
    obtain ⟨j, hj, _, rfl⟩ := inv_workerDiePost hw hs
    have hwlt := (List.getElem?_eq_some_iff.mp hj).1
    obtain ⟨g1, g2, g3, g4, g5, g6, g7⟩ := h
    refine ⟨g1, ?_, ?_, g4, ?_, g6, g7⟩
    · intro w' d hd
      simp only [setW_ws] at hd
      by_cases hww : w = w'
      · subst hww; rw [List.getElem?_set_self hwlt] at hd; simp at hd
      · rw [List.getElem?_set_ne hww] at hd; exact g2 w' d hd
    · intro d hd
      simp only [setW_donec] at hd
      rcases List.mem_append.mp hd with hd | hd
      · exact g3 d hd
      · simp at hd
    · intro w' k hk hm
      simp only [setW_ws] at hk
      by_cases hww : w = w'
      · subst hww; rw [List.getElem?_set_self hwlt] at hk; simp at hk
      · rw [List.getElem?_set_ne hww] at hk; exact g5 w' k hk hm
  | workerExit w =>
    obtain ⟨hj, _, rfl⟩ := inv_workerExit hs
    have hwlt := (List.getElem?_eq_some_iff.mp hj).1
    obtain ⟨g1, g2, g3, g4, g5, g6, g7⟩ := h
    refine ⟨g1, ?_, g3, g4, ?_, g6, g7⟩
    · intro w' d hd
      simp only [setW_ws] at hd
      by_cases hww : w = w'
      · subst hww; rw [List.getElem?_set_self hwlt] at hd; simp at hd
      · rw [List.getElem?_set_ne hww] at hd; exact g2 w' d hd
    · intro w' k hk hm
      simp only [setW_ws] at hk
      by_cases hww : w = w'
      · subst hww; rw [List.getElem?_set_self hwlt] at hk; simp at hk
      · rw [List.getElem?_set_ne hww] at hk; exact g5 w' k hk hm


/-- All state and log invariants, for every reachable state. -/
structure AllInv (c : Cfg) (s : State) : Prop where
  i1 : Inv1 c s
  i2 : Inv2 c s
  i3 : Inv3 c s

theorem allInv_run {c : Cfg} (hw : c.wiring = Wiring.std) (hwf : WfCfg c) (acts : List Act) (s : State)
    (hr : run c (init c) acts = some s) : AllInv c s := by
  refine run_induct (c := c) (AllInv c) ?_ acts _ _ ⟨inv1_init c, inv2_init c, inv3_init c⟩ hr
  intro s a s' hp h
  exact ⟨inv1_step hw hwf hp.i1 h, inv2_step hw hwf hp.i1 hp.i2 h, inv3_step hw hwf hp.i1 hp.i2 hp.i3 h⟩

end Sched
