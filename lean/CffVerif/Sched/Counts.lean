/-
  Counter invariants of the loop (J5): what the state reports are computed from (C19).
  These hold in every phase and need no dependency bookkeeping.
-/
import CffVerif.Sched.LoopInv

namespace Sched.Loop

def remPos (r : JobRec) : Bool := decide (0 < r.remaining)
def undoneB (r : JobRec) : Bool := !r.done

structure Counts (l : LoopSt) : Prop where
  eq : l.pending = (l.ready.length : Int) + l.waiting + l.ongoing
  pend : l.pending = ((l.jobs.countP undoneB : Nat) : Int)
  wait : l.waiting = ((l.jobs.countP remPos : Nat) : Int)

theorem counts_init : Counts {} := ⟨by simp, by simp, by simp⟩

theorem getJob_eq_getElem (jobs : List JobRec) (j : Nat) (h : j < jobs.length) : getJob jobs j = jobs[j] := by
  simp [getJob, List.getD_eq_getElem?_getD, List.getElem?_eq_getElem h]

theorem countP_set_job (p : JobRec → Bool) (jobs : List JobRec) (j : Nat) (x : JobRec) (h : j < jobs.length) :
    (jobs.set j x).countP p + (if p (getJob jobs j) then 1 else 0) = jobs.countP p + (if p x then 1 else 0) := by
  rw [List.countP_set h, getJob_eq_getElem jobs j h]
  have : (if p jobs[j] = true then 1 else 0) ≤ jobs.countP p := by
    split
    · next hp => exact List.countP_pos_iff.mpr ⟨jobs[j], List.getElem_mem h, hp⟩
    · omega
  omega

theorem countP_set_same (p : JobRec → Bool) (jobs : List JobRec) (j : Nat) (x : JobRec)
    (e : p x = p (getJob jobs j)) : (jobs.set j x).countP p = jobs.countP p := by
  by_cases h : j < jobs.length
  · have := countP_set_job p jobs j x h
    rw [e] at this; omega
  · rw [List.set_eq_of_length_le (Nat.le_of_not_lt h)]

/-- Two job lists that agree pointwise on `p` have the same count. -/
theorem countP_congr_jobs (p : JobRec → Bool) : ∀ (a b : List JobRec), a.length = b.length →
    (∀ k, p (getJob a k) = p (getJob b k)) → a.countP p = b.countP p := by
  intro a
  induction a with
  | nil => intro b hl _; cases b with
    | nil => rfl
    | cons _ _ => simp at hl
  | cons x xs ih =>
    intro b hl h
    cases b with
    | nil => simp at hl
    | cons y ys =>
      have h0 := h 0
      simp [getJob] at h0
      have : xs.countP p = ys.countP p := by
        apply ih ys (by simpa using hl)
        intro k; have := h (k + 1); simpa [getJob] using this
      simp [List.countP_cons, h0, this]

/-! ### notify / markInvalid keep the counter relations -/

theorem notify_counts : ∀ (cs : List Nat) (l : LoopSt),
    (notify l cs).waiting + ((notify l cs).ready.length : Int) = l.waiting + (l.ready.length : Int) ∧
    (notify l cs).waiting - (((notify l cs).jobs.countP remPos : Nat) : Int) = l.waiting - ((l.jobs.countP remPos : Nat) : Int) ∧
    (notify l cs).jobs.countP undoneB = l.jobs.countP undoneB ∧
    (notify l cs).pending = l.pending ∧ (notify l cs).ongoing = l.ongoing := by
  intro cs
  induction cs with
  | nil => intro l; simp [notify]
  | cons c cs ih =>
    intro l
    simp only [notify]
    generalize hl1 : (if ((job l c).decRem.remaining == 0) = true
        then { setJob l c (job l c).decRem with waiting := (setJob l c (job l c).decRem).waiting - 1,
                                                  ready := (setJob l c (job l c).decRem).ready ++ [c] }
        else setJob l c (job l c).decRem) = l1
    obtain ⟨i1, i2, i3, i4, i5⟩ := ih l1
    have und : l1.jobs.countP undoneB = l.jobs.countP undoneB := by
      subst hl1
      have : (setJob l c (job l c).decRem).jobs.countP undoneB = l.jobs.countP undoneB := by
        simp only [setJob]; apply countP_set_same; simp [undoneB, job]
      split <;> exact this
    have misc : l1.pending = l.pending ∧ l1.ongoing = l.ongoing := by subst hl1; split <;> simp
    have key : l1.waiting + (l1.ready.length : Int) = l.waiting + (l.ready.length : Int) ∧
        l1.waiting - ((l1.jobs.countP remPos : Nat) : Int) = l.waiting - ((l.jobs.countP remPos : Nat) : Int) := by
      subst hl1
      by_cases hc : c < l.jobs.length
      · have hset := countP_set_job remPos l.jobs c (job l c).decRem hc
        by_cases h0 : ((job l c).decRem.remaining == 0) = true
        · rw [if_pos h0]
          have hr : (job l c).remaining = 1 := by simp at h0; omega
          have p1 : remPos (getJob l.jobs c) = true := by
            show remPos (job l c) = true; simp [remPos, hr]
          have p2 : remPos (job l c).decRem = false := by simp [remPos, hr]
          rw [p1, p2] at hset
          simp only [if_true, Bool.false_eq_true, if_false] at hset
          refine ⟨by simp; omega, ?_⟩
          show (setJob l c (job l c).decRem).waiting - 1 - (((setJob l c (job l c).decRem).jobs.countP remPos : Nat) : Int) = _
          simp only [setJob] at hset ⊢
          omega
        · rw [if_neg h0]
          have hr : (job l c).remaining ≠ 1 := by simp at h0; omega
          have pe : remPos (job l c).decRem = remPos (getJob l.jobs c) := by
            show _ = remPos (job l c)
            simp [remPos]; omega
          have := countP_set_same remPos l.jobs c (job l c).decRem pe
          refine ⟨by simp, ?_⟩
          simp only [setJob]; rw [this]
      · have hnoop : setJob l c (job l c).decRem = l := by
          simp only [setJob]; rw [List.set_eq_of_length_le (Nat.le_of_not_lt hc)]
        have hr : (job l c).remaining = 0 := by rw [job_of_ge l c (Nat.le_of_not_lt hc)]
        have h0 : ¬ ((job l c).decRem.remaining == 0) = true := by simp [hr]
        rw [if_neg h0, hnoop]; simp
    exact ⟨by rw [i1, key.1], by rw [i2, key.2], by rw [i3, und], by rw [i4, misc.1], by rw [i5, misc.2]⟩

theorem markInvalid_counts : ∀ (cs : List Nat) (l : LoopSt),
    (markInvalid l cs).jobs.countP remPos = l.jobs.countP remPos ∧
    (markInvalid l cs).jobs.countP undoneB = l.jobs.countP undoneB := by
  intro cs
  induction cs with
  | nil => intro l; simp [markInvalid]
  | cons c cs ih =>
    intro l
    simp only [markInvalid]
    obtain ⟨i1, i2⟩ := ih (setJob l c (job l c).setInvalid)
    refine ⟨?_, ?_⟩
    · rw [i1]; simp only [setJob]; apply countP_set_same; rfl
    · rw [i2]; simp only [setJob]; apply countP_set_same; rfl


/-! ### preservation -/

theorem counts_exitCheck {l : LoopSt} (h : Counts l) : Counts (exitCheck l) := by
  obtain ⟨h1, h2, h3⟩ := h
  exact ⟨by simpa using h1, by simpa using h2, by simpa using h3⟩

theorem counts_closed {l : LoopSt} (h : Counts l) : Counts (closed l) := ⟨h.eq, h.pend, h.wait⟩

theorem counts_enq {c : Cfg} {l : LoopSt} (hw : c.wiring.lateEnqueueChecksDone = true)
    (hwf : ∀ d ∈ c.depsOf l.jobs.length, d < l.jobs.length) (h : Counts l) :
    Counts (enq c l l.jobs.length) := by
  have S := regDeps_spec c.wiring hw l.jobs.length (c.depsOf l.jobs.length) l.jobs {} hwf
  generalize hjobs1 : (regDeps c.wiring l.jobs l.jobs.length {} (c.depsOf l.jobs.length)).1 = jobs1 at S
  generalize hme : (regDeps c.wiring l.jobs l.jobs.length {} (c.depsOf l.jobs.length)).2 = me at S
  have ej : (enq c l l.jobs.length).jobs = jobs1 ++ [me] := by rw [enq_jobs, hjobs1, hme]
  have er := enq_ready c l l.jobs.length
  have ew := enq_waiting c l l.jobs.length
  rw [hme] at er ew
  obtain ⟨ep, eo, _, _, _⟩ := enq_others c l l.jobs.length
  have c1 : jobs1.countP remPos = l.jobs.countP remPos :=
    countP_congr_jobs remPos jobs1 l.jobs S.len (by intro k; simp [remPos, S.jrem])
  have c2 : jobs1.countP undoneB = l.jobs.countP undoneB :=
    countP_congr_jobs undoneB jobs1 l.jobs S.len (by intro k; simp [undoneB, S.jdone])
  have meU : undoneB me = true := by simp [undoneB, S.done]
  have meNonneg : 0 ≤ me.remaining := by rw [S.rem]; simp
  obtain ⟨h1, h2, h3⟩ := h
  refine ⟨?_, ?_, ?_⟩
  · rw [ep, eo, er, ew]
    split
    · simp; omega
    · omega
  · rw [ep, ej, List.countP_append, c2]; simp [meU]; omega
  · rw [ew, ej, List.countP_append, c1]
    by_cases h0 : me.remaining = 0
    · simp [h0, remPos]; exact h3
    · have : remPos me = true := by simp [remPos]; omega
      simp [h0, this]; omega

theorem counts_dispatch {c : Cfg} {l l' : LoopSt} {j : Nat} (h : Counts l)
    (hd : dispatch c l = some (j, l')) : Counts l' := by
  unfold dispatch at hd
  split at hd
  · simp at hd
  · next j0 rest hready =>
    split at hd
    · simp at hd
    · simp only [Option.some.injEq, Prod.mk.injEq] at hd
      obtain ⟨rfl, rfl⟩ := hd
      obtain ⟨h1, h2, h3⟩ := h
      refine ⟨?_, ?_, ?_⟩
      · simp [hready] at h1 ⊢; omega
      · show l.pending = (((l.jobs.set j0 (job l j0).setDispatched).countP undoneB : Nat) : Int)
        rw [countP_set_same undoneB _ _ _ (by simp [undoneB, job])]; exact h2
      · show l.waiting = (((l.jobs.set j0 (job l j0).setDispatched).countP remPos : Nat) : Int)
        rw [countP_set_same remPos _ _ _ (by simp [remPos, job]; rfl)]; exact h3

theorem counts_result {c : Cfg} {l : LoopSt} {j : Nat} {r : Res} (h : Counts l)
    (hj : j < l.jobs.length) (hnd : (job l j).done = false) : Counts (result c l j r) := by
  obtain ⟨h1, h2, h3⟩ := h
  -- after `job.done = true; pending--; ongoing--`
  have hU : (l.jobs.set j (job l j).setDone).countP undoneB + 1 = l.jobs.countP undoneB := by
    have := countP_set_job undoneB l.jobs j (job l j).setDone hj
    have p1 : undoneB (getJob l.jobs j) = true := by show undoneB (job l j) = true; simp [undoneB, hnd]
    have p2 : undoneB (job l j).setDone = false := by simp [undoneB]
    rw [p1, p2] at this; simpa using this
  have hR : (l.jobs.set j (job l j).setDone).countP remPos = l.jobs.countP remPos :=
    countP_set_same remPos _ _ _ (by simp [remPos, job]; rfl)
  by_cases he : r.isErr = true
  · by_cases hc : c.coe = true
    · -- ContinueOnError, failing
      have hres : result c l j r =
          notify (markInvalid (if (r == .invalid && c.wiring.filterSentinel) = true
                      then setJob { setJob l j (job l j).setDone with pending := l.pending - 1, ongoing := l.ongoing - 1 } j
                              (job { setJob l j (job l j).setDone with pending := l.pending - 1, ongoing := l.ongoing - 1 } j).setFailed
                      else { setJob { setJob l j (job l j).setDone with pending := l.pending - 1, ongoing := l.ongoing - 1 } j
                              (job { setJob l j (job l j).setDone with pending := l.pending - 1, ongoing := l.ongoing - 1 } j).setFailed
                             with err := l.err ++ [r] })
                    (job l j).consumers) (job l j).consumers := by
        unfold result; simp [he, hc]
      generalize hlE : (if (r == .invalid && c.wiring.filterSentinel) = true
                      then setJob { setJob l j (job l j).setDone with pending := l.pending - 1, ongoing := l.ongoing - 1 } j
                              (job { setJob l j (job l j).setDone with pending := l.pending - 1, ongoing := l.ongoing - 1 } j).setFailed
                      else { setJob { setJob l j (job l j).setDone with pending := l.pending - 1, ongoing := l.ongoing - 1 } j
                              (job { setJob l j (job l j).setDone with pending := l.pending - 1, ongoing := l.ongoing - 1 } j).setFailed
                             with err := l.err ++ [r] }) = lE at hres
      have eJobs : lE.jobs = (l.jobs.set j (job l j).setDone).set j
            (job { setJob l j (job l j).setDone with pending := l.pending - 1, ongoing := l.ongoing - 1 } j).setFailed := by
        subst hlE; split <;> rfl
      have eMisc : lE.pending = l.pending - 1 ∧ lE.ongoing = l.ongoing - 1 ∧ lE.waiting = l.waiting ∧ lE.ready = l.ready := by
        subst hlE; split <;> simp
      have eU : lE.jobs.countP undoneB = (l.jobs.set j (job l j).setDone).countP undoneB := by
        rw [eJobs]; apply countP_set_same; rfl
      have eR : lE.jobs.countP remPos = (l.jobs.set j (job l j).setDone).countP remPos := by
        rw [eJobs]; apply countP_set_same; rfl
      obtain ⟨mS, _⟩ := markInvalid_spec (job l j).consumers lE
      obtain ⟨m1, m2⟩ := markInvalid_counts (job l j).consumers lE
      obtain ⟨n1, n2, n3, n4, n5⟩ := notify_counts (job l j).consumers (markInvalid lE (job l j).consumers)
      rw [hres]
      refine ⟨?_, ?_, ?_⟩
      · rw [n4, n5, mS.pending, mS.ongoing, eMisc.1, eMisc.2.1]
        rw [mS.waiting, mS.ready, eMisc.2.2.1, eMisc.2.2.2] at n1
        omega
      · rw [n4, n3, m2, eU, mS.pending, eMisc.1]; omega
      · rw [m1, eR, hR, mS.waiting, eMisc.2.2.1] at n2; omega
    · -- fail-fast exit
      have hc' : c.coe = false := by simpa using hc
      have hres : result c l j r =
          { setJob { setJob l j (job l j).setDone with pending := l.pending - 1, ongoing := l.ongoing - 1 } j
              (job { setJob l j (job l j).setDone with pending := l.pending - 1, ongoing := l.ongoing - 1 } j).setFailed
            with err := [r], phase := .draining } := by
        unfold result; simp [he, hc']
      rw [hres]
      refine ⟨?_, ?_, ?_⟩
      · show l.pending - 1 = (l.ready.length : Int) + l.waiting + (l.ongoing - 1); omega
      · show l.pending - 1 = ((((l.jobs.set j (job l j).setDone).set j _).countP undoneB : Nat) : Int)
        rw [countP_set_same undoneB _ j _ (by rfl)]; omega
      · show l.waiting = ((((l.jobs.set j (job l j).setDone).set j _).countP remPos : Nat) : Int)
        rw [countP_set_same remPos _ j _ (by rfl), hR]; exact h3
  · have he' : r.isErr = false := by simpa using he
    have hres : result c l j r =
        notify { setJob l j (job l j).setDone with pending := l.pending - 1, ongoing := l.ongoing - 1 } (job l j).consumers := by
      unfold result; simp [he']
    obtain ⟨n1, n2, n3, n4, n5⟩ := notify_counts (job l j).consumers
      { setJob l j (job l j).setDone with pending := l.pending - 1, ongoing := l.ongoing - 1 }
    rw [hres]
    refine ⟨?_, ?_, ?_⟩
    · rw [n4, n5]
      have : (({ setJob l j (job l j).setDone with pending := l.pending - 1, ongoing := l.ongoing - 1 } : LoopSt).waiting
              + ((({ setJob l j (job l j).setDone with pending := l.pending - 1, ongoing := l.ongoing - 1 } : LoopSt).ready.length : Nat) : Int))
            = l.waiting + (l.ready.length : Int) := rfl
      rw [this] at n1
      show l.pending - 1 = _ + _ + (l.ongoing - 1); omega
    · rw [n4, n3]
      show l.pending - 1 = (((l.jobs.set j (job l j).setDone).countP undoneB : Nat) : Int); omega
    · have e1 : (({ setJob l j (job l j).setDone with pending := l.pending - 1, ongoing := l.ongoing - 1 } : LoopSt).jobs.countP remPos)
              = l.jobs.countP remPos := hR
      have e2 : ({ setJob l j (job l j).setDone with pending := l.pending - 1, ongoing := l.ongoing - 1 } : LoopSt).waiting = l.waiting := rfl
      rw [e1, e2] at n2; omega


/-! ### unconditional frame facts -/

theorem notify_frame : ∀ (cs : List Nat) (l : LoopSt),
    (notify l cs).phase = l.phase ∧ (notify l cs).enqNil = l.enqNil ∧ (notify l cs).err = l.err := by
  intro cs
  induction cs with
  | nil => intro l; simp [notify]
  | cons c cs ih =>
    intro l
    simp only [notify]
    obtain ⟨i1, i2, i3⟩ := ih (if ((job l c).decRem.remaining == 0) = true
        then { setJob l c (job l c).decRem with waiting := (setJob l c (job l c).decRem).waiting - 1,
                                                  ready := (setJob l c (job l c).decRem).ready ++ [c] }
        else setJob l c (job l c).decRem)
    refine ⟨by rw [i1]; split <;> rfl, by rw [i2]; split <;> rfl, by rw [i3]; split <;> rfl⟩

theorem result_frame (c : Cfg) (l : LoopSt) (j : Nat) (r : Res) :
    (result c l j r).enqNil = l.enqNil ∧
    ((result c l j r).phase = l.phase ∨ (result c l j r).phase = .draining) := by
  unfold result
  simp only []
  split
  · split
    · exact ⟨rfl, Or.inr rfl⟩
    · obtain ⟨n1, n2, _⟩ := notify_frame (job l j).consumers (markInvalid
        (if (r == Res.invalid && c.wiring.filterSentinel) = true then
            setJob { setJob l j (job l j).setDone with pending := (setJob l j (job l j).setDone).pending - 1, ongoing := (setJob l j (job l j).setDone).ongoing - 1 } j
              (job { setJob l j (job l j).setDone with pending := (setJob l j (job l j).setDone).pending - 1, ongoing := (setJob l j (job l j).setDone).ongoing - 1 } j).setFailed
          else { setJob { setJob l j (job l j).setDone with pending := (setJob l j (job l j).setDone).pending - 1, ongoing := (setJob l j (job l j).setDone).ongoing - 1 } j
              (job { setJob l j (job l j).setDone with pending := (setJob l j (job l j).setDone).pending - 1, ongoing := (setJob l j (job l j).setDone).ongoing - 1 } j).setFailed
              with err := (setJob { setJob l j (job l j).setDone with pending := (setJob l j (job l j).setDone).pending - 1, ongoing := (setJob l j (job l j).setDone).ongoing - 1 } j
              (job { setJob l j (job l j).setDone with pending := (setJob l j (job l j).setDone).pending - 1, ongoing := (setJob l j (job l j).setDone).ongoing - 1 } j).setFailed).err ++ [r] })
        (job l j).consumers)
      obtain ⟨mS, _⟩ := markInvalid_spec (job l j).consumers
        (if (r == Res.invalid && c.wiring.filterSentinel) = true then
            setJob { setJob l j (job l j).setDone with pending := (setJob l j (job l j).setDone).pending - 1, ongoing := (setJob l j (job l j).setDone).ongoing - 1 } j
              (job { setJob l j (job l j).setDone with pending := (setJob l j (job l j).setDone).pending - 1, ongoing := (setJob l j (job l j).setDone).ongoing - 1 } j).setFailed
          else { setJob { setJob l j (job l j).setDone with pending := (setJob l j (job l j).setDone).pending - 1, ongoing := (setJob l j (job l j).setDone).ongoing - 1 } j
              (job { setJob l j (job l j).setDone with pending := (setJob l j (job l j).setDone).pending - 1, ongoing := (setJob l j (job l j).setDone).ongoing - 1 } j).setFailed
              with err := (setJob { setJob l j (job l j).setDone with pending := (setJob l j (job l j).setDone).pending - 1, ongoing := (setJob l j (job l j).setDone).ongoing - 1 } j
              (job { setJob l j (job l j).setDone with pending := (setJob l j (job l j).setDone).pending - 1, ongoing := (setJob l j (job l j).setDone).ongoing - 1 } j).setFailed).err ++ [r] })
      refine ⟨?_, Or.inl ?_⟩
      · rw [n2, mS.enqNil]; split <;> rfl
      · rw [n1, mS.phase]; split <;> rfl
  · obtain ⟨n1, n2, _⟩ := notify_frame (job l j).consumers
      { setJob l j (job l j).setDone with pending := (setJob l j (job l j).setDone).pending - 1, ongoing := (setJob l j (job l j).setDone).ongoing - 1 }
    exact ⟨by rw [n2]; rfl, Or.inl (by rw [n1]; rfl)⟩

end Sched.Loop
