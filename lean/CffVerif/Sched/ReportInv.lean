/-
  State reports (C19): every `report` event in the log satisfies the consistency relations,
  relative to the number of jobs submitted before it; and reports stop when the loop exits.
-/
import CffVerif.Sched.Counts
import CffVerif.Sched.LogInv

namespace Sched

open Loop

def Ev.sentId : Ev → Option Nat
  | .sent j => some j
  | _ => none

/-- Job `j` names at least one dependency. -/
def withDeps (c : Cfg) (j : Nat) : Bool := !(c.depsOf j).isEmpty

/-- The relations C19 demands of one report, `nsent` jobs having been submitted so far. -/
structure GoodReport (c : Cfg) (nsent : Nat) (st : Report) : Prop where
  nonneg : 0 ≤ st.pending ∧ 0 ≤ st.ready ∧ 0 ≤ st.waiting ∧ 0 ≤ st.idle
  sum : ∃ x : Int, 0 ≤ x ∧ x ≤ c.N ∧ st.pending = st.ready + st.waiting + x ∧ st.idle = c.N - x
  conc : st.concurrency = c.N
  pendLe : st.pending ≤ nsent
  waitLe : st.waiting ≤ (((List.range nsent).countP (withDeps c) : Nat) : Int)

def ReportsOK (c : Cfg) (log : List Ev) : Prop :=
  ∀ (i : Nat) (st : Report), log[i]? = some (Ev.report st) →
    GoodReport c ((log.take i).filterMap Ev.sentId).length st

theorem reportsOK_append_list {c : Cfg} {log es : List Ev} (h : ReportsOK c log)
    (hes : ∀ e ∈ es, ∀ st, e ≠ Ev.report st) : ReportsOK c (log ++ es) := by
  intro i st hi
  by_cases hlt : i < log.length
  · rw [List.getElem?_append_left hlt] at hi
    rw [List.take_append_of_le_length (Nat.le_of_lt hlt)]
    exact h i st hi
  · rw [List.getElem?_append_right (by omega)] at hi
    exact absurd rfl (hes _ (List.mem_of_getElem? hi) st)

theorem reportsOK_append_report {c : Cfg} {log : List Ev} {st : Report} (h : ReportsOK c log)
    (hg : GoodReport c (log.filterMap Ev.sentId).length st) : ReportsOK c (log ++ [Ev.report st]) := by
  intro i st' hi
  by_cases hlt : i < log.length
  · rw [List.getElem?_append_left hlt] at hi
    rw [List.take_append_of_le_length (Nat.le_of_lt hlt)]
    exact h i st' hi
  · rw [List.getElem?_append_right (by omega)] at hi
    have hi0 : i = log.length := by
      have := (List.getElem?_eq_some_iff.mp hi).1; simp at this; omega
    subst hi0
    simp at hi; subst hi
    rw [List.take_append_of_le_length (Nat.le_refl _), List.take_length]
    exact hg

/-- All reports precede the loop's exit. -/
def NoReportAfterExit (log : List Ev) : Prop :=
  ∀ (i k : Nat) (st : Report), log[i]? = some Ev.loopExit → log[k]? = some (Ev.report st) → k < i

theorem nrae_append_list {log es : List Ev} (h : NoReportAfterExit log)
    (hes : ∀ e ∈ es, ∀ st, e ≠ Ev.report st) : NoReportAfterExit (log ++ es) := by
  intro i k st hi hk
  have hk' : k < log.length := by
    by_cases hlt : k < log.length
    · exact hlt
    · rw [List.getElem?_append_right (by omega)] at hk
      exact absurd rfl (hes _ (List.mem_of_getElem? hk) st)
  rw [List.getElem?_append_left hk'] at hk
  by_cases hi' : i < log.length
  · rw [List.getElem?_append_left hi'] at hi; exact h i k st hi hk
  · omega

theorem nrae_append_report {log : List Ev} {st : Report} (h : NoReportAfterExit log)
    (hx : Ev.loopExit ∉ log) : NoReportAfterExit (log ++ [Ev.report st]) := by
  intro i k st' hi hk
  by_cases hi' : i < log.length
  · rw [List.getElem?_append_left hi'] at hi
    exact absurd (List.mem_of_getElem? hi) hx
  · rw [List.getElem?_append_right (by omega)] at hi
    have := List.mem_of_getElem? hi; simp at this

structure Inv4 (c : Cfg) (s : State) : Prop where
  counts : Counts s.loop
  sentLog : s.log.filterMap Ev.sentId = List.range s.caller.sent
  reports : ReportsOK c s.log
  exitPhase : Ev.loopExit ∈ s.log → s.loop.phase = .exited
  stop : NoReportAfterExit s.log

theorem inv4_init (c : Cfg) : Inv4 c (init c) := by
  refine ⟨counts_init, by simp [init], ?_, by simp [init], ?_⟩
  · intro i st h; simp [init] at h
  · intro i k st h; simp [init] at h

theorem inv4_frame {c : Cfg} {s s' : State} {es : List Ev} (h : Inv4 c s) (hcounts : Counts s'.loop)
    (hph : Ev.loopExit ∈ s.log → s'.loop.phase = .exited) (hsent : s'.caller.sent = s.caller.sent)
    (hlog : s'.log = s.log ++ es)
    (hes : ∀ e ∈ es, e.sentId = none ∧ (∀ st, e ≠ Ev.report st) ∧ e ≠ Ev.loopExit) : Inv4 c s' := by
  obtain ⟨h1, h2, h3, h4, h5⟩ := h
  have e0 : es.filterMap Ev.sentId = [] := by
    rw [List.filterMap_eq_nil_iff]; intro e he; exact (hes e he).1
  refine ⟨hcounts, ?_, ?_, ?_, ?_⟩
  · rw [hlog, List.filterMap_append, e0, hsent]; simpa using h2
  · rw [hlog]; exact reportsOK_append_list h3 (fun e he => (hes e he).2.1)
  · intro hm; rw [hlog] at hm
    rcases List.mem_append.mp hm with hm | hm
    · exact hph hm
    · exact absurd rfl (hes _ hm).2.2
  · rw [hlog]; exact nrae_append_list h5 (fun e he => (hes e he).2.1)


theorem countP_jobs_range (p : JobRec → Bool) (xs : List JobRec) :
    xs.countP p = (List.range xs.length).countP (fun k => p (getJob xs k)) := by
  induction xs with
  | nil => simp
  | cons x xs ih =>
    simp only [List.length_cons, List.range_succ_eq_map, List.countP_cons, List.countP_map]
    rw [ih]
    simp [Function.comp_def, getJob]

/-- The report emitted in a reachable selecting state is good. -/
theorem goodReport_of_inv {c : Cfg} {s : State} (h1 : Inv1 c s) (hc : Counts s.loop)
    (hp : s.loop.phase = .select) : GoodReport c s.caller.sent (report c s.loop) := by
  have hcore := h1.core hp
  have hfifo := (h1.fifo hp).2
  have hong0 : 0 ≤ s.loop.ongoing := by rw [h1.ongoing]; omega
  have hongN := h1.gate
  have hpend0 : 0 ≤ s.loop.pending := by rw [hc.pend]; omega
  have hwait0 : 0 ≤ s.loop.waiting := by rw [hc.wait]; omega
  have hidle : idleWorkers c.N s.loop.ongoing = c.N - s.loop.ongoing := by
    unfold idleWorkers; simp only []; split
    · omega
    · rfl
  refine ⟨⟨hpend0, by simp [report], hwait0, by simp only [report, hidle]; omega⟩,
          ⟨s.loop.ongoing, hong0, hongN, by simp only [report]; have := hc.eq; omega, by simp only [report, hidle]⟩,
          rfl, ?_, ?_⟩
  · simp only [report]; rw [hc.pend]
    have := List.countP_le_length (p := undoneB) (l := s.loop.jobs)
    omega
  · simp only [report]; rw [hc.wait]
    have e1 := countP_jobs_range remPos s.loop.jobs
    have le1 : (List.range s.loop.jobs.length).countP (fun k => remPos (getJob s.loop.jobs k))
             ≤ (List.range s.loop.jobs.length).countP (withDeps c) := by
      apply List.countP_mono_left
      intro k hk hr
      have hk' : k < s.loop.jobs.length := List.mem_range.mp hk
      have hrem := hcore.rem k hk'
      have hpos : 0 < (job s.loop k).remaining := by simpa [remPos, job] using hr
      rw [hrem] at hpos
      have : 0 < (c.depsOf k).countP (fun d => !(job s.loop d).done) := by exact_mod_cast hpos
      obtain ⟨d, hd, _⟩ := List.countP_pos_iff.mp this
      simp only [withDeps, Bool.not_eq_true', List.isEmpty_eq_false_iff]
      intro he; rw [he] at hd; simp at hd
    have le2 : (List.range s.loop.jobs.length).countP (withDeps c) ≤ (List.range s.caller.sent).countP (withDeps c) :=
      List.Sublist.countP_le (List.range_sublist.mpr (by omega))
    omega

theorem inv4_step {c : Cfg} (hw : c.wiring = Wiring.std) (hwf : WfCfg c) {s s' : State} {a : Act}
    (h1 : Inv1 c s) (h : Inv4 c s) (hs : step c s a = some s') : Inv4 c s' := by
  have hlate : c.wiring.lateEnqueueChecksDone = true := by rw [hw]; rfl
  cases a with
  | callerSend =>
    obtain ⟨_, _, _, _, rfl⟩ := inv_callerSend hs
    obtain ⟨g1, g2, g3, g4, g5⟩ := h
    refine ⟨g1, ?_, ?_, ?_, ?_⟩
    · simp only [addLog_log, List.filterMap_append, g2, addLog_caller]
      simp [Ev.sentId, List.range_succ]
    · simp only [addLog_log]; exact reportsOK_append_list g3 (by simp)
    · intro hm; simp only [addLog_log] at hm
      rcases List.mem_append.mp hm with hm | hm
      · exact g4 hm
      · simp at hm
    · simp only [addLog_log]; exact nrae_append_list g5 (by simp)
  | callerClose =>
    obtain ⟨_, _, rfl⟩ := inv_callerClose hs
    exact inv4_frame (es := []) h h.counts h.exitPhase rfl (by simp) (by simp)
  | callerRetCtx =>
    obtain ⟨_, _, _, rfl⟩ := inv_callerRetCtx hw hs
    exact inv4_frame (es := [Ev.waitReturned [.ctxErr]]) h h.counts h.exitPhase rfl rfl (by simp [Ev.sentId])
  | callerRetFin =>
    obtain ⟨_, _, _, rfl⟩ := inv_callerRetFin hs
    exact inv4_frame (es := [Ev.waitReturned (retVal c s)]) h h.counts h.exitPhase rfl rfl (by simp [Ev.sentId])
  | loopEnq =>
    obtain ⟨j, rest, hp, _, he, rfl⟩ := inv_loopEnq hs
    have hf := h1.fifo hp
    rw [he] at hf
    have hjeq : j = s.loop.jobs.length := by
      have := hf.1; simp [List.range'] at this; exact this.1
    subst hjeq
    have hdeps : ∀ d ∈ c.depsOf s.loop.jobs.length, d < s.loop.jobs.length := hwf.2 _
    refine inv4_frame (es := [Ev.registered s.loop.jobs.length]) h
      (counts_exitCheck (counts_enq hlate hdeps h.counts)) ?_ rfl rfl (by simp [Ev.sentId])
    intro hm; have := h.exitPhase hm; simp [hp] at this
  | loopEnqClosed =>
    obtain ⟨hp, _, _, _, rfl⟩ := inv_loopEnqClosed hs
    refine inv4_frame (es := []) h (counts_exitCheck (counts_closed h.counts)) ?_ rfl (by simp) (by simp)
    intro hm; have := h.exitPhase hm; simp [hp] at this
  | loopDispatch w =>
    obtain ⟨j, l, hp, _, hd, rfl⟩ := inv_loopDispatch hs
    refine inv4_frame (es := [Ev.dispatched j]) h (counts_exitCheck (counts_dispatch h.counts hd)) ?_ rfl rfl (by simp [Ev.sentId])
    intro hm; have := h.exitPhase hm; simp [hp] at this
  | loopResult =>
    obtain ⟨j, r, rest, hp, hdc, rfl⟩ := inv_loopResult hs
    have hcj := h1.cust j
    have hpos : 0 < custCount s j := by
      simp only [custCount, hdc, List.countP_cons]; simp; omega
    have hdj : (job s.loop j).dispatched = true ∧ (job s.loop j).done = false := by
      rw [hcj] at hpos
      cases hd1 : (job s.loop j).dispatched <;> cases hd2 : (job s.loop j).done <;> simp [hd1, hd2] at hpos ⊢
    have hjlt : j < s.loop.jobs.length := by
      rcases Nat.lt_or_ge j s.loop.jobs.length with hh | hh
      · exact hh
      · have := hdj.1; rw [job_of_ge _ _ hh] at this; simp at this
    refine inv4_frame (es := [Ev.resultSeen j r] ++ (if (r.isErr && c.coe) = true then invalidWrites (job s.loop j).consumers else []))
      h (counts_exitCheck (counts_result h.counts hjlt hdj.2)) ?_ rfl (by simp) ?_
    · intro hm; have := h.exitPhase hm; simp [hp] at this
    · intro e he
      simp at he
      rcases he with rfl | ⟨_, he⟩
      · simp [Ev.sentId]
      · simp [invalidWrites] at he; obtain ⟨k, _, rfl⟩ := he; simp [Ev.sentId]
  | loopTick =>
    obtain ⟨hp, _, rfl⟩ := inv_loopTick hs
    obtain ⟨g1, g2, g3, g4, g5⟩ := h
    have hx : Ev.loopExit ∉ s.log := by intro hm; have := g4 hm; simp [hp] at this
    refine ⟨counts_exitCheck g1, ?_, ?_, ?_, ?_⟩
    · simp only [addLog_log, List.filterMap_append, g2, addLog_caller]; simp [Ev.sentId]
    · simp only [addLog_log]
      apply reportsOK_append_report g3
      rw [g2, List.length_range]
      exact goodReport_of_inv h1 g1 hp
    · intro hm; simp only [addLog_log] at hm
      rcases List.mem_append.mp hm with hm | hm
      · exact absurd hm hx
      · simp at hm
    · simp only [addLog_log]; exact nrae_append_report g5 hx
  | loopDrain =>
    obtain ⟨_, _, hp, _, rfl⟩ := inv_loopDrain hw hs
    exact inv4_frame (es := []) h h.counts h.exitPhase rfl (by simp) (by simp)
  | loopClose =>
    obtain ⟨hp, _, _, rfl⟩ := inv_loopClose hw hs
    obtain ⟨g1, g2, g3, g4, g5⟩ := h
    refine ⟨⟨g1.eq, g1.pend, g1.wait⟩, ?_, ?_, ?_, ?_⟩
    · simp only [addLog_log, List.filterMap_append, g2, addLog_caller]; simp [Ev.sentId]
    · simp only [addLog_log]; exact reportsOK_append_list g3 (by simp)
    · intro _; rfl
    · simp only [addLog_log]; exact nrae_append_list g5 (by simp)
  | workerDecide w =>
    obtain ⟨j, _, hcases⟩ := inv_workerDecide hw hs
    rcases hcases with ⟨_, rfl⟩ | ⟨_, _, rfl⟩ | ⟨_, _, rfl⟩
    · exact inv4_frame (es := [Ev.skipped j .ctx]) h h.counts h.exitPhase rfl rfl (by simp [Ev.sentId])
    · exact inv4_frame (es := [Ev.skipped j .invalid]) h h.counts h.exitPhase rfl rfl (by simp [Ev.sentId])
    · exact inv4_frame (es := [Ev.started j]) h h.counts h.exitPhase rfl rfl (by simp [Ev.sentId])
  | workerEnd w o cancel =>
    obtain ⟨j, _, rfl⟩ := inv_workerEnd hs
    have hab : (afterBody c s j o cancel).loop = s.loop ∧ (afterBody c s j o cancel).caller = s.caller ∧
        ∃ es, (afterBody c s j o cancel).log = s.log ++ es ∧
          ∀ e ∈ es, e.sentId = none ∧ (∀ st, e ≠ Ev.report st) ∧ e ≠ Ev.loopExit := by
      unfold afterBody; split
      · exact ⟨rfl, rfl, [Ev.ended j o, Ev.cancelled (c.ctxOfJob j)], by simp, by simp [Ev.sentId]⟩
      · exact ⟨rfl, rfl, [Ev.ended j o], by simp, by simp [Ev.sentId]⟩
    obtain ⟨hl, hcl, es, hlog, hes⟩ := hab
    exact inv4_frame (es := es) h (by simp only [setW_loop, hl]; exact h.counts)
      (by simp only [setW_loop, hl]; exact h.exitPhase) (by simp only [setW_caller, hcl]) (by simp only [setW_log, hlog]) hes
  | workerPost w =>
    obtain ⟨_, _, _, _, rfl⟩ := inv_workerPost hs
    exact inv4_frame (es := []) h h.counts h.exitPhase rfl (by simp) (by simp)
  | workerDiePost w =>
    obtain ⟨_, _, _, rfl⟩ := inv_workerDiePost hw hs
    exact inv4_frame (es := []) h h.counts h.exitPhase rfl (by simp) (by simp)
  | workerExit w =>
    obtain ⟨_, _, rfl⟩ := inv_workerExit hs
    exact inv4_frame (es := []) h h.counts h.exitPhase rfl (by simp) (by simp)
  | cancel =>
    obtain ⟨_, _, rfl⟩ := inv_cancel hs
    exact inv4_frame (es := [Ev.cancelled _]) h h.counts h.exitPhase rfl rfl (by simp [Ev.sentId])

end Sched
