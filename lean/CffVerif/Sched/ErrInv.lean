/-
  Error accounting (C07, C08): how `s.err` relates to the results the loop has seen, why the loop
  left its `for`, and that fail-fast never produces an "invalid" job.
-/
import CffVerif.Sched.Account

namespace Sched

open Loop

/-- The entry a seen result contributes to the ContinueOnError error (the sentinel is filtered). -/
def Ev.errEntry : Ev → Option Res
  | .resultSeen _ r => if r.isErr && !(r == .invalid) then some r else none
  | _ => none

theorem filterMap_single_none {e : Ev} (h : e.errEntry = none) : List.filterMap Ev.errEntry [e] = [] := by
  simp [List.filterMap_cons, h]

structure Inv7 (c : Cfg) (s : State) : Prop where
  errCoe : c.coe = true → s.loop.err = s.log.filterMap Ev.errEntry
  errFf : c.coe = false →
      (s.loop.err = [] ∧ ∀ d, (job s.loop d).failed = false) ∨
      (∃ j r, s.loop.err = [r] ∧ Ev.resultSeen j r ∈ s.log ∧ r.isErr = true)
  exitReason : s.loop.phase ≠ .select →
      (c.coe = false ∧ s.loop.err ≠ []) ∨ (s.loop.pending = 0 ∧ s.loop.enqNil = true)
  nilAll : s.loop.enqNil = true → s.loop.jobs.length = s.caller.sent
  ffValid : c.coe = false → ∀ j, (job s.loop j).dispatched = true → (job s.loop j).invalid = false

theorem inv7_init (c : Cfg) : Inv7 c (init c) := by
  refine ⟨by intro _; simp [init], ?_, by simp [init], by simp [init], ?_⟩
  · intro _; left; simp [init, job, getJob]
  · intro _ j h; simp [init, job, getJob] at h

/-- Frame: the loop state is untouched, `sent` unchanged, only events without an error entry. -/
theorem inv7_frame {c : Cfg} {s s' : State} {es : List Ev} (h : Inv7 c s) (hl : s'.loop = s.loop)
    (hsent : s'.caller.sent = s.caller.sent) (hlog : s'.log = s.log ++ es)
    (hes : ∀ e ∈ es, e.errEntry = none) : Inv7 c s' := by
  obtain ⟨g1, g2, g3, g4, g5⟩ := h
  have e0 : es.filterMap Ev.errEntry = [] := by
    rw [List.filterMap_eq_nil_iff]; exact hes
  refine ⟨?_, ?_, by rw [hl]; exact g3, by rw [hl, hsent]; exact g4, by rw [hl]; exact g5⟩
  · intro hc; rw [hl, hlog, List.filterMap_append, e0]; simpa using g1 hc
  · intro hc
    rcases g2 hc with h | ⟨j, r, h1, h2, h3⟩
    · left; rw [hl]; exact h
    · right; exact ⟨j, r, by rw [hl]; exact h1, by rw [hlog]; exact List.mem_append_left _ h2, h3⟩

theorem exitCheck_reason {c : Cfg} (l : LoopSt) (h : l.phase ≠ .select → (c.coe = false ∧ l.err ≠ []) ∨ (l.pending = 0 ∧ l.enqNil = true)) :
    (exitCheck l).phase ≠ .select →
      (c.coe = false ∧ (exitCheck l).err ≠ []) ∨ ((exitCheck l).pending = 0 ∧ (exitCheck l).enqNil = true) := by
  intro hp
  simp only [exitCheck_err, exitCheck_pending, exitCheck_enqNil]
  rw [exitCheck_phase] at hp
  by_cases hc : (l.pending == 0 && l.enqNil) = true
  · right; simpa using hc
  · simp only [hc] at hp; exact h hp

theorem inv7_step {c : Cfg} (hw : c.wiring = Wiring.std) (hwf : WfCfg c) {s s' : State} {a : Act}
    (R : Reach c s) (h : Inv7 c s) (hs : step c s a = some s') : Inv7 c s' := by
  have hlate : c.wiring.lateEnqueueChecksDone = true := by rw [hw]; rfl
  have hgate : c.wiring.gateDispatch = true := by rw [hw]; rfl
  have hfilt : c.wiring.filterSentinel = true := by rw [hw]; rfl
  have h1 := R.i1
  cases a with
  | callerSend =>
    obtain ⟨hcl, _, _, _, rfl⟩ := inv_callerSend hs
    obtain ⟨g1, g2, g3, g4, g5⟩ := h
    refine ⟨?_, ?_, g3, ?_, g5⟩
    · intro hc; simp only [addLog_loop, addLog_log, List.filterMap_append]; rw [filterMap_single_none rfl]; simpa using g1 hc
    · intro hc
      rcases g2 hc with h | ⟨j, r, h1, h2, h3⟩
      · left; exact h
      · right; exact ⟨j, r, h1, by simp only [addLog_log]; exact List.mem_append_left _ h2, h3⟩
    · intro hn; have := (R.i5.nilClosed hn).2; simp [hcl] at this
  | callerClose =>
    obtain ⟨_, _, rfl⟩ := inv_callerClose hs
    exact inv7_frame (es := []) h rfl rfl (by simp) (by simp)
  | callerRetCtx =>
    obtain ⟨_, _, _, rfl⟩ := inv_callerRetCtx hw hs
    exact inv7_frame (es := [Ev.waitReturned [.ctxErr]]) h rfl rfl rfl (by simp [Ev.errEntry])
  | callerRetFin =>
    obtain ⟨_, _, _, rfl⟩ := inv_callerRetFin hs
    exact inv7_frame (es := [Ev.waitReturned (retVal c s)]) h rfl rfl rfl (by simp [Ev.errEntry])
  | loopDrain =>
    obtain ⟨_, _, _, _, rfl⟩ := inv_loopDrain hw hs
    exact inv7_frame (es := []) h rfl rfl (by simp) (by simp)
  | workerDecide w =>
    obtain ⟨j, _, hcases⟩ := inv_workerDecide hw hs
    rcases hcases with ⟨_, rfl⟩ | ⟨_, _, rfl⟩ | ⟨_, _, rfl⟩
    · exact inv7_frame (es := [Ev.skipped j .ctx]) h rfl rfl rfl (by simp [Ev.errEntry])
    · exact inv7_frame (es := [Ev.skipped j .invalid]) h rfl rfl rfl (by simp [Ev.errEntry])
    · exact inv7_frame (es := [Ev.started j]) h rfl rfl rfl (by simp [Ev.errEntry])
  | workerEnd w o cancel =>
    obtain ⟨j, _, rfl⟩ := inv_workerEnd hs
    have hab : (afterBody c s j o cancel).loop = s.loop ∧ (afterBody c s j o cancel).caller = s.caller ∧
        ∃ es, (afterBody c s j o cancel).log = s.log ++ es ∧ ∀ e ∈ es, e.errEntry = none := by
      unfold afterBody; split
      · exact ⟨rfl, rfl, [Ev.ended j o, Ev.cancelled (c.ctxOfJob j)], by simp, by simp [Ev.errEntry]⟩
      · exact ⟨rfl, rfl, [Ev.ended j o], by simp, by simp [Ev.errEntry]⟩
    obtain ⟨hl, hcl, es, hlog, hes⟩ := hab
    exact inv7_frame (es := es) h (by simp [hl]) (by simp [hcl]) (by simp [hlog]) hes
  | workerPost w =>
    obtain ⟨_, _, _, _, rfl⟩ := inv_workerPost hs
    exact inv7_frame (es := []) h rfl rfl (by simp) (by simp)
  | workerDiePost w =>
    obtain ⟨_, _, _, rfl⟩ := inv_workerDiePost hw hs
    exact inv7_frame (es := []) h rfl rfl (by simp) (by simp)
  | workerExit w =>
    obtain ⟨_, _, rfl⟩ := inv_workerExit hs
    exact inv7_frame (es := []) h rfl rfl (by simp) (by simp)
  | cancel =>
    obtain ⟨_, _, rfl⟩ := inv_cancel hs
    exact inv7_frame (es := [Ev.cancelled _]) h rfl rfl rfl (by simp [Ev.errEntry])
  | loopClose =>
    obtain ⟨hp, _, _, rfl⟩ := inv_loopClose hw hs
    obtain ⟨g1, g2, g3, g4, g5⟩ := h
    refine ⟨?_, ?_, ?_, g4, g5⟩
    · intro hc; simp only [addLog_loop, addLog_log, List.filterMap_append]; rw [filterMap_single_none rfl]; simpa using g1 hc
    · intro hc
      rcases g2 hc with h | ⟨j, r, h1, h2, h3⟩
      · left; exact h
      · right; exact ⟨j, r, h1, by simp only [addLog_log]; exact List.mem_append_left _ h2, h3⟩
    · intro _; exact g3 (by simp [hp])
  | loopTick =>
    obtain ⟨hp, _, rfl⟩ := inv_loopTick hs
    obtain ⟨g1, g2, g3, g4, g5⟩ := h
    refine ⟨?_, ?_, ?_, by simpa using g4, by simpa using g5⟩
    · intro hc; simp only [addLog_loop, addLog_log, List.filterMap_append, exitCheck_err]; rw [filterMap_single_none rfl]; simpa using g1 hc
    · intro hc
      rcases g2 hc with h | ⟨j, r, h1, h2, h3⟩
      · left; simpa using h
      · right; exact ⟨j, r, by simpa using h1, by simp only [addLog_log]; exact List.mem_append_left _ h2, h3⟩
    · simp only [addLog_loop]; exact exitCheck_reason s.loop g3
  | loopEnqClosed =>
    obtain ⟨hp, _, he, _, rfl⟩ := inv_loopEnqClosed hs
    obtain ⟨g1, g2, g3, g4, g5⟩ := h
    refine ⟨?_, ?_, ?_, ?_, by simpa [closed, job] using g5⟩
    · intro hc; simpa [closed] using g1 hc
    · intro hc
      rcases g2 hc with h | ⟨j, r, h1, h2, h3⟩
      · left; simpa [closed, job] using h
      · right; exact ⟨j, r, by simpa [closed] using h1, h2, h3⟩
    · apply exitCheck_reason; intro hne; simp [closed, hp] at hne
    · intro _
      have := (h1.fifo hp).2; rw [he] at this
      simpa [closed] using this
  | loopEnq =>
    obtain ⟨j, rest, hp, hn, he, rfl⟩ := inv_loopEnq hs
    have hf := h1.fifo hp
    rw [he] at hf
    have hjeq : j = s.loop.jobs.length := by
      have := hf.1; simp [List.range'] at this; exact this.1
    subst hjeq
    obtain ⟨_, fdone, ffailed, fdisp, finv⟩ := enq_fields (c := c) (l := s.loop) hlate (hwf.2 _)
    obtain ⟨_, _, eph, enil, eerr⟩ := enq_others c s.loop s.loop.jobs.length
    obtain ⟨g1, g2, g3, g4, g5⟩ := h
    refine ⟨?_, ?_, ?_, ?_, ?_⟩
    · intro hc; simp only [addLog_loop, addLog_log, List.filterMap_append, exitCheck_err, eerr]; rw [filterMap_single_none rfl]; simpa using g1 hc
    · intro hc
      rcases g2 hc with h | ⟨j, r, h1, h2, h3⟩
      · left; simp only [addLog_loop, exitCheck_err, eerr, exitCheck_job, ffailed]; exact h
      · right; exact ⟨j, r, by simpa [eerr] using h1, by simp only [addLog_log]; exact List.mem_append_left _ h2, h3⟩
    · simp only [addLog_loop]; apply exitCheck_reason; intro hne; simp [eph, hp] at hne
    · intro hn'; simp [enil, hn] at hn'
    · intro hc k hk
      simp only [addLog_loop, exitCheck_job, fdisp] at hk ⊢
      have hklt : k < s.loop.jobs.length := by
        rcases Nat.lt_or_ge k s.loop.jobs.length with hh | hh
        · exact hh
        · rw [job_of_ge _ _ hh] at hk; simp at hk
      rw [finv k hklt]; exact g5 hc k hk
  | loopDispatch w =>
    obtain ⟨j, l, hp, _, hd, rfl⟩ := inv_loopDispatch hs
    have hcore := h1.core hp
    obtain ⟨_, hjlt, _, _, _⟩ := core_dispatch hcore hd
    obtain ⟨_, _, _, _, hpend, _, hph, hnil, herr, fdone, ffailed, finv, fdisp⟩ := dispatch_gate hgate hd
    obtain ⟨g1, g2, g3, g4, g5⟩ := h
    refine ⟨?_, ?_, ?_, ?_, ?_⟩
    · intro hc; simp only [addLog_loop, setW_loop, addLog_log, setW_log, List.filterMap_append, exitCheck_err, herr]
      rw [filterMap_single_none rfl]; simpa using g1 hc
    · intro hc
      rcases g2 hc with h | ⟨j, r, h1, h2, h3⟩
      · left; simp only [addLog_loop, setW_loop, exitCheck_err, herr, exitCheck_job, ffailed]; exact h
      · right; exact ⟨j, r, by simpa [herr] using h1, by simp only [addLog_log, setW_log]; exact List.mem_append_left _ h2, h3⟩
    · simp only [addLog_loop, setW_loop]; apply exitCheck_reason; intro hne; simp [hph, hp] at hne
    · intro hn'; simp only [addLog_loop, setW_loop, exitCheck_enqNil, hnil, exitCheck_jobs] at hn' ⊢
      have := g4 hn'
      simp only [addLog_caller, setW_caller]
      have hlen : l.jobs.length = s.loop.jobs.length := by
        obtain ⟨_, _, hlen, _⟩ := dispatch_gate hgate hd; exact hlen
      omega
    · intro hc k hk
      simp only [addLog_loop, setW_loop, exitCheck_job, fdisp, finv] at hk ⊢
      by_cases hkj : k = j
      · subst hkj
        cases hi : (job s.loop k).invalid with
        | false => rfl
        | true =>
          obtain ⟨d, _, hd1, hd2⟩ := (hcore.inval k hjlt).mp hi
          have := hcore.ffClean hc d hd1; simp [hd2] at this
      · simp [hkj] at hk; exact g5 hc k hk
  | loopResult =>
    obtain ⟨j, r, rest, hp, hdc, rfl⟩ := inv_loopResult hs
    have hcore := h1.core hp
    obtain ⟨hjd, hjnd, hjlt, fdone, ffailed, fdisp⟩ := result_fields (c := c) h1 hp hdc
    have fdisp' : ∀ k, (job (result c s.loop j r) k).dispatched = (job s.loop k).dispatched := by
      intro k; simpa using fdisp k
    obtain ⟨g1, g2, g3, g4, g5⟩ := h
    have wrNone : (if (r.isErr && c.coe) = true then invalidWrites (job s.loop j).consumers else []).filterMap Ev.errEntry = [] := by
      rw [List.filterMap_eq_nil_iff]; intro e he
      split at he
      · simp [invalidWrites] at he; obtain ⟨_, _, rfl⟩ := he; rfl
      · simp at he
    obtain ⟨rnil, rph⟩ := result_frame c s.loop j r
    by_cases hexit : r.isErr = true ∧ c.coe = false
    · -- fail-fast exit
      obtain ⟨ph, rerr, rlen, _, _, _, _, _, _, _, _, finv⟩ := result_exit (l := s.loop) hjlt hexit.1 hexit.2
      refine ⟨?_, ?_, ?_, ?_, ?_⟩
      · intro hc; simp [hexit.2] at hc
      · intro _; right
        exact ⟨j, r, by simp [rerr], by simp, hexit.1⟩
      · intro _; left; exact ⟨hexit.2, by simp [rerr]⟩
      · intro hn; simp only [exitCheck_enqNil, rnil, exitCheck_jobs, rlen] at hn ⊢; exact g4 hn
      · intro hc k hk
        simp only [exitCheck_job, fdisp'] at hk ⊢
        rw [finv]; exact g5 hc k hk
    · have hne : r.isErr = true → c.coe = true := by
        intro he; cases hc : c.coe with
        | true => rfl
        | false => exact absurd ⟨he, hc⟩ hexit
      obtain ⟨hcore', F⟩ := core_result hcore hjlt hjnd hjd hne
      have hph' : (result c s.loop j r).phase = .select := by rw [F.phase]; exact hp
      refine ⟨?_, ?_, ?_, ?_, ?_⟩
      · intro hc
        simp only [exitCheck_err, F.err, hfilt, List.filterMap_append, wrNone, List.append_nil, Bool.and_true]
        rw [g1 hc]
        simp only [List.filterMap_cons, List.filterMap_nil, Ev.errEntry]
        by_cases hb : (r.isErr && !(r == Res.invalid)) = true
        · simp [hb]
        · simp [hb]
      · intro hc
        have hok : r.isErr = false := by
          cases hr : r.isErr with
          | false => rfl
          | true => have := hne hr; simp [hc] at this
        rcases g2 hc with h | ⟨j', r', h1, h2, h3⟩
        · left
          refine ⟨by simp [F.err, hok, h.1], ?_⟩
          intro d; rw [ffailed]; simp [hok, h.2 d]
        · right
          exact ⟨j', r', by simp [F.err, hok, h1], by simp only [List.append_assoc]; exact List.mem_append_left _ h2, h3⟩
      · apply exitCheck_reason; intro hne'; exact absurd hph' hne'
      · intro hn; simp only [exitCheck_enqNil, F.enqNil, exitCheck_jobs, F.len] at hn ⊢; exact g4 hn
      · intro hc k hk
        simp only [exitCheck_job, fdisp'] at hk ⊢
        have hklt : k < (result c s.loop j r).jobs.length := by
          rw [F.len]
          rcases Nat.lt_or_ge k s.loop.jobs.length with hh | hh
          · exact hh
          · rw [job_of_ge _ _ hh] at hk; simp at hk
        cases hi : (job (result c s.loop j r) k).invalid with
        | false => rfl
        | true =>
          obtain ⟨d, _, hd1, hd2⟩ := (hcore'.inval k hklt).mp hi
          have := hcore'.ffClean hc d hd1; simp [hd2] at this

end Sched
