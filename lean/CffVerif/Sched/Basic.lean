/-
  Helper lemmas about the model's accessors (no property theorems here).
-/
import CffVerif.Sched.Model

namespace Sched

open Loop

-- `simp` normal form of `s.cancelledCtx x` is `ctxDone s.doneCtx x` (transparent to updates of
-- the other fields); `State.cancelledCtx` is reducible, so hypotheses stated with it still
-- rewrite the normal form.
attribute [simp] State.cancelledCtx

@[simp] theorem ctxDone_nil (x : Nat) : ctxDone [] x = false := rfl
@[simp] theorem ctxDone_cons (y : Nat) (d : List Nat) (x : Nat) :
    ctxDone (y :: d) x = (decide (x = y) || ctxDone d x) := by
  simp [ctxDone]
theorem ctxDone_cons_self (y : Nat) (d : List Nat) : ctxDone (y :: d) y = true := by simp
theorem ctxDone_eq_mem (d : List Nat) (x : Nat) : ctxDone d x = decide (x ∈ d) := by simp [ctxDone]

@[simp] theorem addLog_log (s : State) (e : Ev) : (addLog s e).log = s.log ++ [e] := rfl
@[simp] theorem addLog_doneCtx (s : State) (e : Ev) : (addLog s e).doneCtx = s.doneCtx := rfl
theorem addLog_cancelledCtx (s : State) (e : Ev) (x : Nat) :
    (addLog s e).cancelledCtx x = s.cancelledCtx x := rfl
@[simp] theorem addLog_ws (s : State) (e : Ev) : (addLog s e).ws = s.ws := rfl
@[simp] theorem addLog_loop (s : State) (e : Ev) : (addLog s e).loop = s.loop := rfl
@[simp] theorem addLog_donec (s : State) (e : Ev) : (addLog s e).donec = s.donec := rfl
@[simp] theorem addLog_enq (s : State) (e : Ev) : (addLog s e).enq = s.enq := rfl
@[simp] theorem addLog_caller (s : State) (e : Ev) : (addLog s e).caller = s.caller := rfl

@[simp] theorem setW_log (s : State) (w : Nat) (x : W) : (setW s w x).log = s.log := rfl
@[simp] theorem setW_doneCtx (s : State) (w : Nat) (x : W) : (setW s w x).doneCtx = s.doneCtx := rfl
theorem setW_cancelledCtx (s : State) (w : Nat) (x : W) (y : Nat) :
    (setW s w x).cancelledCtx y = s.cancelledCtx y := rfl
@[simp] theorem setW_ws (s : State) (w : Nat) (x : W) : (setW s w x).ws = s.ws.set w x := rfl
@[simp] theorem setW_loop (s : State) (w : Nat) (x : W) : (setW s w x).loop = s.loop := rfl
@[simp] theorem setW_donec (s : State) (w : Nat) (x : W) : (setW s w x).donec = s.donec := rfl
@[simp] theorem setW_enq (s : State) (w : Nat) (x : W) : (setW s w x).enq = s.enq := rfl
@[simp] theorem setW_caller (s : State) (w : Nat) (x : W) : (setW s w x).caller = s.caller := rfl

@[simp] theorem cancelCtx_log (s : State) (x : Nat) : (s.cancelCtx x).log = s.log := rfl
@[simp] theorem cancelCtx_doneCtx (s : State) (x : Nat) : (s.cancelCtx x).doneCtx = x :: s.doneCtx := rfl
@[simp] theorem cancelCtx_ws (s : State) (x : Nat) : (s.cancelCtx x).ws = s.ws := rfl
@[simp] theorem cancelCtx_loop (s : State) (x : Nat) : (s.cancelCtx x).loop = s.loop := rfl
@[simp] theorem cancelCtx_donec (s : State) (x : Nat) : (s.cancelCtx x).donec = s.donec := rfl
@[simp] theorem cancelCtx_enq (s : State) (x : Nat) : (s.cancelCtx x).enq = s.enq := rfl
@[simp] theorem cancelCtx_caller (s : State) (x : Nat) : (s.cancelCtx x).caller = s.caller := rfl

/-- Cancelling `x` makes `x` done and leaves every other context as it was. -/
theorem cancelCtx_cancelledCtx (s : State) (x y : Nat) :
    (s.cancelCtx x).cancelledCtx y = (decide (y = x) || s.cancelledCtx y) := by
  simp

theorem cancelCtx_cancelledCtx_self (s : State) (x : Nat) :
    (s.cancelCtx x).cancelledCtx x = true := by simp

/-- Cancellation is monotone. -/
theorem cancelCtx_cancelledCtx_mono (s : State) (x y : Nat) (h : s.cancelledCtx y = true) :
    (s.cancelCtx x).cancelledCtx y = true := by
  simp [h]

theorem cancelCtx_cancelledCtx_ne (s : State) {x y : Nat} (h : y ≠ x) :
    (s.cancelCtx x).cancelledCtx y = s.cancelledCtx y := by simp [h]

theorem init_cancelledCtx (c : Cfg) (x : Nat) : (init c).cancelledCtx x = false := rfl
@[simp] theorem init_doneCtx (c : Cfg) : (init c).doneCtx = [] := rfl

/-- Every job's context is one of the contexts the configuration mentions. -/
theorem Cfg.ctxOfJob_mem_ctxs (c : Cfg) (j : Nat) : c.ctxOfJob j ∈ c.ctxs := by
  unfold Cfg.ctxOfJob Cfg.ctxs
  rw [List.getD_eq_getElem?_getD]
  cases h : c.ctxOf[j]? with
  | none => simp
  | some x => simp [List.mem_of_getElem? h]

theorem Cfg.waitCtx_mem_ctxs (c : Cfg) : c.waitCtx ∈ c.ctxs := by simp [Cfg.ctxs]

namespace Loop

theorem job_def (l : LoopSt) (j : Nat) : job l j = getJob l.jobs j := rfl

theorem getJob_set (jobs : List JobRec) (k i : Nat) (x : JobRec) :
    getJob (jobs.set k x) i = if i = k ∧ k < jobs.length then x else getJob jobs i := by
  simp only [getJob, List.getD_eq_getElem?_getD, List.getElem?_set]
  by_cases h : k = i
  · subst h
    by_cases h2 : k < jobs.length <;> simp [h2]
  · have : ¬ i = k := fun e => h e.symm
    simp [h, this]

theorem getJob_of_ge (jobs : List JobRec) (j : Nat) (h : jobs.length ≤ j) : getJob jobs j = {} := by
  simp [getJob, List.getD_eq_getElem?_getD, List.getElem?_eq_none h]

theorem getJob_append_left (a b : List JobRec) (j : Nat) (h : j < a.length) :
    getJob (a ++ b) j = getJob a j := by
  simp [getJob, List.getD_eq_getElem?_getD, List.getElem?_append_left h]

theorem getJob_append_self (a : List JobRec) (x : JobRec) : getJob (a ++ [x]) a.length = x := by
  simp [getJob, List.getD_eq_getElem?_getD]

theorem job_of_ge (l : LoopSt) (j : Nat) (h : l.jobs.length ≤ j) : job l j = {} :=
  getJob_of_ge _ _ h

theorem job_setJob (l : LoopSt) (k i : Nat) (x : JobRec) :
    job (setJob l k x) i = if i = k ∧ k < l.jobs.length then x else job l i := by
  simp only [job, setJob, getJob_set]

@[simp] theorem setJob_length (l : LoopSt) (k : Nat) (x : JobRec) :
    (setJob l k x).jobs.length = l.jobs.length := by simp [setJob]

@[simp] theorem setJob_ready (l : LoopSt) (k : Nat) (x : JobRec) : (setJob l k x).ready = l.ready := rfl
@[simp] theorem setJob_pending (l : LoopSt) (k : Nat) (x : JobRec) : (setJob l k x).pending = l.pending := rfl
@[simp] theorem setJob_ongoing (l : LoopSt) (k : Nat) (x : JobRec) : (setJob l k x).ongoing = l.ongoing := rfl
@[simp] theorem setJob_waiting (l : LoopSt) (k : Nat) (x : JobRec) : (setJob l k x).waiting = l.waiting := rfl
@[simp] theorem setJob_phase (l : LoopSt) (k : Nat) (x : JobRec) : (setJob l k x).phase = l.phase := rfl
@[simp] theorem setJob_enqNil (l : LoopSt) (k : Nat) (x : JobRec) : (setJob l k x).enqNil = l.enqNil := rfl
@[simp] theorem setJob_err (l : LoopSt) (k : Nat) (x : JobRec) : (setJob l k x).err = l.err := rfl

/-- `exitCheck` only touches the phase. -/
theorem exitCheck_eq (l : LoopSt) :
    exitCheck l = l ∨ exitCheck l = { l with phase := .draining } := by
  unfold exitCheck; split <;> simp

@[simp] theorem exitCheck_jobs (l : LoopSt) : (exitCheck l).jobs = l.jobs := by
  unfold exitCheck; split <;> rfl
@[simp] theorem exitCheck_ready (l : LoopSt) : (exitCheck l).ready = l.ready := by
  unfold exitCheck; split <;> rfl
@[simp] theorem exitCheck_pending (l : LoopSt) : (exitCheck l).pending = l.pending := by
  unfold exitCheck; split <;> rfl
@[simp] theorem exitCheck_ongoing (l : LoopSt) : (exitCheck l).ongoing = l.ongoing := by
  unfold exitCheck; split <;> rfl
@[simp] theorem exitCheck_waiting (l : LoopSt) : (exitCheck l).waiting = l.waiting := by
  unfold exitCheck; split <;> rfl
@[simp] theorem exitCheck_enqNil (l : LoopSt) : (exitCheck l).enqNil = l.enqNil := by
  unfold exitCheck; split <;> rfl
@[simp] theorem exitCheck_err (l : LoopSt) : (exitCheck l).err = l.err := by
  unfold exitCheck; split <;> rfl
@[simp] theorem exitCheck_job (l : LoopSt) (j : Nat) : job (exitCheck l) j = job l j := by
  simp [job]

theorem exitCheck_phase (l : LoopSt) :
    (exitCheck l).phase = if l.pending == 0 && l.enqNil then .draining else l.phase := by
  unfold exitCheck; split <;> simp_all

end Loop

/-- Executable well-formedness check, sound for `WfCfg`. -/
def wfCfgB (c : Cfg) : Bool :=
  decide (1 ≤ c.N) &&
    (List.range c.deps.length).all (fun j => (c.depsOf j).all (fun d => decide (d < j)))

theorem wfCfg_of_b {c : Cfg} (h : wfCfgB c = true) : WfCfg c := by
  simp only [wfCfgB, Bool.and_eq_true, decide_eq_true_eq, List.all_eq_true, List.mem_range] at h
  refine ⟨h.1, ?_⟩
  intro j d hd
  by_cases hj : j < c.deps.length
  · exact h.2 j hj d hd
  · simp [Cfg.depsOf, List.getD_eq_getElem?_getD, List.getElem?_eq_none (Nat.le_of_not_lt hj)] at hd

/-- Induction over reachable states. -/
theorem run_induct {c : Cfg} (P : State → Prop)
    (hstep : ∀ s a s', P s → step c s a = some s' → P s') :
    ∀ (acts : List Act) (s s' : State), P s → run c s acts = some s' → P s' := by
  intro acts
  induction acts with
  | nil => intro s s' hp h; simp [run] at h; subst h; exact hp
  | cons a as ih =>
    intro s s' hp h
    simp only [run] at h
    cases hs : step c s a with
    | none => simp [hs] at h
    | some s1 =>
      simp [hs] at h
      exact ih s1 s' (hstep s a s1 hp hs) h

theorem reach_induct {c : Cfg} (P : State → Prop) (h0 : P (init c))
    (hstep : ∀ s a s', P s → step c s a = some s' → P s') :
    ∀ s, Reachable c s → P s := by
  intro s ⟨acts, h⟩
  exact run_induct P hstep acts _ _ h0 h

end Sched
