/-
  C03 "capacity is not lost": the scheduler is work-conserving.  Statement in terms of
  `W.isRunning` (Properties.lean); the proof is in `WorkConsCore.lean`.
-/
import CffVerif.Sched.WorkConsCore
import CffVerif.Properties

namespace Sched

theorem isRunning_eq_isRun : W.isRunning = W.isRun := by
  funext x; cases x <;> rfl

/-- **C03 "capacity not lost".** If a job is ready, fewer than `N` bodies are running, the context
    of the front ready job is live, that job is valid, and (fail-fast) nothing has failed so far
    nor is about to (`NothingFailed`), then the
    scheduler on its own — without any running body having to finish, without caller action, without
    the ticker — gets one more body running.  In ContinueOnError mode this holds after any number
    of failed, Goexit-ed or context-skipped jobs (the worker slot is restored by respawn). -/
theorem work_conserving (c : Cfg) (hw : c.wiring = Wiring.std) (hwf : WfCfg c) (acts : List Act) (s : State)
    (hr : run c (init c) acts = some s)
    (hsel : s.loop.phase = .select) (hready : s.loop.ready ≠ [])
    (hfree : (s.ws.filter W.isRunning).length < c.N)
    (hlive : ∀ j, s.loop.ready.head? = some j → s.cancelledCtx (c.ctxOfJob j) = false)
    (hvalid : ∀ j, s.loop.ready.head? = some j → (Loop.job s.loop j).invalid = false)
    (hnofail : c.coe = true ∨ NothingFailed c s) :
    ∃ (more : List Act) (s' : State), (∀ a ∈ more, a.isInternal = true) ∧ run c s more = some s' ∧
      (s.ws.filter W.isRunning).length < (s'.ws.filter W.isRunning).length := by
  simp only [← List.countP_eq_length_filter, isRunning_eq_isRun] at hfree ⊢
  exact work_conserving_core c hw hwf acts s hr hsel hready hfree hlive hvalid hnofail

/-- Non-vacuity: `N = 2`, ContinueOnError.  Job 0 failed and its result is still in flight in
    `donec`, job 1 is running, job 2 is ready: the hypotheses hold, and the scheduler's own steps
    (consume the result, dispatch, decide) start job 2 while job 1 keeps running. -/
example :
    let c : Cfg := { N := 2, coe := true, emit := false, deps := [[], [], []] }
    ∃ s, run c (init c)
      [.callerSend, .loopEnq, .callerSend, .loopEnq, .callerSend, .loopEnq,
       .loopDispatch 0, .loopDispatch 1, .workerDecide 0, .workerDecide 1,
       .workerEnd 0 (.fail 7) false, .workerPost 0] = some s
      ∧ wfCfgB c = true
      ∧ s.loop.phase = .select ∧ s.loop.ready = [2] ∧ s.ws = [.idle, .running 1] ∧ s.donec = [(0, .fail 7)]
      ∧ (s.ws.filter W.isRunning).length = 1 ∧ s.cancelledCtx 0 = false
      ∧ (Loop.job s.loop 2).invalid = false
      ∧ ∃ s', run c s [.loopResult, .loopDispatch 0, .workerDecide 0] = some s'
          ∧ s'.ws = [.running 2, .running 1] ∧ (s'.ws.filter W.isRunning).length = 2 := by
  decide

/-- Non-vacuity, fail-fast: `N = 2`, one body running, a successful result in flight, one job ready. -/
example :
    let c : Cfg := { N := 2, coe := false, emit := false, deps := [[], [], []] }
    ∃ s, run c (init c)
      [.callerSend, .loopEnq, .callerSend, .loopEnq, .callerSend, .loopEnq,
       .loopDispatch 0, .loopDispatch 1, .workerDecide 0, .workerDecide 1,
       .workerEnd 0 .ok false, .workerPost 0] = some s
      ∧ s.loop.phase = .select ∧ s.loop.ready = [2] ∧ s.ws = [.idle, .running 1] ∧ s.donec = [(0, .ok)]
      ∧ s.cancelledCtx 0 = false ∧ (s.log.all fun e => match e with | .ended _ o => o == .ok | _ => true) = true
      ∧ ∃ s', run c s [.loopResult, .loopDispatch 0, .workerDecide 0] = some s'
          ∧ s'.ws = [.running 2, .running 1] := by
  decide

/-- The fail-fast hypothesis "nothing has failed so far" is needed: with a failed result in flight the
    loop leaves its `for` when it consumes it, and the ready job 2 is never started although a
    worker is idle — no internal step sequence of length ≤ 3 from here raises the running count
    (the only enabled internal step is `loopResult`, after which only `loopDrain`/`loopClose` arms
    remain). -/
example :
    let c : Cfg := { N := 2, coe := false, emit := false, deps := [[], [], []] }
    ∃ s, run c (init c)
      [.callerSend, .loopEnq, .callerSend, .loopEnq, .callerSend, .loopEnq,
       .loopDispatch 0, .loopDispatch 1, .workerDecide 0, .workerDecide 1,
       .workerEnd 0 (.fail 7) false, .workerPost 0] = some s
      ∧ s.loop.phase = .select ∧ s.loop.ready = [2] ∧ s.ws = [.idle, .running 1]
      ∧ step c s (.loopDispatch 0) = none ∧ step c s (.loopDispatch 1) = none ∧ step c s .loopEnq = none ∧ step c s .loopEnqClosed = none
      ∧ step c s (.workerDecide 0) = none ∧ step c s (.workerPost 0) = none
      ∧ ∃ s1, step c s .loopResult = some s1 ∧ s1.loop.phase = .draining ∧ s1.loop.ready = [2]
          ∧ step c s1 (.loopDispatch 0) = none := by
  decide

/-- Non-vacuity with two contexts, ContinueOnError: `N = 2`, job 0 running, job 1 — enqueued with
    context 1, which is cancelled — held by the second worker, job 2 (context 0, live) ready.  The
    hypotheses hold (only the front ready job's context has to be live); the scheduler's own steps
    skip job 1, consume its `ctxErr`, and start job 2 while job 0 keeps running. -/
example :
    let c : Cfg := { N := 2, coe := true, emit := false, deps := [[], [], []], ctxOf := [0, 1, 0] }
    ∃ s, run c (init c)
      [.callerSend, .loopEnq, .callerSend, .loopEnq, .callerSend, .loopEnq,
       .loopDispatch 0, .workerDecide 0, .cancel 1, .loopDispatch 1] = some s
      ∧ wfCfgB c = true
      ∧ s.loop.phase = .select ∧ s.loop.ready = [2] ∧ s.ws = [.running 0, .holding 1]
      ∧ s.cancelledCtx (c.ctxOfJob 2) = false ∧ s.cancelledCtx (c.ctxOfJob 1) = true
      ∧ (Loop.job s.loop 2).invalid = false
      ∧ ∃ s', run c s [.workerDecide 1, .workerPost 1, .loopResult, .loopDispatch 1, .workerDecide 1] = some s'
          ∧ s'.ws = [.running 0, .running 2] ∧ s'.loop.err = [.ctxErr] := by
  decide

/-- The same state in fail-fast mode shows why `NothingFailed` asks for live contexts of the jobs
    workers hold: the front ready job's context is live and no body has failed, but the only
    enabled internal steps skip job 1 (`ctxErr`), post and consume that result — and the loop
    leaves its `for`; job 2 is never started although a worker is idle. -/
example :
    let c : Cfg := { N := 2, coe := false, emit := false, deps := [[], [], []], ctxOf := [0, 1, 0] }
    ∃ s, run c (init c)
      [.callerSend, .loopEnq, .callerSend, .loopEnq, .callerSend, .loopEnq,
       .loopDispatch 0, .workerDecide 0, .cancel 1, .loopDispatch 1] = some s
      ∧ s.loop.phase = .select ∧ s.loop.ready = [2] ∧ s.ws = [.running 0, .holding 1]
      ∧ s.cancelledCtx (c.ctxOfJob 2) = false
      ∧ (s.log.all fun e => match e with | .ended _ _ => false | .skipped _ _ => false | _ => true) = true
      ∧ step c s (.loopDispatch 0) = none ∧ step c s (.loopDispatch 1) = none ∧ step c s .loopEnq = none
      ∧ step c s .loopEnqClosed = none ∧ step c s .loopResult = none ∧ step c s (.workerPost 1) = none
      ∧ ∃ s1, run c s [.workerDecide 1, .workerPost 1] = some s1 ∧ s1.ws = [.running 0, .idle]
          ∧ step c s1 (.loopDispatch 1) = none
          ∧ ∃ s2, step c s1 .loopResult = some s2 ∧ s2.loop.phase = .draining ∧ s2.loop.ready = [2]
              ∧ s2.loop.err = [.ctxErr] ∧ step c s2 (.loopDispatch 1) = none := by
  decide

end Sched
