/-
  Inversion lemmas: what `step c s a = some s'` says for each action, under standard wiring.
-/
import CffVerif.Sched.Basic

namespace Sched

variable {c : Cfg} {s s' : State}

theorem inv_callerSend (h : step c s .callerSend = some s') :
    s.caller.closed = false ∧ s.caller.ret = none ∧ s.caller.sent < c.deps.length ∧ s.enq = [] ∧
    s' = addLog { s with enq := s.enq ++ [s.caller.sent], caller := { s.caller with sent := s.caller.sent + 1 } }
          (.sent s.caller.sent) := by
  simp only [step] at h
  split at h
  · next hc =>
    simp at h hc
    obtain ⟨⟨⟨h1, h2⟩, h3⟩, h4⟩ := hc
    exact ⟨h1, h2, h3, h4, h.symm⟩
  · simp at h

theorem inv_callerClose (h : step c s .callerClose = some s') :
    s.caller.closed = false ∧ s.caller.ret = none ∧
    s' = { s with caller := { s.caller with closed := true } } := by
  simp only [step] at h
  split at h
  · next hc => simp at h hc; exact ⟨hc.1, hc.2, h.symm⟩
  · simp at h

theorem inv_callerRetCtx (hw : c.wiring = Wiring.std) (h : step c s .callerRetCtx = some s') :
    s.caller.closed = true ∧ s.caller.ret = none ∧ s.cancelledCtx c.waitCtx = true ∧
    s' = addLog { s with caller := { s.caller with ret := some [.ctxErr] } } (.waitReturned [.ctxErr]) := by
  simp only [step, hw, Wiring.std] at h
  split at h
  · next hc => simp at h hc; exact ⟨hc.1.1, hc.1.2, hc.2, h.symm⟩
  · simp at h

def retVal (c : Cfg) (s : State) : List Res :=
  if s.loop.err.isEmpty then (if s.cancelledCtx c.waitCtx then [.ctxErr] else []) else s.loop.err

theorem inv_callerRetFin (h : step c s .callerRetFin = some s') :
    s.caller.closed = true ∧ s.caller.ret = none ∧ s.loop.phase = .exited ∧
    s' = addLog { s with caller := { s.caller with ret := some (retVal c s) } } (.waitReturned (retVal c s)) := by
  simp only [step] at h
  split at h
  · next hc => simp at h hc; exact ⟨hc.1.1, hc.1.2, hc.2, by rw [← h]; simp [retVal]⟩
  · simp at h

theorem inv_loopEnq (h : step c s .loopEnq = some s') :
    ∃ j rest, s.loop.phase = .select ∧ s.loop.enqNil = false ∧ s.enq = j :: rest ∧
    s' = addLog { s with enq := rest, loop := Loop.exitCheck (Loop.enq c s.loop j) } (.registered j) := by
  simp only [step] at h
  split at h
  · next j rest h1 h2 h3 => simp at h; exact ⟨j, rest, h1, h2, h3, h.symm⟩
  · simp at h

theorem inv_loopEnqClosed (h : step c s .loopEnqClosed = some s') :
    s.loop.phase = .select ∧ s.loop.enqNil = false ∧ s.enq = [] ∧ s.caller.closed = true ∧
    s' = { s with loop := Loop.exitCheck (Loop.closed s.loop) } := by
  simp only [step] at h
  split at h
  · next h1 h2 h3 h4 => simp at h; exact ⟨h1, h2, h3, h4, h.symm⟩
  · simp at h

theorem inv_loopDispatch {w : Nat} (h : step c s (.loopDispatch w) = some s') :
    ∃ j l, s.loop.phase = .select ∧ s.ws[w]? = some .idle ∧ Loop.dispatch c s.loop = some (j, l) ∧
    s' = addLog (setW { s with loop := Loop.exitCheck l } w (.holding j)) (.dispatched j) := by
  simp only [step] at h
  split at h
  · next j l h1 h2 h3 => simp at h; exact ⟨j, l, h1, h2, h3, h.symm⟩
  · simp at h

theorem inv_loopResult (h : step c s .loopResult = some s') :
    ∃ j r rest, s.loop.phase = .select ∧ s.donec = (j, r) :: rest ∧
    s' = { s with donec := rest, loop := Loop.exitCheck (Loop.result c s.loop j r),
                  log := s.log ++ [.resultSeen j r] ++
                    (if r.isErr && c.coe then invalidWrites (Loop.job s.loop j).consumers else []) } := by
  simp only [step] at h
  split at h
  · next j r rest h1 h2 => simp at h; exact ⟨j, r, rest, h1, h2, by rw [← h]; simp⟩
  · simp at h

theorem inv_loopTick (h : step c s .loopTick = some s') :
    s.loop.phase = .select ∧ c.emit = true ∧
    s' = addLog { s with loop := Loop.exitCheck s.loop } (.report (Loop.report c s.loop)) := by
  simp only [step] at h
  split at h
  · next hc => simp at h hc; exact ⟨hc.1, hc.2, h.symm⟩
  · simp at h

theorem inv_loopDrain (hw : c.wiring = Wiring.std) (h : step c s .loopDrain = some s') :
    ∃ j rest, s.loop.phase = .draining ∧ s.enq = j :: rest ∧ s' = { s with enq := rest } := by
  simp only [step, hw, Wiring.std] at h
  split at h
  · next j rest h1 h2 => simp at h; exact ⟨j, rest, h1, h2, h.symm⟩
  · simp at h

theorem inv_loopClose (hw : c.wiring = Wiring.std) (h : step c s .loopClose = some s') :
    s.loop.phase = .draining ∧ s.enq = [] ∧ s.caller.closed = true ∧
    s' = addLog { s with loop := { s.loop with phase := .exited } } .loopExit := by
  simp only [step, hw, Wiring.std] at h
  split at h
  · next hc => simp at h hc; exact ⟨hc.1, hc.2.1, hc.2.2, h.symm⟩
  · simp at h

theorem inv_workerDecide (hw : c.wiring = Wiring.std) {w : Nat} (h : step c s (.workerDecide w) = some s') :
    ∃ j, s.ws[w]? = some (.holding j) ∧
      ((s.cancelledCtx (c.ctxOfJob j) = true ∧ s' = addLog (setW s w (.posting j .ctxErr)) (.skipped j .ctx)) ∨
       (s.cancelledCtx (c.ctxOfJob j) = false ∧ (Loop.job s.loop j).invalid = true ∧
          s' = addLog (setW s w (.posting j .invalid)) (.skipped j .invalid)) ∨
       (s.cancelledCtx (c.ctxOfJob j) = false ∧ (Loop.job s.loop j).invalid = false ∧
          s' = addLog (setW s w (.running j)) (.started j))) := by
  simp only [step, hw, Wiring.std] at h
  split at h
  · next j hj =>
    refine ⟨j, hj, ?_⟩
    by_cases hc : s.cancelledCtx (c.ctxOfJob j) = true
    · simp [hc] at h; exact Or.inl ⟨hc, h.symm⟩
    · have hc' : s.cancelledCtx (c.ctxOfJob j) = false := by simpa using hc
      by_cases hi : (Loop.job s.loop j).invalid = true
      · simp [hc', hi] at h; exact Or.inr (Or.inl ⟨hc', hi, h.symm⟩)
      · have hi' : (Loop.job s.loop j).invalid = false := by simpa using hi
        simp [hc', hi'] at h; exact Or.inr (Or.inr ⟨hc', hi', h.symm⟩)
  · simp at h

/-- The state right after the body of `j` ended with outcome `o` (and possibly cancelled its
    own context). -/
def afterBody (c : Cfg) (s : State) (j : Nat) (o : Outcome) (cancel : Bool) : State :=
  if cancel && !s.cancelledCtx (c.ctxOfJob j)
  then addLog ((addLog s (.ended j o)).cancelCtx (c.ctxOfJob j)) (.cancelled (c.ctxOfJob j))
  else addLog s (.ended j o)

theorem inv_workerEnd {w : Nat} {o : Outcome} {cancel : Bool} (h : step c s (.workerEnd w o cancel) = some s') :
    ∃ j, s.ws[w]? = some (.running j) ∧
      s' = setW (afterBody c s j o cancel) w (if o = .goexit then .dying j else .posting j (outcomeRes o)) := by
  simp only [step] at h
  split at h
  · next j hj =>
    refine ⟨j, hj, ?_⟩
    have e : (if (cancel && !(addLog s (Ev.ended j o)).cancelledCtx (c.ctxOfJob j)) = true
        then addLog ((addLog s (Ev.ended j o)).cancelCtx (c.ctxOfJob j)) (Ev.cancelled (c.ctxOfJob j))
        else addLog s (Ev.ended j o)) = afterBody c s j o cancel := by
      simp [afterBody]
    rw [e] at h
    cases o <;> simp at h <;> simp [h.symm]
  · simp at h

theorem inv_workerPost {w : Nat} (h : step c s (.workerPost w) = some s') :
    ∃ j r, s.ws[w]? = some (.posting j r) ∧ s.donec.length < c.capDone ∧
      s' = setW { s with donec := s.donec ++ [(j, r)] } w .idle := by
  simp only [step] at h
  split at h
  · next j r hj =>
    split at h
    · next hc => simp at h; exact ⟨j, r, hj, hc, h.symm⟩
    · simp at h
  · simp at h

theorem inv_workerDiePost (hw : c.wiring = Wiring.std) {w : Nat} (h : step c s (.workerDiePost w) = some s') :
    ∃ j, s.ws[w]? = some (.dying j) ∧ s.donec.length < c.capDone ∧
      s' = setW { s with donec := s.donec ++ [(j, .exitErr)] } w .idle := by
  simp only [step, hw, Wiring.std] at h
  split at h
  · next j hj =>
    split at h
    · next hc => simp at h; exact ⟨j, hj, hc, h.symm⟩
    · simp at h
  · simp at h

theorem inv_workerExit {w : Nat} (h : step c s (.workerExit w) = some s') :
    s.ws[w]? = some .idle ∧ s.loop.phase = .exited ∧ s' = setW s w .exited := by
  simp only [step] at h
  split at h
  · next hj =>
    split at h
    · next hc => simp at h hc; exact ⟨hj, hc, h.symm⟩
    · simp at h
  · simp at h

theorem inv_cancel {x : Nat} (h : step c s (.cancel x) = some s') :
    s.cancelledCtx x = false ∧ x ∈ c.ctxs ∧ s' = addLog (s.cancelCtx x) (.cancelled x) := by
  simp only [step] at h
  split at h
  · next hc => simp at h hc; exact ⟨hc.1, hc.2, h.symm⟩
  · simp at h

/-- `afterBody` only appends to the log and (possibly) cancels the job's own context. -/
theorem afterBody_frame (c : Cfg) (s : State) (j : Nat) (o : Outcome) (cancel : Bool) :
    (afterBody c s j o cancel).loop = s.loop ∧ (afterBody c s j o cancel).ws = s.ws ∧
    (afterBody c s j o cancel).donec = s.donec ∧ (afterBody c s j o cancel).enq = s.enq ∧
    (afterBody c s j o cancel).caller = s.caller := by
  unfold afterBody; split <;> simp

/-- The log after `afterBody`: the `ended` event and possibly a `cancelled` one. -/
theorem afterBody_log (c : Cfg) (s : State) (j : Nat) (o : Outcome) (cancel : Bool) :
    (afterBody c s j o cancel).log = s.log ++ [Ev.ended j o] ∨
    (afterBody c s j o cancel).log = s.log ++ [Ev.ended j o, Ev.cancelled (c.ctxOfJob j)] := by
  unfold afterBody; split <;> simp

/-- Cancellation is monotone across `afterBody`. -/
theorem afterBody_cancelledCtx_mono (c : Cfg) (s : State) (j : Nat) (o : Outcome) (cancel : Bool)
    (x : Nat) (h : s.cancelledCtx x = true) : (afterBody c s j o cancel).cancelledCtx x = true := by
  unfold afterBody; split
  · simp [cancelCtx_cancelledCtx, h]
  · simpa using h

end Sched
