/-
  C12 — data-race freedom of the scheduler under the Go memory model.

  `Own.lean` proves an OWNERSHIP discipline for the model (only the loop changes `s.loop`, ...).
  This file formalises the step from there to "no data race":

  * `Thread`, `Act.thread`        — which goroutine executes an action (§1);
  * `Loc`, `Access`, `accesses`   — the memory locations of `scheduler/scheduler.go`, field by
                                    field, and what the goroutine executing an action reads and
                                    writes, transcribed from the source (§2);
  * `Msg`, `rel`, `acq`, `edgeB`, `HB`, `hb`
                                  — the synchronisation edges of the Go memory model (program
                                    order; a channel send → the receive of that value; a close →
                                    a receive that observes it; the rendezvous on the unbuffered
                                    `readyc`) on the positions of a run, and their
                                    reflexive-transitive closure, *happens-before* (§3);
                                    `hbB` decides it; `Race.rel_unique`: a message identifies its
                                    send (§11);
  * `C12_race_free`               — in every run of the standard scheduler any two conflicting
                                    accesses (same location, at least one a write, different
                                    goroutines) are ordered by happens-before: the Go memory
                                    model's definition of "no data race" (§10; Bool form,
                                    a worked example and a mutated table that DOES race in §12);
  * `accessTable`                 — the accesses of the model in the vocabulary of the facts
                                    extracted from the source, and the obligations comparing
                                    the two (§13).

  A *position* of a run `acts` is an index `i`; the state reached before it is
  `stAt c acts i = run c (init c) (acts.take i)`.

  The statements of `scheduler/scheduler.go` an access transcribes are quoted literally next to it
  (line numbers would churn).  Verification hooks (`if verifOn { … }`) are treated as absent.

  Scope.  The locations are the fields of `ScheduledJob` and `Scheduler`, the locals of `run`
  and the package variable `errJobInvalid`.  Not modelled, because no scheduler code touches
  them unsynchronised: the inside of a `context.Context` (`j.ctx.Err()` synchronises
  internally), channel buffers (channels are the synchronisation primitive), the `jobResult`
  values (copied through `donec`), the locals of `worker`, `Enqueue`, `Wait`.  What a job body
  `j.run` touches is the generated code's business (`Gen.C12_var_ownership`).  The model starts
  when `Config.New` has returned: the `Scheduler`'s composite literal precedes the `go`
  statements that start the loop and the workers.
-/
import CffVerif.Sched.Own
import CffVerif.Sched.Prompt

namespace Sched

open Loop

/-! ## 1. Threads -/

/-- The goroutines of the model.  `worker w` is the worker SLOT `w`: a worker that dies
    (`runtime.Goexit` in a job) starts its replacement with `go worker(readyc, donec)` in its
    deferred function; the `go` statement happens-before the start of the new goroutine, so the
    successive goroutines of a slot are totally ordered and are treated as one thread.
    `env` is whoever cancels contexts. -/
inductive Thread where
  | caller
  | loop
  | worker (w : Nat)
  | env
  deriving DecidableEq, Repr

def Act.thread : Act → Thread
  | .callerSend | .callerClose | .callerRetCtx | .callerRetFin => .caller
  | .loopEnq | .loopEnqClosed | .loopDispatch _ | .loopResult | .loopTick | .loopDrain | .loopClose => .loop
  | .workerDecide w | .workerEnd w _ _ | .workerPost w | .workerDiePost w | .workerExit w => .worker w
  | .cancel _ => .env

/-! ## 2. Locations and accesses -/

/-- The fields of `ScheduledJob`.  A slice-typed field (`deps`, `consumers`) stands for the slice
    header together with its backing array (`deps` shares the array of the caller's
    `Job.Dependencies`, built before `Enqueue` is called; `append` to `consumers` writes the
    array). -/
inductive JField where
  | ctx | run | deps                                  -- set by `Enqueue`, read-only afterwards
  | remaining | consumers | done | err | invalid      -- the loop's bookkeeping
  deriving DecidableEq, Repr

/-- The fields of `Scheduler` that are set by `Config.New`'s composite literal and never assigned
    afterwards (`err` is `Loc.serr`). -/
inductive SField where
  | finishedc | enqueuec | readyc | donec | concurrency | continueOnError
  deriving DecidableEq, Repr

/-- Memory locations.  Job `k` is the `ScheduledJob` allocated by the `k`-th `Enqueue` call. -/
inductive Loc where
  | job (f : JField) (k : Nat)     -- field `f` of job `k`
  | serr                           -- `Scheduler.err`
  | sfield (f : SField)            -- the immutable fields of `Scheduler`
  | loopLocal                      -- locals of `run`: `ready`, `ongoing`, `pending`, `waiting`, `enqueuec`
  | sentinel                       -- the package variable `errJobInvalid`
  deriving DecidableEq, Repr

@[match_pattern] abbrev Loc.jctx (k : Nat) : Loc := .job .ctx k
@[match_pattern] abbrev Loc.jrun (k : Nat) : Loc := .job .run k
@[match_pattern] abbrev Loc.jdeps (k : Nat) : Loc := .job .deps k
@[match_pattern] abbrev Loc.remaining (k : Nat) : Loc := .job .remaining k
@[match_pattern] abbrev Loc.consumers (k : Nat) : Loc := .job .consumers k
@[match_pattern] abbrev Loc.done (k : Nat) : Loc := .job .done k
@[match_pattern] abbrev Loc.jerr (k : Nat) : Loc := .job .err k
@[match_pattern] abbrev Loc.invalid (k : Nat) : Loc := .job .invalid k

structure Access where
  loc : Loc
  write : Bool
  deriving DecidableEq, Repr

def rd (l : Loc) : Access := ⟨l, false⟩
def wr (l : Loc) : Access := ⟨l, true⟩

/-- Top of the body of `for { … }` in `run`, common to every arm of the `select`:
    `readyc := s.readyc`; `if ready.Len() > 0 && ongoing < s.concurrency` (short-circuit: the
    second operand only when the ready list is non-empty); the operand `s.donec` of the result
    arm (the other operands, `enqueuec` and `tickerC`, are locals).
    The model has no action for the prologue of `run`, which is executed once before the first
    iteration: `defer close(s.finishedc)` and `defer close(s.readyc)` (the operand of a deferred
    call is evaluated when the `defer` statement executes) and `enqueuec := s.enqueuec`.  Its three
    reads are attributed to every iteration. -/
def loopIter (s : State) : List Access :=
  [rd (.sfield .finishedc),                           -- `defer close(s.finishedc)` (prologue)
   rd (.sfield .readyc),                              -- `defer close(s.readyc)` (prologue)
   rd (.sfield .enqueuec),                            -- `enqueuec := s.enqueuec` (prologue)
   rd (.sfield .readyc),                              -- `readyc := s.readyc`
   rd .loopLocal] ++                                  -- `ready.Len() > 0`
  (if s.loop.ready.isEmpty then [] else
    [rd (.sfield .concurrency)]) ++                   -- `ongoing < s.concurrency`
  [rd (.sfield .donec)]                               -- `case res := <-s.donec`

/-- Bottom of the body: `if pending == 0 && enqueuec == nil { return }`. -/
def loopBottom : List Access := [rd .loopLocal]

/-- One iteration of `for _, dep := range job.deps { … }` of the enqueue arm, for the job `m`
    being registered and its dependency `d` (the `done`/`err` of `d` do not change during the
    loop, so they are read off the state before the action). -/
def enqDepAcc (l : LoopSt) (m d : Nat) : List Access :=
  rd (.done d) ::                                     -- `if dep.done {`
  (if (job l d).done then
    rd (.jerr d) ::                                   -- `if dep.err != nil {`
    (if (job l d).failed then [wr (.invalid m)]       -- `job.invalid = true`
     else [])
   else
    [rd (.consumers d), wr (.consumers d),            -- `dep.consumers = append(dep.consumers, job)`
     rd (.remaining m), wr (.remaining m)])           -- `job.remaining++`

/-- `for _, consumer := range job.consumers { consumer.remaining--; if consumer.remaining == 0 {
    waiting--; ready.PushBack(consumer) } }` of the result arm, for the finished job `j` with
    consumers `cs`. -/
def notifyAcc (j : Nat) (cs : List Nat) : List Access :=
  rd (.consumers j) ::                                -- `range job.consumers`
  cs.flatMap (fun k =>
    [rd (.remaining k), wr (.remaining k),            -- `consumer.remaining--`
     rd (.remaining k),                               -- `if consumer.remaining == 0`
     wr .loopLocal])                                  -- `waiting--; ready.PushBack(consumer)`

/-- The result arm `case res := <-s.donec:` for `res = {Job: j, Err: r}`. -/
def resultAcc (c : Cfg) (l : LoopSt) (j : Nat) (r : Res) : List Access :=
  let cs := (job l j).consumers
  [wr (.done j),                                      -- `job.done = true`
   wr .loopLocal] ++                                  -- `pending--; ongoing--`
  (if r.isErr then                                    -- `if err := res.Err; err != nil {`
    [wr (.jerr j),                                    -- `job.err = err`
     rd (.sfield .continueOnError)] ++                -- `if !s.continueOnError {`
    (if !c.coe then
      [wr .serr]                                      -- `s.err = err; return`
     else
      [rd .sentinel] ++                               -- `errors.Is(err, errJobInvalid)`
      (if r == .invalid then [] else
        [rd .serr, wr .serr]) ++                      -- `s.err = multierr.Append(s.err, err)`
      [rd (.consumers j)] ++                          -- `range job.consumers`
      cs.map (fun k => wr (.invalid k)) ++            -- `consumer.invalid = true`
      notifyAcc j cs ++ loopBottom)
   else notifyAcc j cs ++ loopBottom)

/-- What the goroutine executing action `a` in state `s` reads and writes.  (For an action that
    is not enabled in `s` the value is irrelevant.)  The code transcribed is the real one, i.e.
    `Wiring.std`. -/
def accesses (c : Cfg) (s : State) : Act → List Access
  /- `Enqueue`: `pj := &ScheduledJob{ctx: ctx, run: j.Run, deps: j.Dependencies}` allocates job
     `k` — the three named fields are written, the other five are written with their zero value
     ("the initialization of a variable with the zero value behaves as a write") —
     then `s.enqueuec <- pj`.  (`j Job` is a by-value parameter.) -/
  | .callerSend =>
    let k := s.caller.sent
    [wr (.jctx k), wr (.jrun k), wr (.jdeps k),
     wr (.remaining k), wr (.consumers k), wr (.done k), wr (.jerr k), wr (.invalid k),
     rd (.sfield .enqueuec)]                          -- `s.enqueuec <- pj`
  /- `Wait`: `close(s.enqueuec)` -/
  | .callerClose => [rd (.sfield .enqueuec)]
  /- `Wait`: `select { case <-ctx.Done(): return ctx.Err()` — the select evaluates the operand
     `s.finishedc` of its other arm on entry. -/
  | .callerRetCtx => [rd (.sfield .finishedc)]
  /- `Wait`: `case <-s.finishedc: err := s.err` -/
  | .callerRetFin => [rd (.sfield .finishedc), rd .serr]
  /- enqueue arm, `ok = true` -/
  | .loopEnq =>
    match s.enq with
    | m :: _ =>
      loopIter s ++
      [rd (.jdeps m)] ++                              -- `range job.deps`
      (c.depsOf m).flatMap (enqDepAcc s.loop m) ++
      [wr .loopLocal,                                 -- `pending++`
       rd (.remaining m),                             -- `if job.remaining == 0`
       wr .loopLocal] ++                              -- `ready.PushBack(job)` / `waiting++`
      loopBottom
    | [] => []
  /- enqueue arm, `ok = false`: `enqueuec = nil` -/
  | .loopEnqClosed => loopIter s ++ [wr .loopLocal] ++ loopBottom
  /- dispatch arm: `case readyc <- next: ready.Remove(nextEl); ongoing++` (`next` is a pointer
     taken from the ready list; no field of the job is touched) -/
  | .loopDispatch _ => loopIter s ++ [rd .loopLocal, wr .loopLocal] ++ loopBottom
  /- result arm -/
  | .loopResult =>
    match s.donec with
    | (j, r) :: _ => loopIter s ++ resultAcc c s.loop j r
    | [] => []
  /- ticker arm: `emitter.Emit(State{Pending: pending, Ready: ready.Len(), Waiting: waiting,
     IdleWorkers: idleWorkers(s.concurrency, ongoing), Concurrency: s.concurrency})` -/
  | .loopTick => loopIter s ++ [rd .loopLocal, rd (.sfield .concurrency)] ++ loopBottom
  /- deferred `for range s.enqueuec {}`: one value received -/
  | .loopDrain => [rd (.sfield .enqueuec)]
  /- the deferred functions run to their end: `for range s.enqueuec {}` sees the channel closed;
     then `close(readyc)`, `close(finishedc)` on the channels saved by the `defer` statements -/
  | .loopClose => [rd (.sfield .enqueuec)]
  /- worker, after `for j := range readyc`:
     `if err := j.ctx.Err(); err != nil {…} else if j.invalid { res.Err = errJobInvalid } else
     { res.Err = j.run(j.ctx) }` -/
  | .workerDecide w =>
    match s.ws[w]? with
    | some (.holding k) =>
      rd (.jctx k) ::                                 -- `j.ctx.Err()`
      (if s.cancelledCtx (c.ctxOfJob k) then []
       else
        rd (.invalid k) ::                            -- `else if j.invalid`
        (if (job s.loop k).invalid then
          [rd .sentinel]                              -- `res.Err = errJobInvalid`
         else
          [rd (.jrun k), rd (.jctx k)]))              -- `j.run(j.ctx)`
    | _ => []
  /- the rest of the worker works on its locals `res`, `currentJob`, `exitCleanly` and its
     parameters `readyc`, `donec`; `jobResult` travels by value -/
  | .workerEnd _ _ _ => []
  | .workerPost _ => []
  | .workerDiePost _ => []
  | .workerExit _ => []
  /- cancellation of a context: `context` synchronises internally; no scheduler memory -/
  | .cancel _ => []

/-! ## 3. Happens-before -/

/-- The state reached before position `i` of the run `acts`. -/
def stAt (c : Cfg) (acts : List Act) (i : Nat) : Option State := run c (init c) (acts.take i)

/-- What is communicated over the channels, identified so that a receive names the send it
    receives from (`Race.rel_unique` below proves that each message is released at one position
    of a run only, so "released at `i`, acquired at `j > i`" pairs a receive with THE send whose
    value it gets):
    * `enq k`      — the value `pj` of job `k` on `enqueuec`.  Job ids are the caller's running
                     count of `Enqueue` calls (`CallerSt.sent`); `State.enq` is the channel's
                     FIFO buffer, a receive (`loopEnq`, or `loopDrain` in the deferred
                     `for range s.enqueuec {}`) takes its head.
    * `enqClosed`  — `close(s.enqueuec)` in `Wait`.  Observed by the enqueue arm with `ok = false`
                     (`loopEnqClosed`) and by the deferred `for range s.enqueuec {}` when it
                     terminates, which the model folds into `loopClose` (its guard is
                     `s.enq.isEmpty && s.caller.closed`).
    * `done k`     — the `jobResult` of job `k` on `donec` (`State.donec` is the FIFO buffer, the
                     result arm takes its head; a job is handed out once, so it is posted once).
    * `loopExited` — `close(s.readyc); close(s.finishedc)` by the deferred calls of `run`;
                     observed by `Wait`'s `case <-s.finishedc` and by a worker's `range readyc`
                     terminating. -/
inductive Msg where
  | enq (k : Nat)
  | enqClosed
  | done (k : Nat)
  | loopExited
  deriving DecidableEq, Repr

/-- The sends / closes an action performs (in the state before it). -/
def rel (s : State) : Act → List Msg
  | .callerSend => [.enq s.caller.sent]               -- `s.enqueuec <- pj`
  | .callerClose => [.enqClosed]                      -- `close(s.enqueuec)`
  | .workerPost w =>                                  -- `donec <- res`
    match s.ws[w]? with
    | some (.posting k _) => [.done k]
    | _ => []
  | .workerDiePost w =>                               -- `donec <- jobResult{Job: currentJob, …}`
    match s.ws[w]? with
    | some (.dying k) => [.done k]
    | _ => []
  | .loopClose => [.loopExited]                       -- `close(s.readyc)`, `close(s.finishedc)`
  | _ => []

/-- The receives an action performs / the closes it observes (in the state before it). -/
def acq (s : State) : Act → List Msg
  | .loopEnq | .loopDrain =>                          -- `case job, ok := <-enqueuec` / `range s.enqueuec`
    match s.enq with
    | k :: _ => [.enq k]
    | [] => []
  | .loopEnqClosed => [.enqClosed]                    -- `job, ok := <-enqueuec` with `!ok`
  | .loopClose => [.enqClosed]                        -- `for range s.enqueuec {}` terminates
  | .loopResult =>                                    -- `case res := <-s.donec`
    match s.donec with
    | (k, _) :: _ => [.done k]
    | [] => []
  | .callerRetFin => [.loopExited]                    -- `case <-s.finishedc`
  | .workerExit _ => [.loopExited]                    -- `for j := range readyc` terminates
  | _ => []

/-- `edgeB c acts i j`: position `i` *synchronises before* position `j > i` by one rule of the
    Go memory model:
    * program order: same goroutine (not `env`, which is not one goroutine);
    * `loopDispatch w` is the rendezvous on the unbuffered `readyc` — the loop's send and worker
      `w`'s receive; the send happens-before the completion of the receive, which is sequenced
      before everything worker `w` does later;
    * a send (close) on a channel happens-before the completion of the receive that receives
      that value (that observes the close): some `Msg` released at `i` is acquired at `j`. -/
def edgeB (c : Cfg) (acts : List Act) (i j : Nat) : Bool :=
  decide (i < j) &&
  match acts[i]?, acts[j]?, stAt c acts i, stAt c acts j with
  | some a, some b, some si, some sj =>
    (a.thread == b.thread && a.thread != .env)
    || (match a with
        | .loopDispatch w => b.thread == .worker w
        | _ => false)
    || (rel si a).any (fun m => (acq sj b).contains m)
  | _, _, _, _ => false

/-- Reflexive-transitive closure of the synchronisation edges. -/
inductive HB (c : Cfg) (acts : List Act) : Nat → Nat → Prop where
  | refl (i : Nat) : HB c acts i i
  | tail {i j k : Nat} : HB c acts i j → edgeB c acts j k = true → HB c acts i k

/-- Happens-before on the positions of a run. -/
def hb (c : Cfg) (acts : List Act) (i j : Nat) : Prop := HB c acts i j

theorem HB.single {c : Cfg} {acts : List Act} {i j : Nat} (h : edgeB c acts i j = true) : HB c acts i j :=
  .tail (.refl i) h

theorem HB.trans {c : Cfg} {acts : List Act} {i j k : Nat} (h1 : HB c acts i j) (h2 : HB c acts j k) :
    HB c acts i k := by
  induction h2 with
  | refl => exact h1
  | tail _ e ih => exact .tail ih e

theorem edgeB_lt {c : Cfg} {acts : List Act} {i j : Nat} (h : edgeB c acts i j = true) : i < j := by
  simp only [edgeB, Bool.and_eq_true, decide_eq_true_eq] at h; exact h.1

theorem HB.le {c : Cfg} {acts : List Act} {i j : Nat} (h : HB c acts i j) : i ≤ j := by
  induction h with
  | refl => exact Nat.le_refl _
  | tail _ e ih => exact Nat.le_trans ih (Nat.le_of_lt (edgeB_lt e))

/-! ### a decision procedure for `hb` (edges only go forward, so one pass suffices) -/

/-- The positions among `i, …, i+n` reachable from `i`. -/
def reachList (c : Cfg) (acts : List Act) (i : Nat) : Nat → List Nat
  | 0 => [i]
  | n + 1 =>
    let r := reachList c acts i n
    if r.any (fun m => edgeB c acts m (i + n + 1)) then (i + n + 1) :: r else r

def hbB (c : Cfg) (acts : List Act) (i j : Nat) : Bool :=
  decide (i ≤ j) && (reachList c acts i (j - i)).contains j

theorem reachList_sound {c : Cfg} {acts : List Act} {i : Nat} :
    ∀ n k, k ∈ reachList c acts i n → HB c acts i k := by
  intro n
  induction n with
  | zero => intro k hk; simp [reachList] at hk; subst hk; exact .refl _
  | succ n ih =>
    intro k hk
    simp only [reachList] at hk
    split at hk
    · next hany =>
      rcases List.mem_cons.mp hk with rfl | hk
      · obtain ⟨m, hm, he⟩ := List.any_eq_true.mp hany
        exact .tail (ih m hm) he
      · exact ih k hk
    · exact ih k hk

theorem reachList_mono {c : Cfg} {acts : List Act} {i k : Nat} :
    ∀ n m, n ≤ m → k ∈ reachList c acts i n → k ∈ reachList c acts i m := by
  intro n m hnm
  induction hnm with
  | refl => exact id
  | step _ ih =>
    intro hk
    simp only [reachList]
    split
    · exact List.mem_cons_of_mem _ (ih hk)
    · exact ih hk

theorem reachList_complete {c : Cfg} {acts : List Act} {i k : Nat} (h : HB c acts i k) :
    k ∈ reachList c acts i (k - i) := by
  induction h with
  | refl => simp [reachList]
  | @tail j k hij e ih =>
    have hjk := edgeB_lt e
    have hle := hij.le
    have hj : j ∈ reachList c acts i (k - i - 1) := reachList_mono _ _ (by omega) ih
    have hk : k - i = (k - i - 1) + 1 := by omega
    rw [hk]
    simp only [reachList]
    have e' : i + (k - i - 1) + 1 = k := by omega
    rw [e']
    have : (reachList c acts i (k - i - 1)).any (fun m => edgeB c acts m k) = true :=
      List.any_eq_true.mpr ⟨j, hj, e⟩
    simp [this]

theorem hbB_iff {c : Cfg} {acts : List Act} {i j : Nat} : hbB c acts i j = true ↔ hb c acts i j := by
  constructor
  · intro h
    simp only [hbB, Bool.and_eq_true, decide_eq_true_eq, List.contains_iff_mem] at h
    exact reachList_sound _ _ h.2
  · intro h
    simp only [hbB, Bool.and_eq_true, decide_eq_true_eq, List.contains_iff_mem]
    exact ⟨HB.le h, reachList_complete h⟩

instance (c : Cfg) (acts : List Act) (i j : Nat) : Decidable (hb c acts i j) :=
  decidable_of_iff _ hbB_iff

/-! ## 4. Conflicts -/

/-- Positions `i` and `j` of the run perform conflicting accesses (w.r.t. the access table
    `acc`): executed by different threads, to the same location, at least one a write. -/
def conflictB (acc : Cfg → State → Act → List Access) (c : Cfg) (acts : List Act) (i j : Nat) : Bool :=
  match acts[i]?, acts[j]?, stAt c acts i, stAt c acts j with
  | some a, some b, some si, some sj =>
    a.thread != b.thread &&
    (acc c si a).any (fun x => (acc c sj b).any (fun y => x.loc == y.loc && (x.write || y.write)))
  | _, _, _, _ => false

/-! Helper lemmas (sections 5–9, 11) live in `Sched.Race`. -/
namespace Race

/-! ## 5. Positions of a run -/

section Positions

variable {c : Cfg} {acts : List Act}

theorem stAt_zero : stAt c acts 0 = some (init c) := by simp [stAt, run]

theorem stAt_succ {p : Nat} {a : Act} (ha : acts[p]? = some a) :
    stAt c acts (p + 1) = (stAt c acts p).bind (fun s => step c s a) := by
  unfold stAt
  rw [List.take_add_one, ha, P3.run_append]
  cases run c (init c) (List.take p acts) with
  | none => rfl
  | some u => simp [run]

/-- Every prefix of a successful run is a successful run. -/
theorem stAt_isSome {s : State} (hrun : run c (init c) acts = some s) (p : Nat) :
    ∃ sp, stAt c acts p = some sp := by
  have h := P3.run_append c (acts.take p) (acts.drop p) (init c)
  rw [List.take_append_drop, hrun] at h
  unfold stAt
  cases hp : run c (init c) (List.take p acts) with
  | none => rw [hp] at h; simp at h
  | some u => exact ⟨u, rfl⟩

/-- The step taken at a position of a successful run. -/
theorem pos_step {s : State} (hrun : run c (init c) acts = some s) {p : Nat} {a : Act} {sp : State}
    (ha : acts[p]? = some a) (hs : stAt c acts p = some sp) :
    ∃ sp', step c sp a = some sp' ∧ stAt c acts (p + 1) = some sp' := by
  obtain ⟨sp', h'⟩ := stAt_isSome hrun (p + 1)
  have := stAt_succ (c := c) ha
  rw [hs, h'] at this
  exact ⟨sp', by simpa using this.symm, h'⟩

theorem stAt_run {p p' : Nat} {sp : State} (hpp : p ≤ p') (h : stAt c acts p = some sp) :
    stAt c acts p' = run c sp ((acts.take p').drop p) := by
  have e : acts.take p' = acts.take p ++ (acts.take p').drop p := by
    have := (List.take_append_drop p (acts.take p')).symm
    rwa [List.take_take, Nat.min_eq_left hpp] at this
  unfold stAt at h ⊢
  have : run c (init c) (acts.take p ++ (acts.take p').drop p) = run c sp ((acts.take p').drop p) := by
    rw [P3.run_append, h]; simp
  rw [← this, ← e]

theorem stAt_reach (hw : c.wiring = Wiring.std) (hwf : WfCfg c) {p : Nat} {sp : State}
    (h : stAt c acts p = some sp) : Reach c sp ∧ Inv9 c sp := by
  refine run_induct (c := c) (fun s => Reach c s ∧ Inv9 c s) ?_ (acts.take p) _ _
    ⟨⟨inv1_init c, inv2_init c, inv3_init c, inv4_init c, inv5_init c⟩, inv9_init c⟩ h
  intro s a s' hp h
  exact ⟨P3.reach_step hw hwf hp.1 h, inv9_step hw hwf hp.1 hp.2 h⟩

/-- A relation that every step respects holds between earlier and later states of a run. -/
theorem stAt_mono (R : State → State → Prop) (hr : ∀ s, R s s) (ht : ∀ a b d, R a b → R b d → R a d)
    (hs : ∀ s a s', step c s a = some s' → R s s') {p p' : Nat} {sp sp' : State} (hpp : p ≤ p')
    (h : stAt c acts p = some sp) (h' : stAt c acts p' = some sp') : R sp sp' := by
  rw [stAt_run hpp h] at h'
  exact run_induct (c := c) (fun u => R sp u) (fun u a u' hu hst => ht _ _ _ hu (hs u a u' hst)) _ _ _ (hr sp) h'

end Positions

/-! ## 6. What a step changes -/

section StepFacts

variable {c : Cfg} {s s' : State} {a : Act}

theorem step_sent (hw : c.wiring = Wiring.std) (hs : step c s a = some s') :
    s'.caller.sent = s.caller.sent ∨ (a = .callerSend ∧ s'.caller.sent = s.caller.sent + 1) := by
  cases a with
  | callerSend => obtain ⟨_, _, _, _, rfl⟩ := inv_callerSend hs; exact Or.inr ⟨rfl, rfl⟩
  | callerClose => obtain ⟨_, _, rfl⟩ := inv_callerClose hs; exact Or.inl rfl
  | callerRetCtx => obtain ⟨_, _, _, rfl⟩ := inv_callerRetCtx hw hs; exact Or.inl rfl
  | callerRetFin => obtain ⟨_, _, _, rfl⟩ := inv_callerRetFin hs; exact Or.inl rfl
  | loopEnq => obtain ⟨_, _, _, _, _, rfl⟩ := inv_loopEnq hs; exact Or.inl rfl
  | loopEnqClosed => obtain ⟨_, _, _, _, rfl⟩ := inv_loopEnqClosed hs; exact Or.inl rfl
  | loopDispatch w => obtain ⟨_, _, _, _, _, rfl⟩ := inv_loopDispatch hs; exact Or.inl rfl
  | loopResult => obtain ⟨_, _, _, _, _, rfl⟩ := inv_loopResult hs; exact Or.inl rfl
  | loopTick => obtain ⟨_, _, rfl⟩ := inv_loopTick hs; exact Or.inl rfl
  | loopDrain => obtain ⟨_, _, _, _, rfl⟩ := inv_loopDrain hw hs; exact Or.inl rfl
  | loopClose => obtain ⟨_, _, _, rfl⟩ := inv_loopClose hw hs; exact Or.inl rfl
  | workerDecide w =>
    obtain ⟨_, _, hc⟩ := inv_workerDecide hw hs
    rcases hc with ⟨_, rfl⟩ | ⟨_, _, rfl⟩ | ⟨_, _, rfl⟩ <;> exact Or.inl rfl
  | workerEnd w o cancel =>
    obtain ⟨j, _, rfl⟩ := inv_workerEnd hs
    left; simp [(afterBody_frame c s j o cancel).2.2.2.2]
  | workerPost w => obtain ⟨_, _, _, _, rfl⟩ := inv_workerPost hs; exact Or.inl rfl
  | workerDiePost w => obtain ⟨_, _, _, rfl⟩ := inv_workerDiePost hw hs; exact Or.inl rfl
  | workerExit w => obtain ⟨_, _, rfl⟩ := inv_workerExit hs; exact Or.inl rfl
  | cancel x => obtain ⟨_, _, rfl⟩ := inv_cancel hs; exact Or.inl rfl

/-- The log only grows. -/
theorem step_log_mem (hw : c.wiring = Wiring.std) (hs : step c s a = some s') :
    ∀ e, e ∈ s.log → e ∈ s'.log := by
  have key : ∃ es, s'.log = s.log ++ es := by
    cases a with
    | callerSend => obtain ⟨_, _, _, _, rfl⟩ := inv_callerSend hs; exact ⟨[_], rfl⟩
    | callerClose => obtain ⟨_, _, rfl⟩ := inv_callerClose hs; exact ⟨[], by simp⟩
    | callerRetCtx => obtain ⟨_, _, _, rfl⟩ := inv_callerRetCtx hw hs; exact ⟨[_], rfl⟩
    | callerRetFin => obtain ⟨_, _, _, rfl⟩ := inv_callerRetFin hs; exact ⟨[_], rfl⟩
    | loopEnq => obtain ⟨_, _, _, _, _, rfl⟩ := inv_loopEnq hs; exact ⟨[_], rfl⟩
    | loopEnqClosed => obtain ⟨_, _, _, _, rfl⟩ := inv_loopEnqClosed hs; exact ⟨[], by simp⟩
    | loopDispatch w => obtain ⟨_, _, _, _, _, rfl⟩ := inv_loopDispatch hs; exact ⟨[_], rfl⟩
    | loopResult => obtain ⟨_, _, _, _, _, rfl⟩ := inv_loopResult hs; exact ⟨_, by simp [List.append_assoc]; rfl⟩
    | loopTick => obtain ⟨_, _, rfl⟩ := inv_loopTick hs; exact ⟨[_], rfl⟩
    | loopDrain => obtain ⟨_, _, _, _, rfl⟩ := inv_loopDrain hw hs; exact ⟨[], by simp⟩
    | loopClose => obtain ⟨_, _, _, rfl⟩ := inv_loopClose hw hs; exact ⟨[_], rfl⟩
    | workerDecide w =>
      obtain ⟨_, _, hc⟩ := inv_workerDecide hw hs
      rcases hc with ⟨_, rfl⟩ | ⟨_, _, rfl⟩ | ⟨_, _, rfl⟩ <;> exact ⟨[_], rfl⟩
    | workerEnd w o cancel =>
      obtain ⟨j, _, rfl⟩ := inv_workerEnd hs
      rcases afterBody_log c s j o cancel with h | h
      · exact ⟨_, h⟩
      · exact ⟨_, h⟩
    | workerPost w => obtain ⟨_, _, _, _, rfl⟩ := inv_workerPost hs; exact ⟨[], by simp⟩
    | workerDiePost w => obtain ⟨_, _, _, rfl⟩ := inv_workerDiePost hw hs; exact ⟨[], by simp⟩
    | workerExit w => obtain ⟨_, _, rfl⟩ := inv_workerExit hs; exact ⟨[], by simp⟩
    | cancel x => obtain ⟨_, _, rfl⟩ := inv_cancel hs; exact ⟨[_], rfl⟩
  obtain ⟨es, he⟩ := key
  intro e hm; rw [he]; exact List.mem_append_left _ hm

/-- The loop's job table grows only by the enqueue arm (by the job at the head of `enqueuec`,
    whose id is the table's length), and `exited` is entered only by `loopClose`. -/
theorem step_loop_facts (hw : c.wiring = Wiring.std) (hwf : WfCfg c) (R : Reach c s)
    (hs : step c s a = some s') :
    (s'.loop.jobs.length = s.loop.jobs.length ∨
      (a = .loopEnq ∧ s'.loop.jobs.length = s.loop.jobs.length + 1 ∧
        ∃ rest, s.enq = s.loop.jobs.length :: rest)) ∧
    (s'.loop.phase = .exited → s.loop.phase = .exited ∨ a = .loopClose) := by
  have hlate : c.wiring.lateEnqueueChecksDone = true := by rw [hw]; rfl
  have hgate : c.wiring.gateDispatch = true := by rw [hw]; rfl
  have notExited : ∀ l : LoopSt, l.phase = .select → (exitCheck l).phase ≠ .exited := by
    intro l hl; rw [exitCheck_phase, hl]; split <;> simp
  by_cases hl : a.isLoop = false
  · rw [step_nonloop_frame hw hl hs]; exact ⟨Or.inl rfl, fun h => Or.inl h⟩
  · cases a with
    | loopEnq =>
      obtain ⟨j, rest, hp, _, he, rfl⟩ := inv_loopEnq hs
      have hf := R.i1.fifo hp
      rw [he] at hf
      have hjeq : j = s.loop.jobs.length := by
        have := hf.1; simp [List.range'] at this; exact this.1
      subst hjeq
      obtain ⟨elen, _⟩ := enq_fields (c := c) (l := s.loop) hlate (hwf.2 _)
      refine ⟨Or.inr ⟨rfl, by simp [elen], rest, he⟩, ?_⟩
      intro h
      exact absurd h (notExited _ (by rw [(enq_others c s.loop _).2.2.1]; exact hp))
    | loopEnqClosed =>
      obtain ⟨hp, _, _, _, rfl⟩ := inv_loopEnqClosed hs
      exact ⟨Or.inl (by simp [closed]), fun h => absurd h (notExited _ (by simpa [closed] using hp))⟩
    | loopDispatch w =>
      obtain ⟨j, l, hp, _, hd, rfl⟩ := inv_loopDispatch hs
      obtain ⟨_, _, hlen, _, _, _, hph, _⟩ := dispatch_gate hgate hd
      exact ⟨Or.inl (by simp [hlen]), fun h => absurd h (notExited _ (by rw [hph]; exact hp))⟩
    | loopResult =>
      obtain ⟨j, r, rest, hp, hdc, rfl⟩ := inv_loopResult hs
      obtain ⟨hjd, hjnd, hjlt, _⟩ := result_fields (c := c) R.i1 hp hdc
      by_cases hexit : r.isErr = true ∧ c.coe = false
      · obtain ⟨ph, _, rlen, _⟩ := result_exit (l := s.loop) hjlt hexit.1 hexit.2
        refine ⟨Or.inl (by simp [rlen]), ?_⟩
        intro h
        simp only [exitCheck_phase, ph] at h
        split at h <;> simp at h
      · have hne : r.isErr = true → c.coe = true := by
          intro he; cases hc : c.coe with
          | true => rfl
          | false => exact absurd ⟨he, hc⟩ hexit
        obtain ⟨_, F⟩ := core_result (R.i1.core hp) hjlt hjnd hjd hne
        exact ⟨Or.inl (by simp [F.len]), fun h => absurd h (notExited _ (by rw [F.phase]; exact hp))⟩
    | loopTick =>
      obtain ⟨hp, _, rfl⟩ := inv_loopTick hs
      exact ⟨Or.inl (by simp), fun h => absurd h (notExited _ hp)⟩
    | loopDrain =>
      obtain ⟨_, _, _, _, rfl⟩ := inv_loopDrain hw hs
      exact ⟨Or.inl rfl, fun h => Or.inl h⟩
    | loopClose => exact ⟨by obtain ⟨_, _, _, rfl⟩ := inv_loopClose hw hs; exact Or.inl rfl, fun _ => Or.inr rfl⟩
    | _ => simp [Act.isLoop] at hl

/-- A worker slot comes to hold a job only by the hand-off `loopDispatch`. -/
theorem step_ws_job (hw : c.wiring = Wiring.std) (hs : step c s a = some s') (w : Nat) (x : W) (k : Nat)
    (hx : s'.ws[w]? = some x) (hk : x.job? = some k) :
    (∃ y, s.ws[w]? = some y ∧ y.job? = some k) ∨
    (a = .loopDispatch w ∧ ∃ l, dispatch c s.loop = some (k, l)) := by
  have same : s'.ws = s.ws → (∃ y, s.ws[w]? = some y ∧ y.job? = some k) ∨
      (a = .loopDispatch w ∧ ∃ l, dispatch c s.loop = some (k, l)) := by
    intro e; rw [e] at hx; exact Or.inl ⟨x, hx, hk⟩
  -- a worker's own move from slot state `y0` to `y` with `y.job? = y0.job?` or `y.job? = none`
  have own : ∀ (w0 : Nat) (y0 y : W), s.ws[w0]? = some y0 → s'.ws = s.ws.set w0 y →
      (y.job? = y0.job? ∨ y.job? = none) →
      (∃ y, s.ws[w]? = some y ∧ y.job? = some k) ∨
      (a = .loopDispatch w ∧ ∃ l, dispatch c s.loop = some (k, l)) := by
    intro w0 y0 y h0 e hj
    rw [e] at hx
    rcases getElem?_set_cases hx with ⟨rfl, rfl⟩ | ⟨_, hx⟩
    · rcases hj with hj | hj
      · exact Or.inl ⟨y0, h0, by rw [← hj]; exact hk⟩
      · rw [hj] at hk; simp at hk
    · exact Or.inl ⟨x, hx, hk⟩
  cases a with
  | callerSend => obtain ⟨_, _, _, _, rfl⟩ := inv_callerSend hs; exact same rfl
  | callerClose => obtain ⟨_, _, rfl⟩ := inv_callerClose hs; exact same rfl
  | callerRetCtx => obtain ⟨_, _, _, rfl⟩ := inv_callerRetCtx hw hs; exact same rfl
  | callerRetFin => obtain ⟨_, _, _, rfl⟩ := inv_callerRetFin hs; exact same rfl
  | loopEnq => obtain ⟨_, _, _, _, _, rfl⟩ := inv_loopEnq hs; exact same rfl
  | loopEnqClosed => obtain ⟨_, _, _, _, rfl⟩ := inv_loopEnqClosed hs; exact same rfl
  | loopDispatch w0 =>
    obtain ⟨j, l, _, _, hd, rfl⟩ := inv_loopDispatch hs
    simp only [addLog_ws, setW_ws] at hx
    rcases getElem?_set_cases hx with ⟨rfl, rfl⟩ | ⟨_, hx⟩
    · simp [W.job?] at hk; subst hk; exact Or.inr ⟨rfl, l, hd⟩
    · exact Or.inl ⟨x, hx, hk⟩
  | loopResult => obtain ⟨_, _, _, _, _, rfl⟩ := inv_loopResult hs; exact same rfl
  | loopTick => obtain ⟨_, _, rfl⟩ := inv_loopTick hs; exact same rfl
  | loopDrain => obtain ⟨_, _, _, _, rfl⟩ := inv_loopDrain hw hs; exact same rfl
  | loopClose => obtain ⟨_, _, _, rfl⟩ := inv_loopClose hw hs; exact same rfl
  | workerDecide w0 =>
    obtain ⟨j, hj, hc⟩ := inv_workerDecide hw hs
    rcases hc with ⟨_, rfl⟩ | ⟨_, _, rfl⟩ | ⟨_, _, rfl⟩ <;>
      exact own w0 _ _ hj rfl (Or.inl (by simp [W.job?]))
  | workerEnd w0 o cancel =>
    obtain ⟨j, hj, rfl⟩ := inv_workerEnd hs
    refine own w0 _ (if o = .goexit then .dying j else .posting j (outcomeRes o)) hj
      (by simp [(afterBody_frame c s j o cancel).2.1]) (Or.inl ?_)
    split <;> simp [W.job?]
  | workerPost w0 =>
    obtain ⟨j, r, hj, _, rfl⟩ := inv_workerPost hs
    exact own w0 _ _ hj rfl (Or.inr (by simp [W.job?]))
  | workerDiePost w0 =>
    obtain ⟨j, hj, _, rfl⟩ := inv_workerDiePost hw hs
    exact own w0 _ _ hj rfl (Or.inr (by simp [W.job?]))
  | workerExit w0 =>
    obtain ⟨hj, _, rfl⟩ := inv_workerExit hs
    exact own w0 _ _ hj rfl (Or.inr (by simp [W.job?]))
  | cancel x => obtain ⟨_, _, rfl⟩ := inv_cancel hs; exact same rfl

/-- Once the loop has exited it stays exited. -/
theorem step_exited (hw : c.wiring = Wiring.std) (hs : step c s a = some s')
    (h : s.loop.phase = .exited) : s'.loop.phase = .exited := by
  by_cases hl : a.isLoop = false
  · rw [step_nonloop_frame hw hl hs]; exact h
  · cases a with
    | loopEnq => obtain ⟨_, _, hp, _⟩ := inv_loopEnq hs; simp [h] at hp
    | loopEnqClosed => obtain ⟨hp, _⟩ := inv_loopEnqClosed hs; simp [h] at hp
    | loopDispatch w => obtain ⟨_, _, hp, _⟩ := inv_loopDispatch hs; simp [h] at hp
    | loopResult => obtain ⟨_, _, _, hp, _⟩ := inv_loopResult hs; simp [h] at hp
    | loopTick => obtain ⟨hp, _⟩ := inv_loopTick hs; simp [h] at hp
    | loopDrain => obtain ⟨_, _, hp, _⟩ := inv_loopDrain hw hs; simp [h] at hp
    | loopClose => obtain ⟨hp, _⟩ := inv_loopClose hw hs; simp [h] at hp
    | _ => simp [Act.isLoop] at hl

end StepFacts

/-! ## 7. History: where the state of a position comes from -/

section History

variable {c : Cfg} {acts : List Act}

/-- Position `r` is the `Enqueue` call that allocates and sends job `k`. -/
def IsSend (c : Cfg) (acts : List Act) (r k : Nat) : Prop :=
  ∃ sr, acts[r]? = some .callerSend ∧ stAt c acts r = some sr ∧ sr.caller.sent = k

/-- Position `q` is the enqueue arm receiving job `k`. -/
def IsReg (c : Cfg) (acts : List Act) (q k : Nat) : Prop :=
  ∃ sq rest, acts[q]? = some .loopEnq ∧ stAt c acts q = some sq ∧ sq.enq = k :: rest

/-- Position `q` is the hand-off of job `k` to worker `w`. -/
def IsDisp (c : Cfg) (acts : List Act) (q w k : Nat) : Prop :=
  ∃ sq l, acts[q]? = some (.loopDispatch w) ∧ stAt c acts q = some sq ∧ dispatch c sq.loop = some (k, l)

/-- Position `q` is the loop's exit (`close(readyc)`, `close(finishedc)`). -/
def IsClose (c : Cfg) (acts : List Act) (q : Nat) : Prop :=
  ∃ sq, acts[q]? = some .loopClose ∧ stAt c acts q = some sq

structure Hist (c : Cfg) (acts : List Act) (p : Nat) (sp : State) : Prop where
  sent : ∀ k, k < sp.caller.sent → ∃ r, r < p ∧ IsSend c acts r k
  reg : ∀ k, k < sp.loop.jobs.length → ∃ q, q < p ∧ IsReg c acts q k
  disp : ∀ w x k, sp.ws[w]? = some x → x.job? = some k → ∃ q, q < p ∧ IsDisp c acts q w k
  exited : sp.loop.phase = .exited → ∃ q, q < p ∧ IsClose c acts q

theorem hist (hw : c.wiring = Wiring.std) (hwf : WfCfg c) :
    ∀ (p : Nat) (sp : State), p ≤ acts.length → stAt c acts p = some sp → Hist c acts p sp := by
  intro p
  induction p with
  | zero =>
    intro sp _ h
    rw [stAt_zero] at h
    simp only [Option.some.injEq] at h
    subst h
    refine ⟨?_, ?_, ?_, ?_⟩
    · intro k hk; simp [init] at hk
    · intro k hk; simp [init] at hk
    · intro w x k hx hk
      simp only [init] at hx
      have := List.mem_of_getElem? hx
      simp [List.mem_replicate] at this
      rw [this.2] at hk; simp [W.job?] at hk
    · intro h; simp [init] at h
  | succ p ih =>
    intro sp' hle h'
    have hlt : p < acts.length := hle
    have ha : acts[p]? = some acts[p] := List.getElem?_eq_getElem hlt
    rw [stAt_succ ha] at h'
    cases hsp : stAt c acts p with
    | none => rw [hsp] at h'; simp at h'
    | some sp =>
      rw [hsp] at h'
      simp only [Option.bind_some] at h'
      have H := ih sp (Nat.le_of_lt hlt) hsp
      have R := (stAt_reach hw hwf hsp).1
      refine ⟨?_, ?_, ?_, ?_⟩
      · intro k hk
        rcases step_sent hw h' with e | ⟨ea, e⟩
        · rw [e] at hk
          obtain ⟨r, hr, hs⟩ := H.sent k hk
          exact ⟨r, by omega, hs⟩
        · rw [e] at hk
          by_cases hk' : k < sp.caller.sent
          · obtain ⟨r, hr, hs⟩ := H.sent k hk'
            exact ⟨r, by omega, hs⟩
          · have : k = sp.caller.sent := by omega
            exact ⟨p, by omega, sp, by rw [ha, ea], hsp, this.symm⟩
      · intro k hk
        rcases (step_loop_facts hw hwf R h').1 with e | ⟨ea, e, rest, he⟩
        · rw [e] at hk
          obtain ⟨q, hq, hs⟩ := H.reg k hk
          exact ⟨q, by omega, hs⟩
        · rw [e] at hk
          by_cases hk' : k < sp.loop.jobs.length
          · obtain ⟨q, hq, hs⟩ := H.reg k hk'
            exact ⟨q, by omega, hs⟩
          · have : k = sp.loop.jobs.length := by omega
            exact ⟨p, by omega, sp, rest, by rw [ha, ea], hsp, by rw [this]; exact he⟩
      · intro w x k hx hk
        rcases step_ws_job hw h' w x k hx hk with ⟨y, hy, hyk⟩ | ⟨ea, l, hd⟩
        · obtain ⟨q, hq, hs⟩ := H.disp w y k hy hyk
          exact ⟨q, by omega, hs⟩
        · exact ⟨p, by omega, sp, l, by rw [ha, ea], hsp, hd⟩
      · intro hx
        rcases (step_loop_facts hw hwf R h').2 hx with e | ea
        · obtain ⟨q, hq, hs⟩ := H.exited e
          exact ⟨q, by omega, hs⟩
        · exact ⟨p, by omega, sp, by rw [ha, ea], hsp⟩

/-- After the `Enqueue` call of job `k` the caller's count of sent jobs exceeds `k`. -/
theorem sent_after_send (hw : c.wiring = Wiring.std) {s : State} (hrun : run c (init c) acts = some s)
    {r k p : Nat} {sp : State} (hs : IsSend c acts r k) (hrp : r < p) (hp : stAt c acts p = some sp) :
    k < sp.caller.sent := by
  obtain ⟨sr, ha, hsr, rfl⟩ := hs
  obtain ⟨sr', hst, hnext⟩ := pos_step hrun ha hsr
  have h1 : sr'.caller.sent = sr.caller.sent + 1 := by
    obtain ⟨_, _, _, _, rfl⟩ := inv_callerSend hst; rfl
  have h2 : sr'.caller.sent ≤ sp.caller.sent :=
    stAt_mono (c := c) (acts := acts) (fun u v => u.caller.sent ≤ v.caller.sent) (fun _ => Nat.le_refl _)
      (fun _ _ _ => Nat.le_trans)
      (fun u a u' h => by rcases step_sent hw h with e | ⟨_, e⟩ <;> omega) (Nat.succ_le_of_lt hrp) hnext hp
  omega

/-- The `Enqueue` call of a job is unique. -/
theorem send_unique (hw : c.wiring = Wiring.std) {s : State} (hrun : run c (init c) acts = some s)
    {r r' k : Nat} (h : IsSend c acts r k) (h' : IsSend c acts r' k) : r = r' := by
  rcases Nat.lt_trichotomy r r' with hlt | he | hlt
  · obtain ⟨sr', _, hsr', e⟩ := h'
    have := sent_after_send hw hrun h hlt hsr'
    omega
  · exact he
  · obtain ⟨sr, _, hsr, e⟩ := h
    have := sent_after_send hw hrun h' hlt hsr
    omega

/-- Events of the log stay. -/
theorem log_mono (hw : c.wiring = Wiring.std) {p p' : Nat} {sp sp' : State} (hpp : p ≤ p')
    (h : stAt c acts p = some sp) (h' : stAt c acts p' = some sp') : ∀ e, e ∈ sp.log → e ∈ sp'.log :=
  stAt_mono (c := c) (acts := acts) (fun u v => ∀ e, e ∈ u.log → e ∈ v.log) (fun _ _ h => h)
    (fun _ _ _ h1 h2 e he => h2 e (h1 e he)) (fun _ _ _ hs => step_log_mem hw hs) hpp h h'

theorem exited_mono (hw : c.wiring = Wiring.std) {p p' : Nat} {sp sp' : State} (hpp : p ≤ p')
    (h : stAt c acts p = some sp) (h' : stAt c acts p' = some sp') :
    sp.loop.phase = .exited → sp'.loop.phase = .exited :=
  stAt_mono (c := c) (acts := acts) (fun u v => u.loop.phase = .exited → v.loop.phase = .exited) (fun _ h => h)
    (fun _ _ _ h1 h2 he => h2 (h1 he)) (fun _ _ _ hs => step_exited hw hs) hpp h h'

end History

/-! ## 8. Edges and chains -/

section Chains

variable {c : Cfg} {acts : List Act}

theorem edge_po {i j : Nat} {a b : Act} {si sj : State} (hij : i < j) (ha : acts[i]? = some a)
    (hb : acts[j]? = some b) (hsi : stAt c acts i = some si) (hsj : stAt c acts j = some sj)
    (ht : a.thread = b.thread) (hne : a.thread ≠ .env) : edgeB c acts i j = true := by
  have h1 : (a.thread == b.thread) = true := by simp [ht]
  have h2 : (a.thread != Thread.env) = true := by simp [hne]
  simp [edgeB, hij, ha, hb, hsi, hsj, h1, h2]

theorem edge_disp {q p w : Nat} {b : Act} {sq sp : State} (hqp : q < p)
    (ha : acts[q]? = some (.loopDispatch w)) (hb : acts[p]? = some b)
    (hsq : stAt c acts q = some sq) (hsp : stAt c acts p = some sp)
    (ht : b.thread = .worker w) : edgeB c acts q p = true := by
  simp [edgeB, hqp, ha, hb, hsq, hsp, ht]

theorem edge_close_ret {q p : Nat} {sp : State} (hqp : q < p) (hq : IsClose c acts q)
    (hb : acts[p]? = some .callerRetFin) (hsp : stAt c acts p = some sp) : edgeB c acts q p = true := by
  obtain ⟨sq, ha, hsq⟩ := hq
  simp [edgeB, hqp, ha, hb, hsq, hsp, rel, acq]

/-- The enqueue arm receiving job `k` is preceded by, and synchronises with, the `Enqueue` call
    that sent `k`. -/
theorem reg_has_send (hw : c.wiring = Wiring.std) (hwf : WfCfg c) {s : State}
    (hrun : run c (init c) acts = some s) {q k : Nat} (h : IsReg c acts q k) :
    ∃ r, r < q ∧ IsSend c acts r k ∧ edgeB c acts r q = true := by
  obtain ⟨sq, rest, ha, hsq, he⟩ := h
  obtain ⟨sq', hst, _⟩ := pos_step hrun ha hsq
  obtain ⟨j, rest', hp, _, _, _⟩ := inv_loopEnq hst
  have R := (stAt_reach hw hwf hsq).1
  have hf := R.i1.fifo hp
  have hk : k < sq.caller.sent := by
    rw [he] at hf
    have h1 := hf.1; have h2 := hf.2
    simp [List.range'] at h1 h2; omega
  have hq : q < acts.length := (List.getElem?_eq_some_iff.mp ha).1
  obtain ⟨r, hr, hs⟩ := (hist hw hwf q sq (Nat.le_of_lt hq) hsq).sent k hk
  refine ⟨r, hr, hs, ?_⟩
  obtain ⟨sr, har, hsr, e⟩ := hs
  simp [edgeB, hr, har, ha, hsr, hsq, rel, acq, he, e]

/-- Every job the loop knows was sent by an `Enqueue` call that happens-before the present
    loop action. -/
theorem hb_send_loop (hw : c.wiring = Wiring.std) (hwf : WfCfg c) {s : State}
    (hrun : run c (init c) acts = some s) {p k : Nat} {a : Act} {sp : State}
    (ha : acts[p]? = some a) (hsp : stAt c acts p = some sp) (ht : a.thread = .loop)
    (hk : k < sp.loop.jobs.length ∨ (a = .loopEnq ∧ ∃ rest, sp.enq = k :: rest)) :
    ∃ r, r < p ∧ IsSend c acts r k ∧ hb c acts r p := by
  have hp : p < acts.length := (List.getElem?_eq_some_iff.mp ha).1
  rcases hk with hk | ⟨rfl, rest, he⟩
  · obtain ⟨q, hq, hreg⟩ := (hist hw hwf p sp (Nat.le_of_lt hp) hsp).reg k hk
    obtain ⟨r, hr, hs, e⟩ := reg_has_send hw hwf hrun hreg
    obtain ⟨sq, _, haq, hsq, _⟩ := hreg
    exact ⟨r, by omega, hs,
      .tail (.single e) (edge_po hq haq ha hsq hsp (by rw [ht]; rfl) (by simp [Act.thread]))⟩
  · obtain ⟨r, hr, hs, e⟩ := reg_has_send hw hwf hrun (q := p) (k := k) ⟨sp, rest, ha, hsp, he⟩
    exact ⟨r, hr, hs, .single e⟩

/-- The job a worker holds was sent by an `Enqueue` call that happens-before the worker's
    present action — through the enqueue arm and the hand-off on `readyc`; and the hand-off
    is the dispatch of that very job to that worker. -/
theorem hb_send_worker (hw : c.wiring = Wiring.std) (hwf : WfCfg c) {s : State}
    (hrun : run c (init c) acts = some s) {p k w : Nat} {a : Act} {sp : State} {x : W}
    (ha : acts[p]? = some a) (hsp : stAt c acts p = some sp) (ht : a.thread = .worker w)
    (hx : sp.ws[w]? = some x) (hk : x.job? = some k) :
    ∃ r q, r < q ∧ q < p ∧ IsSend c acts r k ∧ IsDisp c acts q w k ∧ hb c acts r q ∧
      edgeB c acts q p = true := by
  have hp : p < acts.length := (List.getElem?_eq_some_iff.mp ha).1
  obtain ⟨q, hq, hdisp⟩ := (hist hw hwf p sp (Nat.le_of_lt hp) hsp).disp w x k hx hk
  obtain ⟨sq, l, haq, hsq, hd⟩ := hdisp
  obtain ⟨sq', hst, _⟩ := pos_step hrun haq hsq
  obtain ⟨_, _, hph, _, _, _⟩ := inv_loopDispatch hst
  have R := (stAt_reach hw hwf hsq).1
  obtain ⟨_, hjlt, _⟩ := core_dispatch (R.i1.core hph) hd
  obtain ⟨r, hr, hs, h1⟩ := hb_send_loop hw hwf hrun haq hsq rfl (Or.inl hjlt)
  exact ⟨r, q, hr, hq, hs, ⟨sq, l, haq, hsq, hd⟩, h1, edge_disp hq haq ha hsq hsp ht⟩

end Chains

/-! ## 9. Who accesses what -/

section Classify

variable {c : Cfg} {s s' : State} {a : Act} {x : Access}

/-- Accesses that cannot take part in a race: locals of `run`, and reads of locations nobody writes. -/
def Benign (x : Access) : Prop :=
  x.loc = .loopLocal ∨ (x.write = false ∧ (x.loc = .sentinel ∨ ∃ f, x.loc = .sfield f))

theorem mem_loopIter (hx : x ∈ loopIter s) : Benign x := by
  simp only [loopIter, List.mem_append, List.mem_cons, List.mem_nil_iff, or_false] at hx
  rcases hx with ((hx | hx | hx | hx | hx) | hx) | hx
  · subst hx; exact Or.inr ⟨rfl, Or.inr ⟨_, rfl⟩⟩
  · subst hx; exact Or.inr ⟨rfl, Or.inr ⟨_, rfl⟩⟩
  · subst hx; exact Or.inr ⟨rfl, Or.inr ⟨_, rfl⟩⟩
  · subst hx; exact Or.inr ⟨rfl, Or.inr ⟨_, rfl⟩⟩
  · subst hx; exact Or.inl rfl
  · split at hx
    · simp at hx
    · simp at hx; subst hx; exact Or.inr ⟨rfl, Or.inr ⟨_, rfl⟩⟩
  · subst hx; exact Or.inr ⟨rfl, Or.inr ⟨_, rfl⟩⟩

theorem mem_loopBottom (hx : x ∈ loopBottom) : Benign x := by
  simp only [loopBottom, List.mem_cons, List.mem_nil_iff, or_false] at hx
  subst hx; exact Or.inl rfl

theorem mem_enqDepAcc {l : LoopSt} {m d : Nat} (hx : x ∈ enqDepAcc l m d) :
    (∃ f, x.loc = .job f d ∧ f ≠ .ctx ∧ f ≠ .run ∧ f ≠ .invalid) ∨
    (∃ f, x.loc = .job f m ∧ f ≠ .ctx ∧ f ≠ .run) := by
  unfold enqDepAcc at hx
  simp only [List.mem_cons] at hx
  rcases hx with rfl | hx
  · exact Or.inl ⟨.done, rfl, by simp, by simp, by simp⟩
  · split at hx
    · simp only [List.mem_cons] at hx
      rcases hx with rfl | hx
      · exact Or.inl ⟨.err, rfl, by simp, by simp, by simp⟩
      · split at hx
        · simp at hx; subst hx; exact Or.inr ⟨.invalid, rfl, by simp, by simp⟩
        · simp at hx
    · simp only [List.mem_cons, List.mem_nil_iff, or_false] at hx
      rcases hx with rfl | rfl | rfl | rfl
      · exact Or.inl ⟨.consumers, rfl, by simp, by simp, by simp⟩
      · exact Or.inl ⟨.consumers, rfl, by simp, by simp, by simp⟩
      · exact Or.inr ⟨.remaining, rfl, by simp, by simp⟩
      · exact Or.inr ⟨.remaining, rfl, by simp, by simp⟩

theorem mem_notifyAcc {j : Nat} {cs : List Nat} (hx : x ∈ notifyAcc j cs) :
    x.loc = .loopLocal ∨ x.loc = .consumers j ∨ ∃ k ∈ cs, x.loc = .remaining k := by
  simp only [notifyAcc, List.mem_cons, List.mem_flatMap, List.mem_nil_iff, or_false] at hx
  rcases hx with rfl | ⟨k, hk, rfl | rfl | rfl | rfl⟩
  · exact Or.inr (Or.inl rfl)
  · exact Or.inr (Or.inr ⟨k, hk, rfl⟩)
  · exact Or.inr (Or.inr ⟨k, hk, rfl⟩)
  · exact Or.inr (Or.inr ⟨k, hk, rfl⟩)
  · exact Or.inl rfl

theorem mem_resultAcc {l : LoopSt} {j : Nat} {r : Res} (hx : x ∈ resultAcc c l j r) :
    Benign x ∨ x.loc = .serr ∨ (∃ f, x.loc = .job f j ∧ (f = .done ∨ f = .err ∨ f = .consumers)) ∨
    ∃ k ∈ (job l j).consumers, x.loc = .invalid k ∨ x.loc = .remaining k := by
  have nb : ∀ {x : Access}, x ∈ notifyAcc j (job l j).consumers ++ loopBottom →
      Benign x ∨ x.loc = .serr ∨ (∃ f, x.loc = .job f j ∧ (f = .done ∨ f = .err ∨ f = .consumers)) ∨
      ∃ k ∈ (job l j).consumers, x.loc = .invalid k ∨ x.loc = .remaining k := by
    intro x hx
    rcases List.mem_append.mp hx with hx | hx
    · rcases mem_notifyAcc hx with h | h | ⟨k, hk, h⟩
      · exact Or.inl (Or.inl h)
      · exact Or.inr (Or.inr (Or.inl ⟨_, h, Or.inr (Or.inr rfl)⟩))
      · exact Or.inr (Or.inr (Or.inr ⟨k, hk, Or.inr h⟩))
    · exact Or.inl (mem_loopBottom hx)
  unfold resultAcc at hx
  simp only [] at hx
  rcases List.mem_append.mp hx with hx | hx
  · simp only [List.mem_cons, List.mem_nil_iff, or_false] at hx
    rcases hx with rfl | rfl
    · exact Or.inr (Or.inr (Or.inl ⟨_, rfl, Or.inl rfl⟩))
    · exact Or.inl (Or.inl rfl)
  · split at hx
    · rcases List.mem_append.mp hx with hx | hx
      · simp only [List.mem_cons, List.mem_nil_iff, or_false] at hx
        rcases hx with rfl | rfl
        · exact Or.inr (Or.inr (Or.inl ⟨_, rfl, Or.inr (Or.inl rfl)⟩))
        · exact Or.inl (Or.inr ⟨rfl, Or.inr ⟨_, rfl⟩⟩)
      · split at hx
        · simp at hx; subst hx; exact Or.inr (Or.inl rfl)
        · rw [List.append_assoc] at hx
          rcases List.mem_append.mp hx with hx | hx
          · simp only [List.mem_append, List.mem_cons, List.mem_nil_iff, or_false, List.mem_map] at hx
            rcases hx with ((rfl | hx) | rfl) | ⟨k, hk, rfl⟩
            · exact Or.inl (Or.inr ⟨rfl, Or.inl rfl⟩)
            · split at hx
              · simp at hx
              · simp only [List.mem_cons, List.mem_nil_iff, or_false] at hx
                rcases hx with rfl | rfl <;> exact Or.inr (Or.inl rfl)
            · exact Or.inr (Or.inr (Or.inl ⟨_, rfl, Or.inr (Or.inr rfl)⟩))
            · exact Or.inr (Or.inr (Or.inr ⟨k, hk, Or.inl rfl⟩))
          · exact nb hx
    · exact nb hx

theorem acc_env (ht : a.thread = .env) : accesses c s a = [] := by
  cases a <;> simp [Act.thread] at ht
  rfl

theorem acc_caller (ht : a.thread = .caller) (hx : x ∈ accesses c s a) :
    (x.write = false ∧ ∃ f, x.loc = .sfield f) ∨ (a = .callerRetFin ∧ x.loc = .serr ∧ x.write = false) ∨
    (a = .callerSend ∧ ∃ f, x.loc = .job f s.caller.sent) := by
  cases a <;> simp [Act.thread] at ht <;>
    simp only [accesses, List.mem_cons, List.mem_nil_iff, or_false] at hx
  · rcases hx with rfl | rfl | rfl | rfl | rfl | rfl | rfl | rfl | rfl
    all_goals first
      | exact Or.inr (Or.inr ⟨rfl, _, rfl⟩)
      | exact Or.inl ⟨rfl, _, rfl⟩
  · subst hx; exact Or.inl ⟨rfl, _, rfl⟩
  · subst hx; exact Or.inl ⟨rfl, _, rfl⟩
  · rcases hx with rfl | rfl
    · exact Or.inl ⟨rfl, _, rfl⟩
    · exact Or.inr (Or.inl ⟨rfl, rfl, rfl⟩)

theorem acc_worker {w : Nat} (ht : a.thread = .worker w) (hx : x ∈ accesses c s a) :
    ∃ k, s.ws[w]? = some (.holding k) ∧ x.write = false ∧
      (x.loc = .sentinel ∨ ∃ f, x.loc = .job f k ∧ (f = .ctx ∨ f = .invalid ∨ f = .run)) := by
  cases a <;> simp [Act.thread] at ht
  case workerEnd => simp [accesses] at hx
  case workerPost => simp [accesses] at hx
  case workerDiePost => simp [accesses] at hx
  case workerExit => simp [accesses] at hx
  subst ht
  simp only [accesses] at hx
  split at hx
  · next k hk =>
    refine ⟨k, hk, ?_⟩
    rcases List.mem_cons.mp hx with rfl | hx
    · exact ⟨rfl, Or.inr ⟨_, rfl, Or.inl rfl⟩⟩
    · split at hx
      · simp at hx
      · rcases List.mem_cons.mp hx with rfl | hx
        · exact ⟨rfl, Or.inr ⟨_, rfl, Or.inr (Or.inl rfl)⟩⟩
        · split at hx
          · simp at hx; subst hx; exact ⟨rfl, Or.inl rfl⟩
          · simp only [List.mem_cons, List.mem_nil_iff, or_false] at hx
            rcases hx with rfl | rfl
            · exact ⟨rfl, Or.inr ⟨_, rfl, Or.inr (Or.inr rfl)⟩⟩
            · exact ⟨rfl, Or.inr ⟨_, rfl, Or.inl rfl⟩⟩
  · simp at hx

/-- What the loop's accesses are. -/
def LoopAcc (s : State) (a : Act) (x : Access) : Prop :=
  Benign x ∨ (x.loc = .serr ∧ s.loop.phase = .select) ∨
  ∃ f k, x.loc = .job f k ∧ (k < s.loop.jobs.length ∨ (a = .loopEnq ∧ ∃ rest, s.enq = k :: rest)) ∧
    f ≠ .ctx ∧ f ≠ .run ∧ (f = .invalid → Ev.dispatched k ∉ s.log)

theorem benign_mem3 {A B : List Access} (hA : ∀ x ∈ A, Benign x) (hB : ∀ x ∈ B, Benign x)
    (hx : x ∈ loopIter s ++ A ++ B) : Benign x := by
  rcases List.mem_append.mp hx with hx | hx
  · rcases List.mem_append.mp hx with hx | hx
    · exact mem_loopIter hx
    · exact hA x hx
  · exact hB x hx

theorem acc_loop (hwf : WfCfg c) (R : Reach c s) (I9 : Inv9 c s)
    (hs : step c s a = some s') (ht : a.thread = .loop) (hx : x ∈ accesses c s a) : LoopAcc s a x := by
  have bl : Benign (wr .loopLocal) := Or.inl rfl
  have brl : Benign (rd .loopLocal) := Or.inl rfl
  cases a <;> simp [Act.thread] at ht
  · -- loopEnq
    obtain ⟨j, rest, hp, _, he, _⟩ := inv_loopEnq hs
    have hf := R.i1.fifo hp
    rw [he] at hf
    have hjeq : j = s.loop.jobs.length := by
      have := hf.1; simp [List.range'] at this; exact this.1
    have hnd : Ev.dispatched j ∉ s.log := by
      intro hm
      have := I9.dispLog j hm
      rw [job_of_ge _ _ (Nat.le_of_eq hjeq.symm)] at this
      simp at this
    have me : ∀ f, f ≠ JField.ctx → f ≠ JField.run → x.loc = .job f j → LoopAcc s .loopEnq x :=
      fun f h1 h2 h => Or.inr (Or.inr ⟨f, j, h, Or.inr ⟨rfl, rest, he⟩, h1, h2, fun _ => hnd⟩)
    simp only [accesses, he] at hx
    simp only [List.mem_append, List.mem_cons, List.mem_nil_iff, or_false, List.mem_flatMap] at hx
    rcases hx with (((hx | rfl) | ⟨d, hd, hx⟩) | (rfl | rfl | rfl)) | hx
    · exact Or.inl (mem_loopIter hx)
    · exact me .deps (by simp) (by simp) rfl
    · rcases mem_enqDepAcc hx with ⟨f, h, h1, h2, h3⟩ | ⟨f, h, h1, h2⟩
      · have hdlt : d < s.loop.jobs.length := by rw [← hjeq]; exact hwf.2 j d hd
        exact Or.inr (Or.inr ⟨f, d, h, Or.inl hdlt, h1, h2, fun e => absurd e h3⟩)
      · exact me f h1 h2 h
    · exact Or.inl bl
    · exact me .remaining (by simp) (by simp) rfl
    · exact Or.inl bl
    · exact Or.inl (mem_loopBottom hx)
  · -- loopEnqClosed
    refine Or.inl (benign_mem3 (A := [wr .loopLocal]) (B := loopBottom) ?_ (fun _ h => mem_loopBottom h) hx)
    intro y hy; simp at hy; subst hy; exact bl
  · -- loopDispatch
    refine Or.inl (benign_mem3 (A := [rd .loopLocal, wr .loopLocal]) (B := loopBottom) ?_ (fun _ h => mem_loopBottom h) hx)
    intro y hy; simp at hy; rcases hy with rfl | rfl
    · exact brl
    · exact bl
  · -- loopResult
    obtain ⟨j, r, rest, hp, hdc, _⟩ := inv_loopResult hs
    obtain ⟨hjd, hjnd, hjlt, _⟩ := result_fields (c := c) R.i1 hp hdc
    have hcore := R.i1.core hp
    have hcons : ∀ k ∈ (job s.loop j).consumers, k < s.loop.jobs.length ∧ Ev.dispatched k ∉ s.log := by
      intro k hk
      have hcnt : 0 < (job s.loop j).consumers.count k := List.count_pos_iff.mpr hk
      rw [hcore.cons j hjlt hjnd k] at hcnt
      split at hcnt
      · next hklt =>
        refine ⟨hklt, ?_⟩
        intro hm
        have hdk := I9.dispLog k hm
        have hjin : j ∈ c.depsOf k := List.count_pos_iff.mp hcnt
        have hrem := hcore.rem k hklt
        have h0 := hcore.dispRem k hdk
        rw [h0] at hrem
        have := countP_eq_zero_all hrem.symm j hjin
        simp [hjnd] at this
      · omega
    simp only [accesses, hdc] at hx
    rcases List.mem_append.mp hx with hx | hx
    · exact Or.inl (mem_loopIter hx)
    · rcases mem_resultAcc hx with h | h | ⟨f, h, hf⟩ | ⟨k, hk, h⟩
      · exact Or.inl h
      · exact Or.inr (Or.inl ⟨h, hp⟩)
      · refine Or.inr (Or.inr ⟨f, j, h, Or.inl hjlt, ?_, ?_, ?_⟩) <;>
          rcases hf with rfl | rfl | rfl <;> simp
      · obtain ⟨hklt, hnd⟩ := hcons k hk
        rcases h with h | h
        · exact Or.inr (Or.inr ⟨_, k, h, Or.inl hklt, by simp, by simp, fun _ => hnd⟩)
        · exact Or.inr (Or.inr ⟨_, k, h, Or.inl hklt, by simp, by simp, by simp⟩)
  · -- loopTick
    refine Or.inl (benign_mem3 (A := [rd .loopLocal, rd (.sfield .concurrency)]) (B := loopBottom) ?_ (fun _ h => mem_loopBottom h) hx)
    intro y hy; simp at hy; rcases hy with rfl | rfl
    · exact brl
    · exact Or.inr ⟨rfl, Or.inr ⟨_, rfl⟩⟩
  · -- loopDrain
    simp [accesses] at hx; subst hx; exact Or.inl (Or.inr ⟨rfl, Or.inr ⟨_, rfl⟩⟩)
  · -- loopClose
    simp [accesses] at hx; subst hx; exact Or.inl (Or.inr ⟨rfl, Or.inr ⟨_, rfl⟩⟩)

/-- The dispatch arm touches no field of any job. -/
theorem acc_dispatch {w : Nat} (hx : x ∈ accesses c s (.loopDispatch w)) : Benign x := by
  refine benign_mem3 (A := [rd .loopLocal, wr .loopLocal]) (B := loopBottom) ?_ (fun _ h => mem_loopBottom h) hx
  intro y hy; simp at hy; rcases hy with rfl | rfl
  · exact Or.inl rfl
  · exact Or.inl rfl

end Classify

/-! ## 10. The theorem -/

section Main

variable {c : Cfg} {acts : List Act}

/-- After the hand-off of job `k`, `dispatched k` is in the log for good. -/
theorem disp_logged (hw : c.wiring = Wiring.std) {s : State} (hrun : run c (init c) acts = some s)
    {q w k p : Nat} {sp : State} (h : IsDisp c acts q w k) (hqp : q < p) (hp : stAt c acts p = some sp) :
    Ev.dispatched k ∈ sp.log := by
  obtain ⟨sq, l, ha, hsq, hd⟩ := h
  obtain ⟨sq', hst, hnext⟩ := pos_step hrun ha hsq
  obtain ⟨j, l', _, _, hd', rfl⟩ := inv_loopDispatch hst
  rw [hd] at hd'
  simp only [Option.some.injEq, Prod.mk.injEq] at hd'
  obtain ⟨rfl, _⟩ := hd'
  exact log_mono hw (Nat.succ_le_of_lt hqp) hnext hp _ (by simp)


/-- The accesses that can conflict with another goroutine's, with what is known about the state
    they are executed in. -/
inductive Kind (s : State) (a : Act) (x : Access) : Prop where
  /-- `Wait` reads `s.err` after `<-s.finishedc` -/
  | retFin : a = .callerRetFin → x.loc = .serr → x.write = false → Kind s a x
  /-- `Enqueue` allocates job `s.caller.sent` -/
  | alloc (f : JField) : a = .callerSend → x.loc = .job f s.caller.sent → Kind s a x
  /-- the result arm reads / writes `s.err` -/
  | loopErr : a.thread = .loop → x.loc = .serr → s.loop.phase = .select → Kind s a x
  /-- the loop touches a field of a job it has received (or is receiving) on `enqueuec` -/
  | loopJob (f : JField) (k : Nat) : a.thread = .loop → x.loc = .job f k →
      (k < s.loop.jobs.length ∨ (a = .loopEnq ∧ ∃ rest, s.enq = k :: rest)) →
      f ≠ .ctx → f ≠ .run → (f = .invalid → Ev.dispatched k ∉ s.log) → Kind s a x
  /-- a worker reads `ctx`, `invalid`, `run` of the job it holds -/
  | workerJob (w : Nat) (f : JField) (k : Nat) : a.thread = .worker w → s.ws[w]? = some (.holding k) →
      x.write = false → x.loc = .job f k → (f = .ctx ∨ f = .invalid ∨ f = .run) → Kind s a x

theorem kind_of {c : Cfg} (hwf : WfCfg c) {s s' : State} {a : Act} {x : Access} (R : Reach c s) (I9 : Inv9 c s)
    (hs : step c s a = some s') (hx : x ∈ accesses c s a) (nb : ¬ Benign x) : Kind s a x := by
  cases hta : a.thread with
  | env => rw [acc_env hta] at hx; simp at hx
  | caller =>
    rcases acc_caller hta hx with ⟨h1, f, h2⟩ | ⟨ea, h2, h3⟩ | ⟨ea, f, h2⟩
    · exact absurd (Or.inr ⟨h1, Or.inr ⟨f, h2⟩⟩) nb
    · exact .retFin ea h2 h3
    · exact .alloc f ea h2
  | worker w =>
    obtain ⟨k, hk, h1, h2 | ⟨f, h2, h3⟩⟩ := acc_worker hta hx
    · exact absurd (Or.inr ⟨h1, Or.inl h2⟩) nb
    · exact .workerJob w f k hta hk h1 h2 h3
  | loop =>
    rcases acc_loop hwf R I9 hs hta hx with h | ⟨h1, h2⟩ | ⟨f, k, h1, h2, h3, h4, h5⟩
    · exact absurd h nb
    · exact .loopErr hta h1 h2
    · exact .loopJob f k hta h1 h2 h3 h4 h5

end Main

end Race

open Race

/-- **C12, data-race freedom.**  In every run of the standard scheduler, any two accesses of
    different goroutines to the same memory location, at least one of them a write, are ordered
    by happens-before. -/
theorem C12_race_free (c : Cfg) (hw : c.wiring = Wiring.std) (hwf : WfCfg c)
    (acts : List Act) (s : State) (hrun : run c (init c) acts = some s)
    (i j : Nat) (hij : i < j)
    (a b : Act) (hai : acts[i]? = some a) (hbj : acts[j]? = some b)
    (si sj : State) (hsi : stAt c acts i = some si) (hsj : stAt c acts j = some sj)
    (x y : Access) (hx : x ∈ accesses c si a) (hy : y ∈ accesses c sj b)
    (hloc : x.loc = y.loc) (hwr : x.write = true ∨ y.write = true) (hth : a.thread ≠ b.thread) :
    hb c acts i j := by
  obtain ⟨si', hsti, hnexti⟩ := pos_step hrun hai hsi
  obtain ⟨sj', hstj, _⟩ := pos_step hrun hbj hsj
  obtain ⟨Ri, I9i⟩ := stAt_reach hw hwf hsi
  obtain ⟨Rj, I9j⟩ := stAt_reach hw hwf hsj
  have hjlen : j < acts.length := (List.getElem?_eq_some_iff.mp hbj).1
  -- a benign access conflicts with nothing
  have benign_no : ∀ {u v : Access} {A B : Act} {S S' T T' : State}, Benign u → u.loc = v.loc →
      (u.write = true ∨ v.write = true) → A.thread ≠ B.thread →
      u ∈ accesses c S A → v ∈ accesses c T B →
      step c S A = some S' → step c T B = some T' → Reach c S → Inv9 c S → Reach c T → Inv9 c T → False := by
    intro u v A B S S' T T' hbu hl hwr hth hu hv hS hT RS IS RT IT
    -- classify `v`
    have hvB : Benign v ∧ (u.loc = .loopLocal → B.thread = .loop) := by
      cases htB : B.thread with
      | env => rw [acc_env htB] at hv; simp at hv
      | caller =>
        rcases acc_caller htB hv with ⟨h1, f, h2⟩ | ⟨_, h2, _⟩ | ⟨_, f, h2⟩
        · exact ⟨Or.inr ⟨h1, Or.inr ⟨f, h2⟩⟩, fun h => by rw [hl, h2] at h; simp at h⟩
        · rcases hbu with h | ⟨_, h | ⟨f, h⟩⟩ <;> rw [hl, h2] at h <;> simp at h
        · rcases hbu with h | ⟨_, h | ⟨f', h⟩⟩ <;> rw [hl, h2] at h <;> simp at h
      | worker w =>
        obtain ⟨k, _, h1, h2 | ⟨f, h2, _⟩⟩ := acc_worker htB hv
        · exact ⟨Or.inr ⟨h1, Or.inl h2⟩, fun h => by rw [hl, h2] at h; simp at h⟩
        · rcases hbu with h | ⟨_, h | ⟨f', h⟩⟩ <;> rw [hl, h2] at h <;> simp at h
      | loop =>
        rcases acc_loop hwf RT IT hT htB hv with h | ⟨h2, _⟩ | ⟨f, k, h2, _⟩
        · exact ⟨h, fun _ => rfl⟩
        · rcases hbu with h | ⟨_, h | ⟨f', h⟩⟩ <;> rw [hl, h2] at h <;> simp at h
        · rcases hbu with h | ⟨_, h | ⟨f', h⟩⟩ <;> rw [hl, h2] at h <;> simp at h
    obtain ⟨hbv, hvl⟩ := hvB
    -- `u` local to the loop: both are the loop's
    have huB : u.loc = .loopLocal → A.thread = .loop := by
      intro h
      cases htA : A.thread with
      | env => rw [acc_env htA] at hu; simp at hu
      | caller =>
        rcases acc_caller htA hu with ⟨_, f, h2⟩ | ⟨_, h2, _⟩ | ⟨_, f, h2⟩ <;> rw [h] at h2 <;> simp at h2
      | worker w =>
        obtain ⟨k, _, _, h2 | ⟨f, h2, _⟩⟩ := acc_worker htA hu <;> rw [h] at h2 <;> simp at h2
      | loop => rfl
    rcases hbu with h | ⟨hw1, h1⟩
    · exact hth ((huB h).trans (hvl h).symm)
    · rcases hbv with h | ⟨hw2, _⟩
      · rw [← hl] at h
        exact hth ((huB h).trans (hvl h).symm)
      · rcases hwr with h | h
        · rw [hw1] at h; simp at h
        · rw [hw2] at h; simp at h
  have nbx : ¬ Benign x := fun h => benign_no h hloc hwr hth hx hy hsti hstj Ri I9i Rj I9j
  have nby : ¬ Benign y :=
    fun h => benign_no h hloc.symm hwr.symm (Ne.symm hth) hy hx hstj hsti Rj I9j Ri I9i
  have kx := kind_of hwf Ri I9i hsti hx nbx
  have ky := kind_of hwf Rj I9j hstj hy nby
  have Hj := hist hw hwf j sj (Nat.le_of_lt hjlen) hsj
  cases kx with
  | retFin ea hlx hwx =>
    subst ea
    obtain ⟨_, _, hph, _⟩ := inv_callerRetFin hsti
    cases ky with
    | retFin eb _ _ => subst eb; exact absurd rfl hth
    | alloc f eb _ => subst eb; exact absurd rfl hth
    | loopErr _ _ hsel =>
      have := exited_mono hw (Nat.le_of_lt hij) hsi hsj hph
      rw [hsel] at this; simp at this
    | loopJob f k _ hly => rw [hlx, hly] at hloc; simp at hloc
    | workerJob w f k _ _ _ hly => rw [hlx, hly] at hloc; simp at hloc
  | alloc f ea hlx =>
    subst ea
    have hsend : IsSend c acts i si.caller.sent := ⟨si, hai, hsi, rfl⟩
    cases ky with
    | retFin eb _ _ => subst eb; exact absurd rfl hth
    | alloc f eb _ => subst eb; exact absurd rfl hth
    | loopErr _ hly _ => rw [hlx, hly] at hloc; simp at hloc
    | loopJob f' k htb hly hreg =>
      rw [hlx, hly] at hloc
      simp only [Loc.job.injEq] at hloc
      obtain ⟨_, rfl⟩ := hloc
      obtain ⟨r, _, hs, h⟩ := hb_send_loop hw hwf hrun hbj hsj htb hreg
      rw [send_unique hw hrun hsend hs]; exact h
    | workerJob w f' k htb hslot _ hly =>
      rw [hlx, hly] at hloc
      simp only [Loc.job.injEq] at hloc
      obtain ⟨_, rfl⟩ := hloc
      obtain ⟨r, q, _, _, hs, _, h, e⟩ := hb_send_worker hw hwf hrun hbj hsj htb hslot rfl
      rw [send_unique hw hrun hsend hs]; exact .tail h e
  | loopErr hta hlx hsel =>
    cases ky with
    | retFin eb _ _ =>
      subst eb
      obtain ⟨_, _, hph, _⟩ := inv_callerRetFin hstj
      obtain ⟨q, hqj, hclose⟩ := Hj.exited hph
      obtain ⟨sq, haq, hsq⟩ := hclose
      obtain ⟨sq', hstq, hnextq⟩ := pos_step hrun haq hsq
      have hiq : i < q := by
        rcases Nat.lt_trichotomy i q with h | h | h
        · exact h
        · subst h
          rw [hai] at haq; simp only [Option.some.injEq] at haq; subst haq
          obtain ⟨hd, _⟩ := inv_loopClose hw hsti
          rw [hsel] at hd; simp at hd
        · have hex : sq'.loop.phase = .exited := by
            obtain ⟨_, _, _, rfl⟩ := inv_loopClose hw hstq; rfl
          have := exited_mono hw (Nat.succ_le_of_lt h) hnextq hsi hex
          rw [hsel] at this; simp at this
      exact .tail (.single (edge_po hiq hai haq hsi hsq (by rw [hta]; rfl) (by rw [hta]; simp)))
        (edge_close_ret hqj ⟨sq, haq, hsq⟩ hbj hsj)
    | alloc f _ hly => rw [hlx, hly] at hloc; simp at hloc
    | loopErr htb _ _ => exact absurd (hta.trans htb.symm) hth
    | loopJob f k htb _ => exact absurd (hta.trans htb.symm) hth
    | workerJob w f k _ _ _ hly => rw [hlx, hly] at hloc; simp at hloc
  | loopJob f k hta hlx hreg hf1 hf2 hinv =>
    cases ky with
    | retFin _ hly _ => rw [hlx, hly] at hloc; simp at hloc
    | alloc f' eb hly =>
      subst eb
      rw [hlx, hly] at hloc
      simp only [Loc.job.injEq] at hloc
      obtain ⟨_, rfl⟩ := hloc
      obtain ⟨r, hr, hs, _⟩ := hb_send_loop hw hwf hrun hai hsi hta hreg
      have := send_unique hw hrun hs ⟨sj, hbj, hsj, rfl⟩
      omega
    | loopErr htb _ _ => exact absurd (hta.trans htb.symm) hth
    | loopJob f' k' htb _ => exact absurd (hta.trans htb.symm) hth
    | workerJob w f' k' htb hslot hwy hly hf' =>
      rw [hlx, hly] at hloc
      simp only [Loc.job.injEq] at hloc
      obtain ⟨rfl, rfl⟩ := hloc
      have hfi : f = .invalid := by rcases hf' with h | h | h <;> simp_all
      have hnd := hinv hfi
      obtain ⟨r, q, _, hqj, _, hdisp, _, e⟩ := hb_send_worker hw hwf hrun hbj hsj htb hslot rfl
      have hiq : i < q := by
        rcases Nat.lt_trichotomy i q with h | h | h
        · exact h
        · subst h
          obtain ⟨_, _, haq, _, _⟩ := hdisp
          rw [hai] at haq; simp only [Option.some.injEq] at haq; subst haq
          rcases acc_dispatch hx with h | ⟨_, h | ⟨_, h⟩⟩ <;> rw [hlx] at h <;> simp at h
        · exact absurd (disp_logged hw hrun hdisp h hsi) hnd
      obtain ⟨sq, _, haq, hsq, _⟩ := hdisp
      exact .tail (.single (edge_po hiq hai haq hsi hsq (by rw [hta]; rfl) (by rw [hta]; simp))) e
  | workerJob w f k hta hslot hwx hlx hf =>
    cases ky with
    | retFin _ hly _ => rw [hlx, hly] at hloc; simp at hloc
    | alloc f' eb hly =>
      subst eb
      rw [hlx, hly] at hloc
      simp only [Loc.job.injEq] at hloc
      obtain ⟨_, rfl⟩ := hloc
      obtain ⟨r, q, hr, hq, hs, _⟩ := hb_send_worker hw hwf hrun hai hsi hta hslot rfl
      have := send_unique hw hrun hs ⟨sj, hbj, hsj, rfl⟩
      omega
    | loopErr _ hly _ => rw [hlx, hly] at hloc; simp at hloc
    | loopJob f' k' htb hly _ _ _ hinv =>
      rw [hlx, hly] at hloc
      simp only [Loc.job.injEq] at hloc
      obtain ⟨rfl, rfl⟩ := hloc
      have hfi : f = .invalid := by rcases hf with h | h | h <;> simp_all
      obtain ⟨r, q, _, hqi, _, hdisp, _⟩ := hb_send_worker hw hwf hrun hai hsi hta hslot rfl
      exact absurd (disp_logged hw hrun hdisp (Nat.lt_trans hqi hij) hsj) (hinv hfi)
    | workerJob w' f' k' htb _ hwy _ _ =>
      rcases hwr with h | h
      · rw [hwx] at h; simp at h
      · rw [hwy] at h; simp at h



/-! ## 11. A message names its send -/

namespace Race

section Matching

variable {c : Cfg} {acts : List Act}

/-- `close(s.enqueuec)` stays executed. -/
theorem step_closed {s s' : State} {a : Act} (hw : c.wiring = Wiring.std) (hs : step c s a = some s')
    (h : s.caller.closed = true) : s'.caller.closed = true := by
  cases a with
  | callerSend => obtain ⟨_, _, _, _, rfl⟩ := inv_callerSend hs; exact h
  | callerClose => obtain ⟨_, _, rfl⟩ := inv_callerClose hs; rfl
  | callerRetCtx => obtain ⟨_, _, _, rfl⟩ := inv_callerRetCtx hw hs; exact h
  | callerRetFin => obtain ⟨_, _, _, rfl⟩ := inv_callerRetFin hs; exact h
  | loopEnq => obtain ⟨_, _, _, _, _, rfl⟩ := inv_loopEnq hs; exact h
  | loopEnqClosed => obtain ⟨_, _, _, _, rfl⟩ := inv_loopEnqClosed hs; exact h
  | loopDispatch w => obtain ⟨_, _, _, _, _, rfl⟩ := inv_loopDispatch hs; exact h
  | loopResult => obtain ⟨_, _, _, _, _, rfl⟩ := inv_loopResult hs; exact h
  | loopTick => obtain ⟨_, _, rfl⟩ := inv_loopTick hs; exact h
  | loopDrain => obtain ⟨_, _, _, _, rfl⟩ := inv_loopDrain hw hs; exact h
  | loopClose => obtain ⟨_, _, _, rfl⟩ := inv_loopClose hw hs; exact h
  | workerDecide w =>
    obtain ⟨_, _, hc⟩ := inv_workerDecide hw hs
    rcases hc with ⟨_, rfl⟩ | ⟨_, _, rfl⟩ | ⟨_, _, rfl⟩ <;> exact h
  | workerEnd w o cancel =>
    obtain ⟨j, _, rfl⟩ := inv_workerEnd hs
    simp [(afterBody_frame c s j o cancel).2.2.2.2, h]
  | workerPost w => obtain ⟨_, _, _, _, rfl⟩ := inv_workerPost hs; exact h
  | workerDiePost w => obtain ⟨_, _, _, rfl⟩ := inv_workerDiePost hw hs; exact h
  | workerExit w => obtain ⟨_, _, rfl⟩ := inv_workerExit hs; exact h
  | cancel x => obtain ⟨_, _, rfl⟩ := inv_cancel hs; exact h

/-- The result of job `k` has been posted on `donec`: it is in the buffer or the loop has
    processed it. -/
def Posted (k : Nat) (s : State) : Prop :=
  (∃ res, (k, res) ∈ s.donec) ∨ (job s.loop k).done = true

theorem step_posted {s s' : State} {a : Act} {k : Nat} (hw : c.wiring = Wiring.std) (hwf : WfCfg c)
    (R : Reach c s) (hs : step c s a = some s') (h : Posted k s) : Posted k s' := by
  have hlate : c.wiring.lateEnqueueChecksDone = true := by rw [hw]; rfl
  have hgate : c.wiring.gateDispatch = true := by rw [hw]; rfl
  have frame : s'.donec = s.donec → (∀ k, (job s'.loop k).done = (job s.loop k).done) → Posted k s' := by
    intro hd hl
    rcases h with ⟨res, hm⟩ | hdone
    · exact Or.inl ⟨res, by rw [hd]; exact hm⟩
    · exact Or.inr (by rw [hl]; exact hdone)
  have post : ∀ e, s'.donec = s.donec ++ [e] → s'.loop = s.loop → Posted k s' := by
    intro e hd hl
    rcases h with ⟨res, hm⟩ | hdone
    · exact Or.inl ⟨res, by rw [hd]; exact List.mem_append_left _ hm⟩
    · exact Or.inr (by rw [hl]; exact hdone)
  cases a with
  | callerSend => obtain ⟨_, _, _, _, rfl⟩ := inv_callerSend hs; exact frame rfl (fun _ => rfl)
  | callerClose => obtain ⟨_, _, rfl⟩ := inv_callerClose hs; exact frame rfl (fun _ => rfl)
  | callerRetCtx => obtain ⟨_, _, _, rfl⟩ := inv_callerRetCtx hw hs; exact frame rfl (fun _ => rfl)
  | callerRetFin => obtain ⟨_, _, _, rfl⟩ := inv_callerRetFin hs; exact frame rfl (fun _ => rfl)
  | loopEnq =>
    obtain ⟨j, rest, hp, _, he, rfl⟩ := inv_loopEnq hs
    have hf := R.i1.fifo hp
    rw [he] at hf
    have hjeq : j = s.loop.jobs.length := by
      have := hf.1; simp [List.range'] at this; exact this.1
    subst hjeq
    obtain ⟨_, fdone, _⟩ := enq_fields (c := c) (l := s.loop) hlate (hwf.2 _)
    exact frame rfl (by intro k; simp [fdone])
  | loopEnqClosed =>
    obtain ⟨_, _, _, _, rfl⟩ := inv_loopEnqClosed hs
    exact frame rfl (by intro k; simp [closed, job])
  | loopDispatch w =>
    obtain ⟨j, l, _, _, hd, rfl⟩ := inv_loopDispatch hs
    obtain ⟨_, _, _, _, _, _, _, _, _, fdone, _⟩ := dispatch_gate hgate hd
    exact frame rfl (by intro k; simp [fdone])
  | loopResult =>
    obtain ⟨j, r, rest, hp, hdc, rfl⟩ := inv_loopResult hs
    obtain ⟨_, _, _, fdone, _⟩ := result_fields (c := c) R.i1 hp hdc
    rcases h with ⟨res, hm⟩ | hdone
    · rw [hdc] at hm
      rcases List.mem_cons.mp hm with e | hm
      · simp only [Prod.mk.injEq] at e
        exact Or.inr (by have := fdone k; simp only [exitCheck_job] at this ⊢; rw [this]; simp [e.1])
      · exact Or.inl ⟨res, hm⟩
    · exact Or.inr (by have := fdone k; simp only [exitCheck_job] at this ⊢; rw [this]; simp [hdone])
  | loopTick => obtain ⟨_, _, rfl⟩ := inv_loopTick hs; exact frame rfl (by intro k; simp)
  | loopDrain => obtain ⟨_, _, _, _, rfl⟩ := inv_loopDrain hw hs; exact frame rfl (fun _ => rfl)
  | loopClose => obtain ⟨_, _, _, rfl⟩ := inv_loopClose hw hs; exact frame rfl (by intro k; simp [job])
  | workerDecide w =>
    obtain ⟨_, _, hc⟩ := inv_workerDecide hw hs
    rcases hc with ⟨_, rfl⟩ | ⟨_, _, rfl⟩ | ⟨_, _, rfl⟩ <;> exact frame rfl (fun _ => rfl)
  | workerEnd w o cancel =>
    obtain ⟨j, _, rfl⟩ := inv_workerEnd hs
    have F := afterBody_frame c s j o cancel
    exact frame (by simp [F.2.2.1]) (by intro k; simp [F.1])
  | workerPost w => obtain ⟨_, _, _, _, rfl⟩ := inv_workerPost hs; exact post _ rfl rfl
  | workerDiePost w => obtain ⟨_, _, _, rfl⟩ := inv_workerDiePost hw hs; exact post _ rfl rfl
  | workerExit w => obtain ⟨_, _, rfl⟩ := inv_workerExit hs; exact frame rfl (fun _ => rfl)
  | cancel x => obtain ⟨_, _, rfl⟩ := inv_cancel hs; exact frame rfl (fun _ => rfl)

/-- A job whose result has been posted is in no worker's hands. -/
theorem posted_not_held {s : State} {k w : Nat} {x : W} (R : Reach c s) (h : Posted k s)
    (hx : s.ws[w]? = some x) (hk : x.job? = some k) : False := by
  have hc := R.i1.cust k
  have h1 : 0 < s.ws.countP (W.holds k) := countP_pos_of hx (by simp [W.holds, hk])
  rcases h with ⟨res, hm⟩ | hdone
  · have h2 : 0 < s.donec.countP (fun e => e.1 == k) :=
      List.countP_pos_iff.mpr ⟨(k, res), hm, by simp⟩
    have h3 : ((job s.loop k).dispatched && !(job s.loop k).done).toNat ≤ 1 := Bool.toNat_le _
    simp only [custCount] at hc
    omega
  · have h0 : custCount s k = 0 := by rw [hc, hdone]; simp
    simp only [custCount] at h0
    omega


theorem rel_cases {s : State} {a : Act} {m : Msg} (hm : m ∈ rel s a) :
    (a = .callerSend ∧ m = .enq s.caller.sent) ∨ (a = .callerClose ∧ m = .enqClosed) ∨
    (∃ w x k, (a = .workerPost w ∨ a = .workerDiePost w) ∧ s.ws[w]? = some x ∧ x.job? = some k ∧ m = .done k) ∨
    (a = .loopClose ∧ m = .loopExited) := by
  cases a <;> simp only [rel, List.mem_cons, List.mem_nil_iff, or_false] at hm
  case callerSend => exact Or.inl ⟨rfl, hm⟩
  case callerClose => exact Or.inr (Or.inl ⟨rfl, hm⟩)
  case loopClose => exact Or.inr (Or.inr (Or.inr ⟨rfl, hm⟩))
  case workerPost w =>
    split at hm
    · next k r hk =>
      simp at hm
      exact Or.inr (Or.inr (Or.inl ⟨w, _, k, Or.inl rfl, hk, rfl, hm⟩))
    · simp at hm
  case workerDiePost w =>
    split at hm
    · next k hk =>
      simp at hm
      exact Or.inr (Or.inr (Or.inl ⟨w, _, k, Or.inr rfl, hk, rfl, hm⟩))
    · simp at hm

theorem rel_lt_absurd (hw : c.wiring = Wiring.std) (hwf : WfCfg c) {s : State}
    (hrun : run c (init c) acts = some s) {r r' : Nat} {a a' : Act} {sr sr' : State} {m : Msg}
    (ha : acts[r]? = some a) (hs : stAt c acts r = some sr) (hm : m ∈ rel sr a)
    (ha' : acts[r']? = some a') (hs' : stAt c acts r' = some sr') (hm' : m ∈ rel sr' a')
    (hlt : r < r') : False := by
  obtain ⟨sn, hst, hnext⟩ := pos_step hrun ha hs
  obtain ⟨sn', hst', _⟩ := pos_step hrun ha' hs'
  rcases rel_cases hm with ⟨rfl, rfl⟩ | ⟨rfl, rfl⟩ | ⟨w, x, k, hpost, hx, hk, rfl⟩ | ⟨rfl, rfl⟩
  · rcases rel_cases hm' with ⟨rfl, e⟩ | ⟨_, e⟩ | ⟨_, _, _, _, _, _, e⟩ | ⟨_, e⟩ <;> simp at e
    have := sent_after_send hw hrun ⟨sr, ha, hs, rfl⟩ hlt hs'
    omega
  · rcases rel_cases hm' with ⟨_, e⟩ | ⟨rfl, _⟩ | ⟨_, _, _, _, _, _, e⟩ | ⟨_, e⟩ <;> try (simp at e)
    have h1 : sn.caller.closed = true := by obtain ⟨_, _, rfl⟩ := inv_callerClose hst; rfl
    have h2 : sr'.caller.closed = true :=
      stAt_mono (c := c) (acts := acts) (fun u v => u.caller.closed = true → v.caller.closed = true)
        (fun _ h => h) (fun _ _ _ h1 h2 h => h2 (h1 h)) (fun _ _ _ hs => step_closed hw hs)
        (Nat.succ_le_of_lt hlt) hnext hs' h1
    obtain ⟨h3, _⟩ := inv_callerClose hst'
    rw [h2] at h3; simp at h3
  · rcases rel_cases hm' with ⟨_, e⟩ | ⟨_, e⟩ | ⟨w', x', k', _, hx', hk', e⟩ | ⟨_, e⟩ <;> try (simp at e)
    subst e
    -- after the post at `r`, the result of `k` is in `donec`
    have h1 : Posted k sn := by
      rcases hpost with rfl | rfl
      · obtain ⟨j, res, hj, _, rfl⟩ := inv_workerPost hst
        rw [hx] at hj; simp only [Option.some.injEq] at hj; subst hj
        simp [W.job?] at hk; subst hk
        exact Or.inl ⟨res, by simp⟩
      · obtain ⟨j, hj, _, rfl⟩ := inv_workerDiePost hw hst
        rw [hx] at hj; simp only [Option.some.injEq] at hj; subst hj
        simp [W.job?] at hk; subst hk
        exact Or.inl ⟨.exitErr, by simp⟩
    have h2 : Posted k sr' := by
      rw [stAt_run (Nat.succ_le_of_lt hlt) hnext] at hs'
      have := run_induct (c := c) (fun u => Reach c u ∧ Posted k u)
        (fun u a u' hu h => ⟨P3.reach_step hw hwf hu.1 h, step_posted hw hwf hu.1 h hu.2⟩) _ _ _
        ⟨(stAt_reach hw hwf hnext).1, h1⟩ hs'
      exact this.2
    exact posted_not_held (stAt_reach hw hwf hs').1 h2 hx' hk'
  · rcases rel_cases hm' with ⟨_, e⟩ | ⟨_, e⟩ | ⟨_, _, _, _, _, _, e⟩ | ⟨rfl, _⟩ <;> try (simp at e)
    have h1 : sn.loop.phase = .exited := by obtain ⟨_, _, _, rfl⟩ := inv_loopClose hw hst; rfl
    have h2 := exited_mono hw (Nat.succ_le_of_lt hlt) hnext hs' h1
    obtain ⟨h3, _⟩ := inv_loopClose hw hst'
    rw [h2] at h3; simp at h3

/-- A message names its send: every value (close) is sent (executed) at one position only, so
    the receive that acquires `m` after position `r` released it synchronises with exactly
    that send. -/
theorem rel_unique (hw : c.wiring = Wiring.std) (hwf : WfCfg c) {s : State}
    (hrun : run c (init c) acts = some s) {r r' : Nat} {a a' : Act} {sr sr' : State} {m : Msg}
    (ha : acts[r]? = some a) (hs : stAt c acts r = some sr) (hm : m ∈ rel sr a)
    (ha' : acts[r']? = some a') (hs' : stAt c acts r' = some sr') (hm' : m ∈ rel sr' a') : r = r' := by
  rcases Nat.lt_trichotomy r r' with h | h | h
  · exact (rel_lt_absurd hw hwf hrun ha hs hm ha' hs' hm' h).elim
  · exact h
  · exact (rel_lt_absurd hw hwf hrun ha' hs' hm' ha hs hm h).elim

end Matching

end Race

/-! ## 12. Bool form, examples, non-vacuity -/

/-- Bool form of `C12_race_free`. -/
theorem C12_race_free_b (c : Cfg) (hw : c.wiring = Wiring.std) (hwf : WfCfg c)
    (acts : List Act) (s : State) (hrun : run c (init c) acts = some s)
    (i j : Nat) (hij : i < j) (h : conflictB accesses c acts i j = true) : hb c acts i j := by
  unfold conflictB at h
  split at h
  · next a b si sj hai hbj hsi hsj =>
    simp only [Bool.and_eq_true, bne_iff_ne, ne_eq, List.any_eq_true, Bool.or_eq_true, beq_iff_eq] at h
    obtain ⟨hth, x, hx, y, hy, hloc, hwr⟩ := h
    exact C12_race_free c hw hwf acts s hrun i j hij a b hai hbj si sj hsi hsj x y hx hy hloc hwr hth
  · simp at h

/-! ### examples -/

/-- ContinueOnError, one worker, job 1 depends on job 0. -/
def exCfg : Cfg := { N := 1, coe := true, emit := false, deps := [[], [0]] }

/-- Job 0 fails while job 1 waits for it: the result arm (position 8) marks job 1 invalid; job 1
    is then handed to the worker (9), which reads `invalid` (10). -/
def exActs : List Act :=
  [.callerSend, .loopEnq, .callerSend, .loopDispatch 0, .workerDecide 0, .workerEnd 0 (.fail 7) false,
   .workerPost 0, .loopEnq, .loopResult, .loopDispatch 0, .workerDecide 0]

/-- The loop writes `invalid` of job 1 at position 8, the worker reads it at position 10; the
    happens-before chain is: 8 —program order (loop)→ 9 —`readyc` rendezvous→ 10. -/
theorem ex_invalid_chain :
    (run exCfg (init exCfg) exActs).isSome = true ∧
    (∃ s8, stAt exCfg exActs 8 = some s8 ∧ ∃ s10, stAt exCfg exActs 10 = some s10 ∧
      exActs[8]? = some .loopResult ∧ exActs[10]? = some (.workerDecide 0) ∧
      wr (.invalid 1) ∈ accesses exCfg s8 .loopResult ∧
      rd (.invalid 1) ∈ accesses exCfg s10 (.workerDecide 0)) ∧
    conflictB accesses exCfg exActs 8 10 = true ∧
    edgeB exCfg exActs 8 9 = true ∧ edgeB exCfg exActs 9 10 = true ∧
    edgeB exCfg exActs 8 10 = false := by
  decide

theorem ex_invalid_hb : hb exCfg exActs 8 10 :=
  .tail (.single ex_invalid_chain.2.2.2.1) ex_invalid_chain.2.2.2.2.1

/-- Happens-before is not everything-before: in the same run the caller's second `Enqueue` (2) and
    the first hand-off (3) are concurrent, and so are the worker deciding about job 0 (4) and the
    loop registering job 1 (7). -/
theorem ex_concurrent : ¬ hb exCfg exActs 2 3 ∧ ¬ hb exCfg exActs 4 7 := by
  decide

/-- A mutated access table: the worker, having received job `k`, also WRITES `k.done`
    (what `worker`'s doc comment forbids: "they MUST NOT modify it"). -/
def accessesMut (c : Cfg) (s : State) (a : Act) : List Access :=
  accesses c s a ++
  match a with
  | .workerDecide w =>
    match s.ws[w]? with
    | some (.holding k) => [wr (.done k)]
    | _ => []
  | _ => []

def mutCfg : Cfg := { N := 1, coe := false, emit := false, deps := [[], [0]] }

/-- The worker decides about job 0 (position 4) while the loop registers job 1, which depends on
    job 0, reading `dep.done` (position 5). -/
def mutActs : List Act :=
  [.callerSend, .loopEnq, .loopDispatch 0, .callerSend, .workerDecide 0, .loopEnq]

/-- Non-vacuity: with the mutated table positions 4 and 5 conflict (on `done` of job 0) and are NOT
    ordered by happens-before — a data race; with the real table they do not conflict. -/
theorem ex_mutated_race :
    (run mutCfg (init mutCfg) mutActs).isSome = true ∧
    conflictB accessesMut mutCfg mutActs 4 5 = true ∧ ¬ hb mutCfg mutActs 4 5 ∧
    conflictB accesses mutCfg mutActs 4 5 = false := by
  decide


/-- The theorem applied to the example run: the conflicting pair (8, 10) is ordered. -/
example : hb exCfg exActs 8 10 :=
  match h : run exCfg (init exCfg) exActs with
  | some s => C12_race_free_b exCfg rfl (wfCfg_of_b (by decide)) exActs s h 8 10 (by decide) ex_invalid_chain.2.2.1
  | none => by revert h; decide

/-! ## 13. The access table, for comparison with the facts extracted from the source

`accessTable` lists (field, goroutine root, "read"/"write") for every access of the model.  It is
COMPUTED from `accesses` along the probe runs below (so every entry is an access the model really
performs), and `accessTableK_complete` proves that, conversely, every access of the model in every
state is an entry.  The obligations at the end compare it with the facts the extractor
(`harness/cmd/extract/ownership.go`) reads off `scheduler/scheduler.go`. -/

def JField.name : JField → String
  | .ctx => "ctx" | .run => "run" | .deps => "deps" | .remaining => "remaining"
  | .consumers => "consumers" | .done => "done" | .err => "err" | .invalid => "invalid"

def SField.name : SField → String
  | .finishedc => "finishedc" | .enqueuec => "enqueuec" | .readyc => "readyc" | .donec => "donec"
  | .concurrency => "concurrency" | .continueOnError => "continueOnError"

/-- `Struct.field` as in `scheduler.go`; the two locations that are not struct fields are named
    `run:locals` and `errJobInvalid`. -/
def Loc.name : Loc → String
  | .job f _ => "ScheduledJob." ++ f.name
  | .serr => "Scheduler.err"
  | .sfield f => "Scheduler." ++ f.name
  | .loopLocal => "run:locals"
  | .sentinel => "errJobInvalid"

/-- The goroutine root as named by the extractor (`Extracted.fnThreads`). -/
def Thread.root : Thread → String
  | .caller => "caller" | .loop => "Scheduler.run" | .worker _ => "worker" | .env => "env"

def Loc.erase : Loc → Loc
  | .job f _ => .job f 0
  | l => l

def Thread.erase : Thread → Thread
  | .worker _ => .worker 0
  | t => t

/-- Probe runs: together they exercise every branch of `accesses`. -/
def probes : List (Cfg × List Act) :=
  [ -- ContinueOnError with emitter: late enqueue of a dependent of a failed job, invalid skip, tick
    ({ N := 1, coe := true, emit := true, deps := [[], [0], [0]] },
     [.callerSend, .loopEnq, .loopDispatch 0, .callerSend, .loopEnq, .workerDecide 0,
      .workerEnd 0 (.fail 7) false, .workerPost 0, .loopResult, .callerSend, .loopEnq, .loopTick,
      .loopDispatch 0, .workerDecide 0, .workerPost 0, .loopResult, .callerClose, .loopEnqClosed,
      .loopDispatch 0, .workerDecide 0, .workerPost 0, .loopResult, .loopClose, .callerRetFin]),
    -- fail-fast: early return, drain, late enqueue of a dependent of a successful job
    ({ N := 1, coe := false, emit := false, deps := [[], [0], []] },
     [.callerSend, .loopEnq, .loopDispatch 0, .workerDecide 0, .workerEnd 0 .ok false, .workerPost 0,
      .loopResult, .callerSend, .loopEnq, .loopDispatch 0, .workerDecide 0, .workerEnd 0 (.fail 3) false,
      .workerPost 0, .callerSend, .loopResult, .loopDrain, .callerClose, .loopClose, .callerRetFin]),
    -- cancellation: the worker skips for its context, `Wait` returns for its context
    ({ N := 1, coe := false, emit := false, deps := [[]] },
     [.callerSend, .loopEnq, .loopDispatch 0, .cancel 0, .workerDecide 0, .callerClose, .callerRetCtx]) ]

/-- (location with the job id erased, thread with the worker id erased, is-write) of every access
    performed along the probe runs. -/
def accessTableK : List (Loc × Thread × Bool) :=
  (probes.flatMap fun (c, acts) =>
    (List.range acts.length).flatMap fun i =>
      match acts[i]?, stAt c acts i with
      | some a, some s => (accesses c s a).map fun x => (x.loc.erase, a.thread.erase, x.write)
      | _, _ => []).eraseDups

/-- The access table of the model, in the extractor's vocabulary:
    (field, goroutine root, "read"/"write"). -/
def accessTable : List (String × String × String) :=
  accessTableK.map fun (l, t, w) => (l.name, t.root, if w then "write" else "read")


/-- `accessTableK`, evaluated. -/
def accessTableLit : List (Loc × Thread × Bool) :=
    [(.job .ctx 0, .caller, true), (.job .run 0, .caller, true), (.job .deps 0, .caller, true),
     (.job .remaining 0, .caller, true), (.job .consumers 0, .caller, true), (.job .done 0, .caller, true),
     (.job .err 0, .caller, true), (.job .invalid 0, .caller, true),
     (.sfield .enqueuec, .caller, false), (.sfield .finishedc, .loop, false), (.sfield .readyc, .loop, false),
     (.sfield .enqueuec, .loop, false),
     (.loopLocal, .loop, false), (.sfield .donec, .loop, false), (.job .deps 0, .loop, false),
     (.loopLocal, .loop, true), (.job .remaining 0, .loop, false), (.sfield .concurrency, .loop, false),
     (.job .done 0, .loop, false), (.job .consumers 0, .loop, false), (.job .consumers 0, .loop, true),
     (.job .remaining 0, .loop, true), (.job .ctx 0, .worker 0, false), (.job .invalid 0, .worker 0, false),
     (.job .run 0, .worker 0, false), (.job .done 0, .loop, true), (.job .err 0, .loop, true),
     (.sfield .continueOnError, .loop, false), (.sentinel, .loop, false), (.serr, .loop, false),
     (.serr, .loop, true), (.job .invalid 0, .loop, true), (.job .err 0, .loop, false),
     (.sentinel, .worker 0, false), (.sfield .finishedc, .caller, false),
     (.serr, .caller, false)]

set_option maxRecDepth 100000 in
theorem accessTableK_eq : accessTableK = accessTableLit := by decide

namespace Race

def tableHas (a : Act) (x : Access) : Bool :=
  accessTableLit.contains (x.loc.erase, a.thread.erase, x.write)

theorem all_ite {α : Type} {p : Prop} [Decidable p] {A B : List α} {f : α → Bool} :
    (if p then A else B).all f = if p then A.all f else B.all f := by
  split <;> rfl

macro "table_leaves" : tactic => `(tactic|
  repeat' (first
    | rfl
    | apply And.intro
    | (intro _ _)
    | split
    | (rw [Bool.and_eq_true])
    | (rw [List.all_eq_true])))

theorem accesses_all_tableHas (c : Cfg) (s : State) (a : Act) :
    (accesses c s a).all (tableHas a) = true := by
  cases a <;> simp only [accesses] <;> (try split) <;>
    simp only [loopIter, loopBottom, enqDepAcc, resultAcc, notifyAcc, List.all_append, List.all_cons, List.all_nil,
      List.all_flatMap, List.all_map, all_ite, Bool.and_true, Bool.and_eq_true, List.all_eq_true, Function.comp_def] <;>
    table_leaves

end Race

/-- Every access of the model, in every state, is an entry of the table. -/
theorem accessTableK_complete (c : Cfg) (s : State) (a : Act) (x : Access) (hx : x ∈ accesses c s a) :
    (x.loc.erase, a.thread.erase, x.write) ∈ accessTableK := by
  rw [accessTableK_eq]
  have := List.all_eq_true.mp (accesses_all_tableHas c s a) x hx
  simpa [tableHas] using this


set_option maxRecDepth 100000 in
theorem accessTable_eq : accessTable =
    [("ScheduledJob.ctx", "caller", "write"), ("ScheduledJob.run", "caller", "write"),
     ("ScheduledJob.deps", "caller", "write"), ("ScheduledJob.remaining", "caller", "write"),
     ("ScheduledJob.consumers", "caller", "write"), ("ScheduledJob.done", "caller", "write"),
     ("ScheduledJob.err", "caller", "write"), ("ScheduledJob.invalid", "caller", "write"),
     ("Scheduler.enqueuec", "caller", "read"), ("Scheduler.finishedc", "Scheduler.run", "read"),
     ("Scheduler.readyc", "Scheduler.run", "read"), ("Scheduler.enqueuec", "Scheduler.run", "read"),
     ("run:locals", "Scheduler.run", "read"),
     ("Scheduler.donec", "Scheduler.run", "read"), ("ScheduledJob.deps", "Scheduler.run", "read"),
     ("run:locals", "Scheduler.run", "write"), ("ScheduledJob.remaining", "Scheduler.run", "read"),
     ("Scheduler.concurrency", "Scheduler.run", "read"), ("ScheduledJob.done", "Scheduler.run", "read"),
     ("ScheduledJob.consumers", "Scheduler.run", "read"), ("ScheduledJob.consumers", "Scheduler.run", "write"),
     ("ScheduledJob.remaining", "Scheduler.run", "write"), ("ScheduledJob.ctx", "worker", "read"),
     ("ScheduledJob.invalid", "worker", "read"), ("ScheduledJob.run", "worker", "read"),
     ("ScheduledJob.done", "Scheduler.run", "write"), ("ScheduledJob.err", "Scheduler.run", "write"),
     ("Scheduler.continueOnError", "Scheduler.run", "read"), ("errJobInvalid", "Scheduler.run", "read"),
     ("Scheduler.err", "Scheduler.run", "read"), ("Scheduler.err", "Scheduler.run", "write"),
     ("ScheduledJob.invalid", "Scheduler.run", "write"), ("ScheduledJob.err", "Scheduler.run", "read"),
     ("errJobInvalid", "worker", "read"), ("Scheduler.finishedc", "caller", "read"),
     ("Scheduler.err", "caller", "read")] := by
  decide

/-- The five writes of the table that are not assignments in the source: the composite literal
    `&ScheduledJob{ctx: …, run: …, deps: …}` of `Enqueue` zero-initialises the other fields. -/
def allocZeroWrites : List (String × String × String) :=
  [("ScheduledJob.remaining", "caller", "write"), ("ScheduledJob.consumers", "caller", "write"),
   ("ScheduledJob.done", "caller", "write"), ("ScheduledJob.err", "caller", "write"),
   ("ScheduledJob.invalid", "caller", "write")]


/-! ### the obligations

To be added to `CffVerif/Tie/Facts.lean` (which then imports `CffVerif.Sched.HB`), verbatim — they
build against today's `Extracted/Facts.lean`:

```
namespace Tie
open Extracted

/-- The accesses of the source the model has to account for: reads and writes of the fields of
    `ScheduledJob` and `Scheduler`, and `Enqueue`'s initialisation of a job (`Config.New`'s
    initialisation of the `Scheduler` precedes the `go` statements that start the model's goroutines
    and is not an action of the model). -/
def c12Relevant (a : FieldAccess) : Bool :=
  (a.struct == "ScheduledJob" || a.struct == "Scheduler") && a.field != "*" &&
  (a.kind == "read" || a.kind == "write" || (a.kind == "init" && a.struct == "ScheduledJob"))

set_option maxRecDepth 100000 in
/-- **C12.** Every read / write of a `ScheduledJob` / `Scheduler` field in the source, by every
    thread its function may run on, is an access of the model (`Sched.accesses`), for which
    `Sched.C12_race_free` is proved. -/
theorem c12_access_table_covers_source :
    (fieldAccesses.filter c12Relevant).all (fun a =>
      !(threadsOf a.fn).isEmpty &&
      (threadsOf a.fn).all (fun t =>
        Sched.accessTable.contains
          (a.struct ++ "." ++ a.field, t, if a.kind == "read" then "read" else "write"))) = true := by
  decide

set_option maxRecDepth 100000 in
/-- **C12.** Conversely the model claims no access the source does not have (apart from the
    zero-initialisation of a new job, the locals of `run` and the package variable
    `errJobInvalid`, which are not field accesses). -/
theorem c12_access_table_within_source :
    Sched.accessTable.all (fun e =>
      Sched.allocZeroWrites.contains e || e.1 == "run:locals" || e.1 == "errJobInvalid" ||
      (fieldAccesses.filter c12Relevant).any (fun a =>
        e.1 == a.struct ++ "." ++ a.field && (threadsOf a.fn).contains e.2.1 &&
        e.2.2 == (if a.kind == "read" then "read" else "write"))) = true := by
  decide

end Tie
```

Below, the same two statements over a literal copy of today's facts, so that this file does not
depend on the generated module. -/

/-- Literal copy (2026-09-28) of the entries of `Extracted.fieldAccesses` about the structs
    `ScheduledJob` and `Scheduler`: (struct, field, kind, fn). -/
def extractedToday : List (String × String × String × String) :=
  [
   ("ScheduledJob", "*", "escape", "Scheduler.run"),
   ("ScheduledJob", "*", "escape", "Scheduler.run"),
   ("ScheduledJob", "consumers", "read", "Scheduler.run"),
   ("ScheduledJob", "consumers", "read", "Scheduler.run"),
   ("ScheduledJob", "consumers", "write", "Scheduler.run"),
   ("ScheduledJob", "ctx", "init", "Scheduler.Enqueue"),
   ("ScheduledJob", "ctx", "read", "worker"),
   ("ScheduledJob", "deps", "init", "Scheduler.Enqueue"),
   ("ScheduledJob", "deps", "read", "Scheduler.run"),
   ("ScheduledJob", "done", "read", "Scheduler.run"),
   ("ScheduledJob", "done", "write", "Scheduler.run"),
   ("ScheduledJob", "err", "read", "Scheduler.run"),
   ("ScheduledJob", "err", "write", "Scheduler.run"),
   ("ScheduledJob", "invalid", "read", "worker"),
   ("ScheduledJob", "invalid", "write", "Scheduler.run"),
   ("ScheduledJob", "invalid", "write", "Scheduler.run"),
   ("ScheduledJob", "remaining", "read", "Scheduler.run"),
   ("ScheduledJob", "remaining", "read", "Scheduler.run"),
   ("ScheduledJob", "remaining", "write", "Scheduler.run"),
   ("ScheduledJob", "remaining", "write", "Scheduler.run"),
   ("ScheduledJob", "run", "init", "Scheduler.Enqueue"),
   ("ScheduledJob", "run", "read", "worker"),
   ("Scheduler", "concurrency", "init", "Config.New"),
   ("Scheduler", "concurrency", "read", "Scheduler.run"),
   ("Scheduler", "concurrency", "read", "Scheduler.run"),
   ("Scheduler", "continueOnError", "init", "Config.New"),
   ("Scheduler", "continueOnError", "read", "Scheduler.run"),
   ("Scheduler", "donec", "init", "Config.New"),
   ("Scheduler", "donec", "read", "Scheduler.run"),
   ("Scheduler", "enqueuec", "init", "Config.New"),
   ("Scheduler", "enqueuec", "read", "Scheduler.Enqueue"),
   ("Scheduler", "enqueuec", "read", "Scheduler.Wait"),
   ("Scheduler", "enqueuec", "read", "Scheduler.run"),
   ("Scheduler", "enqueuec", "read", "Scheduler.run:defer"),
   ("Scheduler", "err", "read", "Scheduler.Wait"),
   ("Scheduler", "err", "read", "Scheduler.run"),
   ("Scheduler", "err", "write", "Scheduler.run"),
   ("Scheduler", "finishedc", "init", "Config.New"),
   ("Scheduler", "finishedc", "read", "Scheduler.Wait"),
   ("Scheduler", "finishedc", "read", "Scheduler.run"),
   ("Scheduler", "readyc", "init", "Config.New"),
   ("Scheduler", "readyc", "read", "Scheduler.run") ]

/-- Literal copy of `Extracted.fnThreads`. -/
def fnThreadsToday : List (String × List String) :=
  [ ("Config.New", ["caller"]), ("Config.New:go", ["Config.New:go"]), ("Scheduler.Enqueue", ["caller"]),
    ("Scheduler.Wait", ["caller"]), ("Scheduler.run", ["Scheduler.run"]),
    ("Scheduler.run:defer", ["Scheduler.run"]), ("idleWorkers", ["Scheduler.run"]), ("init", ["init"]),
    ("worker", ["worker"]), ("worker:defer", ["worker"]) ]

def threadsOfToday (fn : String) : List String :=
  match fnThreadsToday.find? (fun e => e.1 == fn) with
  | some e => e.2
  | none => []

/-- (struct, field, kind, fn) is an access the model has to account for (see `Tie.c12Relevant`). -/
def relevantToday (a : String × String × String × String) : Bool :=
  a.2.1 != "*" && (a.2.2.1 == "read" || a.2.2.1 == "write" || (a.2.2.1 == "init" && a.1 == "ScheduledJob"))

set_option maxRecDepth 100000 in
/-- Every read / write of a `ScheduledJob` / `Scheduler` field in (today's) source, by every thread
    its function may run on, is an access of the model. -/
theorem accessTable_covers_extractedToday :
    (extractedToday.filter relevantToday).all (fun a =>
      !(threadsOfToday a.2.2.2).isEmpty &&
      (threadsOfToday a.2.2.2).all (fun t =>
        accessTable.contains (a.1 ++ "." ++ a.2.1, t, if a.2.2.1 == "read" then "read" else "write"))) = true := by
  decide

set_option maxRecDepth 100000 in
/-- Conversely every entry of the table is an access of (today's) source, except the
    zero-initialisation of a new job and the two locations that are not struct fields. -/
theorem accessTable_within_extractedToday :
    accessTable.all (fun e =>
      allocZeroWrites.contains e || e.1 == "run:locals" || e.1 == "errJobInvalid" ||
      (extractedToday.filter relevantToday).any (fun a =>
        e.1 == a.1 ++ "." ++ a.2.1 && (threadsOfToday a.2.2.2).contains e.2.1 &&
        e.2.2 == (if a.2.2.1 == "read" then "read" else "write"))) = true := by
  decide

end Sched
