/-
  Bookkeeping invariants of the loop goroutine (J1–J9 of DESIGN App. F), as a predicate `Core`
  on `LoopSt`, with one preservation lemma per loop reaction.
-/
import CffVerif.Sched.Basic

namespace Sched.Loop

/-! ### regDeps -/

local notation "gj" => getJob

structure RegSpec (jobs : List JobRec) (meId : Nat) (me : JobRec) (ds : List Nat)
    (jobs' : List JobRec) (me' : JobRec) : Prop where
  len : jobs'.length = jobs.length
  jcons : ∀ d, (gj jobs' d).consumers = (gj jobs d).consumers ++
            List.replicate (if (gj jobs d).done then 0 else ds.count d) meId
  jrem : ∀ d, (gj jobs' d).remaining = (gj jobs d).remaining
  jdone : ∀ d, (gj jobs' d).done = (gj jobs d).done
  jfailed : ∀ d, (gj jobs' d).failed = (gj jobs d).failed
  jinv : ∀ d, (gj jobs' d).invalid = (gj jobs d).invalid
  jdisp : ∀ d, (gj jobs' d).dispatched = (gj jobs d).dispatched
  rem : me'.remaining = me.remaining + (ds.countP (fun d => !(gj jobs d).done) : Nat)
  inv : me'.invalid = (me.invalid || ds.any (fun d => (gj jobs d).done && (gj jobs d).failed))
  cons : me'.consumers = me.consumers
  done : me'.done = me.done
  failed : me'.failed = me.failed
  disp : me'.dispatched = me.dispatched

theorem regDeps_cons_done (w : Wiring) (hw : w.lateEnqueueChecksDone = true) (jobs : List JobRec)
    (meId : Nat) (me : JobRec) (d : Nat) (ds : List Nat) (h : (gj jobs d).done = true) :
    regDeps w jobs meId me (d :: ds) =
      regDeps w jobs meId (if (gj jobs d).failed then me.setInvalid else me) ds := by
  simp only [regDeps]
  simp [h, hw]

theorem regDeps_cons_undone (w : Wiring) (jobs : List JobRec)
    (meId : Nat) (me : JobRec) (d : Nat) (ds : List Nat) (h : (gj jobs d).done = false) :
    regDeps w jobs meId me (d :: ds) =
      regDeps w (jobs.set d ((gj jobs d).addConsumer meId)) meId me.incRem ds := by
  simp only [regDeps]
  simp [h]

theorem regDeps_spec (w : Wiring) (hw : w.lateEnqueueChecksDone = true) (meId : Nat) :
    ∀ (ds : List Nat) (jobs : List JobRec) (me : JobRec), (∀ d ∈ ds, d < jobs.length) →
      RegSpec jobs meId me ds (regDeps w jobs meId me ds).1 (regDeps w jobs meId me ds).2 := by
  intro ds
  induction ds with
  | nil =>
    intro jobs me _
    exact ⟨rfl, by intro d; simp [regDeps], fun _ => rfl, fun _ => rfl, fun _ => rfl, fun _ => rfl,
           fun _ => rfl, by simp [regDeps], by simp [regDeps], rfl, rfl, rfl, rfl⟩
  | cons d ds ih =>
    intro jobs me hlt
    have hd : d < jobs.length := hlt d (by simp)
    have hds : ∀ x ∈ ds, x < jobs.length := fun x hx => hlt x (by simp [hx])
    by_cases hdone : (gj jobs d).done = true
    · rw [regDeps_cons_done w hw jobs meId me d ds hdone]
      have S := ih jobs (if (gj jobs d).failed then me.setInvalid else me) hds
      refine ⟨S.len, ?_, S.jrem, S.jdone, S.jfailed, S.jinv, S.jdisp, ?_, ?_, ?_, ?_, ?_, ?_⟩
      · intro x
        rw [S.jcons x]
        by_cases hx : (gj jobs x).done = true
        · simp [hx]
        · have hne : ¬ d = x := by intro e; subst e; exact hx hdone
          simp [hx, List.count_cons, hne]
      · rw [S.rem]
        have : ((if (gj jobs d).failed then me.setInvalid else me)).remaining = me.remaining := by
          split <;> rfl
        rw [this, List.countP_cons]; simp [hdone]
      · rw [S.inv]
        by_cases hf : (gj jobs d).failed = true
        · simp [hf, hdone]
        · simp [hf, hdone]
      · rw [S.cons]; split <;> rfl
      · rw [S.done]; split <;> rfl
      · rw [S.failed]; split <;> rfl
      · rw [S.disp]; split <;> rfl
    · have hdone' : (gj jobs d).done = false := by simpa using hdone
      rw [regDeps_cons_undone w jobs meId me d ds hdone']
      have hds' : ∀ x ∈ ds, x < (jobs.set d ((gj jobs d).addConsumer meId)).length := by
        simpa using hds
      have S := ih (jobs.set d ((gj jobs d).addConsumer meId)) me.incRem hds'
      have g : ∀ x, gj (jobs.set d ((gj jobs d).addConsumer meId)) x =
                if x = d then (gj jobs d).addConsumer meId else gj jobs x := by
        intro x; rw [getJob_set]; simp [hd]
      have gdone : ∀ x, (gj (jobs.set d ((gj jobs d).addConsumer meId)) x).done = (gj jobs x).done := by
        intro x; rw [g]; split
        · next h => subst h; rfl
        · rfl
      have gfailed : ∀ x, (gj (jobs.set d ((gj jobs d).addConsumer meId)) x).failed = (gj jobs x).failed := by
        intro x; rw [g]; split
        · next h => subst h; rfl
        · rfl
      refine ⟨by simpa using S.len, ?_, ?_, ?_, ?_, ?_, ?_, ?_, ?_, S.cons, S.done, S.failed, S.disp⟩
      · intro x
        rw [S.jcons x, gdone x, g x]
        by_cases hx : x = d
        · subst hx
          simp [hdone', List.count_cons, List.replicate_succ]
        · have : ¬ d = x := fun e => hx e.symm
          simp [hx, List.count_cons, this]
      · intro x; rw [S.jrem x, g x]; split
        · next h => subst h; rfl
        · rfl
      · intro x; rw [S.jdone x, gdone x]
      · intro x; rw [S.jfailed x, gfailed x]
      · intro x; rw [S.jinv x, g x]; split
        · next h => subst h; rfl
        · rfl
      · intro x; rw [S.jdisp x, g x]; split
        · next h => subst h; rfl
        · rfl
      · rw [S.rem]
        simp only [gdone, List.countP_cons, hdone']
        simp; omega
      · rw [S.inv]; simp only [gdone, gfailed, List.any_cons, hdone']; simp


/-! ### list counting helpers -/

theorem count_le_countP {p : Nat → Bool} {a : Nat} (ha : p a = true) (l : List Nat) :
    l.count a ≤ l.countP p := by
  rw [List.count_eq_countP]
  apply List.countP_mono_left
  intro x _ hx
  have : x = a := by simpa using hx
  subst this; exact ha

theorem countP_remove {p : Nat → Bool} {a : Nat} (ha : p a = true) (l : List Nat) :
    l.countP (fun d => p d && !(d == a)) + l.count a = l.countP p := by
  induction l with
  | nil => simp
  | cons x xs ih =>
    simp only [List.countP_cons, List.count_cons]
    by_cases hx : x = a
    · subst hx; simp [ha]; omega
    · have : (x == a) = false := by simpa using hx
      simp [this]; omega

/-! ### markInvalid -/

structure SameBut (l l' : LoopSt) : Prop where
  len : l'.jobs.length = l.jobs.length
  ready : l'.ready = l.ready
  pending : l'.pending = l.pending
  ongoing : l'.ongoing = l.ongoing
  waiting : l'.waiting = l.waiting
  phase : l'.phase = l.phase
  enqNil : l'.enqNil = l.enqNil
  err : l'.err = l.err

theorem markInvalid_spec : ∀ (cs : List Nat) (l : LoopSt),
    SameBut l (markInvalid l cs) ∧
    (∀ k, (job (markInvalid l cs) k).invalid = ((job l k).invalid || (decide (k ∈ cs) && decide (k < l.jobs.length)))) ∧
    (∀ k, (job (markInvalid l cs) k).remaining = (job l k).remaining) ∧
    (∀ k, (job (markInvalid l cs) k).consumers = (job l k).consumers) ∧
    (∀ k, (job (markInvalid l cs) k).done = (job l k).done) ∧
    (∀ k, (job (markInvalid l cs) k).failed = (job l k).failed) ∧
    (∀ k, (job (markInvalid l cs) k).dispatched = (job l k).dispatched) := by
  intro cs
  induction cs with
  | nil => intro l; exact ⟨⟨rfl, rfl, rfl, rfl, rfl, rfl, rfl, rfl⟩, by simp [markInvalid], fun _ => rfl, fun _ => rfl, fun _ => rfl, fun _ => rfl, fun _ => rfl⟩
  | cons c cs ih =>
    intro l
    simp only [markInvalid]
    obtain ⟨hs, h1, h2, h3, h4, h5, h6⟩ := ih (setJob l c (job l c).setInvalid)
    refine ⟨⟨by simpa using hs.len, by simpa using hs.ready, by simpa using hs.pending, by simpa using hs.ongoing,
              by simpa using hs.waiting, by simpa using hs.phase, by simpa using hs.enqNil, by simpa using hs.err⟩, ?_, ?_, ?_, ?_, ?_, ?_⟩
    · intro k; rw [h1 k, job_setJob]
      by_cases hk : k = c
      · subst hk
        by_cases hl : k < l.jobs.length <;> simp [hl]
      · simp [hk]
    · intro k; rw [h2 k, job_setJob]; split
      · next h => obtain ⟨rfl, _⟩ := h; rfl
      · rfl
    · intro k; rw [h3 k, job_setJob]; split
      · next h => obtain ⟨rfl, _⟩ := h; rfl
      · rfl
    · intro k; rw [h4 k, job_setJob]; split
      · next h => obtain ⟨rfl, _⟩ := h; rfl
      · rfl
    · intro k; rw [h5 k, job_setJob]; split
      · next h => obtain ⟨rfl, _⟩ := h; rfl
      · rfl
    · intro k; rw [h6 k, job_setJob]; split
      · next h => obtain ⟨rfl, _⟩ := h; rfl
      · rfl

/-! ### notify -/

structure NotifySpec (l : LoopSt) (cs : List Nat) (l' : LoopSt) : Prop where
  len : l'.jobs.length = l.jobs.length
  pending : l'.pending = l.pending
  ongoing : l'.ongoing = l.ongoing
  phase : l'.phase = l.phase
  enqNil : l'.enqNil = l.enqNil
  err : l'.err = l.err
  rem : ∀ k, (job l' k).remaining = (job l k).remaining - (cs.count k : Nat)
  consumers : ∀ k, (job l' k).consumers = (job l k).consumers
  done : ∀ k, (job l' k).done = (job l k).done
  failed : ∀ k, (job l' k).failed = (job l k).failed
  invalid : ∀ k, (job l' k).invalid = (job l k).invalid
  dispatched : ∀ k, (job l' k).dispatched = (job l k).dispatched
  nodup : l'.ready.Nodup
  mem : ∀ k, k ∈ l'.ready ↔ (k ∈ l.ready ∨ (0 < cs.count k ∧ (job l k).remaining = (cs.count k : Nat)))
  waitReady : l'.waiting + (l'.ready.length : Int) = l.waiting + (l.ready.length : Int)

theorem notify_spec : ∀ (cs : List Nat) (l : LoopSt),
    (∀ k ∈ cs, k < l.jobs.length) →
    (∀ k, ((cs.count k : Nat) : Int) ≤ (job l k).remaining) →
    l.ready.Nodup → (∀ k ∈ l.ready, (job l k).remaining = 0) →
    NotifySpec l cs (notify l cs) := by
  intro cs
  induction cs with
  | nil =>
    intro l _ _ hn _
    exact ⟨rfl, rfl, rfl, rfl, rfl, rfl, by simp [notify], fun _ => rfl, fun _ => rfl, fun _ => rfl, fun _ => rfl,
           fun _ => rfl, hn, by simp [notify], rfl⟩
  | cons c cs ih =>
    intro l hlt hle hn hr0
    have hc : c < l.jobs.length := hlt c (by simp)
    have hcs : ∀ k ∈ cs, k < l.jobs.length := fun k hk => hlt k (by simp [hk])
    have hcle := hle c
    simp only [List.count_cons_self] at hcle
    -- the state after processing `c`
    simp only [notify]
    generalize hl1 : (if ((job l c).decRem.remaining == 0) = true
        then { setJob l c (job l c).decRem with waiting := (setJob l c (job l c).decRem).waiting - 1,
                                                  ready := (setJob l c (job l c).decRem).ready ++ [c] }
        else setJob l c (job l c).decRem) = l1
    have jl1 : ∀ k, job l1 k = if k = c then (job l c).decRem else job l k := by
      intro k; subst hl1
      split
      · show job (setJob l c (job l c).decRem) k = _
        rw [job_setJob]; simp [hc]
      · rw [job_setJob]; simp [hc]
    have len1 : l1.jobs.length = l.jobs.length := by subst hl1; split <;> simp
    have rem1 : ∀ k, (job l1 k).remaining = (job l k).remaining - (if k = c then 1 else 0) := by
      intro k; rw [jl1]; split
      · next h => subst h; simp
      · simp
    have hzero : ((job l c).decRem.remaining == 0) = true ↔ (job l c).remaining = 1 := by
      simp; omega
    have ready1 : l1.ready = if (job l c).remaining = 1 then l.ready ++ [c] else l.ready := by
      subst hl1
      by_cases h1 : (job l c).remaining = 1
      · rw [if_pos (hzero.mpr h1)]; simp [h1]
      · have : ¬ ((job l c).decRem.remaining == 0) = true := fun h => h1 (hzero.mp h)
        rw [if_neg this]; simp [h1]
    have wait1 : l1.waiting = if (job l c).remaining = 1 then l.waiting - 1 else l.waiting := by
      subst hl1
      by_cases h1 : (job l c).remaining = 1
      · rw [if_pos (hzero.mpr h1)]; simp [h1]
      · have : ¬ ((job l c).decRem.remaining == 0) = true := fun h => h1 (hzero.mp h)
        rw [if_neg this]; simp [h1]
    have same1 : l1.pending = l.pending ∧ l1.ongoing = l.ongoing ∧ l1.phase = l.phase ∧ l1.enqNil = l.enqNil ∧ l1.err = l.err := by
      subst hl1; split <;> simp
    have cnotin : (job l c).remaining = 1 → c ∉ l.ready := by
      intro h1 hm; have := hr0 c hm; omega
    -- hypotheses for the induction
    have hle1 : ∀ k, ((cs.count k : Nat) : Int) ≤ (job l1 k).remaining := by
      intro k
      have := hle k
      rw [rem1]
      by_cases hk : k = c
      · subst hk; simp only [List.count_cons_self] at this; simp; omega
      · have hck : (c == k) = false := by simpa using (fun e => hk e.symm)
        simp only [List.count_cons, hck] at this; simp [hk]; omega
    have hn1 : l1.ready.Nodup := by
      rw [ready1]; split
      · next h1 =>
        rw [List.nodup_append]
        refine ⟨hn, by simp, ?_⟩
        intro a ha b hb; simp at hb; subst hb
        intro e; subst e; exact cnotin h1 ha
      · exact hn
    have hr01 : ∀ k ∈ l1.ready, (job l1 k).remaining = 0 := by
      intro k hk
      rw [ready1] at hk
      rw [rem1]
      split at hk
      · next h1 =>
        simp at hk
        rcases hk with hk | hk
        · have := hr0 k hk
          have : k ≠ c := by intro e; subst e; omega
          simp [this]; assumption
        · subst hk; simp; omega
      · have h0 := hr0 k hk
        have : k ≠ c := by
          intro e; subst e; omega
        simp [this]; exact h0
    have S := ih l1 (by simpa [len1] using hcs) hle1 hn1 hr01
    refine ⟨by rw [S.len, len1], by rw [S.pending, same1.1], by rw [S.ongoing, same1.2.1], by rw [S.phase, same1.2.2.1],
            by rw [S.enqNil, same1.2.2.2.1], by rw [S.err, same1.2.2.2.2], ?_, ?_, ?_, ?_, ?_, ?_, S.nodup, ?_, ?_⟩
    · intro k; rw [S.rem, rem1]
      by_cases hk : k = c
      · subst hk; simp only [List.count_cons_self]; simp; omega
      · have hck : (c == k) = false := by simpa using (fun e => hk e.symm)
        simp only [List.count_cons, hck]; simp [hk]
    · intro k; rw [S.consumers, jl1]; split
      · next h => subst h; rfl
      · rfl
    · intro k; rw [S.done, jl1]; split
      · next h => subst h; rfl
      · rfl
    · intro k; rw [S.failed, jl1]; split
      · next h => subst h; rfl
      · rfl
    · intro k; rw [S.invalid, jl1]; split
      · next h => subst h; rfl
      · rfl
    · intro k; rw [S.dispatched, jl1]; split
      · next h => subst h; rfl
      · rfl
    · intro k
      rw [S.mem, ready1, rem1]
      by_cases hk : k = c
      · subst hk
        simp only [List.count_cons_self, if_true]
        by_cases h1 : (job l k).remaining = 1
        · have hc0 : cs.count k = 0 := by
            have := hle k; simp only [List.count_cons_self] at this; omega
          simp [h1, hc0]
        · simp only [h1, if_false]
          constructor
          · rintro (h | ⟨hp, he⟩)
            · exact Or.inl h
            · right; refine ⟨by omega, by omega⟩
          · rintro (h | ⟨_, he⟩)
            · exact Or.inl h
            · right
              have : 0 < cs.count k := by
                rcases Nat.eq_zero_or_pos (cs.count k) with h0 | h0
                · rw [h0] at he; simp at he; exact absurd he h1
                · exact h0
              exact ⟨this, by omega⟩
      · have hck : (c == k) = false := by simpa using (fun e => hk e.symm)
        simp only [List.count_cons, hck, hk, if_false]
        by_cases h1 : (job l c).remaining = 1
        · simp [h1, hk]
        · simp [h1]
    · rw [S.waitReady, ready1, wait1]
      split
      · simp; omega
      · rfl


/-! ### the loop's bookkeeping invariant -/

structure Core (c : Cfg) (l : LoopSt) : Prop where
  /-- J1: `remaining` counts the occurrences of undone dependencies -/
  rem : ∀ j, j < l.jobs.length →
          (job l j).remaining = ((c.depsOf j).countP (fun d => !(job l d).done) : Nat)
  /-- J2: an undone job's `consumers` lists each registered dependent once per occurrence -/
  cons : ∀ d, d < l.jobs.length → (job l d).done = false →
          ∀ j, (job l d).consumers.count j = if j < l.jobs.length then (c.depsOf j).count d else 0
  /-- J3 -/
  readyNodup : l.ready.Nodup
  readyIff : ∀ j, j ∈ l.ready ↔
      (j < l.jobs.length ∧ (job l j).remaining = 0 ∧ (job l j).dispatched = false)
  /-- J6 -/
  dispRem : ∀ j, (job l j).dispatched = true → (job l j).remaining = 0
  doneDisp : ∀ j, (job l j).done = true → (job l j).dispatched = true
  /-- J7 -/
  inval : ∀ j, j < l.jobs.length →
      ((job l j).invalid = true ↔ ∃ d ∈ c.depsOf j, (job l d).done = true ∧ (job l d).failed = true)
  /-- J9 -/
  ffClean : c.coe = false → ∀ d, (job l d).done = true → (job l d).failed = false
  failedDone : ∀ d, (job l d).failed = true → (job l d).done = true

theorem core_init (c : Cfg) : Core c {} := by
  refine ⟨by intro j h; simp at h, by intro d h; simp at h, by simp, ?_, ?_, ?_, by intro j h; simp at h, ?_, ?_⟩
  · intro j; simp
  · intro j h; simp [job, getJob] at h
  · intro j h; simp [job, getJob] at h
  · intro _ d h; simp [job, getJob] at h
  · intro d h; simp [job, getJob] at h

theorem core_exitCheck {c : Cfg} {l : LoopSt} (h : Core c l) : Core c (exitCheck l) := by
  obtain ⟨h1, h2, h3, h4, h5, h6, h7, h8, h9⟩ := h
  exact ⟨by simpa using h1, by simpa using h2, by simpa using h3, by simpa using h4, by simpa using h5,
         by simpa using h6, by simpa using h7, by simpa using h8, by simpa using h9⟩

theorem core_closed {c : Cfg} {l : LoopSt} (h : Core c l) : Core c (closed l) := by
  obtain ⟨h1, h2, h3, h4, h5, h6, h7, h8, h9⟩ := h
  exact ⟨h1, h2, h3, h4, h5, h6, h7, h8, h9⟩

/-- dispatch arm -/
theorem core_dispatch {c : Cfg} {l l' : LoopSt} {j : Nat} (h : Core c l)
    (hd : dispatch c l = some (j, l')) :
    Core c l' ∧ j < l.jobs.length ∧ (job l j).dispatched = false ∧ (job l j).done = false
      ∧ (job l' j).dispatched = true := by
  unfold dispatch at hd
  split at hd
  · simp at hd
  · next j0 rest hready =>
    split at hd
    · simp at hd
    · simp only [Option.some.injEq, Prod.mk.injEq] at hd
      obtain ⟨rfl, rfl⟩ := hd
      have hj : j0 ∈ l.ready := by simp [hready]
      obtain ⟨hjlt, hjrem, hjdisp⟩ := (h.readyIff j0).mp hj
      have hnd := h.readyNodup
      rw [hready, List.nodup_cons] at hnd
      have hjdone : (job l j0).done = false := by
        cases hd' : (job l j0).done with
        | false => rfl
        | true => have := h.doneDisp j0 hd'; simp [hjdisp] at this
      have jj : ∀ k, job { setJob l j0 (job l j0).setDispatched with ready := rest, ongoing := l.ongoing + 1 } k
                  = if k = j0 then (job l j0).setDispatched else job l k := by
        intro k
        show job (setJob l j0 (job l j0).setDispatched) k = _
        rw [job_setJob]; simp [hjlt]
      have fdone : ∀ k, (job { setJob l j0 (job l j0).setDispatched with ready := rest, ongoing := l.ongoing + 1 } k).done = (job l k).done := by
        intro k; rw [jj]; split
        · next e => subst e; rfl
        · rfl
      refine ⟨⟨?_, ?_, ?_, ?_, ?_, ?_, ?_, ?_, ?_⟩, hjlt, hjdisp, hjdone, ?_⟩
      · intro k hk
        have hk' : k < l.jobs.length := by simpa using hk
        have := h.rem k hk'
        simp only [fdone]
        rw [jj]; split
        · next e => subst e; simpa using this
        · exact this
      · intro d hdl hdd k
        have hdl' : d < l.jobs.length := by simpa using hdl
        rw [fdone] at hdd
        have := h.cons d hdl' hdd k
        rw [jj]; simp only [setJob_length]
        split
        · next e => subst e; simpa using this
        · exact this
      · exact hnd.2
      · intro k
        simp only [setJob_length]
        rw [jj]
        by_cases hk : k = j0
        · subst hk
          simp [hnd.1]
        · simp only [hk, if_false]
          rw [← h.readyIff k, hready]; simp [hk]
      · intro k hk
        rw [jj] at hk ⊢
        split
        · next e => subst e; simpa using hjrem
        · next e => simp only [e, if_false] at hk; exact h.dispRem k hk
      · intro k hk
        rw [fdone] at hk
        rw [jj]; split
        · rfl
        · exact h.doneDisp k hk
      · intro k hk
        have hk' : k < l.jobs.length := by simpa using hk
        have := h.inval k hk'
        have e1 : (job { setJob l j0 (job l j0).setDispatched with ready := rest, ongoing := l.ongoing + 1 } k).invalid = (job l k).invalid := by
          rw [jj]; split
          · next e => subst e; rfl
          · rfl
        rw [e1, this]
        constructor
        · rintro ⟨d, hd, h1, h2⟩
          refine ⟨d, hd, by rw [fdone]; exact h1, ?_⟩
          rw [jj]; split
          · next e => subst e; simpa using h2
          · exact h2
        · rintro ⟨d, hd, h1, h2⟩
          refine ⟨d, hd, by rw [fdone] at h1; exact h1, ?_⟩
          rw [jj] at h2; split at h2
          · next e => subst e; simpa using h2
          · exact h2
      · intro hcoe d hdd
        rw [fdone] at hdd
        have := h.ffClean hcoe d hdd
        rw [jj]; split
        · next e => subst e; simpa using this
        · exact this
      · intro d hf
        rw [fdone]
        apply h.failedDone
        rw [jj] at hf; split at hf
        · next e => subst e; simpa using hf
        · exact hf
      · rw [jj]; simp


/-! ### enqueue arm -/

theorem enq_jobs (c : Cfg) (l : LoopSt) (j : Nat) :
    (enq c l j).jobs = (regDeps c.wiring l.jobs j {} (c.depsOf j)).1 ++ [(regDeps c.wiring l.jobs j {} (c.depsOf j)).2] := by
  unfold enq; simp only []; split <;> rfl

theorem enq_ready (c : Cfg) (l : LoopSt) (j : Nat) :
    (enq c l j).ready = if (regDeps c.wiring l.jobs j {} (c.depsOf j)).2.remaining = 0 then l.ready ++ [j] else l.ready := by
  unfold enq; simp only []
  by_cases h : (regDeps c.wiring l.jobs j {} (c.depsOf j)).2.remaining = 0
  · simp [h]
  · simp [h]

theorem enq_waiting (c : Cfg) (l : LoopSt) (j : Nat) :
    (enq c l j).waiting = if (regDeps c.wiring l.jobs j {} (c.depsOf j)).2.remaining = 0 then l.waiting else l.waiting + 1 := by
  unfold enq; simp only []
  by_cases h : (regDeps c.wiring l.jobs j {} (c.depsOf j)).2.remaining = 0
  · simp [h]
  · simp [h]

theorem enq_others (c : Cfg) (l : LoopSt) (j : Nat) :
    (enq c l j).pending = l.pending + 1 ∧ (enq c l j).ongoing = l.ongoing ∧ (enq c l j).phase = l.phase
    ∧ (enq c l j).enqNil = l.enqNil ∧ (enq c l j).err = l.err := by
  unfold enq; simp only []; split <;> simp

theorem core_enq {c : Cfg} {l : LoopSt} {j : Nat} (hw : c.wiring.lateEnqueueChecksDone = true)
    (hwf : ∀ d ∈ c.depsOf j, d < j) (hwf2 : ∀ k, ∀ d ∈ c.depsOf k, d < k)
    (h : Core c l) (hj : j = l.jobs.length) : Core c (enq c l j) := by
  subst hj
  have hlt : ∀ d ∈ c.depsOf l.jobs.length, d < l.jobs.length := hwf
  have S := regDeps_spec c.wiring hw l.jobs.length (c.depsOf l.jobs.length) l.jobs {} hlt
  generalize hjobs1 : (regDeps c.wiring l.jobs l.jobs.length {} (c.depsOf l.jobs.length)).1 = jobs1 at S
  generalize hme : (regDeps c.wiring l.jobs l.jobs.length {} (c.depsOf l.jobs.length)).2 = me at S
  have ej : (enq c l l.jobs.length).jobs = jobs1 ++ [me] := by rw [enq_jobs, hjobs1, hme]
  have er : (enq c l l.jobs.length).ready = if me.remaining = 0 then l.ready ++ [l.jobs.length] else l.ready := by
    rw [enq_ready, hme]
  have elen : (enq c l l.jobs.length).jobs.length = l.jobs.length + 1 := by rw [ej]; simp [S.len]
  -- the records after registration
  have jlow : ∀ k, k < l.jobs.length → job (enq c l l.jobs.length) k = getJob jobs1 k := by
    intro k hk; rw [job, ej, getJob_append_left _ _ _ (by rw [S.len]; exact hk)]
  have jme : job (enq c l l.jobs.length) l.jobs.length = me := by
    rw [job, ej, ← S.len, getJob_append_self]
  have jhigh : ∀ k, l.jobs.length < k → job (enq c l l.jobs.length) k = {} := by
    intro k hk; apply job_of_ge; rw [elen]; omega
  have meRem : me.remaining = ((c.depsOf l.jobs.length).countP (fun d => !(job l d).done) : Nat) := by
    have := S.rem; simpa [job] using this
  have meCons : me.consumers = [] := S.cons
  have meDone : me.done = false := S.done
  have meFailed : me.failed = false := S.failed
  have meDisp : me.dispatched = false := S.disp
  -- `done`/`failed` of every job are unchanged for registered ones, false for the new one
  have fdone : ∀ k, (job (enq c l l.jobs.length) k).done = (job l k).done := by
    intro k
    rcases Nat.lt_trichotomy k l.jobs.length with hk | hk | hk
    · rw [jlow k hk, S.jdone]; rfl
    · subst hk; rw [jme, meDone, job_of_ge l _ (Nat.le_refl _)]
    · rw [jhigh k hk, job_of_ge l _ (Nat.le_of_lt hk)]
  have ffailed : ∀ k, (job (enq c l l.jobs.length) k).failed = (job l k).failed := by
    intro k
    rcases Nat.lt_trichotomy k l.jobs.length with hk | hk | hk
    · rw [jlow k hk, S.jfailed]; rfl
    · subst hk; rw [jme, meFailed, job_of_ge l _ (Nat.le_refl _)]
    · rw [jhigh k hk, job_of_ge l _ (Nat.le_of_lt hk)]
  have fdisp : ∀ k, (job (enq c l l.jobs.length) k).dispatched = (job l k).dispatched := by
    intro k
    rcases Nat.lt_trichotomy k l.jobs.length with hk | hk | hk
    · rw [jlow k hk, S.jdisp]; rfl
    · subst hk; rw [jme, meDisp, job_of_ge l _ (Nat.le_refl _)]
    · rw [jhigh k hk, job_of_ge l _ (Nat.le_of_lt hk)]
  have frem : ∀ k, k < l.jobs.length → (job (enq c l l.jobs.length) k).remaining = (job l k).remaining := by
    intro k hk; rw [jlow k hk, S.jrem]; rfl
  refine ⟨?_, ?_, ?_, ?_, ?_, ?_, ?_, ?_, ?_⟩
  · -- rem
    intro k hk
    rw [elen] at hk
    simp only [fdone]
    rcases Nat.lt_or_ge k l.jobs.length with hk' | hk'
    · rw [frem k hk']; exact h.rem k hk'
    · have : k = l.jobs.length := by omega
      subst this; rw [jme]; exact meRem
  · -- cons
    intro d hd hdd k
    rw [elen] at hd
    rw [fdone] at hdd
    rw [elen]
    rcases Nat.lt_or_ge d l.jobs.length with hd' | hd'
    · rw [jlow d hd', S.jcons d]
      have hdd' : (getJob l.jobs d).done = false := hdd
      simp only [hdd', Bool.false_eq_true, if_false, List.count_append, List.count_replicate]
      have old := h.cons d hd' hdd k
      rw [show (getJob l.jobs d).consumers = (job l d).consumers from rfl, old]
      rcases Nat.lt_trichotomy k l.jobs.length with hk | hk | hk
      · have : (l.jobs.length == k) = false := by simp; omega
        simp [hk, this, Nat.lt_succ_of_lt hk]
      · subst hk; simp
      · have : (l.jobs.length == k) = false := by simp; omega
        have h1 : ¬ k < l.jobs.length := by omega
        have h2 : ¬ k < l.jobs.length + 1 := by omega
        simp [this, h1, h2]
    · have : d = l.jobs.length := by omega
      subst this
      rw [jme, meCons]
      simp only [List.count_nil]
      split
      · next hk =>
        symm; apply List.count_eq_zero_of_not_mem
        intro hm; have := hwf2 k _ hm; omega
      · rfl
  · -- readyNodup
    rw [er]; split
    · rw [List.nodup_append]
      refine ⟨h.readyNodup, by simp, ?_⟩
      intro a ha b hb; simp at hb; subst hb
      have := ((h.readyIff a).mp ha).1; omega
    · exact h.readyNodup
  · -- readyIff
    intro k
    rw [elen, fdisp, er]
    rcases Nat.lt_trichotomy k l.jobs.length with hk | hk | hk
    · rw [frem k hk]
      have := h.readyIff k
      split
      · simp only [List.mem_append, List.mem_singleton]
        constructor
        · rintro (hm | e)
          · have := this.mp hm; exact ⟨by omega, this.2.1, this.2.2⟩
          · omega
        · rintro ⟨_, h1, h2⟩; exact Or.inl (this.mpr ⟨hk, h1, h2⟩)
      · constructor
        · intro hm; have := this.mp hm; exact ⟨by omega, this.2.1, this.2.2⟩
        · rintro ⟨_, h1, h2⟩; exact this.mpr ⟨hk, h1, h2⟩
    · subst hk
      rw [jme, job_of_ge l _ (Nat.le_refl _)]
      have hnot : l.jobs.length ∉ l.ready := by
        intro hm; have := ((h.readyIff _).mp hm).1; omega
      split
      · next h0 => simp [h0]
      · next h0 => simp [h0, hnot]
    · have hnot : k ∉ l.ready := by
        intro hm; have := ((h.readyIff _).mp hm).1; omega
      have : ¬ k < l.jobs.length + 1 := by omega
      split
      · simp [hnot, this]; omega
      · simp [hnot, this]
  · -- dispRem
    intro k hk
    rw [fdisp] at hk
    have hk' : k < l.jobs.length := by
      rcases Nat.lt_or_ge k l.jobs.length with hk' | hk'
      · exact hk'
      · rw [job_of_ge l k hk'] at hk; simp at hk
    rw [frem k hk']; exact h.dispRem k hk
  · intro k hk; rw [fdone] at hk; rw [fdisp]; exact h.doneDisp k hk
  · -- inval
    intro k hk
    rw [elen] at hk
    simp only [fdone, ffailed]
    rcases Nat.lt_or_ge k l.jobs.length with hk' | hk'
    · rw [jlow k hk', S.jinv]; exact h.inval k hk'
    · have : k = l.jobs.length := by omega
      subst this
      rw [jme, S.inv]
      simp only [Bool.or_eq_true, List.any_eq_true, Bool.and_eq_true]
      constructor
      · rintro (h0 | ⟨d, hd, h1, h2⟩)
        · simp at h0
        · exact ⟨d, hd, h1, h2⟩
      · rintro ⟨d, hd, h1, h2⟩; exact Or.inr ⟨d, hd, h1, h2⟩
  · intro hc d hd; rw [fdone] at hd; rw [ffailed]; exact h.ffClean hc d hd
  · intro d hd; rw [ffailed] at hd; rw [fdone]; exact h.failedDone d hd


/-! ### result arm -/

theorem core_of_notify {c : Cfg} {l l1 : LoopSt} {j : Nat} (flag : Bool) (h : Core c l)
    (hj : j < l.jobs.length) (hnd : (job l j).done = false) (hdisp : (job l j).dispatched = true)
    (len1 : l1.jobs.length = l.jobs.length) (ready1 : l1.ready = l.ready)
    (rem1 : ∀ k, (job l1 k).remaining = (job l k).remaining)
    (cons1 : ∀ k, (job l1 k).consumers = (job l k).consumers)
    (disp1 : ∀ k, (job l1 k).dispatched = (job l k).dispatched)
    (done1 : ∀ k, (job l1 k).done = ((job l k).done || decide (k = j)))
    (failed1 : ∀ k, (job l1 k).failed = ((job l k).failed || (flag && decide (k = j))))
    (inv1 : ∀ k, (job l1 k).invalid =
              ((job l k).invalid || (flag && (decide (k ∈ (job l j).consumers) && decide (k < l.jobs.length)))))
    (hflag : flag = true → c.coe = true) :
    Core c (notify l1 (job l j).consumers) ∧ NotifySpec l1 (job l j).consumers (notify l1 (job l j).consumers) := by
  have hcs : ∀ k, (job l j).consumers.count k = if k < l.jobs.length then (c.depsOf k).count j else 0 :=
    h.cons j hj hnd
  have hmemlt : ∀ k ∈ (job l j).consumers, k < l.jobs.length := by
    intro k hk
    have : 0 < (job l j).consumers.count k := List.count_pos_iff.mpr hk
    rw [hcs] at this; split at this
    · assumption
    · omega
  have pj : (fun d => !(job l d).done) j = true := by simp [hnd]
  have hle : ∀ k, (((job l j).consumers.count k : Nat) : Int) ≤ (job l1 k).remaining := by
    intro k; rw [rem1, hcs]
    split
    · next hk =>
      rw [h.rem k hk]
      have := count_le_countP (p := fun d => !(job l d).done) pj (c.depsOf k)
      exact_mod_cast this
    · next hk => rw [job_of_ge l k (by omega)]; simp
  have hr0 : ∀ k ∈ l1.ready, (job l1 k).remaining = 0 := by
    intro k hk; rw [ready1] at hk; rw [rem1]; exact ((h.readyIff k).mp hk).2.1
  have S := notify_spec (job l j).consumers l1 (by simpa [len1] using hmemlt) hle (by rw [ready1]; exact h.readyNodup) hr0
  refine ⟨⟨?_, ?_, S.nodup, ?_, ?_, ?_, ?_, ?_, ?_⟩, S⟩
  · -- rem
    intro k hk
    rw [S.len, len1] at hk
    rw [S.rem, rem1, hcs, if_pos hk, h.rem k hk]
    have e : (c.depsOf k).countP (fun d => !(job (notify l1 (job l j).consumers) d).done)
           = (c.depsOf k).countP (fun d => !(job l d).done && !(d == j)) := by
      apply List.countP_congr
      intro d _
      rw [S.done, done1]; simp
    rw [e]
    have key : (c.depsOf k).countP (fun d => !(job l d).done && !(d == j)) + (c.depsOf k).count j
        = (c.depsOf k).countP (fun d => !(job l d).done) :=
      countP_remove (p := fun d => !(job l d).done) pj (c.depsOf k)
    omega
  · -- cons
    intro d hd hdd k
    rw [S.len, len1] at hd ⊢
    rw [S.done, done1] at hdd
    simp only [Bool.or_eq_false_iff, decide_eq_false_iff_not] at hdd
    rw [S.consumers, cons1]
    exact h.cons d hd hdd.1 k
  · -- readyIff
    intro k
    rw [S.mem, S.len, len1, S.rem, rem1, S.dispatched, disp1, ready1, h.readyIff k, hcs]
    by_cases hk : k < l.jobs.length
    · simp only [hk, if_true, true_and]
      constructor
      · rintro (⟨h1, h2⟩ | ⟨h1, h2⟩)
        · have := hle k; rw [rem1, hcs, if_pos hk, h1] at this
          refine ⟨by omega, h2⟩
        · refine ⟨by omega, ?_⟩
          cases hd : (job l k).dispatched with
          | false => rfl
          | true => have := h.dispRem k hd; omega
      · rintro ⟨h1, h2⟩
        by_cases h0 : (c.depsOf k).count j = 0
        · left; rw [h0] at h1; simp at h1; exact ⟨h1, h2⟩
        · right; exact ⟨by omega, by omega⟩
    · simp [hk]
  · -- dispRem
    intro k hk
    rw [S.dispatched, disp1] at hk
    have h0 := h.dispRem k hk
    have := hle k; rw [rem1, h0] at this
    rw [S.rem, rem1, h0]; omega
  · -- doneDisp
    intro k hk
    rw [S.done, done1] at hk
    rw [S.dispatched, disp1]
    simp only [Bool.or_eq_true, decide_eq_true_eq] at hk
    rcases hk with hk | hk
    · exact h.doneDisp k hk
    · subst hk; exact hdisp
  · -- inval
    intro k hk
    rw [S.len, len1] at hk
    rw [S.invalid, inv1]
    have hin : k ∈ (job l j).consumers ↔ j ∈ c.depsOf k := by
      rw [← List.count_pos_iff, hcs, if_pos hk, List.count_pos_iff]
    simp only [Bool.or_eq_true, Bool.and_eq_true, decide_eq_true_eq, hin, hk, and_true]
    rw [h.inval k hk]
    constructor
    · rintro (⟨d, hd, h1, h2⟩ | ⟨hf, hm⟩)
      · refine ⟨d, hd, ?_, ?_⟩
        · rw [S.done, done1]; simp [h1]
        · rw [S.failed, failed1]; simp [h2]
      · refine ⟨j, hm, ?_, ?_⟩
        · rw [S.done, done1]; simp
        · rw [S.failed, failed1]; simp [hf]
    · rintro ⟨d, hd, h1, h2⟩
      rw [S.failed, failed1] at h2
      simp only [Bool.or_eq_true, Bool.and_eq_true, decide_eq_true_eq] at h2
      rcases h2 with h2 | ⟨hf, rfl⟩
      · left; exact ⟨d, hd, h.failedDone d h2, h2⟩
      · right; exact ⟨hf, hd⟩
  · -- ffClean
    intro hc d hd
    have hfl : flag = false := by
      cases hf : flag with
      | false => rfl
      | true => have := hflag hf; simp [hc] at this
    rw [S.done, done1] at hd
    rw [S.failed, failed1, hfl]
    simp only [Bool.false_and, Bool.or_false]
    simp only [Bool.or_eq_true, decide_eq_true_eq] at hd
    rcases hd with hd | hd
    · exact h.ffClean hc d hd
    · subst hd
      cases hf : (job l d).failed with
      | false => rfl
      | true => have := h.failedDone d hf; simp [hnd] at this
  · -- failedDone
    intro d hd
    rw [S.failed, failed1] at hd
    rw [S.done, done1]
    simp only [Bool.or_eq_true, Bool.and_eq_true, decide_eq_true_eq] at hd ⊢
    rcases hd with hd | ⟨_, hd⟩
    · exact Or.inl (h.failedDone d hd)
    · exact Or.inr hd


/-- What the result arm does to everything except the `Core` bookkeeping (non-exiting cases). -/
structure ResultFacts (c : Cfg) (l : LoopSt) (j : Nat) (r : Res) (l' : LoopSt) : Prop where
  len : l'.jobs.length = l.jobs.length
  pending : l'.pending = l.pending - 1
  ongoing : l'.ongoing = l.ongoing - 1
  phase : l'.phase = l.phase
  enqNil : l'.enqNil = l.enqNil
  waitReady : l'.waiting + (l'.ready.length : Int) = l.waiting + (l.ready.length : Int)
  done : ∀ k, (job l' k).done = ((job l k).done || decide (k = j))
  failed : ∀ k, (job l' k).failed = ((job l k).failed || (r.isErr && decide (k = j)))
  dispatched : ∀ k, (job l' k).dispatched = (job l k).dispatched
  consumers : ∀ k, (job l' k).consumers = (job l k).consumers
  err : l'.err = if r.isErr && !(r == .invalid && c.wiring.filterSentinel) then l.err ++ [r] else l.err

theorem core_result {c : Cfg} {l : LoopSt} {j : Nat} {r : Res} (h : Core c l)
    (hj : j < l.jobs.length) (hnd : (job l j).done = false) (hdisp : (job l j).dispatched = true)
    (hne : r.isErr = true → c.coe = true) :
    Core c (result c l j r) ∧ ResultFacts c l j r (result c l j r) := by
  -- the state after `job.done = true; pending--; ongoing--`
  generalize hl0 : ({ setJob l j (job l j).setDone with
      pending := (setJob l j (job l j).setDone).pending - 1,
      ongoing := (setJob l j (job l j).setDone).ongoing - 1 } : LoopSt) = l0
  have j0 : ∀ k, job l0 k = if k = j then (job l j).setDone else job l k := by
    intro k; subst hl0
    show job (setJob l j (job l j).setDone) k = _
    rw [job_setJob]; simp [hj]
  have len0 : l0.jobs.length = l.jobs.length := by subst hl0; simp
  have ready0 : l0.ready = l.ready := by subst hl0; rfl
  have misc0 : l0.pending = l.pending - 1 ∧ l0.ongoing = l.ongoing - 1 ∧ l0.phase = l.phase ∧ l0.enqNil = l.enqNil
      ∧ l0.waiting = l.waiting ∧ l0.err = l.err := by subst hl0; simp
  by_cases he : r.isErr = true
  · -- failing result, ContinueOnError
    have hcoe := hne he
    have hres : result c l j r =
        notify (markInvalid (if (r == .invalid && c.wiring.filterSentinel) = true then setJob l0 j (job l0 j).setFailed
                              else { setJob l0 j (job l0 j).setFailed with err := (setJob l0 j (job l0 j).setFailed).err ++ [r] })
                  (job l j).consumers) (job l j).consumers := by
      unfold result; simp only [he, hcoe, hl0]; simp
    generalize hlE : (if (r == .invalid && c.wiring.filterSentinel) = true then setJob l0 j (job l0 j).setFailed
                      else { setJob l0 j (job l0 j).setFailed with err := (setJob l0 j (job l0 j).setFailed).err ++ [r] }) = lE at hres
    have jE : ∀ k, job lE k = if k = j then (job l j).setDone.setFailed else job l k := by
      intro k; subst hlE
      have : job (setJob l0 j (job l0 j).setFailed) k = if k = j then (job l j).setDone.setFailed else job l k := by
        rw [job_setJob, len0]; simp only [hj, and_true]
        split
        · rw [j0]; simp
        · next hk => rw [j0]; simp [hk]
      split
      · exact this
      · exact this
    have lenE : lE.jobs.length = l.jobs.length := by subst hlE; split <;> simp [len0]
    have readyE : lE.ready = l.ready := by subst hlE; split <;> simp [ready0]
    have miscE : lE.pending = l.pending - 1 ∧ lE.ongoing = l.ongoing - 1 ∧ lE.phase = l.phase ∧ lE.enqNil = l.enqNil
        ∧ lE.waiting = l.waiting := by
      subst hlE; split <;> simp [misc0]
    have errE : lE.err = if r.isErr && !(r == .invalid && c.wiring.filterSentinel) then l.err ++ [r] else l.err := by
      subst hlE
      by_cases hs : (r == .invalid && c.wiring.filterSentinel) = true
      · simp [hs, misc0]
      · simp [hs, he, misc0]
    obtain ⟨mS, mInv, mRem, mCons, mDone, mFailed, mDisp⟩ := markInvalid_spec (job l j).consumers lE
    generalize hlM : markInvalid lE (job l j).consumers = lM at *
    have := core_of_notify (c := c) (l := l) (l1 := lM) (j := j) true h hj hnd hdisp
      (by rw [mS.len, lenE]) (by rw [mS.ready, readyE])
      (by intro k; rw [mRem, jE]; split
          · next e => subst e; rfl
          · rfl)
      (by intro k; rw [mCons, jE]; split
          · next e => subst e; rfl
          · rfl)
      (by intro k; rw [mDisp, jE]; split
          · next e => subst e; rfl
          · rfl)
      (by intro k; rw [mDone, jE]; split
          · next e => subst e; simp
          · next e => simp [e])
      (by intro k; rw [mFailed, jE]; split
          · next e => subst e; simp
          · next e => simp [e])
      (by intro k; rw [mInv, jE, lenE]; split
          · next e => subst e; simp
          · rfl)
      (by intro _; exact hcoe)
    obtain ⟨hcore, S⟩ := this
    rw [hres]
    refine ⟨hcore, ⟨by rw [S.len, mS.len, lenE], by rw [S.pending, mS.pending, miscE.1], by rw [S.ongoing, mS.ongoing, miscE.2.1],
      by rw [S.phase, mS.phase, miscE.2.2.1], by rw [S.enqNil, mS.enqNil, miscE.2.2.2.1],
      by rw [S.waitReady, mS.waiting, mS.ready, miscE.2.2.2.2, readyE], ?_, ?_, ?_, ?_, by rw [S.err, mS.err, errE]⟩⟩
    · intro k; rw [S.done, mDone, jE]; split
      · next e => subst e; simp
      · next e => simp [e]
    · intro k; rw [S.failed, mFailed, jE, he]; split
      · next e => subst e; simp
      · next e => simp [e]
    · intro k; rw [S.dispatched, mDisp, jE]; split
      · next e => subst e; rfl
      · rfl
    · intro k; rw [S.consumers, mCons, jE]; split
      · next e => subst e; rfl
      · rfl
  · -- successful result
    have he' : r.isErr = false := by simpa using he
    have hres : result c l j r = notify l0 (job l j).consumers := by
      unfold result; simp only [he', hl0]; simp
    have := core_of_notify (c := c) (l := l) (l1 := l0) (j := j) false h hj hnd hdisp len0 ready0
      (by intro k; rw [j0]; split
          · next e => subst e; rfl
          · rfl)
      (by intro k; rw [j0]; split
          · next e => subst e; rfl
          · rfl)
      (by intro k; rw [j0]; split
          · next e => subst e; rfl
          · rfl)
      (by intro k; rw [j0]; split
          · next e => subst e; simp
          · next e => simp [e])
      (by intro k; rw [j0]; split
          · next e => subst e; simp
          · next e => simp)
      (by intro k; rw [j0]; split
          · next e => subst e; simp
          · simp)
      (by intro hf; simp at hf)
    obtain ⟨hcore, S⟩ := this
    rw [hres]
    refine ⟨hcore, ⟨by rw [S.len, len0], by rw [S.pending, misc0.1], by rw [S.ongoing, misc0.2.1],
      by rw [S.phase, misc0.2.2.1], by rw [S.enqNil, misc0.2.2.2.1],
      by rw [S.waitReady, misc0.2.2.2.2.1, ready0], ?_, ?_, ?_, ?_, by rw [S.err, misc0.2.2.2.2.2]; simp [he']⟩⟩
    · intro k; rw [S.done, j0]; split
      · next e => subst e; simp
      · next e => simp [e]
    · intro k; rw [S.failed, j0, he']; split
      · next e => subst e; simp
      · next e => simp
    · intro k; rw [S.dispatched, j0]; split
      · next e => subst e; rfl
      · rfl
    · intro k; rw [S.consumers, j0]; split
      · next e => subst e; rfl
      · rfl


/-! ### frame facts used by the global invariants -/

/-- The enqueue arm leaves `done/failed/dispatched` of every job as they were (the new job has all three false). -/
theorem enq_fields {c : Cfg} {l : LoopSt} (hw : c.wiring.lateEnqueueChecksDone = true)
    (hwf : ∀ d ∈ c.depsOf l.jobs.length, d < l.jobs.length) :
    (enq c l l.jobs.length).jobs.length = l.jobs.length + 1 ∧
    (∀ k, (job (enq c l l.jobs.length) k).done = (job l k).done) ∧
    (∀ k, (job (enq c l l.jobs.length) k).failed = (job l k).failed) ∧
    (∀ k, (job (enq c l l.jobs.length) k).dispatched = (job l k).dispatched) ∧
    (∀ k, k < l.jobs.length → (job (enq c l l.jobs.length) k).invalid = (job l k).invalid) := by
  have S := regDeps_spec c.wiring hw l.jobs.length (c.depsOf l.jobs.length) l.jobs {} hwf
  generalize hjobs1 : (regDeps c.wiring l.jobs l.jobs.length {} (c.depsOf l.jobs.length)).1 = jobs1 at S
  generalize hme : (regDeps c.wiring l.jobs l.jobs.length {} (c.depsOf l.jobs.length)).2 = me at S
  have ej : (enq c l l.jobs.length).jobs = jobs1 ++ [me] := by rw [enq_jobs, hjobs1, hme]
  have elen : (enq c l l.jobs.length).jobs.length = l.jobs.length + 1 := by rw [ej]; simp [S.len]
  have jlow : ∀ k, k < l.jobs.length → job (enq c l l.jobs.length) k = getJob jobs1 k := by
    intro k hk; rw [job, ej, getJob_append_left _ _ _ (by rw [S.len]; exact hk)]
  have jme : job (enq c l l.jobs.length) l.jobs.length = me := by
    rw [job, ej, ← S.len, getJob_append_self]
  have jhigh : ∀ k, l.jobs.length < k → job (enq c l l.jobs.length) k = {} := by
    intro k hk; apply job_of_ge; rw [elen]; omega
  refine ⟨elen, ?_, ?_, ?_, ?_⟩
  · intro k
    rcases Nat.lt_trichotomy k l.jobs.length with hk | hk | hk
    · rw [jlow k hk, S.jdone]; rfl
    · subst hk; rw [jme, S.done, job_of_ge l _ (Nat.le_refl _)]
    · rw [jhigh k hk, job_of_ge l _ (Nat.le_of_lt hk)]
  · intro k
    rcases Nat.lt_trichotomy k l.jobs.length with hk | hk | hk
    · rw [jlow k hk, S.jfailed]; rfl
    · subst hk; rw [jme, S.failed, job_of_ge l _ (Nat.le_refl _)]
    · rw [jhigh k hk, job_of_ge l _ (Nat.le_of_lt hk)]
  · intro k
    rcases Nat.lt_trichotomy k l.jobs.length with hk | hk | hk
    · rw [jlow k hk, S.jdisp]; rfl
    · subst hk; rw [jme, S.disp, job_of_ge l _ (Nat.le_refl _)]
    · rw [jhigh k hk, job_of_ge l _ (Nat.le_of_lt hk)]
  · intro k hk; rw [jlow k hk, S.jinv]; rfl

/-- The result arm when it returns early (fail-fast, failing result). -/
theorem result_exit {c : Cfg} {l : LoopSt} {j : Nat} {r : Res} (hj : j < l.jobs.length)
    (he : r.isErr = true) (hc : c.coe = false) :
    (result c l j r).phase = .draining ∧ (result c l j r).err = [r] ∧
    (result c l j r).jobs.length = l.jobs.length ∧
    (result c l j r).pending = l.pending - 1 ∧ (result c l j r).ongoing = l.ongoing - 1 ∧
    (result c l j r).ready = l.ready ∧ (result c l j r).waiting = l.waiting ∧ (result c l j r).enqNil = l.enqNil ∧
    (∀ k, (job (result c l j r) k).done = ((job l k).done || decide (k = j))) ∧
    (∀ k, (job (result c l j r) k).failed = ((job l k).failed || decide (k = j))) ∧
    (∀ k, (job (result c l j r) k).dispatched = (job l k).dispatched) ∧
    (∀ k, (job (result c l j r) k).invalid = (job l k).invalid) := by
  have hres : result c l j r =
      { setJob { setJob l j (job l j).setDone with pending := l.pending - 1, ongoing := l.ongoing - 1 } j
          (job { setJob l j (job l j).setDone with pending := l.pending - 1, ongoing := l.ongoing - 1 } j).setFailed
        with err := [r], phase := .draining } := by
    unfold result; simp [he, hc]
  have jj : ∀ k, job (result c l j r) k = if k = j then (job l j).setDone.setFailed else job l k := by
    intro k; rw [hres]
    show job (setJob _ j _) k = _
    rw [job_setJob]
    simp only [setJob_length, hj, and_true]
    split
    · show (job (setJob l j (job l j).setDone) j).setFailed = _
      rw [job_setJob]; simp [hj]
    · next hk =>
      show job (setJob l j (job l j).setDone) k = _
      rw [job_setJob]; simp [hk]
  refine ⟨by rw [hres], by rw [hres], by rw [hres]; simp, by rw [hres]; simp, by rw [hres]; simp,
          by rw [hres]; simp, by rw [hres]; simp, by rw [hres]; simp, ?_, ?_, ?_, ?_⟩
  · intro k; rw [jj]; split
    · next e => subst e; simp
    · next e => simp [e]
  · intro k; rw [jj]; split
    · next e => subst e; simp
    · next e => simp [e]
  · intro k; rw [jj]; split
    · next e => subst e; rfl
    · rfl
  · intro k; rw [jj]; split
    · next e => subst e; rfl
    · rfl

theorem dispatch_gate {c : Cfg} {l l' : LoopSt} {j : Nat} (hg : c.wiring.gateDispatch = true)
    (hd : dispatch c l = some (j, l')) :
    l.ongoing < c.N ∧ l'.ongoing = l.ongoing + 1 ∧ l'.jobs.length = l.jobs.length ∧ l.ready = j :: l'.ready
    ∧ l'.pending = l.pending ∧ l'.waiting = l.waiting ∧ l'.phase = l.phase ∧ l'.enqNil = l.enqNil ∧ l'.err = l.err
    ∧ (∀ k, (job l' k).done = (job l k).done) ∧ (∀ k, (job l' k).failed = (job l k).failed)
    ∧ (∀ k, (job l' k).invalid = (job l k).invalid)
    ∧ (∀ k, (job l' k).dispatched = ((job l k).dispatched || (decide (k = j) && decide (j < l.jobs.length)))) := by
  unfold dispatch at hd
  split at hd
  · simp at hd
  · next j0 rest hready =>
    simp only [hg, Bool.true_and] at hd
    split at hd
    · simp at hd
    · next hlt =>
      simp only [Option.some.injEq, Prod.mk.injEq] at hd
      obtain ⟨rfl, rfl⟩ := hd
      have jj : ∀ k, job { setJob l j0 (job l j0).setDispatched with ready := rest, ongoing := l.ongoing + 1 } k
                  = if k = j0 ∧ j0 < l.jobs.length then (job l j0).setDispatched else job l k := by
        intro k
        show job (setJob l j0 (job l j0).setDispatched) k = _
        rw [job_setJob]
      refine ⟨by simpa using hlt, rfl, by simp, by simp [hready], rfl, rfl, rfl, rfl, rfl, ?_, ?_, ?_, ?_⟩
      · intro k; rw [jj]; split
        · next e => obtain ⟨rfl, _⟩ := e; rfl
        · rfl
      · intro k; rw [jj]; split
        · next e => obtain ⟨rfl, _⟩ := e; rfl
        · rfl
      · intro k; rw [jj]; split
        · next e => obtain ⟨rfl, _⟩ := e; rfl
        · rfl
      · intro k; rw [jj]; split
        · next e => obtain ⟨rfl, h2⟩ := e; simp [h2]
        · next e =>
          by_cases hk : k = j0
          · subst hk; simp at e; simp [e]; omega
          · simp [hk]

end Sched.Loop
