/-
  Termination measure (C05): a natural number that strictly decreases on every action except
  the ticker.  Hence every tick-free execution from a reachable state is finite, and by
  `progress` every maximal one ends in a `Final` state (C05, C06).
-/
import CffVerif.Sched.Progress

namespace Sched

open Loop

def W.weight : W → Nat
  | .idle => 1 | .holding _ => 6 | .running _ => 5 | .posting _ _ => 4 | .dying _ => 4 | .exited => 0

def undispB (r : JobRec) : Bool := !r.dispatched

def callerW (cs : CallerSt) : Nat := if cs.ret.isSome then 0 else if cs.closed then 1 else 2

def loopW (l : LoopSt) : Nat :=
  match l.phase with
  | .select => if l.enqNil then 3 else 4
  | .draining => 1
  | .exited => 0

/-- Number of entries of `l` naming a context that is not yet done. -/
def liveCount (l d : List Nat) : Nat := l.countP (fun y => !ctxDone d y)

/-- The `[¬cancelled]` component: the not-yet-cancelled contexts among those the configuration
    mentions (`c.ctxs`; only these can be cancelled). -/
def cancelW (c : Cfg) (d : List Nat) : Nat := liveCount c.ctxs d

theorem liveCount_cons_le (l d : List Nat) (x : Nat) : liveCount l (x :: d) ≤ liveCount l d := by
  unfold liveCount
  apply List.countP_mono_left
  intro y _ hy
  simp only [ctxDone_cons, Bool.not_or, Bool.and_eq_true] at hy
  exact hy.2

theorem liveCount_cons_lt (l d : List Nat) (x : Nat) (hx : x ∈ l) (hd : ctxDone d x = false) :
    liveCount l (x :: d) < liveCount l d := by
  induction l with
  | nil => simp at hx
  | cons y ys ih =>
    have hle := liveCount_cons_le ys d x
    by_cases hyx : y = x
    · subst hyx
      have e1 : (!ctxDone (y :: d) y) = false := by simp
      have e2 : (!ctxDone d y) = true := by simp [hd]
      simp only [liveCount, List.countP_cons, e1, e2] at hle ⊢
      simp only [if_true, Bool.false_eq_true, if_false]; omega
    · have hx' : x ∈ ys := by
        simp at hx; rcases hx with h | h
        · exact absurd h.symm hyx
        · exact h
      have := ih hx'
      have e1 : (!ctxDone (x :: d) y) = !ctxDone d y := by simp [hyx]
      simp only [liveCount, List.countP_cons, e1] at this ⊢
      omega

theorem cancelW_cons_le (c : Cfg) (d : List Nat) (x : Nat) : cancelW c (x :: d) ≤ cancelW c d :=
  liveCount_cons_le _ _ _

theorem cancelW_cons_lt (c : Cfg) (d : List Nat) (x : Nat) (hx : x ∈ c.ctxs) (hd : ctxDone d x = false) :
    cancelW c (x :: d) < cancelW c d :=
  liveCount_cons_lt _ _ _ hx hd

def mu (c : Cfg) (s : State) : Nat :=
  9 * (c.deps.length - s.caller.sent) + 8 * s.enq.length + 7 * s.loop.jobs.countP undispB
  + (s.ws.map W.weight).sum + 2 * s.donec.length + callerW s.caller + loopW s.loop
  + cancelW c s.doneCtx

theorem sum_set {l : List Nat} {w : Nat} {a b : Nat} (h : l[w]? = some a) :
    (l.set w b).sum + a = l.sum + b := by
  induction l generalizing w with
  | nil => simp at h
  | cons x xs ih =>
    cases w with
    | zero => simp at h; subst h; simp; omega
    | succ n =>
      simp at h
      have := ih h
      simp; omega

theorem sum_map_set {ws : List W} {w : Nat} {x y : W} (h : ws[w]? = some x) :
    ((ws.set w y).map W.weight).sum + x.weight = (ws.map W.weight).sum + y.weight := by
  rw [List.map_set]
  apply sum_set
  simp [h]

theorem loopW_exitCheck (l : LoopSt) (h : l.phase ≠ .exited) : loopW (exitCheck l) ≤ loopW l := by
  unfold exitCheck
  split
  · cases hp : l.phase <;> simp_all [loopW] <;> split <;> omega
  · exact Nat.le_refl _

theorem loopW_exitCheck_select (l : LoopSt) (h : l.phase = .select) : loopW (exitCheck l) ≤ loopW l :=
  loopW_exitCheck l (by simp [h])


theorem enq_undisp {c : Cfg} {l : LoopSt} (hw : c.wiring.lateEnqueueChecksDone = true)
    (hwf : ∀ d ∈ c.depsOf l.jobs.length, d < l.jobs.length) :
    (enq c l l.jobs.length).jobs.countP undispB = l.jobs.countP undispB + 1 := by
  have S := regDeps_spec c.wiring hw l.jobs.length (c.depsOf l.jobs.length) l.jobs {} hwf
  rw [enq_jobs, List.countP_append]
  have c1 := countP_congr_jobs undispB _ l.jobs S.len (by intro k; simp [undispB, S.jdisp])
  rw [c1]
  simp [undispB, S.disp]

theorem callerW_le (cs : CallerSt) : callerW cs ≤ 2 := by
  unfold callerW; split
  · omega
  · split <;> omega

/-- **Measure.** Every action except the ticker strictly decreases `mu`. -/
theorem mu_decreases {c : Cfg} (hw : c.wiring = Wiring.std) (hwf : WfCfg c) {s s' : State} {a : Act}
    (R : Reach c s) (hs : step c s a = some s') (ha : a ≠ .loopTick) : mu c s' < mu c s := by
  have hlate : c.wiring.lateEnqueueChecksDone = true := by rw [hw]; rfl
  have hgate : c.wiring.gateDispatch = true := by rw [hw]; rfl
  cases a with
  | loopTick => exact absurd rfl ha
  | callerSend =>
    obtain ⟨_, _, hlt, he, rfl⟩ := inv_callerSend hs
    simp only [mu, addLog_caller, addLog_enq, addLog_loop, addLog_ws, addLog_donec, addLog_doneCtx, he,
               List.nil_append, List.length_singleton, List.length_nil]
    have : callerW { s.caller with sent := s.caller.sent + 1 } = callerW s.caller := rfl
    rw [this]; omega
  | callerClose =>
    obtain ⟨hc, hr, rfl⟩ := inv_callerClose hs
    simp only [mu]
    have e1 : callerW { s.caller with closed := true } = 1 := by simp [callerW, hr]
    have e2 : callerW s.caller = 2 := by simp [callerW, hr, hc]
    rw [e1, e2]; omega
  | callerRetCtx =>
    obtain ⟨hc, hr, _, rfl⟩ := inv_callerRetCtx hw hs
    simp only [mu, addLog_caller, addLog_enq, addLog_loop, addLog_ws, addLog_donec, addLog_doneCtx]
    have e1 : callerW { s.caller with ret := some [Res.ctxErr] } = 0 := by simp [callerW]
    have e2 : callerW s.caller = 1 := by simp [callerW, hr, hc]
    rw [e1, e2]; omega
  | callerRetFin =>
    obtain ⟨hc, hr, _, rfl⟩ := inv_callerRetFin hs
    simp only [mu, addLog_caller, addLog_enq, addLog_loop, addLog_ws, addLog_donec, addLog_doneCtx]
    have e1 : callerW { s.caller with ret := some (retVal c s) } = 0 := by simp [callerW]
    have e2 : callerW s.caller = 1 := by simp [callerW, hr, hc]
    rw [e1, e2]; omega
  | loopEnq =>
    obtain ⟨j, rest, hp, hn, he, rfl⟩ := inv_loopEnq hs
    have hf := R.i1.fifo hp
    rw [he] at hf
    have hjeq : j = s.loop.jobs.length := by
      have := hf.1; simp [List.range'] at this; exact this.1
    subst hjeq
    have hu := enq_undisp (c := c) (l := s.loop) hlate (hwf.2 _)
    have eo := enq_others c s.loop s.loop.jobs.length
    have hl := loopW_exitCheck_select (enq c s.loop s.loop.jobs.length) (by rw [eo.2.2.1]; exact hp)
    have hl2 : loopW (enq c s.loop s.loop.jobs.length) = loopW s.loop := by
      simp [loopW, eo.2.2.1, eo.2.2.2.1]
    simp only [mu, addLog_caller, addLog_enq, addLog_loop, addLog_ws, addLog_donec, addLog_doneCtx, he,
               exitCheck_jobs, hu, List.length_cons]
    omega
  | loopEnqClosed =>
    obtain ⟨hp, hn, _, _, rfl⟩ := inv_loopEnqClosed hs
    have hl := loopW_exitCheck_select (closed s.loop) hp
    have h1 : loopW (closed s.loop) = 3 := by simp [loopW, closed, hp]
    have h2 : loopW s.loop = 4 := by simp [loopW, hp, hn]
    simp only [mu, exitCheck_jobs]
    have : (closed s.loop).jobs = s.loop.jobs := rfl
    rw [this]; omega
  | loopDispatch w =>
    obtain ⟨j, l, hp, hidle, hd, rfl⟩ := inv_loopDispatch hs
    obtain ⟨_, hjlt, hjnd, _, _⟩ := core_dispatch (R.i1.core hp) hd
    obtain ⟨_, _, hlen, _, _, _, hph, hnil, _, _, _, _, fdisp⟩ := dispatch_gate hgate hd
    have hl := loopW_exitCheck_select l (by rw [hph]; exact hp)
    have hl2 : loopW l = loopW s.loop := by simp [loopW, hph, hnil]
    have hu : l.jobs.countP undispB + 1 = s.loop.jobs.countP undispB := by
      -- only job j changes, from undispatched to dispatched
      have hjobs : l.jobs = s.loop.jobs.set j (job s.loop j).setDispatched := by
        unfold dispatch at hd
        split at hd
        · simp at hd
        · split at hd
          · simp at hd
          · simp only [Option.some.injEq, Prod.mk.injEq] at hd
            obtain ⟨rfl, rfl⟩ := hd; rfl
      rw [hjobs]
      have := countP_set_job undispB s.loop.jobs j (job s.loop j).setDispatched hjlt
      have p1 : undispB (getJob s.loop.jobs j) = true := by show undispB (job s.loop j) = true; simp [undispB, hjnd]
      have p2 : undispB (job s.loop j).setDispatched = false := by simp [undispB]
      rw [p1, p2] at this; simpa using this
    have hs' := sum_map_set (y := W.holding j) hidle
    simp only [W.weight] at hs'
    simp only [mu, addLog_caller, addLog_enq, addLog_loop, addLog_ws, addLog_donec, addLog_doneCtx,
               setW_caller, setW_enq, setW_loop, setW_ws, setW_donec, setW_doneCtx, exitCheck_jobs]
    omega
  | loopResult =>
    obtain ⟨j, r, rest, hp, hdc, rfl⟩ := inv_loopResult hs
    have hcj := R.i1.cust j
    have hpos : 0 < custCount s j := by
      simp only [custCount, hdc, List.countP_cons]; simp; omega
    have hdj : (job s.loop j).dispatched = true ∧ (job s.loop j).done = false := by
      rw [hcj] at hpos
      cases hd1 : (job s.loop j).dispatched <;> cases hd2 : (job s.loop j).done <;> simp [hd1, hd2] at hpos ⊢
    have hjlt : j < s.loop.jobs.length := by
      rcases Nat.lt_or_ge j s.loop.jobs.length with hh | hh
      · exact hh
      · have := hdj.1; rw [job_of_ge _ _ hh] at this; simp at this
    have hu : (result c s.loop j r).jobs.countP undispB = s.loop.jobs.countP undispB := by
      by_cases hexit : r.isErr = true ∧ c.coe = false
      · obtain ⟨_, _, rlen, _, _, _, _, _, _, _, fdisp, _⟩ := result_exit (l := s.loop) hjlt hexit.1 hexit.2
        exact countP_congr_jobs undispB _ _ rlen (by intro k; have := fdisp k; simp only [job] at this; simp [undispB, this])
      · have hne : r.isErr = true → c.coe = true := by
          intro he; cases hc : c.coe with
          | true => rfl
          | false => exact absurd ⟨he, hc⟩ hexit
        obtain ⟨_, F⟩ := core_result (R.i1.core hp) hjlt hdj.2 hdj.1 hne
        exact countP_congr_jobs undispB _ _ F.len (by intro k; have := F.dispatched k; simp only [job] at this; simp [undispB, this])
    obtain ⟨hnil, hph⟩ := result_frame c s.loop j r
    have hl : loopW (exitCheck (result c s.loop j r)) ≤ loopW s.loop := by
      have h1 := loopW_exitCheck (result c s.loop j r) (by rcases hph with h | h <;> simp [h, hp])
      have h2 : loopW (result c s.loop j r) ≤ loopW s.loop := by
        rcases hph with h | h
        · simp [loopW, h, hnil]
        · simp [loopW, h, hp]; split <;> omega
      omega
    simp only [mu, exitCheck_jobs, hu, hdc, List.length_cons]
    omega
  | loopDrain =>
    obtain ⟨j, rest, _, he, rfl⟩ := inv_loopDrain hw hs
    simp only [mu, he, List.length_cons]; omega
  | loopClose =>
    obtain ⟨hp, _, _, rfl⟩ := inv_loopClose hw hs
    have h1 : loopW { s.loop with phase := .exited } = 0 := by simp [loopW]
    have h2 : loopW s.loop = 1 := by simp [loopW, hp]
    simp only [mu, addLog_caller, addLog_enq, addLog_loop, addLog_ws, addLog_donec, addLog_doneCtx, h1, h2]
    omega
  | workerDecide w =>
    obtain ⟨j, hj, hcases⟩ := inv_workerDecide hw hs
    rcases hcases with ⟨_, rfl⟩ | ⟨_, _, rfl⟩ | ⟨_, _, rfl⟩
    · have := sum_map_set (y := W.posting j .ctxErr) hj
      simp only [W.weight] at this
      simp only [mu, addLog_caller, addLog_enq, addLog_loop, addLog_ws, addLog_donec, addLog_doneCtx,
               setW_caller, setW_enq, setW_loop, setW_ws, setW_donec, setW_doneCtx]
      omega
    · have := sum_map_set (y := W.posting j .invalid) hj
      simp only [W.weight] at this
      simp only [mu, addLog_caller, addLog_enq, addLog_loop, addLog_ws, addLog_donec, addLog_doneCtx,
               setW_caller, setW_enq, setW_loop, setW_ws, setW_donec, setW_doneCtx]
      omega
    · have := sum_map_set (y := W.running j) hj
      simp only [W.weight] at this
      simp only [mu, addLog_caller, addLog_enq, addLog_loop, addLog_ws, addLog_donec, addLog_doneCtx,
               setW_caller, setW_enq, setW_loop, setW_ws, setW_donec, setW_doneCtx]
      omega
  | workerEnd w o cancel =>
    obtain ⟨j, hj, rfl⟩ := inv_workerEnd hs
    have hab : (afterBody c s j o cancel).loop = s.loop ∧ (afterBody c s j o cancel).ws = s.ws ∧
        (afterBody c s j o cancel).donec = s.donec ∧ (afterBody c s j o cancel).enq = s.enq ∧
        (afterBody c s j o cancel).caller = s.caller ∧
        cancelW c (afterBody c s j o cancel).doneCtx ≤ cancelW c s.doneCtx := by
      unfold afterBody; split
      · simp [cancelW_cons_le]
      · simp
    obtain ⟨a1, a2, a3, a4, a5, a6⟩ := hab
    have hsum := sum_map_set (y := if o = .goexit then W.dying j else W.posting j (outcomeRes o)) hj
    have hy : (if o = Outcome.goexit then W.dying j else W.posting j (outcomeRes o)).weight = 4 := by
      split <;> rfl
    rw [hy] at hsum
    simp only [W.weight] at hsum
    simp only [mu, setW_caller, setW_enq, setW_loop, setW_ws, setW_donec, setW_doneCtx, a1, a2, a3, a4, a5]
    omega
  | workerPost w =>
    obtain ⟨j, r, hj, _, rfl⟩ := inv_workerPost hs
    have := sum_map_set (y := W.idle) hj
    simp only [W.weight] at this
    simp only [mu, setW_caller, setW_enq, setW_loop, setW_ws, setW_donec, setW_doneCtx, List.length_append,
               List.length_singleton]
    omega
  | workerDiePost w =>
    obtain ⟨j, hj, _, rfl⟩ := inv_workerDiePost hw hs
    have := sum_map_set (y := W.idle) hj
    simp only [W.weight] at this
    simp only [mu, setW_caller, setW_enq, setW_loop, setW_ws, setW_donec, setW_doneCtx, List.length_append,
               List.length_singleton]
    omega
  | workerExit w =>
    obtain ⟨hj, _, rfl⟩ := inv_workerExit hs
    have := sum_map_set (y := W.exited) hj
    simp only [W.weight] at this
    simp only [mu, setW_caller, setW_enq, setW_loop, setW_ws, setW_donec, setW_doneCtx]
    omega
  | cancel x =>
    obtain ⟨hc, hx, rfl⟩ := inv_cancel hs
    have := cancelW_cons_lt c s.doneCtx x hx hc
    simp only [mu, addLog_caller, addLog_enq, addLog_loop, addLog_ws, addLog_donec, addLog_doneCtx,
               cancelCtx_caller, cancelCtx_enq, cancelCtx_loop, cancelCtx_ws, cancelCtx_donec, cancelCtx_doneCtx]
    omega

end Sched
