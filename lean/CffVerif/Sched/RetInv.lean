/-
  What `Wait` returns (C07, C08): every entry of the returned error is a real failure of a job
  that ran, or a context's error after a cancellation of that context (Wait's, or a skipped job's own); nil (fail-fast) means every submitted
  job ended without error.
-/
import CffVerif.Sched.ErrInv

namespace Sched

open Loop

/-- An error entry that is backed by the log.  A `ctxErr` entry is backed by a cancellation of
    `Wait`'s own context, or by a job that was skipped because its own context was cancelled. -/
def RealEntry (c : Cfg) (x : Res) (log : List Ev) : Prop :=
  (x = .ctxErr ∧ (Ev.cancelled c.waitCtx ∈ log ∨
      ∃ j, Ev.skipped j .ctx ∈ log ∧ Ev.cancelled (c.ctxOfJob j) ∈ log)) ∨
  (∃ j e, x = .fail e ∧ Ev.ended j (.fail e) ∈ log) ∨
  (x = .exitErr ∧ ∃ j, Ev.ended j .goexit ∈ log)

theorem RealEntry.mono {c : Cfg} {x : Res} {log es : List Ev} (h : RealEntry c x log) : RealEntry c x (log ++ es) := by
  rcases h with ⟨h1, h2 | ⟨j, h2, h3⟩⟩ | ⟨j, e, h1, h2⟩ | ⟨h1, j, h2⟩
  · exact Or.inl ⟨h1, Or.inl (List.mem_append_left _ h2)⟩
  · exact Or.inl ⟨h1, Or.inr ⟨j, List.mem_append_left _ h2, List.mem_append_left _ h3⟩⟩
  · exact Or.inr (Or.inl ⟨j, e, h1, List.mem_append_left _ h2⟩)
  · exact Or.inr (Or.inr ⟨h1, j, List.mem_append_left _ h2⟩)

structure Inv8 (c : Cfg) (s : State) : Prop where
  retReal : ∀ r, Ev.waitReturned r ∈ s.log → ∀ x ∈ r, RealEntry c x s.log
  retFfLen : c.coe = false → ∀ r, Ev.waitReturned r ∈ s.log → r.length ≤ 1
  nilComplete : c.coe = false → Ev.waitReturned [] ∈ s.log → ∀ j, j < s.caller.sent → Ev.ended j .ok ∈ s.log
  noInvalidFf : c.coe = false → ∀ j, Ev.skipped j .invalid ∉ s.log
  skippedInvalid : ∀ j, Ev.skipped j .invalid ∈ s.log → ∃ d ∈ c.depsOf j, (job s.loop d).failed = true
  retLogged : ∀ r, Ev.waitReturned r ∈ s.log → s.caller.ret.isSome = true

theorem inv8_init (c : Cfg) : Inv8 c (init c) := by
  refine ⟨?_, ?_, ?_, ?_, ?_, ?_⟩ <;> simp [init]

def Ev.isRet : Ev → Bool
  | .waitReturned _ => true
  | _ => false

def Ev.isSkipInvalid : Ev → Bool
  | .skipped _ .invalid => true
  | _ => false

/-- Frame: `failed` flags only grow, `sent` and `ret` unchanged, no `waitReturned` / `skipped invalid` logged. -/
theorem inv8_frame {c : Cfg} {s s' : State} {es : List Ev} (h : Inv8 c s)
    (hfailed : ∀ k, (job s.loop k).failed = true → (job s'.loop k).failed = true)
    (hsent : s'.caller.sent = s.caller.sent) (hret : s'.caller.ret = s.caller.ret)
    (hlog : s'.log = s.log ++ es)
    (hes : ∀ e ∈ es, e.isRet = false ∧ e.isSkipInvalid = false) : Inv8 c s' := by
  obtain ⟨g1, g2, g3, g4, g5, g6⟩ := h
  have noRet : ∀ r, Ev.waitReturned r ∈ s'.log → Ev.waitReturned r ∈ s.log := by
    intro r hm; rw [hlog] at hm
    rcases List.mem_append.mp hm with hm | hm
    · exact hm
    · have := (hes _ hm).1; simp [Ev.isRet] at this
  have noSk : ∀ j, Ev.skipped j .invalid ∈ s'.log → Ev.skipped j .invalid ∈ s.log := by
    intro j hm; rw [hlog] at hm
    rcases List.mem_append.mp hm with hm | hm
    · exact hm
    · have := (hes _ hm).2; simp [Ev.isSkipInvalid] at this
  refine ⟨?_, ?_, ?_, ?_, ?_, ?_⟩
  · intro r hm x hx; rw [hlog]; exact (g1 r (noRet r hm) x hx).mono
  · intro hc r hm; exact g2 hc r (noRet r hm)
  · intro hc hm j hj; rw [hsent] at hj; rw [hlog]; exact List.mem_append_left _ (g3 hc (noRet _ hm) j hj)
  · intro hc j hm; exact g4 hc j (noSk j hm)
  · intro j hm; obtain ⟨d, hd, hf⟩ := g5 j (noSk j hm); exact ⟨d, hd, hfailed d hf⟩
  · intro r hm; rw [hret]; exact g6 r (noRet r hm)


structure Reach2 (c : Cfg) (s : State) : Prop where
  r : Reach c s
  i6 : Inv6 c s
  i7 : Inv7 c s

theorem reach2_run {c : Cfg} (hw : c.wiring = Wiring.std) (hwf : WfCfg c) (acts : List Act) (s : State)
    (hr : run c (init c) acts = some s) : Reach2 c s := by
  refine run_induct (c := c) (Reach2 c) ?_ acts _ _
    ⟨⟨inv1_init c, inv2_init c, inv3_init c, inv4_init c, inv5_init c⟩, inv6_init c, inv7_init c⟩ hr
  intro s a s' hp h
  have R := hp.r
  exact ⟨⟨inv1_step hw hwf R.i1 h, inv2_step hw hwf R.i1 R.i2 h, inv3_step hw hwf R.i1 R.i2 R.i3 h,
          inv4_step hw hwf R.i1 R.i4 h, inv5_step hw R.i5 h⟩, inv6_step hw hwf R hp.i6 h, inv7_step hw hwf R hp.i7 h⟩

/-- A seen failing, non-sentinel result is a real entry. -/
theorem realEntry_of_seen {c : Cfg} {s : State} (h6 : Inv6 c s) {j : Nat} {x : Res}
    (hm : Ev.resultSeen j x ∈ s.log) (he : x.isErr = true) (hni : x ≠ .invalid) : RealEntry c x s.log := by
  rcases (h6.seenProd j x hm).1 with ⟨o, h1, h2⟩ | ⟨h1, h2⟩ | ⟨h1, _⟩
  · cases o with
    | ok => subst h1; simp [outcomeRes, Res.isErr] at he
    | fail e => subst h1; exact Or.inr (Or.inl ⟨j, e, rfl, h2⟩)
    | goexit => subst h1; exact Or.inr (Or.inr ⟨rfl, j, h2⟩)
  · subst h1; exact Or.inl ⟨rfl, Or.inr ⟨j, h2, h6.skipCtx j h2⟩⟩
  · exact absurd h1 hni

theorem mem_filterMap_errEntry {log : List Ev} {x : Res} (h : x ∈ log.filterMap Ev.errEntry) :
    ∃ j, Ev.resultSeen j x ∈ log ∧ x.isErr = true ∧ x ≠ .invalid := by
  obtain ⟨e, he, hx⟩ := List.mem_filterMap.mp h
  cases e <;> simp [Ev.errEntry] at hx
  next j r =>
    obtain ⟨⟨h1, h2⟩, rfl⟩ := hx
    exact ⟨j, he, h1, h2⟩

/-- The value `Wait` returns through its finished arm. -/
theorem retVal_real {c : Cfg} {s : State} (R : Reach2 c s) (h8 : Inv8 c s) (hp : s.loop.phase = .exited) :
    (∀ x ∈ retVal c s, RealEntry c x s.log) ∧ (c.coe = false → (retVal c s).length ≤ 1) ∧
    (c.coe = false → retVal c s = [] → ∀ j, j < s.caller.sent → Ev.ended j .ok ∈ s.log) := by
  have h6 := R.i6
  have h7 := R.i7
  have entries : ∀ x ∈ s.loop.err, RealEntry c x s.log := by
    intro x hx
    cases hc : c.coe with
    | true =>
      rw [h7.errCoe hc] at hx
      obtain ⟨j, hm, he, hni⟩ := mem_filterMap_errEntry hx
      exact realEntry_of_seen h6 hm he hni
    | false =>
      rcases h7.errFf hc with ⟨h0, _⟩ | ⟨j, r, h1, h2, h3⟩
      · rw [h0] at hx; simp at hx
      · rw [h1] at hx; simp at hx; subst hx
        apply realEntry_of_seen h6 h2 h3
        intro hinv; subst hinv
        rcases (h6.seenProd j _ h2).1 with ⟨o, ho, _⟩ | ⟨ho, _⟩ | ⟨_, hsk⟩
        · cases o <;> simp [outcomeRes] at ho
        · simp at ho
        · exact absurd hsk (h8.noInvalidFf hc j)
  refine ⟨?_, ?_, ?_⟩
  · intro x hx
    unfold retVal at hx
    split at hx
    · split at hx
      · next hcan => simp at hx; subst hx; exact Or.inl ⟨rfl, Or.inl (h6.cancelLog _ hcan)⟩
      · simp at hx
    · exact entries x hx
  · intro hc
    unfold retVal
    split
    · split <;> simp
    · rcases h7.errFf hc with ⟨h0, _⟩ | ⟨j, r, h1, _, _⟩
      · simp [h0]
      · simp [h1]
  · intro hc hnil j hj
    unfold retVal at hnil
    split at hnil
    · next hemp =>
      have herr : s.loop.err = [] := by simpa using hemp
      have hreason := h7.exitReason (by simp [hp])
      rcases hreason with ⟨_, hne⟩ | ⟨hpend, hnilq⟩
      · exact absurd herr hne
      · have hlen := h7.nilAll hnilq
        have hall : s.loop.jobs.countP undoneB = 0 := by
          have := R.r.i4.counts.pend; rw [hpend] at this; exact_mod_cast this.symm
        have hjdone : (job s.loop j).done = true := by
          rw [countP_jobs_range, List.countP_eq_zero] at hall
          have := hall j (List.mem_range.mpr (by omega))
          simpa [undoneB, job] using this
        have hnf : (job s.loop j).failed = false := by
          rcases h7.errFf hc with ⟨_, hf⟩ | ⟨_, r, h1, _, _⟩
          · exact hf j
          · rw [herr] at h1; simp at h1
        exact R.r.i3.endedOk j hjdone hnf
    · next hne => exact absurd hnil (by simpa using hne)


theorem inv8_step {c : Cfg} (hw : c.wiring = Wiring.std) (hwf : WfCfg c) {s s' : State} {a : Act}
    (R : Reach2 c s) (h : Inv8 c s) (hs : step c s a = some s') : Inv8 c s' := by
  have hlate : c.wiring.lateEnqueueChecksDone = true := by rw [hw]; rfl
  have hgate : c.wiring.gateDispatch = true := by rw [hw]; rfl
  have h1 := R.r.i1
  cases a with
  | callerSend =>
    obtain ⟨_, hret, _, _, rfl⟩ := inv_callerSend hs
    obtain ⟨g1, g2, g3, g4, g5, g6⟩ := h
    have noRetYet : ∀ r, Ev.waitReturned r ∉ s.log := by
      intro r hm; have := g6 r hm; simp [hret] at this
    refine ⟨?_, ?_, ?_, ?_, ?_, ?_⟩
    · intro r hm; simp only [addLog_log] at hm
      rcases List.mem_append.mp hm with hm | hm
      · exact absurd hm (noRetYet r)
      · simp at hm
    · intro _ r hm; simp only [addLog_log] at hm
      rcases List.mem_append.mp hm with hm | hm
      · exact absurd hm (noRetYet r)
      · simp at hm
    · intro _ hm; simp only [addLog_log] at hm
      rcases List.mem_append.mp hm with hm | hm
      · exact absurd hm (noRetYet _)
      · simp at hm
    · intro hc j hm; simp only [addLog_log] at hm
      rcases List.mem_append.mp hm with hm | hm
      · exact g4 hc j hm
      · simp at hm
    · intro j hm; simp only [addLog_log] at hm
      rcases List.mem_append.mp hm with hm | hm
      · exact g5 j hm
      · simp at hm
    · intro r hm; simp only [addLog_log] at hm
      rcases List.mem_append.mp hm with hm | hm
      · exact absurd hm (noRetYet r)
      · simp at hm
  | callerClose =>
    obtain ⟨_, _, rfl⟩ := inv_callerClose hs
    exact inv8_frame (es := []) h (fun _ hk => hk) rfl rfl (by simp) (by simp)
  | callerRetCtx =>
    obtain ⟨_, _, hcan, rfl⟩ := inv_callerRetCtx hw hs
    obtain ⟨g1, g2, g3, g4, g5, g6⟩ := h
    refine ⟨?_, ?_, ?_, ?_, ?_, ?_⟩
    · intro r hm x hx; simp only [addLog_log] at hm ⊢
      rcases List.mem_append.mp hm with hm | hm
      · exact (g1 r hm x hx).mono
      · simp at hm; subst hm; simp at hx; subst hx
        exact Or.inl ⟨rfl, Or.inl (List.mem_append_left _ (R.i6.cancelLog _ hcan))⟩
    · intro hc r hm; simp only [addLog_log] at hm
      rcases List.mem_append.mp hm with hm | hm
      · exact g2 hc r hm
      · simp at hm; subst hm; simp
    · intro hc hm j hj; simp only [addLog_log] at hm ⊢
      rcases List.mem_append.mp hm with hm | hm
      · exact List.mem_append_left _ (g3 hc hm j hj)
      · simp at hm
    · intro hc j hm; simp only [addLog_log] at hm
      rcases List.mem_append.mp hm with hm | hm
      · exact g4 hc j hm
      · simp at hm
    · intro j hm; simp only [addLog_log] at hm
      rcases List.mem_append.mp hm with hm | hm
      · exact g5 j hm
      · simp at hm
    · intro r _; simp
  | callerRetFin =>
    obtain ⟨_, _, hp, rfl⟩ := inv_callerRetFin hs
    obtain ⟨q1, q2, q3⟩ := retVal_real R h hp
    obtain ⟨g1, g2, g3, g4, g5, g6⟩ := h
    refine ⟨?_, ?_, ?_, ?_, ?_, ?_⟩
    · intro r hm x hx; simp only [addLog_log] at hm ⊢
      rcases List.mem_append.mp hm with hm | hm
      · exact (g1 r hm x hx).mono
      · simp at hm; subst hm; exact (q1 x hx).mono
    · intro hc r hm; simp only [addLog_log] at hm
      rcases List.mem_append.mp hm with hm | hm
      · exact g2 hc r hm
      · simp at hm; subst hm; exact q2 hc
    · intro hc hm j hj; simp only [addLog_log] at hm ⊢
      rcases List.mem_append.mp hm with hm | hm
      · exact List.mem_append_left _ (g3 hc hm j hj)
      · simp at hm; exact List.mem_append_left _ (q3 hc hm j hj)
    · intro hc j hm; simp only [addLog_log] at hm
      rcases List.mem_append.mp hm with hm | hm
      · exact g4 hc j hm
      · simp at hm
    · intro j hm; simp only [addLog_log] at hm
      rcases List.mem_append.mp hm with hm | hm
      · exact g5 j hm
      · simp at hm
    · intro r _; simp
  | loopEnq =>
    obtain ⟨j, rest, hp, _, he, rfl⟩ := inv_loopEnq hs
    have hf := h1.fifo hp
    rw [he] at hf
    have hjeq : j = s.loop.jobs.length := by
      have := hf.1; simp [List.range'] at this; exact this.1
    subst hjeq
    obtain ⟨_, _, ffailed, _, _⟩ := enq_fields (c := c) (l := s.loop) hlate (hwf.2 _)
    exact inv8_frame (es := [Ev.registered s.loop.jobs.length]) h
      (by intro k hk; simpa [ffailed] using hk) rfl rfl rfl (by simp [Ev.isRet, Ev.isSkipInvalid])
  | loopEnqClosed =>
    obtain ⟨_, _, _, _, rfl⟩ := inv_loopEnqClosed hs
    exact inv8_frame (es := []) h (by intro k hk; simpa [closed, job] using hk) rfl rfl (by simp) (by simp)
  | loopDispatch w =>
    obtain ⟨j, l, hp, _, hd, rfl⟩ := inv_loopDispatch hs
    obtain ⟨_, _, _, _, _, _, _, _, _, _, ffailed, _, _⟩ := dispatch_gate hgate hd
    exact inv8_frame (es := [Ev.dispatched j]) h (by intro k hk; simpa [ffailed] using hk) rfl rfl rfl
      (by simp [Ev.isRet, Ev.isSkipInvalid])
  | loopResult =>
    obtain ⟨j, r, rest, hp, hdc, rfl⟩ := inv_loopResult hs
    obtain ⟨_, _, _, _, ffailed, _⟩ := result_fields (c := c) h1 hp hdc
    refine inv8_frame (es := [Ev.resultSeen j r] ++ (if (r.isErr && c.coe) = true then invalidWrites (job s.loop j).consumers else []))
      h (by intro k hk; rw [ffailed]; simp [hk]) rfl rfl (by simp) ?_
    intro e he
    simp at he
    rcases he with rfl | ⟨_, he⟩
    · simp [Ev.isRet, Ev.isSkipInvalid]
    · simp [invalidWrites] at he; obtain ⟨k, _, rfl⟩ := he; simp [Ev.isRet, Ev.isSkipInvalid]
  | loopTick =>
    obtain ⟨_, _, rfl⟩ := inv_loopTick hs
    exact inv8_frame (es := [Ev.report (report c s.loop)]) h (by intro k hk; simpa using hk) rfl rfl rfl
      (by simp [Ev.isRet, Ev.isSkipInvalid])
  | loopDrain =>
    obtain ⟨_, _, _, _, rfl⟩ := inv_loopDrain hw hs
    exact inv8_frame (es := []) h (fun _ hk => hk) rfl rfl (by simp) (by simp)
  | loopClose =>
    obtain ⟨_, _, _, rfl⟩ := inv_loopClose hw hs
    exact inv8_frame (es := [Ev.loopExit]) h (by intro k hk; simpa [job] using hk) rfl rfl rfl
      (by simp [Ev.isRet, Ev.isSkipInvalid])
  | workerDecide w =>
    obtain ⟨j, hj, hcases⟩ := inv_workerDecide hw hs
    rcases hcases with ⟨_, rfl⟩ | ⟨_, hinv, rfl⟩ | ⟨_, _, rfl⟩
    · exact inv8_frame (es := [Ev.skipped j .ctx]) h (fun _ hk => hk) rfl rfl rfl (by simp [Ev.isRet, Ev.isSkipInvalid])
    · -- the invalid skip
      obtain ⟨hdisp, _, _, _⟩ := holder_facts (j := j) h1 hj (by simp [W.job?])
      obtain ⟨g1, g2, g3, g4, g5, g6⟩ := h
      refine ⟨?_, ?_, ?_, ?_, ?_, ?_⟩
      · intro r hm x hx; simp only [addLog_log, setW_log] at hm ⊢
        rcases List.mem_append.mp hm with hm | hm
        · exact (g1 r hm x hx).mono
        · simp at hm
      · intro hc r hm; simp only [addLog_log, setW_log] at hm
        rcases List.mem_append.mp hm with hm | hm
        · exact g2 hc r hm
        · simp at hm
      · intro hc hm k hk; simp only [addLog_log, setW_log] at hm ⊢
        rcases List.mem_append.mp hm with hm | hm
        · exact List.mem_append_left _ (g3 hc hm k hk)
        · simp at hm
      · intro hc k hm
        have := R.i7.ffValid hc j hdisp
        simp [hinv] at this
      · intro k hm; simp only [addLog_log, setW_log] at hm
        rcases List.mem_append.mp hm with hm | hm
        · exact g5 k hm
        · simp at hm; subst hm
          exact (R.r.i2.invalIff k hdisp).mp hinv
      · intro r hm; simp only [addLog_log, setW_log] at hm
        rcases List.mem_append.mp hm with hm | hm
        · exact g6 r hm
        · simp at hm
    · exact inv8_frame (es := [Ev.started j]) h (fun _ hk => hk) rfl rfl rfl (by simp [Ev.isRet, Ev.isSkipInvalid])
  | workerEnd w o cancel =>
    obtain ⟨j, _, rfl⟩ := inv_workerEnd hs
    have hab : (afterBody c s j o cancel).loop = s.loop ∧ (afterBody c s j o cancel).caller = s.caller ∧
        ∃ es, (afterBody c s j o cancel).log = s.log ++ es ∧ ∀ e ∈ es, e.isRet = false ∧ e.isSkipInvalid = false := by
      unfold afterBody; split
      · exact ⟨rfl, rfl, [Ev.ended j o, Ev.cancelled (c.ctxOfJob j)], by simp, by simp [Ev.isRet, Ev.isSkipInvalid]⟩
      · exact ⟨rfl, rfl, [Ev.ended j o], by simp, by simp [Ev.isRet, Ev.isSkipInvalid]⟩
    obtain ⟨hl, hcl, es, hlog, hes⟩ := hab
    exact inv8_frame (es := es) h (by intro k hk; simpa [hl] using hk) (by simp [hcl]) (by simp [hcl]) (by simp [hlog]) hes
  | workerPost w =>
    obtain ⟨_, _, _, _, rfl⟩ := inv_workerPost hs
    exact inv8_frame (es := []) h (fun _ hk => hk) rfl rfl (by simp) (by simp)
  | workerDiePost w =>
    obtain ⟨_, _, _, rfl⟩ := inv_workerDiePost hw hs
    exact inv8_frame (es := []) h (fun _ hk => hk) rfl rfl (by simp) (by simp)
  | workerExit w =>
    obtain ⟨_, _, rfl⟩ := inv_workerExit hs
    exact inv8_frame (es := []) h (fun _ hk => hk) rfl rfl (by simp) (by simp)
  | cancel =>
    obtain ⟨_, _, rfl⟩ := inv_cancel hs
    exact inv8_frame (es := [Ev.cancelled _]) h (fun _ hk => hk) rfl rfl rfl (by simp [Ev.isRet, Ev.isSkipInvalid])

end Sched
