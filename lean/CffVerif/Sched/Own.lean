/-
  Ownership discipline (C12): which thread touches which state.  The loop's bookkeeping is
  changed only by loop actions; a job's `invalid` flag is written only before the job is handed to
  a worker, which is the only reader.
-/
import CffVerif.Sched.RetInv

namespace Sched

open Loop

def Act.isLoop : Act → Bool
  | .loopEnq | .loopEnqClosed | .loopDispatch _ | .loopResult | .loopTick | .loopDrain | .loopClose => true
  | _ => false

/-- Caller and worker actions (Enqueue, Wait, a worker's receive/decide/run/post/exit) and
    cancellation never modify the loop's state — `remaining`, `consumers`, `done`, `err`,
    `invalid` of every job, the ready list, the counters and `s.err`. -/
theorem step_nonloop_frame {c : Cfg} (hw : c.wiring = Wiring.std) {s s' : State} {a : Act}
    (ha : a.isLoop = false) (hs : step c s a = some s') : s'.loop = s.loop := by
  cases a with
  | loopEnq | loopEnqClosed | loopDispatch _ | loopResult | loopTick | loopDrain | loopClose => simp [Act.isLoop] at ha
  | callerSend => obtain ⟨_, _, _, _, rfl⟩ := inv_callerSend hs; rfl
  | callerClose => obtain ⟨_, _, rfl⟩ := inv_callerClose hs; rfl
  | callerRetCtx => obtain ⟨_, _, _, rfl⟩ := inv_callerRetCtx hw hs; rfl
  | callerRetFin => obtain ⟨_, _, _, rfl⟩ := inv_callerRetFin hs; rfl
  | workerDecide w =>
    obtain ⟨j, _, hc⟩ := inv_workerDecide hw hs
    rcases hc with ⟨_, rfl⟩ | ⟨_, _, rfl⟩ | ⟨_, _, rfl⟩ <;> rfl
  | workerEnd w o cancel =>
    obtain ⟨j, _, rfl⟩ := inv_workerEnd hs
    simp only [setW_loop]; unfold afterBody; split <;> rfl
  | workerPost w => obtain ⟨_, _, _, _, rfl⟩ := inv_workerPost hs; rfl
  | workerDiePost w => obtain ⟨_, _, _, rfl⟩ := inv_workerDiePost hw hs; rfl
  | workerExit w => obtain ⟨_, _, rfl⟩ := inv_workerExit hs; rfl
  | cancel => obtain ⟨_, _, rfl⟩ := inv_cancel hs; rfl

/-- The loop never modifies a worker slot except by handing a job to an idle worker. -/
theorem step_loop_ws {c : Cfg} (hw : c.wiring = Wiring.std) {s s' : State} {a : Act}
    (ha : a.isLoop = true) (hs : step c s a = some s') :
    s'.ws = s.ws ∨ ∃ w j, a = .loopDispatch w ∧ s.ws[w]? = some .idle ∧ s'.ws = s.ws.set w (.holding j) := by
  cases a with
  | loopEnq => obtain ⟨_, _, _, _, _, rfl⟩ := inv_loopEnq hs; exact Or.inl rfl
  | loopEnqClosed => obtain ⟨_, _, _, _, rfl⟩ := inv_loopEnqClosed hs; exact Or.inl rfl
  | loopDispatch w => obtain ⟨j, l, _, hi, _, rfl⟩ := inv_loopDispatch hs; exact Or.inr ⟨w, j, rfl, hi, rfl⟩
  | loopResult => obtain ⟨_, _, _, _, _, rfl⟩ := inv_loopResult hs; exact Or.inl rfl
  | loopTick => obtain ⟨_, _, rfl⟩ := inv_loopTick hs; exact Or.inl rfl
  | loopDrain => obtain ⟨_, _, _, _, rfl⟩ := inv_loopDrain hw hs; exact Or.inl rfl
  | loopClose => obtain ⟨_, _, _, rfl⟩ := inv_loopClose hw hs; exact Or.inl rfl
  | _ => simp [Act.isLoop] at ha

/-- All writes of `invalid k` precede the hand-off of `k` to a worker. -/
def InvalidBeforeDispatch (log : List Ev) : Prop :=
  ∀ (i j k : Nat), log[i]? = some (Ev.wroteInvalid k) → log[j]? = some (Ev.dispatched k) → i < j

structure Inv9 (c : Cfg) (s : State) : Prop where
  order : InvalidBeforeDispatch s.log
  dispLog : ∀ k, Ev.dispatched k ∈ s.log → (job s.loop k).dispatched = true

theorem inv9_init (c : Cfg) : Inv9 c (init c) := by
  refine ⟨?_, ?_⟩
  · intro i j k h; simp [init] at h
  · intro k h; simp [init] at h

def Ev.isOwn : Ev → Bool
  | .wroteInvalid _ | .dispatched _ => true
  | _ => false

theorem ibd_append_irrelevant {log es : List Ev} (h : InvalidBeforeDispatch log) (hes : ∀ e ∈ es, e.isOwn = false) :
    InvalidBeforeDispatch (log ++ es) := by
  intro i j k hi hj
  have hil : i < log.length := by
    by_cases hlt : i < log.length
    · exact hlt
    · rw [List.getElem?_append_right (by omega)] at hi
      have := hes _ (List.mem_of_getElem? hi); simp [Ev.isOwn] at this
  have hjl : j < log.length := by
    by_cases hlt : j < log.length
    · exact hlt
    · rw [List.getElem?_append_right (by omega)] at hj
      have := hes _ (List.mem_of_getElem? hj); simp [Ev.isOwn] at this
  rw [List.getElem?_append_left hil] at hi
  rw [List.getElem?_append_left hjl] at hj
  exact h i j k hi hj

/-- Appending `dispatched k` at the end keeps the order. -/
theorem ibd_append_dispatched {log : List Ev} (h : InvalidBeforeDispatch log) (k : Nat) :
    InvalidBeforeDispatch (log ++ [Ev.dispatched k]) := by
  intro i j k' hi hj
  have hil : i < log.length := by
    by_cases hlt : i < log.length
    · exact hlt
    · rw [List.getElem?_append_right (by omega)] at hi
      have := List.mem_of_getElem? hi; simp at this
  by_cases hjl : j < log.length
  · rw [List.getElem?_append_left hil] at hi
    rw [List.getElem?_append_left hjl] at hj
    exact h i j k' hi hj
  · omega

/-- Appending invalid-writes for jobs that have not been dispatched keeps the order. -/
theorem ibd_append_writes {log : List Ev} (h : InvalidBeforeDispatch log) (pre : List Ev) (ks : List Nat)
    (hpre : ∀ e ∈ pre, e.isOwn = false) (hk : ∀ k ∈ ks, Ev.dispatched k ∉ log) :
    InvalidBeforeDispatch (log ++ pre ++ invalidWrites ks) := by
  intro i j k hi hj
  -- a `dispatched k` event in the extended log lies in `log`
  have hjl : j < log.length := by
    by_cases hlt : j < log.length
    · exact hlt
    · exfalso
      rw [List.append_assoc, List.getElem?_append_right (by omega)] at hj
      have hm := List.mem_of_getElem? hj
      rcases List.mem_append.mp hm with hm | hm
      · have := hpre _ hm; simp [Ev.isOwn] at this
      · simp [invalidWrites] at hm
  rw [List.append_assoc, List.getElem?_append_left hjl] at hj
  by_cases hil : i < log.length
  · rw [List.append_assoc, List.getElem?_append_left hil] at hi
    exact h i j k hi hj
  · exfalso
    rw [List.append_assoc, List.getElem?_append_right (by omega)] at hi
    have hm := List.mem_of_getElem? hi
    rcases List.mem_append.mp hm with hm | hm
    · have := hpre _ hm; simp [Ev.isOwn] at this
    · simp [invalidWrites] at hm
      exact hk k hm (List.mem_of_getElem? hj)

theorem inv9_step {c : Cfg} (hw : c.wiring = Wiring.std) (hwf : WfCfg c) {s s' : State} {a : Act}
    (R : Reach c s) (h : Inv9 c s) (hs : step c s a = some s') : Inv9 c s' := by
  have hlate : c.wiring.lateEnqueueChecksDone = true := by rw [hw]; rfl
  have hgate : c.wiring.gateDispatch = true := by rw [hw]; rfl
  obtain ⟨g1, g2⟩ := h
  -- frame: loop's dispatched flags only grow, log extended by irrelevant events
  have frame : ∀ (es : List Ev), s'.log = s.log ++ es → (∀ e ∈ es, e.isOwn = false) →
      (∀ k, (job s.loop k).dispatched = true → (job s'.loop k).dispatched = true) → Inv9 c s' := by
    intro es hlog hes hd
    refine ⟨by rw [hlog]; exact ibd_append_irrelevant g1 hes, ?_⟩
    intro k hm
    rw [hlog] at hm
    rcases List.mem_append.mp hm with hm | hm
    · exact hd k (g2 k hm)
    · have := hes _ hm; simp [Ev.isOwn] at this
  cases a with
  | callerSend => obtain ⟨_, _, _, _, rfl⟩ := inv_callerSend hs; exact frame [_] rfl (by simp [Ev.isOwn]) (fun _ h => h)
  | callerClose => obtain ⟨_, _, rfl⟩ := inv_callerClose hs; exact frame [] (by simp) (by simp) (fun _ h => h)
  | callerRetCtx => obtain ⟨_, _, _, rfl⟩ := inv_callerRetCtx hw hs; exact frame [_] rfl (by simp [Ev.isOwn]) (fun _ h => h)
  | callerRetFin => obtain ⟨_, _, _, rfl⟩ := inv_callerRetFin hs; exact frame [_] rfl (by simp [Ev.isOwn]) (fun _ h => h)
  | loopEnqClosed => obtain ⟨_, _, _, _, rfl⟩ := inv_loopEnqClosed hs; exact frame [] (by simp) (by simp) (by simp [closed, job])
  | loopTick => obtain ⟨_, _, rfl⟩ := inv_loopTick hs; exact frame [_] rfl (by simp [Ev.isOwn]) (by simp)
  | loopDrain => obtain ⟨_, _, _, _, rfl⟩ := inv_loopDrain hw hs; exact frame [] (by simp) (by simp) (fun _ h => h)
  | loopClose => obtain ⟨_, _, _, rfl⟩ := inv_loopClose hw hs; exact frame [_] rfl (by simp [Ev.isOwn]) (by simp [job])
  | workerDecide w =>
    obtain ⟨j, _, hc⟩ := inv_workerDecide hw hs
    rcases hc with ⟨_, rfl⟩ | ⟨_, _, rfl⟩ | ⟨_, _, rfl⟩ <;> exact frame [_] rfl (by simp [Ev.isOwn]) (fun _ h => h)
  | workerEnd w o cancel =>
    obtain ⟨j, _, rfl⟩ := inv_workerEnd hs
    have hab : (afterBody c s j o cancel).loop = s.loop ∧
        ∃ es, (afterBody c s j o cancel).log = s.log ++ es ∧ ∀ e ∈ es, e.isOwn = false := by
      unfold afterBody; split
      · exact ⟨rfl, [Ev.ended j o, Ev.cancelled (c.ctxOfJob j)], by simp, by simp [Ev.isOwn]⟩
      · exact ⟨rfl, [Ev.ended j o], by simp, by simp [Ev.isOwn]⟩
    obtain ⟨hl, es, hlog, hes⟩ := hab
    exact frame es (by simp [hlog]) hes (by intro k hk; simpa [hl] using hk)
  | workerPost w => obtain ⟨_, _, _, _, rfl⟩ := inv_workerPost hs; exact frame [] (by simp) (by simp) (fun _ h => h)
  | workerDiePost w => obtain ⟨_, _, _, rfl⟩ := inv_workerDiePost hw hs; exact frame [] (by simp) (by simp) (fun _ h => h)
  | workerExit w => obtain ⟨_, _, rfl⟩ := inv_workerExit hs; exact frame [] (by simp) (by simp) (fun _ h => h)
  | cancel => obtain ⟨_, _, rfl⟩ := inv_cancel hs; exact frame [_] rfl (by simp [Ev.isOwn]) (fun _ h => h)
  | loopEnq =>
    obtain ⟨j, rest, hp, _, he, rfl⟩ := inv_loopEnq hs
    have hf := R.i1.fifo hp
    rw [he] at hf
    have hjeq : j = s.loop.jobs.length := by
      have := hf.1; simp [List.range'] at this; exact this.1
    subst hjeq
    obtain ⟨_, _, _, fdisp, _⟩ := enq_fields (c := c) (l := s.loop) hlate (hwf.2 _)
    exact frame [_] rfl (by simp [Ev.isOwn]) (by intro k hk; simpa [fdisp] using hk)
  | loopDispatch w =>
    obtain ⟨j, l, hp, _, hd, rfl⟩ := inv_loopDispatch hs
    obtain ⟨_, hjlt, _, _, _⟩ := core_dispatch (R.i1.core hp) hd
    obtain ⟨_, _, _, _, _, _, _, _, _, _, _, _, fdisp⟩ := dispatch_gate hgate hd
    refine ⟨by simp only [addLog_log, setW_log]; exact ibd_append_dispatched g1 j, ?_⟩
    intro k hm
    simp only [addLog_log, setW_log] at hm
    simp only [addLog_loop, setW_loop, exitCheck_job, fdisp]
    rcases List.mem_append.mp hm with hm | hm
    · simp [g2 k hm]
    · simp at hm; subst hm; simp [hjlt]
  | loopResult =>
    obtain ⟨j, r, rest, hp, hdc, rfl⟩ := inv_loopResult hs
    have hcore := R.i1.core hp
    obtain ⟨hjd, hjnd, hjlt, _, _, fdisp⟩ := result_fields (c := c) R.i1 hp hdc
    -- consumers of the (undone) job j have not been dispatched
    have hcons : ∀ k ∈ (job s.loop j).consumers, Ev.dispatched k ∉ s.log := by
      intro k hk hm
      have hdk := g2 k hm
      have hcnt : 0 < (job s.loop j).consumers.count k := List.count_pos_iff.mpr hk
      rw [hcore.cons j hjlt hjnd k] at hcnt
      split at hcnt
      · next hklt =>
        have hjin : j ∈ c.depsOf k := List.count_pos_iff.mp hcnt
        have hrem := hcore.rem k hklt
        have h0 := hcore.dispRem k hdk
        rw [h0] at hrem
        have := countP_eq_zero_all hrem.symm j hjin
        simp [hjnd] at this
      · omega
    refine ⟨?_, ?_⟩
    · by_cases hb : (r.isErr && c.coe) = true
      · simp only [hb, if_true]
        exact ibd_append_writes g1 [Ev.resultSeen j r] _ (by simp [Ev.isOwn]) hcons
      · simp only [hb]
        simpa using ibd_append_irrelevant g1 (es := [Ev.resultSeen j r]) (by simp [Ev.isOwn])
    · intro k hm
      rw [fdisp]
      simp only [List.append_assoc] at hm
      rcases List.mem_append.mp hm with hm | hm
      · exact g2 k hm
      · exfalso
        rcases List.mem_append.mp hm with hm | hm
        · simp at hm
        · split at hm
          · simp [invalidWrites] at hm
          · simp at hm

end Sched
