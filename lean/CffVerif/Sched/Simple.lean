/-
  Invariants that need no loop bookkeeping: worker-slot count (C03) and
  "nothing starts after cancellation" (C09).
-/
import CffVerif.Sched.Basic

namespace Sched

/-- Number of worker slots is constant. -/
theorem step_ws_length {c : Cfg} {s s' : State} {a : Act} (h : step c s a = some s') :
    s'.ws.length = s.ws.length := by
  cases a <;> simp only [step] at h <;> (try split at h) <;> (try split at h) <;> (try split at h) <;>
    simp_all <;> (try (subst h; simp)) <;> (try (obtain ⟨_, rfl⟩ := h; simp))

end Sched

namespace Sched

/-- Events that must not occur once the context is cancelled: a job start, and `Wait` returning nil. -/
def Bad : Ev → Prop
  | .started _ => True
  | .waitReturned [] => True
  | _ => False

/-- No `Bad` event after a `cancelled` event. -/
def CleanLog (log : List Ev) : Prop :=
  ∀ (i k : Nat) (e : Ev), log[i]? = some Ev.cancelled → log[k]? = some e → Bad e → k < i

theorem cleanLog_nil : CleanLog [] := by intro i k e h; simp at h

theorem cleanLog_append_other {log : List Ev} {e : Ev} (h : CleanLog log)
    (he : ¬ Bad e) : CleanLog (log ++ [e]) := by
  intro i k e' hi hk hb
  have hk' : k < log.length := by
    by_cases hlt : k < log.length
    · exact hlt
    · have : k = log.length := by
        have := (List.getElem?_eq_some_iff.mp hk).1
        simp at this; omega
      subst this
      simp at hk
      subst hk
      exact absurd hb he
  rw [List.getElem?_append_left hk'] at hk
  by_cases hi' : i < log.length
  · rw [List.getElem?_append_left hi'] at hi
    exact h i k e' hi hk hb
  · omega

theorem cleanLog_append_list {log es : List Ev} (h : CleanLog log)
    (he : ∀ e ∈ es, ¬ Bad e) : CleanLog (log ++ es) := by
  induction es generalizing log with
  | nil => simpa using h
  | cons e es ih =>
    have : log ++ e :: es = (log ++ [e]) ++ es := by simp
    rw [this]
    apply ih
    · exact cleanLog_append_other h (he e (by simp))
    · intro e' he'; exact he e' (by simp [he'])

theorem cleanLog_append_bad {log : List Ev} {e : Ev} (he : e ≠ Ev.cancelled)
    (hc : Ev.cancelled ∉ log) : CleanLog (log ++ [e]) := by
  intro i k e' hi hk _
  by_cases hi' : i < log.length
  · rw [List.getElem?_append_left hi'] at hi
    exact absurd (List.mem_of_getElem? hi) hc
  · have : i = log.length := by
      have := (List.getElem?_eq_some_iff.mp hi).1
      simp at this; omega
    subst this
    simp at hi
    exact absurd hi he

/-- The C09 invariant. -/
structure CancelInv (s : State) : Prop where
  clean : CleanLog s.log
  flag  : Ev.cancelled ∈ s.log → s.cancelled = true

theorem cancelInv_init (c : Cfg) : CancelInv (init c) :=
  ⟨by simpa [init] using cleanLog_nil, by simp [init]⟩


theorem invalidWrites_not_bad (ks : List Nat) : ∀ e ∈ invalidWrites ks, ¬ Bad e := by
  intro e he; simp [invalidWrites] at he; obtain ⟨k, _, rfl⟩ := he; simp [Bad]

theorem cancelInv_step {c : Cfg} (hw : c.wiring = Wiring.std) {s s' : State} {a : Act}
    (hi : CancelInv s) (h : step c s a = some s') : CancelInv s' := by
  obtain ⟨hc, hf⟩ := hi
  cases a with
  | callerSend =>
    simp only [step] at h; split at h <;> simp at h; subst h
    exact ⟨cleanLog_append_other hc (by simp [Bad]), by simpa using hf⟩
  | callerClose =>
    simp only [step] at h; split at h <;> simp at h; subst h; exact ⟨hc, hf⟩
  | callerRetCtx =>
    simp only [step] at h; split at h <;> simp at h; subst h
    exact ⟨cleanLog_append_other hc (by simp [Bad]), by simpa using hf⟩
  | callerRetFin =>
    simp only [step] at h; split at h <;> simp at h; subst h
    refine ⟨?_, by simpa using hf⟩
    simp only [addLog_log]
    by_cases hcan : s.cancelled = true
    · apply cleanLog_append_other hc
      simp only [hcan, if_true]
      split <;> simp_all [Bad]
    · apply cleanLog_append_bad (by simp)
      intro hm; exact hcan (hf hm)
  | loopEnq =>
    simp only [step] at h; split at h <;> simp at h; subst h
    exact ⟨cleanLog_append_other hc (by simp [Bad]), by simpa using hf⟩
  | loopEnqClosed =>
    simp only [step] at h; split at h <;> simp at h; subst h; exact ⟨hc, hf⟩
  | loopDispatch w =>
    simp only [step] at h; split at h <;> simp at h; subst h
    exact ⟨cleanLog_append_other hc (by simp [Bad]), by simpa using hf⟩
  | loopResult =>
    simp only [step] at h; split at h <;> simp at h; subst h
    refine ⟨?_, ?_⟩
    · simp only [List.append_assoc]
      apply cleanLog_append_list hc
      intro e he
      simp at he
      rcases he with rfl | he
      · simp [Bad]
      · exact invalidWrites_not_bad _ e he.2
    · intro hm
      simp at hm
      rcases hm with hm | hm
      · exact hf hm
      · simp [invalidWrites] at hm
  | loopTick =>
    simp only [step] at h; split at h <;> simp at h; subst h
    exact ⟨cleanLog_append_other hc (by simp [Bad]), by simpa using hf⟩
  | loopDrain =>
    simp only [step] at h; split at h <;> (try split at h) <;> simp at h; subst h; exact ⟨hc, hf⟩
  | loopClose =>
    simp only [step] at h; split at h <;> simp at h; subst h
    exact ⟨cleanLog_append_other hc (by simp [Bad]), by simpa using hf⟩
  | workerDecide w =>
    simp only [step] at h
    split at h <;> try (simp at h)
    simp only [hw, Wiring.std, Bool.and_true] at h
    split at h
    · simp at h; subst h
      exact ⟨cleanLog_append_other hc (by simp [Bad]), by simpa using hf⟩
    · split at h
      · simp at h; subst h
        exact ⟨cleanLog_append_other hc (by simp [Bad]), by simpa using hf⟩
      · simp at h; subst h
        rename_i hnc _
        have hnc' : s.cancelled = false := by simpa using hnc
        refine ⟨cleanLog_append_bad (by simp) ?_, ?_⟩
        · intro hm; have := hf hm; simp [hnc'] at this
        · intro hm; simp at hm; exact hf hm
  | workerEnd w o cancel =>
    simp only [step] at h
    split at h <;> try (simp at h)
    rename_i j hj
    have key : CancelInv (if (cancel && !(addLog s (Ev.ended j o)).cancelled) = true
        then addLog { addLog s (Ev.ended j o) with cancelled := true } Ev.cancelled
        else addLog s (Ev.ended j o)) := by
      have h1 : CleanLog (s.log ++ [Ev.ended j o]) := cleanLog_append_other hc (by simp [Bad])
      split
      · refine ⟨?_, ?_⟩
        · simpa using cleanLog_append_other h1 (by simp [Bad])
        · intro _; rfl
      · refine ⟨by simpa using h1, ?_⟩
        intro hm; simp at hm; simpa using hf hm
    split at h <;> (simp at h; subst h; exact ⟨by simpa using key.clean, by simpa using key.flag⟩)
  | workerPost w =>
    simp only [step] at h
    split at h <;> try (simp at h)
    obtain ⟨_, rfl⟩ := h; exact ⟨by simpa using hc, by simpa using hf⟩
  | workerDiePost w =>
    simp only [step] at h
    split at h <;> try (simp at h)
    obtain ⟨_, rfl⟩ := h; exact ⟨by simpa using hc, by simpa using hf⟩
  | workerExit w =>
    simp only [step] at h
    split at h <;> try (simp at h)
    obtain ⟨_, rfl⟩ := h; exact ⟨by simpa using hc, by simpa using hf⟩
  | cancel =>
    simp only [step] at h; split at h <;> simp at h; subst h
    exact ⟨cleanLog_append_other hc (by simp [Bad]), by intro _; rfl⟩

end Sched
