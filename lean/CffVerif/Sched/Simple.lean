/-
  Invariants that need no loop bookkeeping: worker-slot count (C03) and
  "nothing starts after the cancellation of its own context" (C09).
-/
import CffVerif.Sched.Basic

namespace Sched

/-- Number of worker slots is constant. -/
theorem step_ws_length {c : Cfg} {s s' : State} {a : Act} (h : step c s a = some s') :
    s'.ws.length = s.ws.length := by
  cases a <;> simp only [step] at h <;> (try split at h) <;> (try split at h) <;> (try split at h) <;>
    simp_all <;> (try (subst h; simp)) <;> (try (obtain ⟨_, rfl⟩ := h; simp))

end Sched

namespace Sched

/-- Events that must not occur once context `x` is cancelled: the start of a job enqueued with
    context `x`, and `Wait` returning nil when `Wait` was called with context `x`. -/
def Bad (c : Cfg) (x : Nat) : Ev → Prop
  | .started j => c.ctxOfJob j = x
  | .waitReturned [] => c.waitCtx = x
  | _ => False

/-- No `Bad c x` event after a `cancelled x` event. -/
def CleanLog (c : Cfg) (log : List Ev) : Prop :=
  ∀ (x i k : Nat) (e : Ev), log[i]? = some (Ev.cancelled x) → log[k]? = some e → Bad c x e → k < i

theorem cleanLog_nil (c : Cfg) : CleanLog c [] := by intro x i k e h; simp at h

theorem cleanLog_append_other {c : Cfg} {log : List Ev} {e : Ev} (h : CleanLog c log)
    (he : ∀ x, ¬ Bad c x e) : CleanLog c (log ++ [e]) := by
  intro x i k e' hi hk hb
  have hk' : k < log.length := by
    by_cases hlt : k < log.length
    · exact hlt
    · have : k = log.length := by
        have := (List.getElem?_eq_some_iff.mp hk).1
        simp at this; omega
      subst this
      simp at hk
      subst hk
      exact absurd hb (he x)
  rw [List.getElem?_append_left hk'] at hk
  by_cases hi' : i < log.length
  · rw [List.getElem?_append_left hi'] at hi
    exact h x i k e' hi hk hb
  · omega

theorem cleanLog_append_list {c : Cfg} {log es : List Ev} (h : CleanLog c log)
    (he : ∀ e ∈ es, ∀ x, ¬ Bad c x e) : CleanLog c (log ++ es) := by
  induction es generalizing log with
  | nil => simpa using h
  | cons e es ih =>
    have : log ++ e :: es = (log ++ [e]) ++ es := by simp
    rw [this]
    apply ih
    · exact cleanLog_append_other h (he e (by simp))
    · intro e' he'; exact he e' (by simp [he'])

/-- Appending an event that is bad only for contexts not cancelled so far (and is not itself a
    cancellation) keeps the log clean. -/
theorem cleanLog_append_bad {c : Cfg} {log : List Ev} {e : Ev} (h : CleanLog c log)
    (he : ∀ x, e ≠ Ev.cancelled x)
    (hc : ∀ x, Bad c x e → Ev.cancelled x ∉ log) : CleanLog c (log ++ [e]) := by
  intro x i k e' hi hk hb
  by_cases hi' : i < log.length
  · rw [List.getElem?_append_left hi'] at hi
    by_cases hk' : k < log.length
    · rw [List.getElem?_append_left hk'] at hk
      exact h x i k e' hi hk hb
    · have : k = log.length := by
        have := (List.getElem?_eq_some_iff.mp hk).1
        simp at this; omega
      subst this
      simp at hk
      subst hk
      exact absurd (List.mem_of_getElem? hi) (hc x hb)
  · have : i = log.length := by
      have := (List.getElem?_eq_some_iff.mp hi).1
      simp at this; omega
    subst this
    simp at hi
    exact absurd hi (he x)

/-- Executable form of "no context was ever cancelled" (`∀ x, Ev.cancelled x ∉ log`), for
    `decide`d examples. -/
def noCancelB (log : List Ev) : Bool :=
  log.all fun e => match e with | .cancelled _ => false | _ => true

theorem noCancel_of_b {log : List Ev} (h : noCancelB log = true) : ∀ x, Ev.cancelled x ∉ log := by
  intro x hm
  have := List.all_eq_true.mp h _ hm
  simp at this

/-- The C09 invariant. -/
structure CancelInv (c : Cfg) (s : State) : Prop where
  clean : CleanLog c s.log
  flag  : ∀ x, Ev.cancelled x ∈ s.log → s.cancelledCtx x = true

theorem cancelInv_init (c : Cfg) : CancelInv c (init c) :=
  ⟨by simpa [init] using cleanLog_nil c, by simp [init]⟩


theorem invalidWrites_not_bad (c : Cfg) (ks : List Nat) : ∀ e ∈ invalidWrites ks, ∀ x, ¬ Bad c x e := by
  intro e he x; simp [invalidWrites] at he; obtain ⟨k, _, rfl⟩ := he; simp [Bad]

theorem cancelInv_step {c : Cfg} (hw : c.wiring = Wiring.std) {s s' : State} {a : Act}
    (hi : CancelInv c s) (h : step c s a = some s') : CancelInv c s' := by
  obtain ⟨hc, hf⟩ := hi
  cases a with
  | callerSend =>
    simp only [step] at h; split at h <;> simp at h; subst h
    exact ⟨cleanLog_append_other hc (by simp [Bad]), by simpa using hf⟩
  | callerClose =>
    simp only [step] at h; split at h <;> simp at h; subst h; exact ⟨hc, hf⟩
  | callerRetCtx =>
    simp only [step] at h; split at h <;> simp at h; subst h
    exact ⟨cleanLog_append_other hc (by simp [Bad]), by simpa using hf⟩
  | callerRetFin =>
    simp only [step] at h; split at h <;> simp at h; subst h
    refine ⟨?_, by simpa using hf⟩
    simp only [addLog_log]
    by_cases hcan : s.cancelledCtx c.waitCtx = true
    · apply cleanLog_append_other hc
      simp only [hcan, if_true]
      split <;> simp_all [Bad]
    · apply cleanLog_append_bad hc (by simp)
      intro x hb hm
      have hx : c.waitCtx = x := by
        split at hb <;> simp_all [Bad]
      subst hx
      exact hcan (hf _ hm)
  | loopEnq =>
    simp only [step] at h; split at h <;> simp at h; subst h
    exact ⟨cleanLog_append_other hc (by simp [Bad]), by simpa using hf⟩
  | loopEnqClosed =>
    simp only [step] at h; split at h <;> simp at h; subst h; exact ⟨hc, hf⟩
  | loopDispatch w =>
    simp only [step] at h; split at h <;> simp at h; subst h
    exact ⟨cleanLog_append_other hc (by simp [Bad]), by simpa using hf⟩
  | loopResult =>
    simp only [step] at h; split at h <;> simp at h; subst h
    refine ⟨?_, ?_⟩
    · simp only [List.append_assoc]
      apply cleanLog_append_list hc
      intro e he
      simp at he
      rcases he with rfl | he
      · simp [Bad]
      · exact invalidWrites_not_bad c _ e he.2
    · intro x hm
      simp at hm
      rcases hm with hm | hm
      · exact hf x hm
      · simp [invalidWrites] at hm
  | loopTick =>
    simp only [step] at h; split at h <;> simp at h; subst h
    exact ⟨cleanLog_append_other hc (by simp [Bad]), by simpa using hf⟩
  | loopDrain =>
    simp only [step] at h; split at h <;> (try split at h) <;> simp at h; subst h; exact ⟨hc, hf⟩
  | loopClose =>
    simp only [step] at h; split at h <;> simp at h; subst h
    exact ⟨cleanLog_append_other hc (by simp [Bad]), by simpa using hf⟩
  | workerDecide w =>
    simp only [step] at h
    split at h <;> try (simp at h)
    simp only [hw, Wiring.std, Bool.and_true] at h
    split at h
    · simp at h; subst h
      exact ⟨cleanLog_append_other hc (by simp [Bad]), by simpa using hf⟩
    · split at h
      · simp at h; subst h
        exact ⟨cleanLog_append_other hc (by simp [Bad]), by simpa using hf⟩
      · simp at h; subst h
        rename_i j _ hnc _
        have hnc' : s.cancelledCtx (c.ctxOfJob j) = false := by simpa using hnc
        refine ⟨cleanLog_append_bad hc (by simp) ?_, ?_⟩
        · intro x hb hm
          have hx : c.ctxOfJob j = x := hb
          subst hx
          have := hf _ hm; simp [hnc'] at this
        · intro x hm; simp at hm; simpa using hf x hm
  | workerEnd w o cancel =>
    simp only [step] at h
    split at h <;> try (simp at h)
    rename_i j hj
    have key : CancelInv c (if (cancel && !(addLog s (Ev.ended j o)).cancelledCtx (c.ctxOfJob j)) = true
        then addLog ((addLog s (Ev.ended j o)).cancelCtx (c.ctxOfJob j)) (Ev.cancelled (c.ctxOfJob j))
        else addLog s (Ev.ended j o)) := by
      have h1 : CleanLog c (s.log ++ [Ev.ended j o]) := cleanLog_append_other hc (by simp [Bad])
      split
      · refine ⟨?_, ?_⟩
        · simpa using cleanLog_append_other h1 (by simp [Bad])
        · intro x hm
          simp at hm
          rcases hm with hm | hm
          · simpa [cancelCtx_cancelledCtx] using Or.inr (hf x hm)
          · subst hm; simp
      · refine ⟨by simpa using h1, ?_⟩
        intro x hm; simp at hm; simpa using hf x hm
    split at h <;> (simp at h; subst h; exact ⟨by simpa using key.clean, by simpa using key.flag⟩)
  | workerPost w =>
    simp only [step] at h
    split at h <;> try (simp at h)
    obtain ⟨_, rfl⟩ := h; exact ⟨by simpa using hc, by simpa using hf⟩
  | workerDiePost w =>
    simp only [step] at h
    split at h <;> try (simp at h)
    obtain ⟨_, rfl⟩ := h; exact ⟨by simpa using hc, by simpa using hf⟩
  | workerExit w =>
    simp only [step] at h
    split at h <;> try (simp at h)
    obtain ⟨_, rfl⟩ := h; exact ⟨by simpa using hc, by simpa using hf⟩
  | cancel y =>
    simp only [step] at h; split at h <;> simp at h; subst h
    refine ⟨cleanLog_append_other hc (by simp [Bad]), ?_⟩
    intro x hm
    simp at hm
    rcases hm with hm | hm
    · simpa [cancelCtx_cancelledCtx] using Or.inr (hf x hm)
    · subst hm; simp

end Sched
