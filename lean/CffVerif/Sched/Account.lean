/-
  Production chain of results (C07, C08): every result the loop sees was produced by exactly one
  decision of one worker for that job — the body's outcome, a context skip, or an invalid skip.
-/
import CffVerif.Sched.Progress

namespace Sched

open Loop

/-- `e` is the decision a worker took for job `j`. -/
def Ev.decides (j : Nat) : Ev → Bool
  | .started k => k == j
  | .skipped k _ => k == j
  | _ => false

def Ev.isEndedOf (j : Nat) : Ev → Bool
  | .ended k _ => k == j
  | _ => false

def Ev.isSeenOf (j : Nat) : Ev → Bool
  | .resultSeen k _ => k == j
  | _ => false

/-- Events that the accounting invariants talk about. -/
def Ev.relevant : Ev → Bool
  | .started _ | .skipped _ _ | .ended _ _ | .resultSeen _ _ | .cancelled _ => true
  | _ => false

/-- Result `r` for job `j` is backed by a worker's decision recorded in the log. -/
def Produced (j : Nat) (r : Res) (log : List Ev) : Prop :=
  (∃ o, r = outcomeRes o ∧ Ev.ended j o ∈ log) ∨
  (r = .ctxErr ∧ Ev.skipped j .ctx ∈ log) ∨
  (r = .invalid ∧ Ev.skipped j .invalid ∈ log)

theorem decides_relevant {j : Nat} {e : Ev} (h : Ev.decides j e = true) : e.relevant = true := by
  cases e <;> simp [Ev.decides, Ev.relevant] at h ⊢
theorem isEndedOf_relevant {j : Nat} {e : Ev} (h : Ev.isEndedOf j e = true) : e.relevant = true := by
  cases e <;> simp [Ev.isEndedOf, Ev.relevant] at h ⊢
theorem isSeenOf_relevant {j : Nat} {e : Ev} (h : Ev.isSeenOf j e = true) : e.relevant = true := by
  cases e <;> simp [Ev.isSeenOf, Ev.relevant] at h ⊢

theorem isEndedOf_eq {j : Nat} {e : Ev} (h : Ev.isEndedOf j e = true) : ∃ o, e = Ev.ended j o := by
  cases e <;> simp [Ev.isEndedOf] at h
  subst h; exact ⟨_, rfl⟩
theorem isSeenOf_eq {j : Nat} {e : Ev} (h : Ev.isSeenOf j e = true) : ∃ r, e = Ev.resultSeen j r := by
  cases e <;> simp [Ev.isSeenOf] at h
  subst h; exact ⟨_, rfl⟩
theorem decides_ne {j k : Nat} {e : Ev} (h : Ev.decides j e = true) (hk : k ≠ j) : Ev.decides k e = false := by
  cases e <;> simp [Ev.decides] at h ⊢
  · subst h; exact fun e => hk e.symm
  · subst h; exact fun e => hk e.symm

theorem Produced.mono {j : Nat} {r : Res} {log es : List Ev} (h : Produced j r log) : Produced j r (log ++ es) := by
  rcases h with ⟨o, h1, h2⟩ | ⟨h1, h2⟩ | ⟨h1, h2⟩
  · exact Or.inl ⟨o, h1, List.mem_append_left _ h2⟩
  · exact Or.inr (Or.inl ⟨h1, List.mem_append_left _ h2⟩)
  · exact Or.inr (Or.inr ⟨h1, List.mem_append_left _ h2⟩)

structure Inv6 (c : Cfg) (s : State) : Prop where
  decFresh : ∀ (w j : Nat), s.ws[w]? = some (W.holding j) → s.log.countP (Ev.decides j) = 0
  decOnce : ∀ j, s.log.countP (Ev.decides j) ≤ 1
  runFresh : ∀ (w j : Nat), s.ws[w]? = some (W.running j) →
      Ev.started j ∈ s.log ∧ s.log.countP (Ev.isEndedOf j) = 0
  endedOnce : ∀ j, s.log.countP (Ev.isEndedOf j) ≤ 1
  endedStarted : ∀ j o, Ev.ended j o ∈ s.log → Ev.started j ∈ s.log
  prodW : ∀ (w j : Nat) (r : Res), s.ws[w]? = some (W.posting j r) → Produced j r s.log
  prodDying : ∀ (w j : Nat), s.ws[w]? = some (W.dying j) → Ev.ended j .goexit ∈ s.log
  prodD : ∀ j r, (j, r) ∈ s.donec → Produced j r s.log
  seenProd : ∀ j r, Ev.resultSeen j r ∈ s.log →
      Produced j r s.log ∧ (job s.loop j).done = true ∧ (job s.loop j).failed = r.isErr
  seenOnce : ∀ j, s.log.countP (Ev.isSeenOf j) ≤ 1
  doneSeen : ∀ j, (job s.loop j).done = true → ∃ r, Ev.resultSeen j r ∈ s.log
  cancelLog : ∀ x, s.cancelledCtx x = true → Ev.cancelled x ∈ s.log
  skipCtx : ∀ j, Ev.skipped j .ctx ∈ s.log → Ev.cancelled (c.ctxOfJob j) ∈ s.log
  decDisp : ∀ j, 0 < s.log.countP (Ev.decides j) → (job s.loop j).dispatched = true

theorem inv6_init (c : Cfg) : Inv6 c (init c) := by
  refine ⟨?_, ?_, ?_, ?_, ?_, ?_, ?_, ?_, ?_, ?_, ?_, ?_, ?_, ?_⟩
  · intro w j _; simp [init]
  · intro j; simp [init]
  · intro w j h; simp [init] at h; obtain ⟨_, h⟩ := List.getElem?_eq_some_iff.mp h; simp at h
  · intro j; simp [init]
  · intro j o h; simp [init] at h
  · intro w j r h; simp [init] at h; obtain ⟨_, h⟩ := List.getElem?_eq_some_iff.mp h; simp at h
  · intro w j h; simp [init] at h; obtain ⟨_, h⟩ := List.getElem?_eq_some_iff.mp h; simp at h
  · intro j r h; simp [init] at h
  · intro j r h; simp [init] at h
  · intro j; simp [init]
  · intro j h; simp [init, job, getJob] at h
  · intro x h; simp [init] at h
  · intro j h; simp [init] at h
  · intro j h; simp [init] at h

theorem countP_append_irrelevant {p : Ev → Bool} {log es : List Ev} (h : ∀ e ∈ es, p e = false) :
    (log ++ es).countP p = log.countP p := by
  rw [List.countP_append]
  have : es.countP p = 0 := by
    rw [List.countP_eq_zero]; intro e he; simp [h e he]
  omega

/-- Frame: `ws`, `donec`, `doneCtx`, `done/failed` flags unchanged; only irrelevant events logged. -/
theorem inv6_frame {c : Cfg} {s s' : State} {es : List Ev} (h : Inv6 c s)
    (hdone : ∀ k, (job s'.loop k).done = (job s.loop k).done)
    (hfailed : ∀ k, (job s'.loop k).failed = (job s.loop k).failed)
    (hdisp : ∀ k, (job s'.loop k).dispatched = (job s.loop k).dispatched)
    (hws : s'.ws = s.ws) (hdc : s'.donec = s.donec) (hcan : s'.doneCtx = s.doneCtx)
    (hlog : s'.log = s.log ++ es) (hes : ∀ e ∈ es, e.relevant = false) : Inv6 c s' := by
  obtain ⟨g1, g2, g3, g4, g5, g6, g7, g8, g9, g10, g11, g12, g13, g14⟩ := h
  have irr : ∀ (p : Ev → Bool), (∀ e, p e = true → e.relevant = true) → ∀ e ∈ es, p e = false := by
    intro p hp e he
    cases hpe : p e with
    | false => rfl
    | true => have := hp e hpe; rw [hes e he] at this; simp at this
  have hdec : ∀ j, ∀ e ∈ es, Ev.decides j e = false := fun j =>
    irr _ (fun e he => decides_relevant he)
  have hend : ∀ j, ∀ e ∈ es, Ev.isEndedOf j e = false := fun j =>
    irr _ (fun e he => isEndedOf_relevant he)
  have hseen : ∀ j, ∀ e ∈ es, Ev.isSeenOf j e = false := fun j =>
    irr _ (fun e he => isSeenOf_relevant he)
  have nomem : ∀ e, e.relevant = true → e ∈ s'.log → e ∈ s.log := by
    intro e hr hm; rw [hlog] at hm
    rcases List.mem_append.mp hm with hm | hm
    · exact hm
    · rw [hes e hm] at hr; simp at hr
  refine ⟨?_, ?_, ?_, ?_, ?_, ?_, ?_, ?_, ?_, ?_, ?_, ?_, ?_, ?_⟩
  · intro w j hj; rw [hws] at hj; rw [hlog, countP_append_irrelevant (hdec j)]; exact g1 w j hj
  · intro j; rw [hlog, countP_append_irrelevant (hdec j)]; exact g2 j
  · intro w j hj; rw [hws] at hj; rw [hlog, countP_append_irrelevant (hend j)]
    exact ⟨List.mem_append_left _ (g3 w j hj).1, (g3 w j hj).2⟩
  · intro j; rw [hlog, countP_append_irrelevant (hend j)]; exact g4 j
  · intro j o hm; rw [hlog]; exact List.mem_append_left _ (g5 j o (nomem _ rfl hm))
  · intro w j r hj; rw [hws] at hj; rw [hlog]; exact (g6 w j r hj).mono
  · intro w j hj; rw [hws] at hj; rw [hlog]; exact List.mem_append_left _ (g7 w j hj)
  · intro j r hm; rw [hdc] at hm; rw [hlog]; exact (g8 j r hm).mono
  · intro j r hm
    obtain ⟨a, b, d⟩ := g9 j r (nomem _ rfl hm)
    exact ⟨by rw [hlog]; exact a.mono, by rw [hdone]; exact b, by rw [hfailed]; exact d⟩
  · intro j; rw [hlog, countP_append_irrelevant (hseen j)]; exact g10 j
  · intro j hd; rw [hdone] at hd; obtain ⟨r, hr⟩ := g11 j hd; exact ⟨r, by rw [hlog]; exact List.mem_append_left _ hr⟩
  · intro x hc; simp only [State.cancelledCtx, hcan] at hc; rw [hlog]; exact List.mem_append_left _ (g12 x hc)
  · intro j hm; rw [hlog]; exact List.mem_append_left _ (g13 j (nomem _ rfl hm))

  · intro j hp; rw [hlog, countP_append_irrelevant (hdec j)] at hp; rw [hdisp]; exact g14 j hp

theorem getElem?_set_cases {ws : List W} {w w' : Nat} {y z : W} (h : (ws.set w y)[w']? = some z) :
    (w = w' ∧ z = y) ∨ (w ≠ w' ∧ ws[w']? = some z) := by
  by_cases hww : w = w'
  · subst hww
    have hlt : w < ws.length := by
      have := (List.getElem?_eq_some_iff.mp h).1; simpa using this
    rw [List.getElem?_set_self hlt] at h
    exact Or.inl ⟨rfl, by simpa using h.symm⟩
  · rw [List.getElem?_set_ne hww] at h; exact Or.inr ⟨hww, h⟩

theorem countP_single {p : Ev → Bool} {log : List Ev} {e : Ev} :
    (log ++ [e]).countP p = log.countP p + (if p e then 1 else 0) := by
  rw [List.countP_append]; simp [List.countP_cons]


/-- The record fields after the result arm, for a job in custody (both the exiting and the continuing case). -/
theorem result_fields {c : Cfg} {s : State} (h1 : Inv1 c s) (hp : s.loop.phase = .select) {j : Nat} {r : Res}
    {rest : List (Nat × Res)} (hdc : s.donec = (j, r) :: rest) :
    (job s.loop j).dispatched = true ∧ (job s.loop j).done = false ∧ j < s.loop.jobs.length ∧
    (∀ k, (job (exitCheck (result c s.loop j r)) k).done = ((job s.loop k).done || decide (k = j))) ∧
    (∀ k, (job (exitCheck (result c s.loop j r)) k).failed = ((job s.loop k).failed || (r.isErr && decide (k = j)))) ∧
    (∀ k, (job (exitCheck (result c s.loop j r)) k).dispatched = (job s.loop k).dispatched) := by
  have hcj := h1.cust j
  have hpos : 0 < custCount s j := by
    simp only [custCount, hdc, List.countP_cons]; simp; omega
  have hdj : (job s.loop j).dispatched = true ∧ (job s.loop j).done = false := by
    rw [hcj] at hpos
    cases hd1 : (job s.loop j).dispatched <;> cases hd2 : (job s.loop j).done <;> simp [hd1, hd2] at hpos ⊢
  have hjlt : j < s.loop.jobs.length := by
    rcases Nat.lt_or_ge j s.loop.jobs.length with hh | hh
    · exact hh
    · have := hdj.1; rw [job_of_ge _ _ hh] at this; simp at this
  refine ⟨hdj.1, hdj.2, hjlt, ?_⟩
  by_cases hexit : r.isErr = true ∧ c.coe = false
  · obtain ⟨_, _, _, _, _, _, _, _, fdone, ffailed, fdisp, _⟩ := result_exit (l := s.loop) hjlt hexit.1 hexit.2
    exact ⟨by simpa using fdone, by intro k; simp [ffailed, hexit.1], by simpa using fdisp⟩
  · have hne : r.isErr = true → c.coe = true := by
      intro he; cases hc : c.coe with
      | true => rfl
      | false => exact absurd ⟨he, hc⟩ hexit
    obtain ⟨_, F⟩ := core_result (h1.core hp) hjlt hdj.2 hdj.1 hne
    exact ⟨by simpa using F.done, by simpa using F.failed, by simpa using F.dispatched⟩

theorem countP_pos_of_mem {p : Ev → Bool} {log : List Ev} {e : Ev} (hm : e ∈ log) (hp : p e = true) :
    0 < log.countP p := List.countP_pos_iff.mpr ⟨e, hm, hp⟩

/-- Frame with one worker slot changing. The obligations say what must hold if the new slot state
    is `holding`, `running`, `posting` or `dying`. -/
theorem inv6_frame_ws {c : Cfg} {s s' : State} {es : List Ev} {w : Nat} {x y : W} (h : Inv6 c s)
    (hx : s.ws[w]? = some x)
    (hdone : ∀ k, (job s'.loop k).done = (job s.loop k).done)
    (hfailed : ∀ k, (job s'.loop k).failed = (job s.loop k).failed)
    (hdisp : ∀ k, (job s.loop k).dispatched = true → (job s'.loop k).dispatched = true)
    (hws : s'.ws = s.ws.set w y) (hdc : ∀ e, e ∈ s'.donec → e ∈ s.donec ∨ Produced e.1 e.2 s'.log)
    (hcan : ∀ x, s'.cancelledCtx x = true → s.cancelledCtx x = true ∨ Ev.cancelled x ∈ es)
    (hlog : s'.log = s.log ++ es)
    (hdecs : ∀ j, (∀ e ∈ es, Ev.decides j e = false) ∨
        (s.log.countP (Ev.decides j) = 0 ∧ es.countP (Ev.decides j) ≤ 1 ∧ (job s'.loop j).dispatched = true ∧
          (∀ (w' k : Nat), w' ≠ w → s.ws[w']? = some (W.holding k) → k ≠ j)))
    (hends : ∀ j, (∀ e ∈ es, Ev.isEndedOf j e = false) ∨
        (s.log.countP (Ev.isEndedOf j) = 0 ∧ es.countP (Ev.isEndedOf j) ≤ 1 ∧ Ev.started j ∈ s.log ∧
          (∀ (w' k : Nat), w' ≠ w → s.ws[w']? = some (W.running k) → k ≠ j)))
    (hseen : ∀ e ∈ es, ∀ j, Ev.isSeenOf j e = false)
    (hskip : ∀ j, Ev.skipped j .ctx ∈ es → Ev.cancelled (c.ctxOfJob j) ∈ s.log)
    (hyH : ∀ j, y = W.holding j → s'.log.countP (Ev.decides j) = 0)
    (hyR : ∀ j, y = W.running j → Ev.started j ∈ s'.log ∧ s'.log.countP (Ev.isEndedOf j) = 0)
    (hyP : ∀ j r, y = W.posting j r → Produced j r s'.log)
    (hyD : ∀ j, y = W.dying j → Ev.ended j .goexit ∈ s'.log) : Inv6 c s' := by
  obtain ⟨g1, g2, g3, g4, g5, g6, g7, g8, g9, g10, g11, g12, g13, g14⟩ := h
  have seenIrr : ∀ j, ∀ e ∈ es, Ev.isSeenOf j e = false := fun j e he => hseen e he j
  refine ⟨?_, ?_, ?_, ?_, ?_, ?_, ?_, ?_, ?_, ?_, ?_, ?_, ?_, ?_⟩
  · intro w' j hj
    rw [hws] at hj
    rcases getElem?_set_cases hj with ⟨_, rfl⟩ | ⟨hne, hj⟩
    · exact hyH j rfl
    · rw [hlog]
      rcases hdecs j with hd | ⟨_, _, _, huniq⟩
      · rw [countP_append_irrelevant hd]; exact g1 w' j hj
      · exact absurd rfl (huniq w' j (Ne.symm hne) hj)
  · intro j
    rw [hlog]
    rcases hdecs j with hd | ⟨h0, h1, _, _⟩
    · rw [countP_append_irrelevant hd]; exact g2 j
    · rw [List.countP_append, h0]; omega
  · intro w' j hj
    rw [hws] at hj
    rcases getElem?_set_cases hj with ⟨_, rfl⟩ | ⟨hne, hj⟩
    · exact hyR j rfl
    · rw [hlog]
      refine ⟨List.mem_append_left _ (g3 w' j hj).1, ?_⟩
      rcases hends j with hd | ⟨_, _, _, huniq⟩
      · rw [countP_append_irrelevant hd]; exact (g3 w' j hj).2
      · exact absurd rfl (huniq w' j (Ne.symm hne) hj)
  · intro j
    rw [hlog]
    rcases hends j with hd | ⟨h0, h1, _, _⟩
    · rw [countP_append_irrelevant hd]; exact g4 j
    · rw [List.countP_append, h0]; omega
  · intro j o hm
    rw [hlog] at hm ⊢
    rcases List.mem_append.mp hm with hm | hm
    · exact List.mem_append_left _ (g5 j o hm)
    · rcases hends j with hd | ⟨_, _, hst, _⟩
      · have := hd _ hm; simp [Ev.isEndedOf] at this
      · exact List.mem_append_left _ hst
  · intro w' j r hj
    rw [hws] at hj
    rcases getElem?_set_cases hj with ⟨_, rfl⟩ | ⟨_, hj⟩
    · exact hyP j r rfl
    · rw [hlog]; exact (g6 w' j r hj).mono
  · intro w' j hj
    rw [hws] at hj
    rcases getElem?_set_cases hj with ⟨_, rfl⟩ | ⟨_, hj⟩
    · exact hyD j rfl
    · rw [hlog]; exact List.mem_append_left _ (g7 w' j hj)
  · intro j r hm
    rcases hdc (j, r) hm with hm | hm
    · rw [hlog]; exact (g8 j r hm).mono
    · exact hm
  · intro j r hm
    rw [hlog] at hm
    rcases List.mem_append.mp hm with hm | hm
    · obtain ⟨a, b, d⟩ := g9 j r hm
      exact ⟨by rw [hlog]; exact a.mono, by rw [hdone]; exact b, by rw [hfailed]; exact d⟩
    · have := hseen _ hm j; simp [Ev.isSeenOf] at this
  · intro j; rw [hlog, countP_append_irrelevant (seenIrr j)]; exact g10 j
  · intro j hd; rw [hdone] at hd; obtain ⟨r, hr⟩ := g11 j hd
    exact ⟨r, by rw [hlog]; exact List.mem_append_left _ hr⟩
  · intro x hc
    rw [hlog]
    rcases hcan x hc with hc | hc
    · exact List.mem_append_left _ (g12 x hc)
    · exact List.mem_append_right _ hc
  · intro j hm
    rw [hlog] at hm ⊢
    rcases List.mem_append.mp hm with hm | hm
    · exact List.mem_append_left _ (g13 j hm)
    · exact List.mem_append_left _ (hskip j hm)
  · intro j hp
    rw [hlog, List.countP_append] at hp
    rcases hdecs j with hd | ⟨_, _, hdj, _⟩
    · have : es.countP (Ev.decides j) = 0 := by
        rw [List.countP_eq_zero]; intro e he; simp [hd e he]
      exact hdisp j (g14 j (by omega))
    · exact hdj


theorem inv6_step {c : Cfg} (hw : c.wiring = Wiring.std) (hwf : WfCfg c) {s s' : State} {a : Act}
    (R : Reach c s) (h : Inv6 c s) (hs : step c s a = some s') : Inv6 c s' := by
  have hlate : c.wiring.lateEnqueueChecksDone = true := by rw [hw]; rfl
  have hgate : c.wiring.gateDispatch = true := by rw [hw]; rfl
  have h1 := R.i1
  cases a with
  | callerSend =>
    obtain ⟨_, _, _, _, rfl⟩ := inv_callerSend hs
    exact inv6_frame (es := [Ev.sent s.caller.sent]) h (fun _ => rfl) (fun _ => rfl) (fun _ => rfl) rfl rfl rfl rfl (by simp [Ev.relevant])
  | callerClose =>
    obtain ⟨_, _, rfl⟩ := inv_callerClose hs
    exact inv6_frame (es := []) h (fun _ => rfl) (fun _ => rfl) (fun _ => rfl) rfl rfl rfl (by simp) (by simp)
  | callerRetCtx =>
    obtain ⟨_, _, _, rfl⟩ := inv_callerRetCtx hw hs
    exact inv6_frame (es := [Ev.waitReturned [.ctxErr]]) h (fun _ => rfl) (fun _ => rfl) (fun _ => rfl) rfl rfl rfl rfl (by simp [Ev.relevant])
  | callerRetFin =>
    obtain ⟨_, _, _, rfl⟩ := inv_callerRetFin hs
    exact inv6_frame (es := [Ev.waitReturned (retVal c s)]) h (fun _ => rfl) (fun _ => rfl) (fun _ => rfl) rfl rfl rfl rfl (by simp [Ev.relevant])
  | loopEnqClosed =>
    obtain ⟨_, _, _, _, rfl⟩ := inv_loopEnqClosed hs
    exact inv6_frame (es := []) h (by simp [closed, job]) (by simp [closed, job]) (by simp [closed, job]) rfl rfl rfl (by simp) (by simp)
  | loopTick =>
    obtain ⟨_, _, rfl⟩ := inv_loopTick hs
    exact inv6_frame (es := [Ev.report (report c s.loop)]) h (by simp) (by simp) (by simp) rfl rfl rfl rfl (by simp [Ev.relevant])
  | loopDrain =>
    obtain ⟨_, _, _, _, rfl⟩ := inv_loopDrain hw hs
    exact inv6_frame (es := []) h (fun _ => rfl) (fun _ => rfl) (fun _ => rfl) rfl rfl rfl (by simp) (by simp)
  | loopClose =>
    obtain ⟨_, _, _, rfl⟩ := inv_loopClose hw hs
    exact inv6_frame (es := [Ev.loopExit]) h (by simp [job]) (by simp [job]) (by simp [job]) rfl rfl rfl rfl (by simp [Ev.relevant])
  | loopEnq =>
    obtain ⟨j, rest, hp, _, he, rfl⟩ := inv_loopEnq hs
    have hf := h1.fifo hp
    rw [he] at hf
    have hjeq : j = s.loop.jobs.length := by
      have := hf.1; simp [List.range'] at this; exact this.1
    subst hjeq
    obtain ⟨_, fdone, ffailed, fdisp, _⟩ := enq_fields (c := c) (l := s.loop) hlate (hwf.2 _)
    exact inv6_frame (es := [Ev.registered s.loop.jobs.length]) h (by simpa using fdone) (by simpa using ffailed)
      (by simpa using fdisp) rfl rfl rfl rfl (by simp [Ev.relevant])
  | cancel x =>
    obtain ⟨_, _, rfl⟩ := inv_cancel hs
    obtain ⟨g1, g2, g3, g4, g5, g6, g7, g8, g9, g10, g11, g12, g13, g14⟩ := h
    have irr : ∀ (p : Ev → Bool), p (Ev.cancelled x) = false → ∀ e ∈ [Ev.cancelled x], p e = false := by
      intro p hp e he; simp at he; subst he; exact hp
    refine ⟨?_, ?_, ?_, ?_, ?_, ?_, ?_, ?_, ?_, ?_, ?_, ?_, ?_, ?_⟩
    · intro w j hj; simp only [addLog_log]; rw [countP_append_irrelevant (irr _ rfl)]; exact g1 w j hj
    · intro j; simp only [addLog_log]; rw [countP_append_irrelevant (irr _ rfl)]; exact g2 j
    · intro w j hj; simp only [addLog_log]; rw [countP_append_irrelevant (irr _ rfl)]
      exact ⟨List.mem_append_left _ (g3 w j hj).1, (g3 w j hj).2⟩
    · intro j; simp only [addLog_log]; rw [countP_append_irrelevant (irr _ rfl)]; exact g4 j
    · intro j o hm; simp only [addLog_log] at hm ⊢
      rcases List.mem_append.mp hm with hm | hm
      · exact List.mem_append_left _ (g5 j o hm)
      · simp at hm
    · intro w j r hj; simp only [addLog_log]; exact (g6 w j r hj).mono
    · intro w j hj; simp only [addLog_log]; exact List.mem_append_left _ (g7 w j hj)
    · intro j r hm; simp only [addLog_log]; exact (g8 j r hm).mono
    · intro j r hm; simp only [addLog_log] at hm ⊢
      rcases List.mem_append.mp hm with hm | hm
      · obtain ⟨a, b, d⟩ := g9 j r hm; exact ⟨a.mono, b, d⟩
      · simp at hm
    · intro j; simp only [addLog_log]; rw [countP_append_irrelevant (irr _ rfl)]; exact g10 j
    · intro j hd; obtain ⟨r, hr⟩ := g11 j hd; exact ⟨r, by simp only [addLog_log]; exact List.mem_append_left _ hr⟩
    · intro y hc; simp only [addLog_log]
      simp at hc
      rcases hc with rfl | hc
      · simp
      · exact List.mem_append_left _ (g12 y hc)
    · intro j hm; simp only [addLog_log] at hm ⊢
      rcases List.mem_append.mp hm with hm | hm
      · exact List.mem_append_left _ (g13 j hm)
      · simp at hm
    · intro j hp; simp only [addLog_log] at hp; rw [countP_append_irrelevant (irr _ rfl)] at hp; exact g14 j hp
  | loopDispatch w =>
    obtain ⟨j, l, hp, hidle, hd, rfl⟩ := inv_loopDispatch hs
    obtain ⟨_, hjlt, hjnd, _, _⟩ := core_dispatch (h1.core hp) hd
    obtain ⟨_, _, _, _, _, _, _, _, _, fdone, ffailed, _, fdisp⟩ := dispatch_gate hgate hd
    have hfresh : s.log.countP (Ev.decides j) = 0 := by
      rcases Nat.eq_zero_or_pos (s.log.countP (Ev.decides j)) with h0 | h0
      · exact h0
      · have := h.decDisp j h0; simp [hjnd] at this
    refine inv6_frame_ws (es := [Ev.dispatched j]) (w := w) (x := W.idle) (y := W.holding j) h hidle
      (by simpa using fdone) (by simpa using ffailed) ?_ rfl (fun e he => Or.inl he) (fun _ hc => Or.inl hc) rfl
      (fun k => Or.inl (by simp [Ev.decides])) (fun k => Or.inl (by simp [Ev.isEndedOf])) (by simp [Ev.isSeenOf])
      (by simp) ?_ (by simp) (by simp) (by simp)
    · intro k hk; simp only [addLog_loop, setW_loop, exitCheck_job, fdisp]; simp [hk]
    · intro k hk
      simp only [W.holding.injEq] at hk; subst hk
      simp only [addLog_log, setW_log]
      rw [countP_append_irrelevant (by simp [Ev.decides])]; exact hfresh
  | workerDecide w =>
    obtain ⟨j, hj, hcases⟩ := inv_workerDecide hw hs
    obtain ⟨hdisp, _, huniq, _⟩ := holder_facts (j := j) h1 hj (by simp [W.job?])
    have hfresh := h.decFresh w j hj
    have hnoEnd : s.log.countP (Ev.isEndedOf j) = 0 := by
      rcases Nat.eq_zero_or_pos (s.log.countP (Ev.isEndedOf j)) with h0 | h0
      · exact h0
      · obtain ⟨e, he, hpe⟩ := List.countP_pos_iff.mp h0
        obtain ⟨o, rfl⟩ := isEndedOf_eq hpe
        have hst := h.endedStarted _ _ he
        have := countP_pos_of_mem (p := Ev.decides j) hst (by simp [Ev.decides])
        omega
    have uniqH : ∀ (w' k : Nat), w' ≠ w → s.ws[w']? = some (W.holding k) → k ≠ j := by
      intro w' k hne hk e; subst e
      exact hne (huniq w' _ hk (by simp [W.job?]))
    have decs : ∀ (e : Ev), Ev.decides j e = true → ∀ k,
        (∀ e' ∈ [e], Ev.decides k e' = false) ∨
        (s.log.countP (Ev.decides k) = 0 ∧ [e].countP (Ev.decides k) ≤ 1 ∧ (job s.loop k).dispatched = true ∧
          (∀ (w' k' : Nat), w' ≠ w → s.ws[w']? = some (W.holding k') → k' ≠ k)) := by
      intro e he k
      by_cases hk : k = j
      · subst hk
        exact Or.inr ⟨hfresh, by simp [List.countP_cons]; split <;> omega, hdisp, uniqH⟩
      · left; intro e' he'; simp at he'; subst he'
        exact decides_ne he hk
    rcases hcases with ⟨hcan, rfl⟩ | ⟨_, _, rfl⟩ | ⟨_, _, rfl⟩
    · refine inv6_frame_ws (es := [Ev.skipped j .ctx]) (w := w) (x := W.holding j) (y := W.posting j .ctxErr) h hj
        (fun _ => rfl) (fun _ => rfl) (fun _ hk => hk) rfl (fun e he => Or.inl he) (fun _ hc => Or.inl hc) rfl
        (decs _ (by simp [Ev.decides])) (fun k => Or.inl (by simp [Ev.isEndedOf])) (by simp [Ev.isSeenOf])
        (by intro k hk; simp at hk; subst hk; exact h.cancelLog _ hcan) (by simp) (by simp) ?_ (by simp)
      intro k r hk
      simp only [W.posting.injEq] at hk
      obtain ⟨rfl, rfl⟩ := hk
      exact Or.inr (Or.inl ⟨rfl, by simp⟩)
    · refine inv6_frame_ws (es := [Ev.skipped j .invalid]) (w := w) (x := W.holding j) (y := W.posting j .invalid) h hj
        (fun _ => rfl) (fun _ => rfl) (fun _ hk => hk) rfl (fun e he => Or.inl he) (fun _ hc => Or.inl hc) rfl
        (decs _ (by simp [Ev.decides])) (fun k => Or.inl (by simp [Ev.isEndedOf])) (by simp [Ev.isSeenOf])
        (by simp) (by simp) (by simp) ?_ (by simp)
      intro k r hk
      simp only [W.posting.injEq] at hk
      obtain ⟨rfl, rfl⟩ := hk
      exact Or.inr (Or.inr ⟨rfl, by simp⟩)
    · refine inv6_frame_ws (es := [Ev.started j]) (w := w) (x := W.holding j) (y := W.running j) h hj
        (fun _ => rfl) (fun _ => rfl) (fun _ hk => hk) rfl (fun e he => Or.inl he) (fun _ hc => Or.inl hc) rfl
        (decs _ (by simp [Ev.decides])) (fun k => Or.inl (by simp [Ev.isEndedOf])) (by simp [Ev.isSeenOf])
        (by simp) (by simp) ?_ (by simp) (by simp)
      intro k hk
      simp only [W.running.injEq] at hk; subst hk
      simp only [addLog_log, setW_log]
      refine ⟨by simp, ?_⟩
      rw [countP_append_irrelevant (by simp [Ev.isEndedOf])]; exact hnoEnd
  | workerEnd w o cancel =>
    obtain ⟨j, hj, rfl⟩ := inv_workerEnd hs
    obtain ⟨_, _, huniq, _⟩ := holder_facts (j := j) h1 hj (by simp [W.job?])
    obtain ⟨hst, hnoEnd⟩ := h.runFresh w j hj
    have hab : (afterBody c s j o cancel).loop = s.loop ∧ (afterBody c s j o cancel).ws = s.ws ∧
        (afterBody c s j o cancel).donec = s.donec ∧
        ∃ es, (afterBody c s j o cancel).log = s.log ++ (Ev.ended j o :: es) ∧ (es = [] ∨ es = [Ev.cancelled (c.ctxOfJob j)]) ∧
          (∀ x, (afterBody c s j o cancel).cancelledCtx x = true → s.cancelledCtx x = true ∨ Ev.cancelled x ∈ es) := by
      unfold afterBody; split
      · refine ⟨rfl, rfl, rfl, [Ev.cancelled (c.ctxOfJob j)], by simp, Or.inr rfl, ?_⟩
        intro x hc
        simp at hc
        rcases hc with rfl | hc
        · exact Or.inr (by simp)
        · exact Or.inl hc
      · exact ⟨rfl, rfl, rfl, [], by simp, Or.inl rfl, fun x hc => Or.inl (by simpa using hc)⟩
    obtain ⟨hl, hws, hdc, es, hlog, hes, hcan⟩ := hab
    have esIrr : ∀ (p : Ev → Bool), p (Ev.cancelled (c.ctxOfJob j)) = false → ∀ e ∈ es, p e = false := by
      intro p hp e he
      rcases hes with rfl | rfl
      · simp at he
      · simp at he; subst he; exact hp
    have uniqR : ∀ (w' k : Nat), w' ≠ w → s.ws[w']? = some (W.running k) → k ≠ j := by
      intro w' k hne hk e; subst e
      exact hne (huniq w' _ hk (by simp [W.job?]))
    refine inv6_frame_ws (es := Ev.ended j o :: es) (w := w) (x := W.running j)
        (y := if o = .goexit then W.dying j else W.posting j (outcomeRes o)) h hj
      (by simp [hl]) (by simp [hl]) (by intro k hk; simpa [hl] using hk) (by simp [hws])
      (by intro e he; simp [hdc] at he; exact Or.inl he) ?_ (by simp [hlog]) ?_ ?_ ?_ ?_ ?_ ?_ ?_ ?_
    · intro x hc; simp only [State.cancelledCtx, setW_doneCtx] at hc
      rcases hcan x hc with hc | hc
      · exact Or.inl hc
      · exact Or.inr (by simp [hc])
    · intro k; left; intro e he
      simp at he; rcases he with rfl | he
      · rfl
      · exact esIrr (Ev.decides k) rfl e he
    · intro k
      by_cases hk : k = j
      · subst hk
        right
        refine ⟨hnoEnd, ?_, hst, uniqR⟩
        rw [List.countP_cons]
        have : es.countP (Ev.isEndedOf k) = 0 := by
          rw [List.countP_eq_zero]; intro e he; simp [esIrr (Ev.isEndedOf k) rfl e he]
        rw [this]; split <;> omega
      · left; intro e he
        simp at he; rcases he with rfl | he
        · simp [Ev.isEndedOf]; exact fun e => hk e.symm
        · exact esIrr (Ev.isEndedOf k) rfl e he
    · intro e he k
      simp at he; rcases he with rfl | he
      · rfl
      · exact esIrr (Ev.isSeenOf k) rfl e he
    · intro k hk
      simp at hk
      have := esIrr (fun e => e == Ev.skipped k .ctx) (by simp) _ hk
      simp at this
    · intro k hk; split at hk <;> simp at hk
    · intro k hk; split at hk <;> simp at hk
    · intro k r hk
      split at hk
      · simp at hk
      · simp only [W.posting.injEq] at hk
        obtain ⟨rfl, rfl⟩ := hk
        exact Or.inl ⟨o, rfl, by simp [hlog]⟩
    · intro k hk
      split at hk
      · next ho =>
        simp only [W.dying.injEq] at hk; subst hk; subst ho
        simp [hlog]
      · simp at hk
  | workerPost w =>
    obtain ⟨j, r, hj, _, rfl⟩ := inv_workerPost hs
    have hprod := h.prodW w j r hj
    refine inv6_frame_ws (es := []) (w := w) (x := W.posting j r) (y := W.idle) h hj
      (fun _ => rfl) (fun _ => rfl) (fun _ hk => hk) rfl ?_ (fun _ hc => Or.inl hc) (by simp)
      (fun k => Or.inl (by simp)) (fun k => Or.inl (by simp)) (by simp) (by simp) (by simp) (by simp) (by simp) (by simp)
    intro e he
    simp only [setW_donec] at he
    rcases List.mem_append.mp he with he | he
    · exact Or.inl he
    · simp at he; subst he; exact Or.inr (by simpa using hprod)
  | workerDiePost w =>
    obtain ⟨j, hj, _, rfl⟩ := inv_workerDiePost hw hs
    have hprod := h.prodDying w j hj
    refine inv6_frame_ws (es := []) (w := w) (x := W.dying j) (y := W.idle) h hj
      (fun _ => rfl) (fun _ => rfl) (fun _ hk => hk) rfl ?_ (fun _ hc => Or.inl hc) (by simp)
      (fun k => Or.inl (by simp)) (fun k => Or.inl (by simp)) (by simp) (by simp) (by simp) (by simp) (by simp) (by simp)
    intro e he
    simp only [setW_donec] at he
    rcases List.mem_append.mp he with he | he
    · exact Or.inl he
    · simp at he; subst he
      exact Or.inr (Or.inl ⟨.goexit, rfl, by simpa using hprod⟩)
  | workerExit w =>
    obtain ⟨hj, _, rfl⟩ := inv_workerExit hs
    exact inv6_frame_ws (es := []) (w := w) (x := W.idle) (y := W.exited) h hj
      (fun _ => rfl) (fun _ => rfl) (fun _ hk => hk) rfl (fun e he => Or.inl he) (fun _ hc => Or.inl hc) (by simp)
      (fun k => Or.inl (by simp)) (fun k => Or.inl (by simp)) (by simp) (by simp) (by simp) (by simp) (by simp) (by simp)
  | loopResult =>
    obtain ⟨j, r, rest, hp, hdc, rfl⟩ := inv_loopResult hs
    obtain ⟨hjd, hjnd, hjlt, fdone, ffailed, fdisp⟩ := result_fields (c := c) h1 hp hdc
    obtain ⟨g1, g2, g3, g4, g5, g6, g7, g8, g9, g10, g11, g12, g13, g14⟩ := h
    have hjnf : (job s.loop j).failed = false := by
      cases hf : (job s.loop j).failed with
      | false => rfl
      | true => have := R.i2.failedDone j hf; simp [hjnd] at this
    have hes : ∀ e ∈ [Ev.resultSeen j r] ++ (if (r.isErr && c.coe) = true then invalidWrites (job s.loop j).consumers else []),
        e = Ev.resultSeen j r ∨ ∃ k, e = Ev.wroteInvalid k := by
      intro e he
      simp at he
      rcases he with rfl | ⟨_, he⟩
      · exact Or.inl rfl
      · simp [invalidWrites] at he; obtain ⟨k, _, rfl⟩ := he; exact Or.inr ⟨k, rfl⟩
    have irr : ∀ (p : Ev → Bool), p (Ev.resultSeen j r) = false → (∀ k, p (Ev.wroteInvalid k) = false) →
        ∀ e ∈ [Ev.resultSeen j r] ++ (if (r.isErr && c.coe) = true then invalidWrites (job s.loop j).consumers else []), p e = false := by
      intro p h1 h2 e he
      rcases hes e he with rfl | ⟨k, rfl⟩
      · exact h1
      · exact h2 k
    have noSeenJ : s.log.countP (Ev.isSeenOf j) = 0 := by
      rcases Nat.eq_zero_or_pos (s.log.countP (Ev.isSeenOf j)) with h0 | h0
      · exact h0
      · obtain ⟨e, he, hpe⟩ := List.countP_pos_iff.mp h0
        obtain ⟨r', rfl⟩ := isSeenOf_eq hpe
        have := (g9 _ _ he).2.1; simp [hjnd] at this
    simp only [List.append_assoc]
    refine ⟨?_, ?_, ?_, ?_, ?_, ?_, ?_, ?_, ?_, ?_, ?_, ?_, ?_, ?_⟩
    · intro w k hk; rw [countP_append_irrelevant (irr _ rfl (fun _ => rfl))]; exact g1 w k hk
    · intro k; rw [countP_append_irrelevant (irr _ rfl (fun _ => rfl))]; exact g2 k
    · intro w k hk; rw [countP_append_irrelevant (irr _ rfl (fun _ => rfl))]
      exact ⟨List.mem_append_left _ (g3 w k hk).1, (g3 w k hk).2⟩
    · intro k; rw [countP_append_irrelevant (irr _ rfl (fun _ => rfl))]; exact g4 k
    · intro k o hm
      rcases List.mem_append.mp hm with hm | hm
      · exact List.mem_append_left _ (g5 k o hm)
      · rcases hes _ hm with e | ⟨_, e⟩ <;> simp at e
    · intro w k r' hk; exact (g6 w k r' hk).mono
    · intro w k hk; exact List.mem_append_left _ (g7 w k hk)
    · intro k r' hm; exact (g8 k r' (by rw [hdc]; exact List.mem_cons_of_mem _ hm)).mono
    · intro k r' hm
      rcases List.mem_append.mp hm with hm | hm
      · obtain ⟨a, b, d⟩ := g9 k r' hm
        have hkj : k ≠ j := by intro e; subst e; simp [hjnd] at b
        refine ⟨a.mono, by rw [fdone]; simp [b], by rw [ffailed]; simp [d, hkj]⟩
      · rcases hes _ hm with e | ⟨_, e⟩
        · simp at e; obtain ⟨rfl, rfl⟩ := e
          refine ⟨(g8 k r' (by rw [hdc]; simp)).mono, by rw [fdone]; simp, by rw [ffailed]; simp [hjnf]⟩
        · simp at e
    · intro k
      by_cases hk : k = j
      · subst hk
        rw [List.countP_append, noSeenJ, List.countP_append]
        have : (if (r.isErr && c.coe) = true then invalidWrites (job s.loop k).consumers else []).countP (Ev.isSeenOf k) = 0 := by
          rw [List.countP_eq_zero]; intro e he
          split at he
          · simp [invalidWrites] at he; obtain ⟨_, _, rfl⟩ := he; simp [Ev.isSeenOf]
          · simp at he
        rw [this]; simp [List.countP_cons]; split <;> omega
      · rw [countP_append_irrelevant (irr _ (by simp [Ev.isSeenOf]; exact fun e => hk e.symm) (fun _ => rfl))]; exact g10 k
    · intro k hd
      rw [fdone] at hd
      simp only [Bool.or_eq_true, decide_eq_true_eq] at hd
      rcases hd with hd | hd
      · obtain ⟨r', hr'⟩ := g11 k hd; exact ⟨r', List.mem_append_left _ hr'⟩
      · subst hd; exact ⟨r, by simp⟩
    · intro x hc; exact List.mem_append_left _ (g12 x hc)
    · intro k hm
      rcases List.mem_append.mp hm with hm | hm
      · exact List.mem_append_left _ (g13 k hm)
      · rcases hes _ hm with e | ⟨_, e⟩ <;> simp at e
    · intro k hpk
      rw [countP_append_irrelevant (irr _ rfl (fun _ => rfl))] at hpk
      rw [fdisp]; exact g14 k hpk

end Sched
