/-
  Global state invariant (no log): loop bookkeeping, FIFO registration, job custody, gate.
-/
import CffVerif.Sched.LoopInv
import CffVerif.Sched.StepInv

namespace Sched

open Loop

def W.job? : W → Option Nat
  | .holding j | .running j | .posting j _ | .dying j => some j
  | _ => none

def W.holds (j : Nat) (x : W) : Bool := x.job? == some j
def W.busy (x : W) : Bool := x.job?.isSome

/-- Number of places (worker slots, `donec` entries) that currently hold job `j`. -/
def custCount (s : State) (j : Nat) : Nat :=
  s.ws.countP (W.holds j) + s.donec.countP (fun x => x.1 == j)

structure Inv1 (c : Cfg) (s : State) : Prop where
  core : s.loop.phase = .select → Core c s.loop
  fifo : s.loop.phase = .select →
      s.enq = List.range' s.loop.jobs.length s.enq.length ∧ s.loop.jobs.length + s.enq.length = s.caller.sent
  wsLen : s.ws.length = c.N
  cust : ∀ j, custCount s j = ((job s.loop j).dispatched && !(job s.loop j).done).toNat
  ongoing : s.loop.ongoing = ((s.ws.countP W.busy + s.donec.length : Nat) : Int)
  gate : s.loop.ongoing ≤ c.N

theorem countP_set_of {p : W → Bool} {ws : List W} {w : Nat} {x y : W} (h : ws[w]? = some x) :
    (ws.set w y).countP p = ws.countP p - (if p x then 1 else 0) + (if p y then 1 else 0) := by
  obtain ⟨hlt, hx⟩ := List.getElem?_eq_some_iff.mp h
  rw [List.countP_set hlt, hx]

theorem countP_pos_of {p : W → Bool} {ws : List W} {w : Nat} {x : W} (h : ws[w]? = some x) (hp : p x = true) :
    0 < ws.countP p := by
  apply List.countP_pos_iff.mpr
  exact ⟨x, List.mem_of_getElem? h, hp⟩

theorem countP_set_same {p : W → Bool} {ws : List W} {w : Nat} {x y : W} (h : ws[w]? = some x)
    (e : p y = p x) : (ws.set w y).countP p = ws.countP p := by
  rw [countP_set_of h, e]
  by_cases hp : p x = true
  · have := countP_pos_of h hp; simp [hp]; omega
  · simp [hp]

theorem countP_set_drop {p : W → Bool} {ws : List W} {w : Nat} {x y : W} (h : ws[w]? = some x)
    (hx : p x = true) (hy : p y = false) : (ws.set w y).countP p + 1 = ws.countP p := by
  rw [countP_set_of h]
  have := countP_pos_of h hx
  simp [hx, hy]; omega

theorem countP_set_add {p : W → Bool} {ws : List W} {w : Nat} {x y : W} (h : ws[w]? = some x)
    (hx : p x = false) (hy : p y = true) : (ws.set w y).countP p = ws.countP p + 1 := by
  rw [countP_set_of h]
  simp [hx, hy]

theorem inv1_init (c : Cfg) : Inv1 c (init c) := by
  refine ⟨fun _ => core_init c, by intro _; simp [init], by simp [init], ?_, ?_, by simp [init]⟩
  · intro j
    simp [custCount, init, job, getJob, W.holds, W.job?]
  · have : (List.replicate c.N W.idle).countP W.busy = 0 := by
      rw [List.countP_eq_zero]; intro a ha; simp [List.mem_replicate] at ha; simp [ha.2, W.busy, W.job?]
    simp [init, this]

/-- Frame: a step that leaves `loop`, `ws`, `donec`, `enq`, `caller.sent` alone. -/
theorem inv1_frame {c : Cfg} {s s' : State} (h : Inv1 c s) (hl : s'.loop = s.loop) (hws : s'.ws = s.ws)
    (hd : s'.donec = s.donec) (he : s'.enq = s.enq) (hs : s'.caller.sent = s.caller.sent) : Inv1 c s' := by
  obtain ⟨h1, h2, h3, h4, h5, h6⟩ := h
  refine ⟨by rw [hl]; exact h1, by rw [hl, he, hs]; exact h2, by rw [hws]; exact h3, ?_, by rw [hl, hws, hd]; exact h5, by rw [hl]; exact h6⟩
  intro j; have := h4 j; simp only [custCount, hws, hd, hl] at this ⊢; exact this


theorem core_exitCheck_imp {c : Cfg} {l : LoopSt} (h : Core c l) :
    (exitCheck l).phase = .select → Core c (exitCheck l) := fun _ => core_exitCheck h

/-- A worker slot moving from one state to another with the same job. -/
theorem inv1_worker_same {c : Cfg} {s : State} {w : Nat} {x y : W} (h : Inv1 c s)
    (hx : s.ws[w]? = some x) (hj : y.job? = x.job?) {s' : State}
    (hl : s'.loop = s.loop) (hws : s'.ws = s.ws.set w y)
    (hd : s'.donec = s.donec) (he : s'.enq = s.enq) (hs : s'.caller.sent = s.caller.sent) : Inv1 c s' := by
  obtain ⟨h1, h2, h3, h4, h5, h6⟩ := h
  refine ⟨by rw [hl]; exact h1, by rw [hl, he, hs]; exact h2, by rw [hws]; simpa using h3, ?_, ?_, by rw [hl]; exact h6⟩
  · intro j
    have h4j := h4 j
    simp only [custCount, hws, hd, hl] at h4j ⊢
    rw [countP_set_same hx (by simp [W.holds, hj])]
    exact h4j
  · rw [hl, hws, hd, h5, countP_set_same hx (by simp [W.busy, hj])]

/-- A worker posting its result: the job moves from the slot to `donec`. -/
theorem inv1_worker_post {c : Cfg} {s : State} {w j : Nat} {x : W} {r : Res} (h : Inv1 c s)
    (hx : s.ws[w]? = some x) (hj : x.job? = some j) :
    Inv1 c (setW { s with donec := s.donec ++ [(j, r)] } w .idle) := by
  obtain ⟨h1, h2, h3, h4, h5, h6⟩ := h
  refine ⟨h1, h2, by simpa using h3, ?_, ?_, h6⟩
  · intro k
    have h4k := h4 k
    simp only [custCount, setW_ws, setW_donec, setW_loop, List.countP_append] at h4k ⊢
    have hidle : W.holds k W.idle = false := by simp [W.holds, W.job?]
    by_cases hk : k = j
    · subst hk
      have hh : W.holds k x = true := by simp [W.holds, hj]
      have e := countP_set_drop hx hh hidle
      rw [← h4k]
      simp; omega
    · have hh : W.holds k x = false := by
        simp [W.holds, hj]; exact fun e => hk e.symm
      have e := countP_set_same (y := W.idle) hx (hidle.trans hh.symm)
      have hjk : ((j == k) = false) := by simp; exact fun e => hk e.symm
      rw [e, ← h4k]; simp [hjk]
  · simp only [setW_ws, setW_donec, setW_loop]
    have hb : W.busy x = true := by simp [W.busy, hj]
    have e := countP_set_drop (y := W.idle) hx hb (by simp [W.busy, W.job?])
    rw [h5]; simp; omega

theorem inv1_step {c : Cfg} (hw : c.wiring = Wiring.std) (hwf : WfCfg c) {s s' : State} {a : Act}
    (h : Inv1 c s) (hs : step c s a = some s') : Inv1 c s' := by
  have hlate : c.wiring.lateEnqueueChecksDone = true := by rw [hw]; rfl
  have hgate : c.wiring.gateDispatch = true := by rw [hw]; rfl
  cases a with
  | callerSend =>
    obtain ⟨_, _, _, he, rfl⟩ := inv_callerSend hs
    obtain ⟨h1, h2, h3, h4, h5, h6⟩ := h
    refine ⟨h1, ?_, h3, ?_, h5, h6⟩
    · intro hp
      have := h2 hp
      rw [he] at this ⊢
      simp at this ⊢
      simp [List.range', this]
    · intro j; have := h4 j; simpa [custCount] using this
  | callerClose =>
    obtain ⟨_, _, rfl⟩ := inv_callerClose hs
    exact inv1_frame h rfl rfl rfl rfl rfl
  | callerRetCtx =>
    obtain ⟨_, _, _, rfl⟩ := inv_callerRetCtx hw hs
    exact inv1_frame h rfl rfl rfl rfl rfl
  | callerRetFin =>
    obtain ⟨_, _, _, rfl⟩ := inv_callerRetFin hs
    exact inv1_frame h rfl rfl rfl rfl rfl
  | loopEnq =>
    obtain ⟨j, rest, hp, _, he, rfl⟩ := inv_loopEnq hs
    obtain ⟨h1, h2, h3, h4, h5, h6⟩ := h
    have hf := h2 hp
    rw [he] at hf
    have hjeq : j = s.loop.jobs.length := by
      have := hf.1; simp [List.range'] at this; exact this.1
    have hrest : rest = List.range' (s.loop.jobs.length + 1) rest.length := by
      have := hf.1; simp [List.range'] at this; exact this.2
    subst hjeq
    have hdeps : ∀ d ∈ c.depsOf s.loop.jobs.length, d < s.loop.jobs.length := hwf.2 _
    obtain ⟨elen, fdone, ffailed, fdisp, _⟩ := enq_fields (c := c) (l := s.loop) hlate hdeps
    have eo := enq_others c s.loop s.loop.jobs.length
    refine ⟨?_, ?_, h3, ?_, ?_, ?_⟩
    · intro _
      exact core_exitCheck (core_enq hlate hdeps hwf.2 (h1 hp) rfl)
    · intro _
      simp only [addLog_enq, addLog_loop, addLog_caller, exitCheck_jobs, elen]
      refine ⟨hrest, ?_⟩
      have := hf.2; simp at this; omega
    · intro k
      have := h4 k
      simp only [custCount, addLog_ws, addLog_donec, addLog_loop, exitCheck_job, fdone, fdisp] at this ⊢
      exact this
    · simp only [addLog_ws, addLog_donec, addLog_loop, exitCheck_ongoing, eo.2.1]; exact h5
    · simp only [addLog_loop, exitCheck_ongoing, eo.2.1]; exact h6
  | loopEnqClosed =>
    obtain ⟨hp, _, _, _, rfl⟩ := inv_loopEnqClosed hs
    obtain ⟨h1, h2, h3, h4, h5, h6⟩ := h
    refine ⟨fun _ => core_exitCheck (core_closed (h1 hp)), ?_, h3, ?_, ?_, ?_⟩
    · intro _; simpa [closed] using h2 hp
    · intro k; have := h4 k; simpa [custCount, closed, job] using this
    · simpa [closed] using h5
    · simpa [closed] using h6
  | loopDispatch w =>
    obtain ⟨j, l, hp, hidle, hd, rfl⟩ := inv_loopDispatch hs
    obtain ⟨h1, h2, h3, h4, h5, h6⟩ := h
    obtain ⟨hcore, hjlt, hjnd, hjdone, _⟩ := core_dispatch (h1 hp) hd
    obtain ⟨hlt, hong, hlen, _, _, _, _, _, _, fdone, _, _, fdisp⟩ := dispatch_gate hgate hd
    refine ⟨fun _ => core_exitCheck hcore, ?_, by simpa using h3, ?_, ?_, ?_⟩
    · intro _; simpa [hlen] using h2 hp
    · intro k
      have h4k := h4 k
      simp only [custCount, addLog_ws, addLog_donec, addLog_loop, setW_ws, setW_donec, setW_loop, exitCheck_job,
                 fdone, fdisp] at h4k ⊢
      have hi : W.holds k W.idle = false := by simp [W.holds, W.job?]
      by_cases hk : k = j
      · subst hk
        have hh : W.holds k (W.holding k) = true := by simp [W.holds, W.job?]
        rw [countP_set_add hidle hi hh]
        have z : ((job s.loop k).dispatched && !(job s.loop k).done).toNat = 0 := by simp [hjnd]
        have o : (((job s.loop k).dispatched || (decide (k = k) && decide (k < s.loop.jobs.length))) &&
                    !(job s.loop k).done).toNat = 1 := by simp [hjlt, hjdone]
        rw [z] at h4k
        rw [o]; omega
      · have hh : W.holds k (W.holding j) = false := by simp [W.holds, W.job?]; exact fun e => hk e.symm
        rw [countP_set_same hidle (hh.trans hi.symm), h4k]
        simp [hk]
    · simp only [addLog_ws, addLog_donec, addLog_loop, setW_ws, setW_donec, setW_loop, exitCheck_ongoing, hong, h5]
      rw [countP_set_add hidle (by simp [W.busy, W.job?]) (by simp [W.busy, W.job?])]
      simp; omega
    · simp only [addLog_loop, setW_loop, exitCheck_ongoing, hong]; omega
  | loopResult =>
    obtain ⟨j, r, rest, hp, hdc, rfl⟩ := inv_loopResult hs
    obtain ⟨h1, h2, h3, h4, h5, h6⟩ := h
    have hcj := h4 j
    have hpos : 0 < custCount s j := by
      simp only [custCount, hdc, List.countP_cons]; simp; omega
    have hdj : (job s.loop j).dispatched = true ∧ (job s.loop j).done = false := by
      rw [hcj] at hpos
      cases hd1 : (job s.loop j).dispatched <;> cases hd2 : (job s.loop j).done <;> simp [hd1, hd2] at hpos ⊢
    have hjlt : j < s.loop.jobs.length := by
      rcases Nat.lt_or_ge j s.loop.jobs.length with hh | hh
      · exact hh
      · have := hdj.1; rw [job_of_ge _ _ hh] at this; simp at this
    by_cases hexit : r.isErr = true ∧ c.coe = false
    · -- fail-fast exit
      obtain ⟨ph, _, rlen, _, rong, _, _, _, fdone, _, fdisp, _⟩ := result_exit (l := s.loop) hjlt hexit.1 hexit.2
      have phase' : (exitCheck (result c s.loop j r)).phase = .draining := by
        rw [exitCheck_phase, ph]; split <;> rfl
      refine ⟨?_, ?_, h3, ?_, ?_, ?_⟩
      · intro hsel; rw [phase'] at hsel; simp at hsel
      · intro hsel; rw [phase'] at hsel; simp at hsel
      · intro k
        have h4k := h4 k
        simp only [custCount, exitCheck_job, fdone, fdisp, hdc, List.countP_cons] at h4k ⊢
        by_cases hk : k = j
        · subst hk
          have z : ((job s.loop k).dispatched && !(job s.loop k).done).toNat = 1 := by simp [hdj.1, hdj.2]
          rw [z] at h4k
          have y : ((k, r).fst == k) = true := by simp
          simp only [y, if_true] at h4k
          simp only [Bool.or_true, decide_true, Bool.not_true, Bool.and_false, Bool.toNat_false]
          omega
        · have hjk : (j == k) = false := by simp; exact fun e => hk e.symm
          simp only [hjk, hk, decide_false, Bool.or_false] at h4k ⊢
          simpa using h4k
      · simp only [exitCheck_ongoing, rong, h5, hdc]; simp; omega
      · simp only [exitCheck_ongoing, rong]; omega
    · have hne : r.isErr = true → c.coe = true := by
        intro he; cases hc : c.coe with
        | true => rfl
        | false => exact absurd ⟨he, hc⟩ hexit
      obtain ⟨hcore, F⟩ := core_result (h1 hp) hjlt hdj.2 hdj.1 hne
      refine ⟨fun _ => core_exitCheck hcore, ?_, h3, ?_, ?_, ?_⟩
      · intro _; simpa [F.len] using h2 hp
      · intro k
        have h4k := h4 k
        simp only [custCount, exitCheck_job, F.done, F.dispatched, hdc, List.countP_cons] at h4k ⊢
        by_cases hk : k = j
        · subst hk
          have z : ((job s.loop k).dispatched && !(job s.loop k).done).toNat = 1 := by simp [hdj.1, hdj.2]
          rw [z] at h4k
          have y : ((k, r).fst == k) = true := by simp
          simp only [y, if_true] at h4k
          simp only [Bool.or_true, decide_true, Bool.not_true, Bool.and_false, Bool.toNat_false]
          omega
        · have hjk : (j == k) = false := by simp; exact fun e => hk e.symm
          simp only [hjk, hk, decide_false, Bool.or_false] at h4k ⊢
          simpa using h4k
      · simp only [exitCheck_ongoing, F.ongoing, h5, hdc]; simp; omega
      · simp only [exitCheck_ongoing, F.ongoing]; omega
  | loopTick =>
    obtain ⟨hp, _, rfl⟩ := inv_loopTick hs
    obtain ⟨h1, h2, h3, h4, h5, h6⟩ := h
    refine ⟨fun _ => core_exitCheck (h1 hp), ?_, h3, ?_, by simpa using h5, by simpa using h6⟩
    · intro _; simpa using h2 hp
    · intro k; have := h4 k; simpa [custCount] using this
  | loopDrain =>
    obtain ⟨j, rest, hp, _, rfl⟩ := inv_loopDrain hw hs
    obtain ⟨h1, h2, h3, h4, h5, h6⟩ := h
    refine ⟨h1, ?_, h3, ?_, h5, h6⟩
    · intro hsel; simp [hp] at hsel
    · intro k; have := h4 k; simpa [custCount] using this
  | loopClose =>
    obtain ⟨hp, _, _, rfl⟩ := inv_loopClose hw hs
    obtain ⟨h1, h2, h3, h4, h5, h6⟩ := h
    refine ⟨?_, ?_, h3, ?_, by simpa using h5, by simpa using h6⟩
    · intro hsel; simp at hsel
    · intro hsel; simp at hsel
    · intro k; have := h4 k; simpa [custCount, job] using this
  | workerDecide w =>
    obtain ⟨j, hj, hcases⟩ := inv_workerDecide hw hs
    rcases hcases with ⟨_, rfl⟩ | ⟨_, _, rfl⟩ | ⟨_, _, rfl⟩ <;>
      exact inv1_worker_same h hj (by simp [W.job?]) rfl rfl rfl rfl rfl
  | workerEnd w o cancel =>
    obtain ⟨j, hj, rfl⟩ := inv_workerEnd hs
    have hab : (afterBody c s j o cancel).loop = s.loop ∧ (afterBody c s j o cancel).ws = s.ws ∧
        (afterBody c s j o cancel).donec = s.donec ∧ (afterBody c s j o cancel).enq = s.enq ∧
        (afterBody c s j o cancel).caller = s.caller := by
      unfold afterBody; split <;> simp
    refine inv1_worker_same h hj (y := if o = .goexit then .dying j else .posting j (outcomeRes o)) ?_ ?_ ?_ ?_ ?_ ?_
    · split <;> simp [W.job?]
    · simp [hab.1]
    · simp [hab.2.1]
    · simp [hab.2.2.1]
    · simp [hab.2.2.2.1]
    · simp [hab.2.2.2.2]
  | workerPost w =>
    obtain ⟨j, r, hj, _, rfl⟩ := inv_workerPost hs
    exact inv1_worker_post h hj (by simp [W.job?])
  | workerDiePost w =>
    obtain ⟨j, hj, _, rfl⟩ := inv_workerDiePost hw hs
    exact inv1_worker_post h hj (by simp [W.job?])
  | workerExit w =>
    obtain ⟨hj, _, rfl⟩ := inv_workerExit hs
    exact inv1_worker_same h hj (by simp [W.job?]) rfl rfl rfl rfl rfl
  | cancel =>
    obtain ⟨_, _, rfl⟩ := inv_cancel hs
    exact inv1_frame h rfl rfl rfl rfl rfl

end Sched
