/-
  C03 "capacity is not lost" (work conservation), core development.

  From a reachable state in which the loop is selecting, a job is ready, fewer than `N` bodies
  run, the context of the front ready job is live, that job is valid and (fail-fast) nothing has
  failed or is about to (`NothingFailed`),
  the scheduler by internal steps alone gets one more body running.  The statement with the
  `W.isRunning` of `Properties.lean` is in `WorkCons.lean`; here it is proved for the identical
  predicate `W.isRun`, so that this file does not depend on `Properties.lean`.
-/
import CffVerif.Sched.Simple
import CffVerif.Sched.Own
import CffVerif.Sched.Measure
import CffVerif.Sched.Prompt

namespace Sched

open Loop

/-- Loop arms other than the ticker, and worker steps other than the end of a job body. -/
def Act.isInternal : Act → Bool
  | .loopEnq | .loopEnqClosed | .loopDispatch _ | .loopResult | .loopDrain | .loopClose
  | .workerDecide _ | .workerPost _ | .workerDiePost _ | .workerExit _ => true
  | _ => false

def W.isRun : W → Bool
  | .running _ => true
  | _ => false

/-- A worker slot that can move on its own: it holds a job without running its body. -/
def W.unsettled : W → Bool
  | .holding _ | .posting _ _ | .dying _ => true
  | _ => false

open P3

namespace P3

/-! ### the result arm only appends to `ready` -/

theorem notify_ready_prefix : ∀ (cs : List Nat) (l : LoopSt) (base : List Nat), l.ready = base →
    ∃ extra, (notify l cs).ready = base ++ extra := by
  intro cs
  induction cs with
  | nil => intro l base h; exact ⟨[], by simp [notify, h]⟩
  | cons k ks ih =>
    intro l base h
    simp only [notify]
    by_cases h0 : ((job l k).decRem.remaining == 0) = true
    · rw [if_pos h0]
      have key : ∀ X : LoopSt, X.ready = base ++ [k] → ∃ extra, (notify X ks).ready = base ++ extra := by
        intro X hX
        obtain ⟨e, he⟩ := ih X _ hX
        exact ⟨k :: e, by rw [he]; simp⟩
      exact key _ (by simp [h])
    · rw [if_neg h0]
      exact ih _ base (by simp [h])

theorem result_ready_prefix (c : Cfg) (l : LoopSt) (j : Nat) (r : Res) :
    ∃ extra, (result c l j r).ready = l.ready ++ extra := by
  unfold result
  simp only []
  split
  · split
    · exact ⟨[], by rw [List.append_nil]; rfl⟩
    · apply notify_ready_prefix
      rw [(markInvalid_spec _ _).1.ready]
      split <;> rfl
  · apply notify_ready_prefix
    rfl

/-! ### everything known about a reachable state -/

structure Base (c : Cfg) (s : State) : Prop where
  r2 : Reach2 c s
  i8 : Inv8 c s
  ci : CancelInv c s

theorem base_step {c : Cfg} (hw : c.wiring = Wiring.std) (hwf : WfCfg c) {s s' : State} {a : Act}
    (b : Base c s) (h : step c s a = some s') : Base c s' :=
  have R := b.r2.r
  ⟨⟨reach_step hw hwf R h, inv6_step hw hwf R b.r2.i6 h, inv7_step hw hwf R b.r2.i7 h⟩,
   inv8_step hw hwf b.r2 b.i8 h, cancelInv_step hw b.ci h⟩

theorem base_run {c : Cfg} (hw : c.wiring = Wiring.std) (hwf : WfCfg c) (acts : List Act) (s : State)
    (hr : run c (init c) acts = some s) : Base c s := by
  refine run_induct (c := c) (Base c) (fun _ _ _ hp h => base_step hw hwf hp h) acts _ _ ?_ hr
  exact ⟨⟨⟨inv1_init c, inv2_init c, inv3_init c, inv4_init c, inv5_init c⟩, inv6_init c, inv7_init c⟩,
         inv8_init c, cancelInv_init c⟩

end P3

/-- "Nothing failed so far, and nothing in flight is about to fail" (the fail-fast hypothesis of
    work conservation): every body that ended, ended `ok`; no job was skipped because of its
    context; and the jobs workers have received but not yet decided on have live contexts.
    (With one context per job the last two are needed: a worker holding a job whose own context
    is cancelled will post `ctxErr`, and fail-fast leaves the loop on it, however live the
    context of the front ready job is.) -/
def NothingFailed (c : Cfg) (s : State) : Prop :=
  (∀ j o, Ev.ended j o ∈ s.log → o = .ok) ∧ (∀ j, Ev.skipped j .ctx ∉ s.log) ∧
  (∀ (w j : Nat), s.ws[w]? = some (W.holding j) → s.cancelledCtx (c.ctxOfJob j) = false)

namespace P3

/-- The hypotheses of work conservation, with the front ready job `h` named.  Preserved by the
    "settling" steps (worker decisions that skip, posts, the loop consuming results). -/
structure WC (c : Cfg) (h : Nat) (s : State) : Prop where
  base : Base c s
  sel : s.loop.phase = .select
  head : s.loop.ready.head? = some h
  live : s.cancelledCtx (c.ctxOfJob h) = false
  valid : (job s.loop h).invalid = false
  nofail : c.coe = true ∨ NothingFailed c s

/-- Fail-fast, nothing failed: every result in flight is a success. -/
theorem produced_ok {c : Cfg} {h : Nat} {s : State} (g : WC c h s) (hc : c.coe = false) {j : Nat} {r : Res}
    (hp : Produced j r s.log) : r = .ok := by
  rcases hp with ⟨o, rfl, he⟩ | ⟨_, hsk⟩ | ⟨_, hsk⟩
  · rcases g.nofail with hn | hn
    · simp [hc] at hn
    · have := hn.1 j o he; subst this; rfl
  · rcases g.nofail with hn | hn
    · simp [hc] at hn
    · exact absurd hsk (hn.2.1 j)
  · exact absurd hsk (g.base.i8.noInvalidFf hc j)

/-- `NothingFailed` is kept by a step that changes one worker slot to a non-`holding` state and
    logs neither an `ended` nor a context skip. -/
theorem nothingFailed_frame {c : Cfg} {s s' : State} {w : Nat} {y : W} {es : List Ev}
    (hn : NothingFailed c s) (hws : s'.ws = s.ws.set w y) (hy : ∀ j, y ≠ W.holding j)
    (hcan : s'.doneCtx = s.doneCtx) (hlog : s'.log = s.log ++ es)
    (hes : ∀ e ∈ es, (∀ j o, e ≠ Ev.ended j o) ∧ (∀ j, e ≠ Ev.skipped j .ctx)) : NothingFailed c s' := by
  obtain ⟨n1, n2, n3⟩ := hn
  refine ⟨?_, ?_, ?_⟩
  · intro j o hm; rw [hlog] at hm
    rcases List.mem_append.mp hm with hm | hm
    · exact n1 j o hm
    · exact absurd rfl ((hes _ hm).1 j o)
  · intro j hm; rw [hlog] at hm
    rcases List.mem_append.mp hm with hm | hm
    · exact n2 j hm
    · exact absurd rfl ((hes _ hm).2 j)
  · intro w' j hj; rw [hws] at hj
    simp only [State.cancelledCtx, hcan]
    rcases getElem?_set_cases hj with ⟨_, hh⟩ | ⟨_, hj⟩
    · exact absurd hh.symm (hy j)
    · exact n3 w' j hj

theorem head_cons {l : List Nat} {h : Nat} (hh : l.head? = some h) : ∃ t, l = h :: t := by
  cases l with
  | nil => simp at hh
  | cons a t => simp at hh; exact ⟨t, by rw [hh]⟩

/-- A worker step that neither starts nor ends a body keeps the hypotheses. -/
theorem wc_worker {c : Cfg} (hw : c.wiring = Wiring.std) (hwf : WfCfg c) {h : Nat} {s s' : State} {a : Act}
    (g : WC c h s) (hl : a.isLoop = false) (hs : step c s a = some s')
    (hcan : s'.doneCtx = s.doneCtx) (hnf : NothingFailed c s → NothingFailed c s') :
    WC c h s' := by
  have hloop := step_nonloop_frame hw hl hs
  refine ⟨base_step hw hwf g.base hs, by rw [hloop]; exact g.sel, by rw [hloop]; exact g.head,
          by simp only [State.cancelledCtx, hcan]; exact g.live, by rw [hloop]; exact g.valid, ?_⟩
  rcases g.nofail with hn | hn
  · exact Or.inl hn
  · exact Or.inr (hnf hn)

/-- The loop consuming a result keeps the hypotheses: it stays in its `select`, the front of
    `ready` is unchanged and keeps its `invalid` flag. -/
theorem wc_result {c : Cfg} (hw : c.wiring = Wiring.std) (hwf : WfCfg c) {h : Nat} {s s' : State}
    (g : WC c h s) (hs : step c s .loopResult = some s') : WC c h s' ∧ s'.ws = s.ws := by
  have b' := base_step hw hwf g.base hs
  obtain ⟨j, r, rest, hp, hdc, rfl⟩ := inv_loopResult hs
  have R := g.base.r2.r
  have hcore := R.i1.core hp
  obtain ⟨hdisp, hnd, hjlt, fdone, ffailed, _⟩ := result_fields (c := c) R.i1 hp hdc
  have hne : r.isErr = true → c.coe = true := by
    intro he
    cases hc : c.coe with
    | true => rfl
    | false =>
      have := produced_ok g hc (g.base.r2.i6.prodD j r (by rw [hdc]; simp))
      subst this; simp [Res.isErr] at he
  obtain ⟨_, F⟩ := core_result hcore hjlt hnd hdisp hne
  obtain ⟨extra, hex⟩ := result_ready_prefix c s.loop j r
  obtain ⟨t, hready⟩ := head_cons g.head
  have R' := b'.r2.r
  -- the ready list afterwards
  have hready' : (exitCheck (result c s.loop j r)).ready = h :: (t ++ extra) := by
    rw [exitCheck_ready, hex, hready]; rfl
  -- pending stays positive, so the loop does not leave
  have hpend : (result c s.loop j r).pending ≠ 0 := by
    have e1 : (exitCheck (result c s.loop j r)).pending =
        ((exitCheck (result c s.loop j r)).ready.length : Int) + (exitCheck (result c s.loop j r)).waiting
          + (exitCheck (result c s.loop j r)).ongoing := R'.i4.counts.eq
    have e2 : (exitCheck (result c s.loop j r)).waiting =
        (((exitCheck (result c s.loop j r)).jobs.countP remPos : Nat) : Int) := R'.i4.counts.wait
    have e3 : (exitCheck (result c s.loop j r)).ongoing = ((s.ws.countP W.busy + rest.length : Nat) : Int) :=
      R'.i1.ongoing
    rw [hready'] at e1
    simp only [exitCheck_pending, List.length_cons] at e1
    omega
  have hsel' : (exitCheck (result c s.loop j r)).phase = .select := by
    rw [exitCheck_phase]
    have : ((result c s.loop j r).pending == 0) = false := by simpa using hpend
    simp [this, F.phase, hp]
  have hcore' := R'.i1.core hsel'
  -- `h` was ready: all its dependencies are done, so none of them is `j`
  have hmem : h ∈ s.loop.ready := by rw [hready]; simp
  obtain ⟨hhlt, hhrem, _⟩ := (hcore.readyIff h).mp hmem
  have hdepsdone : ∀ d ∈ c.depsOf h, (job s.loop d).done = true := by
    intro d hd
    have := hcore.rem h hhlt
    rw [hhrem] at this
    have := countP_eq_zero_all this.symm d hd
    simpa using this
  have hvalid' : (job (exitCheck (result c s.loop j r)) h).invalid = false := by
    cases hv : (job (exitCheck (result c s.loop j r)) h).invalid with
    | false => rfl
    | true =>
      exfalso
      have hhlt' : h < (exitCheck (result c s.loop j r)).jobs.length := by
        rw [exitCheck_jobs, F.len]; exact hhlt
      obtain ⟨d, hd, _, hf⟩ := (hcore'.inval h hhlt').mp hv
      have hdd := hdepsdone d hd
      have hdj : d ≠ j := by intro e; subst e; simp [hnd] at hdd
      rw [ffailed] at hf
      simp [hdj] at hf
      have := (hcore.inval h hhlt).mpr ⟨d, hd, hdd, hf⟩
      simp [g.valid] at this
  refine ⟨⟨b', hsel', ?_, g.live, hvalid', ?_⟩, rfl⟩
  · show (exitCheck (result c s.loop j r)).ready.head? = some h
    rw [hready']; rfl
  · rcases g.nofail with hn | hn
    · exact Or.inl hn
    · have noEv : ∀ e, e ∈ s.log ++ [Ev.resultSeen j r] ++
            (if (r.isErr && c.coe) = true then invalidWrites (job s.loop j).consumers else []) →
          ((∃ k o, e = Ev.ended k o) ∨ (∃ k, e = Ev.skipped k .ctx)) → e ∈ s.log := by
        intro e hm hk
        simp only [List.append_assoc] at hm
        rcases List.mem_append.mp hm with hm | hm
        · exact hm
        · exfalso
          rcases List.mem_append.mp hm with hm | hm
          · simp at hm; subst hm
            rcases hk with ⟨_, _, hk⟩ | ⟨_, hk⟩ <;> simp at hk
          · split at hm
            · simp [invalidWrites] at hm
              obtain ⟨_, _, rfl⟩ := hm
              rcases hk with ⟨_, _, hk⟩ | ⟨_, hk⟩ <;> simp at hk
            · simp at hm
      exact Or.inr ⟨fun k o hm => hn.1 k o (noEv _ hm (Or.inl ⟨k, o, rfl⟩)),
        fun k hm => hn.2.1 k (noEv _ hm (Or.inr ⟨k, rfl⟩)), hn.2.2⟩

/-! ### the dispatch itself, from a settled state -/

theorem exists_not_of_countP_lt {p : W → Bool} : ∀ {l : List W}, l.countP p < l.length → ∃ x ∈ l, p x = false := by
  intro l
  induction l with
  | nil => intro h; simp at h
  | cons a as ih =>
    intro h
    cases hpa : p a with
    | false => exact ⟨a, by simp, hpa⟩
    | true =>
      rw [List.countP_cons] at h
      simp [hpa] at h
      obtain ⟨x, hx, hpx⟩ := ih h
      exact ⟨x, by simp [hx], hpx⟩

theorem dispatch_and_start {c : Cfg} (hw : c.wiring = Wiring.std) {h : Nat} {s : State}
    (g : WC c h s) (hfree : s.ws.countP W.isRun < c.N)
    (hsettled : ∀ x ∈ s.ws, W.unsettled x = false) (hdc : s.donec = []) :
    ∃ (w : Nat) (s' : State), run c s [.loopDispatch w, .workerDecide w] = some s' ∧
      s'.ws.countP W.isRun = s.ws.countP W.isRun + 1 := by
  have R := g.base.r2.r
  have hp := g.sel
  obtain ⟨t, hready⟩ := head_cons g.head
  -- every slot is idle or running
  have hnoex := R.i5.noExited (by rw [hp]; simp)
  have hbr : s.ws.countP W.busy = s.ws.countP W.isRun := by
    apply List.countP_congr
    intro x hx
    have h1 := hsettled x hx
    have h2 := hnoex x hx
    cases x <;> simp_all [W.busy, W.job?, W.isRun, W.unsettled]
  have hong : s.loop.ongoing < (c.N : Int) := by
    rw [R.i1.ongoing, hdc, hbr]; simp; omega
  -- an idle slot
  obtain ⟨x, hx, hnr⟩ := exists_not_of_countP_lt (p := W.isRun) (l := s.ws) (by rw [R.i1.wsLen]; exact hfree)
  have hxi : x = W.idle := by
    have h1 := hsettled x hx
    have h2 := hnoex x hx
    cases x <;> simp_all [W.isRun, W.unsettled]
  subst hxi
  obtain ⟨w, hw'⟩ := List.mem_iff_getElem?.mp hx
  have hwlt : w < s.ws.length := (List.getElem?_eq_some_iff.mp hw').1
  -- the dispatch
  have hgate : c.wiring.gateDispatch = true := by rw [hw]; rfl
  obtain ⟨l, hd⟩ : ∃ l, dispatch c s.loop = some (h, l) := by
    simp [dispatch, hready, hong]
  have hs1 : step c s (.loopDispatch w) =
      some (addLog (setW { s with loop := Loop.exitCheck l } w (.holding h)) (.dispatched h)) := by
    simp [step, hp, hw', hd]
  obtain ⟨_, _, _, _, _, _, _, _, _, _, _, finv, _⟩ := dispatch_gate hgate hd
  have hinv1' : (job l h).invalid = false := by rw [finv]; exact g.valid
  have hws1 : (s.ws.set w (W.holding h))[w]? = some (W.holding h) := by
    rw [List.getElem?_set_self hwlt]
  have hs2 : step c (addLog (setW { s with loop := Loop.exitCheck l } w (.holding h)) (.dispatched h)) (.workerDecide w) =
      some (addLog (setW (addLog (setW { s with loop := Loop.exitCheck l } w (.holding h)) (.dispatched h)) w (.running h))
            (.started h)) := by
    simp [step, hws1, g.live, hinv1']
  refine ⟨w, _, run_cons_some hs1 (run_single hs2), ?_⟩
  simp only [addLog_ws, setW_ws]
  rw [countP_set_add hws1 (by simp [W.isRun]) (by simp [W.isRun]),
      countP_set_same hw' (by simp [W.isRun])]

/-! ### settling, then dispatching -/

theorem settle {c : Cfg} (hw : c.wiring = Wiring.std) (hwf : WfCfg c) (h : Nat) :
    ∀ (n : Nat) (s : State), WC c h s → mu c s < n → s.ws.countP W.isRun < c.N →
      ∃ (more : List Act) (s' : State), (∀ a ∈ more, a.isInternal = true) ∧ run c s more = some s' ∧
        s.ws.countP W.isRun < s'.ws.countP W.isRun := by
  intro n
  induction n with
  | zero => intro s _ hmu; omega
  | succ n ih =>
    intro s g hmu hfree
    have R := g.base.r2.r
    have hp := g.sel
    -- one settling step, then the induction hypothesis
    have via : ∀ (a : Act) (s1 : State), a.isInternal = true → a ≠ .loopTick → step c s a = some s1 → WC c h s1 →
        s1.ws.countP W.isRun = s.ws.countP W.isRun →
        ∃ (more : List Act) (s' : State), (∀ a ∈ more, a.isInternal = true) ∧ run c s more = some s' ∧
          s.ws.countP W.isRun < s'.ws.countP W.isRun := by
      intro a s1 hai hat hs g1 hcnt
      have hdec := mu_decreases hw hwf R hs hat
      obtain ⟨more, s', hm, hrun, hlt⟩ := ih s1 g1 (by omega) (by rw [hcnt]; exact hfree)
      refine ⟨a :: more, s', ?_, run_cons_some hs hrun, by rw [← hcnt]; exact hlt⟩
      intro b hb
      rcases List.mem_cons.mp hb with rfl | hb
      · exact hai
      · exact hm b hb
    by_cases hu : ∃ x ∈ s.ws, W.unsettled x = true
    · obtain ⟨x, hx, hux⟩ := hu
      obtain ⟨w, hw'⟩ := List.mem_iff_getElem?.mp hx
      have hroom : s.donec.length < c.capDone := by
        rw [capDone_std hw]
        have hbx : W.busy x = true := by cases x <;> simp_all [W.busy, W.job?, W.unsettled]
        have hpos := countP_pos_of hw' hbx
        have h1 := R.i1.ongoing
        have h2 := R.i1.gate
        omega
      cases x with
      | idle => simp [W.unsettled] at hux
      | running j => simp [W.unsettled] at hux
      | exited => simp [W.unsettled] at hux
      | holding j =>
        cases hcanj : s.cancelledCtx (c.ctxOfJob j) with
        | true =>
          -- the job's own context is cancelled: it is skipped (only possible with ContinueOnError)
          have hs : step c s (.workerDecide w) = some (addLog (setW s w (.posting j .ctxErr)) (.skipped j .ctx)) := by
            simp [step, hw', hcanj, hw, Wiring.std]
          refine via _ _ (by simp [Act.isInternal]) (by simp) hs ?_ ?_
          · refine wc_worker hw hwf g (by simp [Act.isLoop]) hs rfl ?_
            intro hn
            have := hn.2.2 w j hw'
            rw [hcanj] at this; simp at this
          · simp only [addLog_ws, setW_ws]
            exact countP_set_same hw' (by simp [W.isRun])
        | false =>
        cases hinv : (job s.loop j).invalid with
        | false =>
          -- the job starts: one more body running
          have hs : step c s (.workerDecide w) = some (addLog (setW s w (.running j)) (.started j)) := by
            simp [step, hw', hcanj, hinv]
          refine ⟨[.workerDecide w], _, by simp [Act.isInternal], run_single hs, ?_⟩
          simp only [addLog_ws, setW_ws]
          rw [countP_set_add hw' (by simp [W.isRun]) (by simp [W.isRun])]
          omega
        | true =>
          have hs : step c s (.workerDecide w) = some (addLog (setW s w (.posting j .invalid)) (.skipped j .invalid)) := by
            simp [step, hw', hcanj, hinv, hw, Wiring.std]
          refine via _ _ (by simp [Act.isInternal]) (by simp) hs ?_ ?_
          · refine wc_worker hw hwf g (by simp [Act.isLoop]) hs rfl ?_
            intro hn
            exact nothingFailed_frame (es := [Ev.skipped j .invalid]) hn rfl (by simp) rfl rfl (by simp)
          · simp only [addLog_ws, setW_ws]
            exact countP_set_same hw' (by simp [W.isRun])
      | posting j r =>
        have hs : step c s (.workerPost w) = some (setW { s with donec := s.donec ++ [(j, r)] } w .idle) := by
          simp [step, hw', hroom]
        refine via _ _ (by simp [Act.isInternal]) (by simp) hs ?_ ?_
        · exact wc_worker hw hwf g (by simp [Act.isLoop]) hs rfl
            (fun hn => nothingFailed_frame (es := []) hn rfl (by simp) rfl (by simp) (by simp))
        · simp only [setW_ws]
          exact countP_set_same hw' (by simp [W.isRun])
      | dying j =>
        have hs : step c s (.workerDiePost w) = some (setW { s with donec := s.donec ++ [(j, .exitErr)] } w .idle) := by
          simp [step, hw', hroom, hw, Wiring.std]
        refine via _ _ (by simp [Act.isInternal]) (by simp) hs ?_ ?_
        · exact wc_worker hw hwf g (by simp [Act.isLoop]) hs rfl
            (fun hn => nothingFailed_frame (es := []) hn rfl (by simp) rfl (by simp) (by simp))
        · simp only [setW_ws]
          exact countP_set_same hw' (by simp [W.isRun])
    · have hsettled : ∀ x ∈ s.ws, W.unsettled x = false := by
        intro x hx
        cases hux : W.unsettled x with
        | false => rfl
        | true => exact absurd ⟨x, hx, hux⟩ hu
      cases hdc : s.donec with
      | cons e rest =>
        obtain ⟨j, r⟩ := e
        obtain ⟨s1, hs⟩ : ∃ s1, step c s .loopResult = some s1 := by
          simp [step, hp, hdc]
        obtain ⟨g1, hws⟩ := wc_result hw hwf g hs
        exact via _ _ (by simp [Act.isInternal]) (by simp) hs g1 (by rw [hws])
      | nil =>
        obtain ⟨w, s', hrun, hcnt⟩ := dispatch_and_start hw g hfree hsettled hdc
        refine ⟨[.loopDispatch w, .workerDecide w], s', ?_, hrun, by omega⟩
        intro a ha
        simp at ha
        rcases ha with rfl | rfl <;> rfl

end P3

/-- **Work conservation** (for `W.isRun`, counted with `countP`). -/
theorem work_conserving_core (c : Cfg) (hw : c.wiring = Wiring.std) (hwf : WfCfg c) (acts : List Act) (s : State)
    (hr : run c (init c) acts = some s)
    (hsel : s.loop.phase = .select) (hready : s.loop.ready ≠ [])
    (hfree : s.ws.countP W.isRun < c.N)
    (hlive : ∀ j, s.loop.ready.head? = some j → s.cancelledCtx (c.ctxOfJob j) = false)
    (hvalid : ∀ j, s.loop.ready.head? = some j → (Loop.job s.loop j).invalid = false)
    (hnofail : c.coe = true ∨ NothingFailed c s) :
    ∃ (more : List Act) (s' : State), (∀ a ∈ more, a.isInternal = true) ∧ run c s more = some s' ∧
      s.ws.countP W.isRun < s'.ws.countP W.isRun := by
  obtain ⟨h, hh⟩ : ∃ h, s.loop.ready.head? = some h := by
    cases hr' : s.loop.ready with
    | nil => exact absurd hr' hready
    | cons a t => exact ⟨a, rfl⟩
  have g : WC c h s := ⟨base_run hw hwf acts s hr, hsel, hh, hlive h hh, hvalid h hh, hnofail⟩
  exact settle hw hwf h (mu c s + 1) s g (by omega) hfree

end Sched
