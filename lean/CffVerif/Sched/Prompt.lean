/-
  C09 "returns at once" as an existential-schedule theorem: from every reachable state in which
  the context `Wait` is called with is cancelled and `Wait` has not returned, the caller can complete its remaining
  `Enqueue` calls and return from `Wait` without any running job body having to end.
-/
import CffVerif.Sched.Progress

namespace Sched

open Loop

def Act.isWorkerEnd : Act → Bool
  | .workerEnd _ _ _ => true
  | _ => false

/-! Helper lemmas live in `Sched.P3` to keep the `Sched` namespace clean. -/
namespace P3

/-- `run` over a concatenation. -/
theorem run_append (c : Cfg) : ∀ (xs ys : List Act) (s : State),
    run c s (xs ++ ys) = (run c s xs).bind (fun u => run c u ys) := by
  intro xs
  induction xs with
  | nil => intro ys s; simp [run]
  | cons x xs ih =>
    intro ys s
    simp only [List.cons_append, run]
    cases step c s x with
    | none => simp
    | some u => simp [ih]

theorem run_append_some {c : Cfg} {xs ys : List Act} {s s1 s2 : State}
    (h1 : run c s xs = some s1) (h2 : run c s1 ys = some s2) : run c s (xs ++ ys) = some s2 := by
  rw [run_append, h1]; simpa using h2

theorem run_single {c : Cfg} {s s1 : State} {a : Act} (h : step c s a = some s1) :
    run c s [a] = some s1 := by
  simp [run, h]

theorem run_cons_some {c : Cfg} {a : Act} {ys : List Act} {s s1 s2 : State}
    (h1 : step c s a = some s1) (h2 : run c s1 ys = some s2) : run c s (a :: ys) = some s2 := by
  simp [run, h1, h2]

/-- `Reach` is preserved by every step. -/
theorem reach_step {c : Cfg} (hw : c.wiring = Wiring.std) (hwf : WfCfg c) {s s' : State} {a : Act}
    (hp : Reach c s) (h : step c s a = some s') : Reach c s' :=
  ⟨inv1_step hw hwf hp.i1 h, inv2_step hw hwf hp.i1 hp.i2 h, inv3_step hw hwf hp.i1 hp.i2 hp.i3 h,
   inv4_step hw hwf hp.i1 hp.i4 h, inv5_step hw hp.i5 h⟩

theorem reach_run_from {c : Cfg} (hw : c.wiring = Wiring.std) (hwf : WfCfg c) (acts : List Act) (s s' : State)
    (hp : Reach c s) (hr : run c s acts = some s') : Reach c s' :=
  run_induct (c := c) (Reach c) (fun _ _ _ hp h => reach_step hw hwf hp h) acts _ _ hp hr

/-- The caller never completes more `Enqueue` calls than there are jobs. -/
theorem step_sent_le {c : Cfg} (hw : c.wiring = Wiring.std) {s s' : State} {a : Act}
    (hle : s.caller.sent ≤ c.deps.length) (h : step c s a = some s') : s'.caller.sent ≤ c.deps.length := by
  cases a with
  | callerSend => obtain ⟨_, _, hlt, _, rfl⟩ := inv_callerSend h; simp; omega
  | callerClose => obtain ⟨_, _, rfl⟩ := inv_callerClose h; exact hle
  | callerRetCtx => obtain ⟨_, _, _, rfl⟩ := inv_callerRetCtx hw h; exact hle
  | callerRetFin => obtain ⟨_, _, _, rfl⟩ := inv_callerRetFin h; exact hle
  | loopEnq => obtain ⟨_, _, _, _, _, rfl⟩ := inv_loopEnq h; exact hle
  | loopEnqClosed => obtain ⟨_, _, _, _, rfl⟩ := inv_loopEnqClosed h; exact hle
  | loopDispatch w => obtain ⟨_, _, _, _, _, rfl⟩ := inv_loopDispatch h; exact hle
  | loopResult => obtain ⟨_, _, _, _, _, rfl⟩ := inv_loopResult h; exact hle
  | loopTick => obtain ⟨_, _, rfl⟩ := inv_loopTick h; exact hle
  | loopDrain => obtain ⟨_, _, _, _, rfl⟩ := inv_loopDrain hw h; exact hle
  | loopClose => obtain ⟨_, _, _, rfl⟩ := inv_loopClose hw h; exact hle
  | workerDecide w =>
    obtain ⟨_, _, hc⟩ := inv_workerDecide hw h
    rcases hc with ⟨_, rfl⟩ | ⟨_, _, rfl⟩ | ⟨_, _, rfl⟩ <;> exact hle
  | workerEnd w o cancel =>
    obtain ⟨j, _, rfl⟩ := inv_workerEnd h
    have : (afterBody c s j o cancel).caller = s.caller := by unfold afterBody; split <;> simp
    simp only [setW_caller, this]; exact hle
  | workerPost w => obtain ⟨_, _, _, _, rfl⟩ := inv_workerPost h; exact hle
  | workerDiePost w => obtain ⟨_, _, _, rfl⟩ := inv_workerDiePost hw h; exact hle
  | workerExit w => obtain ⟨_, _, rfl⟩ := inv_workerExit h; exact hle
  | cancel => obtain ⟨_, _, rfl⟩ := inv_cancel h; exact hle

theorem sent_le_run {c : Cfg} (hw : c.wiring = Wiring.std) (acts : List Act) (s : State)
    (hr : run c (init c) acts = some s) : s.caller.sent ≤ c.deps.length :=
  run_induct (c := c) (fun s => s.caller.sent ≤ c.deps.length) (fun _ _ _ hp h => step_sent_le hw hp h)
    acts _ _ (by simp [init]) hr

/-- `enqueuec` can always be emptied by loop steps alone (the select arm while the loop is in its
    `for`, the `for range s.enqueuec {}` drain after it left). -/
theorem drain_enq {c : Cfg} (hw : c.wiring = Wiring.std) (hwf : WfCfg c) :
    ∀ (n : Nat) (s : State), Reach c s → s.enq.length = n →
      ∃ (more : List Act) (s' : State), (∀ a ∈ more, a = Act.loopEnq ∨ a = Act.loopDrain) ∧
        run c s more = some s' ∧ Reach c s' ∧ s'.enq = [] ∧ s'.caller = s.caller ∧
        s'.doneCtx = s.doneCtx := by
  intro n
  induction n with
  | zero =>
    intro s R hn
    exact ⟨[], s, by simp, rfl, R, List.eq_nil_of_length_eq_zero hn, rfl, rfl⟩
  | succ n ih =>
    intro s R hn
    match he : s.enq, hn with
    | [], hn => simp at hn
    | j :: rest, hn =>
      have hrest : rest.length = n := by simpa using hn
      cases hph : s.loop.phase with
      | select =>
        have hnil : s.loop.enqNil = false := by
          cases hnil : s.loop.enqNil with
          | false => rfl
          | true => have := (R.i5.nilClosed hnil).1; simp [he] at this
        have hs : step c s .loopEnq =
            some (addLog { s with enq := rest, loop := Loop.exitCheck (Loop.enq c s.loop j) } (.registered j)) := by
          simp [step, hph, hnil, he]
        have R1 := reach_step hw hwf R hs
        obtain ⟨more, s', hm, hrun, R', he', hc', hcan'⟩ := ih _ R1 (by simpa using hrest)
        refine ⟨.loopEnq :: more, s', ?_, run_cons_some hs hrun, R', he', ?_, ?_⟩
        · intro a ha
          rcases List.mem_cons.mp ha with rfl | ha
          · exact Or.inl rfl
          · exact hm a ha
        · rw [hc']; rfl
        · rw [hcan']; rfl
      | draining =>
        have hs : step c s .loopDrain = some { s with enq := rest } := by
          simp [step, hph, he, hw, Wiring.std]
        have R1 := reach_step hw hwf R hs
        obtain ⟨more, s', hm, hrun, R', he', hc', hcan'⟩ := ih _ R1 (by simpa using hrest)
        refine ⟨.loopDrain :: more, s', ?_, run_cons_some hs hrun, R', he', ?_, ?_⟩
        · intro a ha
          rcases List.mem_cons.mp ha with rfl | ha
          · exact Or.inr rfl
          · exact hm a ha
        · rw [hc']
        · rw [hcan']
      | exited =>
        have := (R.i5.exitedClosed hph).2
        simp [he] at this

/-- The caller can complete all its remaining `Enqueue` calls with the help of loop steps only. -/
theorem send_all {c : Cfg} (hw : c.wiring = Wiring.std) (hwf : WfCfg c) :
    ∀ (k : Nat) (s : State), Reach c s → s.caller.sent ≤ c.deps.length → c.deps.length - s.caller.sent = k →
      s.caller.closed = false → s.caller.ret = none →
      ∃ (more : List Act) (s' : State), (∀ a ∈ more, a.isWorkerEnd = false) ∧
        run c s more = some s' ∧ Reach c s' ∧ s'.caller.sent = c.deps.length ∧
        s'.caller.closed = false ∧ s'.caller.ret = none ∧ s'.doneCtx = s.doneCtx := by
  intro k
  induction k with
  | zero =>
    intro s R hle hk hcl hret
    exact ⟨[], s, by simp, rfl, R, by omega, hcl, hret, rfl⟩
  | succ k ih =>
    intro s R hle hk hcl hret
    obtain ⟨m1, s1, hm1, hrun1, R1, he1, hc1, hcan1⟩ := drain_enq hw hwf _ s R rfl
    have hlt : s1.caller.sent < c.deps.length := by rw [hc1]; omega
    have hs : step c s1 .callerSend =
        some (addLog { s1 with enq := s1.enq ++ [s1.caller.sent],
                               caller := { s1.caller with sent := s1.caller.sent + 1 } }
              (.sent s1.caller.sent)) := by
      simp [step, hc1, hcl, hret, he1]
      rw [← hc1]; exact hlt
    have R2 := reach_step hw hwf R1 hs
    obtain ⟨m2, s', hm2, hrun2, R', hsent', hcl', hret', hcan'⟩ :=
      ih _ R2 (by simp; omega) (by simp; rw [hc1]; omega) (by simp [hc1, hcl]) (by simp [hc1, hret])
    refine ⟨m1 ++ (.callerSend :: m2), s', ?_, run_append_some hrun1 (run_cons_some hs hrun2), R', hsent', hcl', hret', ?_⟩
    · intro a ha
      rcases List.mem_append.mp ha with ha | ha
      · rcases hm1 a ha with rfl | rfl <;> rfl
      · rcases List.mem_cons.mp ha with rfl | ha
        · rfl
        · exact hm2 a ha
    · rw [hcan']; simpa using hcan1

end P3

open P3

/-- **C09 "returns at once".** From every reachable state in which `Wait`'s context
    (`c.waitCtx`) is cancelled and `Wait` has not returned, the caller can finish all its remaining `Enqueue` calls and return
    from `Wait` through steps none of which is the end of a running job body (no `workerEnd`):
    it never has to wait for a running task. -/
theorem prompt_return (c : Cfg) (hw : c.wiring = Wiring.std) (hwf : WfCfg c) (acts : List Act) (s : State)
    (hr : run c (init c) acts = some s) (hc : s.cancelledCtx c.waitCtx = true) (hnr : s.caller.ret = none) :
    ∃ (more : List Act) (s' : State), (∀ a ∈ more, a.isWorkerEnd = false) ∧ run c s more = some s' ∧
      s'.caller.ret.isSome = true ∧ (s.caller.closed = false → s'.caller.sent = c.deps.length) := by
  have R := reach_run hw hwf acts s hr
  have hle := sent_le_run hw acts s hr
  cases hcl : s.caller.closed with
  | true =>
    have hs : step c s .callerRetCtx =
        some (addLog { s with caller := { s.caller with ret := some [.ctxErr] } } (.waitReturned [.ctxErr])) := by
      simp [step, hcl, hnr, hc, hw, Wiring.std]
    exact ⟨[.callerRetCtx], _, by simp [Act.isWorkerEnd], run_single hs, by simp, by simp⟩
  | false =>
    obtain ⟨m, s1, hm, hrun, R1, hsent, hcl1, hret1, hcan1⟩ := send_all hw hwf _ s R hle rfl hcl hnr
    have hs2 : step c s1 .callerClose = some { s1 with caller := { s1.caller with closed := true } } := by
      simp [step, hcl1, hret1]
    have hs3 : step c { s1 with caller := { s1.caller with closed := true } } .callerRetCtx =
        some (addLog { s1 with caller := { s1.caller with closed := true, ret := some [.ctxErr] } }
              (.waitReturned [.ctxErr])) := by
      simp [step, hret1, hcan1, hc, hw, Wiring.std]
    refine ⟨m ++ [.callerClose, .callerRetCtx], _, ?_, run_append_some hrun (run_cons_some hs2 (run_single hs3)), by simp, ?_⟩
    · intro a ha
      rcases List.mem_append.mp ha with ha | ha
      · exact hm a ha
      · simp at ha; rcases ha with rfl | rfl <;> rfl
    · intro _; simpa using hsent

/-- Non-vacuity: `N = 1`, two independent jobs, job 0 running, the context cancelled.  The witness
    schedule (second `Enqueue`, its registration, `Wait`'s close, `Wait`'s context arm) contains no
    `workerEnd`; `Wait` returns `[ctxErr]` while job 0 is still `running`. -/
example :
    let c : Cfg := { N := 1, coe := false, emit := false, deps := [[], []] }
    let more : List Act := [.callerSend, .loopEnq, .callerClose, .callerRetCtx]
    ∃ s, run c (init c) [.callerSend, .loopEnq, .loopDispatch 0, .workerDecide 0, .cancel 0] = some s
      ∧ s.cancelledCtx 0 = true ∧ s.caller.ret = none ∧ s.caller.closed = false ∧ s.ws = [.running 0]
      ∧ more.all (fun a => !a.isWorkerEnd) = true
      ∧ ∃ s', run c s more = some s' ∧ s'.caller.ret = some [.ctxErr] ∧ s'.caller.sent = c.deps.length
          ∧ s'.ws = [.running 0] ∧ wfCfgB c = true := by
  decide

end Sched
